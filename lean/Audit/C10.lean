import Peppi.Props.C10
#print axioms Peppi.Props.C10.C10_any
#print axioms Peppi.Props.C10.C10_any_agree
#print axioms Peppi.Props.C10.skip_gen
#print axioms Peppi.Props.C10.readP_skip_A
#print axioms Peppi.Props.C10.readP_skip_B
#print axioms Peppi.Props.C10.readP_skip_C
#print axioms Peppi.Props.C10.readP_skip_G
#print axioms Peppi.Props.C10.C10_slp_A
#print axioms Peppi.Props.C10.peppiRead_written_skip
#print axioms Peppi.Props.C10.example_A
#print axioms Peppi.Props.C10.example_B
#print axioms Peppi.Props.C10.example_C
#print axioms Peppi.Props.C10.example_G
#print axioms Peppi.Props.C10.example_A_roundtrip
#print axioms Peppi.Props.C10.C10_rewrite_any
#print axioms Peppi.Props.C10.slppRead_written
