import Peppi.Props.C01
#print axioms Peppi.Props.C01.C01_A
#print axioms Peppi.Props.C01.C01_B
#print axioms Peppi.Props.C01.C01_C
#print axioms Peppi.Props.C01.C01_G
#print axioms Peppi.Props.C01.rawSize_A
#print axioms Peppi.Props.C01.rawSize_B
#print axioms Peppi.Props.C01.rawSize_C
#print axioms Peppi.Props.C01.rawSize_G
#print axioms Peppi.Props.C01.portMap_of_gameStart
