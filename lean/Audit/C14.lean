import Peppi.Props.C14
#print axioms Peppi.Props.C14.fromF_norm_intoF
#print axioms Peppi.Props.C14.fromF'_norm_intoF'
#print axioms Peppi.Props.C14.fromCols_toCols
#print axioms Peppi.Props.C14.fromCols_allset
#print axioms Peppi.Props.C14.views_End
#print axioms Peppi.Props.C14.views_Item
#print axioms Peppi.Props.C14.views_ItemMisc
#print axioms Peppi.Props.C14.views_Position
#print axioms Peppi.Props.C14.views_Post
#print axioms Peppi.Props.C14.views_Pre
#print axioms Peppi.Props.C14.views_Start
#print axioms Peppi.Props.C14.views_StateFlags
#print axioms Peppi.Props.C14.views_TriggersPhysical
#print axioms Peppi.Props.C14.views_Velocities
#print axioms Peppi.Props.C14.views_Velocity
