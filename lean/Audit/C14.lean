import Peppi.Props.C14
#print axioms Peppi.Props.C14.fromF_norm_intoF
#print axioms Peppi.Props.C14.fromF'_norm_intoF'
#print axioms Peppi.Props.C14.fromCols_toCols
#print axioms Peppi.Props.C14.fromCols_allset
