import Peppi.Props.C08
#print axioms Peppi.Props.C08.handle_unknown
#print axioms Peppi.Props.C08.runEvents_erase_unknown
#print axioms Peppi.Props.C08.readP_encode_U
#print axioms Peppi.Props.C08.C08_unknown_A
#print axioms Peppi.Props.C08.rowOrEof_extra
#print axioms Peppi.Props.C08.C05_start_long
#print axioms Peppi.Props.C08.C05_end_long
#print axioms Peppi.Props.C08.readP_gen
#print axioms Peppi.Props.C08.readP_irregular
#print axioms Peppi.Props.C08.C08_any
#print axioms Peppi.Props.C08.exampleIrr_A
#print axioms Peppi.Props.C08.exampleIrr_B
#print axioms Peppi.Props.C08.exampleIrr_C
#print axioms Peppi.Props.C08.exampleIrr_G
#print axioms Peppi.Props.C08.handleEvent_extra
#print axioms Peppi.Props.C08.runEvents_longer
#print axioms Peppi.Props.C08.exampleIrr_N
