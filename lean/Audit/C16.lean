import Peppi.Props.C16
#print axioms Peppi.Props.C16.readMap_enc
#print axioms Peppi.Props.C16.peppiRead_written
#print axioms Peppi.Props.C16.writeMap_enc
