import Peppi.Props.C16
#print axioms Peppi.Props.C16.readMap_enc
#print axioms Peppi.Props.C16.peppiRead_written
#print axioms Peppi.Props.C16.unescStr_esc
#print axioms Peppi.Props.C16.parseNatAcc_natDec
#print axioms Peppi.Props.C16.pVal_json
#print axioms Peppi.Props.C16.pEntries_json
#print axioms Peppi.Props.C16.parseMeta_json
#print axioms Peppi.Props.C16.slppRead_written_json
#print axioms Peppi.Props.C16.C16_write_read
#print axioms Peppi.Props.C16.C16_read_write
#print axioms Peppi.Props.C16.encKVs_inj
#print axioms Peppi.Props.C16.writeMap_enc
