import Peppi.Props.C07
#print axioms Peppi.Props.C07.C07_any
#print axioms Peppi.Props.C07.C07_any_skip
#print axioms Peppi.Props.C07.C07_slp_general
#print axioms Peppi.Props.C07.C07_slp_A
#print axioms Peppi.Props.C07.C07_slp_B
#print axioms Peppi.Props.C07.C07_slp_C
#print axioms Peppi.Props.C07.C07_slp_G
#print axioms Peppi.Props.C07.C07_slp_skip_A
#print axioms Peppi.Props.C07.C07_slp_skip_B
#print axioms Peppi.Props.C07.C07_slp_skip_C
#print axioms Peppi.Props.C07.C07_slp_skip_G
#print axioms Peppi.Props.C07.readArrowFrames_ok_iff
#print axioms Peppi.Props.C07.peppiLoop_ok
