import Peppi.Props.C17
#print axioms Peppi.Props.C17.C17_unknown_A
#print axioms Peppi.Props.C17.C17_perm_A
#print axioms Peppi.Props.C17.readP_encode_stream
#print axioms Peppi.Props.C17.frame_step_perm
#print axioms Peppi.Props.C17.run_body_perm
#print axioms Peppi.Props.C17.readP_encode_junk
#print axioms Peppi.Props.C17.encode_declares_actual
#print axioms Peppi.Props.C17.rawSize_A
#print axioms Peppi.Props.C17.rawSize_B
#print axioms Peppi.Props.C17.rawSize_C
#print axioms Peppi.Props.C17.rawSize_G
