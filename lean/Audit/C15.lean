import Peppi.Props.C15
#print axioms Peppi.Props.C15.C15_first
#print axioms Peppi.Props.C15.C15_last
#print axioms Peppi.Props.C15.C15_first_nodup
#print axioms Peppi.Props.C15.C15_first_keeps_first
#print axioms Peppi.Props.C15.C15_last_keeps_last
#print axioms Peppi.Props.C15.C15_first_unique
#print axioms Peppi.Props.C15.C15_last_unique
#print axioms Peppi.Props.C15.C15_last_nodup
#print axioms Peppi.Props.C15.C15_modes_mirror
