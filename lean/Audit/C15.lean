import Peppi.Props.C15
#print axioms Peppi.Props.C15.C15_first
#print axioms Peppi.Props.C15.C15_last
