import Peppi.Props.C19
#print axioms Peppi.Props.C19.fixChar_eq
#print axioms Peppi.Props.C19.fixChar_idem
#print axioms Peppi.Props.C19.toNormalized_ok
#print axioms Peppi.Props.C19.toNormalized_idem
#print axioms Peppi.Props.C19.meleeString_nul
#print axioms Peppi.Props.C19.meleeString_prefix
#print axioms Peppi.Props.C19.meleeField_ok
#print axioms Peppi.Props.C19.player_nameTag
#print axioms Peppi.Props.C19.C19_nameTag_slice
#print axioms Peppi.Props.C19.normSpec_fullwidth
#print axioms Peppi.Props.C19.normSpec_other
#print axioms Peppi.Props.C19.normSpec_image
#print axioms Peppi.Props.C19.normSpec_idem
#print axioms Peppi.Props.C19.toNormalized_image
#print axioms Peppi.Props.C19.toNormalized_fixed
#print axioms Peppi.Props.C19.meleeString_cases
