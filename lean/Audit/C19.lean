import Peppi.Props.C19
#print axioms Peppi.Props.C19.fixChar_eq
#print axioms Peppi.Props.C19.fixChar_idem
#print axioms Peppi.Props.C19.toNormalized_ok
#print axioms Peppi.Props.C19.toNormalized_idem
#print axioms Peppi.Props.C19.meleeString_nul
#print axioms Peppi.Props.C19.meleeString_prefix
#print axioms Peppi.Props.C19.meleeField_ok
#print axioms Peppi.Props.C19.player_nameTag
#print axioms Peppi.Props.C19.C19_nameTag_slice
