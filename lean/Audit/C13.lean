import Peppi.Props.C13
#print axioms Peppi.Props.C13.C13_expFrames
#print axioms Peppi.Props.C13.colsOf_rowView
#print axioms Peppi.Props.C13.toCols_row
#print axioms Peppi.Props.C13.items_slice
#print axioms Peppi.Props.C13.views_End
#print axioms Peppi.Props.C13.views_Item
#print axioms Peppi.Props.C13.views_ItemMisc
#print axioms Peppi.Props.C13.views_Position
#print axioms Peppi.Props.C13.views_Post
#print axioms Peppi.Props.C13.views_Pre
#print axioms Peppi.Props.C13.views_Start
#print axioms Peppi.Props.C13.views_StateFlags
#print axioms Peppi.Props.C13.views_TriggersPhysical
#print axioms Peppi.Props.C13.views_Velocities
#print axioms Peppi.Props.C13.views_Velocity
#print axioms Peppi.Props.C13.parseEvent_extends
