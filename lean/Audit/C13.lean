import Peppi.Props.C13
#print axioms Peppi.Props.C13.C13_expFrames
#print axioms Peppi.Props.C13.colsOf_rowView
#print axioms Peppi.Props.C13.toCols_row
#print axioms Peppi.Props.C13.items_slice
