import Peppi.Props.C05
#print axioms Peppi.Props.C05.C05_start
#print axioms Peppi.Props.C05.C05_end
#print axioms Peppi.Props.C05.C05_start_long
#print axioms Peppi.Props.C05.C05_end_long
#print axioms Peppi.Props.C05.gameStart_bytes
#print axioms Peppi.Props.C05.gameEnd_bytes
#print axioms Peppi.Props.C05.player_port
