import Peppi.Props.C18
#print axioms Peppi.Props.C18.peppiLoop_skip_other
#print axioms Peppi.Props.C18.peppiRead_written
#print axioms Peppi.Props.C18.assertCurrentVersion_iff
#print axioms Peppi.Props.C18.tarArchive_starts
#print axioms Peppi.Props.C18.tarRead_archive
#print axioms Peppi.Props.C18.tarEntry_length
#print axioms Peppi.Props.C18.parseOctal_octal
#print axioms Peppi.Props.C18.slppRead_written
#print axioms Peppi.Props.C18.slppWrite_signature
#print axioms Peppi.Props.C18.tarArchive_length_ge
#print axioms Peppi.Props.C18.tarScan_cut
#print axioms Peppi.Props.C18.slppReadL_written
#print axioms Peppi.Props.C18.decPeppiJ_enc
#print axioms Peppi.Props.C18.decPeppiJ_encV
#print axioms Peppi.Props.C18.slppRead_written_json2
