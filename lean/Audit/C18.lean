import Peppi.Props.C18
#print axioms Peppi.Props.C18.peppiLoop_skip_other
#print axioms Peppi.Props.C18.peppiRead_written
#print axioms Peppi.Props.C18.assertCurrentVersion_iff
