import Peppi.Props.C03
#print axioms Peppi.Props.C03.C03_generic
#print axioms Peppi.Props.C03.pre_spec
#print axioms Peppi.Props.C03.post_spec
#print axioms Peppi.Props.C03.start_spec
#print axioms Peppi.Props.C03.item_spec
#print axioms Peppi.Props.C03.end_spec
#print axioms Peppi.Props.C03.pre_ok
#print axioms Peppi.Props.C03.post_ok
#print axioms Peppi.Props.C03.start_ok
#print axioms Peppi.Props.C03.item_ok
#print axioms Peppi.Props.C03.end_ok
#print axioms Peppi.Props.C03.C03_pre
#print axioms Peppi.Props.C03.C03_post
#print axioms Peppi.Props.C03.C03_start
#print axioms Peppi.Props.C03.C03_item
#print axioms Peppi.Props.C03.C03_end
