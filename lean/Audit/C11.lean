import Peppi.Props.C11
#print axioms Peppi.Props.C11.C10_any_agree
#print axioms Peppi.Props.C11.C11_range_A
#print axioms Peppi.Props.C11.readExactS_flat
#print axioms Peppi.Props.C11.formatHash_length
#print axioms Peppi.Props.C11.formatHash_prefix
#print axioms Peppi.Props.C11.hexN_lower
#print axioms Peppi.Props.C11.formatHash_inj
#print axioms Peppi.Props.C11.C11_range_any
#print axioms Peppi.Props.C11.C11_value_any
#print axioms Peppi.Props.C11.frag
#print axioms Peppi.Props.C11.run_readProg
#print axioms Peppi.Props.C11.readSlpS_frag
#print axioms Peppi.Props.C11.decPeppiJ_enc
#print axioms Peppi.Props.C11.hashStr_inj
