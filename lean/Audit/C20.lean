import Peppi.Props.C20
#print axioms Peppi.Props.C20.Ver_gte_iff
#print axioms Peppi.Props.C20.Ver_lt_iff
#print axioms Peppi.Props.C20.Ver_gte_mono
#print axioms Peppi.Props.C20.Ver_gte_trans
#print axioms Peppi.Props.C20.Ver_parse_display
#print axioms Peppi.Props.C20.parseU8_iff
#print axioms Peppi.Props.C20.Ver_parse_iff
#print axioms Peppi.Props.C20.Ver_parse_total
#print axioms Peppi.Props.C20.Ver_gte_patch
#print axioms Peppi.Props.C20.Ver_lt_patch
#print axioms Peppi.Props.C20.Ver_gte_or_lt
