import Peppi.Props.C09
#print axioms Peppi.Props.C09.assertMaxVersion_iff
#print axioms Peppi.Props.C09.C09_slp_refuse
#print axioms Peppi.Props.C09.C09_slpp_refuse
#print axioms Peppi.Props.C09.C09_both
#print axioms Peppi.Props.C09.C09_guard_passes
