import Peppi.Props.C09
#print axioms Peppi.Props.C09.assertMaxVersion_iff
#print axioms Peppi.Props.C09.C09_slp_refuse
#print axioms Peppi.Props.C09.C09_slpp_refuse
#print axioms Peppi.Props.C09.C09_both
#print axioms Peppi.Props.C09.C09_guard_passes
#print axioms Peppi.Props.C09.Ver_le_total
#print axioms Peppi.Props.C09.Ver_le_trans
#print axioms Peppi.Props.C09.Ver_le_antisymm
#print axioms Peppi.Props.C09.assertMaxVersion_le
#print axioms Peppi.Props.C09.assertMaxVersion_down
#print axioms Peppi.Props.C09.assertMaxVersion_up
#print axioms Peppi.Props.C09.assertMaxVersion_boundary
