import Peppi.Props.C12
#print axioms Peppi.Props.C12.C12_final
#print axioms Peppi.Props.C12.eventLoop_extends
#print axioms Peppi.Props.C12.parseEvent_extends
#print axioms Peppi.Props.C12.handleEvent_extends
#print axioms Peppi.Props.C12.parseEvent_count
#print axioms Peppi.Props.C12.handleEvent_ids
#print axioms Peppi.Props.C12.readExactS_flat
#print axioms Peppi.Props.C12.frag
#print axioms Peppi.Props.C12.run_readProg
#print axioms Peppi.Props.C12.readSlpS_frag
#print axioms Peppi.Props.C12.parseEventS_frag
#print axioms Peppi.Props.C12.parseHeaderS_frag
#print axioms Peppi.Props.C12.parseStartS_frag
#print axioms Peppi.Props.C12.local_parseStart
#print axioms Peppi.Props.C12.local_parseEvent
#print axioms Peppi.Props.C12.local_parseMetadata
