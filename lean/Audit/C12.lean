import Peppi.Props.C12
#print axioms Peppi.Props.C12.parseEvent_count
#print axioms Peppi.Props.C12.handleEvent_ids
#print axioms Peppi.Props.C12.readExactS_flat
