import Peppi.Props.C02
#print axioms Peppi.Props.C02.peppiRead_written
#print axioms Peppi.Props.C02.fromF_norm_intoF
#print axioms Peppi.Props.C02.fromF'_norm_intoF'
#print axioms Peppi.Props.C02.le_roundtrip
#print axioms Peppi.Props.C02.C01_A
#print axioms Peppi.Props.C02.C01_B
#print axioms Peppi.Props.C02.C01_C
#print axioms Peppi.Props.C02.C01_G
