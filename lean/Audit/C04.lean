import Peppi.Props.C04
#print axioms Peppi.Props.C04.readP_encode_A
#print axioms Peppi.Props.C04.readP_encode_B
#print axioms Peppi.Props.C04.readP_encode_C
#print axioms Peppi.Props.C04.readP_encode_G
#print axioms Peppi.Props.C04.read_encode_A
#print axioms Peppi.Props.C04.frames_A
#print axioms Peppi.Props.C04.frames_B
#print axioms Peppi.Props.C04.frames_C
#print axioms Peppi.Props.C04.portMap_of_gameStart
