import Peppi.Props.C06
#print axioms Peppi.Props.C06.readSlp_noPanic
#print axioms Peppi.Props.C06.eventLoop_fuel
#print axioms Peppi.Props.C06.ubj_fuel
#print axioms Peppi.Props.C06.parseEvent_consumes
#print axioms Peppi.Props.C06.readArrowFrames_noPanic
#print axioms Peppi.Props.C06.run_shrinks
#print axioms Peppi.Props.C06.run_readProg
#print axioms Peppi.Props.C06.parseStart_safe
#print axioms Peppi.Props.C06.parseEvent_safe
#print axioms Peppi.Props.C06.parseMetadata_noPanic
#print axioms Peppi.Props.C06.readMap_noPanic
