import Peppi.JsonText
import Peppi.HashValue
import Peppi.Tar
import Peppi.TarCut
import Peppi.PeppiJson
import Peppi.ArrowDumpA
import Peppi.ReadStream
import Peppi.Write
import Peppi.Utf8
import Peppi.PeppiFmt
import Peppi.UbjsonProof
import Peppi.Json
import Peppi.Arrow
import Peppi.Rollbacks
import Peppi.Version
import Peppi.ShiftJis
import Peppi.Lemmas.C09P
import Peppi.Lemmas.PeppiRead
open Peppi

def hexVal (c : Char) : Nat := if c.isDigit then c.toNat - 48 else if 'a' ≤ c ∧ c ≤ 'f' then c.toNat - 87 else 0
def parseHex (s : String) : Bytes :=
  if s == "-" then [] else
  let rec go : List Char → Bytes → Bytes
    | a :: b :: t, acc => go t (UInt8.ofNat (hexVal a * 16 + hexVal b) :: acc)
    | _, acc => acc.reverse
  go s.toList []

def T : TextOracle := { sjisOk := fun _ => true, utf8Ok := validUtf8 }

def showValid : Option (List Bool) → String
  | none => "-"
  | some bs => String.ofList (bs.map fun b => if b then '1' else '0')

def rowSum (r : Option Row) : Nat := match r with | none => 0 | some vs => vs.foldl (fun a x => (a * 31 + x) % 1000000007) 7
def colsSum (c : SCols) : Nat := c.foldl (fun a r => (a * 131 + rowSum r) % 1000000007) 1

mutual
  partial def treeDump : Tree → String
    | .str s => "s:" ++ hexOf s
    | .int n => "i:" ++ toString n
    | .map m => "{" ++ kvsDump m ++ "}"
  partial def kvsDump : KVs → String
    | .nil => ""
    | .cons k v rest => hexOf k ++ "=" ++ treeDump v ++ ";" ++ kvsDump rest
end

/-- before 3.7 the Frame End struct has no column at all, so the real `End` cannot tell how many rows it has:
    canonically it has one (empty) row per frame id -/
def endRows (g : Game) : Option SCols :=
  g.frames.fend   -- below 3.7 the rows are member-less; there is one per Frame End event (the real struct counts them in its validity bitmap)

def summary (g : Game) (input : Bytes) : String :=
  let f := g.frames
  let ports := f.ports.map fun p =>
    s!"P{p.port}:{p.leader.pre.length}/{p.leader.post.length}/{showValid p.leader.valid}/{colsSum p.leader.pre}/{colsSum p.leader.post}" ++
    (match p.follower with | none => "" | some d => s!"+F:{d.pre.length}/{d.post.length}/{showValid d.valid}/{colsSum d.pre}/{colsSum d.post}")
  s!"ok v={g.start.version.major}.{g.start.version.minor}.{g.start.version.patch} ids={f.id} ports={ports} start={f.start.map (·.length)}/{f.start.map colsSum} end={(endRows g).map (·.length)}/{(endRows g).map colsSum} off={f.itemOff} item={f.item.map (·.length)}/{f.item.map colsSum} gecko={g.gecko.map fun c => (c.actualSize, c.bytes.length)} dbl={g.doubleGameEnd} end?={g.fend.isSome} meta?={g.metadata.isSome} hashed={match g.hashStr input with | some h => String.ofList h | none => "none"}"

/-- one entry of the abstract `.slpp` archive as the harness describes it (externals already applied) -/
def parseEntry (tok : String) : Option (PEntry String String) :=
  match tok.splitOn ":" with
  | ["ot"] => some .other
  | ["pj", "err"] => some (.peppiJson (.err "json"))
  | "pj" :: "ok" :: vok :: rest =>
    -- the hash itself contains a colon (`xxh3:...`): everything between the version flag and the last field
    match rest.reverse with
    | q :: hrev =>
      let hash := ":".intercalate hrev.reverse
      some (.peppiJson (.ok ⟨vok == "1", if hash == "-" then none else some hash, if q == "-" then none else some (q == "1")⟩))
    | [] => none
  | ["md", "obj"] => some (.metadataJson (.ok (some "m")))
  | ["md", "null"] => some (.metadataJson (.ok none))
  | ["md", "bad"] => some (.metadataJson (.err "json"))
  | ["sr", h] => some (.startRaw (parseHex h))
  | ["er", h] => some (.endRaw (parseHex h))
  | ["gk", h] => some (.geckoRaw (parseHex h))
  | ["fa", m, items] =>
    let its := if items.isEmpty then [] else (items.splitOn ",").map fun t =>
      if t.startsWith "c" then SItem.chunk (t.drop 1).toString else if t == "w" then SItem.waiting else SItem.fail
    some (.framesArrow (m == "1") its)
  | ["fa", m] => some (.framesArrow (m == "1") [])
  | _ => none

/-- the incremental API driven like the harness drives the real one: header, start, one event per call
    while `bytes_read < raw_len`, then what `read` does after its loop -/
partial def incLoop (rawLen : Nat) (ps : ParseState) (bs : Bytes) (acc : List String) : Res (List String × ParseState × Bytes) :=
  if rawLen = 0 ∨ ps.bytesRead < rawLen then   -- (raw length 0: up to Game End, as `read` does)
    match parseEvent ps bs with
    | .ok ((code, ps'), rest) =>
      let acc := acc ++ [s!"{ps'.st.frames.id.length}:{ps'.bytesRead}"]
      if code = EV_GAME_END then .ok (acc, ps', rest) else incLoop rawLen ps' rest acc
    | .err e => .err e
    | .panic p => .panic p
  else .ok (acc, ps, bs)

def incRun (input : Bytes) : Res (List String) :=
  match parseHeader input with
  | .ok (rawLen, rest) =>
    (match parseStart T rest with
     | .ok (ps, rest) =>
       (match incLoop rawLen ps rest [s!"{ps.st.frames.id.length}:{ps.bytesRead}"] with
        | .ok (tr, ps', rest') =>
          (match readTail T rawLen ps' rest' with
           | .ok _ => .ok tr
           | .err e => .err e
           | .panic p => .panic p)
        | .err e => .err e
        | .panic p => .panic p)
     | .err e => .err e
     | .panic p => .panic p)
  | .err e => .err e
  | .panic p => .panic p

partial def loop (h : IO.FS.Stream) : IO Unit := do
  let line ← h.getLine
  if line.isEmpty then return ()
  match line.trimAscii.toString.splitOn " " with
  | ["read", skip, hash, hex] =>
    let r := readSlp T { skipFrames := skip == "1", computeHash := hash == "1" } (parseHex hex)
    match r with
    | .ok g => IO.println (summary g (parseHex hex))
    | .err e => IO.println s!"err {e}"
    | .panic p => IO.println s!"panic {p}"
  | ["read", skip, hash, "sj0", hex] =>
    -- the external Shift-JIS decoder rejects a name field of this file's start block (verdict passed by the harness)
    let r := readSlp { T with sjisOk := fun _ => false } { skipFrames := skip == "1", computeHash := hash == "1" } (parseHex hex)
    match r with
    | .ok g => IO.println (summary g (parseHex hex))
    | .err e => IO.println s!"err {e}"
    | .panic p => IO.println s!"panic {p}"
  | ["reads", skip, hash, sj, plan, hex] =>
    -- the reader as a program of exact reads (`readProg`) over a source that delivers the input in pieces of the given
    -- sizes (cycled), behind the hashing wrapper
    let b := parseHex hex
    let sizes := ((plan.splitOn ",").map String.toNat!).map (fun k => if k == 0 then 1 else k)
    let rec cut (fuel : Nat) (i : Nat) (bs : Bytes) (acc : List Bytes) : List Bytes :=
      match fuel with
      | 0 => acc.reverse
      | fuel + 1 => if bs.isEmpty then acc.reverse else
        let k := sizes.getD (i % sizes.length) 1
        cut fuel (i + 1) (bs.drop k) (bs.take k :: acc)
    let s := cut (b.length + 1) 0 b []
    match readSlpS { T with sjisOk := fun _ => sj == "1" } { skipFrames := skip == "1", computeHash := hash == "1" } s with
    | .ok (g, _) => IO.println (summary g b)
    | .err e => IO.println s!"err {e}"
    | .panic p => IO.println s!"panic {p}"
  | ["xxh3", hex] =>
    -- the XXH3-64 model on any byte string (an empty one arrives as a missing token)
    IO.println s!"ok {String.ofList (formatHash (xxh3_64 (parseHex hex)))}"
  | ["xxh3"] => IO.println s!"ok {String.ofList (formatHash (xxh3_64 []))}"
  | ["tarchk", hex] =>
    -- the byte-level tar model on a real archive: list it, rebuild it from the listing, compare byte for byte
    let a := parseHex hex
    match tarRead (a.length / 512 + 2) a with
    | .ok (es, _) =>
      let b := tarArchive es
      let first := match es.head? with | some e => String.fromUTF8! (ByteArray.mk e.1.toArray) | none => "-"
      let sig := a.take 10 == "peppi.json".toUTF8.toList
      if b == a then IO.println s!"ok same n={es.length} first={first} sig={sig}"
      else IO.println s!"ok differ n={es.length} first={first} sig={sig} model_len={b.length} real_len={a.length}"
    | .err e => IO.println s!"err {e}"
    | .panic p => IO.println s!"panic {p}"
  | ["tarscan", hex] =>
    -- the lazy tar iterator on any byte string (a prefix of a written archive): members yielded, then how it ended
    let a := parseHex hex
    let r := tarScan (a.length / 512 + 2) a
    let items := r.1.map fun it => match it with
      | .entry n b => s!"E:{String.fromUTF8! (ByteArray.mk n.toArray)}:{b.length}:{(b.foldl (fun acc x => (acc * 31 + x.toNat) % 4294967296) 7)}"
      | .broken => "B"
    let broken := r.1.any fun it => match it with | .broken => true | _ => false
    IO.println (String.intercalate " " (items ++ (if broken then [] else [s!"t={if r.2 then 1 else 0}"])))
  | ["rt", hex] =>
    let r := (readSlp T {} (parseHex hex)).bind writeSlp
    match r with
    | .ok b => IO.println ("ok " ++ String.join (b.map fun x => String.ofList (Nat.toDigits 16 (x.toNat + 256)).tail))
    | .err e => IO.println s!"err {e}"
    | .panic p => IO.println s!"panic {p}"
  | ["pwrite", sj, hash, hex] =>
    match readSlp { T with sjisOk := fun _ => sj == "1" } {} (parseHex hex) with
    | .ok g => (match peppiEntries g (if hash == "-" then none else some hash) with
      | .ok es => IO.println ("ok " ++ "|".intercalate (es.map fun e => e.1 ++ "=" ++ e.2))
      | .err e => IO.println s!"err {e}"
      | .panic p => IO.println s!"panic {p}")
    | .err e => IO.println s!"err {e}"
    | .panic p => IO.println s!"panic {p}"
  | ["ubj", hex] =>
    -- metadata map body (after the opening brace), must end with the closing brace
    match readMap validUtf8 (parseHex hex) with
    | .ok (m, rest) =>
      -- `read` then expects the closing brace of the file's top-level map (`expect_bytes(&[0x7d])`)
      if rest.head? != some 0x7d then IO.println "err expected bytes" else
      (match writeMap m with
       | .ok back => IO.println s!"ok {kvsDump m} rest={rest.length} back={hexOf back}"
       | .err e => IO.println s!"err {e}"
       | .panic p => IO.println s!"panic {p}")
    | .err e => IO.println s!"err {e}"
    | .panic p => IO.println s!"panic {p}"
  | ["peppiw", a, b, c, hhex, q] =>
    -- the JSON text of peppi.json (model of serde_json::to_vec(&Peppi {..})) for a version triple, an optional hash string
    -- (UTF-8 bytes in hex, "-" for None) and optional quirks ("-", "0", "1")
    let h : Option String := if hhex == "-" then none else String.fromUTF8? (ByteArray.mk (parseHex (hhex.drop 1).toString).toArray)
    let qq : Option Bool := if q == "-" then none else some (q == "1")
    if hhex != "-" && h.isNone then IO.println "bad-op" else
    IO.println s!"ok {hexOf (encPeppiV a.toNat! b.toNat! c.toNat! h qq)}"
  | ["peppir", hex] =>
    -- the reader side on a real peppi.json text: version verdict, hash, quirks
    match decPeppiJ (parseHex hex) with
    | .ok p =>
      let hs := match p.hash with | some s => hexOf s.toByteArray.data.toList | none => "-"
      let qs := match p.quirks with | some true => "1" | some false => "0" | none => "-"
      IO.println s!"ok vok={p.versionOk} hash={hs} quirks={qs}"
    | .err e => IO.println s!"err {e}"
    | .panic p => IO.println s!"panic {p}"
  | ["jsonw", hex] =>
    -- the JSON text of the metadata tree (model of serde_json::to_vec), and whether the model's reader returns the tree from it
    match readMap validUtf8 (parseHex hex) with
    | .ok (m, _) =>
      let j := jsonMeta (some m)
      let back := match parseMeta j with | .ok (some m') => kvsDump m' == kvsDump m | _ => false
      IO.println s!"ok {hexOf j} back={back}"
    | .err e => IO.println s!"err {e}"
    | .panic p => IO.println s!"panic {p}"
  | ["start", sj, hex] =>
    -- the Shift-JIS decoder is external: the harness tells us whether it accepts the name slices of this block
    match gameStart { T with sjisOk := fun _ => sj == "1" } (parseHex hex) with
    | .ok st => IO.println ("ok " ++ startJson st)
    | .err e => IO.println s!"err {e}"
    | .panic p => IO.println s!"panic {p}"
  | ["end", hex] =>
    match gameEnd (parseHex hex) with
    | .ok e => IO.println ("ok " ++ endJson e)
    | .err e => IO.println s!"err {e}"
    | .panic p => IO.println s!"panic {p}"
  | ["into", hex] =>
    match readSlp T {} (parseHex hex) with
    | .ok g => (match frameDump g.start.version g.frames with
      | .ok d => IO.println ("ok " ++ d)
      | .err e => IO.println s!"err {e}"
      | .panic p => IO.println s!"panic {p}")
    | .err e => IO.println s!"err {e}"
    | .panic p => IO.println s!"panic {p}"
  | ["intoa", hex] =>
    -- the proof-level Arrow model (intoF' + normF) of the frames of this replay, as a nameless structural dump
    match readSlp T {} (parseHex hex) with
    | .ok g => if g.frames.ports.isEmpty then IO.println "panic no ports" else IO.println ("ok " ++ dumpAF (exportedFrames g))
    | .err e => IO.println s!"err {e}"
    | .panic p => IO.println s!"panic {p}"
  | ["gte", a, b, m, mi] =>
    let v : Ver := ⟨a.toNat!, b.toNat!, 0⟩
    IO.println s!"{v.gte m.toNat! mi.toNat!} {v.lt m.toNat! mi.toNat!}"
  | ["vdisplay", a, b, c] => IO.println (String.ofList (Ver.display ⟨a.toNat!, b.toNat!, c.toNat!⟩))
  | ["vparse", hex] =>
    let cs := (String.fromUTF8? (ByteArray.mk (parseHex hex).toArray)).getD "\uFFFD" |>.toList
    match Ver.parse cs with
    | .ok v => IO.println s!"ok {v.major} {v.minor} {v.patch}"
    | _ => IO.println "err"
  | ["vparse"] => IO.println "err"
  | ["roll", mode, ids] =>
    let l : List Int := if ids.isEmpty || ids == "-" then [] else (ids.splitOn ",").map String.toInt!
    match rollbacks (if mode == "first" then .exceptFirst else .exceptLast) l with
    | .ok m => IO.println ("ok " ++ String.ofList (m.map fun b => if b then '1' else '0'))
    | .err e => IO.println s!"err {e}"
    | .panic p => IO.println s!"panic {p}"
  | ["roll", mode] =>
    match rollbacks (if mode == "first" then .exceptFirst else .exceptLast) [] with
    | .ok m => IO.println ("ok " ++ String.ofList (m.map fun b => if b then '1' else '0'))
    | _ => IO.println "err"
  | ["prefixes", skip, hex] =>
    let b := parseHex hex
    let sk := skip == "1"
    let bad := (List.range b.length).filter fun n =>
      match readSlp T { skipFrames := sk, computeHash := n % 2 == 0 } (b.take n) with
      | .err _ => false
      | _ => true
    let full := (readSlp T { skipFrames := sk } b).isOk
    if bad.isEmpty then IO.println s!"allerr {b.length} full={full}" else IO.println s!"bad {bad.take 5} full={full}"
  | ["inc", hex] =>
    match incRun (parseHex hex) with
    | .ok tr => IO.println ("ok " ++ ",".intercalate tr)
    | .err e => IO.println s!"err {e}"
    | .panic p => IO.println s!"panic {p}"
  | ["inccut", cut, hex] =>
    -- the incremental API on a stream that ends inside the raw element: an error (never a finished game, `local_parseEvent`)
    match incRun ((parseHex hex).take cut.toNat!) with
    | .ok tr => IO.println ("ok " ++ ",".intercalate tr)
    | .err e => IO.println s!"err {e}"
    | .panic p => IO.println s!"panic {p}"
  | ["norm", cps] =>
    match toNormalized ((cps.splitOn ",").map String.toNat!) with
    | .ok l => IO.println ("ok " ++ ",".intercalate (l.map toString))
    | .err e => IO.println s!"err {e}"
    | .panic p => IO.println s!"panic {p}"
  | ["pvgate", a, b, c] =>
    match assertCurrentVersion (a.toNat!, b.toNat!, c.toNat!) with
    | .ok _ => IO.println "ok"
    | _ => IO.println "err"
  | ["pread", skip, trailer, toks] =>
    match (toks.splitOn ";").mapM parseEntry with
    | none => IO.println "bad-op"
    | some es =>
      (match peppiRead T (skip == "1") (trailer == "1") es with
       | .ok g =>
         let v := g.start.version
         let gk := match g.gecko with | some (b, n) => s!"({n},{b.length})" | none => "none"
         IO.println s!"ok v={v.major}.{v.minor}.{v.patch} end?={g.fend.isSome} meta={if g.metadata.isSome then "some" else "none"} gecko={gk} frames={(g.frames.getD "0")} hash={g.hash.getD "none"} quirks={match g.quirks with | some b => toString b | none => "none"}"
       | .err e => IO.println s!"err {e}"
       | .panic p => IO.println s!"panic {p}")
  | ["vgrid", m, ps] =>
    -- the writers' version guard on every (minor, patch) of one major: '1' = refused
    let pl := (ps.splitOn ",").map String.toNat!
    let bits := (List.range 256).flatMap fun mi => pl.map fun p =>
      match assertMaxVersion ⟨m.toNat!, mi, p⟩ with | .ok _ => '0' | _ => '1'
    IO.println ("grid " ++ String.ofList bits)
  | ["consts"] =>
    IO.println s!"max={MAX_SUPPORTED_VERSION.major}.{MAX_SUPPORTED_VERSION.minor}.{MAX_SUPPORTED_VERSION.patch} first_index={FIRST_INDEX} min_peppi={PEPPI_MIN_VERSION.1}.{PEPPI_MIN_VERSION.2.1}.{PEPPI_MIN_VERSION.2.2}"
  | _ => IO.println "n/a"
  loop h

def main : IO Unit := do loop (← IO.getStdin)
