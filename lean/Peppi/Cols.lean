import Peppi.Extracted
import Peppi.Start
/-! Column store in the rows model (see DESIGN §2.1): `frame::mutable::{Data, PortData, Frame}`. -/
namespace Peppi

abbrev Row := List Nat
/-- all columns of one generated struct: one optional row per pushed entry (`none` = `push_null`) -/
abbrev SCols := List (Option Row)

/-- mutable::Data -/
structure DCols where
  pre : SCols
  post : SCols
  valid : Option (List Bool)
deriving Repr, DecidableEq

def DCols.empty : DCols := ⟨[], [], none⟩
def DCols.len (d : DCols) : Nat := d.pre.length
/-- `Data::push_null` -/
def DCols.pushNull (d : DCols) : DCols :=
  { valid := some ((d.valid.getD (List.replicate d.len true)) ++ [false]),
    pre := d.pre ++ [none], post := d.post ++ [none] }
/-- the pre-frame arm's two pushes: `validity.push(true)` (if a bitmap exists) and `pre.read_push` -/
def DCols.pushPre (d : DCols) (r : Row) : DCols :=
  { d with valid := d.valid.map (· ++ [true]), pre := d.pre ++ [some r] }
/-- the post-frame arm: `post.read_push` -/
def DCols.pushPost (d : DCols) (r : Row) : DCols := { d with post := d.post ++ [some r] }

/-- `while p.len() < len { push_null }` -/
def DCols.padTo (d : DCols) (len : Nat) : DCols :=
  if d.len < len then (d.pushNull).padTo len else d
termination_by len - d.len
decreasing_by simp [DCols.pushNull, DCols.len] at *; omega

/-- mutable::PortData -/
structure PCols where
  port : Nat
  leader : DCols
  follower : Option DCols
deriving Repr, DecidableEq

/-- update the leader or the follower columns of a port -/
def PCols.updSlot (pc : PCols) (fol : Bool) (f : DCols → DCols) : PCols :=
  if fol then { pc with follower := pc.follower.map f } else { pc with leader := f pc.leader }

/-- mutable::Frame -/
structure FCols where
  id : List Int
  ports : List PCols
  start : Option SCols
  fend : Option SCols
  itemOff : Option (List Nat)
  item : Option SCols
deriving Repr, DecidableEq

/-- `Frame::with_capacity` -/
def FCols.new (v : Ver) (ports : List PortOccupancy) : FCols :=
  { id := [],
    ports := ports.map fun p => ⟨p.port, DCols.empty, if p.follower then some DCols.empty else none⟩,
    start := if v.gte 2 2 then some [] else none,
    fend := if v.gte 3 0 then some [] else none,
    itemOff := if v.gte 3 0 then some [0] else none,
    item := if v.gte 3 0 then some [] else none }

def FCols.len (f : FCols) : Nat := f.id.length

/-- `ParseState::frame_close` -/
def FCols.close (f : FCols) : FCols :=
  { f with ports := f.ports.map fun p =>
      { p with leader := p.leader.padTo f.len, follower := p.follower.map (·.padTo f.len) } }

/-- two's-complement reading of a 32-bit pattern -/
def toInt32 (n : Nat) : Int := if n < 2^31 then (n : Int) else (n : Int) - 2^32
def ofInt32 (i : Int) : Nat := if 0 ≤ i then i.toNat else (i + 2^32).toNat

end Peppi
