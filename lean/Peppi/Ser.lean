import Peppi.Lemmas.ArrowFrame
/-! A self-delimiting byte encoding of Arrow frame trees (`AFrame`), with its decoder and the round-trip law — used only to
    show that the laws asked of the external Arrow IPC codec (`Codec.frames_rt` with `norm := normF`) are satisfiable at the
    type the end-to-end theorem `C02_bytes` needs. -/
namespace Peppi

/-- a serializer: encoder, decoder that returns the rest, and the law that decoding an encoding gives the value back -/
structure Ser (α : Type) where
  enc : α → Bytes
  dec : Bytes → Option (α × Bytes)
  rt : ∀ x rest, dec (enc x ++ rest) = some (x, rest)

/-- unary naturals: `n` ones and a zero -/
def decUn : Bytes → Option (Nat × Bytes)
  | [] => none
  | 0 :: r => some (0, r)
  | _ :: r => (decUn r).map fun p => (p.1 + 1, p.2)

def Ser.nat : Ser Nat where
  enc n := List.replicate n 1 ++ [0]
  dec := decUn
  rt := by
    intro n rest
    induction n with
    | zero => rfl
    | succ k ih =>
      have : List.replicate (k + 1) (1 : UInt8) ++ [0] ++ rest = 1 :: (List.replicate k 1 ++ [0] ++ rest) := by
        simp [List.replicate_succ]
      rw [this]
      have h1 : decUn (1 :: (List.replicate k 1 ++ [0] ++ rest)) = (decUn (List.replicate k 1 ++ [0] ++ rest)).map fun p => (p.1 + 1, p.2) := by
        rw [decUn]; simp
      rw [h1, ih]; rfl

def Ser.bool : Ser Bool where
  enc b := [if b then 1 else 0]
  dec bs := match bs with | [] => none | b :: r => some (b != 0, r)
  rt := by intro b rest; cases b <;> rfl

def Ser.prod {α β : Type} (a : Ser α) (b : Ser β) : Ser (α × β) where
  enc p := a.enc p.1 ++ b.enc p.2
  dec bs := match a.dec bs with
    | none => none
    | some (x, r) => match b.dec r with
      | none => none
      | some (y, r') => some ((x, y), r')
  rt := by
    intro p rest
    simp only [List.append_assoc, a.rt, b.rt]

/-- transport along a pair of functions with `g ∘ f = id` -/
def Ser.iso {α β : Type} (s : Ser α) (f : β → α) (g : α → β) (h : ∀ x, g (f x) = x) : Ser β where
  enc x := s.enc (f x)
  dec bs := (s.dec bs).map fun p => (g p.1, p.2)
  rt := by intro x rest; simp only [s.rt, Option.map_some, h]

def Ser.int : Ser Int :=
  (Ser.prod Ser.bool Ser.nat).iso (fun i => (decide (i < 0), i.natAbs)) (fun p => if p.1 then -(p.2 : Int) else (p.2 : Int)) (by
    intro i
    by_cases h : i < 0
    · simp only [h, decide_true, ↓reduceIte]; omega
    · simp only [h, decide_false, Bool.false_eq_true, ↓reduceIte]; omega)

def Ser.option {α : Type} (s : Ser α) : Ser (Option α) where
  enc o := match o with | none => [0] | some x => 1 :: s.enc x
  dec bs := match bs with
    | [] => none
    | 0 :: r => some (none, r)
    | _ :: r => (s.dec r).map fun p => (some p.1, p.2)
  rt := by
    intro o rest
    cases o with
    | none => rfl
    | some x =>
      show (match (1 : UInt8) :: (s.enc x ++ rest) with
        | [] => none
        | 0 :: r => some (none, r)
        | _ :: r => (s.dec r).map fun (p : α × Bytes) => (some p.1, p.2)) = _
      simp [s.rt]

def decN {α : Type} (s : Ser α) : Nat → Bytes → Option (List α × Bytes)
  | 0, bs => some ([], bs)
  | n + 1, bs => match s.dec bs with
    | none => none
    | some (x, r) => match decN s n r with
      | none => none
      | some (xs, r') => some (x :: xs, r')

theorem decN_enc {α : Type} (s : Ser α) (l : List α) (rest : Bytes) :
    decN s l.length (l.flatMap s.enc ++ rest) = some (l, rest) := by
  induction l with
  | nil => rfl
  | cons x t ih =>
    simp only [List.length_cons, List.flatMap_cons, List.append_assoc, decN, s.rt, ih]

def Ser.list {α : Type} (s : Ser α) : Ser (List α) where
  enc l := Ser.nat.enc l.length ++ l.flatMap s.enc
  dec bs := match Ser.nat.dec bs with
    | none => none
    | some (n, r) => decN s n r
  rt := by
    intro l rest
    simp only [List.append_assoc, Ser.nat.rt, decN_enc]

def Ser.aStruct : Ser AStruct :=
  (Ser.prod (Ser.list (Ser.list Ser.nat)) (Ser.prod (Ser.option (Ser.list Ser.bool)) Ser.nat)).iso
    (fun a => (a.cols, a.valid, a.len)) (fun p => ⟨p.1, p.2.1, p.2.2⟩) (by intro a; rfl)

def Ser.aData : Ser AData :=
  (Ser.prod Ser.aStruct (Ser.prod Ser.aStruct (Ser.option (Ser.list Ser.bool)))).iso
    (fun a => (a.pre, a.post, a.valid)) (fun p => ⟨p.1, p.2.1, p.2.2⟩) (by intro a; rfl)

def Ser.aPort : Ser APort :=
  (Ser.prod Ser.nat (Ser.prod Ser.aData (Ser.option Ser.aData))).iso
    (fun a => (a.port, a.leader, a.follower)) (fun p => ⟨p.1, p.2.1, p.2.2⟩) (by intro a; rfl)

def Ser.aFrame : Ser AFrame :=
  (Ser.prod (Ser.list Ser.int) (Ser.prod (Ser.list Ser.aPort) (Ser.prod (Ser.option Ser.aStruct) (Ser.prod (Ser.option Ser.aStruct)
    (Ser.option (Ser.prod (Ser.list Ser.nat) Ser.aStruct)))))).iso
    (fun a => (a.id, a.ports, a.start, a.fend, a.item)) (fun p => ⟨p.1, p.2.1, p.2.2.1, p.2.2.2.1, p.2.2.2.2⟩) (by intro a; rfl)

#print axioms Ser.aFrame
end Peppi
