import Peppi.Lemmas.C04A
import Peppi.Lemmas.Fuel
import Peppi.Lemmas.GeckoWrite
/-! C04 at file level for ≥ 3.3 with a Gecko-codes block (message-splitter events right after Game Start). -/
namespace Peppi
open Extracted

structure GeckoBlocks where
  init : List (Bytes × Nat)
  last : Bytes × Nat

def GeckoBlocks.all (g : GeckoBlocks) : List (Bytes × Nat) := g.init ++ [g.last]
def GeckoBlocks.total (g : GeckoBlocks) : Nat := sumActual g.all
def GeckoBlocks.enc (g : GeckoBlocks) : Bytes := encBlocks g.init ++ encEvent (EV_SPLITTER, splitPayload g.last.1 g.last.2 true)

def canonTableG (v : Ver) (sl el total : Nat) : List (Nat × Nat) :=
  canonTable v sl el ++ [(EV_GECKO, total % 65536), (EV_SPLITTER, 516)]

def Replay.rawG (r : Replay) (v : Ver) (shape : List PortOccupancy) (gk : GeckoBlocks) : Bytes :=
  let t := canonTableG v r.startBlock.length (r.endLen v) gk.total
  [0x35, UInt8.ofNat (3 * t.length + 1)] ++ encTable t ++ encEvent (EV_GAME_START, r.startBlock) ++ gk.enc ++
    encEvents (r.frames.flatMap (frameEventsA v shape)) ++ encEvents r.endEvents

def Replay.encodeG (r : Replay) (v : Ver) (shape : List PortOccupancy) (gk : GeckoBlocks) : Bytes :=
  FILE_SIGNATURE ++ (toBE 4 (r.rawG v shape gk).length ++ (r.rawG v shape gk ++ r.tail))

structure Replay.WFG (T : TextOracle) (r : Replay) (s : Start) (gk : GeckoBlocks) : Prop where
  start : gameStart T r.startBlock = .ok s
  v30 : s.version.gte 3 0 = true
  v22 : s.version.gte 2 2 = true
  v33 : s.version.gte 3 3 = true
  startLen : 0 < r.startBlock.length ∧ r.startBlock.length < 65536
  portMap : PortMapOK (portIdxOf (portOccupancy s)) (portOccupancy s)
  ports : ∀ p ∈ portOccupancy s, p.port < 256
  frames : ∀ o ∈ r.frames, o.OK s.version (nSlots (portOccupancy s))
  endOK : ∀ e, r.fend = some e → 0 < e.length ∧ e.length < 65536 ∧ ∃ ge, gameEnd e = .ok ge
  endLenOK : 0 < r.endLen s.version ∧ r.endLen s.version < 65536
  doubledOK : r.doubled = true → ∃ e, r.fend = some e ∧ e.length = endSize s.version
  metadata : ∀ m, r.metadata = some m → KVs.WF T.utf8Ok 1 m
  full : ∀ b ∈ gk.init, FullBlock b
  lastOK : LastBlock gk.last
  totalNZ : 0 < gk.total % 65536
  totalLt : gk.total < 2 ^ 32
  rawLen : (r.rawG s.version (portOccupancy s) gk).length < 256 ^ 4

def Replay.gameG (r : Replay) (s : Start) (ge : Option End) (gk : GeckoBlocks) : Game :=
  { (r.game s ge) with gecko := some ⟨catData gk.all, gk.total⟩ }

theorem canonTableG_ok (v : Ver) (sl el total : Nat) (hs : 0 < sl ∧ sl < 65536) (he : 0 < el ∧ el < 65536) (ht : 0 < total % 65536) :
    TableOK (canonTableG v sl el total) := by
  intro e he'
  simp only [canonTableG, List.mem_append, List.mem_cons, List.not_mem_nil, or_false] at he'
  rcases he' with h | rfl | rfl
  · exact canonTable_ok v sl el hs he (rows_bounded v) e h
  · simp only [EV_GECKO]; omega
  · simp only [EV_SPLITTER]; omega

theorem canonTableG_nodup (v : Ver) (sl el total : Nat) : ((canonTableG v sl el total).map Prod.fst).Nodup := by
  simp only [canonTableG, canonTable, List.map_cons, List.map_nil, List.cons_append, List.nil_append]; decide

theorem canonTableG_mem (v : Ver) (sl el total : Nat) (c sz : Nat) (h : (c, sz) ∈ canonTable v sl el) : (c, sz) ∈ canonTableG v sl el total := by
  simp only [canonTableG, List.mem_append]; exact Or.inl h

theorem sizeOfEv_mem_of_some (t : List (Nat × Nat)) (c s : Nat) (h : sizeOfEv t c = some s) : (c, s) ∈ t := by
  unfold sizeOfEv at h
  cases hf : t.find? (fun e => e.1 == c) with
  | none => simp [hf] at h
  | some e =>
    simp only [hf, Option.map_some, Option.some.injEq] at h
    have hm := List.mem_of_find?_eq_some hf
    have hp := List.find?_some hf
    simp only [beq_iff_eq] at hp
    have : e = (c, s) := by cases e; simp only [Prod.mk.injEq]; exact ⟨hp, h⟩
    rw [← this]; exact hm

theorem encBlocks_cons (b : Bytes × Nat) (t : List (Bytes × Nat)) :
    encBlocks (b :: t) = encEvent (EV_SPLITTER, splitPayload b.1 b.2 false) ++ encBlocks t := by
  simp [encBlocks, List.flatMap_cons]

theorem encBlocks_length (bs : List (Bytes × Nat)) (h : ∀ b ∈ bs, b.1.length = 512) : (encBlocks bs).length = 517 * bs.length := by
  induction bs with
  | nil => rfl
  | cons b t ih =>
    rw [encBlocks_cons, List.length_append, ih (fun b' hb' => h b' (by simp [hb']))]
    simp only [encEvent, List.length_cons, splitPayload_length b.1 b.2 false (h b (by simp))]
    omega

theorem GeckoBlocks.enc_length (gk : GeckoBlocks) (hf : ∀ b ∈ gk.init, FullBlock b) (hl : LastBlock gk.last) :
    gk.enc.length = 517 * (gk.init.length + 1) := by
  simp only [GeckoBlocks.enc, List.length_append, encBlocks_length gk.init (fun b hb => (hf b hb).1), encEvent, List.length_cons,
    splitPayload_length gk.last.1 gk.last.2 true hl.1]
  omega

theorem raw_lengthG (r : Replay) (v : Ver) (shape : List PortOccupancy) (gk : GeckoBlocks) :
    (r.rawG v shape gk).length = 2 + 27 + (1 + r.startBlock.length) + gk.enc.length
      + (encEvents (r.frames.flatMap (frameEventsA v shape))).length + (encEvents r.endEvents).length := by
  simp [Replay.rawG, encTable_length, canonTableG, canonTable, encEvent]; omega

def ps0G (r : Replay) (s : Start) (gk : GeckoBlocks) : ParseState :=
  let t := canonTableG s.version r.startBlock.length (r.endLen s.version) gk.total
  { st := { sizes := t.reverse, splitRaw := [], splitActual := 0, portIdx := portIdxOf (portOccupancy s), start := s,
            fend := none, frames := FCols.new s.version (portOccupancy s), metadata := none, gecko := none, doubleGameEnd := none },
    bytesRead := 1 + (3 * t.length + 1) + r.startBlock.length + 1 }

theorem parseStart_encG (T : TextOracle) (r : Replay) (s : Start) (gk : GeckoBlocks) (h : r.WFG T s gk) (rest : Bytes) :
    let t := canonTableG s.version r.startBlock.length (r.endLen s.version) gk.total
    parseStart T ([0x35, UInt8.ofNat (3 * t.length + 1)] ++ encTable t ++ (encEvent (EV_GAME_START, r.startBlock) ++ rest)) =
      .ok (ps0G r s gk, rest) := by
  intro t
  have ht : TableOK t := canonTableG_ok s.version _ _ _ h.startLen h.endLenOK h.totalNZ
  have hnd := canonTableG_nodup s.version r.startBlock.length (r.endLen s.version) gk.total
  have hlen : 3 * t.length + 1 < 256 := by simp [t, canonTableG, canonTable]
  have hp := parsePayloads_enc t ht hlen hnd r.startBlock.length (r.endLen s.version)
    (canonTableG_mem _ _ _ _ _ _ (by simp [canonTable])) (canonTableG_mem _ _ _ _ _ _ (by simp [canonTable]))
    (encEvent (EV_GAME_START, r.startBlock) ++ rest)
  simp only [parseStart, bind]
  rw [hp]
  simp only [parseGameStart, bind, encEvent, List.cons_append, Rd.u8]
  have hsz : sizeOfEv t.reverse (UInt8.ofNat EV_GAME_START).toNat = some r.startBlock.length := by
    have : (UInt8.ofNat EV_GAME_START).toNat = EV_GAME_START := by decide
    rw [this]; exact sizeOfEv_reverse t hnd _ _ (canonTableG_mem _ _ _ _ _ _ (by simp [canonTable]))
  simp only [hsz, Rd.take, List.length_append]
  have hlt : ¬ (r.startBlock.length + rest.length < r.startBlock.length) := by omega
  have hcode : (UInt8.ofNat EV_GAME_START).toNat = EV_GAME_START := by decide
  simp only [hlt, ↓reduceIte, List.take_left' rfl, List.drop_left' rfl, hcode, Rd.lift, h.start, pure, portIdxOf]
  rfl

#print axioms parseStart_encG
end Peppi

namespace Peppi
open Extracted

/-- the state after the Gecko block -/
def psGk (r : Replay) (s : Start) (gk : GeckoBlocks) : ParseState :=
  { st := { (ps0G r s gk).st with splitRaw := [], splitActual := gk.total, gecko := some (Gecko.mk (catData gk.all) gk.total) },
    bytesRead := (ps0G r s gk).bytesRead + 517 * (gk.init.length + 1) }

/-- **C04, file level, ≥ 3.3 with a Gecko block** -/
theorem readP_encode_G (T : TextOracle) (r : Replay) (s : Start) (gk : GeckoBlocks) (h : r.WFG T s gk) :
    ∃ ge : Option End, r.fend.map gameEnd = ge.map Res.ok ∧
      readP T {} (r.encodeG s.version (portOccupancy s) gk) = .ok (r.gameG s ge gk, []) := by
  obtain ⟨fes, hfes⟩ : ∃ fes, fes = r.frames.flatMap (frameEventsA s.version (portOccupancy s)) := ⟨_, rfl⟩
  have hgl := gk.enc_length h.full h.lastOK
  have hrl := raw_lengthG r s.version (portOccupancy s) gk
  rw [← hfes, hgl] at hrl
  have hraw0 : (r.rawG s.version (portOccupancy s) gk).length ≠ 0 := by rw [hrl]; omega
  have hps0 : (ps0G r s gk).bytesRead = 2 + 27 + (1 + r.startBlock.length) := by simp [ps0G, canonTableG, canonTable]; omega
  have hnd := canonTableG_nodup s.version r.startBlock.length (r.endLen s.version) gk.total
  have hblocks : ∀ b ∈ gk.init ++ [gk.last], BlockOK b := by
    intro b hb
    simp only [List.mem_append, List.mem_singleton] at hb
    rcases hb with hb | rfl
    · exact ⟨(h.full b hb).1, by rw [(h.full b hb).2]; omega⟩
    · exact ⟨h.lastOK.1, h.lastOK.2.2⟩
  have hszS : sizeOfEv (ps0G r s gk).st.sizes EV_SPLITTER = some 516 :=
    sizeOfEv_reverse _ hnd _ _ (by simp [canonTableG])
  -- frames, from the state after the Gecko block
  have hrun := frames_A s.version (portOccupancy s) [] r.frames (psGk r s gk).st rfl h.v30 h.v22
    (by simp [psGk, ps0G, FCols_new_eq]) h.portMap h.ports h.frames
  simp only [List.nil_append] at hrun
  rw [← hfes] at hrun
  let psF : ParseState := ⟨{ (psGk r s gk).st with frames := expFrames s.version (portOccupancy s) r.frames },
    (psGk r s gk).bytesRead + (encEvents fes).length⟩
  have hloop : ∀ rest, ∃ k,
      eventLoop ((gk.enc ++ (encEvents fes ++ rest)).length + 1) (r.rawG s.version (portOccupancy s) gk).length (ps0G r s gk)
          (gk.enc ++ (encEvents fes ++ rest)) =
        eventLoop (k + 1) (r.rawG s.version (portOccupancy s) gk).length psF rest := by
    intro rest
    have hle : fes.length ≤ (encEvents fes ++ rest).length := by have := events_le_bytes fes; simp; omega
    refine ⟨(encEvents fes ++ rest).length - fes.length, ?_⟩
    -- 1. enough fuel for the Gecko lemma
    rw [eventLoop_fuel _ ((gk.enc ++ (encEvents fes ++ rest)).length + 1 + gk.init.length + 1) _ _ _ (by omega) (by omega)]
    have hg := gecko_run (r.rawG s.version (portOccupancy s) gk).length (gk.enc ++ (encEvents fes ++ rest)).length (ps0G r s gk)
      gk.init gk.last (encEvents fes ++ rest) hblocks (by simp only [ps0G, Nat.zero_add]; exact h.totalLt) hszS
      (by right; rw [hps0, hrl]; omega)
    have hg' : eventLoop ((gk.enc ++ (encEvents fes ++ rest)).length + 1 + gk.init.length + 1) (r.rawG s.version (portOccupancy s) gk).length
          (ps0G r s gk) (gk.enc ++ (encEvents fes ++ rest)) =
        eventLoop ((gk.enc ++ (encEvents fes ++ rest)).length + 1) (r.rawG s.version (portOccupancy s) gk).length (psGk r s gk) (encEvents fes ++ rest) := by
      simp only [GeckoBlocks.enc, List.append_assoc] at hg ⊢
      rw [hg]
      congr 1
      simp [psGk, ps0G, GeckoBlocks.total, GeckoBlocks.all]
    rw [hg']
    -- 2. back to the canonical fuel, then the frames
    rw [eventLoop_fuel _ ((encEvents fes ++ rest).length + 1) _ _ _ (by simp only [List.length_append]; omega) (by omega)]
    have := eventLoop_run (r.rawG s.version (portOccupancy s) gk).length fes (encEvents fes ++ rest).length (psGk r s gk) _ rest hle
      (by
        intro e he
        rw [hfes] at he
        obtain ⟨o, ho, heo⟩ := List.mem_flatMap.mp he
        obtain ⟨a1, a2, a3, a4⟩ := frameEventsA_sizes s.version (portOccupancy s) o (h.frames o ho) r.startBlock.length (r.endLen s.version) e heo
        refine ⟨a1, a2, a3, ?_⟩
        have hm := sizeOfEv_mem_of_some _ _ _ a4
        simp only [List.mem_reverse] at hm
        exact sizeOfEv_reverse _ hnd _ _ (canonTableG_mem _ _ _ _ _ _ hm))
      hrun (by right; simp only [psGk]; rw [hps0, hrl]; omega)
    rw [this]
    congr 1
    omega
  have hv30 : psF.st.start.version.lt 3 0 = false := by
    show s.version.lt 3 0 = false; simp [Ver.lt, h.v30]
  have hsize : sizeOfEv psF.st.sizes EV_GAME_END = some (r.endLen s.version) :=
    sizeOfEv_reverse _ hnd _ _ (canonTableG_mem _ _ _ _ _ _ (by simp [canonTable]))
  have hpsF : psF.bytesRead = 2 + 27 + (1 + r.startBlock.length) + 517 * (gk.init.length + 1) + (encEvents fes).length := by
    simp only [psF, psGk, hps0]
  have hread : ∀ g rest, loopTail T (r.rawG s.version (portOccupancy s) gk).length (ps0G r s gk)
        (gk.enc ++ (encEvents fes ++ (encEvents r.endEvents ++ r.tail))) = .ok (g, rest) →
      readP T {} (r.encodeG s.version (portOccupancy s) gk) = .ok (g, rest) := by
    intro g rest hk
    have hsplit : r.rawG s.version (portOccupancy s) gk ++ r.tail =
        [0x35, UInt8.ofNat (3 * (canonTableG s.version r.startBlock.length (r.endLen s.version) gk.total).length + 1)] ++
          encTable (canonTableG s.version r.startBlock.length (r.endLen s.version) gk.total) ++
          (encEvent (EV_GAME_START, r.startBlock) ++ (gk.enc ++ (encEvents fes ++ (encEvents r.endEvents ++ r.tail)))) := by
      simp [Replay.rawG, hfes, List.append_assoc]
    have hstart' := parseStart_encG T r s gk h (gk.enc ++ (encEvents fes ++ (encEvents r.endEvents ++ r.tail)))
    simp only [] at hstart'
    rw [← hsplit] at hstart'
    unfold readP Replay.encodeG
    simp only [Bool.false_eq_true, ↓reduceIte, bind]
    rw [parseHeader_enc _ h.rawLen]
    simp only []
    rw [hstart']
    simp only [pure]
    exact hk
  cases hfe : r.fend with
  | none =>
    have hends : r.endEvents = [] := by simp [Replay.endEvents, hfe]
    have hdbl : r.doubled = false := by
      cases hd : r.doubled with
      | false => rfl
      | true => obtain ⟨e, he, _⟩ := h.doubledOK hd; rw [hfe] at he; cases he
    refine ⟨none, by simp, ?_⟩
    apply hread
    simp only [hends, encEvents_nil, List.nil_append, loopTail, bind]
    obtain ⟨k, hl⟩ := hloop r.tail
    rw [hl]
    have hbr : ¬ psF.bytesRead < (r.rawG s.version (portOccupancy s) gk).length := by
      rw [hpsF, hrl, hends]; simp [encEvents_nil]
    rw [eventLoop_done k _ _ _ hraw0 hbr]
    simp only []
    rw [metaBytes_eq, readTail_exact T _ psF r.metadata hv30 hbr rfl h.metadata]
    simp [gameOf, Replay.gameG, Replay.game, psF, psGk, ps0G, hdbl]
  | some e =>
    obtain ⟨hel, _, ge, hge⟩ := h.endOK e hfe
    have hendlen : r.endLen s.version = e.length := by simp [Replay.endLen, hfe]
    rw [hendlen] at hsize
    refine ⟨some ge, by simp [hge], ?_⟩
    apply hread
    cases hd : r.doubled with
    | false =>
      have hends : r.endEvents = [(EV_GAME_END, e)] := by simp [Replay.endEvents, hfe, hd]
      have hbrlt : psF.bytesRead < (r.rawG s.version (portOccupancy s) gk).length := by
        rw [hpsF, hrl, hends, encEvents_cons]; simp [encEvent]
      simp only [hends, encEvents_cons, encEvents_nil, List.append_nil, loopTail, bind]
      obtain ⟨k, hl⟩ := hloop (encEvent (EV_GAME_END, e) ++ r.tail)
      rw [hl, loop_end k _ psF e ge r.tail hsize hge hbrlt]
      simp only []
      have hbr : ¬ psF.bytesRead + e.length + 1 < (r.rawG s.version (portOccupancy s) gk).length := by
        rw [hpsF, hrl, hends, encEvents_cons]; simp [encEvent, encEvents_nil]; omega
      rw [metaBytes_eq]
      refine (readTail_exact T _ ⟨{ psF.st with fend := some ge }, psF.bytesRead + e.length + 1⟩
        r.metadata hv30 hbr rfl h.metadata).trans ?_
      simp [gameOf, Replay.gameG, Replay.game, psF, psGk, ps0G, hd]
    | true =>
      obtain ⟨e', he', hlen'⟩ := h.doubledOK hd
      rw [hfe] at he'; cases he'
      have hends : r.endEvents = [(EV_GAME_END, e), (EV_GAME_END, e)] := by simp [Replay.endEvents, hfe, hd]
      have hbrlt : psF.bytesRead < (r.rawG s.version (portOccupancy s) gk).length := by
        rw [hpsF, hrl, hends, encEvents_cons]; simp [encEvent]
      simp only [hends, encEvents_cons, encEvents_nil, List.append_nil, List.append_assoc, loopTail, bind]
      obtain ⟨k, hl⟩ := hloop (encEvent (EV_GAME_END, e) ++ (encEvent (EV_GAME_END, e) ++ r.tail))
      rw [hl, loop_end k _ psF e ge _ hsize hge hbrlt]
      simp only []
      have hbr : psF.bytesRead + e.length + 1 + (1 + e.length) = (r.rawG s.version (portOccupancy s) gk).length := by
        rw [hpsF, hrl, hends, encEvents_cons, encEvents_cons]; simp [encEvent, encEvents_nil]; omega
      rw [metaBytes_eq]
      refine (readTail_doubled T _ ⟨{ psF.st with fend := some ge }, psF.bytesRead + e.length + 1⟩
        r.metadata e hv30 hbr hlen' rfl h.metadata).trans ?_
      simp [gameOf, Replay.gameG, Replay.game, psF, psGk, ps0G, hd]

#print axioms readP_encode_G
end Peppi
