import Peppi.Lemmas.C08
/-! C08, second half (longer payloads from newer versions), at handler level: a frame event whose payload carries extra
    trailing bytes is handled exactly like the event without them. -/
namespace Peppi
open Extracted

def isFrameEv (code : Nat) : Bool :=
  code == EV_FRAME_START || code == EV_FRAME_PRE || code == EV_FRAME_POST || code == EV_FRAME_END || code == EV_ITEM

theorem i32At_extra (buf x : Bytes) (id : Int) (r : Bytes) (h : i32At buf = .ok (id, r)) : i32At (buf ++ x) = .ok (id, r ++ x) := by
  unfold i32At at h ⊢
  by_cases hl : buf.length < 4
  · simp [hl] at h
  · simp only [hl, ↓reduceIte, Res.ok.injEq, Prod.mk.injEq] at h
    have hl' : ¬ ((buf ++ x).length < 4) := by simp only [List.length_append]; omega
    simp only [hl', ↓reduceIte, Res.ok.injEq, Prod.mk.injEq]
    obtain ⟨h1, h2⟩ := h
    constructor
    · rw [List.take_append_of_le_length (by omega), h1]
    · rw [List.drop_append_of_le_length (by omega), h2]

theorem getD_extra (r x : Bytes) (hr : ¬ r.length < 2) :
    (r ++ x).getD 0 0 = r.getD 0 0 ∧ (r ++ x).getD 1 0 = r.getD 1 0 ∧ (r ++ x).drop 2 = r.drop 2 ++ x := by
  match r, hr with
  | [], h => simp at h
  | [_], h => simp at h
  | a :: b :: t, _ => simp

theorem hs_extra (st st' : PState) (buf x : Bytes)
    (h : handleEvent st EV_FRAME_START buf = .ok st') : handleEvent st EV_FRAME_START (buf ++ x) = .ok st' := by
  unfold handleEvent at h ⊢
  simp only [EV_FRAME_START, EV_PAYLOADS, EV_SPLITTER, EV_GECKO, EV_GAME_START, EV_GAME_END, Nat.reduceEqDiff, ↓reduceIte] at h ⊢
  cases hi : i32At buf with
  | err e => simp [hi, bind] at h
  | panic e => simp [hi, bind] at h
  | ok p =>
    obtain ⟨id, r⟩ := p
    rw [i32At_extra buf x id r hi]
    simp only [hi, bind] at h ⊢
    generalize (if st.start.version.lt 3 0 = true then _ else st : PState) = st2 at h ⊢
    cases hsc : st2.frames.start with
    | none => simp [hsc] at h
    | some sc =>
      simp only [hsc] at h ⊢
      cases hr : rowOrEof st.start.version Start.readPush r with
      | err e => simp [hr] at h
      | panic e => simp [hr] at h
      | ok row => rw [rowOrEof_extra _ _ _ x row hr]; simpa [hr] using h

theorem hpre_extra (st st' : PState) (buf x : Bytes)
    (h : handleEvent st EV_FRAME_PRE buf = .ok st') : handleEvent st EV_FRAME_PRE (buf ++ x) = .ok st' := by
  unfold handleEvent at h ⊢
  simp only [EV_FRAME_PRE, EV_FRAME_START, EV_PAYLOADS, EV_SPLITTER, EV_GECKO, EV_GAME_START, EV_GAME_END, Nat.reduceEqDiff, ↓reduceIte] at h ⊢
  cases hi : i32At buf with
  | err e => simp [hi, bind] at h
  | panic e => simp [hi, bind] at h
  | ok p =>
    obtain ⟨id, r⟩ := p
    rw [i32At_extra buf x id r hi]
    simp only [hi, bind] at h ⊢
    by_cases hl : r.length < 2
    · simp [hl] at h
    · have hl' : ¬ ((r ++ x).length < 2) := by simp only [List.length_append]; omega
      obtain ⟨g0, g1, g2⟩ := getD_extra r x hl
      simp only [hl, hl', ↓reduceIte] at h ⊢
      rw [g0, g1, g2]
      cases hr : rowOrEof st.start.version Pre.readPush (r.drop 2) with
      | ok row => rw [rowOrEof_extra _ _ _ x row hr]; simp only [hr] at h; exact h
      | err e =>
        exfalso; simp only [hr] at h
        split at h <;> try (simp at h)
        split at h <;> try (simp at h)
        split at h <;> simp at h
      | panic e =>
        exfalso; simp only [hr] at h
        split at h <;> try (simp at h)
        split at h <;> try (simp at h)
        split at h <;> simp at h

theorem hpost_extra (st st' : PState) (buf x : Bytes)
    (h : handleEvent st EV_FRAME_POST buf = .ok st') : handleEvent st EV_FRAME_POST (buf ++ x) = .ok st' := by
  unfold handleEvent at h ⊢
  simp only [EV_FRAME_POST, EV_FRAME_PRE, EV_FRAME_START, EV_PAYLOADS, EV_SPLITTER, EV_GECKO, EV_GAME_START, EV_GAME_END, Nat.reduceEqDiff, ↓reduceIte] at h ⊢
  cases hi : i32At buf with
  | err e => simp [hi, bind] at h
  | panic e => simp [hi, bind] at h
  | ok p =>
    obtain ⟨id, r⟩ := p
    rw [i32At_extra buf x id r hi]
    simp only [hi, bind] at h ⊢
    by_cases hl : r.length < 2
    · simp [hl] at h
    · have hl' : ¬ ((r ++ x).length < 2) := by simp only [List.length_append]; omega
      obtain ⟨g0, g1, g2⟩ := getD_extra r x hl
      simp only [hl, hl', ↓reduceIte] at h ⊢
      rw [g0, g1, g2]
      cases hr : rowOrEof st.start.version Post.readPush (r.drop 2) with
      | ok row => rw [rowOrEof_extra _ _ _ x row hr]; simp only [hr] at h; exact h
      | err e =>
        exfalso; simp only [hr] at h
        split at h <;> try (simp at h)
        split at h <;> simp at h
      | panic e =>
        exfalso; simp only [hr] at h
        split at h <;> try (simp at h)
        split at h <;> simp at h

theorem hend_extra (st st' : PState) (buf x : Bytes)
    (h : handleEvent st EV_FRAME_END buf = .ok st') : handleEvent st EV_FRAME_END (buf ++ x) = .ok st' := by
  unfold handleEvent at h ⊢
  simp only [EV_FRAME_END, EV_FRAME_POST, EV_FRAME_PRE, EV_FRAME_START, EV_PAYLOADS, EV_SPLITTER, EV_GECKO, EV_GAME_START, EV_GAME_END, Nat.reduceEqDiff, ↓reduceIte] at h ⊢
  cases hi : i32At buf with
  | err e => simp [hi, bind] at h
  | panic e => simp [hi, bind] at h
  | ok p =>
    obtain ⟨id, r⟩ := p
    rw [i32At_extra buf x id r hi]
    simp only [hi, bind] at h ⊢
    cases hr : rowOrEof st.start.version End.readPush r with
    | ok row => rw [rowOrEof_extra _ _ _ x row hr]; simp only [hr] at h; exact h
    | err e =>
      exfalso; simp only [hr] at h
      split at h <;> try (simp at h)
      split at h <;> try (simp at h)
      split at h <;> try (simp at h)
      split at h <;> simp at h
    | panic e =>
      exfalso; simp only [hr] at h
      split at h <;> try (simp at h)
      split at h <;> try (simp at h)
      split at h <;> try (simp at h)
      split at h <;> simp at h

theorem hitem_extra (st st' : PState) (buf x : Bytes)
    (h : handleEvent st EV_ITEM buf = .ok st') : handleEvent st EV_ITEM (buf ++ x) = .ok st' := by
  unfold handleEvent at h ⊢
  simp only [EV_ITEM, EV_FRAME_END, EV_FRAME_POST, EV_FRAME_PRE, EV_FRAME_START, EV_PAYLOADS, EV_SPLITTER, EV_GECKO, EV_GAME_START, EV_GAME_END, Nat.reduceEqDiff, ↓reduceIte] at h ⊢
  cases hi : i32At buf with
  | err e => simp [hi, bind] at h
  | panic e => simp [hi, bind] at h
  | ok p =>
    obtain ⟨id, r⟩ := p
    rw [i32At_extra buf x id r hi]
    simp only [hi, bind] at h ⊢
    cases hr : rowOrEof st.start.version Item.readPush r with
    | ok row => rw [rowOrEof_extra _ _ _ x row hr]; simp only [hr] at h; exact h
    | err e =>
      exfalso; simp only [hr] at h
      split at h <;> try (simp at h)
      split at h <;> simp at h
    | panic e =>
      exfalso; simp only [hr] at h
      split at h <;> try (simp at h)
      split at h <;> simp at h

/-- **C08 (longer payloads), event level**: extra trailing bytes on a frame event do not change what the handler does -/
theorem handleEvent_extra (st st' : PState) (code : Nat) (buf x : Bytes) (hc : isFrameEv code = true)
    (h : handleEvent st code buf = .ok st') : handleEvent st code (buf ++ x) = .ok st' := by
  simp only [isFrameEv, Bool.or_eq_true, beq_iff_eq] at hc
  rcases hc with (((hc | hc) | hc) | hc) | hc <;> subst hc
  · exact hs_extra st st' buf x h
  · exact hpre_extra st st' buf x h
  · exact hpost_extra st st' buf x h
  · exact hend_extra st st' buf x h
  · exact hitem_extra st st' buf x h

/-- `es'` is `es` with extra trailing bytes on some frame events -/
inductive Longer : List (Nat × Bytes) → List (Nat × Bytes) → Prop
  | nil : Longer [] []
  | ext (c : Nat) (b x : Bytes) (es' es : List (Nat × Bytes)) : isFrameEv c = true → Longer es' es → Longer ((c, b ++ x) :: es') ((c, b) :: es)
  | same (e : Nat × Bytes) (es' es : List (Nat × Bytes)) : Longer es' es → Longer (e :: es') (e :: es)

theorem Longer.refl : ∀ es, Longer es es
  | [] => .nil
  | e :: es => .same e es es (Longer.refl es)

/-- **C08 (longer payloads), stream level** -/
theorem runEvents_longer {es' es : List (Nat × Bytes)} (hl : Longer es' es) : ∀ (st st' : PState),
    runEvents st es = .ok st' → runEvents st es' = .ok st' := by
  induction hl with
  | nil => intro st st' h; exact h
  | ext c b x es' es hc _ ih =>
    intro st st' h
    simp only [runEvents] at h ⊢
    cases hh : handleEvent st c b with
    | err e => simp [hh] at h
    | panic e => simp [hh] at h
    | ok s1 =>
      simp only [hh] at h
      rw [handleEvent_extra st s1 c b x hc hh]
      exact ih s1 st' h
  | same e es' es _ ih =>
    intro st st' h
    simp only [runEvents] at h ⊢
    cases hh : handleEvent st e.1 e.2 with
    | err e => simp [hh] at h
    | panic e => simp [hh] at h
    | ok s1 =>
      simp only [hh] at h ⊢
      exact ih s1 st' h

#print axioms handleEvent_extra
#print axioms runEvents_longer
end Peppi
