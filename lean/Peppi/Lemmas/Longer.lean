import Peppi.Lemmas.C08
/-! C08, second half (longer payloads from newer versions), at handler level: a frame event whose payload carries extra
    trailing bytes is handled exactly like the event without them. -/
namespace Peppi
open Extracted

def isFrameEv (code : Nat) : Bool :=
  code == EV_FRAME_START || code == EV_FRAME_PRE || code == EV_FRAME_POST || code == EV_FRAME_END || code == EV_ITEM

theorem i32At_extra (buf x : Bytes) (id : Int) (r : Bytes) (h : i32At buf = .ok (id, r)) : i32At (buf ++ x) = .ok (id, r ++ x) := by
  unfold i32At at h ⊢
  by_cases hl : buf.length < 4
  · simp [hl] at h
  · simp only [hl, ↓reduceIte, Res.ok.injEq, Prod.mk.injEq] at h
    have hl' : ¬ ((buf ++ x).length < 4) := by simp only [List.length_append]; omega
    simp only [hl', ↓reduceIte, Res.ok.injEq, Prod.mk.injEq]
    obtain ⟨h1, h2⟩ := h
    constructor
    · rw [List.take_append_of_le_length (by omega), h1]
    · rw [List.drop_append_of_le_length (by omega), h2]

/-- **C08 (longer payloads), event level**: extra trailing bytes on a frame event do not change what the handler does -/
theorem handleEvent_extra (st st' : PState) (code : Nat) (buf x : Bytes) (hc : isFrameEv code = true)
    (h : handleEvent st code buf = .ok st') : handleEvent st code (buf ++ x) = .ok st' := by
  simp only [isFrameEv, Bool.or_eq_true, beq_iff_eq] at hc
  unfold handleEvent at h ⊢
  have getD0 : ∀ (r : Bytes), 2 ≤ r.length → (r ++ x).getD 0 0 = r.getD 0 0 ∧ (r ++ x).getD 1 0 = r.getD 1 0 ∧ (r ++ x).drop 2 = r.drop 2 ++ x := by
    intro r hr
    match r, hr with
    | a :: b :: t, _ => simp
  rcases hc with (((hc | hc) | hc) | hc) | hc <;> subst hc
  · -- Frame Start
    simp only [EV_FRAME_START, EV_PAYLOADS, EV_SPLITTER, EV_GECKO, EV_GAME_START, EV_GAME_END, Nat.reduceEqDiff, ↓reduceIte] at h ⊢
    cases hi : i32At buf with
    | err e => simp [hi, bind] at h
    | panic e => simp [hi, bind] at h
    | ok p =>
      obtain ⟨id, r⟩ := p
      rw [i32At_extra buf x id r hi]
      simp only [hi, bind] at h ⊢
      split at h
      · exact h
      · rename_i sc hsc
        simp only [hsc]
        cases hr : rowOrEof st.start.version Start.readPush r with
        | err e => simp [hr] at h
        | panic e => simp [hr] at h
        | ok row => rw [rowOrEof_extra _ _ _ x row hr]; simpa [hr] using h
  · -- Frame Pre
    simp only [EV_FRAME_PRE, EV_FRAME_START, EV_PAYLOADS, EV_SPLITTER, EV_GECKO, EV_GAME_START, EV_GAME_END, Nat.reduceEqDiff, ↓reduceIte] at h ⊢
    cases hi : i32At buf with
    | err e => simp [hi, bind] at h
    | panic e => simp [hi, bind] at h
    | ok p =>
      obtain ⟨id, r⟩ := p
      rw [i32At_extra buf x id r hi]
      simp only [hi, bind] at h ⊢
      by_cases hl : r.length < 2
      · simp [hl] at h
      · have hl' : ¬ ((r ++ x).length < 2) := by simp only [List.length_append]; omega
        obtain ⟨g0, g1, g2⟩ := getD0 r (by omega)
        simp only [hl, hl', ↓reduceIte, g0, g1, g2] at h ⊢
        cases hs1 : st.slotIdx (r.getD 0 0).toNat ((r.getD 1 0) != 0) with
        | err e => simp [hs1] at h
        | panic e => simp [hs1] at h
        | ok pi0 =>
          simp only [hs1] at h ⊢
          generalize hS : (if st.start.version.gte 2 2 = true then (do st.expectId id; pure st : Res PState)
            else
              let last := st.lastId.getD (FIRST_INDEX - 1)
              if last + 1 ≤ 2147483647 ∧ last + 1 = id then
                pure { st with frames := { st.frames.close with id := st.frames.id ++ [id] } }
              else do st.expectId id; pure st) = S at h ⊢
          cases S with
          | err e => simp at h
          | panic e => simp at h
          | ok st2 =>
            simp only at h ⊢
            cases hs2 : st2.slotIdx (r.getD 0 0).toNat ((r.getD 1 0) != 0) with
            | err e => simp [hs2] at h
            | panic e => simp [hs2] at h
            | ok pi =>
              simp only [hs2] at h ⊢
              cases hr : rowOrEof st.start.version Pre.readPush (r.drop 2) with
              | err e => simp [hr] at h
              | panic e => simp [hr] at h
              | ok row => rw [rowOrEof_extra _ _ _ x row hr]; simpa [hr] using h
  · -- Frame Post
    simp only [EV_FRAME_POST, EV_FRAME_PRE, EV_FRAME_START, EV_PAYLOADS, EV_SPLITTER, EV_GECKO, EV_GAME_START, EV_GAME_END, Nat.reduceEqDiff, ↓reduceIte] at h ⊢
    cases hi : i32At buf with
    | err e => simp [hi, bind] at h
    | panic e => simp [hi, bind] at h
    | ok p =>
      obtain ⟨id, r⟩ := p
      rw [i32At_extra buf x id r hi]
      simp only [hi, bind] at h ⊢
      by_cases hl : r.length < 2
      · simp [hl] at h
      · have hl' : ¬ ((r ++ x).length < 2) := by simp only [List.length_append]; omega
        obtain ⟨g0, g1, g2⟩ := getD0 r (by omega)
        simp only [hl, hl', ↓reduceIte, g0, g1, g2] at h ⊢
        cases he : st.expectId id with
        | err e => simp [he] at h
        | panic e => simp [he] at h
        | ok u =>
          simp only [he] at h ⊢
          cases hs2 : st.slotIdx (r.getD 0 0).toNat ((r.getD 1 0) != 0) with
          | err e => simp [hs2] at h
          | panic e => simp [hs2] at h
          | ok pi =>
            simp only [hs2] at h ⊢
            cases hr : rowOrEof st.start.version Post.readPush (r.drop 2) with
            | err e => simp [hr] at h
            | panic e => simp [hr] at h
            | ok row => rw [rowOrEof_extra _ _ _ x row hr]; simpa [hr] using h
  · -- Frame End
    simp only [EV_FRAME_END, EV_FRAME_POST, EV_FRAME_PRE, EV_FRAME_START, EV_PAYLOADS, EV_SPLITTER, EV_GECKO, EV_GAME_START, EV_GAME_END, Nat.reduceEqDiff, ↓reduceIte] at h ⊢
    cases hi : i32At buf with
    | err e => simp [hi, bind] at h
    | panic e => simp [hi, bind] at h
    | ok p =>
      obtain ⟨id, r⟩ := p
      rw [i32At_extra buf x id r hi]
      simp only [hi, bind] at h ⊢
      split at h
      · exact h
      · rename_i ec hec
        simp only [hec]
        cases he : st.expectId id with
        | err e => simp [he] at h
        | panic e => simp [he] at h
        | ok u =>
          simp only [he] at h ⊢
          split at h
          · rename_i offs items ho hit
            simp only [ho, hit]
            by_cases hlt : items.length < offs.getLastD 0
            · simp [hlt] at h
            · simp only [hlt, ↓reduceIte] at h ⊢
              cases hr : rowOrEof st.start.version End.readPush r with
              | err e => simp [hr] at h
              | panic e => simp [hr] at h
              | ok row => rw [rowOrEof_extra _ _ _ x row hr]; simpa [hr] using h
          · simp at h
  · -- Item
    simp only [EV_ITEM, EV_FRAME_END, EV_FRAME_POST, EV_FRAME_PRE, EV_FRAME_START, EV_PAYLOADS, EV_SPLITTER, EV_GECKO, EV_GAME_START, EV_GAME_END, Nat.reduceEqDiff, ↓reduceIte] at h ⊢
    cases hi : i32At buf with
    | err e => simp [hi, bind] at h
    | panic e => simp [hi, bind] at h
    | ok p =>
      obtain ⟨id, r⟩ := p
      rw [i32At_extra buf x id r hi]
      simp only [hi, bind] at h ⊢
      split at h
      · exact h
      · rename_i items hitm
        simp only [hitm]
        cases he : st.expectId id with
        | err e => simp [he] at h
        | panic e => simp [he] at h
        | ok u =>
          simp only [he] at h ⊢
          cases hr : rowOrEof st.start.version Item.readPush r with
          | err e => simp [hr] at h
          | panic e => simp [hr] at h
          | ok row => rw [rowOrEof_extra _ _ _ x row hr]; simpa [hr] using h

/-- `es'` is `es` with extra trailing bytes on some frame events -/
inductive Longer : List (Nat × Bytes) → List (Nat × Bytes) → Prop
  | nil : Longer [] []
  | ext (c : Nat) (b x : Bytes) (es' es : List (Nat × Bytes)) : isFrameEv c = true → Longer es' es → Longer ((c, b ++ x) :: es') ((c, b) :: es)
  | same (e : Nat × Bytes) (es' es : List (Nat × Bytes)) : Longer es' es → Longer (e :: es') (e :: es)

theorem Longer.refl : ∀ es, Longer es es
  | [] => .nil
  | e :: es => .same e es es (Longer.refl es)

/-- **C08 (longer payloads), stream level** -/
theorem runEvents_longer {es' es : List (Nat × Bytes)} (hl : Longer es' es) : ∀ (st st' : PState),
    runEvents st es = .ok st' → runEvents st es' = .ok st' := by
  induction hl with
  | nil => intro st st' h; exact h
  | ext c b x es' es hc _ ih =>
    intro st st' h
    simp only [runEvents] at h ⊢
    cases hh : handleEvent st c b with
    | err e => simp [hh] at h
    | panic e => simp [hh] at h
    | ok s1 =>
      simp only [hh] at h
      rw [handleEvent_extra st s1 c b x hc hh]
      exact ih s1 st' h
  | same e es' es _ ih =>
    intro st st' h
    simp only [runEvents] at h ⊢
    cases hh : handleEvent st e.1 e.2 with
    | err e => simp [hh] at h
    | panic e => simp [hh] at h
    | ok s1 =>
      simp only [hh] at h ⊢
      exact ih s1 st' h

#print axioms handleEvent_extra
#print axioms runEvents_longer
end Peppi
