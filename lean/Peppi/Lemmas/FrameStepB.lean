import Peppi.Lemmas.ByteLayer
/-! Per-frame theorem for the 2.2 ≤ v < 3.0 regime: Frame Start opens (and lazily closes the previous frame), no items, no Frame End. -/
namespace Peppi
open Extracted

/-- canonical event order of one frame, 2.2 ≤ version < 3.0 -/
def frameEventsB (v : Ver) (shape : List PortOccupancy) (o : FrameOcc) : List (Nat × Bytes) :=
  [(EV_FRAME_START, encPlain v Start.readPush o.id o.start)] ++
  charEvents false v o.id (slotList shape 0) (presentFrom 0 o.chars) ++
  charEvents true v o.id (slotList shape 0) (presentFrom 0 o.chars)

/-- the reader's columns while the last frame is still open: everything as expected except that the ports are not padded yet -/
def OpenInv (v : Ver) (shape : List PortOccupancy) (h : List FrameOcc) (f : FCols) : Prop :=
  f.id = h.map (·.id) ∧ f.start = (expFrames v shape h).start ∧ f.fend = (expFrames v shape h).fend ∧
  f.itemOff = (expFrames v shape h).itemOff ∧ f.item = (expFrames v shape h).item ∧
  f.close.ports = expPorts shape h

theorem close_ports (f : FCols) : f.close.ports = f.ports.map fun p =>
    { p with leader := p.leader.padTo f.id.length, follower := p.follower.map (·.padTo f.id.length) } := rfl

/-- the frame step, 2.2 ≤ v < 3.0 -/
theorem frame_step_B (v : Ver) (shape : List PortOccupancy) (h : List FrameOcc) (o : FrameOcc) (st : PState)
    (hv : st.start.version = v) (h30 : v.gte 3 0 = false) (h22 : v.gte 2 2 = true)
    (hinv : OpenInv v shape h st.frames)
    (hmap : PortMapOK st.portIdx shape) (hports : ∀ p ∈ shape, p.port < 256)
    (ho : o.OK v (nSlots shape)) :
    ∃ st', runEvents st (frameEventsB v shape o) = .ok st' ∧ st'.ctx = st.ctx ∧ st'.fend = st.fend ∧ st'.gecko = st.gecko ∧
      st'.metadata = st.metadata ∧ st'.doubleGameEnd = st.doubleGameEnd ∧ OpenInv v shape (h ++ [o]) st'.frames := by
  obtain ⟨hid, hst, hfe, hio, hit, hcl⟩ := hinv
  obtain ⟨hshape, hflat⟩ := expPorts_shape shape h
  obtain ⟨cs2, hrun, hpad⟩ := slots_frame_step (nSlots shape) (histAt h) h.length (by intro c; simp [histAt]) o.chars ho.chars
  rw [runChars_append] at hrun
  cases hcs1 : runChars ((List.range (nSlots shape)).map fun c => colsOf (histAt h c)) (preC 0 o.chars) with
  | none => simp [hcs1] at hrun
  | some cs1 =>
  simp only [hcs1, Option.bind_some] at hrun
  have hlt30 : v.lt 3 0 = true := by simp [Ver.lt, h30]
  -- 1. Frame Start: closes the previous frame, opens the next one
  let s1 : PState := { st with frames := { st.frames.close with id := st.frames.id ++ [o.id], start := some ((h.map fun o => some o.start) ++ [some o.start]) } }
  have e1 : handleEvent st EV_FRAME_START (encPlain v Start.readPush o.id o.start) = .ok s1 := by
    have := handle_fstart st o.id o.start (h.map fun o => some o.start) ho.id (by rw [hv]; exact ho.start)
      (by rw [hst]; simp [expFrames, h22])
    rw [hv] at this
    simp only [hlt30, ↓reduceIte] at this
    exact this
  have hs1ports : s1.frames.ports = expPorts shape h := hcl
  have hs1last : s1.lastId = some o.id := by simp [s1, PState.lastId]
  -- 2. pre events
  obtain ⟨P1, eP1, hP1s, hP1f⟩ := run_char_events false o.id ho.id (presentFrom 0 o.chars) s1 cs1 hs1last
    (by rw [hs1ports, hshape]; exact hmap)
    (by rw [hs1ports]; exact mem_ports_of_shape _ shape hshape hports)
    (by intro co hco; rw [hs1ports, hshape]; show _ ∧ OccOK st.start.version co.2; rw [hv]; exact presentFrom_ok v (nSlots shape) o ho co hco)
    (by rw [hs1ports, hflat, charCEvs_pre]; exact hcs1)
  rw [hs1ports, hshape, show s1.start.version = v from hv] at eP1
  let s2 : PState := { s1 with frames := { s1.frames with ports := P1 } }
  -- 3. post events
  obtain ⟨P2, eP2, hP2s, hP2f⟩ := run_char_events true o.id ho.id (presentFrom 0 o.chars) s2 cs2
    (by simp [s2, s1, PState.lastId])
    (by show PortMapOK st.portIdx (shapeOf P1); rw [hP1s, hs1ports, hshape]; exact hmap)
    (by show ∀ p ∈ P1, p.port < 256; exact mem_ports_of_shape _ shape (by rw [hP1s, hs1ports, hshape]) hports)
    (by
      intro co hco
      show co.1 < (slotList (shapeOf P1) 0).length ∧ OccOK st.start.version co.2
      rw [hP1s, hs1ports, hshape, hv]
      exact presentFrom_ok v (nSlots shape) o ho co hco)
    (by show runChars (flatSlots P1) _ = _; rw [hP1f, charCEvs_post]; exact hrun)
  have hP2shape : shapeOf P2 = shape := by rw [hP2s]; show shapeOf P1 = shape; rw [hP1s, hs1ports, hshape]
  have eP2' : runEvents s2 (charEvents true v o.id (slotList shape 0) (presentFrom 0 o.chars)) =
      .ok { s2 with frames := { s2.frames with ports := P2 } } := by
    have : shapeOf s2.frames.ports = shape := by show shapeOf P1 = shape; rw [hP1s, hs1ports, hshape]
    rw [this, show s2.start.version = v from hv] at eP2
    exact eP2
  refine ⟨{ s2 with frames := { s2.frames with ports := P2 } }, ?_, rfl, rfl, rfl, rfl, rfl, ?_⟩
  · unfold frameEventsB
    simp only [List.append_assoc, List.cons_append, List.nil_append, runEvents, e1]
    rw [runEvents_append, eP1]
    simp only []
    exact eP2'
  · -- the invariant for `h ++ [o]`
    have hclose : (List.map (fun p : PCols => ({ p with leader := p.leader.padTo (h.length + 1), follower := p.follower.map (·.padTo (h.length + 1)) } : PCols)) P2)
        = expPorts shape (h ++ [o]) := by
      apply ports_ext
      · rw [(expPorts_shape shape (h ++ [o])).1, ← hP2shape]
        unfold shapeOf
        simp only [List.map_map]
        apply List.map_congr_left
        intro p _
        simp only [Function.comp, PortOccupancy.mk.injEq, true_and]
        cases p.follower <;> simp
      · have hm := flatSlots_map P2 (fun x => x.padTo (h.length + 1))
        rw [hm, hP2f, (expPorts_shape shape (h ++ [o])).2, hpad]
        unfold expFlat
        apply List.map_congr_left
        intro c _
        rw [histAt_snoc]
    refine ⟨by simp [s2, s1, hid], by simp [s2, s1, expFrames, h22], ?_, ?_, ?_, ?_⟩
    · show st.frames.close.fend = _; simp [FCols.close, hfe, expFrames, h30]
    · show st.frames.close.itemOff = _; simp [FCols.close, hio, expFrames, h30]
    · show st.frames.close.item = _; simp [FCols.close, hit, expFrames, h30]
    · rw [close_ports]
      show List.map _ P2 = _
      have : (st.frames.id ++ [o.id]).length = h.length + 1 := by simp [hid]
      simp only [s2, s1, this]
      exact hclose

#print axioms frame_step_B
end Peppi
