import Peppi.Lemmas.C04A
import Peppi.Lemmas.FrameStepC
import Peppi.Lemmas.C04B
import Peppi.Lemmas.Trunc
/-! C04 at file level for the regime v < 2.2 (a pre-frame event carrying the next id opens a frame and lazily closes the previous one;
    no Frame Start, items or Frame End; `read` closes the dangling frame at the end). -/
namespace Peppi
open Extracted

def canonTableC (v : Ver) (startLen endLen : Nat) : List (Nat × Nat) :=
  [(EV_GAME_START, startLen), (EV_FRAME_PRE, 6 + rowSize v Pre.readPush), (EV_FRAME_POST, 6 + rowSize v Post.readPush),
   (EV_GAME_END, endLen)]

def Replay.rawC (r : Replay) (v : Ver) (shape : List PortOccupancy) : Bytes :=
  let t := canonTableC v r.startBlock.length (r.endLen v)
  [0x35, UInt8.ofNat (3 * t.length + 1)] ++ encTable t ++ encEvent (EV_GAME_START, r.startBlock) ++
    encEvents (r.frames.flatMap (frameEventsC v shape)) ++ encEvents r.endEvents

def Replay.encodeC (r : Replay) (v : Ver) (shape : List PortOccupancy) : Bytes :=
  FILE_SIGNATURE ++ (toBE 4 (r.rawC v shape).length ++ (r.rawC v shape ++ r.tail))

structure Replay.WFC (T : TextOracle) (r : Replay) (s : Start) : Prop where
  start : gameStart T r.startBlock = .ok s
  v30 : s.version.gte 3 0 = false
  v22 : s.version.gte 2 2 = false
  seq : ∀ pre o post, r.frames = pre ++ o :: post →
    ((pre.map (·.id)).getLast?).getD (FIRST_INDEX - 1) + 1 = o.id ∧ presentFrom 0 o.chars ≠ []
  startLen : 0 < r.startBlock.length ∧ r.startBlock.length < 65536
  portMap : PortMapOK (portIdxOf (portOccupancy s)) (portOccupancy s)
  ports : ∀ p ∈ portOccupancy s, p.port < 256
  frames : ∀ o ∈ r.frames, o.OK s.version (nSlots (portOccupancy s))
  endOK : ∀ e, r.fend = some e → 0 < e.length ∧ e.length < 65536 ∧ ∃ ge, gameEnd e = .ok ge
  endLenOK : 0 < r.endLen s.version ∧ r.endLen s.version < 65536
  doubledOK : r.doubled = true → ∃ e, r.fend = some e ∧ e.length = endSize s.version
  metadata : ∀ m, r.metadata = some m → KVs.WF T.utf8Ok 1 m
  rawLen : (r.rawC s.version (portOccupancy s)).length < 256 ^ 4

theorem canonTableC_ok (v : Ver) (sl el : Nat) (hs : 0 < sl ∧ sl < 65536) (he : 0 < el ∧ el < 65536) : TableOK (canonTableC v sl el) := by
  obtain ⟨h1, h2, h3, _, _⟩ := rows_bounded v
  intro e he'
  simp only [canonTableC, List.mem_cons, List.not_mem_nil, or_false] at he'
  rcases he' with rfl | rfl | rfl | rfl <;>
    (simp only [EV_GAME_START, EV_FRAME_PRE, EV_FRAME_POST, EV_GAME_END]; omega)

theorem canonTableC_nodup (v : Ver) (sl el : Nat) : ((canonTableC v sl el).map Prod.fst).Nodup := by
  simp only [canonTableC, List.map_cons, List.map_nil]; decide

def ps0C (r : Replay) (s : Start) : ParseState :=
  let t := canonTableC s.version r.startBlock.length (r.endLen s.version)
  { st := { sizes := t.reverse, splitRaw := [], splitActual := 0, portIdx := portIdxOf (portOccupancy s), start := s,
            fend := none, frames := FCols.new s.version (portOccupancy s), metadata := none, gecko := none, doubleGameEnd := none },
    bytesRead := 1 + (3 * t.length + 1) + r.startBlock.length + 1 }

theorem parseStart_encC (T : TextOracle) (r : Replay) (s : Start) (h : r.WFC T s) (rest : Bytes) :
    let t := canonTableC s.version r.startBlock.length (r.endLen s.version)
    parseStart T ([0x35, UInt8.ofNat (3 * t.length + 1)] ++ encTable t ++ (encEvent (EV_GAME_START, r.startBlock) ++ rest)) =
      .ok (ps0C r s, rest) := by
  intro t
  have ht : TableOK t := canonTableC_ok s.version _ _ h.startLen h.endLenOK
  have hnd := canonTableC_nodup s.version r.startBlock.length (r.endLen s.version)
  have hlen : 3 * t.length + 1 < 256 := by simp [t, canonTableC]
  have hp := parsePayloads_enc t ht hlen hnd r.startBlock.length (r.endLen s.version) (by simp [t, canonTableC]) (by simp [t, canonTableC])
    (encEvent (EV_GAME_START, r.startBlock) ++ rest)
  simp only [parseStart, bind]
  rw [hp]
  simp only [parseGameStart, bind, encEvent, List.cons_append, Rd.u8]
  have hsz : sizeOfEv t.reverse (UInt8.ofNat EV_GAME_START).toNat = some r.startBlock.length := by
    have : (UInt8.ofNat EV_GAME_START).toNat = EV_GAME_START := by decide
    rw [this]; exact sizeOfEv_reverse t hnd _ _ (by simp [t, canonTableC])
  simp only [hsz, Rd.take, List.length_append]
  have hlt : ¬ (r.startBlock.length + rest.length < r.startBlock.length) := by omega
  have hcode : (UInt8.ofNat EV_GAME_START).toNat = EV_GAME_START := by decide
  simp only [hlt, ↓reduceIte, List.take_left' rfl, List.drop_left' rfl, hcode, Rd.lift, h.start, pure, portIdxOf]
  rfl

theorem frameEventsC_sizes (v : Ver) (shape : List PortOccupancy) (o : FrameOcc) (ho : o.OK v (nSlots shape)) (sl el : Nat) :
    ∀ e ∈ frameEventsC v shape o, e.1 < 256 ∧ e.1 ≠ EV_SPLITTER ∧ e.1 ≠ EV_GAME_END ∧
      sizeOfEv (canonTableC v sl el).reverse e.1 = some e.2.length := by
  have hnd := canonTableC_nodup v sl el
  have look : ∀ c s, (c, s) ∈ canonTableC v sl el → sizeOfEv (canonTableC v sl el).reverse c = some s :=
    fun c s h => sizeOfEv_reverse _ hnd c s h
  have hchar : ∀ post, ∀ e ∈ charEvents post v o.id (slotList shape 0) (presentFrom 0 o.chars),
      e.1 < 256 ∧ e.1 ≠ EV_SPLITTER ∧ e.1 ≠ EV_GAME_END ∧ sizeOfEv (canonTableC v sl el).reverse e.1 = some e.2.length := by
    intro post e he
    simp only [charEvents, List.mem_map] at he
    obtain ⟨co, hco, rfl⟩ := he
    obtain ⟨hc, hocc⟩ := presentFrom_ok v (nSlots shape) o ho co hco
    obtain ⟨d, hd⟩ : ∃ d, (slotList shape 0)[co.1]? = some d := ⟨_, List.getElem?_eq_getElem hc⟩
    simp only [charEvent, hd]
    cases post with
    | true =>
      simp only [↓reduceIte, encChar_length _ _ _ _ _ _ hocc.2]
      refine ⟨by decide, by decide, by decide, look _ _ (by simp [canonTableC])⟩
    | false =>
      simp only [Bool.false_eq_true, ↓reduceIte, encChar_length _ _ _ _ _ _ hocc.1]
      refine ⟨by decide, by decide, by decide, look _ _ (by simp [canonTableC])⟩
  intro e he
  simp only [frameEventsC, List.mem_append] at he
  rcases he with he | he
  · exact hchar false e he
  · exact hchar true e he

/-- whole histories, regime C: the reader ends in a state whose *closed* columns are the expected ones -/
theorem frames_C (v : Ver) (shape : List PortOccupancy) (h30 : v.gte 3 0 = false) (h22 : v.gte 2 2 = false)
    (hports : ∀ p ∈ shape, p.port < 256) :
    ∀ (h h0 : List FrameOcc) (st : PState), st.start.version = v → OpenInv v shape h0 st.frames → PortMapOK st.portIdx shape →
      (∀ o ∈ h, o.OK v (nSlots shape)) →
      (∀ pre o post, h = pre ++ o :: post →
        (((h0 ++ pre).map (·.id)).getLast?).getD (FIRST_INDEX - 1) + 1 = o.id ∧ presentFrom 0 o.chars ≠ []) →
      ∃ st', runEvents st (h.flatMap (frameEventsC v shape)) = .ok st' ∧ st'.ctx = st.ctx ∧ st'.fend = st.fend ∧ st'.gecko = st.gecko ∧
        st'.metadata = st.metadata ∧ st'.doubleGameEnd = st.doubleGameEnd ∧ OpenInv v shape (h0 ++ h) st'.frames := by
  intro h
  induction h with
  | nil => intro h0 st _ hinv _ _ _; exact ⟨st, rfl, rfl, rfl, rfl, rfl, rfl, by simpa using hinv⟩
  | cons o rest ih =>
    intro h0 st hv hinv hmap hok hseq
    obtain ⟨hnext, hne⟩ := hseq [] o rest rfl
    simp only [List.append_nil] at hnext
    obtain ⟨s1, hr1, hc1, hf1, hg1, hm1, hd1, hi1⟩ := frame_step_C v shape h0 o st hv h30 h22 hinv hmap hports (hok o (by simp)) hnext hne
    have hv1 : s1.start.version = v := by
      have : s1.start = st.start := congrArg (fun c => c.2.2.2.1) hc1
      rw [this]; exact hv
    have hmap1 : PortMapOK s1.portIdx shape := by
      have : s1.portIdx = st.portIdx := congrArg (fun c => c.2.2.2.2) hc1
      rw [this]; exact hmap
    obtain ⟨s2, hr2, hc2, hf2, hg2, hm2, hd2, hi2⟩ := ih (h0 ++ [o]) s1 hv1 hi1 hmap1 (fun o' ho' => hok o' (by simp [ho']))
      (by
        intro pre o' post hrest
        have := hseq (o :: pre) o' post (by rw [hrest]; rfl)
        simpa [List.append_assoc] using this)
    refine ⟨s2, ?_, hc2.trans hc1, hf2.trans hf1, hg2.trans hg1, hm2.trans hm1, hd2.trans hd1, by simpa using hi2⟩
    rw [List.flatMap_cons, runEvents_append, hr1]
    exact hr2

#print axioms frames_C
end Peppi

namespace Peppi
open Extracted

theorem raw_lengthC (r : Replay) (v : Ver) (shape : List PortOccupancy) :
    (r.rawC v shape).length = 2 + 12 + (1 + r.startBlock.length) + (encEvents (r.frames.flatMap (frameEventsC v shape))).length
      + (encEvents r.endEvents).length := by
  simp [Replay.rawC, encTable_length, canonTableC, encEvent]; omega

/-- **C04, file level, v < 2.2** -/
theorem readP_encode_C (T : TextOracle) (r : Replay) (s : Start) (h : r.WFC T s) :
    ∃ ge : Option End, r.fend.map gameEnd = ge.map Res.ok ∧
      readP T {} (r.encodeC s.version (portOccupancy s)) = .ok (r.game s ge, []) := by
  obtain ⟨fes, hfes⟩ : ∃ fes, fes = r.frames.flatMap (frameEventsC s.version (portOccupancy s)) := ⟨_, rfl⟩
  have hrl := raw_lengthC r s.version (portOccupancy s)
  rw [← hfes] at hrl
  have hraw0 : (r.rawC s.version (portOccupancy s)).length ≠ 0 := by rw [hrl]; omega
  have hps0 : (ps0C r s).bytesRead = 2 + 12 + (1 + r.startBlock.length) := by simp [ps0C, canonTableC]; omega
  -- the frames
  obtain ⟨stF, hrun, hctx, hfend, hgecko, hmeta, hdge, hinv⟩ := frames_C s.version (portOccupancy s) h.v30 h.v22 h.ports r.frames []
    (ps0C r s).st rfl (by
      have := FCols_new_eq s.version (portOccupancy s)
      show OpenInv _ _ [] (FCols.new s.version (portOccupancy s))
      rw [this]
      refine ⟨rfl, rfl, rfl, rfl, rfl, ?_⟩
      rw [← this]
      have hc : (FCols.new s.version (portOccupancy s)).close = FCols.new s.version (portOccupancy s) := by
        simp only [FCols.close, FCols.new, FCols.len, List.length_nil, List.map_map]
        congr 1
        apply List.map_congr_left
        intro p _
        simp only [Function.comp]
        cases p.follower <;> simp [DCols.padTo, DCols.len, DCols.empty]
      rw [hc, this]
      rfl)
    h.portMap h.frames (by intro pre o post hp; simpa using h.seq pre o post hp)
  simp only [List.nil_append] at hinv
  rw [← hfes] at hrun
  have hsizes : stF.sizes = (ps0C r s).st.sizes := congrArg (fun c => c.1) hctx
  have hstart : stF.start = s := congrArg (fun c => c.2.2.2.1) hctx
  have hloop : ∀ rest, ∃ k,
      eventLoop ((encEvents fes ++ rest).length + 1) (r.rawC s.version (portOccupancy s)).length (ps0C r s) (encEvents fes ++ rest) =
        eventLoop (k + 1) (r.rawC s.version (portOccupancy s)).length ⟨stF, (ps0C r s).bytesRead + (encEvents fes).length⟩ rest := by
    intro rest
    have hle : fes.length ≤ (encEvents fes ++ rest).length := by have := events_le_bytes fes; simp; omega
    refine ⟨(encEvents fes ++ rest).length - fes.length, ?_⟩
    have := eventLoop_run (r.rawC s.version (portOccupancy s)).length fes (encEvents fes ++ rest).length (ps0C r s) stF rest hle
      (by
        intro e he
        rw [hfes] at he
        obtain ⟨o, ho, heo⟩ := List.mem_flatMap.mp he
        exact frameEventsC_sizes s.version (portOccupancy s) o (h.frames o ho) _ _ e heo)
      hrun (by right; rw [hps0, hrl]; omega)
    rw [this]
    congr 1
    omega
  have hv30 : stF.start.version.lt 3 0 = true := by rw [hstart]; simp [Ver.lt, h.v30]
  have hsize : sizeOfEv stF.sizes EV_GAME_END = some (r.endLen s.version) := by
    rw [hsizes]
    show sizeOfEv (canonTableC s.version r.startBlock.length (r.endLen s.version)).reverse EV_GAME_END = _
    exact sizeOfEv_reverse _ (canonTableC_nodup _ _ _) _ _ (by simp [canonTableC])
  have hclose : stF.frames.close = expFrames s.version (portOccupancy s) r.frames := close_eq_exp _ _ _ _ hinv
  have hmd0 : stF.metadata = none := hmeta
  have hread : ∀ g rest, loopTail T (r.rawC s.version (portOccupancy s)).length (ps0C r s) (encEvents fes ++ (encEvents r.endEvents ++ r.tail)) = .ok (g, rest) →
      readP T {} (r.encodeC s.version (portOccupancy s)) = .ok (g, rest) := by
    intro g rest hk
    have hsplit : r.rawC s.version (portOccupancy s) ++ r.tail =
        [0x35, UInt8.ofNat (3 * (canonTableC s.version r.startBlock.length (r.endLen s.version)).length + 1)] ++
          encTable (canonTableC s.version r.startBlock.length (r.endLen s.version)) ++
          (encEvent (EV_GAME_START, r.startBlock) ++ (encEvents fes ++ (encEvents r.endEvents ++ r.tail))) := by
      simp [Replay.rawC, hfes, List.append_assoc]
    have hstart' := parseStart_encC T r s h (encEvents fes ++ (encEvents r.endEvents ++ r.tail))
    simp only [] at hstart'
    rw [← hsplit] at hstart'
    unfold readP Replay.encodeC
    simp only [Bool.false_eq_true, ↓reduceIte, bind]
    rw [parseHeader_enc _ h.rawLen]
    simp only []
    rw [hstart']
    simp only [pure]
    exact hk
  cases hfe : r.fend with
  | none =>
    have hends : r.endEvents = [] := by simp [Replay.endEvents, hfe]
    have hdbl : r.doubled = false := by
      cases hd : r.doubled with
      | false => rfl
      | true => obtain ⟨e, he, _⟩ := h.doubledOK hd; rw [hfe] at he; cases he
    refine ⟨none, by simp, ?_⟩
    apply hread
    simp only [hends, encEvents_nil, List.nil_append, loopTail, bind]
    obtain ⟨k, hl⟩ := hloop r.tail
    rw [hl]
    have hbr : ¬ (ps0C r s).bytesRead + (encEvents fes).length < (r.rawC s.version (portOccupancy s)).length := by
      rw [hps0, hrl, hends]; simp [encEvents_nil]
    rw [eventLoop_done k _ _ _ hraw0 hbr]
    simp only []
    rw [metaBytes_eq, readTail_exactB T _ ⟨stF, _⟩ r.metadata hv30 hbr hmd0 h.metadata]
    simp only [gameOf, Replay.game, hclose, hstart, hfend, hgecko, hdge, hdbl, ps0C]
    rfl
  | some e =>
    obtain ⟨hel, _, ge, hge⟩ := h.endOK e hfe
    have hendlen : r.endLen s.version = e.length := by simp [Replay.endLen, hfe]
    rw [hendlen] at hsize
    refine ⟨some ge, by simp [hge], ?_⟩
    apply hread
    cases hd : r.doubled with
    | false =>
      have hends : r.endEvents = [(EV_GAME_END, e)] := by simp [Replay.endEvents, hfe, hd]
      have hbrlt : (ps0C r s).bytesRead + (encEvents fes).length < (r.rawC s.version (portOccupancy s)).length := by
        rw [hps0, hrl, hends, encEvents_cons]; simp [encEvent]
      simp only [hends, encEvents_cons, encEvents_nil, List.append_nil, loopTail, bind]
      obtain ⟨k, hl⟩ := hloop (encEvent (EV_GAME_END, e) ++ r.tail)
      rw [hl, loop_end k _ ⟨stF, _⟩ e ge r.tail hsize hge hbrlt]
      simp only []
      have hbr : ¬ (ps0C r s).bytesRead + (encEvents fes).length + e.length + 1 < (r.rawC s.version (portOccupancy s)).length := by
        rw [hps0, hrl, hends, encEvents_cons]; simp [encEvent, encEvents_nil]; omega
      rw [metaBytes_eq]
      refine (readTail_exactB T _ ⟨{ stF with fend := some ge }, (ps0C r s).bytesRead + (encEvents fes).length + e.length + 1⟩
        r.metadata hv30 hbr hmd0 h.metadata).trans ?_
      simp only [gameOf, Replay.game, hclose, hstart, hgecko, hdge, hd, ps0C]
      rfl
    | true =>
      obtain ⟨e', he', hlen'⟩ := h.doubledOK hd
      rw [hfe] at he'; cases he'
      have hends : r.endEvents = [(EV_GAME_END, e), (EV_GAME_END, e)] := by simp [Replay.endEvents, hfe, hd]
      have hbrlt : (ps0C r s).bytesRead + (encEvents fes).length < (r.rawC s.version (portOccupancy s)).length := by
        rw [hps0, hrl, hends, encEvents_cons]; simp [encEvent]
      simp only [hends, encEvents_cons, encEvents_nil, List.append_nil, List.append_assoc, loopTail, bind]
      obtain ⟨k, hl⟩ := hloop (encEvent (EV_GAME_END, e) ++ (encEvent (EV_GAME_END, e) ++ r.tail))
      rw [hl, loop_end k _ ⟨stF, _⟩ e ge _ hsize hge hbrlt]
      simp only []
      have hbr : (ps0C r s).bytesRead + (encEvents fes).length + e.length + 1 + (1 + e.length) = (r.rawC s.version (portOccupancy s)).length := by
        rw [hps0, hrl, hends, encEvents_cons, encEvents_cons]; simp [encEvent, encEvents_nil]; omega
      rw [metaBytes_eq]
      refine (readTail_doubledB T _ ⟨{ stF with fend := some ge }, (ps0C r s).bytesRead + (encEvents fes).length + e.length + 1⟩
        r.metadata e hv30 hbr (by rw [hstart]; exact hlen') hmd0 h.metadata).trans ?_
      simp only [gameOf, Replay.game, hclose, hstart, hgecko, hdge, hd, ps0C]
      rfl

#print axioms readP_encode_C
end Peppi

namespace Peppi
/-- **C07, v < 2.2**: every proper prefix of a well-formed file is rejected -/
theorem C07_slp_C (T : TextOracle) (r : Replay) (s : Start) (h : r.WFC T s) (hash : Bool) (n : Nat)
    (hn : n < (r.encodeC s.version (portOccupancy s)).length) :
    ∃ e, readSlp T { skipFrames := false, computeHash := hash } ((r.encodeC s.version (portOccupancy s)).take n) = .err e := by
  obtain ⟨ge, _, hok⟩ := readP_encode_C T r s h
  exact C07_slp_general T _ _ _ (show readP T { skipFrames := false, computeHash := hash } _ = _ from hok) n hn
end Peppi
