import Peppi.Lemmas.ByteLayer
/-! C06 core: the event handler never panics from a state satisfying `StInv`, and preserves `StInv`. -/
namespace Peppi
open Extracted

/-- what makes every `unwrap` / index / `checked_sub` of `parse_event` safe; static or monotone, for arbitrary input -/
structure StInv (st : PState) : Prop where
  ports : ∀ port pi, st.portIdx.getD port none = some pi → pi < st.frames.ports.length
  endCols : st.frames.fend.isSome → st.frames.itemOff.isSome ∧ st.frames.item.isSome
  offs : ∀ offs items, st.frames.itemOff = some offs → st.frames.item = some items → offs.getLastD 0 ≤ items.length

theorem slotOk_noPanic (ports : List PCols) (pi : Nat) (fol : Bool) (h : pi < ports.length) : ∀ s, slotOk ports pi fol ≠ .panic s := by
  intro s
  unfold slotOk
  rw [List.getElem?_eq_getElem h]
  simp only []
  split <;> simp

theorem slotIdx_noPanic (st : PState) (hinv : StInv st) (port : Nat) (fol : Bool) : ∀ s, st.slotIdx port fol ≠ .panic s := by
  intro s
  unfold PState.slotIdx
  split
  · simp
  · rename_i pi hp
    exact slotOk_noPanic _ pi fol (hinv.ports port pi hp) s

theorem slotIdx_lt (st : PState) (port : Nat) (fol : Bool) (pi : Nat) (h : st.slotIdx port fol = .ok pi) : pi < st.frames.ports.length := by
  unfold PState.slotIdx at h
  split at h
  · simp at h
  · rename_i pi' hp
    unfold slotOk at h
    split at h
    · simp at h
    · rename_i pc hpc
      split at h
      · simp at h
      · simp only [Res.ok.injEq] at h; subst h
        exact (List.getElem?_eq_some_iff.mp hpc).1

theorem close_len (f : FCols) : f.close.ports.length = f.ports.length := by simp [FCols.close]

theorem StInv_close (st : PState) (h : StInv st) (ids : List Int) :
    StInv { st with frames := { st.frames.close with id := ids } } :=
  ⟨fun port pi hp => by simpa [close_len] using h.ports port pi hp, h.endCols, h.offs⟩

theorem StInv_updSlot (st : PState) (h : StInv st) (pi : Nat) (fol : Bool) (f) : StInv (st.updSlot pi fol f) :=
  ⟨fun port pi' hp => by simpa [PState.updSlot] using h.ports port pi' hp, h.endCols, h.offs⟩

end Peppi

namespace Peppi
open Extracted

/-! combinators: a parser that never panics -/
def Rd.NoPanic {α} (p : Rd α) : Prop := ∀ bs s, p bs ≠ .panic s
def Res.NoPanic {α} (r : Res α) : Prop := ∀ s, r ≠ .panic s

theorem Rd.np_pure {α} (a : α) : Rd.NoPanic (pure a : Rd α) := by intro bs s; simp [pure]
theorem Rd.np_fail {α} (e : String) : Rd.NoPanic (Rd.fail e : Rd α) := by intro bs s; simp [Rd.fail]
theorem Rd.np_take (n : Nat) : Rd.NoPanic (Rd.take n) := by intro bs s; simp only [Rd.take]; split <;> simp
theorem Rd.np_u8 : Rd.NoPanic Rd.u8 := by intro bs s; cases bs <;> simp [Rd.u8]
theorem Rd.np_isEmpty : Rd.NoPanic Rd.isEmpty := by intro bs s; simp [Rd.isEmpty]
theorem Rd.np_bind {α β} (p : Rd α) (q : α → Rd β) (hp : Rd.NoPanic p) (hq : ∀ a, Rd.NoPanic (q a)) : Rd.NoPanic (p >>= q) := by
  intro bs s
  simp only [bind]
  cases h : p bs with
  | ok ar => obtain ⟨a, r⟩ := ar; simp only []; exact hq a r s
  | err e => simp
  | panic s' => exact absurd h (hp bs s')
theorem Rd.np_be (n : Nat) : Rd.NoPanic (Rd.be n) := Rd.np_bind _ _ (Rd.np_take n) (fun _ => Rd.np_pure _)
theorem Rd.np_skip (n : Nat) : Rd.NoPanic (Rd.skip n) := Rd.np_bind _ _ (Rd.np_take n) (fun _ => Rd.np_pure _)
theorem Rd.np_lift {α} (r : Res α) (h : Res.NoPanic r) : Rd.NoPanic (Rd.lift r) := by
  intro bs s; cases r with
  | ok a => simp [Rd.lift]
  | err e => simp [Rd.lift]
  | panic s' => exact absurd rfl (h s')
theorem Rd.np_ite {α} (c : Prop) [Decidable c] (p q : Rd α) (hp : Rd.NoPanic p) (hq : Rd.NoPanic q) : Rd.NoPanic (if c then p else q) := by
  split <;> assumption
theorem Rd.np_ifMore {α} (p : Rd α) (hp : Rd.NoPanic p) : Rd.NoPanic (ifMore p) := by
  unfold ifMore
  apply Rd.np_bind _ _ Rd.np_isEmpty; intro b
  split
  · exact Rd.np_pure _
  · exact Rd.np_bind _ _ hp (fun _ => Rd.np_pure _)

theorem i32At_noPanic (b : Bytes) : Res.NoPanic (i32At b) := by intro s; unfold i32At; split <;> simp
theorem rowOrEof_noPanic (v L b) : Res.NoPanic (rowOrEof v L b) := by intro s; unfold rowOrEof; split <;> simp

theorem gameEnd_go_noPanic : ∀ (l : List UInt8) (n : Nat), Res.NoPanic (gameEndP.go n l) := by
  intro l
  induction l with
  | nil => intro n s; simp [gameEndP.go]
  | cons b t ih =>
    intro n s
    simp only [gameEndP.go]
    split
    · exact ih (n+1) s
    · split
      · simp only [bind]
        cases h : gameEndP.go (n+1) t with
        | ok x => simp [pure]
        | err e => simp
        | panic s' => exact absurd h (ih (n+1) s')
      · simp

theorem gameEnd_noPanic (block : Bytes) : Res.NoPanic (gameEnd block) := by
  intro s
  unfold gameEnd
  have : Rd.NoPanic (gameEndP block) := by
    unfold gameEndP
    apply Rd.np_bind _ _ Rd.np_u8; intro method
    apply Rd.np_ite; · exact Rd.np_fail _
    apply Rd.np_bind
    · apply Rd.np_ifMore
      apply Rd.np_bind _ _ Rd.np_u8; intro x
      apply Rd.np_ite; · exact Rd.np_pure _
      apply Rd.np_ite; · exact Rd.np_pure _
      exact Rd.np_fail _
    intro lras
    apply Rd.np_bind
    · apply Rd.np_ifMore
      apply Rd.np_bind _ _ (Rd.np_take 4); intro pl
      exact Rd.np_lift _ (gameEnd_go_noPanic pl 0)
    intro players
    exact Rd.np_pure _
  cases h : gameEndP block block with
  | ok x => simp
  | err e => simp
  | panic s' => exact absurd h (this block s')

#print axioms gameEnd_noPanic
end Peppi

namespace Peppi
open Extracted

/-- `r` does not panic, and a successful result satisfies `P` -/
def Res.Safe {α} (P : α → Prop) (r : Res α) : Prop := (∀ s, r ≠ .panic s) ∧ ∀ a, r = .ok a → P a

theorem Res.safe_ok {α} {P : α → Prop} {a : α} (h : P a) : Res.Safe P (.ok a) :=
  ⟨by simp, by intro b hb; cases hb; exact h⟩
theorem Res.safe_pure {α} {P : α → Prop} {a : α} (h : P a) : Res.Safe P (pure a) := Res.safe_ok h
theorem Res.safe_err {α} {P : α → Prop} {e : String} : Res.Safe P (.err e : Res α) := ⟨by simp, by simp⟩
theorem Res.safe_of_noPanic {α} {r : Res α} (h : Res.NoPanic r) : Res.Safe (fun _ => True) r := ⟨h, fun _ _ => trivial⟩
theorem Res.safe_bind {α β} {Q : α → Prop} {P : β → Prop} {r : Res α} {f : α → Res β}
    (hr : Res.Safe Q r) (hf : ∀ a, r = .ok a → Q a → Res.Safe P (f a)) : Res.Safe P (r >>= f) := by
  cases h : r with
  | ok a => show Res.Safe P (f a); exact hf a h (hr.2 a h)
  | err e => show Res.Safe P (.err e); exact Res.safe_err
  | panic s => exact absurd h (hr.1 s)
theorem Res.safe_ite {α} {P : α → Prop} (c : Prop) [Decidable c] {p q : Res α}
    (hp : c → Res.Safe P p) (hq : ¬ c → Res.Safe P q) : Res.Safe P (if c then p else q) := by
  split
  · exact hp ‹_›
  · exact hq ‹_›

theorem expectId_safe (st : PState) (id : Int) : Res.Safe (fun _ => True) (st.expectId id) := by
  unfold PState.expectId; split
  · exact Res.safe_ok trivial
  · exact Res.safe_err

theorem slotIdx_safe (st : PState) (hinv : StInv st) (port : Nat) (fol : Bool) :
    Res.Safe (fun pi => pi < st.frames.ports.length) (st.slotIdx port fol) :=
  ⟨slotIdx_noPanic st hinv port fol, fun pi h => slotIdx_lt st port fol pi h⟩

theorem handleEvent_safe (st : PState) (hinv : StInv st) (code : Nat) (buf : Bytes) :
    Res.Safe StInv (handleEvent st code buf) := by
  unfold handleEvent
  simp only []
  apply Res.safe_ite; · intro _; exact Res.safe_err
  intro _
  apply Res.safe_ite; · intro _; exact Res.safe_ok hinv
  intro _
  apply Res.safe_ite; · intro _; exact Res.safe_ok ⟨hinv.ports, hinv.endCols, hinv.offs⟩
  intro _
  apply Res.safe_ite; · intro _; exact Res.safe_err
  intro _
  apply Res.safe_ite
  · intro _
    apply Res.safe_bind (Res.safe_of_noPanic (gameEnd_noPanic buf)); intro e _ _
    exact Res.safe_pure ⟨hinv.ports, hinv.endCols, hinv.offs⟩
  intro _
  apply Res.safe_ite
  · intro _
    apply Res.safe_bind (Res.safe_of_noPanic (i32At_noPanic buf)); intro ⟨id, r⟩ _ _
    simp only []
    split
    · exact Res.safe_err
    · rename_i sc hsc
      apply Res.safe_bind (Res.safe_of_noPanic (rowOrEof_noPanic _ _ _)); intro row _ _
      apply Res.safe_pure
      split at hsc <;> split
      all_goals first
        | exact ⟨fun port pi hp => by simpa [close_len] using hinv.ports port pi hp, hinv.endCols, hinv.offs⟩
        | exact ⟨hinv.ports, hinv.endCols, hinv.offs⟩
  intro _
  apply Res.safe_ite
  · intro _
    apply Res.safe_bind (Res.safe_of_noPanic (i32At_noPanic buf)); intro ⟨id, r⟩ _ _
    simp only []
    apply Res.safe_ite; · intro _; exact Res.safe_err
    intro _
    apply Res.safe_bind (slotIdx_safe st hinv _ _); intro _ _ _
    apply Res.safe_bind (Q := StInv)
    · apply Res.safe_ite
      · intro _
        apply Res.safe_bind (expectId_safe st id); intro _ _ _
        exact Res.safe_pure hinv
      · intro _
        apply Res.safe_ite
        · intro _; exact Res.safe_pure (StInv_close st hinv _)
        · intro _
          apply Res.safe_bind (expectId_safe st id); intro _ _ _
          exact Res.safe_pure hinv
    intro st2 _ hinv2
    apply Res.safe_bind (slotIdx_safe st2 hinv2 _ _); intro pi _ _
    apply Res.safe_bind (Res.safe_of_noPanic (rowOrEof_noPanic _ _ _)); intro row _ _
    exact Res.safe_pure (StInv_updSlot st2 hinv2 pi _ _)
  intro _
  apply Res.safe_ite
  · intro _
    apply Res.safe_bind (Res.safe_of_noPanic (i32At_noPanic buf)); intro ⟨id, r⟩ _ _
    simp only []
    apply Res.safe_ite; · intro _; exact Res.safe_err
    intro _
    apply Res.safe_bind (expectId_safe st id); intro _ _ _
    apply Res.safe_bind (slotIdx_safe st hinv _ _); intro pi _ _
    apply Res.safe_bind (Res.safe_of_noPanic (rowOrEof_noPanic _ _ _)); intro row _ _
    exact Res.safe_pure (StInv_updSlot st hinv pi _ _)
  intro _
  apply Res.safe_ite
  · intro _
    apply Res.safe_bind (Res.safe_of_noPanic (i32At_noPanic buf)); intro ⟨id, r⟩ _ _
    simp only []
    split
    · exact Res.safe_err
    · rename_i ec hec
      apply Res.safe_bind (expectId_safe st id); intro _ _ _
      split
      · rename_i offs items ho hi
        have hle := hinv.offs offs items ho hi
        apply Res.safe_ite
        · intro hlt; omega
        intro _
        apply Res.safe_bind (Res.safe_of_noPanic (rowOrEof_noPanic _ _ _)); intro row _ _
        apply Res.safe_pure
        refine ⟨fun port pi hp => by simpa [close_len] using hinv.ports port pi hp, ?_, ?_⟩
        · intro _; simp [FCols.close, hi]
        · intro offs' items' ho' hi'
          simp only [FCols.close, Option.some.injEq] at ho' hi'
          subst ho'
          rw [hi] at hi'; cases hi'
          simp
      · rename_i hno
        have := hinv.endCols (by simp [hec])
        exfalso
        cases ho : st.frames.itemOff with
        | none => simp [ho] at this
        | some o =>
          cases hi : st.frames.item with
          | none => simp [hi] at this
          | some i => exact hno o i ho hi
  intro _
  apply Res.safe_ite
  · intro _
    apply Res.safe_bind (Res.safe_of_noPanic (i32At_noPanic buf)); intro ⟨id, r⟩ _ _
    simp only []
    split
    · exact Res.safe_err
    · rename_i items hi
      apply Res.safe_bind (expectId_safe st id); intro _ _ _
      apply Res.safe_bind (Res.safe_of_noPanic (rowOrEof_noPanic _ _ _)); intro row _ _
      apply Res.safe_pure
      refine ⟨hinv.ports, ?_, ?_⟩
      · intro h; have := hinv.endCols h; simpa using this.1
      · intro offs' items' ho' hi'
        simp only [Option.some.injEq] at hi'
        subst hi'
        have := hinv.offs offs' items ho' hi
        simp only [List.length_append, List.length_cons, List.length_nil]; omega
  intro _
  exact Res.safe_ok hinv

#print axioms handleEvent_safe
end Peppi

namespace Peppi
open Extracted

/-! parser-level `Safe` -/
def Rd.Safe {α} (P : α → Prop) (p : Rd α) : Prop := ∀ bs, Res.Safe (fun ar => P ar.1) (p bs)

theorem Rd.safe_pure {α} {P : α → Prop} {a : α} (h : P a) : Rd.Safe P (pure a) := fun _ => Res.safe_ok h
theorem Rd.safe_fail {α} {P : α → Prop} {e : String} : Rd.Safe P (Rd.fail e : Rd α) := fun _ => Res.safe_err
theorem Rd.safe_of_noPanic {α} {p : Rd α} (h : Rd.NoPanic p) : Rd.Safe (fun _ => True) p := fun bs => ⟨h bs, fun _ _ => trivial⟩
theorem Rd.safe_noPanic {α} {P : α → Prop} {p : Rd α} (h : Rd.Safe P p) : Rd.NoPanic p := fun bs => (h bs).1
theorem Rd.safe_bind {α β} {Q : α → Prop} {P : β → Prop} {p : Rd α} {f : α → Rd β}
    (hp : Rd.Safe Q p) (hf : ∀ a, Q a → Rd.Safe P (f a)) : Rd.Safe P (p >>= f) := by
  intro bs
  show Res.Safe _ (match p bs with | .ok (a, rest) => f a rest | .err e => .err e | .panic s => .panic s)
  cases h : p bs with
  | ok ar => obtain ⟨a, r⟩ := ar; exact hf a ((hp bs).2 (a, r) h) r
  | err e => exact Res.safe_err
  | panic s => exact absurd h ((hp bs).1 s)
theorem Rd.safe_ite {α} {P : α → Prop} (c : Prop) [Decidable c] {p q : Rd α}
    (hp : c → Rd.Safe P p) (hq : ¬ c → Rd.Safe P q) : Rd.Safe P (if c then p else q) := by
  split
  · exact hp ‹_›
  · exact hq ‹_›
theorem Rd.safe_lift {α} {P : α → Prop} {r : Res α} (h : Res.Safe P r) : Rd.Safe P (Rd.lift r) := by
  intro bs
  cases hr : r with
  | ok a => exact Res.safe_ok (h.2 a hr)
  | err e => exact Res.safe_err
  | panic s => exact absurd hr (h.1 s)

theorem handleSplitter_safe (buf : Bytes) (st : PState) (hinv : StInv st) :
    Res.Safe (fun p => StInv p.2) (handleSplitter buf st) := by
  unfold handleSplitter
  apply Res.safe_ite; · intro _; exact Res.safe_err
  intro _
  apply Res.safe_ite; · intro _; exact Res.safe_err
  intro _
  apply Res.safe_ite; · intro _; exact Res.safe_err
  intro _
  exact Res.safe_ok ⟨hinv.ports, hinv.endCols, hinv.offs⟩

theorem parseEvent_safe (ps : ParseState) (hinv : StInv ps.st) :
    Rd.Safe (fun r => StInv r.2.st) (parseEvent ps) := by
  unfold parseEvent
  apply Rd.safe_bind (Rd.safe_of_noPanic Rd.np_u8); intro code _
  split
  · exact Rd.safe_fail
  · rename_i size _
    apply Rd.safe_bind (Rd.safe_of_noPanic (Rd.np_take size)); intro buf _
    apply Rd.safe_bind (Q := fun r => StInv r.2.2)
    · apply Rd.safe_ite
      · intro _
        apply Rd.safe_bind (Rd.safe_lift (handleSplitter_safe buf ps.st hinv)); intro wst hst'
        obtain ⟨w, st'⟩ := wst
        cases w
        · exact Rd.safe_pure hst'
        · refine Rd.safe_pure ?_
          exact ⟨hst'.ports, hst'.endCols, hst'.offs⟩
      · intro _; exact Rd.safe_pure hinv
    intro ⟨code', buf', st2⟩ hst2
    apply Rd.safe_bind (Rd.safe_lift (handleEvent_safe st2 hst2 code' buf')); intro st3 hst3
    exact Rd.safe_pure hst3

theorem eventLoop_safe : ∀ (fuel rawLen : Nat) (ps : ParseState) (bs : Bytes), StInv ps.st →
    Res.Safe (fun r => StInv r.1.st) (eventLoop fuel rawLen ps bs) := by
  intro fuel
  induction fuel with
  | zero => intro rawLen ps bs _; exact Res.safe_err
  | succ n ih =>
    intro rawLen ps bs hinv
    rw [eventLoop]
    split
    · have hs := parseEvent_safe ps hinv bs
      split
      · rename_i code ps' rest hpe
        have : StInv ps'.st := hs.2 _ hpe
        split
        · exact Res.safe_ok this
        · exact ih rawLen ps' rest this
      · exact Res.safe_err
      · rename_i p hp; exact absurd hp (hs.1 p)
    · exact Res.safe_ok hinv

#print axioms eventLoop_safe
end Peppi

namespace Peppi
open Extracted

/-! UBJSON reader -/
theorem toUtf8_noPanic (utf8 : Bytes → Bool) (bs : Bytes) : Res.NoPanic (toUtf8 utf8 bs) := by
  intro s; unfold toUtf8
  split
  · simp
  · split
    · simp
    · simp only []; split <;> simp

theorem ubj_noPanic (utf8 : Bytes → Bool) : ∀ fuel : Nat,
    (∀ depth bs, Res.NoPanic (toVal utf8 fuel depth bs)) ∧ (∀ depth bs acc, Res.NoPanic (readMapLoop utf8 fuel depth bs acc)) := by
  intro fuel
  induction fuel with
  | zero => exact ⟨fun _ _ s => by simp [toVal], fun _ _ _ s => by simp [readMapLoop]⟩
  | succ n ih =>
    refine ⟨?_, ?_⟩
    · intro depth bs s
      unfold toVal
      split
      · simp
      · split
        · simp
        · split
          · simp
          · simp
          · rename_i hp; exact fun _ => toUtf8_noPanic utf8 _ _ hp
        · simp
      · split <;> simp
      · split
        · simp
        · simp
        · rename_i p hp; exact fun _ => ih.2 _ _ _ p hp
      · simp
    · intro depth bs acc s
      unfold readMapLoop
      split
      · simp
      · split
        · simp
        · simp
        · split
          · split
            · exact ih.2 _ _ _ s
            · simp
            · rename_i p hp; exact fun _ => ih.1 _ _ p hp
          · simp
          · rename_i p hp; exact fun _ => toUtf8_noPanic utf8 _ p hp
        · simp

theorem readMap_noPanic (utf8 : Bytes → Bool) (bs : Bytes) : Res.NoPanic (readMap utf8 bs) :=
  (ubj_noPanic utf8 _).2 _ _ _

end Peppi

namespace Peppi
open Extracted

/-! the start block -/
theorem Res.np_ok {α} (a : α) : Res.NoPanic (.ok a) := by intro s; simp
theorem Res.np_pure {α} (a : α) : Res.NoPanic (pure a : Res α) := by intro s; simp [pure]
theorem Res.np_err {α} (e : String) : Res.NoPanic (.err e : Res α) := by intro s; simp
theorem Res.np_bind {α β} {r : Res α} {f : α → Res β} (hr : Res.NoPanic r) (hf : ∀ a, Res.NoPanic (f a)) : Res.NoPanic (r >>= f) := by
  cases h : r with
  | ok a => exact hf a
  | err e => exact Res.np_err e
  | panic s => exact absurd h (hr s)
theorem Res.np_ite {α} (c : Prop) [Decidable c] {p q : Res α} (hp : Res.NoPanic p) (hq : Res.NoPanic q) : Res.NoPanic (if c then p else q) := by
  split <;> assumption

theorem meleeField_noPanic (T b) : Res.NoPanic (meleeField T b) := by unfold meleeField; exact Res.np_ite _ (Res.np_ok _) (Res.np_err _)
theorem utf8Field_noPanic (T b d) : Res.NoPanic (utf8Field T b d) := by unfold utf8Field; exact Res.np_ite _ (Res.np_ok _) (Res.np_err _)
theorem ucfEnum_noPanic (x) : Res.NoPanic (ucfEnum x) := by
  unfold ucfEnum; exact Res.np_ite _ (Res.np_ok _) (Res.np_ite _ (Res.np_ok _) (Res.np_err _))

macro "np_res" : tactic => `(tactic| repeat' (first
  | exact Res.np_pure _ | exact Res.np_ok _ | exact Res.np_err _ | exact ucfEnum_noPanic _
  | exact meleeField_noPanic _ _ | exact utf8Field_noPanic _ _ _
  | refine Res.np_bind ?_ (fun _ => ?_)))

theorem player_noPanic (T port v0 isTeams v1_0 v1_3 n c v3_11) : Res.NoPanic (player T port v0 isTeams v1_0 v1_3 n c v3_11) := by
  unfold player
  cases v1_0 <;> cases v1_3 <;> cases n <;> cases c <;> cases v3_11 <;> simp only [] <;> np_res

theorem collectPlayers_noPanic (ps : List (Res (Option Player))) (h : ∀ r ∈ ps, Res.NoPanic r) : Res.NoPanic (collectPlayers ps) := by
  unfold collectPlayers
  induction ps with
  | nil => exact Res.np_pure _
  | cons r t ih =>
    simp only [List.foldr_cons]
    apply Res.np_bind (h r (by simp)); intro _
    apply Res.np_bind (ih (fun r' hr' => h r' (by simp [hr']))); intro _
    exact Res.np_pure _

theorem playerBytes_noPanic (n m : Nat) : Rd.NoPanic (playerBytes n m) := by
  intro bs s; unfold playerBytes; split <;> simp

macro "np_auto" : tactic => `(tactic| repeat' (first
  | exact Rd.np_pure _ | exact Rd.np_fail _ | exact Rd.np_u8 | exact Rd.np_take _ | exact Rd.np_be _
  | exact Rd.np_skip _ | exact playerBytes_noPanic _ _ | exact Rd.np_isEmpty
  | exact Rd.np_lift _ (utf8Field_noPanic _ _ _)
  | apply Rd.np_ifMore | apply Rd.np_ite | refine Rd.np_bind _ _ ?_ (fun _ => ?_)))

theorem gameStartP_noPanic (T : TextOracle) (block : Bytes) : Rd.NoPanic (gameStartP T block) := by
  unfold gameStartP
  np_auto
  · apply Rd.np_lift
    apply collectPlayers_noPanic
    intro r hr
    simp only [List.mem_map] at hr
    obtain ⟨n, _, rfl⟩ := hr
    exact player_noPanic _ _ _ _ _ _ _ _ _

theorem gameStart_noPanic (T : TextOracle) (block : Bytes) : Res.NoPanic (gameStart T block) := by
  intro s
  unfold gameStart
  cases h : gameStartP T block block with
  | ok x => simp
  | err e => simp
  | panic s' => exact absurd h (gameStartP_noPanic T block block s')

#print axioms gameStart_noPanic
end Peppi

namespace Peppi
open Extracted

theorem payloadTriples_noPanic : ∀ (n : Nat) (bs : Bytes) (acc : List (Nat × Nat)), bs.length ≤ n → Res.NoPanic (payloadTriples bs acc) := by
  intro n
  induction n with
  | zero => intro bs acc h; cases bs with
    | nil => intro s; simp [payloadTriples]
    | cons _ _ => simp at h
  | succ n ih =>
    intro bs acc h
    match bs with
    | [] => intro s; simp [payloadTriples]
    | [_] => intro s; simp [payloadTriples]
    | [_, _] => intro s; simp [payloadTriples]
    | c :: s1 :: s0 :: rest =>
      simp only [payloadTriples]
      apply Res.np_ite _ (Res.np_err _)
      apply ih; simp only [List.length_cons] at h; omega

theorem expectBytes_noPanic (e : Bytes) : Rd.NoPanic (expectBytes e) := by
  unfold expectBytes; np_auto

theorem parsePayloads_noPanic : Rd.NoPanic parsePayloads := by
  unfold parsePayloads
  np_auto
  exact Rd.np_lift _ (payloadTriples_noPanic _ _ _ (Nat.le_refl _))

theorem parseGameStart_noPanic (T sizes br) : Rd.NoPanic (parseGameStart T sizes br) := by
  unfold parseGameStart
  refine Rd.np_bind _ _ Rd.np_u8 (fun code => ?_)
  split
  · exact Rd.np_fail _
  · np_auto
    exact Rd.np_lift _ (gameStart_noPanic _ _)

theorem StInv_init (sizes) (start : Start) :
    StInv { sizes, splitRaw := [], splitActual := 0,
            portIdx := (List.range 4).map fun p => ((portOccupancy start).findIdx? (·.port == p)),
            start, fend := none, frames := FCols.new start.version (portOccupancy start), metadata := none, gecko := none,
            doubleGameEnd := none } := by
  refine ⟨?_, ?_, ?_⟩
  · intro port pi hp
    simp only [FCols.new, List.length_map]
    simp only [List.getD_eq_getElem?_getD, List.getElem?_map] at hp
    cases hr : (List.range 4)[port]? with
    | none => simp [hr] at hp
    | some p =>
      simp only [hr, Option.map_some, Option.getD_some] at hp
      exact (List.findIdx?_eq_some_iff_getElem.mp hp).1
  · intro h
    simp only [FCols.new] at h ⊢
    split at h <;> simp_all
  · intro offs items ho hi
    simp only [FCols.new] at ho hi
    split at ho
    · simp only [Option.some.injEq] at ho; subst ho; simp
    · simp at ho

theorem parseStart_safe (T : TextOracle) : Rd.Safe (fun ps => StInv ps.st) (parseStart T) := by
  unfold parseStart
  apply Rd.safe_bind (Rd.safe_of_noPanic parsePayloads_noPanic); intro brs _
  obtain ⟨br, sizes⟩ := brs
  apply Rd.safe_bind (Rd.safe_of_noPanic (parseGameStart_noPanic T sizes br)); intro brs2 _
  obtain ⟨br2, start⟩ := brs2
  exact Rd.safe_pure (StInv_init sizes start)

theorem parseMetadata_noPanic (utf8 st) : Rd.NoPanic (parseMetadata utf8 st) := by
  unfold parseMetadata
  refine Rd.np_bind _ _ (expectBytes_noPanic _) (fun _ => ?_)
  refine Rd.np_bind _ _ (fun bs => readMap_noPanic utf8 bs) (fun _ => Rd.np_pure _)

theorem readTail_noPanic (T rawLen ps) : Rd.NoPanic (readTail T rawLen ps) := by
  unfold readTail
  simp only []
  refine Rd.np_bind _ _ ?_ (fun st => ?_)
  · apply Rd.np_ite
    · refine Rd.np_bind _ _ (Rd.np_take _) (fun _ => ?_)
      apply Rd.np_ite <;> exact Rd.np_pure _
    · exact Rd.np_pure _
  refine Rd.np_bind _ _ Rd.np_u8 (fun b => ?_)
  refine Rd.np_bind _ _ ?_ (fun _ => Rd.np_pure _)
  apply Rd.np_ite
  · refine Rd.np_bind _ _ (parseMetadata_noPanic _ _) (fun _ => ?_)
    refine Rd.np_bind _ _ (expectBytes_noPanic _) (fun _ => Rd.np_pure _)
  apply Rd.np_ite
  · exact Rd.np_pure _
  · exact Rd.np_fail _

theorem skipToEnd_safe (rawLen ps) (h : StInv ps.st) : Rd.Safe (fun ps' => StInv ps'.st) (skipToEnd rawLen ps) := by
  unfold skipToEnd
  simp only []
  apply Rd.safe_ite
  · intro _; exact Rd.safe_fail
  · intro _ bs; exact Res.safe_ok h

theorem loopTail_noPanic (T rawLen ps) (h : StInv ps.st) : Rd.NoPanic (loopTail T rawLen ps) := by
  unfold loopTail
  refine Rd.np_bind _ _ ?_ (fun _ => readTail_noPanic _ _ _)
  intro bs; exact (eventLoop_safe _ _ _ _ h).1

/-- **C06 (model half)**: for every input and every option set, the `.slp` reader returns `ok` or `err`, never a panic -/
theorem readSlp_noPanic (T : TextOracle) (opts : Opts) (input : Bytes) : ∀ s, readSlp T opts input ≠ .panic s := by
  intro s
  unfold readSlp
  have hp : Rd.NoPanic (readP T opts) := by
    unfold readP
    refine Rd.np_bind _ _ (by unfold parseHeader; np_auto) (fun rawLen => ?_)
    apply Rd.safe_noPanic (P := fun _ => True)
    apply Rd.safe_bind (parseStart_safe T); intro ps hps
    apply Rd.safe_bind (Q := fun ps' => StInv ps'.st)
    · split
      · exact skipToEnd_safe rawLen ps hps
      · exact Rd.safe_pure hps
    intro ps' hps'
    exact Rd.safe_of_noPanic (loopTail_noPanic T rawLen ps' hps')
  split
  · simp
  · simp
  · rename_i p hpn; exact absurd hpn (hp input p)

#print axioms readSlp_noPanic
end Peppi
