import Peppi.Lemmas.WriteSlots
/-! `Frame::write` on the expected columns of a history re-emits the recorder's events (≥ 3.0). -/
namespace Peppi
open Extracted

theorem concatRes_ok (l : List (Res Bytes)) (bs : List Bytes) (h : l = bs.map Res.ok) : concatRes l = .ok bs.flatten := by
  subst h
  induction bs with
  | nil => rfl
  | cons b t ih => simp only [List.map_cons, concatRes_cons, bind, pure, ih, List.flatten_cons]

/-- number of item rows before frame `k` -/
def itemsBefore (h : List FrameOcc) (k : Nat) : Nat := ((h.take k).flatMap (·.items)).length

theorem items_index (h : List FrameOcc) (idx : Nat) (hidx : idx < h.length) (k : Nat) (hk : k < (h[idx]).items.length) :
    (h.flatMap (·.items))[itemsBefore h idx + k]? = some ((h[idx]).items[k]) := by
  have hsplit : h.flatMap (·.items) = (h.take idx).flatMap (·.items) ++ ((h[idx]).items ++ (h.drop (idx+1)).flatMap (·.items)) := by
    have : h = h.take idx ++ (h[idx] :: h.drop (idx+1)) := by
      rw [← List.drop_eq_getElem_cons hidx, List.take_append_drop]
    calc h.flatMap (·.items) = (h.take idx ++ (h[idx] :: h.drop (idx+1))).flatMap (·.items) := by rw [← this]
      _ = _ := by rw [List.flatMap_append, List.flatMap_cons]
  rw [hsplit]
  unfold itemsBefore
  rw [List.getElem?_append_right (Nat.le_add_right _ _), Nat.add_sub_cancel_left,
    List.getElem?_append_left hk, List.getElem?_eq_getElem hk]

theorem offsOf_get (h : List FrameOcc) (k : Nat) (hk : k ≤ h.length) : (offsOf h)[k]? = some (itemsBefore h k) := by
  unfold offsOf itemsBefore
  rw [List.getElem?_map, List.getElem?_range (by omega)]
  rfl

theorem itemsBefore_succ (h : List FrameOcc) (idx : Nat) (hidx : idx < h.length) :
    itemsBefore h (idx+1) = itemsBefore h idx + (h[idx]).items.length := by
  unfold itemsBefore
  rw [List.take_add_one, List.getElem?_eq_getElem hidx]
  simp only [Option.toList_some, List.flatMap_append, List.flatMap_cons, List.flatMap_nil, List.append_nil, List.length_append]

/-- `Frame::write`, one frame -/
theorem writeFrame_A (v : Ver) (shape : List PortOccupancy) (h : List FrameOcc) (idx : Nat) (hidx : idx < h.length)
    (h30 : v.gte 3 0 = true) (h22 : v.gte 2 2 = true) (hn : ∀ o ∈ h, o.chars.length = nSlots shape) :
    writeFrame v (expFrames v shape h) idx (h[idx]).id = .ok (encEvents (frameEventsA v shape h[idx])) := by
  have hstart : (h.map fun o => some o.start)[idx]? = some (some (h[idx]).start) := by simp [List.getElem?_eq_getElem hidx]
  have hend : (h.map fun o => some o.fend)[idx]? = some (some (h[idx]).fend) := by simp [List.getElem?_eq_getElem hidx]
  -- the two passes over the ports
  have hpass : ∀ post, concatRes ((expPorts shape h).map fun p => writePort v p post idx (h[idx]).id) =
      .ok (encEvents (charEvents post v (h[idx]).id (slotList shape 0) (presentFrom 0 (h[idx]).chars))) := by
    intro post
    have := writePorts_cols post v (h[idx]).id idx (histAt h) (by intro c; simp [histAt]; exact hidx) shape 0
    rw [← pass_eq_events post v (h[idx]).id shape (h[idx]).chars (hn _ (List.getElem_mem _))]
    simp only [expPorts, expFlat, nSlots, List.range_eq_range']
    rw [this]
    congr 2
    funext c
    simp [histAt]
  -- the items of this frame
  have hitems : concatRes ((List.range (itemsBefore h idx + (h[idx]).items.length - itemsBefore h idx)).map fun k => do
          let body ← rowAt v Item.write ((h.flatMap (·.items)).map some) (itemsBefore h idx + k)
          pure ([0x3B] ++ toBE 4 (ofInt32 (h[idx]).id) ++ body)) =
      .ok (encEvents ((h[idx]).items.map fun r => (EV_ITEM, encPlain v Item.readPush (h[idx]).id r))) := by
    rw [Nat.add_sub_cancel_left]
    have := concatRes_ok ((List.range (h[idx]).items.length).map fun k => do
          let body ← rowAt v Item.write ((h.flatMap (·.items)).map some) (itemsBefore h idx + k)
          pure ([0x3B] ++ toBE 4 (ofInt32 (h[idx]).id) ++ body))
      ((h[idx]).items.map fun r => encEvent (EV_ITEM, encPlain v Item.readPush (h[idx]).id r)) (by
        apply List.ext_getElem (by simp)
        intro k hk1 hk2
        simp only [List.length_map, List.length_range] at hk1
        have hix := items_index h idx hidx k hk1
        have : ((h.flatMap (·.items)).map some)[itemsBefore h idx + k]? = some (some (h[idx]).items[k]) := by
          rw [List.getElem?_map, hix]; rfl
        simp only [List.getElem_map, List.getElem_range, bind, rowAt_some _ _ _ _ _ this, pure, encEvent, encPlain, encId,
          item_views.1]
        simp only [Res.ok.injEq, List.cons_append, List.nil_append, List.append_assoc, List.cons.injEq, and_true]
        decide)
    rw [this]
    simp [encEvents, List.flatMap, List.map_map, Function.comp_def]
  simp only [bind, pure] at hitems
  unfold writeFrame
  simp only [h22, h30, ↓reduceIte, and_self, expFrames, bind, rowAt_some _ _ _ _ _ hstart, rowAt_some _ _ _ _ _ hend, pure,
    hpass false, hpass true, offsOf_get h idx (by omega), offsOf_get h (idx+1) (by omega), itemsBefore_succ h idx hidx]
  rw [hitems]
  simp only [frameEventsA, encEvents_append, encEvents_cons, encEvents_nil, List.append_nil, encEvent, encPlain, encId,
    start_views.1, end_views.1, Res.ok.injEq, List.cons_append, List.nil_append, List.append_assoc]
  have c1 : (UInt8.ofNat EV_FRAME_START) = 58 := by decide
  have c2 : (UInt8.ofNat EV_FRAME_END) = 60 := by decide
  rw [c1, c2]

#print axioms writeFrame_A
end Peppi

namespace Peppi
open Extracted

theorem encEvents_flatMap {α} (l : List α) (f : α → List (Nat × Bytes)) :
    encEvents (l.flatMap f) = (l.map fun a => encEvents (f a)).flatten := by
  induction l with
  | nil => rfl
  | cons a t ih => simp only [List.flatMap_cons, encEvents_append, ih, List.map_cons, List.flatten_cons]

/-- `Frame::write`: all frames -/
theorem writeFrames_A (v : Ver) (shape : List PortOccupancy) (h : List FrameOcc)
    (h30 : v.gte 3 0 = true) (h22 : v.gte 2 2 = true) (hn : ∀ o ∈ h, o.chars.length = nSlots shape) :
    writeFrames v (expFrames v shape h) = .ok (encEvents (h.flatMap (frameEventsA v shape))) := by
  unfold writeFrames
  rw [encEvents_flatMap]
  apply concatRes_ok
  apply List.ext_getElem (by simp [expFrames])
  intro idx h1 h2
  have hidx : idx < h.length := by simpa [expFrames] using h1
  simp only [List.getElem_map, List.getElem_range]
  have hid : (expFrames v shape h).id.getD idx 0 = (h[idx]).id := by
    simp [expFrames, List.getD_eq_getElem?_getD, List.getElem?_eq_getElem hidx]
  rw [hid, writeFrame_A v shape h idx hidx h30 h22 hn]

#print axioms writeFrames_A
end Peppi
