import Peppi.Lemmas.FramePerm
import Peppi.Lemmas.StreamGen
import Peppi.Lemmas.C17
/-! C17, "non-canonical event order inside a frame", at file level (≥ 3.0, no Gecko block). -/
namespace Peppi
open Extracted

/-- whole histories with permuted bodies -/
theorem frames_perm (v : Ver) (shape : List PortOccupancy) (h30 : v.gte 3 0 = true) (h22 : v.gte 2 2 = true)
    (hports : ∀ p ∈ shape, p.port < 256) :
    ∀ (fr : List (FrameOcc × List BEv)) (h0 : List FrameOcc) (st : PState), st.start.version = v →
      st.frames = expFrames v shape h0 → PortMapOK st.portIdx shape →
      (∀ ob ∈ fr, ob.1.OK v (nSlots shape) ∧ BodyOK v (nSlots shape) ob.1 ob.2) →
      runEvents st (fr.flatMap fun ob => frameEventsP v shape ob.1 ob.2) =
        .ok { st with frames := expFrames v shape (h0 ++ fr.map Prod.fst) } := by
  intro fr
  induction fr with
  | nil => intro h0 st _ hfr _ _; simp [runEvents, ← hfr]
  | cons ob rest ih =>
    intro h0 st hv hfr hmap hok
    obtain ⟨ho, hb⟩ := hok ob (by simp)
    rw [List.flatMap_cons, runEvents_append, frame_step_perm v shape h0 ob.1 st ob.2 hv h30 h22 hfr hmap hports ho hb]
    simp only []
    have := ih (h0 ++ [ob.1]) { st with frames := expFrames v shape (h0 ++ [ob.1]) } hv rfl hmap (fun ob' h' => hok ob' (by simp [h']))
    simpa using this

theorem bev_size (v : Ver) (shape : List PortOccupancy) (id : Int) (e : BEv) (he : e.OK v (nSlots shape)) (sl el : Nat) :
    (e.enc v id (slotList shape 0)).1 < 256 ∧ (e.enc v id (slotList shape 0)).1 ≠ EV_SPLITTER ∧ (e.enc v id (slotList shape 0)).1 ≠ EV_GAME_END ∧
      ((e.enc v id (slotList shape 0)).1, (e.enc v id (slotList shape 0)).2.length) ∈ canonTable v sl el := by
  cases e with
  | pre c r =>
    obtain ⟨hc, hr⟩ := he
    obtain ⟨d, hd⟩ : ∃ d, (slotList shape 0)[c]? = some d := ⟨_, List.getElem?_eq_getElem hc⟩
    simp only [BEv.enc, hd, encChar_length _ _ _ _ _ _ hr]
    exact ⟨by decide, by decide, by decide, by simp [canonTable]⟩
  | post c r =>
    obtain ⟨hc, hr⟩ := he
    obtain ⟨d, hd⟩ : ∃ d, (slotList shape 0)[c]? = some d := ⟨_, List.getElem?_eq_getElem hc⟩
    simp only [BEv.enc, hd, encChar_length _ _ _ _ _ _ hr]
    exact ⟨by decide, by decide, by decide, by simp [canonTable]⟩
  | item r =>
    simp only [BEv.enc, encPlain_length _ _ _ _ he]
    exact ⟨by decide, by decide, by decide, by simp [canonTable]⟩

/-- the permuted replay: every frame of `r` with an admissible body order -/
structure Permuted (v : Ver) (shape : List PortOccupancy) (r : Replay) (fr : List (FrameOcc × List BEv)) : Prop where
  frames : fr.map Prod.fst = r.frames
  bodies : ∀ ob ∈ fr, BodyOK v (nSlots shape) ob.1 ob.2

def permStream (v : Ver) (shape : List PortOccupancy) (fr : List (FrameOcc × List BEv)) : Unknowns :=
  { extra := [], mixed := fr.flatMap fun ob => frameEventsP v shape ob.1 ob.2 }

/-- **C17 (event order inside a frame), file level**: the file with permuted frame bodies is read to exactly the game of
    the canonical file; hence it is written as the canonical file, which re-reads to the same game (a fixed point) -/
theorem C17_perm_A (T : TextOracle) (r : Replay) (s : Start) (h : r.WF T s) (fr : List (FrameOcc × List BEv))
    (hp : Permuted s.version (portOccupancy s) r fr)
    (hraw : (r.rawU s.version (permStream s.version (portOccupancy s) fr)).length < 256 ^ 4)
    (hmax : assertMaxVersion s.version = .ok ()) :
    ∃ g, readSlp T { skipFrames := false, computeHash := false } (r.encodeU s.version (permStream s.version (portOccupancy s) fr)) = .ok g ∧
      writeSlp g = .ok (r.encode s.version (portOccupancy s)) ∧
      readSlp T { skipFrames := false, computeHash := false } (r.encode s.version (portOccupancy s)) = .ok g := by
  have htab : canonTableU s.version r.startBlock.length (r.endLen s.version) (permStream s.version (portOccupancy s) fr) =
      canonTable s.version r.startBlock.length (r.endLen s.version) := by simp [canonTableU, permStream]
  have hokfr : ∀ ob ∈ fr, ob.1.OK s.version (nSlots (portOccupancy s)) := by
    intro ob hob
    apply h.frames
    rw [← hp.frames]; exact List.mem_map.mpr ⟨ob, hob, rfl⟩
  have hws : r.WFS T s (permStream s.version (portOccupancy s) fr) (expFrames s.version (portOccupancy s) r.frames) := by
    refine ⟨h, ?_, ?_, ?_, ?_, ?_, hraw⟩
    · rw [htab]; exact canonTable_ok _ _ _ h.startLen h.endLenOK (rows_bounded _)
    · rw [htab]; exact canonTable_nodup _ _ _
    · rw [htab]; simp [canonTable]
    · intro e he
      rw [htab]
      simp only [permStream, List.mem_flatMap] at he
      obtain ⟨ob, hob, heo⟩ := he
      simp only [frameEventsP, List.mem_append, List.mem_cons, List.not_mem_nil, or_false, List.mem_map] at heo
      rcases heo with (rfl | ⟨b, hb, rfl⟩) | rfl
      · simp only [encPlain_length _ _ _ _ (hokfr ob hob).start]
        exact ⟨by decide, by decide, by decide, by simp [canonTable]⟩
      · exact bev_size _ _ _ b ((hp.bodies ob hob).ok b hb) _ _
      · simp only [encPlain_length _ _ _ _ (hokfr ob hob).fend]
        exact ⟨by decide, by decide, by decide, by simp [canonTable]⟩
    · have := frames_perm s.version (portOccupancy s) h.v30 h.v22 h.ports fr [] (ps0U r s (permStream s.version (portOccupancy s) fr)).st rfl
        (by simp [ps0U, FCols_new_eq]) h.portMap (fun ob hob => ⟨hokfr ob hob, hp.bodies ob hob⟩)
      simpa [permStream, hp.frames] using this
  obtain ⟨ge, hge, hS⟩ := readP_encode_stream T r s _ _ hws
  obtain ⟨ge', hge', hA⟩ := readP_encode_A T r s h
  have hgg : ge = ge' := by
    cases ge <;> cases ge' <;> cases hf : r.fend <;> simp_all
  subst hgg
  have hS' : readP T { skipFrames := false, computeHash := false } (r.encodeU s.version (permStream s.version (portOccupancy s) fr)) =
      .ok (r.game s ge, []) := hS
  have hA' : readP T { skipFrames := false, computeHash := false } (r.encode s.version (portOccupancy s)) = .ok (r.game s ge, []) := hA
  have hw := write_game_A T r s h hmax ge hge
  refine ⟨r.game s ge, ?_, hw, ?_⟩
  · unfold readSlp; rw [hS']; simp only [Bool.false_eq_true, ↓reduceIte]; rfl
  · unfold readSlp; rw [hA']; simp only [Bool.false_eq_true, ↓reduceIte]; rfl

#print axioms C17_perm_A
end Peppi
