import Peppi.Lemmas.CharRun
import Peppi.Lemmas.Perm
/-! Any interleaving of one frame's pre / post / item events (C17: "non-canonical event order inside a frame"). -/
namespace Peppi
open Extracted

/-- one event of a frame body, addressed by flat character slot -/
inductive BEv where
  | pre (c : Nat) (r : Row)
  | post (c : Nat) (r : Row)
  | item (r : Row)

def BEv.enc (v : Ver) (id : Int) (sl : List (Nat × Bool × Nat)) : BEv → Nat × Bytes
  | .pre c r => (match sl[c]? with | some d => (EV_FRAME_PRE, encChar v Pre.readPush id d.2.2 d.2.1 r) | none => (0, []))
  | .post c r => (match sl[c]? with | some d => (EV_FRAME_POST, encChar v Post.readPush id d.2.2 d.2.1 r) | none => (0, []))
  | .item r => (EV_ITEM, encPlain v Item.readPush id r)

def BEv.cev : BEv → Option CEv
  | .pre c r => some (.pre c r)
  | .post c r => some (.post c r)
  | .item _ => none

def BEv.itemRow : BEv → Option Row
  | .item r => some r
  | _ => none

def BEv.OK (v : Ver) (n : Nat) : BEv → Prop
  | .pre c r => c < n ∧ RowOK v Pre.readPush r
  | .post c r => c < n ∧ RowOK v Post.readPush r
  | .item r => RowOK v Item.readPush r

/-- Running any sequence of body events inside an open frame: the character events act on the flat slots as `runChars` on
    their projection, the item events append their rows in order; nothing else changes. -/
theorem run_body_events (id : Int) (hid : I32 id) (body : List BEv) :
    ∀ (st : PState) (cs' : List DCols) (it : SCols),
      st.lastId = some id →
      PortMapOK st.portIdx (shapeOf st.frames.ports) →
      (∀ p ∈ st.frames.ports, p.port < 256) →
      (∀ e ∈ body, e.OK st.start.version (slotList (shapeOf st.frames.ports) 0).length) →
      st.frames.item = some it →
      runChars (flatSlots st.frames.ports) (body.filterMap BEv.cev) = some cs' →
      ∃ P, runEvents st (body.map (BEv.enc st.start.version id (slotList (shapeOf st.frames.ports) 0)))
            = .ok { st with frames := { st.frames with ports := P, item := some (it ++ (body.filterMap BEv.itemRow).map some) } } ∧
        shapeOf P = shapeOf st.frames.ports ∧ flatSlots P = cs' := by
  induction body with
  | nil =>
    intro st cs' it _ _ _ _ hit hrun
    simp only [List.filterMap_nil, runChars, Option.some.injEq] at hrun
    refine ⟨st.frames.ports, ?_, rfl, hrun⟩
    simp only [List.map_nil, runEvents, List.filterMap_nil, List.append_nil, Res.ok.injEq]
    rw [← hit]
  | cons e rest ih =>
    intro st cs' it hlast hmap hports hok hit hrun
    have hoke := hok e (by simp)
    -- a character event on slot `c` with update `f`
    have charStep : ∀ (c : Nat) (f : DCols → DCols) (ce : CEv), c < (slotList (shapeOf st.frames.ports) 0).length →
        ce.target = c → ce.apply = f → e.cev = some ce → e.itemRow = none →
        (∀ d, (slotList (shapeOf st.frames.ports) 0)[c]? = some d → st.slotIdx d.2.2 d.2.1 = .ok d.1 → d.2.2 < 256 →
          handleEvent st (e.enc st.start.version id (slotList (shapeOf st.frames.ports) 0)).1
            (e.enc st.start.version id (slotList (shapeOf st.frames.ports) 0)).2 = .ok (st.updSlot d.1 d.2.1 f)) →
        ∃ P, runEvents st ((e :: rest).map (BEv.enc st.start.version id (slotList (shapeOf st.frames.ports) 0)))
            = .ok { st with frames := { st.frames with ports := P, item := some (it ++ ((e :: rest).filterMap BEv.itemRow).map some) } } ∧
          shapeOf P = shapeOf st.frames.ports ∧ flatSlots P = cs' := by
      intro c f ce hc htarget happly hcev hitem hhandle
      obtain ⟨d, hd⟩ : ∃ d, (slotList (shapeOf st.frames.ports) 0)[c]? = some d := ⟨_, List.getElem?_eq_getElem hc⟩
      obtain ⟨_, hpi, hidx, hfol, hport⟩ := slotList_index st.frames.ports 0 c d hd
      simp only [Nat.sub_zero] at hpi hidx hfol hport
      have hpc : st.frames.ports[d.1]? = some (st.frames.ports[d.1]) := List.getElem?_eq_getElem hpi
      have hpn : (st.frames.ports[d.1]).port = d.2.2 := by simpa [hpc] using hport
      have hslot : st.slotIdx d.2.2 d.2.1 = .ok d.1 := by
        unfold PState.slotIdx
        have hm := hmap d.1 (by simpa [shapeOf] using hpi)
        simp only [shapeOf, List.getElem_map] at hm
        rw [hpn] at hm
        simp only [hm, slotOk, hpc]
        cases hf : d.2.1 with
        | false => simp
        | true =>
          have := hfol hf
          simp only [hpc, Option.bind_some] at this
          have hnn : (st.frames.ports[d.1]).follower.isNone = false := by
            cases hfo : (st.frames.ports[d.1]).follower <;> simp_all
          simp [hnn]
      have hp256 : d.2.2 < 256 := by rw [← hpn]; exact hports _ (List.getElem_mem _)
      have hf1 := hhandle d hd hslot hp256
      have hflat : flatSlots (st.updSlot d.1 d.2.1 f).frames.ports = (flatSlots st.frames.ports).modify c f := by
        rw [(updSlot_frames st d.1 d.2.1 f).1, flatSlots_updSlot _ _ _ _ hpi (by
          intro hft; have := hfol hft; simpa [hpc] using this), hidx]
      have hshape : shapeOf (st.updSlot d.1 d.2.1 f).frames.ports = shapeOf st.frames.ports := by
        rw [(updSlot_frames st d.1 d.2.1 f).1]; exact shapeOf_updSlot _ _ _ _
      simp only [List.filterMap_cons, hcev, runChars, stepChars] at hrun
      have hcl : c < (flatSlots st.frames.ports).length := by rw [flatSlots_length]; exact hc
      simp only [htarget, hcl, ↓reduceIte, happly] at hrun
      rw [← hflat] at hrun
      obtain ⟨P, hP, hPs, hPf⟩ := ih (st.updSlot d.1 d.2.1 f) cs' it
        (by simpa [PState.lastId, (updSlot_frames st d.1 d.2.1 f).2.1] using hlast)
        (by rw [(updSlot_frames st d.1 d.2.1 f).2.2.1, hshape]; exact hmap)
        (by
          intro p hp
          rw [(updSlot_frames st d.1 d.2.1 f).1] at hp
          obtain ⟨i, hi, rfl⟩ := List.getElem_of_mem hp
          simp only [List.getElem_modify]
          split
          · have := hports (st.frames.ports[i]'(by simpa using hi)) (List.getElem_mem _)
            unfold PCols.updSlot; split <;> simpa using this
          · exact hports _ (List.getElem_mem _))
        (by
          intro e' he'
          rw [hshape, (updSlot_frames st d.1 d.2.1 f).2.2.2]
          exact hok e' (by simp [he']))
        (by simpa [PState.updSlot] using hit)
        hrun
      refine ⟨P, ?_, by rw [hPs, hshape], hPf⟩
      simp only [List.map_cons, runEvents, hf1]
      simp only [hshape, (updSlot_frames st d.1 d.2.1 f).2.2.2] at hP
      rw [hP]
      simp [PState.updSlot, List.filterMap_cons, hitem]
    cases e with
    | pre c r =>
      obtain ⟨hc, hrow⟩ := hoke
      exact charStep c (·.pushPre r) (.pre c r) hc rfl (by funext x; rfl) rfl rfl (by
        intro d hd hslot hp256
        simp only [BEv.enc, hd]
        exact handle_pre_open st id d.2.2 d.2.1 r d.1 hid hp256 hrow hlast hslot)
    | post c r =>
      obtain ⟨hc, hrow⟩ := hoke
      exact charStep c (·.pushPost r) (.post c r) hc rfl (by funext x; rfl) rfl rfl (by
        intro d hd hslot hp256
        simp only [BEv.enc, hd]
        exact handle_post st id d.2.2 d.2.1 r d.1 hid hp256 hrow hlast hslot)
    | item r =>
      have hrow : RowOK st.start.version Item.readPush r := hoke
      have h1 := handle_item st id r it hid hrow hlast hit
      simp only [List.filterMap_cons, BEv.cev] at hrun
      obtain ⟨P, hP, hPs, hPf⟩ := ih { st with frames := { st.frames with item := some (it ++ [some r]) } } cs' (it ++ [some r])
        (by simpa [PState.lastId] using hlast) hmap hports (fun e' he' => hok e' (by simp [he'])) rfl hrun
      refine ⟨P, ?_, hPs, hPf⟩
      simp only [List.map_cons, runEvents, BEv.enc, h1]
      rw [hP]
      simp [List.filterMap_cons, BEv.itemRow, List.append_assoc]

#print axioms run_body_events
end Peppi

namespace Peppi
open Extracted

theorem cev_target_lt (v : Ver) (n : Nat) (body : List BEv) (hok : ∀ e ∈ body, e.OK v n) :
    ∀ ce ∈ body.filterMap BEv.cev, ce.target < n := by
  intro ce hce
  obtain ⟨e, he, hec⟩ := List.mem_filterMap.mp hce
  have := hok e he
  cases e with
  | pre c r => simp only [BEv.cev, Option.some.injEq] at hec; subst hec; exact this.1
  | post c r => simp only [BEv.cev, Option.some.injEq] at hec; subst hec; exact this.1
  | item r => simp [BEv.cev] at hec

/-- **C17 (event order inside a frame)**: two bodies with the same events per character (in the same order) and the same
    item sequence leave the reader in the same state — in particular any permutation of the canonical body that keeps each
    character's pre before its post and the items in order -/
theorem run_body_perm (id : Int) (hid : I32 id) (body body' : List BEv) (st : PState) (it : SCols)
    (hlast : st.lastId = some id) (hmap : PortMapOK st.portIdx (shapeOf st.frames.ports)) (hports : ∀ p ∈ st.frames.ports, p.port < 256)
    (hok : ∀ e ∈ body, e.OK st.start.version (slotList (shapeOf st.frames.ports) 0).length)
    (hok' : ∀ e ∈ body', e.OK st.start.version (slotList (shapeOf st.frames.ports) 0).length)
    (hit : st.frames.item = some it)
    (hproj : ∀ c, (body'.filterMap BEv.cev).filter (·.target == c) = (body.filterMap BEv.cev).filter (·.target == c))
    (hitems : body'.filterMap BEv.itemRow = body.filterMap BEv.itemRow) :
    runEvents st (body'.map (BEv.enc st.start.version id (slotList (shapeOf st.frames.ports) 0))) =
      runEvents st (body.map (BEv.enc st.start.version id (slotList (shapeOf st.frames.ports) 0))) := by
  have hlen : (flatSlots st.frames.ports).length = (slotList (shapeOf st.frames.ports) 0).length := flatSlots_length _
  have ht : ∀ ce ∈ body.filterMap BEv.cev, ce.target < (flatSlots st.frames.ports).length := by
    rw [hlen]; exact cev_target_lt _ _ body hok
  obtain ⟨cs, hcs⟩ := runChars_ok (flatSlots st.frames.ports) (body.filterMap BEv.cev) ht
  have hcs' : runChars (flatSlots st.frames.ports) (body'.filterMap BEv.cev) = some cs := by
    rw [runChars_perm _ _ _ hproj ht]; exact hcs
  obtain ⟨P, hP, hPs, hPf⟩ := run_body_events id hid body st cs it hlast hmap hports hok hit hcs
  obtain ⟨P', hP', hPs', hPf'⟩ := run_body_events id hid body' st cs it hlast hmap hports hok' hit hcs'
  have : P' = P := ports_ext P' P (by rw [hPs', hPs]) (by rw [hPf', hPf])
  rw [hP', hP, this, hitems]

#print axioms run_body_perm
end Peppi
