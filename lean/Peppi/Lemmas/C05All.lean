import Peppi.Lemmas.C05
/-! C05: the Game Start parser equals the offset specification on every legal block length. -/
namespace Peppi

/-- the specification by absolute payload offsets, for a block of length `L`: a tail is present iff it lies inside the block -/
def specStart (L : Nat) (T : TextOracle) (blk b : Bytes) : Res Start :=
  let at_ (o w : Nat) : Nat := fromBE ((b.drop o).take w)
  let byte (o : Nat) : Nat := (b.getD o 0).toNat
  let sl (o w : Nat) : Bytes := (b.drop o).take w
  let per (o w : Nat) (n : Nat) : Bytes := ((List.range NUM_PORTS).map fun i => sl (o + w * i) w).getD n []
  let opt {α} (endOff : Nat) (x : α) : Option α := if endOff ≤ L then some x else none
  let isTeams := byte 12 != 0
  (if 701 ≤ L then (if byte 700 ≤ 1 then Res.ok (some (byte 700)) else .err "invalid language") else .ok none) >>= fun language =>
  (if 760 ≤ L then utf8Field T (sl 701 51) 50 >>= fun id => .ok (some (Match.mk id (at_ 752 4) (at_ 756 4))) else .ok none) >>= fun match_ =>
  (collectPlayers ((List.range NUM_PORTS).map fun n =>
      player T n (((List.range MAX_PLAYERS).map fun i => sl (100 + 36 * i) 36).getD n []) isTeams
        (opt 352 (per 320 8 n)) (opt 416 (per 352 16 n)) (opt 584 (per 420 31 n)) (opt 584 (per 544 10 n)) (opt 700 (per 584 29 n)))) >>= fun players =>
  .ok { version := ⟨byte 0, byte 1, byte 2⟩, bitfield := sl 4 4, isRainingBombs := byte 10 != 0, isTeams,
        itemSpawnFrequency := byte 15, selfDestructScore := byte 16, stage := at_ 18 2, timer := at_ 20 4,
        itemSpawnBitfield := sl 39 5, damageRatio := at_ 52 4, players, randomSeed := at_ 316 4, bytes := blk,
        isPal := opt 417 (byte 416 != 0), isFrozenPs := opt 418 (byte 417 != 0), scene := opt 420 (byte 418, byte 419),
        language := language, match_ := match_ }

/-- the legal payload lengths of Game Start (one per version class) -/
def startLengths : List Nat := [320, 352, 416, 417, 418, 420, 584, 700, 701, 760]

set_option hygiene false in
macro "start_class" L:num : tactic => `(tactic| (
  apply Exists.intro
  apply Exists.intro
  apply And.intro
  · unfold gameStartP
    repeat at_step
  · refine ⟨rfl, fun b => ?_⟩
    simp only [specStart, Nat.zero_add, Nat.reduceAdd, Nat.reduceMul, Nat.reduceLeDiff, NUM_PORTS, MAX_PLAYERS, bind, ↓reduceIte]
    first
      | rfl
      | (by_cases hl : (b.getD 700 0).toNat ≤ 1
         · simp only [hl, ↓reduceIte]
           first
             | rfl
             | (cases utf8Field T (List.take 51 (List.drop 701 b)) 50 <;> rfl)
         · simp only [hl, ↓reduceIte])))

theorem start_at_320 (T : TextOracle) (blk : Bytes) : ∃ (w : Nat) (f : Bytes → Res Start), Rd.AtL 320 (gameStartP T blk) 0 w f ∧ w = 320 ∧ ∀ b, f b = specStart 320 T blk b := by start_class 320
theorem start_at_352 (T : TextOracle) (blk : Bytes) : ∃ (w : Nat) (f : Bytes → Res Start), Rd.AtL 352 (gameStartP T blk) 0 w f ∧ w = 352 ∧ ∀ b, f b = specStart 352 T blk b := by start_class 352
theorem start_at_416 (T : TextOracle) (blk : Bytes) : ∃ (w : Nat) (f : Bytes → Res Start), Rd.AtL 416 (gameStartP T blk) 0 w f ∧ w = 416 ∧ ∀ b, f b = specStart 416 T blk b := by start_class 416
theorem start_at_417 (T : TextOracle) (blk : Bytes) : ∃ (w : Nat) (f : Bytes → Res Start), Rd.AtL 417 (gameStartP T blk) 0 w f ∧ w = 417 ∧ ∀ b, f b = specStart 417 T blk b := by start_class 417
theorem start_at_418 (T : TextOracle) (blk : Bytes) : ∃ (w : Nat) (f : Bytes → Res Start), Rd.AtL 418 (gameStartP T blk) 0 w f ∧ w = 418 ∧ ∀ b, f b = specStart 418 T blk b := by start_class 418
theorem start_at_420 (T : TextOracle) (blk : Bytes) : ∃ (w : Nat) (f : Bytes → Res Start), Rd.AtL 420 (gameStartP T blk) 0 w f ∧ w = 420 ∧ ∀ b, f b = specStart 420 T blk b := by start_class 420
theorem start_at_584 (T : TextOracle) (blk : Bytes) : ∃ (w : Nat) (f : Bytes → Res Start), Rd.AtL 584 (gameStartP T blk) 0 w f ∧ w = 584 ∧ ∀ b, f b = specStart 584 T blk b := by start_class 584
theorem start_at_700 (T : TextOracle) (blk : Bytes) : ∃ (w : Nat) (f : Bytes → Res Start), Rd.AtL 700 (gameStartP T blk) 0 w f ∧ w = 700 ∧ ∀ b, f b = specStart 700 T blk b := by start_class 700
theorem start_at_701 (T : TextOracle) (blk : Bytes) : ∃ (w : Nat) (f : Bytes → Res Start), Rd.AtL 701 (gameStartP T blk) 0 w f ∧ w = 701 ∧ ∀ b, f b = specStart 701 T blk b := by start_class 701
theorem start_at_760 (T : TextOracle) (blk : Bytes) : ∃ (w : Nat) (f : Bytes → Res Start), Rd.AtL 760 (gameStartP T blk) 0 w f ∧ w = 760 ∧ ∀ b, f b = specStart 760 T blk b := by start_class 760

/-- from the positional statement to the parser on the block -/
theorem start_of_at (L : Nat) (T : TextOracle) (blk b : Bytes) (hb : b.length = L)
    (h : ∃ (w : Nat) (f : Bytes → Res Start), Rd.AtL L (gameStartP T blk) 0 w f ∧ w = L ∧ ∀ b, f b = specStart L T blk b) :
    gameStartP T blk b = match specStart L T blk b with | .ok s => .ok (s, []) | .err e => .err e | .panic p => .panic p := by
  obtain ⟨w, f, hat, hw, hf⟩ := h
  subst hw
  have h2 := hat b hb (by omega)
  have hd : b.drop w = [] := List.drop_eq_nil_of_le (by omega)
  simp only [List.drop_zero, Nat.zero_add, hd, hf] at h2
  rw [h2]
  cases specStart w T blk b <;> rfl

/-- **C05 (Game Start)**: on every legal block length the parser is the offset specification -/
theorem C05_start (T : TextOracle) (b : Bytes) (hL : b.length ∈ startLengths) :
    gameStart T b = match specStart b.length T b b with | .ok s => .ok { s with bytes := b } | .err e => .err e | .panic p => .panic p := by
  have key : gameStartP T b b = match specStart b.length T b b with | .ok s => .ok (s, []) | .err e => .err e | .panic p => .panic p := by
    simp only [startLengths, List.mem_cons, List.not_mem_nil, or_false] at hL
    rcases hL with h | h | h | h | h | h | h | h | h | h
    · rw [h]; exact start_of_at 320 T b b h (start_at_320 T b)
    · rw [h]; exact start_of_at 352 T b b h (start_at_352 T b)
    · rw [h]; exact start_of_at 416 T b b h (start_at_416 T b)
    · rw [h]; exact start_of_at 417 T b b h (start_at_417 T b)
    · rw [h]; exact start_of_at 418 T b b h (start_at_418 T b)
    · rw [h]; exact start_of_at 420 T b b h (start_at_420 T b)
    · rw [h]; exact start_of_at 584 T b b h (start_at_584 T b)
    · rw [h]; exact start_of_at 700 T b b h (start_at_700 T b)
    · rw [h]; exact start_of_at 701 T b b h (start_at_701 T b)
    · rw [h]; exact start_of_at 760 T b b h (start_at_760 T b)
  unfold gameStart
  rw [key]
  cases specStart b.length T b b <;> rfl

#print axioms C05_start
end Peppi

namespace Peppi
/-- Game End by absolute payload offsets: method @0, LRAS initiator @1 (≥ 2.0), placements @2..5 (≥ 3.13) -/
def specEnd (L : Nat) (blk b : Bytes) : Res End :=
  let byte (o : Nat) : Nat := (b.getD o 0).toNat
  if ¬ (byte 0 ≤ 3 ∨ byte 0 = 7) then .err "invalid end method" else
  (if 2 ≤ L then ((if byte 1 = 255 then Res.ok none else if byte 1 ≤ 3 then .ok (some (byte 1)) else .err "invalid port") >>= fun x => .ok (some x))
    else .ok none) >>= fun lras =>
  (if 6 ≤ L then (gameEndP.go 0 ((b.drop 2).take 4) >>= fun p => .ok (some p)) else .ok none) >>= fun players =>
  .ok { method := byte 0, bytes := blk, lrasInitiator := lras, players }

macro "end_class" : tactic => `(tactic| (
  apply Exists.intro
  apply Exists.intro
  apply And.intro
  · unfold gameEndP
    repeat at_step
  · refine ⟨rfl, fun b => ?_⟩
    simp only [specEnd, Nat.zero_add, Nat.reduceAdd, Nat.reduceLeDiff, bind, ↓reduceIte]))

theorem end_at_1 (blk : Bytes) : ∃ (w : Nat) (f : Bytes → Res End), Rd.AtL 1 (gameEndP blk) 0 w f ∧ w = 1 ∧ ∀ b, f b = specEnd 1 blk b := by end_class
theorem end_at_2 (blk : Bytes) : ∃ (w : Nat) (f : Bytes → Res End), Rd.AtL 2 (gameEndP blk) 0 w f ∧ w = 2 ∧ ∀ b, f b = specEnd 2 blk b := by end_class
theorem end_at_6 (blk : Bytes) : ∃ (w : Nat) (f : Bytes → Res End), Rd.AtL 6 (gameEndP blk) 0 w f ∧ w = 6 ∧ ∀ b, f b = specEnd 6 blk b := by end_class

/-- **C05 (Game End)**: on each of the three legal lengths the parser is the offset specification -/
theorem C05_end (b : Bytes) (hL : b.length = 1 ∨ b.length = 2 ∨ b.length = 6) :
    gameEnd b = match specEnd b.length b b with | .ok e => .ok { e with bytes := b } | .err e => .err e | .panic p => .panic p := by
  have conv : ∀ L, b.length = L →
      (∃ (w : Nat) (f : Bytes → Res End), Rd.AtL L (gameEndP b) 0 w f ∧ w = L ∧ ∀ b', f b' = specEnd L b b') →
      gameEndP b b = match specEnd L b b with | .ok s => .ok (s, []) | .err e => .err e | .panic p => .panic p := by
    intro L hb ⟨w, f, hat, hw, hf⟩
    subst hw
    have h2 := hat b hb (by omega)
    have hd : b.drop w = [] := List.drop_eq_nil_of_le (by omega)
    simp only [List.drop_zero, Nat.zero_add, hd, hf] at h2
    rw [h2]
    cases specEnd w b b <;> rfl
  have key : gameEndP b b = match specEnd b.length b b with | .ok s => .ok (s, []) | .err e => .err e | .panic p => .panic p := by
    rcases hL with h | h | h
    · rw [h]; exact conv 1 h (end_at_1 b)
    · rw [h]; exact conv 2 h (end_at_2 b)
    · rw [h]; exact conv 6 h (end_at_6 b)
  unfold gameEnd
  rw [key]
  cases specEnd b.length b b <;> rfl

#print axioms C05_end
end Peppi
