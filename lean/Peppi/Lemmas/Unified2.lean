import Peppi.Lemmas.Unified
/-! More every-version statements over `Replay.WFAny`: the write half of C01, the hashed range (C11) and the
    write-and-re-read clause of C10 (the game returned by a skip-frames read is itself serialisable, and the file so
    obtained reads back as the same game). -/
namespace Peppi
open Extracted

/-- **write half of C01, every version ≤ the maximum**: serialising the game a well-formed replay denotes gives its
    canonical file -/
theorem write_game_any (T : TextOracle) (r : Replay) (s : Start) (gk : Option GeckoBlocks) (h : r.WFAny T s gk)
    (hmax : assertMaxVersion s.version = .ok ()) (ge : Option End) (hge : r.fend.map gameEnd = ge.map Res.ok) :
    writeSlp (r.gameAny s ge gk) = .ok (r.encodeAny s.version (portOccupancy s) gk) := by
  rcases h.cases with ⟨g, rfl, hg⟩ | ⟨rfl, h30, ha⟩ | ⟨rfl, h30, h22, hb⟩ | ⟨rfl, h30, h22, hc⟩
  · simpa [Replay.encodeAny, Replay.gameAny] using write_game_G T r s g hg hmax ge hge
  · simpa [Replay.encodeAny, Replay.gameAny, h30] using write_game_A T r s ha hmax ge hge
  · simpa [Replay.encodeAny, Replay.gameAny, h30, h22] using write_game_B T r s hb hmax ge hge
  · simpa [Replay.encodeAny, Replay.gameAny, h30, h22] using write_game_C T r s hc hmax ge hge

/-- **C11 (model half), every version**: on the canonical file of any well-formed replay (finished or not) the full
    reader hashes exactly the whole file when hashing is requested and reports no hash otherwise -/
theorem C11_range_any (T : TextOracle) (r : Replay) (s : Start) (gk : Option GeckoBlocks) (h : r.WFAny T s gk) (hash : Bool) :
    ∃ g, readSlp T { skipFrames := false, computeHash := hash } (r.encodeAny s.version (portOccupancy s) gk) = .ok g ∧
      g.hashedLen = (if hash then some (r.encodeAny s.version (portOccupancy s) gk).length else none) := by
  obtain ⟨ge, _, hfull⟩ := C04_any T r s gk h
  have hfull' : readP T { skipFrames := false, computeHash := hash } (r.encodeAny s.version (portOccupancy s) gk) =
      .ok (r.gameAny s ge gk, []) := hfull
  refine ⟨_, by unfold readSlp; rw [hfull'], ?_⟩
  cases hash <;> simp

/-- the history a skip-frames read denotes: same start, end and metadata; no frames, no Gecko block, a single Game End -/
def Replay.skipped (r : Replay) : Replay := { r with frames := [], doubled := false }

theorem Replay.skipped_game (r : Replay) (s : Start) (ge : End) : r.skipped.game s (some ge) = r.gameSkip s ge := by
  simp [Replay.skipped, Replay.game, Replay.gameSkip, FCols_new_eq]

theorem skipped_endEvents_le (r : Replay) (e : Bytes) (hfe : r.fend = some e) :
    (encEvents r.skipped.endEvents).length = 1 + e.length := by
  simp [Replay.skipped, Replay.endEvents, hfe, encEvents_cons, encEvents_nil, encEvent]; omega

/-- the frame-less history of a finished well-formed replay is itself well-formed (without a Gecko block) -/
theorem Replay.WFAny.skipped {T : TextOracle} {r : Replay} {s : Start} {gk : Option GeckoBlocks} (h : r.WFAny T s gk)
    (e : Bytes) (hfe : r.fend = some e) : r.skipped.WFAny T s none := by
  obtain ⟨he0, he1, _⟩ := h.endOK e hfe
  have hs := h.startLen
  refine ⟨h.start, h.startLen, (by intro o ho; simp [Replay.skipped] at ho), ?_, h.endOK, h.endLenOK, (by intro hd; simp [Replay.skipped] at hd),
    h.metadata, (by intro g hg; cases hg), ?_⟩
  · intro _ pre o post hfr
    simp [Replay.skipped] at hfr
  · have hee := skipped_endEvents_le r e hfe
    simp only [Replay.rawAny]
    split
    · rw [raw_length, hee]; simp [Replay.skipped, encEvents_nil]; omega
    · split
      · rw [raw_lengthB, hee]; simp [Replay.skipped, encEvents_nil]; omega
      · rw [raw_lengthC, hee]; simp [Replay.skipped, encEvents_nil]; omega

/-- **C10, write-and-re-read clause, every version ≤ the maximum**: the game a skip-frames read returns for a finished
    well-formed replay can be written out — the result is the canonical file of the frame-less history — and reading
    that file (fully or with skip-frames) returns the same game again. -/
theorem C10_rewrite_any (T : TextOracle) (r : Replay) (s : Start) (gk : Option GeckoBlocks) (h : r.WFAny T s gk)
    (hmax : assertMaxVersion s.version = .ok ()) (e : Bytes) (hfe : r.fend = some e) (hash : Bool) :
    ∃ gSkip, readSlp T { skipFrames := true, computeHash := hash } (r.encodeAny s.version (portOccupancy s) gk) = .ok gSkip ∧
      writeSlp gSkip = writeSlp { gSkip with hashedLen := none } ∧
      writeSlp { gSkip with hashedLen := none } = .ok (r.skipped.encodeAny s.version (portOccupancy s) none) ∧
      readSlp T {} (r.skipped.encodeAny s.version (portOccupancy s) none) = .ok { gSkip with hashedLen := none } ∧
      readSlp T { skipFrames := true } (r.skipped.encodeAny s.version (portOccupancy s) none) = .ok { gSkip with hashedLen := none } := by
  obtain ⟨ge, hge, hskip⟩ := C10_any T r s gk h e hfe hash
  have hw := h.skipped e hfe
  have hge' : r.skipped.fend.map gameEnd = (some ge).map Res.ok := by simp [Replay.skipped, hfe, hge]
  have hwr := write_game_any T r.skipped s none hw hmax (some ge) hge'
  obtain ⟨ge2, hge2, hread⟩ := C04_any T r.skipped s none hw
  have hge2' : ge2 = some ge := by
    rw [hge'] at hge2
    cases ge2 with
    | none => simp at hge2
    | some x => simp only [Option.map_some, Option.some.injEq, Res.ok.injEq] at hge2; rw [hge2]
  subst hge2'
  obtain ⟨ge3, hge3, hskip2⟩ := C10_any T r.skipped s none hw e (by simp [Replay.skipped, hfe]) false
  have hge3' : ge3 = ge := by rw [hge] at hge3; cases hge3; rfl
  subst hge3'
  simp only [Replay.gameAny, Replay.skipped_game] at hwr hread
  have hsk2 : r.skipped.gameSkip s ge3 = r.gameSkip s ge3 := rfl
  rw [hsk2] at hskip2
  refine ⟨_, by unfold readSlp; rw [hskip], ?_, ?_, ?_, ?_⟩
  · rfl
  · cases hash <;> exact hwr
  · unfold readSlp; rw [hread]; cases hash <;> rfl
  · unfold readSlp; rw [hskip2]; cases hash <;> rfl

#print axioms write_game_any
#print axioms C11_range_any
#print axioms C10_rewrite_any
end Peppi
