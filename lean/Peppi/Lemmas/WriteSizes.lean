import Peppi.Lemmas.WriteFrame
/-! Writer side: the payload-size table and its encoding. -/
namespace Peppi
open Extracted

theorem viewSize_foldl (v : Ver) (L : List Fld) (acc : Nat) :
    (L.map fun f => (f.width, f.gates)).foldl (fun a e => if e.2.all (fun g => v.gte g.1 g.2) then a + e.1 else a) acc = acc + rowSize v L := by
  induction L generalizing acc with
  | nil => simp [rowSize]
  | cons f fs ih =>
    simp only [List.map_cons, List.foldl_cons, rowSize, visible]
    rw [ih]
    by_cases hg : (f.gates.all fun g => v.gte g.1 g.2) = true
    · simp only [hg, ↓reduceIte]; omega
    · simp only [hg, Bool.false_eq_true, ↓reduceIte]; omega

theorem viewSize_eq (v : Ver) (L : List Fld) : viewSize v (L.map fun f => (f.width, f.gates)) = rowSize v L := by
  unfold viewSize; rw [viewSize_foldl]; omega

theorem sizes_pre (v : Ver) : viewSize v Pre.size = rowSize v Pre.readPush := by rw [pre_views.2.2, viewSize_eq]
theorem sizes_post (v : Ver) : viewSize v Post.size = rowSize v Post.readPush := by rw [post_views.2.2, viewSize_eq]
theorem sizes_start (v : Ver) : viewSize v Start.size = rowSize v Start.readPush := by rw [start_views.2, viewSize_eq]
theorem sizes_item (v : Ver) : viewSize v Item.size = rowSize v Item.readPush := by rw [item_views.2, viewSize_eq]
theorem sizes_end (v : Ver) : viewSize v End.size = rowSize v End.readPush := by rw [end_views.2, viewSize_eq]

def endLenOf (ge : Option End) (v : Ver) : Nat := match ge with | some e => e.bytes.length | none => endSize v

theorem game_endLen (r : Replay) (s : Start) (ge : Option End) (hge : r.fend.map gameEnd = ge.map Res.ok) :
    endLenOf ge s.version = r.endLen s.version := by
  unfold Replay.endLen endLenOf
  cases hf : r.fend with
  | none =>
    rw [hf] at hge
    cases ge with
    | none => rfl
    | some _ => simp at hge
  | some e =>
    rw [hf] at hge
    cases ge with
    | none => simp at hge
    | some g =>
      simp only [Option.map_some, Option.some.injEq] at hge
      simp only [gameEnd_bytes e g hge]

/-- `payload_sizes` of the game a well-formed replay denotes is the canonical table -/
theorem payloadSizes_A (T : TextOracle) (r : Replay) (s : Start) (h : r.WF T s) (ge : Option End)
    (hge : r.fend.map gameEnd = ge.map Res.ok) :
    payloadSizes (r.game s ge) = .ok (canonTable s.version r.startBlock.length (r.endLen s.version)) := by
  have ht : TableOK (canonTable s.version r.startBlock.length (r.endLen s.version)) :=
    canonTable_ok _ _ _ h.startLen h.endLenOK (rows_bounded _)
  have hlt33 : ∀ b : Bool, (match (none : Option Gecko) with
      | some c => [(EV_GECKO, c.actualSize % 65536), (EV_SPLITTER, 516)] | none => ([] : List (Nat × Nat))) = [] := fun _ => rfl
  have hel := game_endLen r s ge hge
  unfold endLenOf at hel
  have hall : (canonTable s.version r.startBlock.length (r.endLen s.version)).all (fun e => decide (e.2 < 65536)) = true := by
    rw [List.all_eq_true]; intro e he; simpa using (ht e he).2.2
  unfold payloadSizes
  simp only [Replay.game, h.v22, h.v30, and_self, ↓reduceIte, gameStart_bytes T _ s h.start, sizes_pre, sizes_post, sizes_start,
    sizes_item, sizes_end]
  simp only [canonTable, List.cons_append, List.nil_append, List.append_nil] at hall ⊢
  simp only [ite_self, show (4 + 2 : Nat) = 6 from rfl]
  cases ge with
  | none => simp only [] at hel ⊢; rw [hel]; simp only [hall, ↓reduceIte]
  | some g => simp only [] at hel ⊢; rw [hel]; simp only [hall, ↓reduceIte]

#print axioms payloadSizes_A
end Peppi
