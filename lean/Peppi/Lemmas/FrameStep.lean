import Peppi.Lemmas.CharRun
/-! The per-frame theorem on the real reader state, regime ≥ 3.0 (Frame Start … Frame End). -/
namespace Peppi
open Extracted

structure FrameOcc where
  id : Int
  start : Row
  chars : List (Option CharOcc)
  items : List Row
  fend : Row

def histAt (h : List FrameOcc) (c : Nat) : List (Option CharOcc) := h.map (fun o => (o.chars[c]?).join)
def nSlots (shape : List PortOccupancy) : Nat := (slotList shape 0).length
def expFlat (shape : List PortOccupancy) (h : List FrameOcc) : List DCols :=
  (List.range (nSlots shape)).map (fun c => colsOf (histAt h c))
def expPorts (shape : List PortOccupancy) (h : List FrameOcc) : List PCols := rebuild shape (expFlat shape h)

def offsOf (h : List FrameOcc) : List Nat :=
  (List.range (h.length + 1)).map (fun k => ((h.take k).flatMap (·.items)).length)

/-- the columns a history must produce -/
def expFrames (v : Ver) (shape : List PortOccupancy) (h : List FrameOcc) : FCols :=
  { id := h.map (·.id), ports := expPorts shape h,
    start := if v.gte 2 2 then some (h.map fun o => some o.start) else none,
    fend := if v.gte 3 0 then some (h.map fun o => some o.fend) else none,
    itemOff := if v.gte 3 0 then some (offsOf h) else none,
    item := if v.gte 3 0 then some ((h.flatMap (·.items)).map some) else none }

theorem offsOf_snoc (h : List FrameOcc) (o : FrameOcc) :
    offsOf (h ++ [o]) = offsOf h ++ [(h.flatMap (·.items)).length + o.items.length] := by
  simp only [offsOf, List.length_append, List.length_cons, List.length_nil]
  rw [List.range_succ, List.map_append]
  congr 1
  · apply List.map_congr_left
    intro k hk
    simp at hk
    rw [List.take_append_of_le_length (by omega)]
  · have : (h ++ [o]).take (h.length + 1) = h ++ [o] := List.take_of_length_le (by simp)
    simp only [List.map_cons, List.map_nil, this]
    simp [List.flatMap_append]

theorem offsOf_last (h : List FrameOcc) : (offsOf h).getLastD 0 = (h.flatMap (·.items)).length := by
  unfold offsOf
  rw [List.range_succ, List.map_append]
  have : h.take h.length = h := List.take_length
  simp only [List.map_cons, List.map_nil, this]
  simp [List.getLastD_eq_getLast?]

/-- `rebuild` inverts `flatSlots` on lists of the right length -/
theorem flat_rebuild (shape : List PortOccupancy) (flat : List DCols) (pi0 : Nat) (h : flat.length = (slotList shape pi0).length) :
    shapeOf (rebuild shape flat) = shape ∧ flatSlots (rebuild shape flat) = flat := by
  induction shape generalizing flat pi0 with
  | nil =>
    simp only [slotList, List.length_nil] at h
    have : flat = [] := List.eq_nil_of_length_eq_zero h
    subst this; exact ⟨rfl, rfl⟩
  | cons p ps ih =>
    cases hf : p.follower with
    | false =>
      simp only [slotList, hf, Bool.false_eq_true, ↓reduceIte, List.nil_append, List.length_cons] at h
      cases flat with
      | nil => simp at h
      | cons a t =>
        obtain ⟨h1, h2⟩ := ih t (pi0+1) (by simpa using h)
        simp only [rebuild, hf, Bool.false_eq_true, ↓reduceIte, List.headD_cons, List.drop_succ_cons, List.drop_zero]
        refine ⟨?_, ?_⟩
        · simp only [shapeOf, List.map_cons] at h1 ⊢
          rw [h1]; cases p; simp_all
        · simp only [flatSlots, List.flatMap_cons, PCols.slots] at h2 ⊢
          rw [h2]; rfl
    | true =>
      simp only [slotList, hf, ↓reduceIte, List.cons_append, List.nil_append, List.length_cons] at h
      cases flat with
      | nil => simp at h
      | cons a t => cases t with
        | nil => simp at h
        | cons b t' =>
          obtain ⟨h1, h2⟩ := ih t' (pi0+1) (by simpa using h)
          simp only [rebuild, hf, ↓reduceIte, List.headD_cons, List.drop_succ_cons, List.drop_zero]
          refine ⟨?_, ?_⟩
          · simp only [shapeOf, List.map_cons] at h1 ⊢
            rw [h1]; cases p; simp_all
          · simp only [flatSlots, List.flatMap_cons, PCols.slots] at h2 ⊢
            rw [h2]; rfl

theorem expPorts_shape (shape h) : shapeOf (expPorts shape h) = shape ∧ flatSlots (expPorts shape h) = expFlat shape h :=
  flat_rebuild shape (expFlat shape h) 0 (by simp [expFlat, nSlots])

/-- items only touch `item` -/
theorem run_items (v : Ver) (id : Int) (hid : I32 id) (items : List Row) (hrows : ∀ r ∈ items, RowOK v Item.readPush r) :
    ∀ (st : PState) (sc : SCols), st.start.version = v → st.lastId = some id → st.frames.item = some sc →
    runEvents st (items.map fun r => (EV_ITEM, encPlain v Item.readPush id r)) =
      .ok { st with frames := { st.frames with item := some (sc ++ items.map some) } } := by
  induction items with
  | nil => intro st sc _ _ hitem; simp [runEvents, ← hitem]
  | cons r rs ih =>
    intro st sc hv hlast hitem
    simp only [List.map_cons, runEvents]
    have h1 := handle_item st id r sc hid (by rw [hv]; exact hrows r (by simp)) hlast hitem
    rw [hv] at h1
    rw [h1]
    simp only []
    have := ih (fun r' hr' => hrows r' (by simp [hr']))
      { st with frames := { st.frames with item := some (sc ++ [some r]) } } (sc ++ [some r]) hv
      (by simpa [PState.lastId] using hlast) rfl
    rw [this]
    simp

structure FrameOcc.OK (v : Ver) (n : Nat) (o : FrameOcc) : Prop where
  id : I32 o.id
  start : RowOK v Start.readPush o.start
  chars : o.chars.length = n
  occ : ∀ c ∈ o.chars, ∀ x, c = some x → OccOK v x
  items : ∀ r ∈ o.items, RowOK v Item.readPush r
  fend : RowOK v End.readPush o.fend

/-- canonical event order of one frame, version ≥ 3.0 -/
def frameEventsA (v : Ver) (shape : List PortOccupancy) (o : FrameOcc) : List (Nat × Bytes) :=
  [(EV_FRAME_START, encPlain v Start.readPush o.id o.start)] ++
  charEvents false v o.id (slotList shape 0) (presentFrom 0 o.chars) ++
  (o.items.map fun r => (EV_ITEM, encPlain v Item.readPush o.id r)) ++
  charEvents true v o.id (slotList shape 0) (presentFrom 0 o.chars) ++
  [(EV_FRAME_END, encPlain v End.readPush o.id o.fend)]

end Peppi

namespace Peppi
open Extracted

theorem mem_ports_of_shape (P : List PCols) (shape : List PortOccupancy) (hs : shapeOf P = shape)
    (hports : ∀ p ∈ shape, p.port < 256) : ∀ p ∈ P, p.port < 256 := by
  intro p hp
  have : (⟨p.port, p.follower.isSome⟩ : PortOccupancy) ∈ shapeOf P := by
    unfold shapeOf; exact List.mem_map.mpr ⟨p, hp, rfl⟩
  rw [hs] at this
  exact hports _ this

theorem presentFrom_ok (v : Ver) (n : Nat) (o : FrameOcc) (ho : o.OK v n) :
    ∀ co ∈ presentFrom 0 o.chars, co.1 < n ∧ OccOK v co.2 := by
  have hmem : ∀ (c0 : Nat) (l : List (Option CharOcc)), ∀ co ∈ presentFrom c0 l, some co.2 ∈ l := by
    intro c0 l
    induction l generalizing c0 with
    | nil => simp [presentFrom]
    | cons a t ih => cases a with
      | none => intro co h; simp [presentFrom] at h; simp [ih (c0+1) co h]
      | some x => intro co h; simp [presentFrom] at h; rcases h with rfl | h
                  · simp
                  · simp [ih (c0+1) co h]
  intro co hco
  have h1 := (presentFrom_lt 0 o.chars co hco).2
  rw [ho.chars] at h1
  exact ⟨by omega, ho.occ _ (hmem 0 o.chars co hco) co.2 rfl⟩

theorem charCEvs_pre (l) : charCEvs false (presentFrom 0 l) = preC 0 l := by
  have := slotEvs_eq_map (fun c pq => CEv.pre c pq.pre) 0 l
  simp only [preC]; rw [this]; simp [charCEvs]
theorem charCEvs_post (l) : charCEvs true (presentFrom 0 l) = postC 0 l := by
  have := slotEvs_eq_map (fun c pq => CEv.post c pq.post) 0 l
  simp only [postC]; rw [this]; simp [charCEvs]

theorem histAt_snoc (h : List FrameOcc) (o : FrameOcc) (c : Nat) : histAt (h ++ [o]) c = histAt h c ++ [(o.chars[c]?).join] := by
  simp [histAt]

/-- The frame step on the real reader state (version ≥ 3.0). -/
theorem frame_step_A (v : Ver) (shape : List PortOccupancy) (h : List FrameOcc) (o : FrameOcc) (st : PState)
    (hv : st.start.version = v) (h30 : v.gte 3 0 = true) (h22 : v.gte 2 2 = true)
    (hfr : st.frames = expFrames v shape h)
    (hmap : PortMapOK st.portIdx shape) (hports : ∀ p ∈ shape, p.port < 256)
    (ho : o.OK v (nSlots shape)) :
    runEvents st (frameEventsA v shape o) = .ok { st with frames := expFrames v shape (h ++ [o]) } := by
  obtain ⟨hshape, hflat⟩ := expPorts_shape shape h
  -- slot-level result for this frame
  obtain ⟨cs2, hrun, hpad⟩ := slots_frame_step (nSlots shape) (histAt h) h.length (by intro c; simp [histAt]) o.chars ho.chars
  rw [runChars_append] at hrun
  cases hcs1 : runChars ((List.range (nSlots shape)).map fun c => colsOf (histAt h c)) (preC 0 o.chars) with
  | none => simp [hcs1] at hrun
  | some cs1 =>
  simp only [hcs1, Option.bind_some] at hrun
  have hlt30 : v.lt 3 0 = false := by simp [Ver.lt, h30]
  -- 1. Frame Start
  let s1 : PState := { st with frames := { st.frames with id := st.frames.id ++ [o.id], start := some ((h.map fun o => some o.start) ++ [some o.start]) } }
  have e1 : handleEvent st EV_FRAME_START (encPlain v Start.readPush o.id o.start) = .ok s1 := by
    have := handle_fstart st o.id o.start (h.map fun o => some o.start) ho.id (by rw [hv]; exact ho.start)
      (by rw [hfr]; simp [expFrames, h22])
    rw [hv] at this
    simp only [hlt30, Bool.false_eq_true, ↓reduceIte] at this
    exact this
  have hs1v : s1.start.version = v := hv
  have hs1last : s1.lastId = some o.id := by simp [s1, PState.lastId]
  have hs1ports : s1.frames.ports = expPorts shape h := by simp [s1, hfr, expFrames]
  -- 2. pre events
  obtain ⟨P1, eP1, hP1s, hP1f⟩ := run_char_events false o.id ho.id (presentFrom 0 o.chars) s1 cs1 hs1last
    (by rw [hs1ports, hshape]; exact hmap)
    (by rw [hs1ports]; exact mem_ports_of_shape _ shape hshape hports)
    (by
      intro co hco
      rw [hs1ports, hshape, hs1v]
      exact presentFrom_ok v (nSlots shape) o ho co hco)
    (by rw [hs1ports, hflat, charCEvs_pre]; exact hcs1)
  rw [hs1ports, hshape, hs1v] at eP1
  let s2 : PState := { s1 with frames := { s1.frames with ports := P1 } }
  -- 3. items
  have e3 := run_items v o.id ho.id o.items ho.items s2 ((h.flatMap (·.items)).map some) hv
    (by simp [s2, s1, PState.lastId]) (by simp [s2, s1, hfr, expFrames, h30])
  let s3 : PState := { s2 with frames := { s2.frames with item := some ((h.flatMap (·.items)).map some ++ o.items.map some) } }
  -- 4. post events
  obtain ⟨P2, eP2, hP2s, hP2f⟩ := run_char_events true o.id ho.id (presentFrom 0 o.chars) s3 cs2
    (by simp [s3, s2, s1, PState.lastId])
    (by show PortMapOK st.portIdx (shapeOf P1); rw [hP1s, hs1ports, hshape]; exact hmap)
    (by show ∀ p ∈ P1, p.port < 256; exact mem_ports_of_shape _ shape (by rw [hP1s, hs1ports, hshape]) hports)
    (by
      intro co hco
      show co.1 < (slotList (shapeOf P1) 0).length ∧ OccOK st.start.version co.2
      rw [hP1s, hs1ports, hshape, hv]
      exact presentFrom_ok v (nSlots shape) o ho co hco)
    (by show runChars (flatSlots P1) _ = _; rw [hP1f, charCEvs_post]; exact hrun)
  have hP2shape : shapeOf P2 = shape := by rw [hP2s]; show shapeOf P1 = shape; rw [hP1s, hs1ports, hshape]
  have eP2' : runEvents s3 (charEvents true v o.id (slotList shape 0) (presentFrom 0 o.chars)) =
      .ok { s3 with frames := { s3.frames with ports := P2 } } := by
    have : shapeOf s3.frames.ports = shape := by show shapeOf P1 = shape; rw [hP1s, hs1ports, hshape]
    rw [this, show s3.start.version = v from hv] at eP2
    exact eP2
  let s4 : PState := { s3 with frames := { s3.frames with ports := P2 } }
  -- 5. Frame End
  have e5 := handle_fend s4 o.id o.fend (h.map fun o => some o.fend) (offsOf h)
    ((h.flatMap (·.items)).map some ++ o.items.map some) ho.id (by show RowOK st.start.version _ _; rw [hv]; exact ho.fend)
    (by simp [s4, s3, s2, s1, PState.lastId]) (by simp [s4, s3, s2, s1, hfr, expFrames, h30])
    (by simp [s4, s3, s2, s1, hfr, expFrames, h30]) (by simp [s4, s3])
    (by rw [offsOf_last]; simp)
  -- chain
  unfold frameEventsA
  simp only [List.append_assoc, List.cons_append, List.nil_append, runEvents, e1]
  rw [runEvents_append, eP1]
  simp only []
  rw [runEvents_append, e3]
  simp only []
  rw [runEvents_append, eP2']
  simp only [runEvents]
  rw [show s4.start.version = v from hv] at e5
  rw [e5]
  -- compare the final columns
  simp only [Res.ok.injEq]
  have hclose : (List.map (fun p : PCols => ({ p with leader := p.leader.padTo (h.length + 1), follower := p.follower.map (·.padTo (h.length + 1)) } : PCols)) P2)
      = expPorts shape (h ++ [o]) := by
    apply ports_ext
    · rw [(expPorts_shape shape (h ++ [o])).1, ← hP2shape]
      unfold shapeOf
      simp only [List.map_map]
      apply List.map_congr_left
      intro p _
      simp only [Function.comp, PortOccupancy.mk.injEq, true_and]
      cases p.follower <;> simp
    · have hm := flatSlots_map P2 (fun x => x.padTo (h.length + 1))
      rw [hm, hP2f, (expPorts_shape shape (h ++ [o])).2, hpad]
      unfold expFlat
      apply List.map_congr_left
      intro c _
      rw [histAt_snoc]
  simp only [s4, s3, s2, s1, FCols.close, FCols.len, hfr, expFrames, h30, h22, ↓reduceIte, List.length_append, List.length_map,
    List.length_cons, List.length_nil, List.map_append, List.map_cons, List.map_nil, offsOf_snoc, List.flatMap_append,
    List.flatMap_cons, List.flatMap_nil, List.append_nil]
  have hclose' := hclose
  simp only [Nat.zero_add] at hclose' ⊢
  rw [hclose']

#print axioms frame_step_A
end Peppi

namespace Peppi
/-- whole history at the event level (≥ 3.0): any number of frames -/
theorem frames_A (v : Ver) (shape : List PortOccupancy) (h0 h : List FrameOcc) (st : PState)
    (hv : st.start.version = v) (h30 : v.gte 3 0 = true) (h22 : v.gte 2 2 = true)
    (hfr : st.frames = expFrames v shape h0)
    (hmap : PortMapOK st.portIdx shape) (hports : ∀ p ∈ shape, p.port < 256)
    (hok : ∀ o ∈ h, o.OK v (nSlots shape)) :
    runEvents st (h.flatMap (frameEventsA v shape)) = .ok { st with frames := expFrames v shape (h0 ++ h) } := by
  induction h generalizing h0 st with
  | nil => simp [runEvents, ← hfr]
  | cons o rest ih =>
    rw [List.flatMap_cons, runEvents_append, frame_step_A v shape h0 o st hv h30 h22 hfr hmap hports (hok o (by simp))]
    simp only []
    have := ih (h0 ++ [o]) { st with frames := expFrames v shape (h0 ++ [o]) } hv rfl hmap (fun o' ho' => hok o' (by simp [ho']))
    simpa using this
#print axioms frames_A
end Peppi
