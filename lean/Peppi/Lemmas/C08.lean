import Peppi.Lemmas.ByteLayer
/-! C08, event level: unknown events are erased; extra trailing payload bytes are ignored. -/
namespace Peppi
open Extracted

def isKnown (code : Nat) : Bool :=
  code == EV_PAYLOADS || code == EV_SPLITTER || code == EV_GECKO || code == EV_GAME_START || code == EV_GAME_END ||
  code == EV_FRAME_START || code == EV_FRAME_PRE || code == EV_FRAME_POST || code == EV_FRAME_END || code == EV_ITEM

/-- an event with a code the library does not know leaves the whole state untouched, whatever its payload -/
theorem handle_unknown (st : PState) (code : Nat) (buf : Bytes) (h : isKnown code = false) :
    handleEvent st code buf = .ok st := by
  simp only [isKnown, Bool.or_eq_false_iff, beq_eq_false_iff_ne, ne_eq] at h
  obtain ⟨⟨⟨⟨⟨⟨⟨⟨⟨h1, h2⟩, h3⟩, h4⟩, h5⟩, h6⟩, h7⟩, h8⟩, h9⟩, h10⟩ := h
  unfold handleEvent
  simp only [h1, h2, h3, h4, h5, h6, h7, h8, h9, h10, ↓reduceIte]

/-- **C08 (unknown events), event level**: running any event sequence equals running it with all unknown-code events erased —
    wherever they occur, however many, whatever they carry -/
theorem runEvents_erase_unknown : ∀ (es : List (Nat × Bytes)) (st : PState),
    runEvents st es = runEvents st (es.filter fun e => isKnown e.1) := by
  intro es
  induction es with
  | nil => intro st; rfl
  | cons e es ih =>
    intro st
    cases hk : isKnown e.1 with
    | false =>
      simp only [List.filter_cons, hk, Bool.false_eq_true, ↓reduceIte, runEvents, handle_unknown st e.1 e.2 hk]
      exact ih st
    | true =>
      simp only [List.filter_cons, hk, ↓reduceIte, runEvents]
      cases handleEvent st e.1 e.2 with
      | ok st' => exact ih st'
      | err m => rfl
      | panic m => rfl

/-- a row reader that succeeds on a payload gives the same values when more bytes follow -/
theorem readRow_extra (v : Ver) : ∀ (L : List Fld) (bs extra : Bytes) (vals : List Nat) (rest : Bytes),
    readRow v L bs = some (vals, rest) → readRow v L (bs ++ extra) = some (vals, rest ++ extra) := by
  intro L
  induction L with
  | nil => intro bs extra vals rest h; simp only [readRow, Option.some.injEq, Prod.mk.injEq] at h ⊢; obtain ⟨rfl, rfl⟩ := h; exact ⟨rfl, rfl⟩
  | cons f fs ih =>
    intro bs extra vals rest h
    simp only [readRow] at h ⊢
    split at h
    · rename_i hvis
      simp only [hvis, ↓reduceIte]
      split at h
      · simp at h
      · rename_i hlen
        have : ¬ (bs ++ extra).length < f.width := by simp only [List.length_append]; omega
        simp only [this, ↓reduceIte]
        cases hr : readRow v fs (bs.drop f.width) with
        | none => simp [hr] at h
        | some x =>
          obtain ⟨vs, r⟩ := x
          simp only [hr, Option.some.injEq, Prod.mk.injEq] at h
          obtain ⟨rfl, rfl⟩ := h
          have hd : (bs ++ extra).drop f.width = bs.drop f.width ++ extra := List.drop_append_of_le_length (by omega)
          have ht : (bs ++ extra).take f.width = bs.take f.width := List.take_append_of_le_length (by omega)
          rw [hd, ih _ extra vs r hr, ht]
    · rename_i hvis
      simp only [hvis, Bool.false_eq_true, ↓reduceIte]
      cases hr : readRow v fs bs with
      | none => simp [hr] at h
      | some x =>
        obtain ⟨vs, r⟩ := x
        simp only [hr, Option.some.injEq, Prod.mk.injEq] at h
        obtain ⟨rfl, rfl⟩ := h
        rw [ih _ extra vs r hr]

/-- **C08 (longer payloads), row level** -/
theorem rowOrEof_extra (v : Ver) (L : List Fld) (bs extra : Bytes) (row : Row) (h : rowOrEof v L bs = .ok row) :
    rowOrEof v L (bs ++ extra) = .ok row := by
  unfold rowOrEof at h ⊢
  cases hr : readRow v L bs with
  | none => simp [hr] at h
  | some x =>
    obtain ⟨vals, rest⟩ := x
    simp only [hr, Res.ok.injEq] at h
    rw [readRow_extra v L bs extra vals rest hr]
    simp [h]

#print axioms runEvents_erase_unknown
#print axioms rowOrEof_extra
end Peppi
