import Peppi.Cols
/-! Per-character ("slot") reasoning: projection lemma and the one-frame lemmas with lazy validity. -/
namespace Peppi

structure CharOcc where
  pre : Row
  post : Row
deriving Repr, DecidableEq

inductive CEv where
  | pre (c : Nat) (r : Row)
  | post (c : Nat) (r : Row)
deriving Repr

def CEv.target : CEv → Nat
  | .pre c _ => c
  | .post c _ => c
def CEv.apply : CEv → DCols → DCols
  | .pre _ r, d => d.pushPre r
  | .post _ r, d => d.pushPost r
@[simp] theorem CEv.target_pre (c r) : (CEv.pre c r).target = c := rfl
@[simp] theorem CEv.target_post (c r) : (CEv.post c r).target = c := rfl

def stepChars (chars : List DCols) (e : CEv) : Option (List DCols) :=
  if e.target < chars.length then some (chars.modify e.target e.apply) else none

def runChars : List DCols → List CEv → Option (List DCols)
  | cs, [] => some cs
  | cs, e :: es => match stepChars cs e with
    | none => none
    | some cs' => runChars cs' es

theorem runChars_length {cs cs' : List DCols} {es} (h : runChars cs es = some cs') : cs'.length = cs.length := by
  induction es generalizing cs with
  | nil => simp [runChars] at h; simp [h]
  | cons e es ih =>
    simp only [runChars, stepChars] at h
    split at h
    · simp at h
    · rename_i cs1 h1
      split at h1
      · simp at h1; subst h1; simpa using ih h
      · simp at h1

/-- projection: slot `c` only sees the events aimed at it, in order -/
theorem runChars_proj {cs cs' : List DCols} {es} (h : runChars cs es = some cs') (c : Nat) (hc : c < cs.length) :
    cs'[c]'(by rw [runChars_length h]; exact hc) =
      (es.filter (·.target == c)).foldl (fun d e => e.apply d) cs[c] := by
  induction es generalizing cs with
  | nil => simp [runChars] at h; subst h; simp
  | cons e es ih =>
    simp only [runChars, stepChars] at h
    split at h
    · simp at h
    · rename_i cs1 h1
      split at h1
      · rename_i hlt
        simp at h1; subst h1
        have hc' : c < (cs.modify e.target e.apply).length := by simpa using hc
        rw [ih h hc']
        by_cases hte : e.target = c
        · subst hte; simp
        · have : (e.target == c) = false := by simpa using hte
          simp [this, hte]
      · simp at h1

theorem runChars_ok (cs : List DCols) (es) (h : ∀ e ∈ es, e.target < cs.length) : ∃ cs', runChars cs es = some cs' := by
  induction es generalizing cs with
  | nil => exact ⟨cs, rfl⟩
  | cons e es ih =>
    have he := h e (by simp)
    simp only [runChars, stepChars, he, ↓reduceIte]
    apply ih
    intro e' he'; simpa using h e' (by simp [he'])

theorem runChars_append (cs : List DCols) (a b : List CEv) :
    runChars cs (a ++ b) = (runChars cs a).bind (fun cs' => runChars cs' b) := by
  induction a generalizing cs with
  | nil => simp [runChars]
  | cons e es ih =>
    simp only [List.cons_append, runChars]
    cases stepChars cs e with
    | none => simp
    | some cs' => simpa using ih cs'

/-- the columns a presence history must produce (lazy validity) -/
def validOf (hist : List (Option CharOcc)) : Option (List Bool) :=
  if hist.all Option.isSome then none else some (hist.map Option.isSome)

def colsOf (hist : List (Option CharOcc)) : DCols :=
  { pre := hist.map (·.map (·.pre)), post := hist.map (·.map (·.post)), valid := validOf hist }

theorem padTo_of_len_ge (d : DCols) (n) (h : n ≤ d.len) : d.padTo n = d := by
  unfold DCols.padTo; simp [Nat.not_lt.mpr h]

theorem padTo_succ (d : DCols) : d.padTo (d.len + 1) = d.pushNull := by
  unfold DCols.padTo
  simp only [Nat.lt_add_one, ↓reduceIte]
  apply padTo_of_len_ge
  simp [DCols.pushNull, DCols.len]

theorem colsOf_len (hist) : (colsOf hist).len = hist.length := by simp [colsOf, DCols.len]

theorem frame_present (hist) (p q : Row) :
    ((colsOf hist).pushPre p |>.pushPost q).padTo (hist.length + 1) = colsOf (hist ++ [some ⟨p, q⟩]) := by
  rw [padTo_of_len_ge]
  · simp only [colsOf, DCols.pushPre, DCols.pushPost, validOf, List.map_append, List.all_append]
    by_cases h : hist.all Option.isSome <;> simp [h]
  · simp [DCols.pushPre, DCols.pushPost, DCols.len, colsOf]

theorem frame_absent (hist) :
    (colsOf hist).padTo (hist.length + 1) = colsOf (hist ++ [none]) := by
  have : (colsOf hist).len = hist.length := colsOf_len hist
  rw [← this, padTo_succ]
  simp only [colsOf, DCols.pushNull, validOf, List.map_append, List.all_append, DCols.len, List.length_map]
  by_cases h : hist.all Option.isSome
  · simp [h]
    have : List.map Option.isSome hist = List.replicate hist.length true := by
      apply List.ext_getElem (by simp)
      intro i h1 h2
      simp only [List.getElem_map, List.getElem_replicate]
      exact (List.all_eq_true.mp h) _ (List.getElem_mem _)
    simp [this]
  · simp [h]

/-- padding a slot that is already full is the identity (frames closed twice, pre-3.0 regimes) -/
theorem colsOf_padTo_same (hist) : (colsOf hist).padTo hist.length = colsOf hist :=
  padTo_of_len_ge _ _ (by simp [colsOf_len])

/-- canonical per-slot events: one event per present slot, in slot order -/
def slotEvs (mk : Nat → CharOcc → CEv) : Nat → List (Option CharOcc) → List CEv
  | _, [] => []
  | c, none :: t => slotEvs mk (c+1) t
  | c, some pq :: t => mk c pq :: slotEvs mk (c+1) t

abbrev preC := slotEvs (fun c pq => .pre c pq.pre)
abbrev postC := slotEvs (fun c pq => .post c pq.post)

section
variable {mk : Nat → CharOcc → CEv} (hmk : ∀ c pq, (mk c pq).target = c)
include hmk

theorem slotEvs_target (c0 l) : ∀ e ∈ slotEvs mk c0 l, c0 ≤ e.target ∧ e.target < c0 + l.length := by
  induction l generalizing c0 with
  | nil => simp [slotEvs]
  | cons a t ih => cases a with
    | none => intro e he; have := ih (c0+1) e (by simpa [slotEvs] using he); simp; omega
    | some pq => intro e he; simp [slotEvs] at he; rcases he with rfl | he
                 · simp [hmk]
                 · have := ih (c0+1) e he; simp; omega

omit hmk in
theorem filter_none_of_lt (l' : List CEv) (c k : Nat) (hl : ∀ e ∈ l', k ≤ e.target) (hck : c < k) :
    l'.filter (fun e => e.target == c) = [] := by
  apply List.filter_eq_nil_iff.mpr; intro e he; have := hl e he; simp; omega

theorem slotEvs_filter (c0 : Nat) (l : List (Option CharOcc)) (c : Nat) :
    (slotEvs mk c0 l).filter (fun e => e.target == c) =
      if c0 ≤ c then (match (l[c - c0]?).join with | some pq => [mk c pq] | none => []) else [] := by
  induction l generalizing c0 with
  | nil => simp [slotEvs]
  | cons a t ih =>
    have hlt : ∀ e ∈ slotEvs mk (c0+1) t, c0 + 1 ≤ e.target := fun e he => (slotEvs_target hmk (c0+1) t e he).1
    by_cases hc : c0 ≤ c
    · by_cases heq : c = c0
      · subst heq
        have hnone := filter_none_of_lt _ c (c+1) hlt (by omega)
        cases a with
        | none => simp [slotEvs, hnone]
        | some pq => simp [slotEvs, hnone, hmk]
      · have h1 : c0 + 1 ≤ c := by omega
        have h2 : c - c0 = (c - (c0 + 1)) + 1 := by omega
        have hne : ¬ (c0 = c) := by omega
        cases a with
        | none => simp [slotEvs, ih (c0+1), hc, h1, h2]
        | some pq => simp [slotEvs, ih (c0+1), hc, h1, h2, hmk, hne]
    · simp only [hc, ↓reduceIte]
      exact filter_none_of_lt _ c c0 (fun e he => (slotEvs_target hmk c0 _ e he).1) (by omega)
end

/-- the whole-frame effect on all slots: run pre events, run post events, pad every slot -/
theorem slots_frame_step (n : Nat) (hists : Nat → List (Option CharOcc)) (k : Nat)
    (hlen : ∀ c, (hists c).length = k) (chars : List (Option CharOcc)) (hn : chars.length = n) :
    ∃ cs2, runChars ((List.range n).map (fun c => colsOf (hists c))) (preC 0 chars ++ postC 0 chars) = some cs2 ∧
      cs2.map (·.padTo (k + 1)) = (List.range n).map (fun c => colsOf (hists c ++ [(chars[c]?).join])) := by
  have hmkpre : ∀ c (pq : CharOcc), (CEv.pre c pq.pre).target = c := fun _ _ => rfl
  have hmkpost : ∀ c (pq : CharOcc), (CEv.post c pq.post).target = c := fun _ _ => rfl
  obtain ⟨cs2, hcs2⟩ := runChars_ok ((List.range n).map (fun c => colsOf (hists c))) (preC 0 chars ++ postC 0 chars) (by
    intro e he
    simp only [List.mem_append] at he
    rcases he with he | he
    · have := (slotEvs_target hmkpre 0 chars e he).2; simp; omega
    · have := (slotEvs_target hmkpost 0 chars e he).2; simp; omega)
  refine ⟨cs2, hcs2, ?_⟩
  have hl2 : cs2.length = n := by rw [runChars_length hcs2]; simp
  apply List.ext_getElem (by simp [hl2])
  intro c hc1 hc2
  simp only [List.length_map] at hc1
  have hcn : c < n := by omega
  have hp := runChars_proj hcs2 c (by simp; omega)
  simp only [List.getElem_map, List.getElem_range]
  rw [hp, List.filter_append, slotEvs_filter hmkpre, slotEvs_filter hmkpost]
  simp only [Nat.zero_le, ↓reduceIte, Nat.sub_zero, List.getElem_map, List.getElem_range]
  cases hoc : (chars[c]?).join with
  | none =>
    simp only [List.append_nil, List.foldl_nil]
    have := frame_absent (hists c)
    rw [hlen c] at this; exact this
  | some pq =>
    simp only [List.cons_append, List.nil_append, List.foldl_cons, List.foldl_nil, CEv.apply]
    have := frame_present (hists c) pq.pre pq.post
    rw [hlen c] at this; exact this

#print axioms slots_frame_step
end Peppi
