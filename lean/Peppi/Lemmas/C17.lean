import Peppi.Lemmas.C08File
import Peppi.Lemmas.C01A
/-! C17 for the "unknown events" irregularity (≥ 3.0): the accepted game is written as the canonical file, which declares its
    actual raw length, re-reads to the same game, and is a fixed point of read ∘ write. -/
namespace Peppi
open Extracted

/-- the raw length a canonical file declares is the length of its raw element -/
theorem encode_declares_actual (r : Replay) (v : Ver) (shape : List PortOccupancy) :
    ∃ rest, r.encode v shape = FILE_SIGNATURE ++ (toBE 4 (r.raw v shape).length ++ (r.raw v shape ++ rest)) := ⟨r.tail, rfl⟩

/-- **C17 (unknown events)** -/
theorem C17_unknown_A (T : TextOracle) (r : Replay) (s : Start) (u : Unknowns) (h : r.WFU T s u)
    (hmax : assertMaxVersion s.version = .ok ()) :
    ∃ g, readSlp T { skipFrames := false, computeHash := false } (r.encodeU s.version u) = .ok g ∧
      writeSlp g = .ok (r.encode s.version (portOccupancy s)) ∧
      readSlp T { skipFrames := false, computeHash := false } (r.encode s.version (portOccupancy s)) = .ok g := by
  obtain ⟨g, hread, hwrite⟩ := C01_A T r s h.base hmax
  have hread' : readSlp T { skipFrames := false, computeHash := false } (r.encode s.version (portOccupancy s)) = .ok g := hread
  refine ⟨g, ?_, hwrite, hread'⟩
  rw [C08_unknown_A T r s u h]
  exact hread'

#print axioms C17_unknown_A
end Peppi
