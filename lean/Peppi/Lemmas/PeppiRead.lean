import Peppi.Lemmas.ArrowStream
import Peppi.Start
import Peppi.Cols
/-! `.slpp` reader (io/peppi/de.rs, repaired) over an abstract archive: the tar entries in order, each already passed through
    the external decoder it is handed to (serde_json, the Arrow IPC stream reader), plus whether the second end-of-archive
    block is present.  What the externals do with bytes is a parameter; what `read` does with their results is modelled. -/
namespace Peppi

structure PeppiMeta where
  versionOk : Bool                 -- `assert_current_version`
  hash : Option String
  quirks : Option Bool

/-- one tar entry, by the name `read` dispatches on -/
inductive PEntry (μ φ : Type) where
  | peppiJson (r : Res PeppiMeta)          -- `serde_json::from_reader::<Peppi>`
  | startRaw (bytes : Bytes)
  | endRaw (bytes : Bytes)
  | metadataJson (r : Res (Option μ))      -- `read_peppi_metadata`: object ↦ some, null ↦ none, else error
  | geckoRaw (bytes : Bytes)
  | framesArrow (magicOk : Bool) (items : List (SItem φ))
  | other                                   -- any other file name: skipped
  | broken                                  -- the tar iterator yields an error for this entry

structure PAcc (μ : Type) where
  peppi : Option PeppiMeta := none
  start : Option Start := none
  fend : Option End := none
  metadata : Option μ := none
  gecko : Option (Bytes × Nat) := none

structure PGame (μ φ : Type) where
  start : Start
  fend : Option End
  metadata : Option μ
  gecko : Option (Bytes × Nat)
  frames : Option φ              -- `none` = the empty frame set built from the start block
  hash : Option String
  quirks : Option Bool

def finish {μ φ : Type} (acc : PAcc μ) (frames : Option φ) : Res (PGame μ φ) :=
  match acc.peppi with
  | none => .err "missing peppi"
  | some p => match acc.start with
    | none => .err "missing start"
    | some s => .ok { start := s, fend := acc.fend, metadata := acc.metadata, gecko := acc.gecko, frames, hash := p.hash, quirks := p.quirks }

/-- the entry loop of `read` -/
def peppiLoop {μ φ : Type} (T : TextOracle) (skip : Bool) (trailerOk : Bool) : PAcc μ → List (PEntry μ φ) → Res (PGame μ φ)
  | acc, [] =>
    -- no `frames.arrow`: zero frames only if the archive is provably complete
    (match acc.peppi, acc.start with
     | some _, some _ => if trailerOk then finish acc none else .err "missing frames"
     | _, _ => finish acc none)
  | acc, .broken :: _ => .err "tar"
  | acc, .other :: rest => peppiLoop T skip trailerOk acc rest
  | acc, .peppiJson r :: rest =>
    (match r with
     | .ok p => if p.versionOk then peppiLoop T skip trailerOk { acc with peppi := some p } rest else .err "unsupported peppi version"
     | .err e => .err e
     | .panic s => .panic s)
  | acc, .startRaw b :: rest =>
    (match gameStart T b with
     | .ok s => peppiLoop T skip trailerOk { acc with start := some s } rest
     | .err e => .err e
     | .panic s => .panic s)
  | acc, .endRaw b :: rest =>
    (match gameEnd b with
     | .ok e => peppiLoop T skip trailerOk { acc with fend := some e } rest
     | .err e => .err e
     | .panic s => .panic s)
  | acc, .metadataJson r :: rest =>
    (match r with
     | .ok m => peppiLoop T skip trailerOk { acc with metadata := m } rest
     | .err e => .err e
     | .panic s => .panic s)
  | acc, .geckoRaw b :: rest =>
    if b.length < 4 then .err "eof" else
    peppiLoop T skip trailerOk { acc with gecko := some (b.drop 4, fromBE ((b.take 4).reverse)) } rest
  | acc, .framesArrow magicOk items :: _ =>
    (match acc.start with
     | none => .err "no start"
     | some _ =>
       if skip then finish acc none
       else if !magicOk then .err "expected bytes"
       else match readArrowFrames items with
         | .ok f => finish acc (some f)
         | .err e => .err e
         | .panic s => .panic s)

def peppiRead {μ φ : Type} (T : TextOracle) (skip trailerOk : Bool) (entries : List (PEntry μ φ)) : Res (PGame μ φ) :=
  peppiLoop T skip trailerOk {} entries

/-- **C18 (unknown entries)**: entries with other names, anywhere, do not change the result -/
theorem peppiLoop_skip_other {μ φ : Type} (T : TextOracle) (skip trailerOk : Bool) :
    ∀ (es : List (PEntry μ φ)) (acc : PAcc μ),
      peppiLoop T skip trailerOk acc es = peppiLoop T skip trailerOk acc (es.filter fun e => match e with | .other => false | _ => true) := by
  intro es
  induction es with
  | nil => intro acc; rfl
  | cons e es ih =>
    intro acc
    cases e with
    | other => simp only [List.filter_cons, peppiLoop]; exact ih acc
    | broken => simp [List.filter_cons, peppiLoop]
    | peppiJson r =>
      simp only [List.filter_cons, peppiLoop, ↓reduceIte]
      cases r with
      | ok p =>
        simp only []
        split
        · exact ih _
        · rfl
      | err e => rfl
      | panic s => rfl
    | startRaw b =>
      simp only [List.filter_cons, peppiLoop, ↓reduceIte]
      cases gameStart T b with
      | ok s => exact ih _
      | err e => rfl
      | panic s => rfl
    | endRaw b =>
      simp only [List.filter_cons, peppiLoop, ↓reduceIte]
      cases gameEnd b with
      | ok s => exact ih _
      | err e => rfl
      | panic s => rfl
    | metadataJson r =>
      simp only [List.filter_cons, peppiLoop, ↓reduceIte]
      cases r with
      | ok m => exact ih _
      | err e => rfl
      | panic s => rfl
    | geckoRaw b =>
      simp only [List.filter_cons, peppiLoop, ↓reduceIte]
      split
      · rfl
      · exact ih _
    | framesArrow m items => simp [List.filter_cons, peppiLoop]

theorem frames_cons {μ φ : Type} (e : PEntry μ φ) (es : List (PEntry μ φ)) (g : PGame μ φ) (trailerOk : Bool)
    (hne : ∀ m items, e ≠ PEntry.framesArrow m items)
    (h : (∃ f pre post, es = pre ++ PEntry.framesArrow true [.chunk f] :: post ∧ g.frames = some f) ∨
         ((∀ m items, PEntry.framesArrow m items ∉ es) ∧ trailerOk = true ∧ g.frames = none)) :
    (∃ f pre post, e :: es = pre ++ PEntry.framesArrow true [.chunk f] :: post ∧ g.frames = some f) ∨
      ((∀ m items, PEntry.framesArrow m items ∉ e :: es) ∧ trailerOk = true ∧ g.frames = none) := by
  rcases h with ⟨f, pre, post, he, hf⟩ | ⟨hno, ht, hf⟩
  · exact Or.inl ⟨f, e :: pre, post, by rw [he]; rfl, hf⟩
  · refine Or.inr ⟨?_, ht, hf⟩
    intro m items hm
    simp only [List.mem_cons] at hm
    rcases hm with h' | h'
    · exact hne m items h'.symm
    · exact hno m items h'

/-- **C07 (`.slpp`, archive level)**: a game with frames is returned only if the Arrow stream yielded exactly one chunk and
    then ended; a game without a `frames.arrow` entry only if the end-of-archive trailer is complete (or frames are skipped) -/
theorem peppiLoop_ok {μ φ : Type} (T : TextOracle) (trailerOk : Bool) :
    ∀ (es : List (PEntry μ φ)) (acc : PAcc μ) (g : PGame μ φ), peppiLoop T false trailerOk acc es = .ok g →
      (∃ f pre post, es = pre ++ PEntry.framesArrow true [.chunk f] :: post ∧ g.frames = some f) ∨
      ((∀ m items, PEntry.framesArrow m items ∉ es) ∧ trailerOk = true ∧ g.frames = none) := by
  intro es
  induction es with
  | nil =>
    intro acc g h
    right
    refine ⟨by simp, ?_⟩
    simp only [peppiLoop] at h
    split at h
    · split at h
      · rename_i ht
        refine ⟨ht, ?_⟩
        simp only [finish] at h
        split at h
        · simp at h
        · split at h
          · simp at h
          · simp only [Res.ok.injEq] at h; rw [← h]
      · simp at h
    · rename_i hno
      simp only [finish] at h
      split at h
      · simp at h
      · rename_i p hp
        split at h
        · simp at h
        · rename_i s hs
          exact absurd hs (by intro hs'; exact hno p s hp hs')
  | cons e es ih =>
    intro acc g h
    cases e with
    | broken => simp [peppiLoop] at h
    | framesArrow m items =>
      left
      simp only [peppiLoop, Bool.false_eq_true, ↓reduceIte] at h
      split at h
      · simp at h
      · cases m with
        | false => simp at h
        | true =>
          simp only [Bool.not_true, Bool.false_eq_true, ↓reduceIte] at h
          cases hr : readArrowFrames items with
          | ok f =>
            have := (readArrowFrames_ok_iff items f).mp hr
            subst this
            simp only [hr, finish] at h
            refine ⟨f, [], es, rfl, ?_⟩
            split at h
            · simp at h
            · split at h
              · simp at h
              · simp only [Res.ok.injEq] at h; rw [← h]
          | err e => simp [hr] at h
          | panic s => simp [hr] at h
    | other =>
      simp only [peppiLoop] at h
      exact frames_cons _ es g trailerOk (by intro m items hc; cases hc) (ih acc g h)
    | peppiJson r =>
      simp only [peppiLoop] at h
      cases r with
      | ok p =>
        simp only [] at h
        split at h
        · exact frames_cons _ es g trailerOk (by intro m items hc; cases hc) (ih _ g h)
        · simp at h
      | err e => simp at h
      | panic s => simp at h
    | startRaw b =>
      simp only [peppiLoop] at h
      cases hs : gameStart T b with
      | ok s =>
        simp only [hs] at h
        exact frames_cons _ es g trailerOk (by intro m items hc; cases hc) (ih _ g h)
      | err e => simp [hs] at h
      | panic s => simp [hs] at h
    | endRaw b =>
      simp only [peppiLoop] at h
      cases hs : gameEnd b with
      | ok s =>
        simp only [hs] at h
        exact frames_cons _ es g trailerOk (by intro m items hc; cases hc) (ih _ g h)
      | err e => simp [hs] at h
      | panic s => simp [hs] at h
    | metadataJson r =>
      simp only [peppiLoop] at h
      cases r with
      | ok mm =>
        simp only [] at h
        exact frames_cons _ es g trailerOk (by intro m items hc; cases hc) (ih _ g h)
      | err e => simp at h
      | panic s => simp at h
    | geckoRaw b =>
      simp only [peppiLoop] at h
      split at h
      · simp at h
      · exact frames_cons _ es g trailerOk (by intro m items hc; cases hc) (ih _ g h)

#print axioms peppiLoop_skip_other
#print axioms peppiLoop_ok
end Peppi
