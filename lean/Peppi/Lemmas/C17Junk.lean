import Peppi.Lemmas.StreamGen
/-! C17, "extra bytes after Game End inside the raw element" (≥ 3.0): the reader takes them and ignores them unless they look
    like a second Game End. -/
namespace Peppi
open Extracted

/-- junk that `read` would mistake for a duplicated Game End -/
def looksLikeEnd (v : Ver) (junk : Bytes) : Prop := junk.length = 1 + endSize v ∧ junk.head? = some 0x39

theorem readTail_junk (T : TextOracle) (rawLen : Nat) (ps : ParseState) (md : Option KVs) (junk : Bytes)
    (hv : ps.st.start.version.lt 3 0 = false) (hbr : ps.bytesRead + junk.length = rawLen) (hj : 0 < junk.length)
    (hnot : ¬ looksLikeEnd ps.st.start.version junk) (hmd : ps.st.metadata = none)
    (hwf : ∀ m, md = some m → KVs.WF T.utf8Ok 1 m) :
    readTail T rawLen ps (junk ++ metaBytes md) = .ok (gameOf ps.st md ps.st.doubleGameEnd, []) := by
  unfold readTail
  have hlt : ps.bytesRead < rawLen := by omega
  have hlen : rawLen - ps.bytesRead = junk.length := by omega
  simp only [hv, Bool.false_eq_true, ↓reduceIte, hlt, hlen]
  have htake : Rd.take junk.length (junk ++ metaBytes md) = .ok (junk, metaBytes md) := by
    simp only [Rd.take, List.length_append]
    have : ¬ (junk.length + (metaBytes md).length < junk.length) := by omega
    simp only [this, ↓reduceIte, List.take_left' rfl, List.drop_left' rfl]
  have hq := readMeta T ps.st md hmd hwf
  simp only [bind, pure] at hq ⊢
  rw [htake]
  have hc : ¬ (junk.length = 1 + endSize ps.st.start.version ∧ junk.head? = some 0x39) := hnot
  simp only [hc, ↓reduceIte]
  exact hq

def Replay.rawJ (r : Replay) (v : Ver) (u : Unknowns) (junk : Bytes) : Bytes := r.rawU v u ++ junk
def Replay.encodeJ (r : Replay) (v : Ver) (u : Unknowns) (junk : Bytes) : Bytes :=
  FILE_SIGNATURE ++ (toBE 4 (r.rawJ v u junk).length ++ (r.rawJ v u junk ++ r.tail))

/-- **C17 (junk after Game End)**: a finished, non-doubled replay with extra bytes between its Game End and the end of the raw
    element reads to the same game as without them -/
theorem readP_encode_junk (T : TextOracle) (r : Replay) (s : Start) (u : Unknowns) (F : FCols) (h : r.WFS T s u F)
    (e : Bytes) (hfe : r.fend = some e) (hd : r.doubled = false) (junk : Bytes) (hj : 0 < junk.length)
    (hnot : ¬ looksLikeEnd s.version junk) (hrawJ : (r.rawJ s.version u junk).length < 256 ^ 4) :
    ∃ ge, gameEnd e = .ok ge ∧ readP T {} (r.encodeJ s.version u junk) = .ok (r.gameF s (some ge) F, []) := by
  have hb := h.base
  have hrl := raw_lengthU r s.version u
  have hrlJ : (r.rawJ s.version u junk).length = (r.rawU s.version u).length + junk.length := by simp [Replay.rawJ]
  have hps0 : (ps0U r s u).bytesRead = 2 + 3 * (canonTableU s.version r.startBlock.length (r.endLen s.version) u).length + (1 + r.startBlock.length) := by
    simp [ps0U]; omega
  have hnd := h.nodup
  obtain ⟨hel, _, ge, hge⟩ := hb.endOK e hfe
  refine ⟨ge, hge, ?_⟩
  have hendlen : r.endLen s.version = e.length := by simp [Replay.endLen, hfe]
  have hends : r.endEvents = [(EV_GAME_END, e)] := by simp [Replay.endEvents, hfe, hd]
  rw [hends, encEvents_cons, encEvents_nil, List.append_nil] at hrl
  let psF : ParseState := ⟨{ (ps0U r s u).st with frames := F }, (ps0U r s u).bytesRead + (encEvents u.mixed).length⟩
  have hsize : sizeOfEv psF.st.sizes EV_GAME_END = some e.length := by
    rw [← hendlen]
    exact sizeOfEv_reverse _ hnd _ _ (canonTableU_mem _ _ _ _ _ _ (by simp [canonTable]))
  have hv30 : s.version.lt 3 0 = false := by simp [Ver.lt, hb.v30]
  have hlenE : (encEvent (EV_GAME_END, e)).length = 1 + e.length := by simp [encEvent]; omega
  -- header and start
  have hsplit : r.rawJ s.version u junk ++ r.tail =
      [0x35, UInt8.ofNat (3 * (canonTableU s.version r.startBlock.length (r.endLen s.version) u).length + 1)] ++
        encTable (canonTableU s.version r.startBlock.length (r.endLen s.version) u) ++
        (encEvent (EV_GAME_START, r.startBlock) ++ (encEvents u.mixed ++ (encEvent (EV_GAME_END, e) ++ (junk ++ r.tail)))) := by
    simp [Replay.rawJ, Replay.rawU, hends, encEvents_cons, encEvents_nil, List.append_assoc]
  have hstart' := parseStart_encS T r s u F h (encEvents u.mixed ++ (encEvent (EV_GAME_END, e) ++ (junk ++ r.tail)))
  simp only [] at hstart'
  rw [← hsplit] at hstart'
  unfold readP Replay.encodeJ
  simp only [Bool.false_eq_true, ↓reduceIte, bind]
  rw [parseHeader_enc _ hrawJ]
  simp only []
  rw [hstart']
  simp only [pure, loopTail, bind]
  -- the loop up to Game End
  have hle : u.mixed.length ≤ (encEvents u.mixed ++ (encEvent (EV_GAME_END, e) ++ (junk ++ r.tail))).length := by
    have := events_le_bytes u.mixed; simp; omega
  have hloop := eventLoop_run (r.rawJ s.version u junk).length u.mixed
    (encEvents u.mixed ++ (encEvent (EV_GAME_END, e) ++ (junk ++ r.tail))).length (ps0U r s u) _ (encEvent (EV_GAME_END, e) ++ (junk ++ r.tail)) hle
    (by
      intro ev hev
      obtain ⟨a1, a2, a3, a4⟩ := h.declared ev hev
      exact ⟨a1, a2, a3, sizeOfEv_reverse _ hnd _ _ a4⟩)
    h.run (by right; rw [hps0, hrlJ, hrl]; omega)
  rw [hloop]
  have hbrlt : psF.bytesRead < (r.rawJ s.version u junk).length := by
    simp only [psF, hps0, hrlJ, hrl, hlenE]; omega
  obtain ⟨k, hk⟩ : ∃ k, (encEvents u.mixed ++ (encEvent (EV_GAME_END, e) ++ (junk ++ r.tail))).length + 1 - u.mixed.length = k + 1 :=
    ⟨(encEvents u.mixed ++ (encEvent (EV_GAME_END, e) ++ (junk ++ r.tail))).length - u.mixed.length, by omega⟩
  rw [hk, loop_end k _ psF e ge (junk ++ r.tail) hsize hge hbrlt]
  simp only []
  rw [metaBytes_eq]
  have hbr : psF.bytesRead + e.length + 1 + junk.length = (r.rawJ s.version u junk).length := by
    simp only [psF, hps0, hrlJ, hrl, hlenE]; omega
  rw [readTail_junk T _ ⟨{ psF.st with fend := some ge }, psF.bytesRead + e.length + 1⟩ r.metadata junk hv30 hbr hj hnot rfl hb.metadata]
  simp [gameOf, Replay.gameF, Replay.game, psF, ps0U, hd]

#print axioms readP_encode_junk
end Peppi
