import Peppi.Lemmas.LoopA
/-! The tail of the reader on a canonical file: duplicated Game End, metadata, closing brace. -/
namespace Peppi

def metaBytes (md : Option KVs) : Bytes :=
  (match md with | some m => [0x55] ++ METADATA_KEY ++ encKVs m ++ [0x7d] | none => []) ++ [0x7d]

def gameOf (st : PState) (md : Option KVs) (dbl : Option Bool) : Game :=
  { start := st.start, fend := st.fend, frames := st.frames, metadata := md, gecko := st.gecko, hashedLen := none, doubleGameEnd := dbl }

/-- metadata element (or its absence) and the closing brace -/
theorem readMeta (T : TextOracle) (st : PState) (md : Option KVs) (hmd : st.metadata = none)
    (hwf : ∀ m, md = some m → KVs.WF T.utf8Ok 1 m) :
    (do
      let b ← Rd.u8
      let st ← (if b = 0x55 then do
          let st ← parseMetadata T.utf8Ok st
          expectBytes [0x7d]
          pure st
        else if b = 0x7d then pure st
        else Rd.fail "expected: 0x55 or 0x7d")
      pure ({ start := st.start, fend := st.fend, frames := st.frames, metadata := st.metadata, gecko := st.gecko,
              hashedLen := none, doubleGameEnd := st.doubleGameEnd } : Game) : Rd Game) (metaBytes md) =
      .ok (gameOf st md st.doubleGameEnd, []) := by
  cases md with
  | none =>
    simp only [metaBytes, List.nil_append, bind, Rd.u8, UInt8.reduceToNat, Nat.reduceEqDiff, ↓reduceIte, pure, gameOf, hmd]
  | some m =>
    have hw := hwf m rfl
    have hrm := readMap_enc T.utf8Ok m [0x7d] hw
    simp only [metaBytes, List.cons_append, List.nil_append, List.append_assoc, bind, Rd.u8, UInt8.reduceToNat, ↓reduceIte,
      parseMetadata, pure]
    rw [expectBytes_ok METADATA_KEY]
    simp only []
    rw [show (encKVs m ++ [0x7d, 0x7d]) = encKVs m ++ 0x7d :: [0x7d] from rfl, hrm]
    simp only []
    have hx : expectBytes [0x7d] [0x7d] = .ok ((), []) := by
      have := expectBytes_ok [0x7d] []; simpa using this
    rw [hx]
    simp [gameOf]

/-- `readTail` when the loop consumed the whole raw element -/
theorem readTail_exact (T : TextOracle) (rawLen : Nat) (ps : ParseState) (md : Option KVs)
    (hv : ps.st.start.version.lt 3 0 = false) (hbr : ¬ ps.bytesRead < rawLen) (hmd : ps.st.metadata = none)
    (hwf : ∀ m, md = some m → KVs.WF T.utf8Ok 1 m) :
    readTail T rawLen ps (metaBytes md) = .ok (gameOf ps.st md ps.st.doubleGameEnd, []) := by
  unfold readTail
  simp only [hv, Bool.false_eq_true, ↓reduceIte, hbr]
  have := readMeta T ps.st md hmd hwf
  simp only [bind, pure] at this ⊢
  exact this

/-- `readTail` when exactly one more Game End event (the duplicate) is left in the raw element -/
theorem readTail_doubled (T : TextOracle) (rawLen : Nat) (ps : ParseState) (md : Option KVs) (e : Bytes)
    (hv : ps.st.start.version.lt 3 0 = false) (hbr : ps.bytesRead + (1 + e.length) = rawLen)
    (he : e.length = endSize ps.st.start.version) (hmd : ps.st.metadata = none)
    (hwf : ∀ m, md = some m → KVs.WF T.utf8Ok 1 m) :
    readTail T rawLen ps (encEvent (EV_GAME_END, e) ++ metaBytes md) = .ok (gameOf ps.st md (some true), []) := by
  unfold readTail
  have hlt : ps.bytesRead < rawLen := by omega
  have hlen : rawLen - ps.bytesRead = 1 + e.length := by omega
  simp only [hv, Bool.false_eq_true, ↓reduceIte, hlt, hlen]
  have htake : Rd.take (1 + e.length) (encEvent (EV_GAME_END, e) ++ metaBytes md) = .ok (encEvent (EV_GAME_END, e), metaBytes md) := by
    have hl : (encEvent (EV_GAME_END, e)).length = 1 + e.length := by simp [encEvent]; omega
    simp only [Rd.take, List.length_append, hl]
    have : ¬ (1 + e.length + (metaBytes md).length < 1 + e.length) := by omega
    simp only [this, ↓reduceIte, List.take_left' hl, List.drop_left' hl]
  have hq := readMeta T { ps.st with doubleGameEnd := some true } md hmd hwf
  simp only [bind, pure] at hq ⊢
  rw [htake]
  have hhead : (encEvent (EV_GAME_END, e)).head? = some 0x39 := by simp [encEvent]; decide
  simp only [he, hhead, and_self, ↓reduceIte]
  exact hq

#print axioms readTail_doubled
end Peppi
