import Peppi.Start
/-! Positional semantics of a block parser: on a block of known length, a sequential `Rd` parser equals an explicit function of
    absolute offsets.  Basis of C05 (Game Start / Game End fields equal the values at the spec offsets). -/
namespace Peppi

/-- on every block of length `L`, running `p` at offset `off` consumes `w` bytes and returns `f b` -/
def Rd.AtL {α} (L : Nat) (p : Rd α) (off w : Nat) (f : Bytes → Res α) : Prop :=
  ∀ b : Bytes, b.length = L → off + w ≤ L →
    p (b.drop off) = match f b with | .ok a => .ok (a, b.drop (off + w)) | .err e => .err e | .panic s => .panic s

theorem Rd.at_pure {α} (L off : Nat) (a : α) : Rd.AtL L (pure a : Rd α) off 0 (fun _ => .ok a) := by
  intro b _ _; simp [pure]

theorem Rd.at_take (L off n : Nat) : Rd.AtL L (Rd.take n) off n (fun b => .ok ((b.drop off).take n)) := by
  intro b hb hle
  simp only [Rd.take, List.length_drop, hb]
  have : ¬ (L - off < n) := by omega
  simp only [this, ↓reduceIte, List.drop_drop]

theorem Rd.at_u8 (L off : Nat) : Rd.AtL L Rd.u8 off 1 (fun b => .ok (b.getD off 0).toNat) := by
  intro b hb hle
  have hlt : off < b.length := by omega
  have : b.drop off = b[off] :: b.drop (off + 1) := List.drop_eq_getElem_cons hlt
  rw [this]
  simp only [Rd.u8, List.getD_eq_getElem?_getD, List.getElem?_eq_getElem hlt, Option.getD_some]

theorem Rd.at_bind {α β} (L : Nat) (p : Rd α) (q : α → Rd β) (off w w' : Nat) (f : Bytes → Res α) (g : α → Bytes → Res β)
    (hp : Rd.AtL L p off w f) (hq : ∀ a, Rd.AtL L (q a) (off + w) w' (g a)) :
    Rd.AtL L (p >>= q) off (w + w') (fun b => f b >>= fun a => g a b) := by
  intro b hb hle
  simp only [bind]
  rw [hp b hb (by omega)]
  cases hf : f b with
  | ok a =>
    simp only []
    rw [hq a b hb (by omega), Nat.add_assoc]
  | err e => rfl
  | panic s => rfl

theorem Rd.at_be (L off n : Nat) : Rd.AtL L (Rd.be n) off n (fun b => .ok (fromBE ((b.drop off).take n))) := by
  have := Rd.at_bind L (Rd.take n) (fun x => pure (fromBE x)) off n 0 _ _ (Rd.at_take L off n) (fun a => Rd.at_pure L (off + n) (fromBE a))
  intro b hb hle
  have h := this b hb (by omega)
  simpa [Rd.be, bind, pure] using h

theorem Rd.at_skip (L off n : Nat) : Rd.AtL L (Rd.skip n) off n (fun _ => .ok ()) := by
  have := Rd.at_bind L (Rd.take n) (fun _ => pure ()) off n 0 _ _ (Rd.at_take L off n) (fun _ => Rd.at_pure L (off + n) ())
  intro b hb hle
  have h := this b hb (by omega)
  simpa [Rd.skip, bind, pure] using h

theorem Rd.at_lift {α} (L off : Nat) (r : Res α) : Rd.AtL L (Rd.lift r) off 0 (fun _ => r) := by
  intro b _ _; cases r <;> simp [Rd.lift]

theorem at_playerBytes (L off n m : Nat) :
    Rd.AtL L (playerBytes n m) off (n * m) (fun b => .ok ((List.range m).map fun i => (b.drop (off + n * i)).take n)) := by
  intro b hb hle
  simp only [playerBytes, List.length_drop, hb]
  have : ¬ (L - off < n * m) := by omega
  simp only [this, ↓reduceIte, List.drop_drop]

/-- `if_more` at the end of the block: nothing there -/
theorem at_ifMore_end {α} (L : Nat) (p : Rd α) : Rd.AtL L (ifMore p) L 0 (fun _ => .ok none) := by
  intro b hb _
  have : b.drop L = [] := List.drop_eq_nil_of_le (by omega)
  simp [ifMore, bind, Rd.isEmpty, this, pure]

/-- `if_more` with the tail wholly inside the block -/
theorem at_ifMore_some {α} (L : Nat) (p : Rd α) (off w : Nat) (f : Bytes → Res α) (hp : Rd.AtL L p off w f) (hlt : off < L) :
    Rd.AtL L (ifMore p) off w (fun b => f b >>= fun a => .ok (some a)) := by
  intro b hb hle
  have hne : (b.drop off).isEmpty = false := by
    cases h : b.drop off with
    | nil => have := congrArg List.length h; simp at this; omega
    | cons _ _ => rfl
  simp only [ifMore, bind, Rd.isEmpty, hne, Bool.false_eq_true, ↓reduceIte]
  rw [hp b hb hle]
  cases f b <;> rfl

end Peppi

namespace Peppi
theorem Rd.at_fail {α} (L off w : Nat) (e : String) : Rd.AtL L (Rd.fail e : Rd α) off w (fun _ => .err e) := by
  intro b _ _; simp [Rd.fail]
theorem Rd.at_ite {α} (L : Nat) (c : Prop) [Decidable c] (p q : Rd α) (off w : Nat) (f g : Bytes → Res α)
    (hp : Rd.AtL L p off w f) (hq : Rd.AtL L q off w g) : Rd.AtL L (if c then p else q) off w (fun b => if c then f b else g b) := by
  split
  · exact hp
  · exact hq
end Peppi
