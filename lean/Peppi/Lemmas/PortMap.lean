import Peppi.Lemmas.C12
import Peppi.Lemmas.ReadEncode
/-! The port-number → slot map that `parse_start` builds is correct for every accepted start block
    (discharges the `portMap` / `ports` hypotheses of `Replay.WF`). -/
namespace Peppi
open Extracted

/-- a player record carries the port number it was parsed for -/
theorem player_port (T : TextOracle) (port : Nat) (v0 : Bytes) (isTeams : Bool) (v1_0 v1_3 n c v3_11 : Option Bytes) :
    Res.Post (fun o => ∀ p, o = some p → p.port = port) (player T port v0 isTeams v1_0 v1_3 n c v3_11) := by
  have hfin : ∀ (ty : Option Nat) (f : Nat → Player), (∀ t, (f t).port = port) → ∀ p, ty.map f = some p → p.port = port := by
    intro ty f hf p hp
    cases ty with
    | none => simp at hp
    | some t => simp only [Option.map_some, Option.some.injEq] at hp; rw [← hp]; exact hf t
  unfold player
  cases v1_0 <;> cases v1_3 <;> cases n <;> cases c <;> cases v3_11 <;> simp only [] <;>
    repeat' (first
      | exact Res.post_pure (hfin _ _ (fun _ => rfl))
      | (apply Res.post_bind; intro _ _))

theorem collectPlayers_cons (r : Res (Option Player)) (rs : List (Res (Option Player))) :
    collectPlayers (r :: rs) = (r >>= fun o => collectPlayers rs >>= fun rest => pure (match o with | some p => p :: rest | none => rest)) := rfl

/-- the ports of the collected players are a sublist of the port numbers tried, in order -/
theorem collectPlayers_ports (f : Nat → Res (Option Player)) (hf : ∀ n, Res.Post (fun o => ∀ p, o = some p → p.port = n) (f n)) :
    ∀ (ns : List Nat) (ps : List Player), collectPlayers (ns.map f) = .ok ps → (ps.map (·.port)).Sublist ns := by
  intro ns
  induction ns with
  | nil => intro ps h; simp [collectPlayers, pure] at h; subst h; exact List.Sublist.slnil
  | cons n t ih =>
    intro ps h
    rw [List.map_cons, collectPlayers_cons] at h
    cases hfn : f n with
    | ok o =>
      cases hr : collectPlayers (t.map f) with
      | ok rest =>
        have hsub := ih rest hr
        simp only [hfn, hr, bind, pure, Res.ok.injEq] at h
        cases o with
        | none => simp only [] at h; subst h; exact hsub.cons n
        | some p =>
          simp only [] at h; subst h
          have hp : p.port = n := hf n (some p) hfn p rfl
          simp only [List.map_cons, hp]
          exact hsub.cons_cons n
      | err e => simp [hfn, hr, bind] at h
      | panic s => simp [hfn, hr, bind] at h
    | err e => simp [hfn, bind] at h
    | panic s => simp [hfn, bind] at h

/-- distinct, small port numbers make the `findIdx?` table correct -/
theorem portMap_of_sublist (shape : List PortOccupancy) (h : (shape.map (·.port)).Sublist (List.range 4)) :
    PortMapOK (portIdxOf shape) shape ∧ ∀ p ∈ shape, p.port < 256 := by
  have hnd : (shape.map (·.port)).Nodup := h.nodup List.nodup_range
  have hlt : ∀ p ∈ shape, p.port < 4 := by
    intro p hp
    have := h.subset (List.mem_map.mpr ⟨p, hp, rfl⟩)
    simpa using this
  refine ⟨?_, fun p hp => by have := hlt p hp; omega⟩
  intro pi hpi
  have hport := hlt shape[pi] (List.getElem_mem hpi)
  simp only [portIdxOf, List.getD_eq_getElem?_getD, List.getElem?_map, List.getElem?_range hport, Option.map_some, Option.getD_some]
  rw [List.findIdx?_eq_some_iff_getElem]
  refine ⟨hpi, by simp, ?_⟩
  intro j hj
  have hpw := List.pairwise_iff_getElem.mp (List.nodup_iff_pairwise_ne.mp hnd) j pi (by simp; omega) (by simpa using hpi) hj
  simp only [List.getElem_map] at hpw
  simpa using hpw

def Rd.Post {α} (P : α → Prop) (p : Rd α) : Prop := ∀ bs a rest, p bs = .ok (a, rest) → P a

theorem Rd.post_pure {α} {P : α → Prop} {a : α} (h : P a) : Rd.Post P (pure a) := by
  intro bs a' rest hh; simp only [pure, Res.ok.injEq, Prod.mk.injEq] at hh; rw [← hh.1]; exact h
theorem Rd.post_bind {α β} {P : β → Prop} (p : Rd α) (q : α → Rd β) (hq : ∀ a, Rd.Post P (q a)) : Rd.Post P (p >>= q) := by
  intro bs b rest h
  simp only [bind] at h
  cases hp : p bs with
  | ok ar => obtain ⟨a, r⟩ := ar; simp only [hp] at h; exact hq a r b rest h
  | err e => simp [hp] at h
  | panic s => simp [hp] at h
theorem Rd.post_lift_bind {α β} {P : β → Prop} (r : Res α) (q : α → Rd β) (hq : ∀ a, r = .ok a → Rd.Post P (q a)) :
    Rd.Post P (Rd.lift r >>= q) := by
  intro bs b rest h
  simp only [bind, Rd.lift] at h
  cases hr : r with
  | ok a => simp only [hr] at h; exact hq a hr bs b rest h
  | err e => simp [hr] at h
  | panic s => simp [hr] at h

theorem gameStartP_ports (T : TextOracle) (blk : Bytes) :
    Rd.Post (fun s => (s.players.map (·.port)).Sublist (List.range 4)) (gameStartP T blk) := by
  unfold gameStartP
  repeat' (first
    | (apply Rd.post_lift_bind; intro players hpl; apply Rd.post_pure; exact collectPlayers_ports _ (fun n => player_port T n _ _ _ _ _ _ _) _ _ hpl)
    | (apply Rd.post_bind; intro _))

/-- **for every accepted start block** the port map and port bounds hold -/
theorem portMap_of_gameStart (T : TextOracle) (b : Bytes) (s : Start) (h : gameStart T b = .ok s) :
    PortMapOK (portIdxOf (portOccupancy s)) (portOccupancy s) ∧ ∀ p ∈ portOccupancy s, p.port < 256 := by
  apply portMap_of_sublist
  have : (portOccupancy s).map (·.port) = s.players.map (·.port) := by simp [portOccupancy, List.map_map, Function.comp_def]
  rw [this]
  unfold gameStart at h
  cases hp : gameStartP T b b with
  | ok x =>
    obtain ⟨s', rest⟩ := x
    simp only [hp, Res.ok.injEq] at h
    rw [← h]
    exact gameStartP_ports T b b s' rest hp
  | err e => simp [hp] at h
  | panic p => simp [hp] at h

#print axioms portMap_of_gameStart
end Peppi
