import Peppi.Lemmas.PortMap
import Peppi.Lemmas.C05All
/-! C19: a player's name tag is the decoder's verdict on the slice of its 16-byte field up to the first NUL, nothing else. -/
namespace Peppi
open Extracted

theorem meleeField_ok (T : TextOracle) (b s : Bytes) (h : meleeField T b = .ok s) : s = untilNul b ∧ T.sjisOk (untilNul b) = true := by
  unfold meleeField at h
  split at h
  · rename_i hs; simp only [Res.ok.injEq] at h; exact ⟨h.symm, hs⟩
  · simp at h

/-- the name tag of an accepted player is the slice of its field up to the first NUL, and the decoder accepted that slice -/
theorem player_nameTag (T : TextOracle) (port : Nat) (v0 : Bytes) (isTeams : Bool) (v1_0 : Option Bytes) (b : Bytes)
    (n c v3_11 : Option Bytes) :
    Res.Post (fun o => ∀ p, o = some p → p.nameTag = some (untilNul b) ∧ T.sjisOk (untilNul b) = true)
      (player T port v0 isTeams v1_0 (some b) n c v3_11) := by
  unfold player
  cases v1_0 <;> cases n <;> cases c <;> cases v3_11 <;> simp only [] <;>
    (intro o ho
     simp only [bind, pure] at ho
     repeat' (split at ho <;> try (simp only [reduceCtorEq] at ho))
     all_goals
       (simp only [Res.ok.injEq] at ho
        intro p hp
        subst ho
        obtain ⟨hs, hok⟩ := meleeField_ok T b _ ‹meleeField T b = Res.ok _›
        first
          | (simp only [Option.map_none, reduceCtorEq] at hp)
          | (simp only [Option.map_some, Option.some.injEq] at hp
             rw [← hp]
             exact ⟨by rw [hs], hok⟩)
          | (split at hp
             · simp only [Option.map_some, Option.some.injEq] at hp
               rw [← hp]
               exact ⟨by rw [hs], hok⟩
             · simp only [Option.map_none, reduceCtorEq] at hp)))

/-- **C19 (slices)**: in a full-length start block the name tag of the player on port `n` is the slice of bytes
    `[352 + 16 n, 368 + 16 n)` up to its first NUL — bytes after the NUL and bytes of other fields cannot influence it -/
theorem C19_nameTag_slice (T : TextOracle) (b : Bytes) (n : Nat) (hn : n < 4) (p : Player)
    (h : player T n (((List.range MAX_PLAYERS).map fun i => (b.drop (100 + 36 * i)).take 36).getD n []) ((b.getD 12 0).toNat != 0)
          (some ((b.drop (320 + 8 * n)).take 8)) (some ((b.drop (352 + 16 * n)).take 16))
          (some ((b.drop (420 + 31 * n)).take 31)) (some ((b.drop (544 + 10 * n)).take 10)) (some ((b.drop (584 + 29 * n)).take 29))
        = .ok (some p)) :
    p.nameTag = some (untilNul ((b.drop (352 + 16 * n)).take 16)) :=
  (player_nameTag T n _ _ _ _ _ _ _ (some p) h p rfl).1

#print axioms C19_nameTag_slice
end Peppi
