import Peppi.Lemmas.GenFile
import Peppi.Lemmas.Unified2
import Peppi.Lemmas.Longer
import Peppi.Lemmas.GeckoU
import Peppi.Lemmas.C17Perm
/-! Instances of the general file-level theorem (`readP_gen`) for **every** framing regime at once: the canonical frame events
    of a well-formed replay with declared unknown events spliced in anywhere after the Gecko block, and arbitrary extra bytes
    after Game End.  Consequences: C08 (unknown events) and C17 (fixed point of read/write on tolerated irregularities) for every
    version, not only ≥ 3.0. -/
namespace Peppi
open Extracted

/-- the recorder's frame events for a history, by framing regime -/
def canonEventsAny (v : Ver) (shape : List PortOccupancy) (frames : List FrameOcc) : List (Nat × Bytes) :=
  if v.gte 3 0 then frames.flatMap (frameEventsA v shape)
  else if v.gte 2 2 then frames.flatMap (frameEventsB v shape)
  else frames.flatMap (frameEventsC v shape)

/-- the payload table the version prescribes (with the Gecko entries when a Gecko block is present) -/
def canonTableAny (v : Ver) (sl el : Nat) : Option GeckoBlocks → List (Nat × Nat)
  | some g => canonTableG v sl el g.total
  | none => if v.gte 3 0 then canonTable v sl el else if v.gte 2 2 then canonTableB v sl el else canonTableC v sl el

theorem canonTableAny_nodup (v : Ver) (sl el : Nat) (gk : Option GeckoBlocks) : ((canonTableAny v sl el gk).map Prod.fst).Nodup := by
  cases gk with
  | some g => exact canonTableG_nodup v sl el g.total
  | none =>
    simp only [canonTableAny]
    split
    · exact canonTable_nodup v sl el
    · split
      · exact canonTableB_nodup v sl el
      · exact canonTableC_nodup v sl el

theorem canonTableAny_start (v : Ver) (sl el : Nat) (gk : Option GeckoBlocks) : (EV_GAME_START, sl) ∈ canonTableAny v sl el gk := by
  cases gk with
  | some g => simp [canonTableAny, canonTableG, canonTable]
  | none => simp only [canonTableAny]; split; simp [canonTable]; split <;> simp [canonTableB, canonTableC]

theorem canonTableAny_end (v : Ver) (sl el : Nat) (gk : Option GeckoBlocks) : (EV_GAME_END, el) ∈ canonTableAny v sl el gk := by
  cases gk with
  | some g => simp [canonTableAny, canonTableG, canonTable]
  | none => simp only [canonTableAny]; split; simp [canonTable]; split <;> simp [canonTableB, canonTableC]

/-- every canonical frame event is declared in the version's table with its size, and is neither a splitter nor Game End -/
theorem canonEventsAny_sizes {T : TextOracle} {r : Replay} {s : Start} {gk : Option GeckoBlocks} (h : r.WFAny T s gk) (sl el : Nat) :
    ∀ e ∈ canonEventsAny s.version (portOccupancy s) r.frames, e.1 < 256 ∧ e.1 ≠ EV_SPLITTER ∧ e.1 ≠ EV_GAME_END ∧
      (e.1, e.2.length) ∈ canonTableAny s.version sl el gk := by
  intro e he
  rcases h.cases with ⟨g, rfl, hg⟩ | ⟨rfl, h30, ha⟩ | ⟨rfl, h30, h22, hb⟩ | ⟨rfl, h30, h22, hc⟩
  · simp only [canonEventsAny, hg.v30, ↓reduceIte] at he
    obtain ⟨o, ho, heo⟩ := List.mem_flatMap.mp he
    obtain ⟨a1, a2, a3, a4⟩ := frameEventsA_sizes s.version (portOccupancy s) o (hg.frames o ho) sl el e heo
    have hm := sizeOfEv_mem_of_some _ _ _ a4
    simp only [List.mem_reverse] at hm
    exact ⟨a1, a2, a3, canonTableG_mem _ _ _ _ _ _ hm⟩
  · simp only [canonEventsAny, h30, ↓reduceIte] at he
    obtain ⟨o, ho, heo⟩ := List.mem_flatMap.mp he
    obtain ⟨a1, a2, a3, a4⟩ := frameEventsA_sizes s.version (portOccupancy s) o (ha.frames o ho) sl el e heo
    have hm := sizeOfEv_mem_of_some _ _ _ a4
    simp only [List.mem_reverse] at hm
    exact ⟨a1, a2, a3, by simpa [canonTableAny, h30] using hm⟩
  · simp only [canonEventsAny, h30, h22, Bool.false_eq_true, ↓reduceIte] at he
    obtain ⟨o, ho, heo⟩ := List.mem_flatMap.mp he
    obtain ⟨a1, a2, a3, a4⟩ := frameEventsB_sizes s.version (portOccupancy s) o (hb.frames o ho) sl el e heo
    have hm := sizeOfEv_mem_of_some _ _ _ a4
    simp only [List.mem_reverse] at hm
    exact ⟨a1, a2, a3, by simpa [canonTableAny, h30, h22] using hm⟩
  · simp only [canonEventsAny, h30, h22, Bool.false_eq_true, ↓reduceIte] at he
    obtain ⟨o, ho, heo⟩ := List.mem_flatMap.mp he
    obtain ⟨a1, a2, a3, a4⟩ := frameEventsC_sizes s.version (portOccupancy s) o (hc.frames o ho) sl el e heo
    have hm := sizeOfEv_mem_of_some _ _ _ a4
    simp only [List.mem_reverse] at hm
    exact ⟨a1, a2, a3, by simpa [canonTableAny, h30, h22] using hm⟩

/-- running the canonical frame events from any state that has the start block, the empty frame set and the port map of the
    replay: the handler succeeds, touches nothing but the frames, and the frames — closed below 3.0 — are the expected ones -/
theorem canonEventsAny_run {T : TextOracle} {r : Replay} {s : Start} {gk : Option GeckoBlocks} (h : r.WFAny T s gk) (st : PState)
    (hst : st.start = s) (hfr : st.frames = FCols.new s.version (portOccupancy s)) (hpi : st.portIdx = portIdxOf (portOccupancy s)) :
    ∃ st', runEvents st (canonEventsAny s.version (portOccupancy s) r.frames) = .ok st' ∧ st'.ctx = st.ctx ∧ st'.fend = st.fend ∧
      st'.gecko = st.gecko ∧ st'.metadata = st.metadata ∧ st'.doubleGameEnd = st.doubleGameEnd ∧
      (if s.version.lt 3 0 then st'.frames.close else st'.frames) = expFrames s.version (portOccupancy s) r.frames := by
  have hv : st.start.version = s.version := by rw [hst]
  have hnewB : ∀ (h30 : s.version.gte 3 0 = false), OpenInv s.version (portOccupancy s) [] st.frames := by
    intro _
    rw [hfr]
    have := FCols_new_eq s.version (portOccupancy s)
    rw [this]
    refine ⟨rfl, rfl, rfl, rfl, rfl, ?_⟩
    rw [← this, new_close, this]
    rfl
  have hA : s.version.gte 3 0 = true → (∀ o ∈ r.frames, o.OK s.version (nSlots (portOccupancy s))) →
      PortMapOK (portIdxOf (portOccupancy s)) (portOccupancy s) → (∀ p ∈ portOccupancy s, p.port < 256) → s.version.gte 2 2 = true →
      ∃ st', runEvents st (canonEventsAny s.version (portOccupancy s) r.frames) = .ok st' ∧ st'.ctx = st.ctx ∧ st'.fend = st.fend ∧
        st'.gecko = st.gecko ∧ st'.metadata = st.metadata ∧ st'.doubleGameEnd = st.doubleGameEnd ∧
        (if s.version.lt 3 0 then st'.frames.close else st'.frames) = expFrames s.version (portOccupancy s) r.frames := by
    intro h30 hfrm hpm hports h22
    have hrun := frames_A s.version (portOccupancy s) [] r.frames st hv h30 h22 (by rw [hfr, FCols_new_eq]) (by rw [hpi]; exact hpm) hports hfrm
    simp only [List.nil_append] at hrun
    have hlt : s.version.lt 3 0 = false := by simp [Ver.lt, h30]
    exact ⟨{ st with frames := expFrames s.version (portOccupancy s) r.frames }, by simpa [canonEventsAny, h30] using hrun, rfl, rfl, rfl, rfl, rfl, by simp [hlt]⟩
  rcases h.cases with ⟨g, rfl, hg⟩ | ⟨rfl, h30, ha⟩ | ⟨rfl, h30, h22, hb⟩ | ⟨rfl, h30, h22, hc⟩
  · exact hA hg.v30 hg.frames hg.portMap hg.ports hg.v22
  · exact hA h30 ha.frames ha.portMap ha.ports ha.v22
  · obtain ⟨stF, hrun, hctx, hfend, hgecko, hmeta, hdge, hinv⟩ := frames_B s.version (portOccupancy s) h30 h22 hb.ports r.frames []
      st hv (hnewB h30) (by rw [hpi]; exact hb.portMap) hb.frames
    simp only [List.nil_append] at hinv
    have hlt : s.version.lt 3 0 = true := by simp [Ver.lt, h30]
    exact ⟨stF, by simpa [canonEventsAny, h30, h22] using hrun, hctx, hfend, hgecko, hmeta, hdge, by
      simp only [hlt, ↓reduceIte]; exact close_eq_exp _ _ _ _ hinv⟩
  · obtain ⟨stF, hrun, hctx, hfend, hgecko, hmeta, hdge, hinv⟩ := frames_C s.version (portOccupancy s) h30 h22 hc.ports r.frames []
      st hv (hnewB h30) (by rw [hpi]; exact hc.portMap) hc.frames (by simpa using hc.seq)
    simp only [List.nil_append] at hinv
    have hlt : s.version.lt 3 0 = true := by simp [Ver.lt, h30]
    exact ⟨stF, by simpa [canonEventsAny, h30, h22] using hrun, hctx, hfend, hgecko, hmeta, hdge, by
      simp only [hlt, ↓reduceIte]; exact close_eq_exp _ _ _ _ hinv⟩

/-- the recorder's frame events up to the order of events *inside* a frame: either the canonical stream, or (≥ 3.0, where frames are
    bracketed by Frame Start / Frame End) every frame's body events in any order that keeps each character's events and the item
    events in their relative order -/
def CanonUpToOrder (s : Start) (r : Replay) (es : List (Nat × Bytes)) : Prop :=
  es = canonEventsAny s.version (portOccupancy s) r.frames ∨
  (s.version.gte 3 0 = true ∧ ∃ fr : List (FrameOcc × List BEv), Permuted s.version (portOccupancy s) r fr ∧
    es = fr.flatMap fun ob => frameEventsP s.version (portOccupancy s) ob.1 ob.2)

/-- what the file-level theorem needs of such a stream: it runs to the expected frames touching nothing else, and none of its
    events is a splitter or Game End -/
theorem canonUpToOrder_run {T : TextOracle} {r : Replay} {s : Start} {gk : Option GeckoBlocks} (h : r.WFAny T s gk) (st : PState)
    (hst : st.start = s) (hfr : st.frames = FCols.new s.version (portOccupancy s)) (hpi : st.portIdx = portIdxOf (portOccupancy s))
    (es : List (Nat × Bytes)) (hc : CanonUpToOrder s r es) :
    (∃ st', runEvents st es = .ok st' ∧ st'.ctx = st.ctx ∧ st'.fend = st.fend ∧
      st'.gecko = st.gecko ∧ st'.metadata = st.metadata ∧ st'.doubleGameEnd = st.doubleGameEnd ∧
      (if s.version.lt 3 0 then st'.frames.close else st'.frames) = expFrames s.version (portOccupancy s) r.frames) ∧
    (∀ e ∈ es, e.1 ≠ EV_SPLITTER ∧ e.1 ≠ EV_GAME_END) := by
  rcases hc with rfl | ⟨h30, fr, hp, rfl⟩
  · refine ⟨canonEventsAny_run h st hst hfr hpi, ?_⟩
    intro e he
    obtain ⟨_, a2, a3, _⟩ := canonEventsAny_sizes h 0 0 e he
    exact ⟨a2, a3⟩
  · have hA : (∀ o ∈ r.frames, o.OK s.version (nSlots (portOccupancy s))) ∧
        PortMapOK (portIdxOf (portOccupancy s)) (portOccupancy s) ∧ (∀ p ∈ portOccupancy s, p.port < 256) ∧ s.version.gte 2 2 = true := by
      rcases h.cases with ⟨g, rfl, hg⟩ | ⟨rfl, _, ha⟩ | ⟨rfl, h30', _, _⟩ | ⟨rfl, h30', _, _⟩
      · exact ⟨hg.frames, hg.portMap, hg.ports, hg.v22⟩
      · exact ⟨ha.frames, ha.portMap, ha.ports, ha.v22⟩
      · rw [h30] at h30'; cases h30'
      · rw [h30] at h30'; cases h30'
    obtain ⟨hfrm, hpm, hports, h22⟩ := hA
    have hokfr : ∀ ob ∈ fr, ob.1.OK s.version (nSlots (portOccupancy s)) := by
      intro ob hob
      apply hfrm
      rw [← hp.frames]; exact List.mem_map.mpr ⟨ob, hob, rfl⟩
    have hv : st.start.version = s.version := by rw [hst]
    have hrun := frames_perm s.version (portOccupancy s) h30 h22 hports fr [] st hv (by rw [hfr, FCols_new_eq]) (by rw [hpi]; exact hpm)
      (fun ob hob => ⟨hokfr ob hob, hp.bodies ob hob⟩)
    simp only [List.nil_append, hp.frames] at hrun
    have hlt : s.version.lt 3 0 = false := by simp [Ver.lt, h30]
    refine ⟨⟨{ st with frames := expFrames s.version (portOccupancy s) r.frames }, hrun, rfl, rfl, rfl, rfl, rfl, by simp [hlt]⟩, ?_⟩
    intro e he
    obtain ⟨ob, hob, heo⟩ := List.mem_flatMap.mp he
    simp only [frameEventsP, List.mem_append, List.mem_cons, List.not_mem_nil, or_false, List.mem_map] at heo
    rcases heo with (rfl | ⟨b, hb, rfl⟩) | rfl
    · exact ⟨show EV_FRAME_START ≠ EV_SPLITTER by decide, show EV_FRAME_START ≠ EV_GAME_END by decide⟩
    · obtain ⟨_, a2, a3, _⟩ := bev_size s.version (portOccupancy s) ob.1.id b ((hp.bodies ob hob).ok b hb) 0 0
      exact ⟨a2, a3⟩
    · exact ⟨show EV_FRAME_END ≠ EV_SPLITTER by decide, show EV_FRAME_END ≠ EV_GAME_END by decide⟩

/-- tolerated irregularities of a file: its payload table (`table`: the version's entries, possibly with larger sizes for the
    frame events, plus entries for codes the library does not know), the event stream between the Gecko block (or Game Start)
    and Game End (`mixed`), bytes after Game End up to the declared raw length (`junk`) -/
structure Irr where
  table : List (Nat × Nat)
  /-- unknown events in front of each message-splitter event of the Gecko block, in order (missing entries = none) -/
  pre : List (List (Nat × Bytes)) := []
  mixed : List (Nat × Bytes)
  junk : Bytes

/-- the file of a history with irregularities, in the general shape -/
def Replay.fileIrr (r : Replay) (s : Start) (gk : Option GeckoBlocks) (i : Irr) : GFile :=
  { table := i.table
    startBlock := r.startBlock
    mid := (match gk with | some g => g.encU i.pre | none => []) ++ encEvents i.mixed
    fend := r.fend
    extra := if r.doubled then (match r.fend with | some e => encEvent (EV_GAME_END, e) | none => []) else i.junk
    metadata := r.metadata }

/-- **well-formed up to tolerated irregularities** (any version): erasing the unknown events from the stream leaves the
    recorder's frame events — canonical, or (≥ 3.0) with the events inside each frame in another admissible order — each
    possibly with extra trailing bytes (a newer version's longer payloads); every
    event of the stream is declared in the payload table with its size; junk follows a single Game End and does not look
    like a second one -/
structure Irr.OK (T : TextOracle) (r : Replay) (s : Start) (gk : Option GeckoBlocks) (i : Irr) : Prop where
  base : r.WFAny T s gk
  tableOK : TableOK i.table
  nodup : (i.table.map Prod.fst).Nodup
  tableLen : 3 * i.table.length + 1 < 256
  declStart : (EV_GAME_START, r.startBlock.length) ∈ i.table
  declEnd : (EV_GAME_END, r.endLen s.version) ∈ i.table
  declSplit : ∀ g, gk = some g → (EV_SPLITTER, 516) ∈ i.table
  erase : ∃ es, Longer (i.mixed.filter (fun e => isKnown e.1)) es ∧ CanonUpToOrder s r es
  declared : ∀ e ∈ i.mixed, e.1 < 256 ∧ (e.1, e.2.length) ∈ i.table
  preOK : ∀ u ∈ i.pre, ∀ e ∈ u, isKnown e.1 = false ∧ e.1 < 256 ∧ (e.1, e.2.length) ∈ i.table
  junkOK : i.junk ≠ [] → (∃ e, r.fend = some e) ∧ r.doubled = false ∧ ¬ looksLikeEnd s.version i.junk
  rawLen : (r.fileIrr s gk i).raw.length < 256 ^ 4

theorem Longer.codes {es' es : List (Nat × Bytes)} (h : Longer es' es) : es'.map Prod.fst = es.map Prod.fst := by
  induction h with
  | nil => rfl
  | ext c b x es' es _ _ ih => simp [ih]
  | same e es' es _ ih => simp [ih]

/-- unknown events only (no longer payloads): the table is the version's table plus the declared unknown codes -/
def Irr.ofUnknown (v : Ver) (sl el : Nat) (gk : Option GeckoBlocks) (extra : List (Nat × Nat)) (mixed : List (Nat × Bytes)) (junk : Bytes) : Irr :=
  { table := canonTableAny v sl el gk ++ extra, mixed := mixed, junk := junk }

/-- the state after the Gecko block (or after `parse_start` when there is none) -/
def psAfterGecko (t : List (Nat × Nat)) (sl : Nat) (s : Start) (pre : List (List (Nat × Bytes))) : Option GeckoBlocks → ParseState
  | none => ps0T t sl s
  | some g => { st := { (ps0T t sl s).st with splitRaw := [], splitActual := g.total, gecko := some (Gecko.mk (catData g.all) g.total) },
                bytesRead := (ps0T t sl s).bytesRead + (g.encU pre).length }

/-- **General read theorem for well-formed replays with tolerated irregularities, every version.**  Whatever declared
    unknown events are spliced into the frame events and whatever bytes follow Game End, the reader returns exactly the game
    of the history — the one it returns for the canonical file (`C04_any`). -/
theorem readP_irregular (T : TextOracle) (r : Replay) (s : Start) (gk : Option GeckoBlocks) (i : Irr) (h : i.OK T r s gk) :
    ∃ ge : Option End, r.fend.map gameEnd = ge.map Res.ok ∧
      readP T {} (r.fileIrr s gk i).encode = .ok (r.gameAny s ge gk, []) := by
  have hb := h.base
  let t := i.table
  have hnd : (t.map Prod.fst).Nodup := h.nodup
  have look : ∀ c sz, (c, sz) ∈ t → sizeOfEv t.reverse c = some sz := fun c sz hm => sizeOfEv_reverse t hnd c sz hm
  -- the state the middle starts from, after the Gecko block
  let ps1 := psAfterGecko t r.startBlock.length s i.pre gk
  have hps1 : ps1.st.start = s ∧ ps1.st.frames = FCols.new s.version (portOccupancy s) ∧ ps1.st.portIdx = portIdxOf (portOccupancy s) ∧
      ps1.st.sizes = t.reverse ∧ ps1.st.fend = none ∧ ps1.st.metadata = none ∧ ps1.st.doubleGameEnd = none := by
    cases gk <;> exact ⟨rfl, rfl, rfl, rfl, rfl, rfl, rfl⟩
  obtain ⟨p1, p2, p3, p4, p5, p6, p7⟩ := hps1
  obtain ⟨es, hlonger, hcanon⟩ := h.erase
  obtain ⟨⟨stF, hrun, hctx, hfend, hgecko, hmeta, hdge, hfr⟩, hcodes⟩ := canonUpToOrder_run hb ps1.st p1 p2 p3 es hcanon
  have hrun' : runEvents ps1.st i.mixed = .ok stF := by rw [runEvents_erase_unknown]; exact runEvents_longer hlonger _ _ hrun
  have hdecl : ∀ e ∈ i.mixed, e.1 < 256 ∧ e.1 ≠ EV_SPLITTER ∧ e.1 ≠ EV_GAME_END ∧ sizeOfEv ps1.st.sizes e.1 = some e.2.length := by
    intro e he
    rw [p4]
    obtain ⟨hc, hd⟩ := h.declared e he
    cases hk : isKnown e.1 with
    | true =>
      have hmem : e.1 ∈ (i.mixed.filter (fun e => isKnown e.1)).map Prod.fst := List.mem_map.mpr ⟨e, List.mem_filter.mpr ⟨he, hk⟩, rfl⟩
      rw [hlonger.codes] at hmem
      obtain ⟨e0, he0, hee⟩ := List.mem_map.mp hmem
      obtain ⟨a2, a3⟩ := hcodes e0 he0
      rw [hee] at a2 a3
      exact ⟨hc, a2, a3, look _ _ hd⟩
    | false =>
      have hns : e.1 ≠ EV_SPLITTER := by intro hh; rw [hh] at hk; simp [isKnown] at hk
      have hne : e.1 ≠ EV_GAME_END := by intro hh; rw [hh] at hk; simp [isKnown] at hk
      exact ⟨hc, hns, hne, look _ _ hd⟩
  have hev := MidRun.events ps1 i.mixed stF hdecl hrun'
  let psF : ParseState := { st := stF, bytesRead := ps1.bytesRead + (encEvents i.mixed).length }
  -- the whole middle
  have hmid : MidRun (ps0T t r.startBlock.length s) (r.fileIrr s gk i).mid psF ∧
      ps1.bytesRead = (ps0T t r.startBlock.length s).bytesRead + (match gk with | some g => g.encU i.pre | none => ([] : Bytes)).length := by
    cases gk with
    | none =>
      have e1 : ps1 = ps0T t r.startBlock.length s := rfl
      refine ⟨?_, by rw [e1]; simp⟩
      have : (r.fileIrr s none i).mid = encEvents i.mixed := by simp [Replay.fileIrr]
      rw [this, ← e1]; exact hev
    | some g =>
      obtain ⟨h33, hfull, hlast, hnz, hlt⟩ := hb.gecko g rfl
      have hszS : sizeOfEv t.reverse EV_SPLITTER = some 516 := look _ _ (h.declSplit g rfl)
      have hg := midRun_geckoU t r.startBlock.length s g i.pre hfull hlast hlt hszS
        (fun u hu e he => by obtain ⟨a, b, c⟩ := h.preOK u hu e he; exact ⟨a, b, look _ _ c⟩)
      have e1 : ps1 = psAfterGecko t r.startBlock.length s i.pre (some g) := rfl
      have hbr1 : ps1.bytesRead = (ps0T t r.startBlock.length s).bytesRead + (g.encU i.pre).length := rfl
      refine ⟨?_, by simpa using hbr1⟩
      have : (r.fileIrr s (some g) i).mid = g.encU i.pre ++ encEvents i.mixed := by simp [Replay.fileIrr]
      rw [this]
      exact MidRun.trans hg (show MidRun ps1 _ _ from hev) (show ps1.bytesRead = _ from hbr1)
  obtain ⟨hmid, hbr1⟩ := hmid
  have hsizesF : stF.sizes = t.reverse := by have := congrArg (fun c => c.1) hctx; simp only [PState.ctx] at this; rw [this, p4]
  have hstartF : stF.start = s := by have := congrArg (fun c => c.2.2.2.1) hctx; simp only [PState.ctx] at this; rw [this, p1]
  have hwf : (r.fileIrr s gk i).WF T s psF := by
    refine ⟨hb.start, h.tableOK, h.nodup, h.tableLen, ?_, ?_, hmid, ?_, hsizesF, hstartF, by rw [hfend, p5], by rw [hmeta, p6], by rw [hdge, p7],
      ?_, ?_, hb.metadata, h.rawLen⟩
    · exact h.declStart
    · refine ⟨r.endLen s.version, h.declEnd, ?_⟩
      intro e he
      have : r.fend = some e := he
      simp [Replay.endLen, this]
    · have hm : (r.fileIrr s gk i).mid.length = (match gk with | some g => g.encU i.pre | none => ([] : Bytes)).length + (encEvents i.mixed).length := by
        simp [Replay.fileIrr]
      show ps1.bytesRead + (encEvents i.mixed).length = (ps0T t r.startBlock.length s).bytesRead + (r.fileIrr s gk i).mid.length
      rw [hbr1, hm]; omega
    · intro e he
      have : r.fend = some e := he
      exact (hb.endOK e this).2.2
    · intro hn
      have hn' : r.fend = none := hn
      show (if r.doubled then (match r.fend with | some e => encEvent (EV_GAME_END, e) | none => []) else i.junk) = []
      cases hd : r.doubled with
      | true => simp [hn']
      | false =>
        simp only [Bool.false_eq_true, ↓reduceIte]
        by_cases hj : i.junk = []
        · exact hj
        · obtain ⟨⟨e, he⟩, _⟩ := h.junkOK hj; rw [hn'] at he; cases he
  obtain ⟨ge, hge, hread⟩ := readP_gen T (r.fileIrr s gk i) s psF hwf
  refine ⟨ge, hge, ?_⟩
  rw [hread]
  -- the game
  have hdgeEq : dgeOf s.version (r.fileIrr s gk i).extra none = (if r.doubled then some true else none) := by
    show dgeOf s.version (if r.doubled then (match r.fend with | some e => encEvent (EV_GAME_END, e) | none => []) else i.junk) none = _
    cases hd : r.doubled with
    | true =>
      obtain ⟨e, he, hlen⟩ := hb.doubledOK hd
      simp only [↓reduceIte, he, dgeOf]
      have h1 : (encEvent (EV_GAME_END, e)).length = 1 + endSize s.version := by simp [encEvent, hlen]; omega
      have h2 : (encEvent (EV_GAME_END, e)).head? = some 0x39 := by simp [encEvent]; decide
      simp [h1, h2]
    | false =>
      simp only [Bool.false_eq_true, ↓reduceIte, dgeOf]
      by_cases hj : i.junk = []
      · have : ¬ (0 = 1 + endSize s.version) := by omega
        simp [hj, this]
      · obtain ⟨_, _, hnot⟩ := h.junkOK hj
        have : ¬ (i.junk.length = 1 + endSize s.version ∧ i.junk.head? = some 0x39) := hnot
        simp [this]
  rw [hdgeEq]
  have hclosed : ({ stF with fend := ge } : PState).closed.frames = expFrames s.version (portOccupancy s) r.frames := by
    unfold PState.closed
    simp only [hstartF]
    split
    · rename_i hlt; simp only [hlt, ↓reduceIte] at hfr; exact hfr
    · rename_i hlt; simp only [hlt, Bool.false_eq_true, ↓reduceIte] at hfr; exact hfr
  have hother : ({ stF with fend := ge } : PState).closed.start = s ∧ ({ stF with fend := ge } : PState).closed.fend = ge ∧
      ({ stF with fend := ge } : PState).closed.gecko = stF.gecko := by
    unfold PState.closed; split <;> exact ⟨hstartF, rfl, rfl⟩
  obtain ⟨o1, o2, o3⟩ := hother
  show Res.ok (gameOf ({ stF with fend := ge } : PState).closed r.metadata (if r.doubled then some true else none), []) = _
  generalize ({ stF with fend := ge } : PState).closed = q at hclosed o1 o2 o3 ⊢
  simp only [gameOf, hclosed, o1, o2, o3, hgecko]
  cases gk with
  | none => simp [Replay.gameAny, Replay.game, ps1, psAfterGecko, ps0T]
  | some g => simp [Replay.gameAny, Replay.gameG, Replay.game, ps1, psAfterGecko]

#print axioms readP_irregular
end Peppi
