import Peppi.Lemmas.C12Cols
import Peppi.Lemmas.C13
/-! C13, in-progress clause: the row view of a frame on the in-progress columns is the row view of the same index on the columns at
    any later time (in particular on the finished game), for every index whose rows are all there ("completed frame").  Follows
    from the column-wise prefix relation `FCols.Ext` that every event preserves (`eventLoop_extends`): a row view only looks at
    index `i` of each column, and at the item rows between two consecutive offsets. -/
namespace Peppi
open Extracted

theorem prefix_getElem? {α} {a b : List α} (h : a <+: b) {i : Nat} (hi : i < a.length) : a[i]? = b[i]? := by
  obtain ⟨t, rfl⟩ := h
  rw [List.getElem?_append_left hi]

/-- the validity the row view looks at is the semantic validity list -/
theorem DCols.rowView_vlist (d : DCols) (i : Nat) :
    (match d.valid with | none => true | some bs => bs.getD i true) = d.vlist.getD i true := by
  unfold DCols.vlist
  cases d.valid with
  | none =>
    simp only [Option.getD_none, List.getD_eq_getElem?_getD]
    by_cases h : i < d.pre.length
    · simp [h]
    · simp [h]
  | some bs => rfl

/-- the row view, with the validity read off the semantic list -/
def rowOf (p q : Option (Option Row)) (valid : Bool) : Option (Option CharOcc) :=
  match p, q with
  | some p, some q => if valid then (match p, q with | some pr, some po => some (some ⟨pr, po⟩) | _, _ => some none) else some none
  | _, _ => none

theorem DCols.rowView_eq (d : DCols) (i : Nat) : d.rowView i = rowOf d.pre[i]? d.post[i]? (d.vlist.getD i true) := by
  unfold DCols.rowView rowOf
  rw [← DCols.rowView_vlist d i]
  cases d.pre[i]? <;> cases d.post[i]? <;> rfl

/-- a character's row at a completed index does not change when its columns grow -/
theorem DCols.rowView_ext (a b : DCols) (h : a.Ext b) (i : Nat)
    (h1 : i < a.pre.length) (h2 : i < a.post.length) (h3 : i < a.vlist.length) : a.rowView i = b.rowView i := by
  obtain ⟨hp, hq, hv⟩ := h
  rw [DCols.rowView_eq, DCols.rowView_eq, ← prefix_getElem? hp h1, ← prefix_getElem? hq h2]
  have : a.vlist.getD i true = b.vlist.getD i true := by
    simp only [List.getD_eq_getElem?_getD, prefix_getElem? hv h3]
  rw [this]

/-- the item slice of a frame whose closing offset is known and lies inside the item rows present -/
theorem itemsView_ext (offs offs' : List Nat) (items items' : SCols) (ho : offs <+: offs') (hi : items <+: items') (i : Nat)
    (h1 : i + 1 < offs.length) (hle : ∀ b, offs[i+1]? = some b → b ≤ items.length) :
    itemsView offs items i = itemsView offs' items' i := by
  unfold itemsView
  rw [← prefix_getElem? ho (by omega : i < offs.length), ← prefix_getElem? ho h1]
  cases ha : offs[i]? with
  | none => rfl
  | some a =>
    cases hb : offs[i+1]? with
    | none => rfl
    | some b =>
      have hb' := hle b hb
      obtain ⟨t, rfl⟩ := hi
      simp only [Option.some.injEq]
      by_cases hab : a ≤ items.length
      · rw [List.drop_append_of_le_length hab, List.take_append_of_le_length (by simp; omega)]
      · have h0 : b - a = 0 := by omega
        simp [h0]

/-- a column that may not exist (Frame Start before 2.2, Frame End before 3.0): same row at a present index -/
theorem optCol_ext {α} (a b : Option (List α)) (h : OptExt List.IsPrefix a b) (i : Nat) (hi : ∀ l, a = some l → i < l.length) :
    a.bind (·[i]?) = b.bind (·[i]?) := by
  cases a with
  | none => cases b with
    | none => rfl
    | some _ => exact h.elim
  | some l => cases b with
    | none => exact h.elim
    | some l' => simp only [Option.bind_some]; exact prefix_getElem? h (hi l rfl)

theorem portsExt_get : ∀ (a b : List PCols), PortsExt a b → ∀ (k : Nat) (p : PCols), a[k]? = some p → ∃ q : PCols, b[k]? = some q ∧ p.Ext q
  | [], [], _, k, p, h => by simp at h
  | x :: xs, y :: ys, h, k, p, hp => by
    cases k with
    | zero =>
      simp only [List.getElem?_cons_zero, Option.some.injEq] at hp; subst hp
      exact ⟨y, rfl, h.1⟩
    | succ k =>
      simp only [List.getElem?_cons_succ] at hp ⊢
      exact portsExt_get xs ys h.2 k p hp
  | [], _ :: _, h, _, _, _ => h.elim
  | _ :: _, [], h, _, _, _ => h.elim

/-- **C13, in-progress representation**: when the columns `F` extend to `F'` (any number of further events), the row view of every
    completed frame is the same on both: frame id, Frame Start / Frame End rows, each port's leader and follower rows, and the
    item slice.  "Completed" is spelled out per column: the index is present in it (and, for items, the closing offset is present
    and inside the item rows). -/
theorem FCols.rowView_ext (F F' : FCols) (h : F.Ext F') (i : Nat) (hid : i < F.id.length) :
    F.id[i]? = F'.id[i]? ∧
    ((∀ l, F.start = some l → i < l.length) → F.start.bind (·[i]?) = F'.start.bind (·[i]?)) ∧
    ((∀ l, F.fend = some l → i < l.length) → F.fend.bind (·[i]?) = F'.fend.bind (·[i]?)) ∧
    (∀ (k : Nat) (p : PCols), F.ports[k]? = some p → ∃ q : PCols, F'.ports[k]? = some q ∧ p.port = q.port ∧
      (i < p.leader.pre.length → i < p.leader.post.length → i < p.leader.vlist.length → p.leader.rowView i = q.leader.rowView i) ∧
      (∀ d, p.follower = some d → ∃ d', q.follower = some d' ∧
        (i < d.pre.length → i < d.post.length → i < d.vlist.length → d.rowView i = d'.rowView i))) ∧
    (∀ offs items, F.itemOff = some offs → F.item = some items → i + 1 < offs.length →
      (∀ b, offs[i+1]? = some b → b ≤ items.length) →
      ∃ offs' items', F'.itemOff = some offs' ∧ F'.item = some items' ∧ itemsView offs items i = itemsView offs' items' i) := by
  obtain ⟨hi, hp, hs, he, ho, hit⟩ := h
  refine ⟨prefix_getElem? hi hid, fun hl => optCol_ext _ _ hs i hl, fun hl => optCol_ext _ _ he i hl, ?_, ?_⟩
  · intro k p hk
    obtain ⟨q, hq, hpq⟩ := portsExt_get _ _ hp k p hk
    refine ⟨q, hq, hpq.1, fun h1 h2 h3 => DCols.rowView_ext _ _ hpq.2.1 i h1 h2 h3, ?_⟩
    intro d hd
    have hf := hpq.2.2
    rw [hd] at hf
    cases hq' : q.follower with
    | none => rw [hq'] at hf; exact hf.elim
    | some d' =>
      rw [hq'] at hf
      exact ⟨d', rfl, fun h1 h2 h3 => DCols.rowView_ext _ _ hf i h1 h2 h3⟩
  · intro offs items hof hitm h1 hle
    rw [hof] at ho; rw [hitm] at hit
    cases ho' : F'.itemOff with
    | none => rw [ho'] at ho; exact ho.elim
    | some offs' =>
      cases hi' : F'.item with
      | none => rw [hi'] at hit; exact hit.elim
      | some items' =>
        rw [ho'] at ho; rw [hi'] at hit
        exact ⟨offs', items', rfl, rfl, itemsView_ext _ _ _ _ ho hit i h1 hle⟩

/-- … and the event loop only ever extends the columns: the row view of a completed frame taken at any point of an incremental
    parse is the one the finished game gives -/
theorem C13_inprogress (fuel rawLen : Nat) (ps : ParseState) (bs : Bytes) (ps' : ParseState) (rest : Bytes)
    (h : eventLoop fuel rawLen ps bs = .ok (ps', rest)) (i : Nat) (hid : i < ps.st.frames.id.length) :
    ps.st.frames.id[i]? = ps'.st.frames.id[i]? ∧
    (∀ (k : Nat) (p : PCols), ps.st.frames.ports[k]? = some p → ∃ q : PCols, ps'.st.frames.ports[k]? = some q ∧ p.port = q.port ∧
      (i < p.leader.pre.length → i < p.leader.post.length → i < p.leader.vlist.length → p.leader.rowView i = q.leader.rowView i)) := by
  have hx := FCols.rowView_ext _ _ (eventLoop_extends fuel rawLen ps bs ps' rest h) i hid
  refine ⟨hx.1, ?_⟩
  intro k p hk
  obtain ⟨q, hq, hport, hl, _⟩ := hx.2.2.2.1 k p hk
  exact ⟨q, hq, hport, hl⟩

#print axioms FCols.rowView_ext
#print axioms C13_inprogress
end Peppi

namespace Peppi
/-- non-vacuity: an in-progress character (two completed rows, a third frame with only its pre row, no bitmap yet) against the same
    character later (third frame complete, a fourth in which it is absent — so a bitmap exists): hypotheses met at rows 0 and 1,
    same row views -/
def exProgress : DCols := ⟨[some [1], some [2], some [3]], [some [10], some [20]], none⟩
def exLater : DCols := ⟨[some [1], some [2], some [3], none], [some [10], some [20], some [30], none], some [true, true, true, false]⟩
example : exProgress.Ext exLater := by
  refine ⟨⟨[none], rfl⟩, ⟨[some [30], none], rfl⟩, ⟨[false], rfl⟩⟩
example : exProgress.rowView 1 = exLater.rowView 1 ∧ exProgress.rowView 1 = some (some ⟨[2], [20]⟩) := by
  refine ⟨DCols.rowView_ext _ _ ⟨⟨[none], rfl⟩, ⟨[some [30], none], rfl⟩, ⟨[false], rfl⟩⟩ 1 (by decide) (by decide) (by decide), by decide⟩
/-- … and the guard matters: at row 2 (post row not there yet) the in-progress view has nothing to show, the later one has the row -/
example : exProgress.rowView 2 = none ∧ exLater.rowView 2 = some (some ⟨[3], [30]⟩) := by decide
/-- items: offsets [0,1,3] over three item rows, later [0,1,3,3,4] over four -/
example : itemsView [0, 1, 3] [some [7], some [8], some [9]] 1 = itemsView [0, 1, 3, 3, 4] [some [7], some [8], some [9], some [5]] 1 :=
  itemsView_ext _ _ _ _ ⟨[3, 4], rfl⟩ ⟨[some [5]], rfl⟩ 1 (by decide) (by intro b hb; simp at hb; subst hb; decide)
end Peppi
