import Peppi.Lemmas.WriteSizes
/-! Writer side: the declared raw length is the actual one (counting lemma behind `raw_size`). -/
namespace Peppi
open Extracted

def countSome {α} (l : List (Option α)) : Nat := (l.filter Option.isSome).length

theorem countSome_cons {α} (a : Option α) (l : List (Option α)) : countSome (a :: l) = (if a.isSome then 1 else 0) + countSome l := by
  unfold countSome; cases a <;> simp [List.filter_cons]; omega

theorem presentFrom_length (c0 : Nat) (l : List (Option CharOcc)) : (presentFrom c0 l).length = countSome l := by
  induction l generalizing c0 with
  | nil => rfl
  | cons a t ih => cases a <;> simp [presentFrom, countSome_cons, ih (c0+1)]; omega

/-- `len - validity.unset_bits()` on an expected slot = number of frames in which the character is present -/
theorem valid_count (hist : List (Option CharOcc)) : hist.length - unsetBits (validOf hist) = countSome hist := by
  unfold validOf unsetBits
  by_cases hall : hist.all Option.isSome = true
  · simp only [hall, ↓reduceIte, Nat.sub_zero]
    unfold countSome
    rw [List.filter_eq_self.mpr (fun a ha => (List.all_eq_true.mp hall) a ha)]
  · simp only [hall, Bool.false_eq_true, ↓reduceIte]
    unfold countSome
    induction hist with
    | nil => simp
    | cons a t ih =>
      have : ((a :: t).map Option.isSome).filter (· == false) = (if a.isSome then [] else [false]) ++ (t.map Option.isSome).filter (· == false) := by
        cases a <;> simp [List.filter_cons]
      rw [this]
      cases a with
      | none =>
        simp only [Option.isSome_none, Bool.false_eq_true, ↓reduceIte, List.cons_append, List.nil_append, List.length_cons,
          List.filter_cons]
        by_cases ht : t.all Option.isSome = true
        · have : (t.map Option.isSome).filter (· == false) = [] := by
            apply List.filter_eq_nil_iff.mpr; intro b hb
            simp only [List.mem_map] at hb; obtain ⟨x, hx, rfl⟩ := hb
            simp [(List.all_eq_true.mp ht) x hx]
          rw [this, List.filter_eq_self.mpr (fun a ha => (List.all_eq_true.mp ht) a ha)]; simp
        · have := ih ht
          have hle : ((t.map Option.isSome).filter (· == false)).length ≤ t.length := by
            have := List.length_filter_le (· == false) (t.map Option.isSome); simpa using this
          omega
      | some x =>
        simp only [Option.isSome_some, ↓reduceIte, List.nil_append, List.length_cons, List.filter_cons]
        have ht : ¬ (t.all Option.isSome = true) := by intro h; apply hall; simp [h]
        have := ih ht
        have hle : ((t.map Option.isSome).filter (· == false)).length ≤ t.length := by
          have := List.length_filter_le (· == false) (t.map Option.isSome); simpa using this
        omega

theorem sum_map_add (n : Nat) (a b : Nat → Nat) :
    ((List.range n).map fun c => a c + b c).sum = ((List.range n).map a).sum + ((List.range n).map b).sum := by
  induction n with
  | zero => rfl
  | succ n ih => simp only [List.range_succ, List.map_append, List.sum_append, List.map_cons, List.map_nil, List.sum_cons, List.sum_nil, ih]; omega

/-- number of present characters of a frame, slot by slot -/
theorem countSome_range (l : List (Option CharOcc)) (n : Nat) (hn : l.length = n) :
    ((List.range n).map fun c => if ((l[c]?).join).isSome then 1 else 0).sum = countSome l := by
  subst hn
  induction l with
  | nil => rfl
  | cons a t ih =>
    rw [List.length_cons, List.range_succ_eq_map, List.map_cons, List.map_map, List.sum_cons, countSome_cons]
    have : ((List.range t.length).map ((fun c => if (((a :: t)[c]?).join).isSome then 1 else 0) ∘ Nat.succ)) =
        (List.range t.length).map fun c => if ((t[c]?).join).isSome then 1 else 0 := by
      apply List.map_congr_left; intro c _; simp
    rw [this, ih]
    cases a <;> simp

/-- total presence, counted per slot over the history = counted per frame -/
theorem presence_swap (n : Nat) (h : List FrameOcc) (hn : ∀ o ∈ h, o.chars.length = n) :
    ((List.range n).map fun c => countSome (histAt h c)).sum = (h.map fun o => countSome o.chars).sum := by
  induction h with
  | nil =>
    simp only [histAt, List.map_nil, countSome, List.filter_nil, List.length_nil, List.sum_nil]
    clear hn
    induction n with
    | zero => rfl
    | succ n ih => simp [List.range_succ, ih]
  | cons o t ih =>
    have : ((List.range n).map fun c => countSome (histAt (o :: t) c)) =
        (List.range n).map fun c => (if ((o.chars[c]?).join).isSome then 1 else 0) + countSome (histAt t c) := by
      apply List.map_congr_left; intro c _
      simp only [histAt, List.map_cons, countSome_cons]
    rw [this, sum_map_add, countSome_range o.chars n (hn o (by simp)), ih (fun o' ho' => hn o' (by simp [ho'])),
      List.map_cons, List.sum_cons]

#print axioms presence_swap
end Peppi

namespace Peppi
open Extracted

def portData (len : Nat) (p : PCols) : Nat :=
  (len - unsetBits p.leader.valid) + (match p.follower with | some d => len - unsetBits d.valid | none => 0)

theorem frameData_rebuild (len : Nat) (g : Nat → DCols) (shape : List PortOccupancy) :
    ∀ k, ((rebuild shape ((List.range' k (slotList shape 0).length).map g)).map (portData len)).sum =
      ((List.range' k (slotList shape 0).length).map fun c => len - unsetBits (g c).valid).sum := by
  induction shape with
  | nil => intro k; simp [rebuild, slotList]
  | cons p ps ih =>
    intro k
    have hsl : ∀ pi0, (slotList ps pi0).length = (slotList ps 0).length := by
      intro pi0; rw [slotList_length, slotList_length]
    cases hf : p.follower with
    | false =>
      have hn : (slotList (p :: ps) 0).length = (slotList ps 0).length + 1 := by simp [slotList, hf, hsl 1]
      rw [hn, List.range'_succ]
      simp only [List.map_cons, rebuild, hf, Bool.false_eq_true, ↓reduceIte, List.headD_cons, List.drop_succ_cons, List.drop_zero,
        List.sum_cons, portData, ih (k+1)]
      omega
    | true =>
      have hn : (slotList (p :: ps) 0).length = (slotList ps 0).length + 1 + 1 := by simp [slotList, hf, hsl 1]
      rw [hn, List.range'_succ, List.range'_succ]
      simp only [List.map_cons, rebuild, hf, ↓reduceIte, List.headD_cons, List.drop_succ_cons, List.drop_zero,
        List.sum_cons, portData]
      rw [show k + 1 + 1 = k + 2 from rfl, ih (k+2)]
      omega

/-- `frame_counts(...).frame_data` of the expected columns = number of (frame, character) pairs that are present -/
theorem frameData_A (v : Ver) (shape : List PortOccupancy) (h : List FrameOcc) (hn : ∀ o ∈ h, o.chars.length = nSlots shape) :
    (frameCounts (expFrames v shape h)).frameData = (h.map fun o => countSome o.chars).sum := by
  have h1 : (frameCounts (expFrames v shape h)).frameData = ((expPorts shape h).map (portData h.length)).sum := by
    simp only [frameCounts, expFrames, FCols.len, List.length_map]
    congr 1
  rw [h1]
  have h2 := frameData_rebuild h.length (fun c => colsOf (histAt h c)) shape 0
  simp only [expPorts, expFlat, nSlots, List.range_eq_range'] at h2 ⊢
  rw [h2]
  have h3 : ((List.range' 0 (slotList shape 0).length).map fun c => h.length - unsetBits (colsOf (histAt h c)).valid) =
      (List.range (nSlots shape)).map fun c => countSome (histAt h c) := by
    rw [List.range_eq_range', nSlots]
    apply List.map_congr_left
    intro c _
    have := valid_count (histAt h c)
    simp only [histAt, List.length_map] at this
    simpa [colsOf, histAt] using this
  rw [h3, presence_swap (nSlots shape) h hn]

theorem frameCounts_A (v : Ver) (shape : List PortOccupancy) (h : List FrameOcc) (h30 : v.gte 3 0 = true) :
    (frameCounts (expFrames v shape h)).frames = h.length ∧
    (frameCounts (expFrames v shape h)).items = (h.flatMap (·.items)).length := by
  simp [frameCounts, expFrames, FCols.len, h30]

#print axioms frameData_A
end Peppi

namespace Peppi
open Extracted

theorem charEvents_length (post : Bool) (v : Ver) (id : Int) (sl : List (Nat × Bool × Nat)) (present : List (Nat × CharOcc))
    (hp : ∀ co ∈ present, co.1 < sl.length ∧ OccOK v co.2) :
    (encEvents (charEvents post v id sl present)).length =
      present.length * (7 + rowSize v (if post then Post.readPush else Pre.readPush)) := by
  induction present with
  | nil => simp [charEvents, encEvents]
  | cons co t ih =>
    obtain ⟨hc, hocc⟩ := hp co (by simp)
    simp only [charEvents, List.map_cons, encEvents_cons, List.length_append, List.length_cons]
    have := ih (fun co' h' => hp co' (by simp [h']))
    simp only [charEvents] at this
    rw [this]
    have hlen : (encEvent (charEvent post v id sl co)).length = 7 + rowSize v (if post then Post.readPush else Pre.readPush) := by
      simp only [charEvent, List.getElem?_eq_getElem hc]
      cases post with
      | true => simp only [↓reduceIte, encEvent, List.length_cons, encChar_length _ _ _ _ _ _ hocc.2]; omega
      | false => simp only [Bool.false_eq_true, ↓reduceIte, encEvent, List.length_cons, encChar_length _ _ _ _ _ _ hocc.1]; omega
    rw [hlen, Nat.succ_mul]
    omega

/-- encoded size of one frame -/
theorem frameEventsA_length (v : Ver) (shape : List PortOccupancy) (o : FrameOcc) (ho : o.OK v (nSlots shape)) :
    (encEvents (frameEventsA v shape o)).length =
      (5 + rowSize v Start.readPush) + countSome o.chars * (7 + rowSize v Pre.readPush) + o.items.length * (5 + rowSize v Item.readPush)
        + countSome o.chars * (7 + rowSize v Post.readPush) + (5 + rowSize v End.readPush) := by
  have hp : ∀ co ∈ presentFrom 0 o.chars, co.1 < (slotList shape 0).length ∧ OccOK v co.2 := presentFrom_ok v (nSlots shape) o ho
  have hitems : (encEvents (o.items.map fun r => (EV_ITEM, encPlain v Item.readPush o.id r))).length = o.items.length * (5 + rowSize v Item.readPush) := by
    have : ∀ (l : List Row), (∀ r ∈ l, RowOK v Item.readPush r) →
        (encEvents (l.map fun r => (EV_ITEM, encPlain v Item.readPush o.id r))).length = l.length * (5 + rowSize v Item.readPush) := by
      intro l
      induction l with
      | nil => intro _; simp [encEvents]
      | cons r t ih =>
        intro hl
        simp only [List.map_cons, encEvents_cons, List.length_append, encEvent, List.length_cons,
          encPlain_length _ _ _ _ (hl r (by simp)), ih (fun r' h' => hl r' (by simp [h'])), Nat.succ_mul]
        omega
    exact this o.items ho.items
  simp only [frameEventsA, encEvents_append, encEvents_cons, encEvents_nil, List.append_nil, List.length_append, encEvent,
    List.length_cons, encPlain_length _ _ _ _ ho.start, encPlain_length _ _ _ _ ho.fend,
    charEvents_length false v o.id _ _ hp, charEvents_length true v o.id _ _ hp, hitems, presentFrom_length,
    Bool.false_eq_true, ↓reduceIte]
  omega

/-- encoded size of all frames -/
theorem framesA_length (v : Ver) (shape : List PortOccupancy) (h : List FrameOcc) (hok : ∀ o ∈ h, o.OK v (nSlots shape)) :
    (encEvents (h.flatMap (frameEventsA v shape))).length =
      h.length * (5 + rowSize v Start.readPush) + (h.map fun o => countSome o.chars).sum * (7 + rowSize v Pre.readPush)
        + (h.flatMap (·.items)).length * (5 + rowSize v Item.readPush)
        + (h.map fun o => countSome o.chars).sum * (7 + rowSize v Post.readPush) + h.length * (5 + rowSize v End.readPush) := by
  induction h with
  | nil => simp [encEvents]
  | cons o t ih =>
    rw [List.flatMap_cons, encEvents_append, List.length_append, frameEventsA_length v shape o (hok o (by simp)),
      ih (fun o' h' => hok o' (by simp [h']))]
    simp only [List.length_cons, List.map_cons, List.sum_cons, List.flatMap_cons, List.length_append, Nat.add_mul, Nat.succ_mul]
    omega

#print axioms framesA_length
end Peppi
