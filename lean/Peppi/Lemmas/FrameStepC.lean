import Peppi.Lemmas.FrameStepB
/-! Per-frame theorem for version < 2.2: no Frame Start; the first pre-frame event with the next id closes the previous
    frame and opens the next one (this is where defect D1 was). -/
namespace Peppi
open Extracted

/-- canonical event order of one frame, version < 2.2 -/
def frameEventsC (v : Ver) (shape : List PortOccupancy) (o : FrameOcc) : List (Nat × Bytes) :=
  charEvents false v o.id (slotList shape 0) (presentFrom 0 o.chars) ++
  charEvents true v o.id (slotList shape 0) (presentFrom 0 o.chars)

/-- a pre-frame event carrying the next id acts as if the frame had been closed and the next one opened first -/
theorem pre_first_eq (st : PState) (id : Int) (port : Nat) (fol : Bool) (row : Row)
    (hid : I32 id) (hport : port < 256) (hv : st.start.version.gte 2 2 = false)
    (hnext : st.lastId.getD (FIRST_INDEX - 1) + 1 = id) :
    handleEvent st EV_FRAME_PRE (encChar st.start.version Pre.readPush id port fol row) =
      handleEvent { st with frames := { st.frames.close with id := st.frames.id ++ [id] } } EV_FRAME_PRE
        (encChar st.start.version Pre.readPush id port fol row) := by
  unfold handleEvent encChar
  simp only [EV_FRAME_POST, EV_PAYLOADS, EV_SPLITTER, EV_GECKO, EV_GAME_START, EV_GAME_END, EV_FRAME_START, EV_FRAME_PRE,
    Nat.reduceEqDiff, ↓reduceIte]
  rw [i32At_enc id hid]
  have hp : (UInt8.ofNat port).toNat = port := by simp [UInt8.toNat_ofNat']; omega
  have hf : ((if fol then (1 : UInt8) else 0) != 0) = fol := by cases fol <;> rfl
  have hlen : ¬ ((writeRow st.start.version Pre.readPush row).length + 1 + 1 < 2) := by omega
  have hle : id ≤ 2147483647 := by unfold I32 at hid; omega
  have hne : ¬ (id + 1 ≤ 2147483647 ∧ id + 1 = id) := by omega
  have hslot := slotIdx_close st port fol id
  have hlast' : ({ st with frames := { st.frames.close with id := st.frames.id ++ [id] } } : PState).lastId = some id := by
    simp [PState.lastId]
  simp only [bind, pure, List.cons_append, List.nil_append, List.length_cons, List.getD_cons_zero, List.getD_cons_succ,
    List.drop_succ_cons, List.drop_zero, hp, hf, ↓reduceIte, hlen, hv, Bool.false_eq_true, hnext, hle, and_self, hslot,
    hlast', Option.getD_some, hne, PState.expectId]

/-- the frame step, version < 2.2 -/
theorem frame_step_C (v : Ver) (shape : List PortOccupancy) (h : List FrameOcc) (o : FrameOcc) (st : PState)
    (hv : st.start.version = v) (h30 : v.gte 3 0 = false) (h22 : v.gte 2 2 = false)
    (hinv : OpenInv v shape h st.frames)
    (hmap : PortMapOK st.portIdx shape) (hports : ∀ p ∈ shape, p.port < 256)
    (ho : o.OK v (nSlots shape))
    (hnext : ((h.map (·.id)).getLast?).getD (FIRST_INDEX - 1) + 1 = o.id)
    (hne : presentFrom 0 o.chars ≠ []) :
    ∃ st', runEvents st (frameEventsC v shape o) = .ok st' ∧ st'.ctx = st.ctx ∧ st'.fend = st.fend ∧ st'.gecko = st.gecko ∧
      st'.metadata = st.metadata ∧ st'.doubleGameEnd = st.doubleGameEnd ∧ OpenInv v shape (h ++ [o]) st'.frames := by
  obtain ⟨hid, hst, hfe, hio, hit, hcl⟩ := hinv
  obtain ⟨hshape, hflat⟩ := expPorts_shape shape h
  obtain ⟨cs2, hrun, hpad⟩ := slots_frame_step (nSlots shape) (histAt h) h.length (by intro c; simp [histAt]) o.chars ho.chars
  rw [runChars_append] at hrun
  cases hcs1 : runChars ((List.range (nSlots shape)).map fun c => colsOf (histAt h c)) (preC 0 o.chars) with
  | none => simp [hcs1] at hrun
  | some cs1 =>
  simp only [hcs1, Option.bind_some] at hrun
  -- the state "as if" the frame had been closed and the next one opened
  let s1 : PState := { st with frames := { st.frames.close with id := st.frames.id ++ [o.id] } }
  have hs1ports : s1.frames.ports = expPorts shape h := hcl
  have hs1last : s1.lastId = some o.id := by simp [s1, PState.lastId]
  -- the first pre event behaves the same from `st` and from `s1`
  have hfirst : runEvents st (charEvents false v o.id (slotList shape 0) (presentFrom 0 o.chars)) =
      runEvents s1 (charEvents false v o.id (slotList shape 0) (presentFrom 0 o.chars)) := by
    cases hpf : presentFrom 0 o.chars with
    | nil => exact absurd hpf hne
    | cons co rest =>
      obtain ⟨hc, _⟩ := presentFrom_ok v (nSlots shape) o ho co (by rw [hpf]; simp)
      obtain ⟨d, hd⟩ : ∃ d, (slotList shape 0)[co.1]? = some d := ⟨_, List.getElem?_eq_getElem hc⟩
      obtain ⟨_, hpi, _, _, hport⟩ := slotList_index (expPorts shape h) 0 co.1 d (by rw [hshape]; exact hd)
      have hp256 : d.2.2 < 256 := by
        simp only [Nat.sub_zero] at hpi hport
        have hpc : (expPorts shape h)[d.1]? = some ((expPorts shape h)[d.1]) := List.getElem?_eq_getElem hpi
        have hpn : ((expPorts shape h)[d.1]).port = d.2.2 := by simpa [hpc] using hport
        rw [← hpn]; exact mem_ports_of_shape _ shape hshape hports _ (List.getElem_mem _)
      simp only [charEvents, List.map_cons, runEvents, charEvent, hd, Bool.false_eq_true, ↓reduceIte]
      have := pre_first_eq st o.id d.2.2 d.2.1 co.2.pre ho.id hp256 (by rw [hv]; exact h22)
        (by simp only [PState.lastId, hid]; exact hnext)
      rw [hv] at this
      rw [this]
  -- pre events from `s1`
  obtain ⟨P1, eP1, hP1s, hP1f⟩ := run_char_events false o.id ho.id (presentFrom 0 o.chars) s1 cs1 hs1last
    (by rw [hs1ports, hshape]; exact hmap)
    (by rw [hs1ports]; exact mem_ports_of_shape _ shape hshape hports)
    (by intro co hco; rw [hs1ports, hshape]; show _ ∧ OccOK st.start.version co.2; rw [hv]; exact presentFrom_ok v (nSlots shape) o ho co hco)
    (by rw [hs1ports, hflat, charCEvs_pre]; exact hcs1)
  rw [hs1ports, hshape, show s1.start.version = v from hv] at eP1
  let s2 : PState := { s1 with frames := { s1.frames with ports := P1 } }
  -- post events
  obtain ⟨P2, eP2, hP2s, hP2f⟩ := run_char_events true o.id ho.id (presentFrom 0 o.chars) s2 cs2
    (by simp [s2, s1, PState.lastId])
    (by show PortMapOK st.portIdx (shapeOf P1); rw [hP1s, hs1ports, hshape]; exact hmap)
    (by show ∀ p ∈ P1, p.port < 256; exact mem_ports_of_shape _ shape (by rw [hP1s, hs1ports, hshape]) hports)
    (by
      intro co hco
      show co.1 < (slotList (shapeOf P1) 0).length ∧ OccOK st.start.version co.2
      rw [hP1s, hs1ports, hshape, hv]
      exact presentFrom_ok v (nSlots shape) o ho co hco)
    (by show runChars (flatSlots P1) _ = _; rw [hP1f, charCEvs_post]; exact hrun)
  have hP2shape : shapeOf P2 = shape := by rw [hP2s]; show shapeOf P1 = shape; rw [hP1s, hs1ports, hshape]
  have eP2' : runEvents s2 (charEvents true v o.id (slotList shape 0) (presentFrom 0 o.chars)) =
      .ok { s2 with frames := { s2.frames with ports := P2 } } := by
    have : shapeOf s2.frames.ports = shape := by show shapeOf P1 = shape; rw [hP1s, hs1ports, hshape]
    rw [this, show s2.start.version = v from hv] at eP2
    exact eP2
  refine ⟨{ s2 with frames := { s2.frames with ports := P2 } }, ?_, rfl, rfl, rfl, rfl, rfl, ?_⟩
  · unfold frameEventsC
    rw [runEvents_append, hfirst, eP1]
    simp only []
    exact eP2'
  · have hclose : (List.map (fun p : PCols => ({ p with leader := p.leader.padTo (h.length + 1), follower := p.follower.map (·.padTo (h.length + 1)) } : PCols)) P2)
        = expPorts shape (h ++ [o]) := by
      apply ports_ext
      · rw [(expPorts_shape shape (h ++ [o])).1, ← hP2shape]
        unfold shapeOf
        simp only [List.map_map]
        apply List.map_congr_left
        intro p _
        simp only [Function.comp, PortOccupancy.mk.injEq, true_and]
        cases p.follower <;> simp
      · have hm := flatSlots_map P2 (fun x => x.padTo (h.length + 1))
        rw [hm, hP2f, (expPorts_shape shape (h ++ [o])).2, hpad]
        unfold expFlat
        apply List.map_congr_left
        intro c _
        rw [histAt_snoc]
    refine ⟨by simp [s2, s1, hid], ?_, ?_, ?_, ?_, ?_⟩
    · show st.frames.close.start = _; simp [FCols.close, hst, expFrames, h22]
    · show st.frames.close.fend = _; simp [FCols.close, hfe, expFrames, h30]
    · show st.frames.close.itemOff = _; simp [FCols.close, hio, expFrames, h30]
    · show st.frames.close.item = _; simp [FCols.close, hit, expFrames, h30]
    · rw [close_ports]
      show List.map _ P2 = _
      have : (st.frames.id ++ [o.id]).length = h.length + 1 := by simp [hid]
      simp only [s2, s1, this]
      exact hclose

#print axioms frame_step_C
end Peppi
