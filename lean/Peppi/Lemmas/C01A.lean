import Peppi.Lemmas.WriteCount
/-! C01 at file level, regime ≥ 3.0 without Gecko block: write (read (encode r)) = encode r. -/
namespace Peppi
open Extracted

theorem sizeOfEv_mem (t : List (Nat × Nat)) (hnd : (t.map Prod.fst).Nodup) (c s : Nat) (hmem : (c, s) ∈ t) :
    sizeOfEv t c = some s := by
  have hnd' : (t.reverse.map Prod.fst).Nodup := by
    rw [List.map_reverse, List.nodup_iff_pairwise_ne, List.pairwise_reverse]
    rw [List.nodup_iff_pairwise_ne] at hnd
    exact hnd.imp (fun h => Ne.symm h)
  have := sizeOfEv_reverse t.reverse hnd' c s (by simpa using hmem)
  simpa using this

theorem endEvents_length (r : Replay) (s : Start) (ge : Option End) (hge : r.fend.map gameEnd = ge.map Res.ok) :
    (encEvents r.endEvents).length = endPart ge.isSome r.doubled (r.endLen s.version) := by
  unfold Replay.endEvents Replay.endLen endPart
  cases hf : r.fend with
  | none =>
    rw [hf] at hge
    cases ge with
    | none => simp [encEvents]
    | some _ => simp at hge
  | some e =>
    rw [hf] at hge
    cases ge with
    | none => simp at hge
    | some g =>
      cases hd : r.doubled <;> simp [encEvents_cons, encEvents_nil, encEvent] <;> omega

/-- pure arithmetic behind `raw_size` -/
theorem rawSize_arith (n fd it sl ep a b c d e : Nat) :
    1 + 1 + 3 * 7 + 1 + sl + ep + fd * (1 + (6 + a)) + fd * (1 + (6 + b)) + n * (1 + (4 + c)) + n * (1 + (4 + e)) + it * (1 + (4 + d)) + 0 =
    2 + 21 + (1 + sl) + (n * (5 + c) + fd * (7 + a) + it * (5 + d) + fd * (7 + b) + n * (5 + e)) + ep := by
  simp only [Nat.mul_add, Nat.mul_one]
  omega

/-- `raw_size`: the declared length is the length of the raw element that is actually written -/
theorem rawSize_A (T : TextOracle) (r : Replay) (s : Start) (h : r.WF T s) (ge : Option End)
    (hge : r.fend.map gameEnd = ge.map Res.ok) :
    rawSize (canonTable s.version r.startBlock.length (r.endLen s.version)) (r.game s ge) =
      .ok (r.raw s.version (portOccupancy s)).length := by
  have hnd := canonTable_nodup s.version r.startBlock.length (r.endLen s.version)
  have look : ∀ c sz, (c, sz) ∈ canonTable s.version r.startBlock.length (r.endLen s.version) →
      sizeOfEv (canonTable s.version r.startBlock.length (r.endLen s.version)) c = some sz := fun c sz hm => sizeOfEv_mem _ hnd c sz hm
  have hn : ∀ o ∈ r.frames, o.chars.length = nSlots (portOccupancy s) := fun o ho => (h.frames o ho).chars
  have hfd := frameData_A s.version (portOccupancy s) r.frames hn
  obtain ⟨hfr, hit⟩ := frameCounts_A s.version (portOccupancy s) r.frames h.v30
  have hlen := framesA_length s.version (portOccupancy s) r.frames h.frames
  have hrl := raw_length r s.version (portOccupancy s)
  have hend := endEvents_length r s ge hge
  have hraw := h.rawLen
  have g1 : getSize (canonTable s.version r.startBlock.length (r.endLen s.version)) EV_GAME_START = .ok r.startBlock.length := by
    simp [getSize, look _ _ (show (EV_GAME_START, r.startBlock.length) ∈ _ by simp [canonTable])]
  have g2 : getSize (canonTable s.version r.startBlock.length (r.endLen s.version)) EV_GAME_END = .ok (r.endLen s.version) := by
    simp [getSize, look _ _ (show (EV_GAME_END, r.endLen s.version) ∈ _ by simp [canonTable])]
  have g3 : getSize (canonTable s.version r.startBlock.length (r.endLen s.version)) EV_FRAME_PRE = .ok (6 + rowSize s.version Pre.readPush) := by
    simp [getSize, look _ _ (show (EV_FRAME_PRE, 6 + rowSize s.version Pre.readPush) ∈ _ by simp [canonTable])]
  have g4 : getSize (canonTable s.version r.startBlock.length (r.endLen s.version)) EV_FRAME_POST = .ok (6 + rowSize s.version Post.readPush) := by
    simp [getSize, look _ _ (show (EV_FRAME_POST, 6 + rowSize s.version Post.readPush) ∈ _ by simp [canonTable])]
  have o1 : ∀ k, optSize (canonTable s.version r.startBlock.length (r.endLen s.version)) EV_FRAME_START k = k * (1 + (4 + rowSize s.version Start.readPush)) := by
    intro k; simp [optSize, look _ _ (show (EV_FRAME_START, 4 + rowSize s.version Start.readPush) ∈ _ by simp [canonTable])]
  have o2 : ∀ k, optSize (canonTable s.version r.startBlock.length (r.endLen s.version)) EV_FRAME_END k = k * (1 + (4 + rowSize s.version End.readPush)) := by
    intro k; simp [optSize, look _ _ (show (EV_FRAME_END, 4 + rowSize s.version End.readPush) ∈ _ by simp [canonTable])]
  have o3 : ∀ k, optSize (canonTable s.version r.startBlock.length (r.endLen s.version)) EV_ITEM k = k * (1 + (4 + rowSize s.version Item.readPush)) := by
    intro k; simp [optSize, look _ _ (show (EV_ITEM, 4 + rowSize s.version Item.readPush) ∈ _ by simp [canonTable])]
  have htl : (canonTable s.version r.startBlock.length (r.endLen s.version)).length = 7 := rfl
  have hdbl : ((r.game s ge).doubleGameEnd.getD false) = r.doubled := by
    simp only [Replay.game]; cases r.doubled <;> rfl
  unfold rawSize
  simp only [bind, g1, g2, g3, g4, o1, o2, o3, htl, hdbl, pure]
  simp only [Replay.game, hfd, hfr, hit]
  rw [rawSize_arith, ← hlen, ← hend, ← hrl]
  simp only [show (256:Nat)^4 = 2^32 from rfl] at hraw
  simp only [hraw, ↓reduceIte]

#print axioms rawSize_A
end Peppi

namespace Peppi
open Extracted

theorem toBE2 (x : Nat) (h : x < 65536) : toBE 2 x = [UInt8.ofNat (x / 256), UInt8.ofNat (x % 256)] := by
  simp only [toBE, Nat.pow_one, Nat.pow_zero, Nat.div_one, Nat.mod_one]

theorem table_bytes (t : List (Nat × Nat)) (ht : TableOK t) :
    (t.flatMap fun e => [UInt8.ofNat e.1] ++ toBE 2 e.2) = encTable t := by
  induction t with
  | nil => rfl
  | cons e es ih =>
    have := ht e (by simp)
    simp only [List.flatMap_cons, encTable, encEntry, toBE2 e.2 this.2.2, List.cons_append, List.nil_append] at ih ⊢
    rw [ih (fun e' he' => ht e' (by simp [he']))]

theorem endBytes (r : Replay) (ge : Option End) (hge : r.fend.map gameEnd = ge.map Res.ok) :
    endBytesOf ge r.doubled = encEvents r.endEvents := by
  unfold Replay.endEvents endBytesOf
  cases hf : r.fend with
  | none =>
    rw [hf] at hge
    cases ge with
    | none => rfl
    | some _ => simp at hge
  | some e =>
    rw [hf] at hge
    cases ge with
    | none => simp at hge
    | some g =>
      simp only [Option.map_some, Option.some.injEq] at hge
      have hb := gameEnd_bytes e g hge
      have c : (UInt8.ofNat EV_GAME_END) = 0x39 := by decide
      cases hd : r.doubled <;> simp [encEvents_cons, encEvents_nil, encEvent, hb, c]

def metaEnc (md : Option KVs) : Bytes := match md with | some m => [0x55] ++ METADATA_KEY ++ encKVs m ++ [0x7d] | none => []

theorem tail_eq (r : Replay) : r.tail = metaEnc r.metadata ++ [0x7d] := by
  unfold Replay.tail metaEnc; cases r.metadata <;> rfl

theorem writeMeta_A (T : TextOracle) (md : Option KVs) (hwf : ∀ m, md = some m → KVs.WF T.utf8Ok 1 m) :
    writeMeta md = .ok (metaEnc md) := by
  unfold writeMeta metaEnc
  cases md with
  | none => rfl
  | some m => simp only [bind, writeMap_enc T.utf8Ok m 1 (hwf m rfl), pure]

/-- **Write half of C01 (≥ 3.0, no Gecko block).** Serialising the game a well-formed replay denotes gives its canonical file. -/
theorem write_game_A (T : TextOracle) (r : Replay) (s : Start) (h : r.WF T s) (hmax : assertMaxVersion s.version = .ok ())
    (ge : Option End) (hge : r.fend.map gameEnd = ge.map Res.ok) :
    writeSlp (r.game s ge) = .ok (r.encode s.version (portOccupancy s)) := by
  have ht : TableOK (canonTable s.version r.startBlock.length (r.endLen s.version)) :=
    canonTable_ok _ _ _ h.startLen h.endLenOK (rows_bounded _)
  have hn : ∀ o ∈ r.frames, o.chars.length = nSlots (portOccupancy s) := fun o ho => (h.frames o ho).chars
  have hdbl : ((r.game s ge).doubleGameEnd.getD false) = r.doubled := by
    simp only [Replay.game]; cases r.doubled <;> rfl
  unfold writeSlp
  simp only [bind, show (r.game s ge).start.version = s.version from rfl, hmax, payloadSizes_A T r s h ge hge, rawSize_A T r s h ge hge,
    table_bytes _ ht, pure]
  simp only [hdbl]
  simp only [Replay.game, writeFrames_A s.version (portOccupancy s) r.frames h.v30 h.v22 hn, writeMeta_A T r.metadata h.metadata,
    endBytes r ge hge, gameStart_bytes T _ s h.start]
  simp only [Replay.encode, Replay.raw, tail_eq, encEvent, List.append_assoc, List.cons_append, List.nil_append, Res.ok.injEq]
  have c : (UInt8.ofNat EV_GAME_START) = 0x36 := by decide
  have c2 : (canonTable s.version r.startBlock.length (r.endLen s.version)).length * 3 + 1 = 3 * (canonTable s.version r.startBlock.length (r.endLen s.version)).length + 1 := by omega
  rw [c, c2]

/-- **C01 (≥ 3.0, no Gecko block).** Reading the canonical file of a well-formed replay and writing the parsed game back
    reproduces the file byte for byte. -/
theorem C01_A (T : TextOracle) (r : Replay) (s : Start) (h : r.WF T s) (hmax : assertMaxVersion s.version = .ok ()) :
    ∃ g, readSlp T {} (r.encode s.version (portOccupancy s)) = .ok g ∧ writeSlp g = .ok (r.encode s.version (portOccupancy s)) := by
  obtain ⟨ge, hge, hread⟩ := read_encode_A T r s h
  exact ⟨r.game s ge, hread, write_game_A T r s h hmax ge hge⟩

#print axioms C01_A
end Peppi
