import Peppi.Arrow
/-! Rows ↔ columns for one generated struct: the core of C13 (row view = columns at the same index) and of C14
    (`from_struct_array ∘ into_struct_array = id`, insensitive to the validity normalisation Arrow IPC performs). -/
namespace Peppi

/-- the primitive columns of a struct with `n` visible leaves (null slots hold 0, as `push_null` stores `T::default()`) -/
def toCols (n : Nat) (rows : SCols) : List (List Nat) := (List.range n).map (leafCol rows)

/-- rebuild the rows from columns and a validity bitmap (`None` = all valid) -/
def fromCols (len : Nat) (cols : List (List Nat)) (valid : Option (List Bool)) : SCols :=
  (List.range len).map fun i =>
    if (match valid with | none => true | some bs => bs.getD i true) then some (cols.map fun c => c.getD i 0) else none

/-- all present rows have exactly `n` values -/
def RowsOK (n : Nat) (rows : SCols) : Prop := ∀ r ∈ rows, ∀ vs, r = some vs → vs.length = n

theorem leafCol_getD (rows : SCols) (k i : Nat) (hi : i < rows.length) :
    (leafCol rows k).getD i 0 = match rows[i] with | some vs => vs.getD k 0 | none => 0 := by
  simp only [leafCol, List.getD_eq_getElem?_getD, List.getElem?_map, List.getElem?_eq_getElem hi, Option.map_some, Option.getD_some]
  cases rows[i] <;> rfl

/-- **C13 core**: the row view at index `i` is the `i`-th entry of every column -/
theorem toCols_row (n : Nat) (rows : SCols) (hok : RowsOK n rows) (i : Nat) (hi : i < rows.length) (vs : List Nat)
    (hr : rows[i] = some vs) : (toCols n rows).map (fun c => c.getD i 0) = vs := by
  have hl : vs.length = n := hok _ (List.getElem_mem hi) vs hr
  apply List.ext_getElem
  · simp [toCols, hl]
  · intro k h1 h2
    simp only [toCols, List.map_map, List.getElem_map, List.getElem_range, Function.comp]
    rw [leafCol_getD rows k i hi, hr]
    simp only [List.length_map, List.length_range, toCols] at h1
    simp [List.getD_eq_getElem?_getD, List.getElem?_eq_getElem h2]

theorem validOfRows_getD (rows : SCols) (i : Nat) (hi : i < rows.length) :
    (match validOfRows rows with | none => true | some bs => bs.getD i true) = rows[i].isSome := by
  unfold validOfRows
  by_cases hall : rows.all Option.isSome = true
  · simp only [hall, ↓reduceIte]
    exact (List.all_eq_true.mp hall rows[i] (List.getElem_mem hi)).symm
  · simp only [hall, Bool.false_eq_true, ↓reduceIte, List.getD_eq_getElem?_getD, List.getElem?_map,
      List.getElem?_eq_getElem hi, Option.map_some, Option.getD_some]

/-- **C14 core**: columns + lazily created validity determine the rows -/
theorem fromCols_toCols (n : Nat) (rows : SCols) (hok : RowsOK n rows) :
    fromCols rows.length (toCols n rows) (validOfRows rows) = rows := by
  apply List.ext_getElem
  · simp [fromCols]
  · intro i h1 h2
    simp only [fromCols, List.getElem_map, List.getElem_range]
    rw [validOfRows_getD rows i h2]
    cases hr : rows[i] with
    | none => simp
    | some vs => simp only [Option.isSome_some, ↓reduceIte]; rw [toCols_row n rows hok i h2 vs hr]

/-- Arrow IPC drops an all-set validity bitmap: the import does not notice -/
theorem fromCols_allset (len : Nat) (cols : List (List Nat)) :
    fromCols len cols (some (List.replicate len true)) = fromCols len cols none := by
  apply List.ext_getElem
  · simp [fromCols]
  · intro i h1 h2
    simp only [fromCols, List.getElem_map, List.getElem_range]
    have hil : i < len := by simpa [fromCols] using h2
    have : (List.replicate len true).getD i true = true := by
      simp [List.getD_eq_getElem?_getD, List.getElem?_replicate, hil]
    simp only [this, ↓reduceIte]

#print axioms fromCols_toCols
end Peppi
