import Peppi.Lemmas.ReadEncode
/-! The event loop on the canonical event stream of a well-formed replay (≥ 3.0, no Gecko). -/
namespace Peppi
open Extracted

theorem events_le_bytes (es : List (Nat × Bytes)) : es.length ≤ (encEvents es).length := by
  induction es with
  | nil => simp
  | cons e es ih => rw [encEvents_cons]; simp [encEvent]; omega

/-- the state after `parse_start` -/
def ps0 (r : Replay) (s : Start) : ParseState :=
  let v := s.version
  let t := canonTable v r.startBlock.length (r.endLen v)
  { st := { sizes := t.reverse, splitRaw := [], splitActual := 0, portIdx := portIdxOf (portOccupancy s), start := s,
            fend := none, frames := FCols.new v (portOccupancy s), metadata := none, gecko := none, doubleGameEnd := none },
    bytesRead := 1 + (3 * t.length + 1) + r.startBlock.length + 1 }

/-- …and after all frame events -/
def psFrames (r : Replay) (s : Start) : ParseState :=
  { st := { (ps0 r s).st with frames := expFrames s.version (portOccupancy s) r.frames },
    bytesRead := (ps0 r s).bytesRead + (encEvents (r.frames.flatMap (frameEventsA s.version (portOccupancy s)))).length }

/-- the frame part of the loop -/
theorem loop_frames (T : TextOracle) (r : Replay) (s : Start) (h : r.WF T s) (rawLen fuel : Nat) (rest : Bytes)
    (hfuel : (r.frames.flatMap (frameEventsA s.version (portOccupancy s))).length ≤ fuel)
    (hraw : rawLen = 0 ∨ (psFrames r s).bytesRead ≤ rawLen) :
    eventLoop (fuel + 1) rawLen (ps0 r s) (encEvents (r.frames.flatMap (frameEventsA s.version (portOccupancy s))) ++ rest) =
      eventLoop (fuel + 1 - (r.frames.flatMap (frameEventsA s.version (portOccupancy s))).length) rawLen (psFrames r s) rest := by
  have hrun := frames_A s.version (portOccupancy s) [] r.frames (ps0 r s).st rfl h.v30 h.v22
    (by simp [ps0, FCols_new_eq]) h.portMap h.ports h.frames
  simp only [List.nil_append] at hrun
  have := eventLoop_run rawLen (r.frames.flatMap (frameEventsA s.version (portOccupancy s))) fuel (ps0 r s) _ rest hfuel
    (by
      intro e he
      obtain ⟨o, ho, heo⟩ := List.mem_flatMap.mp he
      exact frameEventsA_sizes s.version (portOccupancy s) o (h.frames o ho) _ _ e heo)
    hrun (by simpa [psFrames] using hraw)
  rw [this]
  rfl

#print axioms loop_frames
end Peppi
