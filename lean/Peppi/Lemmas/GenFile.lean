import Peppi.Lemmas.Unified
import Peppi.Lemmas.C17Junk
/-! One file-level read theorem for every framing regime and every tolerated irregularity.

    A `.slp` file is: signature, declared raw length, payload table `t`, Game Start, a *middle* (`mid`: everything between Game
    Start and Game End — Gecko blocks, frame events in any order, unknown events, longer payloads), optionally Game End, optionally
    extra bytes up to the declared raw length (a duplicated Game End is the special case that looks like one), metadata, `}`.
    What the reader needs from the middle is stated once, as `MidRun`: the event loop, started in the state after `parse_start`,
    consumes `mid` and reaches a state `psF` without touching `fend`/`metadata`/`quirks`.  The theorem `readP_gen` then gives the
    game; the regime-specific theorems (`readP_encode_A/B/C/G`, unknown events, permutations, junk) are instances of the
    pattern, and the new instances (unknown events and junk in the regimes below 3.0 and with a Gecko block, longer payloads)
    are derived from it in `GenInst.lean`. -/
namespace Peppi
open Extracted

/-- what `read` does right after the loop: close the dangling frame below 3.0 -/
def PState.closed (st : PState) : PState :=
  if st.start.version.lt 3 0 then { st with frames := st.frames.close } else st

/-- the duplicated-Game-End test applied to the bytes between the end of the loop and the declared raw length -/
def dgeOf (v : Ver) (x : Bytes) (old : Option Bool) : Option Bool :=
  if x.length = 1 + endSize v ∧ x.head? = some 0x39 then some true else old

/-- `readTail`, general form: `x` are the bytes left in the raw element when the loop stops -/
theorem readTail_gen (T : TextOracle) (rawLen : Nat) (ps : ParseState) (md : Option KVs) (x : Bytes)
    (hbr : ps.bytesRead + x.length = rawLen) (hmd : ps.st.metadata = none)
    (hwf : ∀ m, md = some m → KVs.WF T.utf8Ok 1 m) :
    readTail T rawLen ps (x ++ metaBytes md) =
      .ok (gameOf ps.st.closed md (dgeOf ps.st.start.version x ps.st.doubleGameEnd), []) := by
  have hstart : ps.st.closed.start = ps.st.start := by unfold PState.closed; split <;> rfl
  have hmd' : ps.st.closed.metadata = none := by unfold PState.closed; split <;> exact hmd
  have hdge : ps.st.closed.doubleGameEnd = ps.st.doubleGameEnd := by unfold PState.closed; split <;> rfl
  have hcl : (if ps.st.start.version.lt 3 0 then { ps.st with frames := ps.st.frames.close } else ps.st) = ps.st.closed := rfl
  unfold readTail
  simp only [hcl]
  rw [← hstart]
  generalize ps.st.closed = q at *
  by_cases hx : x.length = 0
  · have hnil : x = [] := List.length_eq_zero_iff.mp hx
    subst hnil
    have hnlt : ¬ ps.bytesRead < rawLen := by simp at hbr; omega
    simp only [hnlt, ↓reduceIte, List.nil_append]
    have := readMeta T q md hmd' hwf
    simp only [bind, pure] at this ⊢
    rw [this]
    simp [dgeOf, hdge]
  · have hlt : ps.bytesRead < rawLen := by omega
    have hlen : rawLen - ps.bytesRead = x.length := by omega
    simp only [hlt, ↓reduceIte, hlen]
    have htake : Rd.take x.length (x ++ metaBytes md) = .ok (x, metaBytes md) := by
      simp only [Rd.take, List.length_append]
      have : ¬ (x.length + (metaBytes md).length < x.length) := by omega
      simp only [this, ↓reduceIte, List.take_left' rfl, List.drop_left' rfl]
    simp only [bind, pure]
    rw [htake]
    simp only []
    by_cases hc : x.length = 1 + endSize q.start.version ∧ x.head? = some 0x39
    · simp only [hc, and_self, ↓reduceIte]
      have := readMeta T { q with doubleGameEnd := some true } md hmd' hwf
      simp only [bind, pure] at this
      rw [this]
      simp [dgeOf, hc, gameOf]
    · simp only [hc, ↓reduceIte]
      have := readMeta T q md hmd' hwf
      simp only [bind, pure] at this
      rw [this]
      simp [dgeOf, hc, hdge]

/-- the event loop, started in `ps0` on `mid ++ rest`, consumes `mid` and continues in `psF` on `rest` — for every declared
    raw length that covers `mid` (or 0 = in-progress replay) -/
def MidRun (ps0 : ParseState) (mid : Bytes) (psF : ParseState) : Prop :=
  ∀ rawLen rest, (rawLen = 0 ∨ ps0.bytesRead + mid.length ≤ rawLen) →
    eventLoop ((mid ++ rest).length + 1) rawLen ps0 (mid ++ rest) = eventLoop (rest.length + 1) rawLen psF rest

theorem MidRun.nil (ps : ParseState) : MidRun ps [] ps := by
  intro rawLen rest _; rfl

theorem MidRun.trans {a b c : ParseState} {m1 m2 : Bytes} (h1 : MidRun a m1 b) (h2 : MidRun b m2 c)
    (hb : b.bytesRead = a.bytesRead + m1.length) : MidRun a (m1 ++ m2) c := by
  intro rawLen rest hraw
  have e1 := h1 rawLen (m2 ++ rest) (by rcases hraw with h | h; exact Or.inl h; right; simp at h; omega)
  have e2 := h2 rawLen rest (by rcases hraw with h | h; exact Or.inl h; right; simp at h; omega)
  rw [List.append_assoc, e1, e2]

/-- a run of declared, successfully handled, non-splitter, non-Game-End events is a middle -/
theorem MidRun.events (ps : ParseState) (es : List (Nat × Bytes)) (st' : PState)
    (hdecl : ∀ e ∈ es, e.1 < 256 ∧ e.1 ≠ EV_SPLITTER ∧ e.1 ≠ EV_GAME_END ∧ sizeOfEv ps.st.sizes e.1 = some e.2.length)
    (hrun : runEvents ps.st es = .ok st') :
    MidRun ps (encEvents es) { st := st', bytesRead := ps.bytesRead + (encEvents es).length } := by
  intro rawLen rest hraw
  have hle : es.length ≤ (encEvents es ++ rest).length := by have := events_le_bytes es; simp; omega
  have := eventLoop_run rawLen es (encEvents es ++ rest).length ps st' rest hle hdecl hrun hraw
  rw [this]
  apply eventLoop_fuel
  · have := events_le_bytes es; simp only [List.length_append]; omega
  · omega

/-- the payload-table prefix of the raw element and the state after `parse_start` -/
def tablePrefix (t : List (Nat × Nat)) : Bytes := [0x35, UInt8.ofNat (3 * t.length + 1)] ++ encTable t

def ps0T (t : List (Nat × Nat)) (startLen : Nat) (s : Start) : ParseState :=
  { st := { sizes := t.reverse, splitRaw := [], splitActual := 0, portIdx := portIdxOf (portOccupancy s), start := s,
            fend := none, frames := FCols.new s.version (portOccupancy s), metadata := none, gecko := none, doubleGameEnd := none },
    bytesRead := 1 + (3 * t.length + 1) + startLen + 1 }

theorem parseStart_gen (T : TextOracle) (t : List (Nat × Nat)) (sb : Bytes) (s : Start) (el : Nat)
    (hs : gameStart T sb = .ok s) (ht : TableOK t) (hlen : 3 * t.length + 1 < 256) (hnd : (t.map Prod.fst).Nodup)
    (hGS : (EV_GAME_START, sb.length) ∈ t) (hGE : (EV_GAME_END, el) ∈ t) (rest : Bytes) :
    parseStart T (tablePrefix t ++ (encEvent (EV_GAME_START, sb) ++ rest)) = .ok (ps0T t sb.length s, rest) := by
  have hp := parsePayloads_enc t ht hlen hnd sb.length el hGS hGE (encEvent (EV_GAME_START, sb) ++ rest)
  simp only [parseStart, bind, tablePrefix]
  rw [hp]
  simp only [parseGameStart, bind, encEvent, List.cons_append, Rd.u8]
  have hsz : sizeOfEv t.reverse (UInt8.ofNat EV_GAME_START).toNat = some sb.length := by
    have : (UInt8.ofNat EV_GAME_START).toNat = EV_GAME_START := by decide
    rw [this]; exact sizeOfEv_reverse t hnd _ _ hGS
  simp only [hsz, Rd.take, List.length_append]
  have hlt : ¬ (sb.length + rest.length < sb.length) := by omega
  have hcode : (UInt8.ofNat EV_GAME_START).toNat = EV_GAME_START := by decide
  simp only [hlt, ↓reduceIte, List.take_left' rfl, List.drop_left' rfl, hcode, Rd.lift, hs, pure, portIdxOf, ps0T]

/-- a file in the general shape -/
structure GFile where
  table : List (Nat × Nat)
  startBlock : Bytes
  mid : Bytes
  fend : Option Bytes
  /-- bytes between Game End and the declared end of the raw element -/
  extra : Bytes
  metadata : Option KVs

def GFile.endPart (f : GFile) : Bytes := (match f.fend with | some e => encEvent (EV_GAME_END, e) | none => []) ++ f.extra

def GFile.raw (f : GFile) : Bytes :=
  tablePrefix f.table ++ (encEvent (EV_GAME_START, f.startBlock) ++ (f.mid ++ f.endPart))

def GFile.encode (f : GFile) : Bytes :=
  FILE_SIGNATURE ++ (toBE 4 f.raw.length ++ (f.raw ++ metaBytes f.metadata))

structure GFile.WF (T : TextOracle) (f : GFile) (s : Start) (psF : ParseState) : Prop where
  start : gameStart T f.startBlock = .ok s
  tableOK : TableOK f.table
  nodup : (f.table.map Prod.fst).Nodup
  tableLen : 3 * f.table.length + 1 < 256
  declStart : (EV_GAME_START, f.startBlock.length) ∈ f.table
  declEnd : ∃ el, (EV_GAME_END, el) ∈ f.table ∧ ∀ e, f.fend = some e → el = e.length
  mid : MidRun (ps0T f.table f.startBlock.length s) f.mid psF
  midBytes : psF.bytesRead = (ps0T f.table f.startBlock.length s).bytesRead + f.mid.length
  sizes : psF.st.sizes = f.table.reverse
  fstart : psF.st.start = s
  ffend : psF.st.fend = none
  fmeta : psF.st.metadata = none
  fdge : psF.st.doubleGameEnd = none
  endOK : ∀ e, f.fend = some e → ∃ ge, gameEnd e = .ok ge
  /-- extra bytes only after a Game End -/
  extraOK : f.fend = none → f.extra = []
  metadata : ∀ m, f.metadata = some m → KVs.WF T.utf8Ok 1 m
  rawLen : f.raw.length < 256 ^ 4

/-- **General file-level read theorem.**  The reader consumes a file of the general shape to its last byte and returns the
    state the middle leads to — closed below 3.0 — with the Game End block parsed, the metadata tree, and the
    duplicated-Game-End quirk set exactly when the extra bytes look like one more Game End. -/
theorem readP_gen (T : TextOracle) (f : GFile) (s : Start) (psF : ParseState) (h : f.WF T s psF) :
    ∃ ge : Option End, f.fend.map gameEnd = ge.map Res.ok ∧
      readP T {} f.encode =
        .ok (gameOf ({ psF.st with fend := ge } : PState).closed f.metadata (dgeOf s.version f.extra none), []) := by
  obtain ⟨el, hGE, hel⟩ := h.declEnd
  have hraw0 : f.raw.length ≠ 0 := by simp [GFile.raw, tablePrefix]
  have hrl : f.raw.length = (ps0T f.table f.startBlock.length s).bytesRead + f.mid.length + f.endPart.length := by
    simp [GFile.raw, tablePrefix, encTable_length, encEvent, ps0T]; try omega
  have hread : ∀ g rest, loopTail T f.raw.length (ps0T f.table f.startBlock.length s) (f.mid ++ (f.endPart ++ metaBytes f.metadata)) = .ok (g, rest) →
      readP T {} f.encode = .ok (g, rest) := by
    intro g rest hk
    have hsplit : f.raw ++ metaBytes f.metadata =
        tablePrefix f.table ++ (encEvent (EV_GAME_START, f.startBlock) ++ (f.mid ++ (f.endPart ++ metaBytes f.metadata))) := by
      simp [GFile.raw, List.append_assoc]
    have hstart' := parseStart_gen T f.table f.startBlock s el h.start h.tableOK h.tableLen h.nodup h.declStart hGE
      (f.mid ++ (f.endPart ++ metaBytes f.metadata))
    rw [← hsplit] at hstart'
    unfold readP GFile.encode
    simp only [Bool.false_eq_true, ↓reduceIte, bind]
    rw [parseHeader_enc _ h.rawLen]
    simp only []
    rw [hstart']
    simp only [pure]
    exact hk
  have hmid := h.mid f.raw.length (f.endPart ++ metaBytes f.metadata) (by right; rw [hrl]; omega)
  cases hfe : f.fend with
  | none =>
    have hex := h.extraOK hfe
    have hep : f.endPart = [] := by simp [GFile.endPart, hfe, hex]
    refine ⟨none, by simp, ?_⟩
    apply hread
    simp only [loopTail, bind]
    rw [hmid]
    have hbr : ¬ psF.bytesRead < f.raw.length := by rw [h.midBytes, hrl, hep]; simp
    rw [hep, List.nil_append, eventLoop_done _ _ _ _ hraw0 hbr]
    simp only []
    have ht := readTail_gen T f.raw.length psF f.metadata [] (by rw [h.midBytes, hrl, hep]) h.fmeta h.metadata
    simp only [List.nil_append] at ht
    have : ({ psF.st with fend := none } : PState) = psF.st := by
      have := h.ffend
      cases hp : psF.st
      rw [hp] at this
      simp only [PState.mk.injEq, true_and, and_true]
      simp only at this
      exact this.symm
    rw [ht, hex, this, h.fstart, h.fdge]
  | some e =>
    obtain ⟨ge, hge⟩ := h.endOK e hfe
    have hele := hel e hfe
    refine ⟨some ge, by simp [hge], ?_⟩
    apply hread
    have hep : f.endPart = encEvent (EV_GAME_END, e) ++ f.extra := by simp [GFile.endPart, hfe]
    have hsize : sizeOfEv psF.st.sizes EV_GAME_END = some e.length := by
      rw [h.sizes, ← hele]; exact sizeOfEv_reverse _ h.nodup _ _ hGE
    have hlenE : (encEvent (EV_GAME_END, e)).length = 1 + e.length := by simp [encEvent]; omega
    have hbrlt : psF.bytesRead < f.raw.length := by rw [h.midBytes, hrl, hep]; simp [hlenE]; omega
    simp only [loopTail, bind]
    rw [hmid, hep, List.append_assoc, loop_end _ _ psF e ge _ hsize hge hbrlt]
    simp only []
    have ht := readTail_gen T f.raw.length ⟨{ psF.st with fend := some ge }, psF.bytesRead + e.length + 1⟩ f.metadata f.extra
      (by simp only []; rw [h.midBytes, hrl, hep]; simp [hlenE]; omega) h.fmeta h.metadata
    rw [ht]
    simp only [h.fstart, h.fdge]

#print axioms readP_gen
end Peppi
