import Peppi.Lemmas.Transpose
/-! C14 at the level of the whole frame set: `from_struct_array ∘ (IPC validity normalisation) ∘ into_struct_array = id`
    in the rows model, nesting included (ports → leader/follower → pre/post; start; end; item list with offsets). -/
namespace Peppi

/-- a generated struct as Arrow sees it: primitive columns + optional validity -/
structure AStruct where
  cols : List (List Nat)
  valid : Option (List Bool)
  len : Nat
deriving DecidableEq

structure AData where
  pre : AStruct
  post : AStruct
  valid : Option (List Bool)

structure APort where
  port : Nat
  leader : AData
  follower : Option AData

structure AFrame where
  id : List Int
  ports : List APort
  start : Option AStruct
  fend : Option AStruct
  item : Option (List Nat × AStruct)

/-- widths (number of visible leaves at the version) of the five generated structs -/
structure Widths where
  pre : Nat
  post : Nat
  start : Nat
  fend : Nat
  item : Nat

def intoS (n : Nat) (rows : SCols) : AStruct := ⟨toCols n rows, validOfRows rows, rows.length⟩
def fromS (a : AStruct) : SCols := fromCols a.len a.cols a.valid

def intoD (w : Widths) (d : DCols) : AData := ⟨intoS w.pre d.pre, intoS w.post d.post, d.valid⟩
def fromD (a : AData) : DCols := ⟨fromS a.pre, fromS a.post, a.valid⟩

def intoP (w : Widths) (p : PCols) : APort := ⟨p.port, intoD w p.leader, p.follower.map (intoD w)⟩
def fromP (a : APort) : PCols := ⟨a.port, fromD a.leader, a.follower.map fromD⟩

/-- `Frame::into_struct_array` -/
def intoF (w : Widths) (f : FCols) : AFrame :=
  { id := f.id, ports := f.ports.map (intoP w), start := f.start.map (intoS w.start), fend := f.fend.map (intoS w.fend),
    item := match f.itemOff, f.item with | some o, some it => some (o, intoS w.item it) | _, _ => none }

/-- `Frame::from_struct_array` -/
def fromF (a : AFrame) : FCols :=
  { id := a.id, ports := a.ports.map fromP, start := a.start.map fromS, fend := a.fend.map fromS,
    itemOff := a.item.map (·.1), item := a.item.map (fun x => fromS x.2) }

/-- what Arrow IPC does to a validity bitmap: all-set comes back as absent -/
def normV (len : Nat) (v : Option (List Bool)) : Option (List Bool) :=
  match v with | some bs => if bs = List.replicate len true then none else some bs | none => none

def normS (a : AStruct) : AStruct := { a with valid := normV a.len a.valid }

theorem fromS_normS (a : AStruct) : fromS (normS a) = fromS a := by
  unfold fromS normS normV
  cases hv : a.valid with
  | none => rfl
  | some bs =>
    simp only []
    split
    · rename_i hb; rw [hb]; exact (fromCols_allset a.len a.cols).symm
    · rfl

theorem fromS_intoS (n : Nat) (rows : SCols) (h : RowsOK n rows) : fromS (intoS n rows) = rows := by
  unfold fromS intoS; exact fromCols_toCols n rows h

theorem fromS_norm_intoS (n : Nat) (rows : SCols) (h : RowsOK n rows) : fromS (normS (intoS n rows)) = rows := by
  rw [fromS_normS, fromS_intoS n rows h]

/-- every generated struct in the frame set has rows of its version's width -/
structure FrameRowsOK (w : Widths) (f : FCols) : Prop where
  ports : ∀ p ∈ f.ports, RowsOK w.pre p.leader.pre ∧ RowsOK w.post p.leader.post ∧
    ∀ d, p.follower = some d → RowsOK w.pre d.pre ∧ RowsOK w.post d.post
  start : ∀ sc, f.start = some sc → RowsOK w.start sc
  fend : ∀ ec, f.fend = some ec → RowsOK w.fend ec
  item : ∀ it, f.item = some it → RowsOK w.item it
  itemBoth : f.itemOff.isSome = f.item.isSome

def normD (a : AData) : AData := ⟨normS a.pre, normS a.post, a.valid⟩
def normP (a : APort) : APort := ⟨a.port, normD a.leader, a.follower.map normD⟩
/-- the IPC round trip on the whole tree (the `Data`-level validity is kept as written: the model of `Data` stores it as is) -/
def normF (a : AFrame) : AFrame :=
  { a with ports := a.ports.map normP, start := a.start.map normS, fend := a.fend.map normS, item := a.item.map (fun x => (x.1, normS x.2)) }

theorem fromD_norm_intoD (w : Widths) (d : DCols) (h1 : RowsOK w.pre d.pre) (h2 : RowsOK w.post d.post) :
    fromD (normD (intoD w d)) = d := by
  unfold fromD normD intoD
  simp only [fromS_norm_intoS _ _ h1, fromS_norm_intoS _ _ h2]

/-- **C14 (import ∘ export = id)**, through the validity normalisation Arrow IPC performs -/
theorem fromF_norm_intoF (w : Widths) (f : FCols) (h : FrameRowsOK w f) : fromF (normF (intoF w f)) = f := by
  obtain ⟨ids, ports, start, fend, itemOff, item⟩ := f
  unfold fromF normF intoF
  simp only [List.map_map, Option.map_map, FCols.mk.injEq, true_and]
  refine ⟨?_, ?_, ?_, ?_, ?_⟩
  · -- ports
    have : ∀ p ∈ ports, (fromP ∘ normP ∘ intoP w) p = p := by
      intro p hp
      obtain ⟨h1, h2, h3⟩ := h.ports p hp
      obtain ⟨port, leader, follower⟩ := p
      simp only [Function.comp, fromP, normP, intoP, Option.map_map, PCols.mk.injEq, true_and]
      refine ⟨fromD_norm_intoD w leader h1 h2, ?_⟩
      cases follower with
      | none => rfl
      | some d =>
        obtain ⟨h4, h5⟩ := h3 d rfl
        simp only [Option.map_some, Function.comp, Option.some.injEq]
        exact fromD_norm_intoD w d h4 h5
    calc List.map (fromP ∘ normP ∘ intoP w) ports = List.map id ports := List.map_congr_left this
      _ = ports := List.map_id _
  · cases start with
    | none => rfl
    | some sc => simp only [Option.map_some, Function.comp, Option.some.injEq]; exact fromS_norm_intoS _ _ (h.start sc rfl)
  · cases fend with
    | none => rfl
    | some ec => simp only [Option.map_some, Function.comp, Option.some.injEq]; exact fromS_norm_intoS _ _ (h.fend ec rfl)
  · have hb := h.itemBoth
    cases itemOff <;> cases item <;> simp_all
  · have hb := h.itemBoth
    cases itemOff with
    | none => cases item <;> simp_all
    | some o =>
      cases item with
      | none => simp at hb
      | some it => simp only [Option.map_some, Option.some.injEq]; exact fromS_norm_intoS _ _ (h.item it rfl)

#print axioms fromF_norm_intoF
end Peppi

namespace Peppi

/-- export with the D2 repair: a generated struct without any field at this version (`End` for 3.0 ≤ v < 3.7) cannot be an
    Arrow struct, so the `end` child is omitted -/
def intoF' (w : Widths) (f : FCols) : AFrame :=
  let a := intoF w f
  if w.fend = 0 then { a with fend := none } else a

/-- import with the D2 repair: when the version has an `End` struct (`hasEnd`) but the tree has no `end` child, rebuild the
    field-less struct with one (present, empty) row per frame -/
def fromF' (hasEnd : Bool) (a : AFrame) : FCols :=
  let f := fromF a
  match a.fend with
  | some _ => f
  | none => if hasEnd then { f with fend := some (List.replicate a.id.length (some [])) } else f

/-- **C14 with a field-less `End`** (versions 3.0–3.6 after the D2 repair): the round trip is still the identity, provided the
    end column has one present row per frame — which the reader guarantees (Frame End is pushed, never nulled) -/
theorem fromF'_norm_intoF' (w : Widths) (f : FCols) (h : FrameRowsOK w f) (hw : w.fend = 0)
    (ec : SCols) (hfe : f.fend = some ec) (hpresent : ec = List.replicate f.id.length (some [])) :
    fromF' true (normF (intoF' w f)) = f := by
  have hbase := fromF_norm_intoF w f h
  unfold fromF' intoF'
  simp only [hw, ↓reduceIte]
  have hn : (normF { (intoF w f) with fend := none }).fend = none := rfl
  simp only [hn]
  have hid : (normF { (intoF w f) with fend := none }).id = f.id := rfl
  rw [hid]
  have hrest : fromF (normF { (intoF w f) with fend := none }) = { f with fend := none } := by
    have : fromF (normF { (intoF w f) with fend := none }) = { (fromF (normF (intoF w f))) with fend := none } := rfl
    rw [this, hbase]
  rw [hrest]
  cases f with
  | mk id ports start fend itemOff item =>
    simp only at hfe hpresent ⊢
    rw [hfe, hpresent]

#print axioms fromF'_norm_intoF'
end Peppi
