import Peppi.Lemmas.History
/-! File-level read lemma (C04), regime ≥ 3.0 without Gecko block. -/
namespace Peppi
open Extracted

def portIdxOf (shape : List PortOccupancy) : List (Option Nat) := (List.range 4).map fun p => shape.findIdx? (·.port == p)

structure Replay.WF (T : TextOracle) (r : Replay) (s : Start) : Prop where
  start : gameStart T r.startBlock = .ok s
  v30 : s.version.gte 3 0 = true
  v22 : s.version.gte 2 2 = true
  startLen : 0 < r.startBlock.length ∧ r.startBlock.length < 65536
  portMap : PortMapOK (portIdxOf (portOccupancy s)) (portOccupancy s)
  ports : ∀ p ∈ portOccupancy s, p.port < 256
  frames : ∀ o ∈ r.frames, o.OK s.version (nSlots (portOccupancy s))
  endOK : ∀ e, r.fend = some e → 0 < e.length ∧ e.length < 65536 ∧ ∃ ge, gameEnd e = .ok ge
  endLenOK : 0 < r.endLen s.version ∧ r.endLen s.version < 65536
  doubledOK : r.doubled = true → ∃ e, r.fend = some e ∧ e.length = endSize s.version
  metadata : ∀ m, r.metadata = some m → KVs.WF T.utf8Ok 1 m
  rawLen : (r.raw s.version (portOccupancy s)).length < 256 ^ 4

theorem canonTable_ok (v : Ver) (sl el : Nat) (hs : 0 < sl ∧ sl < 65536) (he : 0 < el ∧ el < 65536)
    (hrows : rowSize v Pre.readPush < 1000 ∧ rowSize v Post.readPush < 1000 ∧ rowSize v Start.readPush < 1000 ∧
      rowSize v Item.readPush < 1000 ∧ rowSize v End.readPush < 1000) :
    TableOK (canonTable v sl el) := by
  intro e he'
  simp only [canonTable, List.mem_cons, List.not_mem_nil, or_false] at he'
  rcases he' with rfl | rfl | rfl | rfl | rfl | rfl | rfl <;>
    (simp only [EV_GAME_START, EV_FRAME_PRE, EV_FRAME_POST, EV_GAME_END, EV_FRAME_START, EV_ITEM, EV_FRAME_END]; omega)

theorem canonTable_nodup (v : Ver) (sl el : Nat) : ((canonTable v sl el).map Prod.fst).Nodup := by
  simp only [canonTable, List.map_cons, List.map_nil]; decide

/-- every generated struct has a bounded row size (from the extracted tables) -/
theorem rowSize_le (v : Ver) (L : List Fld) : rowSize v L ≤ (L.map (·.width)).sum := by
  induction L with
  | nil => simp [rowSize]
  | cons f fs ih => simp only [rowSize, List.map_cons, List.sum_cons]; split <;> omega

theorem rows_bounded (v : Ver) : rowSize v Pre.readPush < 1000 ∧ rowSize v Post.readPush < 1000 ∧ rowSize v Start.readPush < 1000 ∧
      rowSize v Item.readPush < 1000 ∧ rowSize v End.readPush < 1000 := by
  have h1 := rowSize_le v Pre.readPush
  have h2 := rowSize_le v Post.readPush
  have h3 := rowSize_le v Start.readPush
  have h4 := rowSize_le v Item.readPush
  have h5 := rowSize_le v End.readPush
  have e1 : (Pre.readPush.map (·.width)).sum = 58 := by decide +kernel
  have e2 : (Post.readPush.map (·.width)).sum = 78 := by decide +kernel
  have e3 : (Start.readPush.map (·.width)).sum = 8 := by decide +kernel
  have e4 : (Item.readPush.map (·.width)).sum = 40 := by decide +kernel
  have e5 : (End.readPush.map (·.width)).sum = 4 := by decide +kernel
  omega

/-- `parse_start` on the canonical prefix of the raw element -/
theorem parseStart_enc (T : TextOracle) (r : Replay) (s : Start) (h : r.WF T s) (rest : Bytes) :
    let v := s.version
    let t := canonTable v r.startBlock.length (r.endLen v)
    parseStart T ([0x35, UInt8.ofNat (3 * t.length + 1)] ++ encTable t ++ (encEvent (EV_GAME_START, r.startBlock) ++ rest)) =
      .ok ({ st := { sizes := t.reverse, splitRaw := [], splitActual := 0, portIdx := portIdxOf (portOccupancy s), start := s,
                     fend := none, frames := FCols.new v (portOccupancy s), metadata := none, gecko := none, doubleGameEnd := none },
             bytesRead := 1 + (3 * t.length + 1) + r.startBlock.length + 1 }, rest) := by
  intro v t
  have ht : TableOK t := canonTable_ok v _ _ h.startLen h.endLenOK (rows_bounded v)
  have hnd := canonTable_nodup v r.startBlock.length (r.endLen v)
  have hlen : 3 * t.length + 1 < 256 := by simp [t, canonTable]
  have hp := parsePayloads_enc t ht hlen hnd r.startBlock.length (r.endLen v) (by simp [t, canonTable]) (by simp [t, canonTable])
    (encEvent (EV_GAME_START, r.startBlock) ++ rest)
  simp only [parseStart, bind]
  rw [hp]
  simp only [parseGameStart, bind, encEvent, List.cons_append, Rd.u8]
  have hsz : sizeOfEv t.reverse (UInt8.ofNat EV_GAME_START).toNat = some r.startBlock.length := by
    have : (UInt8.ofNat EV_GAME_START).toNat = EV_GAME_START := by decide
    rw [this]; exact sizeOfEv_reverse t hnd _ _ (by simp [t, canonTable])
  simp only [hsz, Rd.take, List.length_append]
  have hlt : ¬ (r.startBlock.length + rest.length < r.startBlock.length) := by omega
  have hcode : (UInt8.ofNat EV_GAME_START).toNat = EV_GAME_START := by decide
  simp only [hlt, ↓reduceIte, List.take_left' rfl, List.drop_left' rfl, hcode, Rd.lift, h.start, pure, portIdxOf]
  rfl

theorem encPlain_length (v : Ver) (L : List Fld) (id : Int) (row : Row) (h : RowOK v L row) :
    (encPlain v L id row).length = 4 + rowSize v L := by
  simp [encPlain, encId_length, writeRow_length v L row h]
theorem encChar_length (v : Ver) (L : List Fld) (id : Int) (port : Nat) (fol : Bool) (row : Row) (h : RowOK v L row) :
    (encChar v L id port fol row).length = 6 + rowSize v L := by
  simp [encChar, encId_length, writeRow_length v L row h]; omega

/-- every canonical frame event is a known, non-terminal event whose length is the one in the canonical table -/
theorem frameEventsA_sizes (v : Ver) (shape : List PortOccupancy) (o : FrameOcc) (ho : o.OK v (nSlots shape)) (sl el : Nat) :
    ∀ e ∈ frameEventsA v shape o, e.1 < 256 ∧ e.1 ≠ EV_SPLITTER ∧ e.1 ≠ EV_GAME_END ∧
      sizeOfEv (canonTable v sl el).reverse e.1 = some e.2.length := by
  have hnd := canonTable_nodup v sl el
  have look : ∀ c s, (c, s) ∈ canonTable v sl el → sizeOfEv (canonTable v sl el).reverse c = some s :=
    fun c s h => sizeOfEv_reverse _ hnd c s h
  have hchar : ∀ post, ∀ e ∈ charEvents post v o.id (slotList shape 0) (presentFrom 0 o.chars),
      e.1 < 256 ∧ e.1 ≠ EV_SPLITTER ∧ e.1 ≠ EV_GAME_END ∧ sizeOfEv (canonTable v sl el).reverse e.1 = some e.2.length := by
    intro post e he
    simp only [charEvents, List.mem_map] at he
    obtain ⟨co, hco, rfl⟩ := he
    obtain ⟨hc, hocc⟩ := presentFrom_ok v (nSlots shape) o ho co hco
    obtain ⟨d, hd⟩ : ∃ d, (slotList shape 0)[co.1]? = some d := ⟨_, List.getElem?_eq_getElem hc⟩
    simp only [charEvent, hd]
    cases post with
    | true =>
      simp only [↓reduceIte, encChar_length _ _ _ _ _ _ hocc.2]
      refine ⟨by decide, by decide, by decide, look _ _ (by simp [canonTable])⟩
    | false =>
      simp only [Bool.false_eq_true, ↓reduceIte, encChar_length _ _ _ _ _ _ hocc.1]
      refine ⟨by decide, by decide, by decide, look _ _ (by simp [canonTable])⟩
  intro e he
  simp only [frameEventsA, List.append_assoc, List.cons_append, List.nil_append, List.mem_cons, List.mem_append, List.mem_map,
    List.not_mem_nil, or_false] at he
  rcases he with rfl | he | ⟨r, hr, rfl⟩ | he | rfl
  · simp only [encPlain_length _ _ _ _ ho.start]
    exact ⟨by decide, by decide, by decide, look _ _ (by simp [canonTable])⟩
  · exact hchar false e he
  · simp only [encPlain_length _ _ _ _ (ho.items r hr)]
    exact ⟨by decide, by decide, by decide, look _ _ (by simp [canonTable])⟩
  · exact hchar true e he
  · simp only [encPlain_length _ _ _ _ ho.fend]
    exact ⟨by decide, by decide, by decide, look _ _ (by simp [canonTable])⟩

#print axioms frameEventsA_sizes
end Peppi
