import Peppi.Lemmas.C04A
import Peppi.Write
import Peppi.Premises
/-! Writer side, per character slot: `Data::write_pre/post` on the expected columns. -/
namespace Peppi
open Extracted

theorem validAt_validOf (hist : List (Option CharOcc)) (idx : Nat) (h : idx < hist.length) :
    validAt (validOf hist) idx = .ok (hist[idx]).isSome := by
  unfold validAt validOf
  by_cases hall : hist.all Option.isSome = true
  · simp only [hall, ↓reduceIte]
    have := (List.all_eq_true.mp hall) hist[idx] (List.getElem_mem _)
    simp [this]
  · simp only [hall, Bool.false_eq_true, ↓reduceIte, List.getElem?_map, List.getElem?_eq_getElem h, Option.map_some]

theorem rowAt_some (v : Ver) (L : List Fld) (c : SCols) (idx : Nat) (row : Row) (h : c[idx]? = some (some row)) :
    rowAt v L c idx = .ok (writeRow v L row) := by
  simp [rowAt, h]

/-- what one character contributes to the pre (or post) pass of a frame -/
def slotOut (post : Bool) (v : Ver) (id : Int) (port : Nat) (fol : Bool) (occ : Option CharOcc) : Bytes :=
  match occ with
  | some x => if post then encEvent (EV_FRAME_POST, encChar v Post.readPush id port fol x.post)
              else encEvent (EV_FRAME_PRE, encChar v Pre.readPush id port fol x.pre)
  | none => []

theorem writeData_cols (post : Bool) (v : Ver) (hist : List (Option CharOcc)) (idx : Nat) (h : idx < hist.length)
    (id : Int) (port : Nat) (fol : Bool) :
    writeData v (colsOf hist) post idx id port fol = .ok (slotOut post v id port fol hist[idx]) := by
  unfold writeData
  simp only [bind, validAt_validOf hist idx h, colsOf]
  cases hocc : hist[idx] with
  | none => simp [slotOut, pure]
  | some x =>
    simp only [Option.isSome_some, ↓reduceIte, slotOut]
    cases post with
    | true =>
      have : (hist.map (·.map (·.post)))[idx]? = some (some x.post) := by simp [List.getElem?_eq_getElem h, hocc]
      simp only [↓reduceIte, rowAt_some _ _ _ _ _ this, pure, encEvent, encChar, encId]
      simp only [Res.ok.injEq, List.cons_append, List.nil_append, List.append_assoc, List.cons.injEq]
      exact ⟨by decide, by rw [post_views.1]⟩
    | false =>
      have : (hist.map (·.map (·.pre)))[idx]? = some (some x.pre) := by simp [List.getElem?_eq_getElem h, hocc]
      simp only [Bool.false_eq_true, ↓reduceIte, rowAt_some _ _ _ _ _ this, pure, encEvent, encChar, encId]
      simp only [Res.ok.injEq, List.cons_append, List.nil_append, List.append_assoc, List.cons.injEq]
      exact ⟨by decide, by rw [pre_views.1]⟩

#print axioms writeData_cols
end Peppi

namespace Peppi
open Extracted

/-- one pass (pre or post) over all ports, as the writer emits it -/
def passOut (post : Bool) (v : Ver) (id : Int) : List PortOccupancy → Nat → (Nat → Option CharOcc) → Bytes
  | [], _, _ => []
  | p :: ps, k, occ =>
    slotOut post v id p.port false (occ k) ++
      ((if p.follower then slotOut post v id p.port true (occ (k+1)) else []) ++
        passOut post v id ps (k + (if p.follower then 2 else 1)) occ)

theorem concatRes_cons (a : Res Bytes) (l : List (Res Bytes)) :
    concatRes (a :: l) = (do let x ← a; let y ← concatRes l; pure (x ++ y)) := rfl

theorem writePort_noF (post : Bool) (v : Ver) (id : Int) (idx port : Nat) (h0 : List (Option CharOcc)) (hl0 : idx < h0.length) :
    writePort v ⟨port, colsOf h0, none⟩ post idx id = .ok (slotOut post v id port false h0[idx]) := by
  simp [writePort, bind, writeData_cols post v h0 idx hl0, pure]

theorem writePort_F (post : Bool) (v : Ver) (id : Int) (idx port : Nat) (h0 h1 : List (Option CharOcc))
    (hl0 : idx < h0.length) (hl1 : idx < h1.length) :
    writePort v ⟨port, colsOf h0, some (colsOf h1)⟩ post idx id =
      .ok (slotOut post v id port false h0[idx] ++ slotOut post v id port true h1[idx]) := by
  simp only [writePort, bind, writeData_cols post v h0 idx hl0, pure,
    show (colsOf h1).valid = validOf h1 from rfl, validAt_validOf h1 idx hl1]
  cases hocc : h1[idx] with
  | none => simp [slotOut]
  | some x => simp [writeData_cols post v h1 idx hl1, hocc]

/-- `PortData::write_pre/post` over the expected ports of a history -/
theorem writePorts_cols (post : Bool) (v : Ver) (id : Int) (idx : Nat) (hists : Nat → List (Option CharOcc))
    (hlen : ∀ c, idx < (hists c).length) (shape : List PortOccupancy) :
    ∀ k, concatRes ((rebuild shape ((List.range' k (slotList shape 0).length).map fun c => colsOf (hists c))).map
        fun p => writePort v p post idx id) =
      .ok (passOut post v id shape k fun c => (hists c)[idx]'(hlen c)) := by
  induction shape with
  | nil => intro k; simp [rebuild, concatRes, passOut, pure]
  | cons p ps ih =>
    intro k
    have hsl : ∀ pi0, (slotList ps pi0).length = (slotList ps 0).length := by
      intro pi0; rw [slotList_length, slotList_length]
    cases hf : p.follower with
    | false =>
      have hn : (slotList (p :: ps) 0).length = (slotList ps 0).length + 1 := by
        simp [slotList, hf, hsl 1]
      rw [hn, List.range'_succ]
      simp only [List.map_cons, rebuild, hf, Bool.false_eq_true, ↓reduceIte, List.headD_cons, List.drop_succ_cons, List.drop_zero,
        concatRes_cons, writePort_noF post v id idx p.port (hists k) (hlen k), bind, pure]
      rw [ih (k+1)]
      simp [passOut, hf]
    | true =>
      have hn : (slotList (p :: ps) 0).length = (slotList ps 0).length + 1 + 1 := by
        simp [slotList, hf, hsl 1]
      rw [hn, List.range'_succ, List.range'_succ]
      simp only [List.map_cons, rebuild, hf, ↓reduceIte, List.headD_cons, List.drop_succ_cons, List.drop_zero,
        concatRes_cons, writePort_F post v id idx p.port (hists k) (hists (k+1)) (hlen k) (hlen (k+1)), bind, pure]
      rw [show k + 1 + 1 = k + 2 from rfl, ih (k+2)]
      simp [passOut, hf]

#print axioms writePorts_cols
end Peppi

namespace Peppi
open Extracted

/-- one pass over a list of slot descriptors -/
def slOut (post : Bool) (v : Ver) (id : Int) : List (Nat × Bool × Nat) → Nat → (Nat → Option CharOcc) → Bytes
  | [], _, _ => []
  | d :: ds, k, occ => slotOut post v id d.2.2 d.2.1 (occ k) ++ slOut post v id ds (k+1) occ

theorem slOut_congr (post v id) (ds : List (Nat × Bool × Nat)) (k : Nat) (f g : Nat → Option CharOcc)
    (h : ∀ c, k ≤ c → f c = g c) : slOut post v id ds k f = slOut post v id ds k g := by
  induction ds generalizing k with
  | nil => rfl
  | cons d ds ih => simp only [slOut, h k (Nat.le_refl k)]; rw [ih (k+1) (fun c hc => h c (by omega))]

theorem slOut_append (post v id) (a b : List (Nat × Bool × Nat)) (k : Nat) (occ) :
    slOut post v id (a ++ b) k occ = slOut post v id a k occ ++ slOut post v id b (k + a.length) occ := by
  induction a generalizing k with
  | nil => simp [slOut]
  | cons d ds ih => simp only [List.cons_append, slOut, ih (k+1), List.append_assoc, List.length_cons]; congr 3; omega

theorem passOut_eq_slOut (post v id) (shape : List PortOccupancy) (pi0 k : Nat) (occ) :
    passOut post v id shape k occ = slOut post v id (slotList shape pi0) k occ := by
  induction shape generalizing pi0 k with
  | nil => rfl
  | cons p ps ih =>
    simp only [passOut, slotList, slOut]
    cases hf : p.follower with
    | false => simp [slOut, ih (pi0+1) (k+1)]
    | true => simp [slOut, ih (pi0+1) (k+2)]

/-- the recorder's pre (or post) events of one frame = one pass over the slot list -/
theorem charEvents_eq_slOut (post : Bool) (v : Ver) (id : Int) (sl : List (Nat × Bool × Nat)) (chars : List (Option CharOcc)) :
    ∀ c0, c0 + chars.length = sl.length →
      encEvents (charEvents post v id sl (presentFrom c0 chars)) = slOut post v id (sl.drop c0) c0 (fun c => (chars[c - c0]?).join) := by
  induction chars with
  | nil =>
    intro c0 h
    have : sl.drop c0 = [] := List.drop_eq_nil_of_le (by simp at h; omega)
    simp [presentFrom, charEvents, encEvents, this, slOut]
  | cons a t ih =>
    intro c0 h
    have hc0 : c0 < sl.length := by simp at h; omega
    have hdrop : sl.drop c0 = sl[c0] :: sl.drop (c0+1) := by rw [List.drop_eq_getElem_cons hc0]
    have htail := ih (c0+1) (by simp at h ⊢; omega)
    have hcongr : slOut post v id (sl.drop (c0+1)) (c0+1) (fun c => (t[c - (c0+1)]?).join)
        = slOut post v id (sl.drop (c0+1)) (c0+1) (fun c => ((a :: t)[c - c0]?).join) := by
      apply slOut_congr
      intro c hc
      have : c - c0 = (c - (c0+1)) + 1 := by omega
      simp [this]
    cases a with
    | none =>
      simp only [presentFrom]
      rw [htail, hdrop, hcongr]
      simp [slOut, slotOut]
    | some x =>
      simp only [presentFrom, charEvents, List.map_cons]
      rw [encEvents_cons]
      have := htail
      simp only [charEvents] at this
      rw [this, hdrop, hcongr]
      simp only [slOut, Nat.sub_self, List.getElem?_cons_zero, Option.join_some, slotOut, charEvent,
        List.getElem?_eq_getElem hc0]
      cases post <;> simp

/-- both passes of a frame as the writer emits them are the recorder's events -/
theorem pass_eq_events (post : Bool) (v : Ver) (id : Int) (shape : List PortOccupancy) (chars : List (Option CharOcc))
    (hn : chars.length = nSlots shape) :
    passOut post v id shape 0 (fun c => (chars[c]?).join) = encEvents (charEvents post v id (slotList shape 0) (presentFrom 0 chars)) := by
  rw [charEvents_eq_slOut post v id (slotList shape 0) chars 0 (by simp [hn, nSlots]), passOut_eq_slOut post v id shape 0 0]
  simp

#print axioms pass_eq_events
end Peppi
