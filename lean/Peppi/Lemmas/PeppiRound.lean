import Peppi.Lemmas.PeppiRead
/-! `.slpp` round trip over the abstract archive (C02 / C10 / C16 / C18, archive level): what `read` makes of the entries that
    `write` emits, once each entry has passed through its external encoder and decoder. -/
namespace Peppi

def leU32' (n : Nat) : Bytes := (toBE 4 n).reverse

/-- the entries `write` emits for a game, as the reader sees them after the externals' round trips:
    `peppi.json` decodes to the version verdict, hash and quirks that were written; `metadata.json` to the tree or `null`;
    `start.json` / `end.json` are names the reader does not dispatch on; raw entries are bytes; `frames.arrow`, present only
    when there are frames, decodes to exactly one chunk holding the frames -/
def endEntries {μ φ : Type} : Option Bytes → List (PEntry μ φ)
  | some eb => [.other, .endRaw eb]
  | none => []
def geckoEntries {μ φ : Type} : Option (Bytes × Nat) → List (PEntry μ φ)
  | some c => [.geckoRaw (leU32' c.2 ++ c.1)]
  | none => []
def framesEntries {μ φ : Type} : Option φ → List (PEntry μ φ)
  | some f => [.framesArrow true [.chunk f]]
  | none => []

def writtenEntries {μ φ : Type} (g : PGame μ φ) (startBytes : Bytes) (endBytes : Option Bytes) : List (PEntry μ φ) :=
  [.peppiJson (.ok ⟨true, g.hash, g.quirks⟩), .metadataJson (.ok g.metadata), .other, .startRaw startBytes] ++
  (endEntries endBytes ++ (geckoEntries g.gecko ++ framesEntries g.frames))

theorem le_roundtrip (n : Nat) (h : n < 2 ^ 32) (rest : Bytes) :
    fromBE (((leU32' n ++ rest).take 4).reverse) = n ∧ (leU32' n ++ rest).drop 4 = rest ∧ ¬ (leU32' n ++ rest).length < 4 := by
  have hl : (leU32' n).length = 4 := by simp [leU32', toBE_length]
  refine ⟨?_, ?_, ?_⟩
  · rw [List.take_left' hl]; simp only [leU32', List.reverse_reverse]; exact fromBE_toBE 4 n (by simpa using h)
  · exact List.drop_left' hl
  · simp only [List.length_append, hl]; omega

/-- **`.slpp` round trip, archive level**: reading what was written returns the game — start, end, metadata, Gecko codes,
    frames, hash and quirks — provided the start / end blocks are the ones the game was parsed from, the Gecko size fits a
    `u32`, and (for a game without frames) the archive is complete -/
theorem peppiRead_written {μ φ : Type} (T : TextOracle) (g : PGame μ φ) (startBytes : Bytes) (endBytes : Option Bytes) (trailerOk : Bool)
    (hstart : gameStart T startBytes = .ok g.start)
    (hend : endBytes.map gameEnd = g.fend.map Res.ok)
    (hgecko : ∀ c, g.gecko = some c → c.2 < 2 ^ 32)
    (hframes : g.frames = none → trailerOk = true) :
    peppiRead T false trailerOk (writtenEntries g startBytes endBytes) = .ok g := by
  unfold peppiRead writtenEntries
  simp only [List.cons_append, List.nil_append, peppiLoop, ↓reduceIte, hstart]
  -- end
  have hendStep : ∀ (acc : PAcc μ) (rest : List (PEntry μ φ)),
      peppiLoop T false trailerOk acc (endEntries endBytes ++ rest) =
        peppiLoop T false trailerOk { acc with fend := match g.fend with | some e => some e | none => acc.fend } rest := by
    intro acc rest
    cases endBytes with
    | none =>
      cases hf : g.fend with
      | none => rfl
      | some e => rw [hf] at hend; simp at hend
    | some eb =>
      cases hf : g.fend with
      | none => rw [hf] at hend; simp at hend
      | some e =>
        rw [hf] at hend
        simp only [Option.map_some, Option.some.injEq] at hend
        simp only [endEntries, List.cons_append, List.nil_append, peppiLoop, hend]
  rw [hendStep]
  -- gecko
  have hgStep : ∀ (acc : PAcc μ) (rest : List (PEntry μ φ)),
      peppiLoop T false trailerOk acc (geckoEntries g.gecko ++ rest) =
        peppiLoop T false trailerOk { acc with gecko := match g.gecko with | some c => some c | none => acc.gecko } rest := by
    intro acc rest
    cases hg : g.gecko with
    | none => rfl
    | some c =>
      obtain ⟨h1, h2, h3⟩ := le_roundtrip c.2 (hgecko c hg) c.1
      simp only [geckoEntries, List.cons_append, List.nil_append, peppiLoop, h3, ↓reduceIte, h1, h2]
  rw [hgStep]
  -- frames
  cases g with
  | mk start fend metadata gecko frames hash quirks =>
    cases frames with
    | none =>
      have ht := hframes rfl
      simp only [framesEntries, peppiLoop, ht, ↓reduceIte, finish]
      cases fend <;> cases gecko <;> rfl
    | some f =>
      simp only [framesEntries, peppiLoop, Bool.false_eq_true, ↓reduceIte, Bool.not_true, readArrowFrames, readArrowLoop, finish]
      cases fend <;> cases gecko <;> rfl

/-- **C10 (`.slpp`, archive level)**: with skip-frames the same start, end, metadata, Gecko codes, hash and quirks, and the
    empty frame set -/
theorem peppiRead_written_skip {μ φ : Type} (T : TextOracle) (g : PGame μ φ) (startBytes : Bytes) (endBytes : Option Bytes) (trailerOk : Bool)
    (hstart : gameStart T startBytes = .ok g.start)
    (hend : endBytes.map gameEnd = g.fend.map Res.ok)
    (hgecko : ∀ c, g.gecko = some c → c.2 < 2 ^ 32)
    (hframes : g.frames = none → trailerOk = true) :
    peppiRead T true trailerOk (writtenEntries g startBytes endBytes) = .ok { g with frames := none } := by
  unfold peppiRead writtenEntries
  simp only [List.cons_append, List.nil_append, peppiLoop, ↓reduceIte, hstart]
  -- end
  have hendStep : ∀ (acc : PAcc μ) (rest : List (PEntry μ φ)),
      peppiLoop T true trailerOk acc (endEntries endBytes ++ rest) =
        peppiLoop T true trailerOk { acc with fend := match g.fend with | some e => some e | none => acc.fend } rest := by
    intro acc rest
    cases endBytes with
    | none =>
      cases hf : g.fend with
      | none => rfl
      | some e => rw [hf] at hend; simp at hend
    | some eb =>
      cases hf : g.fend with
      | none => rw [hf] at hend; simp at hend
      | some e =>
        rw [hf] at hend
        simp only [Option.map_some, Option.some.injEq] at hend
        simp only [endEntries, List.cons_append, List.nil_append, peppiLoop, hend]
  rw [hendStep]
  -- gecko
  have hgStep : ∀ (acc : PAcc μ) (rest : List (PEntry μ φ)),
      peppiLoop T true trailerOk acc (geckoEntries g.gecko ++ rest) =
        peppiLoop T true trailerOk { acc with gecko := match g.gecko with | some c => some c | none => acc.gecko } rest := by
    intro acc rest
    cases hg : g.gecko with
    | none => rfl
    | some c =>
      obtain ⟨h1, h2, h3⟩ := le_roundtrip c.2 (hgecko c hg) c.1
      simp only [geckoEntries, List.cons_append, List.nil_append, peppiLoop, h3, ↓reduceIte, h1, h2]
  rw [hgStep]
  -- frames
  cases g with
  | mk start fend metadata gecko frames hash quirks =>
    cases frames with
    | none =>
      have ht := hframes rfl
      simp only [framesEntries, peppiLoop, ht, ↓reduceIte, finish]
      cases fend <;> cases gecko <;> rfl
    | some f =>
      simp only [framesEntries, peppiLoop, ↓reduceIte, finish]
      cases fend <;> cases gecko <;> rfl

#print axioms peppiRead_written
end Peppi
