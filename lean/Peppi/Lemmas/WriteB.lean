import Peppi.Lemmas.C01A
import Peppi.Lemmas.C04C
/-! Writer side for the two older framing regimes: `Frame::write` re-emits the canonical events. -/
namespace Peppi
open Extracted

/-- `Frame::write`, one frame, 2.2 ≤ v < 3.0 -/
theorem writeFrame_B (v : Ver) (shape : List PortOccupancy) (h : List FrameOcc) (idx : Nat) (hidx : idx < h.length)
    (h30 : v.gte 3 0 = false) (h22 : v.gte 2 2 = true) (hn : ∀ o ∈ h, o.chars.length = nSlots shape) :
    writeFrame v (expFrames v shape h) idx (h[idx]).id = .ok (encEvents (frameEventsB v shape h[idx])) := by
  have hstart : (h.map fun o => some o.start)[idx]? = some (some (h[idx]).start) := by simp [List.getElem?_eq_getElem hidx]
  have hpass : ∀ post, concatRes ((expPorts shape h).map fun p => writePort v p post idx (h[idx]).id) =
      .ok (encEvents (charEvents post v (h[idx]).id (slotList shape 0) (presentFrom 0 (h[idx]).chars))) := by
    intro post
    have := writePorts_cols post v (h[idx]).id idx (histAt h) (by intro c; simp [histAt]; exact hidx) shape 0
    rw [← pass_eq_events post v (h[idx]).id shape (h[idx]).chars (hn _ (List.getElem_mem _))]
    simp only [expPorts, expFlat, nSlots, List.range_eq_range']
    rw [this]
    congr 2
    funext c
    simp [histAt]
  unfold writeFrame
  simp only [h22, h30, ↓reduceIte, Bool.false_eq_true, expFrames, bind, rowAt_some _ _ _ _ _ hstart, pure,
    hpass false, hpass true]
  simp only [frameEventsB, encEvents_append, encEvents_cons, encEvents_nil, List.append_nil, encEvent, encPlain, encId,
    start_views.1, Res.ok.injEq, List.cons_append, List.nil_append, List.append_assoc]
  have c1 : (UInt8.ofNat EV_FRAME_START) = 58 := by decide
  rw [c1]

theorem writeFrames_B (v : Ver) (shape : List PortOccupancy) (h : List FrameOcc)
    (h30 : v.gte 3 0 = false) (h22 : v.gte 2 2 = true) (hn : ∀ o ∈ h, o.chars.length = nSlots shape) :
    writeFrames v (expFrames v shape h) = .ok (encEvents (h.flatMap (frameEventsB v shape))) := by
  unfold writeFrames
  rw [encEvents_flatMap]
  apply concatRes_ok
  apply List.ext_getElem (by simp [expFrames])
  intro idx h1 h2
  have hidx : idx < h.length := by simpa [expFrames] using h1
  simp only [List.getElem_map, List.getElem_range]
  have hid : (expFrames v shape h).id.getD idx 0 = (h[idx]).id := by
    simp [expFrames, List.getD_eq_getElem?_getD, List.getElem?_eq_getElem hidx]
  rw [hid, writeFrame_B v shape h idx hidx h30 h22 hn]

/-- `Frame::write`, one frame, v < 2.2 -/
theorem writeFrame_C (v : Ver) (shape : List PortOccupancy) (h : List FrameOcc) (idx : Nat) (hidx : idx < h.length)
    (h30 : v.gte 3 0 = false) (h22 : v.gte 2 2 = false) (hn : ∀ o ∈ h, o.chars.length = nSlots shape) :
    writeFrame v (expFrames v shape h) idx (h[idx]).id = .ok (encEvents (frameEventsC v shape h[idx])) := by
  have hpass : ∀ post, concatRes ((expPorts shape h).map fun p => writePort v p post idx (h[idx]).id) =
      .ok (encEvents (charEvents post v (h[idx]).id (slotList shape 0) (presentFrom 0 (h[idx]).chars))) := by
    intro post
    have := writePorts_cols post v (h[idx]).id idx (histAt h) (by intro c; simp [histAt]; exact hidx) shape 0
    rw [← pass_eq_events post v (h[idx]).id shape (h[idx]).chars (hn _ (List.getElem_mem _))]
    simp only [expPorts, expFlat, nSlots, List.range_eq_range']
    rw [this]
    congr 2
    funext c
    simp [histAt]
  unfold writeFrame
  simp only [h22, h30, ↓reduceIte, Bool.false_eq_true, expFrames, bind, pure, hpass false, hpass true]
  simp only [frameEventsC, encEvents_append, List.nil_append, List.append_nil]

theorem writeFrames_C (v : Ver) (shape : List PortOccupancy) (h : List FrameOcc)
    (h30 : v.gte 3 0 = false) (h22 : v.gte 2 2 = false) (hn : ∀ o ∈ h, o.chars.length = nSlots shape) :
    writeFrames v (expFrames v shape h) = .ok (encEvents (h.flatMap (frameEventsC v shape))) := by
  unfold writeFrames
  rw [encEvents_flatMap]
  apply concatRes_ok
  apply List.ext_getElem (by simp [expFrames])
  intro idx h1 h2
  have hidx : idx < h.length := by simpa [expFrames] using h1
  simp only [List.getElem_map, List.getElem_range]
  have hid : (expFrames v shape h).id.getD idx 0 = (h[idx]).id := by
    simp [expFrames, List.getD_eq_getElem?_getD, List.getElem?_eq_getElem hidx]
  rw [hid, writeFrame_C v shape h idx hidx h30 h22 hn]

#print axioms writeFrames_B
#print axioms writeFrames_C
end Peppi
