import Peppi.Lemmas.C01A
import Peppi.Lemmas.C01B
import Peppi.Lemmas.C01C
import Peppi.Lemmas.C01G
import Peppi.Lemmas.C10A
import Peppi.Lemmas.C10Gen
import Peppi.Lemmas.PortMap
import Peppi.Lemmas.Trunc
/-! One statement per property over **every** version: the four regime developments (`_A`: ≥ 3.0 without a
    Gecko block, `_G`: ≥ 3.3 with one, `_B`: 2.2–2.x, `_C`: < 2.2) glued by a case split on the version.
    `Replay.WFAny` is what the properties call a *well-formed replay*; it no longer mentions the port map
    (`portMap_of_gameStart` derives it from the accepted start block). -/
namespace Peppi
open Extracted

/-- the raw element of the recorder's canonical file for a history: the framing regime follows from the version,
    a Gecko block is present when given -/
def Replay.rawAny (r : Replay) (v : Ver) (shape : List PortOccupancy) : Option GeckoBlocks → Bytes
  | some g => r.rawG v shape g
  | none => if v.gte 3 0 then r.raw v shape else if v.gte 2 2 then r.rawB v shape else r.rawC v shape

/-- the canonical `.slp` file of a history -/
def Replay.encodeAny (r : Replay) (v : Ver) (shape : List PortOccupancy) : Option GeckoBlocks → Bytes
  | some g => r.encodeG v shape g
  | none => if v.gte 3 0 then r.encode v shape else if v.gte 2 2 then r.encodeB v shape else r.encodeC v shape

/-- the game the reader is expected to return -/
def Replay.gameAny (r : Replay) (s : Start) (ge : Option End) : Option GeckoBlocks → Game
  | some g => r.gameG s ge g
  | none => r.game s ge

/-- **Well-formed replay, any version.**  The start block is accepted by `game_start`; every frame occurrence has one
    (optional) character entry per occupied slot and payloads of the sizes the version prescribes; below 2.2 (no
    Frame Start events) ids run consecutively from −123 and every frame has at least one character; Game End is
    absent, single or doubled-identical and accepted by `game_end`; metadata is absent or a well-formed tree; a Gecko
    block needs version ≥ 3.3, full non-final blocks, a last block of 1..512 bytes and a total that is non-zero
    mod 2^16; the raw element is shorter than 2^32 bytes. -/
structure Replay.WFAny (T : TextOracle) (r : Replay) (s : Start) (gk : Option GeckoBlocks) : Prop where
  start : gameStart T r.startBlock = .ok s
  startLen : 0 < r.startBlock.length ∧ r.startBlock.length < 65536
  frames : ∀ o ∈ r.frames, o.OK s.version (nSlots (portOccupancy s))
  seq : s.version.gte 2 2 = false → ∀ pre o post, r.frames = pre ++ o :: post →
    ((pre.map (·.id)).getLast?).getD (FIRST_INDEX - 1) + 1 = o.id ∧ presentFrom 0 o.chars ≠ []
  endOK : ∀ e, r.fend = some e → 0 < e.length ∧ e.length < 65536 ∧ ∃ ge, gameEnd e = .ok ge
  endLenOK : 0 < r.endLen s.version ∧ r.endLen s.version < 65536
  doubledOK : r.doubled = true → ∃ e, r.fend = some e ∧ e.length = endSize s.version
  metadata : ∀ m, r.metadata = some m → KVs.WF T.utf8Ok 1 m
  gecko : ∀ g, gk = some g → s.version.gte 3 3 = true ∧ (∀ b ∈ g.init, FullBlock b) ∧ LastBlock g.last ∧
    0 < g.total % 65536 ∧ g.total < 2 ^ 32
  rawLen : (r.rawAny s.version (portOccupancy s) gk).length < 256 ^ 4

/-- the four regime-specific well-formedness records, recovered from `WFAny` -/
theorem Replay.WFAny.cases {T : TextOracle} {r : Replay} {s : Start} {gk : Option GeckoBlocks} (h : r.WFAny T s gk) :
    (∃ g, gk = some g ∧ r.WFG T s g) ∨
    (gk = none ∧ s.version.gte 3 0 = true ∧ r.WF T s) ∨
    (gk = none ∧ s.version.gte 3 0 = false ∧ s.version.gte 2 2 = true ∧ r.WFB T s) ∨
    (gk = none ∧ s.version.gte 3 0 = false ∧ s.version.gte 2 2 = false ∧ r.WFC T s) := by
  obtain ⟨hpm, hports⟩ := portMap_of_gameStart T r.startBlock s h.start
  cases gk with
  | some g =>
    left
    obtain ⟨h33, hfull, hlast, hnz, hlt⟩ := h.gecko g rfl
    have h30 : s.version.gte 3 0 = true := Ver.gte_trans _ 3 3 3 0 (by omega) h33
    have h22 : s.version.gte 2 2 = true := Ver.gte_trans _ 3 3 2 2 (by omega) h33
    exact ⟨g, rfl, ⟨h.start, h30, h22, h33, h.startLen, hpm, hports, h.frames, h.endOK, h.endLenOK, h.doubledOK, h.metadata,
      hfull, hlast, hnz, hlt, by simpa [Replay.rawAny] using h.rawLen⟩⟩
  | none =>
    right
    by_cases h30 : s.version.gte 3 0 = true
    · left
      have h22 : s.version.gte 2 2 = true := Ver.gte_trans _ 3 0 2 2 (by omega) h30
      exact ⟨rfl, h30, ⟨h.start, h30, h22, h.startLen, hpm, hports, h.frames, h.endOK, h.endLenOK, h.doubledOK, h.metadata,
        by simpa [Replay.rawAny, h30] using h.rawLen⟩⟩
    · right
      have h30' : s.version.gte 3 0 = false := by simpa using h30
      by_cases h22 : s.version.gte 2 2 = true
      · left
        exact ⟨rfl, h30', h22, ⟨h.start, h30', h22, h.startLen, hpm, hports, h.frames, h.endOK, h.endLenOK, h.doubledOK, h.metadata,
          by simpa [Replay.rawAny, h30', h22] using h.rawLen⟩⟩
      · right
        have h22' : s.version.gte 2 2 = false := by simpa using h22
        exact ⟨rfl, h30', h22', ⟨h.start, h30', h22', h.seq h22', h.startLen, hpm, hports, h.frames, h.endOK, h.endLenOK, h.doubledOK,
          h.metadata, by simpa [Replay.rawAny, h30', h22'] using h.rawLen⟩⟩

/-- **C04, every version**: the reader consumes the canonical file of a well-formed replay to its last byte and returns
    exactly the expected columnar game (ids, presence, rows, item grouping, column lengths; Gecko codes when present). -/
theorem C04_any (T : TextOracle) (r : Replay) (s : Start) (gk : Option GeckoBlocks) (h : r.WFAny T s gk) :
    ∃ ge : Option End, r.fend.map gameEnd = ge.map Res.ok ∧
      readP T {} (r.encodeAny s.version (portOccupancy s) gk) = .ok (r.gameAny s ge gk, []) := by
  rcases h.cases with ⟨g, rfl, hg⟩ | ⟨rfl, h30, ha⟩ | ⟨rfl, h30, h22, hb⟩ | ⟨rfl, h30, h22, hc⟩
  · simpa [Replay.encodeAny, Replay.gameAny] using readP_encode_G T r s g hg
  · simpa [Replay.encodeAny, Replay.gameAny, h30] using readP_encode_A T r s ha
  · simpa [Replay.encodeAny, Replay.gameAny, h30, h22] using readP_encode_B T r s hb
  · simpa [Replay.encodeAny, Replay.gameAny, h30, h22] using readP_encode_C T r s hc

/-- **C01, every version ≤ the maximum**: reading the canonical file of a well-formed replay and writing the game back
    reproduces the file byte for byte. -/
theorem C01_any (T : TextOracle) (r : Replay) (s : Start) (gk : Option GeckoBlocks) (h : r.WFAny T s gk)
    (hmax : assertMaxVersion s.version = .ok ()) :
    ∃ g, readSlp T {} (r.encodeAny s.version (portOccupancy s) gk) = .ok g ∧
      writeSlp g = .ok (r.encodeAny s.version (portOccupancy s) gk) := by
  rcases h.cases with ⟨g, rfl, hg⟩ | ⟨rfl, h30, ha⟩ | ⟨rfl, h30, h22, hb⟩ | ⟨rfl, h30, h22, hc⟩
  · simpa [Replay.encodeAny] using C01_G T r s g hg hmax
  · simpa [Replay.encodeAny, h30] using C01_A T r s ha hmax
  · simpa [Replay.encodeAny, h30, h22] using C01_B T r s hb hmax
  · simpa [Replay.encodeAny, h30, h22] using C01_C T r s hc hmax

/-- **C07 (`.slp`), every version, full parse**: every proper prefix of the canonical file of a well-formed replay is
    rejected with an error (hashing on or off). -/
theorem C07_any (T : TextOracle) (r : Replay) (s : Start) (gk : Option GeckoBlocks) (h : r.WFAny T s gk) (hash : Bool)
    (n : Nat) (hn : n < (r.encodeAny s.version (portOccupancy s) gk).length) :
    ∃ e, readSlp T { skipFrames := false, computeHash := hash } ((r.encodeAny s.version (portOccupancy s) gk).take n) = .err e := by
  obtain ⟨ge, _, hok⟩ := C04_any T r s gk h
  exact C07_slp_general T _ _ _ (show readP T { skipFrames := false, computeHash := hash } _ = _ from hok) n hn

/-- **C10 (`.slp`), every version**: on a finished well-formed replay the skip-frames reader lands on the last Game End,
    consumes the file to its last byte and returns the start block, that Game End, the metadata and the empty frame set. -/
theorem C10_any (T : TextOracle) (r : Replay) (s : Start) (gk : Option GeckoBlocks) (h : r.WFAny T s gk)
    (e : Bytes) (hfe : r.fend = some e) (hash : Bool) :
    ∃ ge, gameEnd e = .ok ge ∧
      readP T { skipFrames := true, computeHash := hash } (r.encodeAny s.version (portOccupancy s) gk) = .ok (r.gameSkip s ge, []) := by
  rcases h.cases with ⟨g, rfl, hg⟩ | ⟨rfl, h30, ha⟩ | ⟨rfl, h30, h22, hb⟩ | ⟨rfl, h30, h22, hc⟩
  · simpa [Replay.encodeAny] using readP_skip_G T r s g hg e hfe hash
  · simpa [Replay.encodeAny, h30] using readP_skip_A T r s ha e hfe hash
  · simpa [Replay.encodeAny, h30, h22] using readP_skip_B T r s hb e hfe hash
  · simpa [Replay.encodeAny, h30, h22] using readP_skip_C T r s hc e hfe hash

/-- **C07 (`.slp`), every version, skip-frames parse** of a finished replay. -/
theorem C07_any_skip (T : TextOracle) (r : Replay) (s : Start) (gk : Option GeckoBlocks) (h : r.WFAny T s gk)
    (e : Bytes) (hfe : r.fend = some e) (hash : Bool)
    (n : Nat) (hn : n < (r.encodeAny s.version (portOccupancy s) gk).length) :
    ∃ err, readSlp T { skipFrames := true, computeHash := hash } ((r.encodeAny s.version (portOccupancy s) gk).take n) = .err err := by
  obtain ⟨ge, _, hskip⟩ := C10_any T r s gk h e hfe hash
  exact C07_slp_general T _ _ _ hskip n hn

/-- **C10 / C11 (`.slp`), every version**: full and skip-frames reads of a finished well-formed replay agree on start,
    end and metadata, hash the same range (the whole file) and the skipping one has the empty frame set. -/
theorem C10_any_agree (T : TextOracle) (r : Replay) (s : Start) (gk : Option GeckoBlocks) (h : r.WFAny T s gk)
    (e : Bytes) (hfe : r.fend = some e) (hash : Bool) :
    ∃ gFull gSkip, readSlp T { skipFrames := false, computeHash := hash } (r.encodeAny s.version (portOccupancy s) gk) = .ok gFull ∧
      readSlp T { skipFrames := true, computeHash := hash } (r.encodeAny s.version (portOccupancy s) gk) = .ok gSkip ∧
      gSkip.start = gFull.start ∧ gSkip.fend = gFull.fend ∧ gSkip.metadata = gFull.metadata ∧ gSkip.hashedLen = gFull.hashedLen ∧
      gFull.hashedLen = (if hash then some (r.encodeAny s.version (portOccupancy s) gk).length else none) ∧
      gSkip.frames = FCols.new s.version (portOccupancy s) := by
  obtain ⟨ge, hge, hskip⟩ := C10_any T r s gk h e hfe hash
  obtain ⟨ge', hge', hfull⟩ := C04_any T r s gk h
  have hfull' : readP T { skipFrames := false, computeHash := hash } (r.encodeAny s.version (portOccupancy s) gk) = .ok (r.gameAny s ge' gk, []) := hfull
  have hee : ge' = some ge := by
    rw [hfe] at hge'
    cases ge' with
    | none => simp at hge'
    | some x => simp only [Option.map_some, Option.some.injEq] at hge'; rw [hge] at hge'; cases hge'; rfl
  refine ⟨_, _, by unfold readSlp; rw [hfull'], by unfold readSlp; rw [hskip], ?_⟩
  subst hee
  cases gk <;> cases hash <;> simp [Replay.gameAny, Replay.gameG, Replay.game, Replay.gameSkip]

end Peppi
