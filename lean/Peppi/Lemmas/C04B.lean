import Peppi.Lemmas.C04A
import Peppi.Lemmas.FrameStepB
import Peppi.Lemmas.Trunc
/-! C04 at file level for the regime 2.2 ≤ v < 3.0 (Frame Start opens a frame and lazily closes the previous one; no items,
    no Frame End; `read` closes the dangling frame at the end). -/
namespace Peppi
open Extracted

def canonTableB (v : Ver) (startLen endLen : Nat) : List (Nat × Nat) :=
  [(EV_GAME_START, startLen), (EV_FRAME_PRE, 6 + rowSize v Pre.readPush), (EV_FRAME_POST, 6 + rowSize v Post.readPush),
   (EV_GAME_END, endLen), (EV_FRAME_START, 4 + rowSize v Start.readPush)]

def Replay.rawB (r : Replay) (v : Ver) (shape : List PortOccupancy) : Bytes :=
  let t := canonTableB v r.startBlock.length (r.endLen v)
  [0x35, UInt8.ofNat (3 * t.length + 1)] ++ encTable t ++ encEvent (EV_GAME_START, r.startBlock) ++
    encEvents (r.frames.flatMap (frameEventsB v shape)) ++ encEvents r.endEvents

def Replay.encodeB (r : Replay) (v : Ver) (shape : List PortOccupancy) : Bytes :=
  FILE_SIGNATURE ++ (toBE 4 (r.rawB v shape).length ++ (r.rawB v shape ++ r.tail))

structure Replay.WFB (T : TextOracle) (r : Replay) (s : Start) : Prop where
  start : gameStart T r.startBlock = .ok s
  v30 : s.version.gte 3 0 = false
  v22 : s.version.gte 2 2 = true
  startLen : 0 < r.startBlock.length ∧ r.startBlock.length < 65536
  portMap : PortMapOK (portIdxOf (portOccupancy s)) (portOccupancy s)
  ports : ∀ p ∈ portOccupancy s, p.port < 256
  frames : ∀ o ∈ r.frames, o.OK s.version (nSlots (portOccupancy s))
  endOK : ∀ e, r.fend = some e → 0 < e.length ∧ e.length < 65536 ∧ ∃ ge, gameEnd e = .ok ge
  endLenOK : 0 < r.endLen s.version ∧ r.endLen s.version < 65536
  doubledOK : r.doubled = true → ∃ e, r.fend = some e ∧ e.length = endSize s.version
  metadata : ∀ m, r.metadata = some m → KVs.WF T.utf8Ok 1 m
  rawLen : (r.rawB s.version (portOccupancy s)).length < 256 ^ 4

theorem canonTableB_ok (v : Ver) (sl el : Nat) (hs : 0 < sl ∧ sl < 65536) (he : 0 < el ∧ el < 65536) : TableOK (canonTableB v sl el) := by
  obtain ⟨h1, h2, h3, _, _⟩ := rows_bounded v
  intro e he'
  simp only [canonTableB, List.mem_cons, List.not_mem_nil, or_false] at he'
  rcases he' with rfl | rfl | rfl | rfl | rfl <;>
    (simp only [EV_GAME_START, EV_FRAME_PRE, EV_FRAME_POST, EV_GAME_END, EV_FRAME_START]; omega)

theorem canonTableB_nodup (v : Ver) (sl el : Nat) : ((canonTableB v sl el).map Prod.fst).Nodup := by
  simp only [canonTableB, List.map_cons, List.map_nil]; decide

def ps0B (r : Replay) (s : Start) : ParseState :=
  let t := canonTableB s.version r.startBlock.length (r.endLen s.version)
  { st := { sizes := t.reverse, splitRaw := [], splitActual := 0, portIdx := portIdxOf (portOccupancy s), start := s,
            fend := none, frames := FCols.new s.version (portOccupancy s), metadata := none, gecko := none, doubleGameEnd := none },
    bytesRead := 1 + (3 * t.length + 1) + r.startBlock.length + 1 }

theorem parseStart_encB (T : TextOracle) (r : Replay) (s : Start) (h : r.WFB T s) (rest : Bytes) :
    let t := canonTableB s.version r.startBlock.length (r.endLen s.version)
    parseStart T ([0x35, UInt8.ofNat (3 * t.length + 1)] ++ encTable t ++ (encEvent (EV_GAME_START, r.startBlock) ++ rest)) =
      .ok (ps0B r s, rest) := by
  intro t
  have ht : TableOK t := canonTableB_ok s.version _ _ h.startLen h.endLenOK
  have hnd := canonTableB_nodup s.version r.startBlock.length (r.endLen s.version)
  have hlen : 3 * t.length + 1 < 256 := by simp [t, canonTableB]
  have hp := parsePayloads_enc t ht hlen hnd r.startBlock.length (r.endLen s.version) (by simp [t, canonTableB]) (by simp [t, canonTableB])
    (encEvent (EV_GAME_START, r.startBlock) ++ rest)
  simp only [parseStart, bind]
  rw [hp]
  simp only [parseGameStart, bind, encEvent, List.cons_append, Rd.u8]
  have hsz : sizeOfEv t.reverse (UInt8.ofNat EV_GAME_START).toNat = some r.startBlock.length := by
    have : (UInt8.ofNat EV_GAME_START).toNat = EV_GAME_START := by decide
    rw [this]; exact sizeOfEv_reverse t hnd _ _ (by simp [t, canonTableB])
  simp only [hsz, Rd.take, List.length_append]
  have hlt : ¬ (r.startBlock.length + rest.length < r.startBlock.length) := by omega
  have hcode : (UInt8.ofNat EV_GAME_START).toNat = EV_GAME_START := by decide
  simp only [hlt, ↓reduceIte, List.take_left' rfl, List.drop_left' rfl, hcode, Rd.lift, h.start, pure, portIdxOf]
  rfl

theorem frameEventsB_sizes (v : Ver) (shape : List PortOccupancy) (o : FrameOcc) (ho : o.OK v (nSlots shape)) (sl el : Nat) :
    ∀ e ∈ frameEventsB v shape o, e.1 < 256 ∧ e.1 ≠ EV_SPLITTER ∧ e.1 ≠ EV_GAME_END ∧
      sizeOfEv (canonTableB v sl el).reverse e.1 = some e.2.length := by
  have hnd := canonTableB_nodup v sl el
  have look : ∀ c s, (c, s) ∈ canonTableB v sl el → sizeOfEv (canonTableB v sl el).reverse c = some s :=
    fun c s h => sizeOfEv_reverse _ hnd c s h
  have hchar : ∀ post, ∀ e ∈ charEvents post v o.id (slotList shape 0) (presentFrom 0 o.chars),
      e.1 < 256 ∧ e.1 ≠ EV_SPLITTER ∧ e.1 ≠ EV_GAME_END ∧ sizeOfEv (canonTableB v sl el).reverse e.1 = some e.2.length := by
    intro post e he
    simp only [charEvents, List.mem_map] at he
    obtain ⟨co, hco, rfl⟩ := he
    obtain ⟨hc, hocc⟩ := presentFrom_ok v (nSlots shape) o ho co hco
    obtain ⟨d, hd⟩ : ∃ d, (slotList shape 0)[co.1]? = some d := ⟨_, List.getElem?_eq_getElem hc⟩
    simp only [charEvent, hd]
    cases post with
    | true =>
      simp only [↓reduceIte, encChar_length _ _ _ _ _ _ hocc.2]
      refine ⟨by decide, by decide, by decide, look _ _ (by simp [canonTableB])⟩
    | false =>
      simp only [Bool.false_eq_true, ↓reduceIte, encChar_length _ _ _ _ _ _ hocc.1]
      refine ⟨by decide, by decide, by decide, look _ _ (by simp [canonTableB])⟩
  intro e he
  simp only [frameEventsB, List.append_assoc, List.cons_append, List.nil_append, List.mem_cons, List.mem_append] at he
  rcases he with rfl | he | he
  · simp only [encPlain_length _ _ _ _ ho.start]
    exact ⟨by decide, by decide, by decide, look _ _ (by simp [canonTableB])⟩
  · exact hchar false e he
  · exact hchar true e he

/-- whole histories, regime B: the reader ends in a state whose *closed* columns are the expected ones -/
theorem frames_B (v : Ver) (shape : List PortOccupancy) (h30 : v.gte 3 0 = false) (h22 : v.gte 2 2 = true)
    (hports : ∀ p ∈ shape, p.port < 256) :
    ∀ (h h0 : List FrameOcc) (st : PState), st.start.version = v → OpenInv v shape h0 st.frames → PortMapOK st.portIdx shape →
      (∀ o ∈ h, o.OK v (nSlots shape)) →
      ∃ st', runEvents st (h.flatMap (frameEventsB v shape)) = .ok st' ∧ st'.ctx = st.ctx ∧ st'.fend = st.fend ∧ st'.gecko = st.gecko ∧
        st'.metadata = st.metadata ∧ st'.doubleGameEnd = st.doubleGameEnd ∧ OpenInv v shape (h0 ++ h) st'.frames := by
  intro h
  induction h with
  | nil => intro h0 st _ hinv _ _; exact ⟨st, rfl, rfl, rfl, rfl, rfl, rfl, by simpa using hinv⟩
  | cons o rest ih =>
    intro h0 st hv hinv hmap hok
    obtain ⟨s1, hr1, hc1, hf1, hg1, hm1, hd1, hi1⟩ := frame_step_B v shape h0 o st hv h30 h22 hinv hmap hports (hok o (by simp))
    have hv1 : s1.start.version = v := by
      have : s1.start = st.start := congrArg (fun c => c.2.2.2.1) hc1
      rw [this]; exact hv
    have hmap1 : PortMapOK s1.portIdx shape := by
      have : s1.portIdx = st.portIdx := congrArg (fun c => c.2.2.2.2) hc1
      rw [this]; exact hmap
    obtain ⟨s2, hr2, hc2, hf2, hg2, hm2, hd2, hi2⟩ := ih (h0 ++ [o]) s1 hv1 hi1 hmap1 (fun o' ho' => hok o' (by simp [ho']))
    refine ⟨s2, ?_, hc2.trans hc1, hf2.trans hf1, hg2.trans hg1, hm2.trans hm1, hd2.trans hd1, by simpa using hi2⟩
    rw [List.flatMap_cons, runEvents_append, hr1]
    exact hr2

#print axioms frames_B
end Peppi

namespace Peppi
open Extracted

theorem close_eq_exp (v : Ver) (shape : List PortOccupancy) (h : List FrameOcc) (f : FCols) (hinv : OpenInv v shape h f) :
    f.close = expFrames v shape h := by
  obtain ⟨hid, hst, hfe, hio, hit, hcl⟩ := hinv
  have : f.close = { f with ports := f.close.ports } := rfl
  rw [this, hcl]
  cases f
  simp only [expFrames] at *
  simp only [FCols.mk.injEq]
  exact ⟨hid, trivial, hst, hfe, hio, hit⟩

theorem readTail_exactB (T : TextOracle) (rawLen : Nat) (ps : ParseState) (md : Option KVs)
    (hv : ps.st.start.version.lt 3 0 = true) (hbr : ¬ ps.bytesRead < rawLen) (hmd : ps.st.metadata = none)
    (hwf : ∀ m, md = some m → KVs.WF T.utf8Ok 1 m) :
    readTail T rawLen ps (metaBytes md) = .ok (gameOf { ps.st with frames := ps.st.frames.close } md ps.st.doubleGameEnd, []) := by
  unfold readTail
  simp only [hv, ↓reduceIte, hbr]
  have := readMeta T { ps.st with frames := ps.st.frames.close } md hmd hwf
  simp only [bind, pure] at this ⊢
  exact this

theorem readTail_doubledB (T : TextOracle) (rawLen : Nat) (ps : ParseState) (md : Option KVs) (e : Bytes)
    (hv : ps.st.start.version.lt 3 0 = true) (hbr : ps.bytesRead + (1 + e.length) = rawLen)
    (he : e.length = endSize ps.st.start.version) (hmd : ps.st.metadata = none)
    (hwf : ∀ m, md = some m → KVs.WF T.utf8Ok 1 m) :
    readTail T rawLen ps (encEvent (EV_GAME_END, e) ++ metaBytes md) =
      .ok (gameOf { ps.st with frames := ps.st.frames.close } md (some true), []) := by
  unfold readTail
  have hlt : ps.bytesRead < rawLen := by omega
  have hlen : rawLen - ps.bytesRead = 1 + e.length := by omega
  simp only [hv, ↓reduceIte, hlt, hlen]
  have htake : Rd.take (1 + e.length) (encEvent (EV_GAME_END, e) ++ metaBytes md) = .ok (encEvent (EV_GAME_END, e), metaBytes md) := by
    have hl : (encEvent (EV_GAME_END, e)).length = 1 + e.length := by simp [encEvent]; omega
    simp only [Rd.take, List.length_append, hl]
    have : ¬ (1 + e.length + (metaBytes md).length < 1 + e.length) := by omega
    simp only [this, ↓reduceIte, List.take_left' hl, List.drop_left' hl]
  have hq := readMeta T { ps.st with frames := ps.st.frames.close, doubleGameEnd := some true } md hmd hwf
  simp only [bind, pure] at hq ⊢
  rw [htake]
  have hhead : (encEvent (EV_GAME_END, e)).head? = some 0x39 := by simp [encEvent]; decide
  simp only [he, hhead, and_self, ↓reduceIte]
  exact hq

theorem raw_lengthB (r : Replay) (v : Ver) (shape : List PortOccupancy) :
    (r.rawB v shape).length = 2 + 15 + (1 + r.startBlock.length) + (encEvents (r.frames.flatMap (frameEventsB v shape))).length
      + (encEvents r.endEvents).length := by
  simp [Replay.rawB, encTable_length, canonTableB, encEvent]; omega

/-- **C04, file level, 2.2 ≤ v < 3.0** -/
theorem readP_encode_B (T : TextOracle) (r : Replay) (s : Start) (h : r.WFB T s) :
    ∃ ge : Option End, r.fend.map gameEnd = ge.map Res.ok ∧
      readP T {} (r.encodeB s.version (portOccupancy s)) = .ok (r.game s ge, []) := by
  obtain ⟨fes, hfes⟩ : ∃ fes, fes = r.frames.flatMap (frameEventsB s.version (portOccupancy s)) := ⟨_, rfl⟩
  have hrl := raw_lengthB r s.version (portOccupancy s)
  rw [← hfes] at hrl
  have hraw0 : (r.rawB s.version (portOccupancy s)).length ≠ 0 := by rw [hrl]; omega
  have hps0 : (ps0B r s).bytesRead = 2 + 15 + (1 + r.startBlock.length) := by simp [ps0B, canonTableB]; omega
  -- the frames
  obtain ⟨stF, hrun, hctx, hfend, hgecko, hmeta, hdge, hinv⟩ := frames_B s.version (portOccupancy s) h.v30 h.v22 h.ports r.frames []
    (ps0B r s).st rfl (by
      have := FCols_new_eq s.version (portOccupancy s)
      show OpenInv _ _ [] (FCols.new s.version (portOccupancy s))
      rw [this]
      refine ⟨rfl, rfl, rfl, rfl, rfl, ?_⟩
      rw [← this]
      have hc : (FCols.new s.version (portOccupancy s)).close = FCols.new s.version (portOccupancy s) := by
        simp only [FCols.close, FCols.new, FCols.len, List.length_nil, List.map_map]
        congr 1
        apply List.map_congr_left
        intro p _
        simp only [Function.comp]
        cases p.follower <;> simp [DCols.padTo, DCols.len, DCols.empty]
      rw [hc, this]
      rfl)
    h.portMap h.frames
  simp only [List.nil_append] at hinv
  rw [← hfes] at hrun
  have hsizes : stF.sizes = (ps0B r s).st.sizes := congrArg (fun c => c.1) hctx
  have hstart : stF.start = s := congrArg (fun c => c.2.2.2.1) hctx
  have hloop : ∀ rest, ∃ k,
      eventLoop ((encEvents fes ++ rest).length + 1) (r.rawB s.version (portOccupancy s)).length (ps0B r s) (encEvents fes ++ rest) =
        eventLoop (k + 1) (r.rawB s.version (portOccupancy s)).length ⟨stF, (ps0B r s).bytesRead + (encEvents fes).length⟩ rest := by
    intro rest
    have hle : fes.length ≤ (encEvents fes ++ rest).length := by have := events_le_bytes fes; simp; omega
    refine ⟨(encEvents fes ++ rest).length - fes.length, ?_⟩
    have := eventLoop_run (r.rawB s.version (portOccupancy s)).length fes (encEvents fes ++ rest).length (ps0B r s) stF rest hle
      (by
        intro e he
        rw [hfes] at he
        obtain ⟨o, ho, heo⟩ := List.mem_flatMap.mp he
        exact frameEventsB_sizes s.version (portOccupancy s) o (h.frames o ho) _ _ e heo)
      hrun (by right; rw [hps0, hrl]; omega)
    rw [this]
    congr 1
    omega
  have hv30 : stF.start.version.lt 3 0 = true := by rw [hstart]; simp [Ver.lt, h.v30]
  have hsize : sizeOfEv stF.sizes EV_GAME_END = some (r.endLen s.version) := by
    rw [hsizes]
    show sizeOfEv (canonTableB s.version r.startBlock.length (r.endLen s.version)).reverse EV_GAME_END = _
    exact sizeOfEv_reverse _ (canonTableB_nodup _ _ _) _ _ (by simp [canonTableB])
  have hclose : stF.frames.close = expFrames s.version (portOccupancy s) r.frames := close_eq_exp _ _ _ _ hinv
  have hmd0 : stF.metadata = none := hmeta
  have hread : ∀ g rest, loopTail T (r.rawB s.version (portOccupancy s)).length (ps0B r s) (encEvents fes ++ (encEvents r.endEvents ++ r.tail)) = .ok (g, rest) →
      readP T {} (r.encodeB s.version (portOccupancy s)) = .ok (g, rest) := by
    intro g rest hk
    have hsplit : r.rawB s.version (portOccupancy s) ++ r.tail =
        [0x35, UInt8.ofNat (3 * (canonTableB s.version r.startBlock.length (r.endLen s.version)).length + 1)] ++
          encTable (canonTableB s.version r.startBlock.length (r.endLen s.version)) ++
          (encEvent (EV_GAME_START, r.startBlock) ++ (encEvents fes ++ (encEvents r.endEvents ++ r.tail))) := by
      simp [Replay.rawB, hfes, List.append_assoc]
    have hstart' := parseStart_encB T r s h (encEvents fes ++ (encEvents r.endEvents ++ r.tail))
    simp only [] at hstart'
    rw [← hsplit] at hstart'
    unfold readP Replay.encodeB
    simp only [Bool.false_eq_true, ↓reduceIte, bind]
    rw [parseHeader_enc _ h.rawLen]
    simp only []
    rw [hstart']
    simp only [pure]
    exact hk
  cases hfe : r.fend with
  | none =>
    have hends : r.endEvents = [] := by simp [Replay.endEvents, hfe]
    have hdbl : r.doubled = false := by
      cases hd : r.doubled with
      | false => rfl
      | true => obtain ⟨e, he, _⟩ := h.doubledOK hd; rw [hfe] at he; cases he
    refine ⟨none, by simp, ?_⟩
    apply hread
    simp only [hends, encEvents_nil, List.nil_append, loopTail, bind]
    obtain ⟨k, hl⟩ := hloop r.tail
    rw [hl]
    have hbr : ¬ (ps0B r s).bytesRead + (encEvents fes).length < (r.rawB s.version (portOccupancy s)).length := by
      rw [hps0, hrl, hends]; simp [encEvents_nil]
    rw [eventLoop_done k _ _ _ hraw0 hbr]
    simp only []
    rw [metaBytes_eq, readTail_exactB T _ ⟨stF, _⟩ r.metadata hv30 hbr hmd0 h.metadata]
    simp only [gameOf, Replay.game, hclose, hstart, hfend, hgecko, hdge, hdbl, ps0B]
    rfl
  | some e =>
    obtain ⟨hel, _, ge, hge⟩ := h.endOK e hfe
    have hendlen : r.endLen s.version = e.length := by simp [Replay.endLen, hfe]
    rw [hendlen] at hsize
    refine ⟨some ge, by simp [hge], ?_⟩
    apply hread
    cases hd : r.doubled with
    | false =>
      have hends : r.endEvents = [(EV_GAME_END, e)] := by simp [Replay.endEvents, hfe, hd]
      have hbrlt : (ps0B r s).bytesRead + (encEvents fes).length < (r.rawB s.version (portOccupancy s)).length := by
        rw [hps0, hrl, hends, encEvents_cons]; simp [encEvent]
      simp only [hends, encEvents_cons, encEvents_nil, List.append_nil, loopTail, bind]
      obtain ⟨k, hl⟩ := hloop (encEvent (EV_GAME_END, e) ++ r.tail)
      rw [hl, loop_end k _ ⟨stF, _⟩ e ge r.tail hsize hge hbrlt]
      simp only []
      have hbr : ¬ (ps0B r s).bytesRead + (encEvents fes).length + e.length + 1 < (r.rawB s.version (portOccupancy s)).length := by
        rw [hps0, hrl, hends, encEvents_cons]; simp [encEvent, encEvents_nil]; omega
      rw [metaBytes_eq]
      refine (readTail_exactB T _ ⟨{ stF with fend := some ge }, (ps0B r s).bytesRead + (encEvents fes).length + e.length + 1⟩
        r.metadata hv30 hbr hmd0 h.metadata).trans ?_
      simp only [gameOf, Replay.game, hclose, hstart, hgecko, hdge, hd, ps0B]
      rfl
    | true =>
      obtain ⟨e', he', hlen'⟩ := h.doubledOK hd
      rw [hfe] at he'; cases he'
      have hends : r.endEvents = [(EV_GAME_END, e), (EV_GAME_END, e)] := by simp [Replay.endEvents, hfe, hd]
      have hbrlt : (ps0B r s).bytesRead + (encEvents fes).length < (r.rawB s.version (portOccupancy s)).length := by
        rw [hps0, hrl, hends, encEvents_cons]; simp [encEvent]
      simp only [hends, encEvents_cons, encEvents_nil, List.append_nil, List.append_assoc, loopTail, bind]
      obtain ⟨k, hl⟩ := hloop (encEvent (EV_GAME_END, e) ++ (encEvent (EV_GAME_END, e) ++ r.tail))
      rw [hl, loop_end k _ ⟨stF, _⟩ e ge _ hsize hge hbrlt]
      simp only []
      have hbr : (ps0B r s).bytesRead + (encEvents fes).length + e.length + 1 + (1 + e.length) = (r.rawB s.version (portOccupancy s)).length := by
        rw [hps0, hrl, hends, encEvents_cons, encEvents_cons]; simp [encEvent, encEvents_nil]; omega
      rw [metaBytes_eq]
      refine (readTail_doubledB T _ ⟨{ stF with fend := some ge }, (ps0B r s).bytesRead + (encEvents fes).length + e.length + 1⟩
        r.metadata e hv30 hbr (by rw [hstart]; exact hlen') hmd0 h.metadata).trans ?_
      simp only [gameOf, Replay.game, hclose, hstart, hgecko, hdge, hd, ps0B]
      rfl

#print axioms readP_encode_B
end Peppi

namespace Peppi
/-- **C07, 2.2 ≤ v < 3.0**: every proper prefix of a well-formed file is rejected -/
theorem C07_slp_B (T : TextOracle) (r : Replay) (s : Start) (h : r.WFB T s) (hash : Bool) (n : Nat)
    (hn : n < (r.encodeB s.version (portOccupancy s)).length) :
    ∃ e, readSlp T { skipFrames := false, computeHash := hash } ((r.encodeB s.version (portOccupancy s)).take n) = .err e := by
  obtain ⟨ge, _, hok⟩ := readP_encode_B T r s h
  exact C07_slp_general T _ _ _ (show readP T { skipFrames := false, computeHash := hash } _ = _ from hok) n hn
end Peppi
