import Peppi.Lemmas.TailA
/-! C04 / read half of C01 at file level, regime ≥ 3.0 without Gecko block. -/
namespace Peppi
open Extracted

theorem handle_gameEnd (st : PState) (e : Bytes) (ge : End) (h : gameEnd e = .ok ge) :
    handleEvent st EV_GAME_END e = .ok { st with fend := some ge } := by
  unfold handleEvent
  simp only [EV_GAME_END, EV_PAYLOADS, EV_SPLITTER, EV_GECKO, EV_GAME_START, Nat.reduceEqDiff, ↓reduceIte, bind, pure, h]

/-- the game a well-formed replay denotes -/
def Replay.game (r : Replay) (s : Start) (ge : Option End) : Game :=
  { start := s, fend := ge, frames := expFrames s.version (portOccupancy s) r.frames, metadata := r.metadata, gecko := none,
    hashedLen := none, doubleGameEnd := if r.doubled then some true else none }

theorem metaBytes_eq (r : Replay) : r.tail = metaBytes r.metadata := rfl

/-- the loop stops when the whole raw element has been consumed -/
theorem eventLoop_done (fuel rawLen : Nat) (ps : ParseState) (bs : Bytes) (h0 : rawLen ≠ 0) (hbr : ¬ ps.bytesRead < rawLen) :
    eventLoop (fuel + 1) rawLen ps bs = .ok (ps, bs) := by
  rw [eventLoop_succ]; simp [h0, hbr]

theorem raw_length (r : Replay) (v : Ver) (shape : List PortOccupancy) :
    (r.raw v shape).length = 2 + 21 + (1 + r.startBlock.length) + (encEvents (r.frames.flatMap (frameEventsA v shape))).length
      + (encEvents r.endEvents).length := by
  simp [Replay.raw, encTable_length, canonTable, encEvent]; omega

theorem encEvents_nil : encEvents [] = [] := rfl

/-- the Game End event terminates the loop -/
theorem loop_end (k rawLen : Nat) (ps : ParseState) (e : Bytes) (ge : End) (rest : Bytes)
    (hsz : sizeOfEv ps.st.sizes EV_GAME_END = some e.length) (hge : gameEnd e = .ok ge) (hbr : ps.bytesRead < rawLen) :
    eventLoop (k + 1) rawLen ps (encEvent (EV_GAME_END, e) ++ rest) =
      .ok ({ st := { ps.st with fend := some ge }, bytesRead := ps.bytesRead + e.length + 1 }, rest) := by
  rw [eventLoop_succ]
  simp only [hbr, or_true, ↓reduceIte]
  rw [parseEvent_enc ps EV_GAME_END e rest (by decide) (by decide) hsz, handle_gameEnd ps.st e ge hge]
  simp

/-- **C04 (≥ 3.0, no Gecko block).** Reading the canonical file of a well-formed replay yields exactly the game it denotes:
    one row per frame occurrence in file order, presence bits = presence in the history, every row in its own slot,
    items grouped per frame, all columns of equal length. -/
theorem readP_encode_A (T : TextOracle) (r : Replay) (s : Start) (h : r.WF T s) :
    ∃ ge : Option End, r.fend.map gameEnd = ge.map Res.ok ∧
      readP T {} (r.encode s.version (portOccupancy s)) = .ok (r.game s ge, []) := by
  obtain ⟨fes, hfes⟩ : ∃ fes, fes = r.frames.flatMap (frameEventsA s.version (portOccupancy s)) := ⟨_, rfl⟩
  have hrl := raw_length r s.version (portOccupancy s)
  rw [← hfes] at hrl
  have hraw0 : (r.raw s.version (portOccupancy s)).length ≠ 0 := by rw [hrl]; omega
  have hps0 : (ps0 r s).bytesRead = 2 + 21 + (1 + r.startBlock.length) := by simp [ps0, canonTable]; omega
  have hpsF : (psFrames r s).bytesRead = 2 + 21 + (1 + r.startBlock.length) + (encEvents fes).length := by
    simp only [psFrames, hps0, hfes]
  -- header and start, shared by all cases
  have hread : ∀ g rest, loopTail T (r.raw s.version (portOccupancy s)).length (ps0 r s) (encEvents fes ++ (encEvents r.endEvents ++ r.tail)) = .ok (g, rest) →
      readP T {} (r.encode s.version (portOccupancy s)) = .ok (g, rest) := by
    intro g rest hk
    have hsplit : r.raw s.version (portOccupancy s) ++ r.tail =
        [0x35, UInt8.ofNat (3 * (canonTable s.version r.startBlock.length (r.endLen s.version)).length + 1)] ++
          encTable (canonTable s.version r.startBlock.length (r.endLen s.version)) ++
          (encEvent (EV_GAME_START, r.startBlock) ++ (encEvents fes ++ (encEvents r.endEvents ++ r.tail))) := by
      simp [Replay.raw, hfes, List.append_assoc]
    unfold readP
    simp only [Bool.false_eq_true, ↓reduceIte, Replay.encode, bind]
    rw [parseHeader_enc _ h.rawLen]
    simp only []
    rw [hsplit, parseStart_enc T r s h]
    simp only [pure]
    have hk' : loopTail T (r.raw s.version (portOccupancy s)).length
        { st := { sizes := (canonTable s.version r.startBlock.length (r.endLen s.version)).reverse, splitRaw := [],
                  splitActual := 0, portIdx := portIdxOf (portOccupancy s), start := s, fend := none,
                  frames := FCols.new s.version (portOccupancy s), metadata := none, gecko := none, doubleGameEnd := none },
          bytesRead := 1 + (3 * (canonTable s.version r.startBlock.length (r.endLen s.version)).length + 1) + r.startBlock.length + 1 }
        (encEvents fes ++ (encEvents r.endEvents ++ r.tail)) = .ok (g, rest) := hk
    rw [hk']
  -- frames part of the loop, for any continuation `rest`
  have hloop : ∀ rest, ∃ k,
      eventLoop ((encEvents fes ++ rest).length + 1) (r.raw s.version (portOccupancy s)).length (ps0 r s) (encEvents fes ++ rest) =
        eventLoop (k + 1) (r.raw s.version (portOccupancy s)).length (psFrames r s) rest := by
    intro rest
    have hle : fes.length ≤ (encEvents fes ++ rest).length := by have := events_le_bytes fes; simp; omega
    refine ⟨(encEvents fes ++ rest).length - fes.length, ?_⟩
    have := loop_frames T r s h (r.raw s.version (portOccupancy s)).length (encEvents fes ++ rest).length rest
      (by rw [← hfes]; exact hle) (by right; rw [hpsF, hrl]; omega)
    rw [← hfes] at this
    rw [this]
    congr 1
    omega
  have hv30 : (psFrames r s).st.start.version.lt 3 0 = false := by
    show s.version.lt 3 0 = false; simp [Ver.lt, h.v30]
  have hsize : sizeOfEv (psFrames r s).st.sizes EV_GAME_END = some (r.endLen s.version) := by
    show sizeOfEv (canonTable s.version r.startBlock.length (r.endLen s.version)).reverse EV_GAME_END = _
    exact sizeOfEv_reverse _ (canonTable_nodup _ _ _) _ _ (by simp [canonTable])
  cases hfe : r.fend with
  | none =>
    have hends : r.endEvents = [] := by simp [Replay.endEvents, hfe]
    have hdbl : r.doubled = false := by
      cases hd : r.doubled with
      | false => rfl
      | true => obtain ⟨e, he, _⟩ := h.doubledOK hd; rw [hfe] at he; cases he
    refine ⟨none, by simp, ?_⟩
    apply hread _ []
    simp only [hends, encEvents_nil, List.nil_append, loopTail, bind]
    obtain ⟨k, hl⟩ := hloop r.tail
    rw [hl]
    have hbr : ¬ (psFrames r s).bytesRead < (r.raw s.version (portOccupancy s)).length := by
      rw [hpsF, hrl, hends]; simp [encEvents_nil]
    rw [eventLoop_done k _ _ _ hraw0 hbr]
    simp only []
    rw [metaBytes_eq, readTail_exact T _ (psFrames r s) r.metadata hv30 hbr rfl h.metadata]
    simp [gameOf, Replay.game, psFrames, ps0, hdbl]
  | some e =>
    obtain ⟨hel, _, ge, hge⟩ := h.endOK e hfe
    have hendlen : r.endLen s.version = e.length := by simp [Replay.endLen, hfe]
    rw [hendlen] at hsize
    refine ⟨some ge, by simp [hge], ?_⟩
    apply hread _ []
    cases hd : r.doubled with
    | false =>
      have hends : r.endEvents = [(EV_GAME_END, e)] := by simp [Replay.endEvents, hfe, hd]
      have hbrlt : (psFrames r s).bytesRead < (r.raw s.version (portOccupancy s)).length := by
        rw [hpsF, hrl, hends, encEvents_cons]; simp [encEvent]
      simp only [hends, encEvents_cons, encEvents_nil, List.append_nil, loopTail, bind]
      obtain ⟨k, hl⟩ := hloop (encEvent (EV_GAME_END, e) ++ r.tail)
      rw [hl, loop_end k _ (psFrames r s) e ge r.tail hsize hge hbrlt]
      simp only []
      have hbr : ¬ (psFrames r s).bytesRead + e.length + 1 < (r.raw s.version (portOccupancy s)).length := by
        rw [hpsF, hrl, hends, encEvents_cons]; simp [encEvent, encEvents_nil]; omega
      rw [metaBytes_eq]
      refine (readTail_exact T _ ⟨{ (psFrames r s).st with fend := some ge }, (psFrames r s).bytesRead + e.length + 1⟩
        r.metadata hv30 hbr rfl h.metadata).trans ?_
      simp [gameOf, Replay.game, psFrames, ps0, hd]
    | true =>
      obtain ⟨e', he', hlen'⟩ := h.doubledOK hd
      rw [hfe] at he'; cases he'
      have hends : r.endEvents = [(EV_GAME_END, e), (EV_GAME_END, e)] := by simp [Replay.endEvents, hfe, hd]
      have hbrlt : (psFrames r s).bytesRead < (r.raw s.version (portOccupancy s)).length := by
        rw [hpsF, hrl, hends, encEvents_cons]; simp [encEvent]
      simp only [hends, encEvents_cons, encEvents_nil, List.append_nil, List.append_assoc, loopTail, bind]
      obtain ⟨k, hl⟩ := hloop (encEvent (EV_GAME_END, e) ++ (encEvent (EV_GAME_END, e) ++ r.tail))
      rw [hl, loop_end k _ (psFrames r s) e ge _ hsize hge hbrlt]
      simp only []
      have hbr : (psFrames r s).bytesRead + e.length + 1 + (1 + e.length) = (r.raw s.version (portOccupancy s)).length := by
        rw [hpsF, hrl, hends, encEvents_cons, encEvents_cons]; simp [encEvent, encEvents_nil]; omega
      rw [metaBytes_eq]
      refine (readTail_doubled T _ ⟨{ (psFrames r s).st with fend := some ge }, (psFrames r s).bytesRead + e.length + 1⟩
        r.metadata e hv30 hbr hlen' rfl h.metadata).trans ?_
      simp [gameOf, Replay.game, psFrames, ps0, hd]

/-- **C04, file level, ≥ 3.0**: bytes in, columnar game out -/
theorem read_encode_A (T : TextOracle) (r : Replay) (s : Start) (h : r.WF T s) :
    ∃ ge : Option End, r.fend.map gameEnd = ge.map Res.ok ∧
      readSlp T {} (r.encode s.version (portOccupancy s)) = .ok (r.game s ge) := by
  obtain ⟨ge, h1, h2⟩ := readP_encode_A T r s h
  refine ⟨ge, h1, ?_⟩
  unfold readSlp
  rw [h2]
  rfl

#print axioms read_encode_A
end Peppi
