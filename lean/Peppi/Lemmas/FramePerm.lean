import Peppi.Lemmas.Body
import Peppi.Lemmas.FrameStep
/-! C17: a frame whose pre / post / item events come in a non-canonical order is read exactly like the canonical frame. -/
namespace Peppi
open Extracted

/-- the canonical body of a frame as abstract events -/
def canonBody (o : FrameOcc) : List BEv :=
  (presentFrom 0 o.chars).map (fun co => BEv.pre co.1 co.2.pre) ++ o.items.map BEv.item ++
  (presentFrom 0 o.chars).map (fun co => BEv.post co.1 co.2.post)

theorem canonBody_enc (v : Ver) (shape : List PortOccupancy) (o : FrameOcc) :
    (canonBody o).map (BEv.enc v o.id (slotList shape 0)) =
      charEvents false v o.id (slotList shape 0) (presentFrom 0 o.chars) ++
      (o.items.map fun r => (EV_ITEM, encPlain v Item.readPush o.id r)) ++
      charEvents true v o.id (slotList shape 0) (presentFrom 0 o.chars) := by
  simp only [canonBody, List.map_append, List.map_map, charEvents]
  rfl

/-- a frame with its body events in any admissible order -/
def frameEventsP (v : Ver) (shape : List PortOccupancy) (o : FrameOcc) (body : List BEv) : List (Nat × Bytes) :=
  [(EV_FRAME_START, encPlain v Start.readPush o.id o.start)] ++ body.map (BEv.enc v o.id (slotList shape 0)) ++
  [(EV_FRAME_END, encPlain v End.readPush o.id o.fend)]

theorem frameEventsP_canon (v : Ver) (shape : List PortOccupancy) (o : FrameOcc) :
    frameEventsP v shape o (canonBody o) = frameEventsA v shape o := by
  simp only [frameEventsP, canonBody_enc, frameEventsA, List.append_assoc]

/-- admissible: the same events per character in the same order, and the same item sequence, as the canonical body -/
structure BodyOK (v : Ver) (n : Nat) (o : FrameOcc) (body : List BEv) : Prop where
  ok : ∀ e ∈ body, e.OK v n
  proj : ∀ c, (body.filterMap BEv.cev).filter (·.target == c) = ((canonBody o).filterMap BEv.cev).filter (·.target == c)
  items : body.filterMap BEv.itemRow = (canonBody o).filterMap BEv.itemRow

theorem canonBody_ok (v : Ver) (shape : List PortOccupancy) (o : FrameOcc) (ho : o.OK v (nSlots shape)) :
    ∀ e ∈ canonBody o, e.OK v (nSlots shape) := by
  intro e he
  simp only [canonBody, List.mem_append, List.mem_map] at he
  rcases he with (⟨co, hco, rfl⟩ | ⟨r, hr, rfl⟩) | ⟨co, hco, rfl⟩
  · obtain ⟨h1, h2⟩ := presentFrom_ok v (nSlots shape) o ho co hco; exact ⟨h1, h2.1⟩
  · exact ho.items r hr
  · obtain ⟨h1, h2⟩ := presentFrom_ok v (nSlots shape) o ho co hco; exact ⟨h1, h2.2⟩

/-- **the frame step for any admissible order (≥ 3.0)** -/
theorem frame_step_perm (v : Ver) (shape : List PortOccupancy) (h : List FrameOcc) (o : FrameOcc) (st : PState) (body : List BEv)
    (hv : st.start.version = v) (h30 : v.gte 3 0 = true) (h22 : v.gte 2 2 = true)
    (hfr : st.frames = expFrames v shape h)
    (hmap : PortMapOK st.portIdx shape) (hports : ∀ p ∈ shape, p.port < 256)
    (ho : o.OK v (nSlots shape)) (hb : BodyOK v (nSlots shape) o body) :
    runEvents st (frameEventsP v shape o body) = .ok { st with frames := expFrames v shape (h ++ [o]) } := by
  rw [← frame_step_A v shape h o st hv h30 h22 hfr hmap hports ho, ← frameEventsP_canon]
  obtain ⟨hshape, hflat⟩ := expPorts_shape shape h
  have hlt30 : v.lt 3 0 = false := by simp [Ver.lt, h30]
  let s1 : PState := { st with frames := { st.frames with id := st.frames.id ++ [o.id], start := some ((h.map fun o => some o.start) ++ [some o.start]) } }
  have e1 : handleEvent st EV_FRAME_START (encPlain v Start.readPush o.id o.start) = .ok s1 := by
    have := handle_fstart st o.id o.start (h.map fun o => some o.start) ho.id (by rw [hv]; exact ho.start)
      (by rw [hfr]; simp [expFrames, h22])
    rw [hv] at this
    simp only [hlt30, Bool.false_eq_true, ↓reduceIte] at this
    exact this
  have hs1v : s1.start.version = v := hv
  have hs1last : s1.lastId = some o.id := by simp [s1, PState.lastId]
  have hs1ports : s1.frames.ports = expPorts shape h := by simp [s1, hfr, expFrames]
  have hs1item : s1.frames.item = some ((h.flatMap (·.items)).map some) := by simp [s1, hfr, expFrames, h30]
  have hn : (slotList (shapeOf s1.frames.ports) 0).length = nSlots shape := by rw [hs1ports, hshape]; rfl
  have hperm := run_body_perm o.id ho.id (canonBody o) body s1 _ hs1last
    (by rw [hs1ports, hshape]; exact hmap)
    (by rw [hs1ports]; exact mem_ports_of_shape _ shape hshape hports)
    (by rw [hn, hs1v]; exact canonBody_ok v shape o ho)
    (by rw [hn, hs1v]; exact hb.ok)
    hs1item hb.proj hb.items
  rw [hs1v, hs1ports, hshape] at hperm
  simp only [frameEventsP, List.append_assoc, List.cons_append, List.nil_append, runEvents, e1]
  rw [runEvents_append, runEvents_append, hperm]

#print axioms frame_step_perm
end Peppi
