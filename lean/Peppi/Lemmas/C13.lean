import Peppi.Lemmas.WriteFrame
/-! C13: the per-frame row view of the columns a well-formed history produces is that history's frame
    (frame id, start, every character's pre/post or absence, the item list delimited by the offsets, end). -/
namespace Peppi
open Extracted

/-- `Data::transpose_one(i)` guarded by the validity bitmap: a character's row at frame `i`, `none` when absent -/
def DCols.rowView (d : DCols) (i : Nat) : Option (Option CharOcc) :=
  match d.pre[i]?, d.post[i]? with
  | some p, some q =>
    let valid := match d.valid with | none => true | some bs => bs.getD i true
    if valid then (match p, q with | some pr, some po => some (some ⟨pr, po⟩) | _, _ => some none) else some none
  | _, _ => none

/-- items of frame `i`: the slice `[off[i], off[i+1])` of the item column -/
def itemsView (offs : List Nat) (items : SCols) (i : Nat) : Option SCols :=
  match offs[i]?, offs[i+1]? with
  | some a, some b => some ((items.drop a).take (b - a))
  | _, _ => none

theorem colsOf_rowView (hist : List (Option CharOcc)) (i : Nat) (hi : i < hist.length) :
    (colsOf hist).rowView i = some hist[i] := by
  unfold DCols.rowView colsOf validOf
  simp only [List.getElem?_map, List.getElem?_eq_getElem hi, Option.map_some]
  by_cases hall : hist.all Option.isSome = true
  · simp only [hall, ↓reduceIte]
    have := List.all_eq_true.mp hall hist[i] (List.getElem_mem hi)
    cases hx : hist[i] with
    | none => simp [hx] at this
    | some x => simp
  · simp only [hall, Bool.false_eq_true, ↓reduceIte, List.getD_eq_getElem?_getD, List.getElem?_map,
      List.getElem?_eq_getElem hi, Option.map_some, Option.getD_some]
    cases hx : hist[i] with
    | none => simp
    | some x => simp

theorem items_slice (h : List FrameOcc) (idx : Nat) (hidx : idx < h.length) :
    itemsView (offsOf h) ((h.flatMap (·.items)).map some) idx = some ((h[idx]).items.map some) := by
  unfold itemsView
  rw [offsOf_get h idx (by omega), offsOf_get h (idx+1) (by omega), itemsBefore_succ h idx hidx]
  simp only [Nat.add_sub_cancel_left, Option.some.injEq]
  have hsplit : h.flatMap (·.items) = (h.take idx).flatMap (·.items) ++ ((h[idx]).items ++ (h.drop (idx+1)).flatMap (·.items)) := by
    have : h = h.take idx ++ (h[idx] :: h.drop (idx+1)) := by
      rw [← List.drop_eq_getElem_cons hidx, List.take_append_drop]
    calc h.flatMap (·.items) = (h.take idx ++ (h[idx] :: h.drop (idx+1))).flatMap (·.items) := by rw [← this]
      _ = _ := by rw [List.flatMap_append, List.flatMap_cons]
  rw [hsplit]
  simp only [List.map_append, itemsBefore]
  rw [List.drop_left' (by simp), List.take_left' (by simp)]

/-- **C13 on the expected columns** (≥ 3.0 shown; the gated fields are `none` below their version by `expFrames`) -/
theorem C13_expFrames (v : Ver) (shape : List PortOccupancy) (h : List FrameOcc) (h30 : v.gte 3 0 = true) (h22 : v.gte 2 2 = true)
    (i : Nat) (hi : i < h.length) :
    let F := expFrames v shape h
    F.id[i]? = some (h[i]).id ∧
    (F.start.bind (·[i]?)) = some (some (h[i]).start) ∧
    (F.fend.bind (·[i]?)) = some (some (h[i]).fend) ∧
    (∀ c, c < nSlots shape → ((flatSlots F.ports)[c]?).bind (·.rowView i) = some ((h[i]).chars[c]?).join) ∧
    (match F.itemOff, F.item with | some offs, some it => itemsView offs it i | _, _ => none) = some ((h[i]).items.map some) := by
  intro F
  refine ⟨by simp [F, expFrames, List.getElem?_eq_getElem hi], by simp [F, expFrames, h22, List.getElem?_eq_getElem hi],
    by simp [F, expFrames, h30, List.getElem?_eq_getElem hi], ?_, ?_⟩
  · intro c hc
    have hflat := (expPorts_shape shape h).2
    show ((flatSlots (expPorts shape h))[c]?).bind (·.rowView i) = _
    rw [hflat]
    simp only [expFlat, List.getElem?_map, List.getElem?_range hc, Option.map_some, Option.bind_some]
    rw [colsOf_rowView (histAt h c) i (by simp [histAt]; exact hi)]
    simp [histAt]
  · simp only [F, expFrames, h30, ↓reduceIte]
    exact items_slice h i hi

#print axioms C13_expFrames
end Peppi
