import Peppi.Lemmas.NoPanic
/-! The fuel of `eventLoop` is never the reason for its result: every iteration consumes at least one byte. -/
namespace Peppi
open Extracted

def Rd.Shrinks {α} (p : Rd α) : Prop := ∀ bs a rest, p bs = .ok (a, rest) → rest.length ≤ bs.length

theorem Rd.sh_pure {α} (a : α) : Rd.Shrinks (pure a : Rd α) := by
  intro bs a' rest h; simp only [pure, Res.ok.injEq, Prod.mk.injEq] at h; rw [h.2]; exact Nat.le_refl _
theorem Rd.sh_fail {α} (e : String) : Rd.Shrinks (Rd.fail e : Rd α) := by intro bs a rest h; simp [Rd.fail] at h
theorem Rd.sh_take (n : Nat) : Rd.Shrinks (Rd.take n) := by
  intro bs a rest h; simp only [Rd.take] at h; split at h
  · simp at h
  · simp only [Res.ok.injEq, Prod.mk.injEq] at h; rw [← h.2]; simp
theorem Rd.sh_lift {α} (r : Res α) : Rd.Shrinks (Rd.lift r) := by
  intro bs a rest h; cases r <;> simp [Rd.lift] at h; rw [h.2]; exact Nat.le_refl _
theorem Rd.sh_bind {α β} (p : Rd α) (q : α → Rd β) (hp : Rd.Shrinks p) (hq : ∀ a, Rd.Shrinks (q a)) : Rd.Shrinks (p >>= q) := by
  intro bs b rest h
  simp only [bind] at h
  cases hpb : p bs with
  | ok ar =>
    obtain ⟨a, r⟩ := ar
    simp only [hpb] at h
    exact Nat.le_trans (hq a r b rest h) (hp bs a r hpb)
  | err e => simp [hpb] at h
  | panic s => simp [hpb] at h
theorem Rd.sh_ite {α} (c : Prop) [Decidable c] (p q : Rd α) (hp : Rd.Shrinks p) (hq : Rd.Shrinks q) : Rd.Shrinks (if c then p else q) := by
  split <;> assumption

theorem Rd.ssh_bind_u8 {β} (q : Nat → Rd β) (hq : ∀ a, Rd.Shrinks (q a)) :
    ∀ bs b rest, (Rd.u8 >>= q) bs = .ok (b, rest) → rest.length < bs.length := by
  intro bs b rest h
  simp only [bind] at h
  cases bs with
  | nil => simp [Rd.u8] at h
  | cons x t =>
    simp only [Rd.u8] at h
    have := hq _ t b rest h
    simp only [List.length_cons]; omega

theorem parseEvent_consumes (ps : ParseState) (bs : Bytes) (r) (rest : Bytes) (h : parseEvent ps bs = .ok (r, rest)) :
    rest.length < bs.length := by
  unfold parseEvent at h
  refine Rd.ssh_bind_u8 _ ?_ bs r rest h
  intro code
  split
  · exact Rd.sh_fail _
  · rename_i size _
    refine Rd.sh_bind _ _ (Rd.sh_take _) (fun buf => ?_)
    refine Rd.sh_bind _ _ ?_ (fun x => ?_)
    · apply Rd.sh_ite
      · refine Rd.sh_bind _ _ (Rd.sh_lift _) (fun wst => ?_)
        obtain ⟨w, st'⟩ := wst
        cases w <;> exact Rd.sh_pure _
      · exact Rd.sh_pure _
    · obtain ⟨c, b', s⟩ := x
      exact Rd.sh_bind _ _ (Rd.sh_lift _) (fun _ => Rd.sh_pure _)

/-- with enough fuel, `eventLoop` never fails for lack of it: its result does not depend on the fuel -/
theorem eventLoop_fuel : ∀ (f1 f2 rawLen : Nat) (ps : ParseState) (bs : Bytes), bs.length < f1 → bs.length < f2 →
    eventLoop f1 rawLen ps bs = eventLoop f2 rawLen ps bs := by
  intro f1
  induction f1 with
  | zero => intro f2 rawLen ps bs h; omega
  | succ n ih =>
    intro f2 rawLen ps bs h1 h2
    cases f2 with
    | zero => omega
    | succ m =>
      rw [eventLoop, eventLoop]
      split
      · cases hpe : parseEvent ps bs with
        | ok x =>
          obtain ⟨⟨code, ps'⟩, rest⟩ := x
          simp only []
          have := parseEvent_consumes ps bs _ rest hpe
          split
          · rfl
          · exact ih m rawLen ps' rest (by omega) (by omega)
        | err e => rfl
        | panic p => rfl
      · rfl

#print axioms eventLoop_fuel
end Peppi

namespace Peppi

theorem toUtf8_shrinks (utf8 : Bytes → Bool) (bs : Bytes) (s r : Bytes) (h : toUtf8 utf8 bs = .ok (s, r)) : r.length < bs.length := by
  unfold toUtf8 at h
  split at h
  · simp at h
  · split at h
    · simp at h
    · simp only [] at h
      split at h
      · simp only [Res.ok.injEq, Prod.mk.injEq] at h
        rw [← h.2]; simp only [List.length_drop, List.length_cons]; omega
      · simp at h

/-- both readers return a strictly shorter remainder -/
theorem ubj_shrinks (utf8 : Bytes → Bool) : ∀ fuel : Nat,
    (∀ d bs t r, toVal utf8 fuel d bs = .ok (t, r) → r.length < bs.length) ∧
    (∀ d bs acc m r, readMapLoop utf8 fuel d bs acc = .ok (m, r) → r.length < bs.length) := by
  intro fuel
  induction fuel with
  | zero => exact ⟨fun _ _ _ _ h => by simp [toVal] at h, fun _ _ _ _ _ h => by simp [readMapLoop] at h⟩
  | succ n ih =>
    refine ⟨?_, ?_⟩
    · intro d bs t r h
      unfold toVal at h
      split at h
      · simp at h
      · split at h
        · simp at h
        · split at h
          · rename_i hu
            simp only [Res.ok.injEq, Prod.mk.injEq] at h
            have := toUtf8_shrinks utf8 _ _ _ hu
            rw [← h.2]; simp only [List.length_cons]; omega
          · simp at h
          · simp at h
        · simp at h
      · split at h
        · simp at h
        · simp only [Res.ok.injEq, Prod.mk.injEq] at h
          rw [← h.2]; simp only [List.length_drop, List.length_cons]; omega
      · split at h
        · rename_i hm
          simp only [Res.ok.injEq, Prod.mk.injEq] at h
          have := ih.2 _ _ _ _ _ hm
          rw [← h.2]; simp only [List.length_cons]; omega
        · simp at h
        · simp at h
      · simp at h
    · intro d bs acc m r h
      unfold readMapLoop at h
      split at h
      · simp at h
      · split at h
        · simp at h
        · simp only [Res.ok.injEq, Prod.mk.injEq] at h
          rw [← h.2]; simp
        · split at h
          · rename_i hu
            split at h
            · rename_i hv
              have h1 := toUtf8_shrinks utf8 _ _ _ hu
              have h2 := ih.1 _ _ _ _ hv
              have h3 := ih.2 _ _ _ _ _ h
              simp only [List.length_cons]; omega
            · simp at h
            · simp at h
          · simp at h
          · simp at h
        · simp at h

/-- with enough fuel the UBJSON readers' results do not depend on it -/
theorem ubj_fuel (utf8 : Bytes → Bool) : ∀ f1 : Nat,
    (∀ f2 d bs, bs.length < f1 → bs.length < f2 → toVal utf8 f1 d bs = toVal utf8 f2 d bs) ∧
    (∀ f2 d bs acc, bs.length < f1 → bs.length < f2 → readMapLoop utf8 f1 d bs acc = readMapLoop utf8 f2 d bs acc) := by
  intro f1
  induction f1 with
  | zero => exact ⟨fun _ _ _ h => by omega, fun _ _ _ _ h => by omega⟩
  | succ n ih =>
    refine ⟨?_, ?_⟩
    · intro f2 d bs h1 h2
      cases f2 with
      | zero => omega
      | succ m =>
        unfold toVal
        split
        · rfl
        · rfl
        · rfl
        · rename_i rest
          simp only [List.length_cons] at h1 h2
          rw [ih.2 m (d+1) rest .nil (by omega) (by omega)]
        · rfl
    · intro f2 d bs acc h1 h2
      cases f2 with
      | zero => omega
      | succ m =>
        unfold readMapLoop
        split
        · rfl
        · split
          · rfl
          · rfl
          · rename_i rest
            simp only [List.length_cons] at h1 h2
            cases hu : toUtf8 utf8 rest with
            | ok kr =>
              obtain ⟨k, r⟩ := kr
              have hr := toUtf8_shrinks utf8 _ _ _ hu
              simp only []
              rw [ih.1 m d r (by omega) (by omega)]
              cases hv : toVal utf8 m d r with
              | ok vr =>
                obtain ⟨v, r'⟩ := vr
                have hr' := (ubj_shrinks utf8 m).1 _ _ _ _ hv
                simp only []
                exact ih.2 m d r' _ (by omega) (by omega)
              | err e => rfl
              | panic p => rfl
            | err e => rfl
            | panic p => rfl
          · rfl

#print axioms ubj_fuel
end Peppi
