import Peppi.Lemmas.C01A
import Peppi.Lemmas.C04G
/-! C01 for ≥ 3.3 with a Gecko-codes block. -/
namespace Peppi
open Extracted

theorem catData_all_length (gk : GeckoBlocks) (hf : ∀ b ∈ gk.init, FullBlock b) (hl : LastBlock gk.last) :
    (catData gk.all).length = 512 * (gk.init.length + 1) := by
  rw [catData_length]
  · simp [GeckoBlocks.all]
  · intro b hb
    simp only [GeckoBlocks.all, List.mem_append, List.mem_singleton] at hb
    rcases hb with hb | rfl
    · exact (hf b hb).1
    · exact hl.1

theorem payloadSizes_G (T : TextOracle) (r : Replay) (s : Start) (gk : GeckoBlocks) (h : r.WFG T s gk) (ge : Option End)
    (hge : r.fend.map gameEnd = ge.map Res.ok) :
    payloadSizes (r.gameG s ge gk) = .ok (canonTableG s.version r.startBlock.length (r.endLen s.version) gk.total) := by
  have ht : TableOK (canonTableG s.version r.startBlock.length (r.endLen s.version) gk.total) :=
    canonTableG_ok _ _ _ _ h.startLen h.endLenOK h.totalNZ
  have hel := game_endLen r s ge hge
  unfold endLenOf at hel
  have hall : (canonTableG s.version r.startBlock.length (r.endLen s.version) gk.total).all (fun e => decide (e.2 < 65536)) = true := by
    rw [List.all_eq_true]; intro e he; simpa using (ht e he).2.2
  unfold payloadSizes
  simp only [Replay.gameG, Replay.game, h.v22, h.v30, h.v33, and_self, ↓reduceIte, gameStart_bytes T _ s h.start, sizes_pre, sizes_post,
    sizes_start, sizes_item, sizes_end]
  simp only [canonTableG, canonTable, List.cons_append, List.nil_append, List.append_nil] at hall ⊢
  simp only [show (4 + 2 : Nat) = 6 from rfl]
  cases ge with
  | none => simp only [] at hel ⊢; rw [hel]; simp only [hall, ↓reduceIte]
  | some g => simp only [] at hel ⊢; rw [hel]; simp only [hall, ↓reduceIte]

theorem rawSize_arithG (n fd it sl ep gz a b c d e : Nat) :
    1 + 1 + 3 * 9 + 1 + sl + ep + fd * (1 + (6 + a)) + fd * (1 + (6 + b)) + n * (1 + (4 + c)) + n * (1 + (4 + e)) + it * (1 + (4 + d)) + gz =
    2 + 27 + (1 + sl) + gz + (n * (5 + c) + fd * (7 + a) + it * (5 + d) + fd * (7 + b) + n * (5 + e)) + ep := by
  simp only [Nat.mul_add, Nat.mul_one]
  omega

theorem rawSize_G (T : TextOracle) (r : Replay) (s : Start) (gk : GeckoBlocks) (h : r.WFG T s gk) (ge : Option End)
    (hge : r.fend.map gameEnd = ge.map Res.ok) :
    rawSize (canonTableG s.version r.startBlock.length (r.endLen s.version) gk.total) (r.gameG s ge gk) =
      .ok (r.rawG s.version (portOccupancy s) gk).length := by
  have hnd := canonTableG_nodup s.version r.startBlock.length (r.endLen s.version) gk.total
  have look : ∀ c sz, (c, sz) ∈ canonTable s.version r.startBlock.length (r.endLen s.version) →
      sizeOfEv (canonTableG s.version r.startBlock.length (r.endLen s.version) gk.total) c = some sz :=
    fun c sz hm => sizeOfEv_mem _ hnd c sz (canonTableG_mem _ _ _ _ _ _ hm)
  have hn : ∀ o ∈ r.frames, o.chars.length = nSlots (portOccupancy s) := fun o ho => (h.frames o ho).chars
  have hfd := frameData_A s.version (portOccupancy s) r.frames hn
  obtain ⟨hfr, hit⟩ := frameCounts_A s.version (portOccupancy s) r.frames h.v30
  have hlen := framesA_length s.version (portOccupancy s) r.frames h.frames
  have hrl := raw_lengthG r s.version (portOccupancy s) gk
  have hgl := gk.enc_length h.full h.lastOK
  have hend := endEvents_length r s ge hge
  have hraw := h.rawLen
  have hcl := catData_all_length gk h.full h.lastOK
  have g1 : getSize (canonTableG s.version r.startBlock.length (r.endLen s.version) gk.total) EV_GAME_START = .ok r.startBlock.length := by
    simp [getSize, look _ _ (show (EV_GAME_START, r.startBlock.length) ∈ _ by simp [canonTable])]
  have g2 : getSize (canonTableG s.version r.startBlock.length (r.endLen s.version) gk.total) EV_GAME_END = .ok (r.endLen s.version) := by
    simp [getSize, look _ _ (show (EV_GAME_END, r.endLen s.version) ∈ _ by simp [canonTable])]
  have g3 : getSize (canonTableG s.version r.startBlock.length (r.endLen s.version) gk.total) EV_FRAME_PRE = .ok (6 + rowSize s.version Pre.readPush) := by
    simp [getSize, look _ _ (show (EV_FRAME_PRE, 6 + rowSize s.version Pre.readPush) ∈ _ by simp [canonTable])]
  have g4 : getSize (canonTableG s.version r.startBlock.length (r.endLen s.version) gk.total) EV_FRAME_POST = .ok (6 + rowSize s.version Post.readPush) := by
    simp [getSize, look _ _ (show (EV_FRAME_POST, 6 + rowSize s.version Post.readPush) ∈ _ by simp [canonTable])]
  have o1 : ∀ k, optSize (canonTableG s.version r.startBlock.length (r.endLen s.version) gk.total) EV_FRAME_START k = k * (1 + (4 + rowSize s.version Start.readPush)) := by
    intro k; simp [optSize, look _ _ (show (EV_FRAME_START, 4 + rowSize s.version Start.readPush) ∈ _ by simp [canonTable])]
  have o2 : ∀ k, optSize (canonTableG s.version r.startBlock.length (r.endLen s.version) gk.total) EV_FRAME_END k = k * (1 + (4 + rowSize s.version End.readPush)) := by
    intro k; simp [optSize, look _ _ (show (EV_FRAME_END, 4 + rowSize s.version End.readPush) ∈ _ by simp [canonTable])]
  have o3 : ∀ k, optSize (canonTableG s.version r.startBlock.length (r.endLen s.version) gk.total) EV_ITEM k = k * (1 + (4 + rowSize s.version Item.readPush)) := by
    intro k; simp [optSize, look _ _ (show (EV_ITEM, 4 + rowSize s.version Item.readPush) ∈ _ by simp [canonTable])]
  have htl : (canonTableG s.version r.startBlock.length (r.endLen s.version) gk.total).length = 9 := rfl
  have hdbl : ((r.gameG s ge gk).doubleGameEnd.getD false) = r.doubled := by
    simp only [Replay.gameG, Replay.game]; cases r.doubled <;> rfl
  have hgz : geckoCodesSize ⟨catData gk.all, gk.total⟩ = .ok (517 * (gk.init.length + 1)) := by
    unfold geckoCodesSize
    simp only [hcl]
    have h1 : ¬ (512 * (gk.init.length + 1) % 512 ≠ 0) := by simp
    simp only [h1, ↓reduceIte, Nat.mul_div_cancel_left _ (by decide : 0 < 512), Res.ok.injEq]
    omega
  unfold rawSize
  simp only [bind, g1, g2, g3, g4, o1, o2, o3, htl, hdbl, pure]
  simp only [Replay.gameG, Replay.game, hfd, hfr, hit, hgz]
  rw [rawSize_arithG, ← hlen, ← hend, ← hgl, ← hrl]
  simp only [show (256:Nat)^4 = 2^32 from rfl] at hraw
  simp only [hraw, ↓reduceIte]

theorem write_game_G (T : TextOracle) (r : Replay) (s : Start) (gk : GeckoBlocks) (h : r.WFG T s gk)
    (hmax : assertMaxVersion s.version = .ok ()) (ge : Option End) (hge : r.fend.map gameEnd = ge.map Res.ok) :
    writeSlp (r.gameG s ge gk) = .ok (r.encodeG s.version (portOccupancy s) gk) := by
  have ht : TableOK (canonTableG s.version r.startBlock.length (r.endLen s.version) gk.total) :=
    canonTableG_ok _ _ _ _ h.startLen h.endLenOK h.totalNZ
  have hn : ∀ o ∈ r.frames, o.chars.length = nSlots (portOccupancy s) := fun o ho => (h.frames o ho).chars
  have hdbl : ((r.gameG s ge gk).doubleGameEnd.getD false) = r.doubled := by
    simp only [Replay.gameG, Replay.game]; cases r.doubled <;> rfl
  have hwg : writeGecko ⟨catData gk.all, gk.total⟩ = .ok gk.enc := by
    simp only [GeckoBlocks.all, GeckoBlocks.total, GeckoBlocks.enc]
    exact writeGecko_blocks gk.init gk.last h.full h.lastOK
  unfold writeSlp
  simp only [bind, show (r.gameG s ge gk).start.version = s.version from rfl, hmax, payloadSizes_G T r s gk h ge hge,
    rawSize_G T r s gk h ge hge, table_bytes _ ht, pure]
  simp only [hdbl]
  simp only [Replay.gameG, Replay.game, hwg, writeFrames_A s.version (portOccupancy s) r.frames h.v30 h.v22 hn,
    writeMeta_A T r.metadata h.metadata, endBytes r ge hge, gameStart_bytes T _ s h.start]
  simp only [Replay.encodeG, Replay.rawG, tail_eq, encEvent, List.append_assoc, List.cons_append, List.nil_append, Res.ok.injEq]
  have c : (UInt8.ofNat EV_GAME_START) = 0x36 := by decide
  have c2 : (canonTableG s.version r.startBlock.length (r.endLen s.version) gk.total).length * 3 + 1 = 3 * (canonTableG s.version r.startBlock.length (r.endLen s.version) gk.total).length + 1 := by omega
  rw [c, c2]

/-- **C01, ≥ 3.3 with a Gecko block** -/
theorem C01_G (T : TextOracle) (r : Replay) (s : Start) (gk : GeckoBlocks) (h : r.WFG T s gk) (hmax : assertMaxVersion s.version = .ok ()) :
    ∃ g, readSlp T {} (r.encodeG s.version (portOccupancy s) gk) = .ok g ∧ writeSlp g = .ok (r.encodeG s.version (portOccupancy s) gk) := by
  obtain ⟨ge, hge, hread⟩ := readP_encode_G T r s gk h
  refine ⟨r.gameG s ge gk, ?_, write_game_G T r s gk h hmax ge hge⟩
  unfold readSlp
  rw [hread]
  rfl

#print axioms C01_G
end Peppi
