import Peppi.Lemmas.Unified
import Peppi.Utf8
/-! Non-vacuity: concrete replays that satisfy `Replay.WFAny`, one per framing regime (and one with a Gecko
    block), so that the hypotheses of the every-version theorems (`C01_any`, `C04_any`, `C07_any`, `C10_any`, …)
    are satisfiable by non-trivial histories: two ports (Fox on port 1, Ice Climbers on port 3), three frame
    occurrences with a rollback (where the regime has rollbacks), the Ice Climbers follower absent from the second
    occurrence, items where the version has them, a doubled Game End and a metadata tree.
    Everything is decided by kernel evaluation of the model on the literal bytes. -/
namespace Peppi
open Extracted

/-- decidable version of `RowOK` -/
def rowOKb (v : Ver) : List Fld → List Nat → Bool
  | [], vals => vals.isEmpty
  | f :: fs, vals =>
    if visible v f then
      match vals with
      | x :: xs => decide (x < 256 ^ f.width) && rowOKb v fs xs
      | [] => false
    else rowOKb v fs vals

theorem rowOKb_sound (v : Ver) : ∀ (L : List Fld) (vals : List Nat), rowOKb v L vals = true → RowOK v L vals
  | [], vals, h => by simpa [rowOKb, RowOK] using h
  | f :: fs, vals, h => by
    unfold rowOKb at h; unfold RowOK
    by_cases hv : visible v f = true
    · simp only [hv, ↓reduceIte] at h ⊢
      cases vals with
      | nil => simp at h
      | cons x xs =>
        simp only [Bool.and_eq_true, decide_eq_true_eq] at h
        exact ⟨x, xs, rfl, h.1, rowOKb_sound v fs xs h.2⟩
    · simp only [hv, Bool.false_eq_true, ↓reduceIte] at h ⊢
      exact rowOKb_sound v fs vals h

def frameOKb (v : Ver) (n : Nat) (o : FrameOcc) : Bool :=
  decide (-2^31 ≤ o.id) && decide (o.id < 2^31) && rowOKb v Start.readPush o.start && decide (o.chars.length = n) &&
  o.chars.all (fun c => match c with | some x => rowOKb v Pre.readPush x.pre && rowOKb v Post.readPush x.post | none => true) &&
  o.items.all (fun r => rowOKb v Item.readPush r) && rowOKb v End.readPush o.fend

theorem frameOKb_sound (v : Ver) (n : Nat) (o : FrameOcc) (h : frameOKb v n o = true) : o.OK v n := by
  simp only [frameOKb, Bool.and_eq_true, decide_eq_true_eq, List.all_eq_true] at h
  obtain ⟨⟨⟨⟨⟨⟨h1, h2⟩, h3⟩, h4⟩, h5⟩, h6⟩, h7⟩ := h
  refine ⟨⟨h1, h2⟩, rowOKb_sound _ _ _ h3, h4, ?_, fun r hr => rowOKb_sound _ _ _ (h6 r hr), rowOKb_sound _ _ _ h7⟩
  intro c hc x hx
  have := h5 c hc
  subst hx
  simp only [Bool.and_eq_true] at this
  exact ⟨rowOKb_sound _ _ _ this.1, rowOKb_sound _ _ _ this.2⟩

def T0 : TextOracle := { sjisOk := fun _ => true, utf8Ok := validUtf8 }

/-- a Game Start block of the length version `v` prescribes: Fox (human) on port 1, Ice Climbers (CPU) on port 3 -/
def exBlock (major minor : Nat) (len : Nat) : Bytes :=
  let b : List Nat := [major, minor, 0, 0] ++ List.replicate 96 7 ++
    ([2, 0, 4, 0] ++ List.replicate 32 1) ++ ([0, 3, 0, 0] ++ List.replicate 32 0) ++ ([14, 1, 4, 1] ++ List.replicate 32 2) ++
    ([0, 3, 0, 0] ++ List.replicate 32 0) ++ ([0, 3, 0, 0] ++ List.replicate 32 0) ++ ([0, 3, 0, 0] ++ List.replicate 32 0) ++
    [0, 0, 0, 9] ++ List.replicate 500 0
  (b.take len).map UInt8.ofNat

def dummyStart : Start :=
  { version := ⟨0, 0, 0⟩, bitfield := [], isRainingBombs := false, isTeams := false, itemSpawnFrequency := 0, selfDestructScore := 0,
    stage := 0, timer := 0, itemSpawnBitfield := [], damageRatio := 0, players := [], randomSeed := 0, bytes := [],
    isPal := none, isFrozenPs := none, scene := none, language := none, match_ := none }

def startOf (b : Bytes) : Start := match gameStart T0 b with | .ok s => s | _ => dummyStart

theorem startOf_ok (b : Bytes) (h : (gameStart T0 b).isOk = true) : gameStart T0 b = .ok (startOf b) := by
  unfold startOf
  cases hg : gameStart T0 b with
  | ok s => rfl
  | err e => rw [hg] at h; simp [Res.isOk] at h
  | panic p => rw [hg] at h; simp [Res.isOk] at h

/-- rows of `n` small values -/
def rowN (n k : Nat) : Row := (List.range n).map (· + k)

def exMeta : KVs := .cons [0x61] (.int (-5)) (.cons [0x62, 0x63] (.map (.cons [0x64] (.str [0x68, 0x69]) .nil)) .nil)

theorem exMeta_wf : KVs.WF T0.utf8Ok 1 exMeta := by
  simp only [exMeta, KVs.WF, Tree.WF, KVs.hasKey]
  refine ⟨by decide, by decide +kernel, by decide, ⟨by decide, by decide +kernel, ?_, by decide, by simp [KVs.hasKey]⟩, by simp [KVs.hasKey]⟩
  exact ⟨by decide, by decide +kernel, ⟨by decide, by decide +kernel⟩, by decide, by simp [KVs.hasKey]⟩

/-- the example history for a version with `npre`/`npost`/`nstart`/`nitem`/`nend` visible fields -/
def exFrames (ids : List Int) (npre npost nstart nitem nend : Nat) (items : Bool) : List FrameOcc :=
  ids.zipIdx.map fun (id, i) =>
    { id := id, start := rowN nstart i,
      chars := [some ⟨rowN npre (i + 1), rowN npost (i + 2)⟩, some ⟨rowN npre (i + 3), rowN npost (i + 4)⟩,
                if i == 1 then none else some ⟨rowN npre (i + 5), rowN npost (i + 6)⟩],
      items := if items then (List.range i).map (fun j => rowN nitem (j + 7)) else [],
      fend := rowN nend i }

def exReplay (b : Bytes) (frames : List FrameOcc) (e : Bytes) : Replay :=
  { startBlock := b, frames := frames, fend := some e, doubled := true, metadata := some exMeta }

/-- everything `WFAny` asks of the example, as one Boolean the kernel evaluates -/
def exCheck (b : Bytes) (frames : List FrameOcc) (e : Bytes) (gk : Option GeckoBlocks) : Bool :=
  (gameStart T0 b).isOk && decide (0 < b.length) && decide (b.length < 65536) &&
  frames.all (frameOKb (startOf b).version (nSlots (portOccupancy (startOf b)))) &&
  decide (0 < e.length) && decide (e.length < 65536) && (gameEnd e).isOk && decide (e.length = endSize (startOf b).version) &&
  decide (((exReplay b frames e).rawAny (startOf b).version (portOccupancy (startOf b)) gk).length < 256 ^ 4)

theorem gameEnd_isOk (e : Bytes) (h : (gameEnd e).isOk = true) : ∃ ge, gameEnd e = .ok ge := by
  cases hg : gameEnd e with
  | ok g => exact ⟨g, rfl⟩
  | err x => rw [hg] at h; simp [Res.isOk] at h
  | panic x => rw [hg] at h; simp [Res.isOk] at h

/-- from the evaluated check (and the two side conditions that are not plain Booleans) to `WFAny` -/
theorem ex_wf (b : Bytes) (frames : List FrameOcc) (e : Bytes) (gk : Option GeckoBlocks)
    (hc : exCheck b frames e gk = true)
    (hseq : (startOf b).version.gte 2 2 = false → ∀ pre o post, frames = pre ++ o :: post →
      ((pre.map (·.id)).getLast?).getD (FIRST_INDEX - 1) + 1 = o.id ∧ presentFrom 0 o.chars ≠ [])
    (hg : ∀ g, gk = some g → (startOf b).version.gte 3 3 = true ∧ (∀ x ∈ g.init, FullBlock x) ∧ LastBlock g.last ∧
      0 < g.total % 65536 ∧ g.total < 2 ^ 32) :
    (exReplay b frames e).WFAny T0 (startOf b) gk := by
  simp only [exCheck, Bool.and_eq_true, decide_eq_true_eq, List.all_eq_true] at hc
  obtain ⟨⟨⟨⟨⟨⟨⟨⟨h1, h2⟩, h3⟩, h4⟩, h5⟩, h6⟩, h7⟩, h8⟩, h9⟩ := hc
  refine ⟨startOf_ok b h1, ⟨h2, h3⟩, fun o ho => frameOKb_sound _ _ _ (h4 o ho), hseq, ?_, ?_, ?_, ?_, hg, h9⟩
  · intro e' he'
    simp only [exReplay, Option.some.injEq] at he'
    subst he'
    exact ⟨h5, h6, gameEnd_isOk _ h7⟩
  · simp only [Replay.endLen, exReplay]; exact ⟨h5, h6⟩
  · intro _; exact ⟨e, rfl, h8⟩
  · intro m hm
    simp only [exReplay, Option.some.injEq] at hm
    subst hm
    exact exMeta_wf

/-- decidable form of the "ids consecutive from −123, at least one character per frame" condition (versions < 2.2) -/
def seqOKb (last : Int) : List FrameOcc → Bool
  | [] => true
  | o :: t => decide (last + 1 = o.id) && !(presentFrom 0 o.chars).isEmpty && seqOKb o.id t

theorem seqOKb_sound : ∀ (frames : List FrameOcc) (last : Int), seqOKb last frames = true →
    ∀ pre o post, frames = pre ++ o :: post →
      ((pre.map (·.id)).getLast?).getD last + 1 = o.id ∧ presentFrom 0 o.chars ≠ []
  | [], _, _, pre, o, post, h => by cases pre <;> simp at h
  | f :: t, last, hk, pre, o, post, h => by
    simp only [seqOKb, Bool.and_eq_true, decide_eq_true_eq, Bool.not_eq_true', List.isEmpty_eq_false_iff] at hk
    cases pre with
    | nil =>
      simp only [List.nil_append, List.cons.injEq] at h
      obtain ⟨rfl, _⟩ := h
      exact ⟨by simpa using hk.1.1, hk.1.2⟩
    | cons p pre' =>
      simp only [List.cons_append, List.cons.injEq] at h
      obtain ⟨rfl, ht⟩ := h
      have := seqOKb_sound t f.id hk.2 pre' o post ht
      refine ⟨?_, this.2⟩
      rw [← this.1]
      cases pre' with
      | nil => simp
      | cons q qs =>
        cases hl : (List.map (fun x => x.id) (q :: qs)).getLast? with
        | none => simp at hl
        | some v => simp only [List.map_cons] at hl ⊢; rw [List.getLast?_cons_cons, hl]; rfl

/-! ### the instances -/

/-- version 3.16.0 (Frame Start + Frame End, items), three occurrences −123, −122, −122 (a rollback) -/
theorem example_A : (exReplay (exBlock 3 16 760) (exFrames [-123, -122, -122] 17 32 2 16 1 true) [2, 255, 0, 1, 255, 255]).WFAny T0
    (startOf (exBlock 3 16 760)) none :=
  ex_wf _ _ _ _ (by decide +kernel) (fun h => absurd h (by decide +kernel)) (fun _ h => by cases h)

/-- version 2.2.0 (Frame Start only) -/
theorem example_B : (exReplay (exBlock 2 2 418) (exFrames [-123, -122, -122] 16 23 1 0 0 false) [2, 255]).WFAny T0
    (startOf (exBlock 2 2 418)) none :=
  ex_wf _ _ _ _ (by decide +kernel) (fun h => absurd h (by decide +kernel)) (fun _ h => by cases h)

/-- version 1.0.0 (no Frame Start: frames are opened by the first pre-frame event; ids consecutive from −123) -/
theorem example_C : (exReplay (exBlock 1 0 352) (exFrames [-123, -122, -121] 14 12 1 0 0 false) [2]).WFAny T0
    (startOf (exBlock 1 0 352)) none :=
  ex_wf _ _ _ _ (by decide +kernel) (fun _ => seqOKb_sound _ (FIRST_INDEX - 1) (by decide +kernel)) (fun _ h => by cases h)

/-- Gecko codes: one full block and a last block carrying 100 bytes -/
def exGecko : GeckoBlocks := { init := [(List.replicate 512 0xAB, 512)], last := (List.replicate 512 0xCD, 100) }

/-- version 3.16.0 with a Gecko block -/
theorem example_G : (exReplay (exBlock 3 16 760) (exFrames [-123, -122, -122] 17 32 2 16 1 true) [2, 255, 0, 1, 255, 255]).WFAny T0
    (startOf (exBlock 3 16 760)) (some exGecko) :=
  ex_wf _ _ _ _ (by decide +kernel) (fun h => absurd h (by decide +kernel))
    (fun g h => by
      simp only [Option.some.injEq] at h; subst h
      refine ⟨by decide +kernel, ?_, ⟨by decide +kernel, by decide, by decide⟩, by decide +kernel, by decide +kernel⟩
      intro x hx
      simp only [exGecko, List.mem_singleton] at hx
      subst hx
      exact ⟨by decide +kernel, rfl⟩)

theorem example_A_version : (startOf (exBlock 3 16 760)).version = ⟨3, 16, 0⟩ ∧
    portOccupancy (startOf (exBlock 3 16 760)) = [⟨0, false⟩, ⟨2, true⟩] := by decide +kernel

/-- the conclusions of the every-version theorems hold of the 3.16 example: it is accepted, reproduced byte for byte,
    and each of its proper prefixes is rejected -/
theorem example_A_roundtrip :
    let r := exReplay (exBlock 3 16 760) (exFrames [-123, -122, -122] 17 32 2 16 1 true) [2, 255, 0, 1, 255, 255]
    let s := startOf (exBlock 3 16 760)
    (∃ g, readSlp T0 {} (r.encodeAny s.version (portOccupancy s) none) = .ok g ∧
      writeSlp g = .ok (r.encodeAny s.version (portOccupancy s) none)) ∧
    ∀ n, n < (r.encodeAny s.version (portOccupancy s) none).length →
      ∃ e, readSlp T0 {} ((r.encodeAny s.version (portOccupancy s) none).take n) = .err e := by
  intro r s
  refine ⟨C01_any T0 r s none example_A ?_, fun n hn => C07_any T0 r s none example_A false n hn⟩
  have hv : s.version = ⟨3, 16, 0⟩ := example_A_version.1
  rw [hv]; decide

end Peppi
