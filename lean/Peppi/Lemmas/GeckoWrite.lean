import Peppi.Lemmas.Gecko
import Peppi.Write
/-! Writer side of the Gecko block: `gecko_codes` re-emits the canonical splitter events. -/
namespace Peppi
open Extracted

/-- canonical blocks: all full except possibly the last, which carries 1..512 bytes -/
def FullBlock (b : Bytes × Nat) : Prop := b.1.length = 512 ∧ b.2 = 512
def LastBlock (b : Bytes × Nat) : Prop := b.1.length = 512 ∧ 1 ≤ b.2 ∧ b.2 ≤ 512

theorem catData_length (bs : List (Bytes × Nat)) (h : ∀ b ∈ bs, b.1.length = 512) : (catData bs).length = 512 * bs.length := by
  induction bs with
  | nil => rfl
  | cons b bs ih =>
    simp only [catData, List.flatMap_cons, List.length_append, List.length_cons]
    have := ih (fun b' hb' => h b' (by simp [hb']))
    simp only [catData] at this
    rw [this, h b (by simp)]; omega

theorem writeGecko_go (c : Gecko) : ∀ (bs : List (Bytes × Nat)) (last : Bytes × Nat) (pre acc : Bytes) (fuel : Nat),
    (∀ b ∈ bs, FullBlock b) → LastBlock last →
    c.bytes = pre ++ catData (bs ++ [last]) → c.actualSize = pre.length + 512 * bs.length + last.2 →
    bs.length + 1 ≤ fuel →
    writeGecko.go c fuel pre.length acc =
      .ok (acc ++ encBlocks bs ++ encEvent (EV_SPLITTER, splitPayload last.1 last.2 true)) := by
  intro bs
  induction bs with
  | nil =>
    intro last pre acc fuel _ hlast hbytes hact hfuel
    obtain ⟨hl, h1, h512⟩ := hlast
    cases fuel with
    | zero => simp at hfuel
    | succ f =>
      simp only [List.nil_append, catData, List.flatMap_cons, List.flatMap_nil, List.append_nil] at hbytes
      simp only [List.length_nil, Nat.mul_zero, Nat.add_zero] at hact
      rw [writeGecko.go]
      have hlt : pre.length < c.actualSize := by omega
      have hlen : ¬ c.bytes.length < pre.length + 512 := by rw [hbytes]; simp [hl]
      simp only [hlt, ↓reduceIte, hlen]
      have hblk : (c.bytes.drop pre.length).take 512 = last.1 := by
        rw [hbytes, List.drop_left' rfl, ← hl, List.take_length]
      have hn : min 512 (c.actualSize - pre.length) = last.2 := by omega
      have hfin : pre.length + 512 ≥ c.actualSize := by omega
      simp only [hblk, hn, hfin, ↓reduceIte]
      have hstop : ∀ a, writeGecko.go c f (pre.length + 512) a = .ok a := by
        intro a
        cases f with
        | zero => rfl
        | succ f' => rw [writeGecko.go]; simp [show ¬ (pre.length + 512 < c.actualSize) by omega]
      rw [hstop]
      simp [encBlocks, encEvent, splitPayload, EV_SPLITTER, EV_GECKO]
  | cons b bs ih =>
    intro last pre acc fuel hfull hlast hbytes hact hfuel
    obtain ⟨hbl, hb2⟩ := hfull b (by simp)
    obtain ⟨hl, h1, h512⟩ := hlast
    cases fuel with
    | zero => simp at hfuel
    | succ f =>
      rw [writeGecko.go]
      simp only [List.length_cons] at hact hfuel
      have hlt : pre.length < c.actualSize := by omega
      have hbytes' : c.bytes = pre ++ (b.1 ++ catData (bs ++ [last])) := by rw [hbytes]; simp [catData]
      have hclen : (catData (bs ++ [last])).length = 512 * (bs.length + 1) := by
        rw [catData_length]
        · simp
        · intro b' hb'
          simp only [List.mem_append, List.mem_singleton] at hb'
          rcases hb' with h | h
          · exact (hfull b' (by simp [h])).1
          · rw [h]; exact hl
      have hlen : ¬ c.bytes.length < pre.length + 512 := by
        rw [hbytes']; simp [hbl]
      simp only [hlt, ↓reduceIte, hlen]
      have hblk : (c.bytes.drop pre.length).take 512 = b.1 := by
        rw [hbytes', List.drop_left' rfl, ← hbl, List.take_left' rfl]
      have hn : min 512 (c.actualSize - pre.length) = b.2 := by omega
      have hnf : ¬ pre.length + 512 ≥ c.actualSize := by omega
      simp only [hblk, hn, hnf, ↓reduceIte]
      have hpre : pre.length + 512 = (pre ++ b.1).length := by simp [hbl]
      rw [hpre, ih last (pre ++ b.1) _ f (fun b' hb' => hfull b' (by simp [hb'])) ⟨hl, h1, h512⟩
        (by rw [hbytes', List.append_assoc])
        (by simp only [List.length_append, hbl]; omega) (by omega)]
      simp [encBlocks, List.flatMap_cons, encEvent, splitPayload, EV_SPLITTER, EV_GECKO]

/-- **Gecko block, writer side**: on the reassembled bytes and total size of canonical blocks, `gecko_codes` emits exactly
    the splitter events they came from -/
theorem writeGecko_blocks (bs : List (Bytes × Nat)) (last : Bytes × Nat) (hfull : ∀ b ∈ bs, FullBlock b) (hlast : LastBlock last) :
    writeGecko ⟨catData (bs ++ [last]), sumActual (bs ++ [last])⟩ =
      .ok (encBlocks bs ++ encEvent (EV_SPLITTER, splitPayload last.1 last.2 true)) := by
  have hsum : sumActual (bs ++ [last]) = 512 * bs.length + last.2 := by
    have : ∀ l : List (Bytes × Nat), (∀ b ∈ l, FullBlock b) → sumActual l = 512 * l.length := by
      intro l
      induction l with
      | nil => intro _; rfl
      | cons x xs ih =>
        intro h
        have := ih (fun b hb => h b (by simp [hb]))
        simp only [sumActual, List.map_cons, List.sum_cons, List.length_cons] at this ⊢
        rw [this, (h x (by simp)).2]; omega
    have h2 := this bs hfull
    simp only [sumActual, List.map_append, List.sum_append, List.map_cons, List.map_nil, List.sum_cons, List.sum_nil] at h2 ⊢
    omega
  unfold writeGecko
  have := writeGecko_go ⟨catData (bs ++ [last]), sumActual (bs ++ [last])⟩ bs last [] [] (sumActual (bs ++ [last]) / 512 + 2)
    hfull hlast (by simp) (by simp [hsum]) (by
      rw [hsum]
      have : bs.length ≤ (512 * bs.length + last.2) / 512 := by
        rw [Nat.le_div_iff_mul_le (by omega)]; omega
      omega)
  simpa using this

#print axioms writeGecko_blocks
end Peppi
