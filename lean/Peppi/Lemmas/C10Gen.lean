import Peppi.Lemmas.C10A
import Peppi.Lemmas.C04C
import Peppi.Lemmas.C04G
/-! C10 for every regime: one general lemma about the skip-frames jump, the final Game End and the tail; then instances. -/
namespace Peppi
open Extracted

/-- the frames a skipping read returns: the start-of-game frame set, closed when the version closes lazily -/
def skipFrames (st : PState) : FCols := if st.start.version.lt 3 0 then st.frames.close else st.frames

/-- from the state after `parse_start`, on `mid ++ last Game End ++ tail` with the raw length that the canonical file declares:
    the jump lands on the last Game End, the loop reads it and stops, the tail is read; nothing is left -/
theorem skip_gen (T : TextOracle) (ps : ParseState) (rawLen : Nat) (mid e : Bytes) (ge : End) (md : Option KVs)
    (hsz : sizeOfEv ps.st.sizes EV_GAME_END = some e.length) (hge : gameEnd e = .ok ge)
    (hraw : rawLen = ps.bytesRead + mid.length + (1 + e.length))
    (hmd : ps.st.metadata = none) (hwf : ∀ m, md = some m → KVs.WF T.utf8Ok 1 m) :
    (skipToEnd rawLen ps >>= loopTail T rawLen) (mid ++ (encEvent (EV_GAME_END, e) ++ metaBytes md)) =
      .ok (gameOf { ps.st with fend := some ge, frames := skipFrames ps.st } md ps.st.doubleGameEnd, []) := by
  have hjump : skipToEnd rawLen ps (mid ++ (encEvent (EV_GAME_END, e) ++ metaBytes md)) =
      .ok ({ ps with bytesRead := ps.bytesRead + mid.length }, encEvent (EV_GAME_END, e) ++ metaBytes md) := by
    unfold skipToEnd
    simp only [hsz, Option.getD_some]
    have hc : ¬ (rawLen = 0 ∨ rawLen < ps.bytesRead ∨ rawLen - ps.bytesRead < 1 + e.length) := by omega
    simp only [hc, ↓reduceIte]
    have hk : rawLen - ps.bytesRead - (1 + e.length) = mid.length := by omega
    rw [hk, List.drop_left' rfl]
  simp only [bind, hjump, loopTail]
  have hbrlt : ps.bytesRead + mid.length < rawLen := by omega
  rw [loop_end ((encEvent (EV_GAME_END, e) ++ metaBytes md).length) rawLen { ps with bytesRead := ps.bytesRead + mid.length } e ge (metaBytes md) hsz hge hbrlt]
  simp only []
  have hbr : ¬ ps.bytesRead + mid.length + e.length + 1 < rawLen := by omega
  by_cases hv : ps.st.start.version.lt 3 0 = true
  · have := readTail_exactB T rawLen ⟨{ ps.st with fend := some ge }, ps.bytesRead + mid.length + e.length + 1⟩ md hv hbr hmd hwf
    rw [this]
    simp [gameOf, skipFrames, hv]
  · have hv' : ps.st.start.version.lt 3 0 = false := by simpa using hv
    have := readTail_exact T rawLen ⟨{ ps.st with fend := some ge }, ps.bytesRead + mid.length + e.length + 1⟩ md hv' hbr hmd hwf
    rw [this]
    simp [gameOf, skipFrames, hv']

/-- everything between the start block and the last Game End event, for any list of preceding events -/
theorem split_last_end (r : Replay) (e : Bytes) (hfe : r.fend = some e) (pre : Bytes) :
    ∃ mid, pre ++ encEvents r.endEvents = mid ++ encEvent (EV_GAME_END, e) ∧
      pre.length + (encEvents r.endEvents).length = mid.length + (1 + e.length) := by
  cases hd : r.doubled with
  | false =>
    refine ⟨pre, by simp [Replay.endEvents, hfe, hd, encEvents_cons, encEvents_nil], ?_⟩
    simp [Replay.endEvents, hfe, hd, encEvents_cons, encEvents_nil, encEvent]; omega
  | true =>
    refine ⟨pre ++ encEvent (EV_GAME_END, e), by simp [Replay.endEvents, hfe, hd, encEvents_cons, encEvents_nil], ?_⟩
    simp [Replay.endEvents, hfe, hd, encEvents_cons, encEvents_nil, encEvent]; omega

theorem new_close (v : Ver) (shape : List PortOccupancy) : (FCols.new v shape).close = FCols.new v shape := by
  simp only [FCols.close, FCols.new, FCols.len, List.length_nil, List.map_map]
  congr 1
  apply List.map_congr_left
  intro p _
  simp only [Function.comp]
  cases p.follower <;> simp [DCols.padTo, DCols.len, DCols.empty]

/-- **C10, 2.2 ≤ v < 3.0** -/
theorem readP_skip_B (T : TextOracle) (r : Replay) (s : Start) (h : r.WFB T s) (e : Bytes) (hfe : r.fend = some e) (hash : Bool) :
    ∃ ge, gameEnd e = .ok ge ∧
      readP T { skipFrames := true, computeHash := hash } (r.encodeB s.version (portOccupancy s)) = .ok (r.gameSkip s ge, []) := by
  obtain ⟨hel, _, ge, hge⟩ := h.endOK e hfe
  refine ⟨ge, hge, ?_⟩
  have hendlen : r.endLen s.version = e.length := by simp [Replay.endLen, hfe]
  have hsize : sizeOfEv (ps0B r s).st.sizes EV_GAME_END = some e.length := by
    rw [← hendlen]
    exact sizeOfEv_reverse _ (canonTableB_nodup _ _ _) _ _ (by simp [canonTableB])
  have hps0 : (ps0B r s).bytesRead = 2 + 15 + (1 + r.startBlock.length) := by simp [ps0B, canonTableB]; omega
  obtain ⟨mid, hmid, hlen⟩ := split_last_end r e hfe (encEvents (r.frames.flatMap (frameEventsB s.version (portOccupancy s))))
  have hrl := raw_lengthB r s.version (portOccupancy s)
  have hsplit : r.rawB s.version (portOccupancy s) ++ r.tail =
      [0x35, UInt8.ofNat (3 * (canonTableB s.version r.startBlock.length (r.endLen s.version)).length + 1)] ++
        encTable (canonTableB s.version r.startBlock.length (r.endLen s.version)) ++
        (encEvent (EV_GAME_START, r.startBlock) ++ (mid ++ (encEvent (EV_GAME_END, e) ++ r.tail))) := by
    have : encEvents (r.frames.flatMap (frameEventsB s.version (portOccupancy s))) ++ (encEvents r.endEvents ++ r.tail) =
        mid ++ (encEvent (EV_GAME_END, e) ++ r.tail) := by rw [← List.append_assoc, hmid, List.append_assoc]
    simp only [Replay.rawB, List.append_assoc, this]
  have hstart := parseStart_encB T r s h (mid ++ (encEvent (EV_GAME_END, e) ++ r.tail))
  simp only [] at hstart
  rw [← hsplit] at hstart
  unfold Replay.encodeB
  rw [readP_skip_unfold T hash _ _ _ _ _ (parseHeader_enc _ h.rawLen _) hstart, metaBytes_eq,
    skip_gen T (ps0B r s) _ mid e ge r.metadata hsize hge (by rw [hrl, hps0]; omega) rfl h.metadata]
  have hlt : (ps0B r s).st.start.version.lt 3 0 = true := by show s.version.lt 3 0 = true; simp [Ver.lt, h.v30]
  simp [gameOf, Replay.gameSkip, skipFrames, hlt, ps0B, new_close]

/-- **C10, v < 2.2** -/
theorem readP_skip_C (T : TextOracle) (r : Replay) (s : Start) (h : r.WFC T s) (e : Bytes) (hfe : r.fend = some e) (hash : Bool) :
    ∃ ge, gameEnd e = .ok ge ∧
      readP T { skipFrames := true, computeHash := hash } (r.encodeC s.version (portOccupancy s)) = .ok (r.gameSkip s ge, []) := by
  obtain ⟨hel, _, ge, hge⟩ := h.endOK e hfe
  refine ⟨ge, hge, ?_⟩
  have hendlen : r.endLen s.version = e.length := by simp [Replay.endLen, hfe]
  have hsize : sizeOfEv (ps0C r s).st.sizes EV_GAME_END = some e.length := by
    rw [← hendlen]
    exact sizeOfEv_reverse _ (canonTableC_nodup _ _ _) _ _ (by simp [canonTableC])
  have hps0 : (ps0C r s).bytesRead = 2 + 12 + (1 + r.startBlock.length) := by simp [ps0C, canonTableC]; omega
  obtain ⟨mid, hmid, hlen⟩ := split_last_end r e hfe (encEvents (r.frames.flatMap (frameEventsC s.version (portOccupancy s))))
  have hrl := raw_lengthC r s.version (portOccupancy s)
  have hsplit : r.rawC s.version (portOccupancy s) ++ r.tail =
      [0x35, UInt8.ofNat (3 * (canonTableC s.version r.startBlock.length (r.endLen s.version)).length + 1)] ++
        encTable (canonTableC s.version r.startBlock.length (r.endLen s.version)) ++
        (encEvent (EV_GAME_START, r.startBlock) ++ (mid ++ (encEvent (EV_GAME_END, e) ++ r.tail))) := by
    have : encEvents (r.frames.flatMap (frameEventsC s.version (portOccupancy s))) ++ (encEvents r.endEvents ++ r.tail) =
        mid ++ (encEvent (EV_GAME_END, e) ++ r.tail) := by rw [← List.append_assoc, hmid, List.append_assoc]
    simp only [Replay.rawC, List.append_assoc, this]
  have hstart := parseStart_encC T r s h (mid ++ (encEvent (EV_GAME_END, e) ++ r.tail))
  simp only [] at hstart
  rw [← hsplit] at hstart
  unfold Replay.encodeC
  rw [readP_skip_unfold T hash _ _ _ _ _ (parseHeader_enc _ h.rawLen _) hstart, metaBytes_eq,
    skip_gen T (ps0C r s) _ mid e ge r.metadata hsize hge (by rw [hrl, hps0]; omega) rfl h.metadata]
  have hlt : (ps0C r s).st.start.version.lt 3 0 = true := by show s.version.lt 3 0 = true; simp [Ver.lt, h.v30]
  simp [gameOf, Replay.gameSkip, skipFrames, hlt, ps0C, new_close]

/-- **C10, ≥ 3.3 with a Gecko block** (the skipped game carries no Gecko codes: the block lies in the skipped range) -/
theorem readP_skip_G (T : TextOracle) (r : Replay) (s : Start) (gk : GeckoBlocks) (h : r.WFG T s gk) (e : Bytes) (hfe : r.fend = some e)
    (hash : Bool) :
    ∃ ge, gameEnd e = .ok ge ∧
      readP T { skipFrames := true, computeHash := hash } (r.encodeG s.version (portOccupancy s) gk) = .ok (r.gameSkip s ge, []) := by
  obtain ⟨hel, _, ge, hge⟩ := h.endOK e hfe
  refine ⟨ge, hge, ?_⟩
  have hendlen : r.endLen s.version = e.length := by simp [Replay.endLen, hfe]
  have hsize : sizeOfEv (ps0G r s gk).st.sizes EV_GAME_END = some e.length := by
    rw [← hendlen]
    exact sizeOfEv_reverse _ (canonTableG_nodup _ _ _ _) _ _ (canonTableG_mem _ _ _ _ _ _ (by simp [canonTable]))
  have hps0 : (ps0G r s gk).bytesRead = 2 + 27 + (1 + r.startBlock.length) := by simp [ps0G, canonTableG, canonTable]; omega
  obtain ⟨mid, hmid, hlen⟩ := split_last_end r e hfe (gk.enc ++ encEvents (r.frames.flatMap (frameEventsA s.version (portOccupancy s))))
  have hrl := raw_lengthG r s.version (portOccupancy s) gk
  have hsplit : r.rawG s.version (portOccupancy s) gk ++ r.tail =
      [0x35, UInt8.ofNat (3 * (canonTableG s.version r.startBlock.length (r.endLen s.version) gk.total).length + 1)] ++
        encTable (canonTableG s.version r.startBlock.length (r.endLen s.version) gk.total) ++
        (encEvent (EV_GAME_START, r.startBlock) ++ (mid ++ (encEvent (EV_GAME_END, e) ++ r.tail))) := by
    have : gk.enc ++ (encEvents (r.frames.flatMap (frameEventsA s.version (portOccupancy s))) ++ (encEvents r.endEvents ++ r.tail)) =
        mid ++ (encEvent (EV_GAME_END, e) ++ r.tail) := by
      rw [← List.append_assoc, ← List.append_assoc, hmid, List.append_assoc]
    simp only [Replay.rawG, List.append_assoc, this]
  have hstart := parseStart_encG T r s gk h (mid ++ (encEvent (EV_GAME_END, e) ++ r.tail))
  simp only [] at hstart
  rw [← hsplit] at hstart
  unfold Replay.encodeG
  simp only [List.length_append] at hlen
  rw [readP_skip_unfold T hash _ _ _ _ _ (parseHeader_enc _ h.rawLen _) hstart, metaBytes_eq,
    skip_gen T (ps0G r s gk) _ mid e ge r.metadata hsize hge (by rw [hrl, hps0]; omega) rfl h.metadata]
  have hlt : s.version.lt 3 0 = false := by simp [Ver.lt, h.v30]
  simp [gameOf, Replay.gameSkip, skipFrames, hlt, ps0G]

/-- **C07 for the remaining cases**: every proper prefix of a well-formed finished file is rejected, frames skipped or not -/
theorem C07_slp_skip_B (T : TextOracle) (r : Replay) (s : Start) (h : r.WFB T s) (e : Bytes) (hfe : r.fend = some e) (hash : Bool)
    (n : Nat) (hn : n < (r.encodeB s.version (portOccupancy s)).length) :
    ∃ err, readSlp T { skipFrames := true, computeHash := hash } ((r.encodeB s.version (portOccupancy s)).take n) = .err err := by
  obtain ⟨ge, _, hskip⟩ := readP_skip_B T r s h e hfe hash
  exact C07_slp_general T _ _ _ hskip n hn
theorem C07_slp_skip_C (T : TextOracle) (r : Replay) (s : Start) (h : r.WFC T s) (e : Bytes) (hfe : r.fend = some e) (hash : Bool)
    (n : Nat) (hn : n < (r.encodeC s.version (portOccupancy s)).length) :
    ∃ err, readSlp T { skipFrames := true, computeHash := hash } ((r.encodeC s.version (portOccupancy s)).take n) = .err err := by
  obtain ⟨ge, _, hskip⟩ := readP_skip_C T r s h e hfe hash
  exact C07_slp_general T _ _ _ hskip n hn
theorem C07_slp_skip_G (T : TextOracle) (r : Replay) (s : Start) (gk : GeckoBlocks) (h : r.WFG T s gk) (e : Bytes) (hfe : r.fend = some e)
    (hash : Bool) (n : Nat) (hn : n < (r.encodeG s.version (portOccupancy s) gk).length) :
    ∃ err, readSlp T { skipFrames := true, computeHash := hash } ((r.encodeG s.version (portOccupancy s) gk).take n) = .err err := by
  obtain ⟨ge, _, hskip⟩ := readP_skip_G T r s gk h e hfe hash
  exact C07_slp_general T _ _ _ hskip n hn
theorem C07_slp_G (T : TextOracle) (r : Replay) (s : Start) (gk : GeckoBlocks) (h : r.WFG T s gk) (hash : Bool)
    (n : Nat) (hn : n < (r.encodeG s.version (portOccupancy s) gk).length) :
    ∃ err, readSlp T { skipFrames := false, computeHash := hash } ((r.encodeG s.version (portOccupancy s) gk).take n) = .err err := by
  obtain ⟨ge, _, hok⟩ := readP_encode_G T r s gk h
  exact C07_slp_general T _ _ _ (show readP T { skipFrames := false, computeHash := hash } _ = _ from hok) n hn

#print axioms readP_skip_B
#print axioms readP_skip_C
#print axioms readP_skip_G
end Peppi
