import Peppi.Local
import Peppi.Lemmas.Fuel
import Peppi.Lemmas.C04A
import Peppi.Lemmas.UbjLocal
/-! C07 (.slp half): a well-formed file cut at any byte is rejected. -/
namespace Peppi
open Extracted

/-- a local parser that consumed its whole input rejects every proper prefix of it -/
theorem Rd.trunc_of_local {α} (p : Rd α) (hl : Rd.Local p) (x : Bytes) (a : α) (h : p x = .ok (a, []))
    (n : Nat) (hn : n < x.length) : ∃ e, p (x.take n) = .err e := by
  obtain ⟨used, hu, _, hpre⟩ := hl x a [] h
  rw [List.append_nil] at hu
  subst hu
  exact hpre _ (List.take_prefix _ _) (by simp; omega)

theorem local_parseStart (T : TextOracle) : Rd.Local (parseStart T) := by
  unfold parseStart
  apply Rd.local_bind _ _ local_parsePayloads; intro x
  obtain ⟨br, sizes⟩ := x
  apply Rd.local_bind _ _ (local_parseGameStart T sizes br); intro y
  obtain ⟨br2, start⟩ := y
  exact Rd.local_pure _

theorem local_parseEvent (ps : ParseState) : Rd.Local (parseEvent ps) := by
  unfold parseEvent
  apply Rd.local_bind _ _ Rd.local_u8; intro code
  split
  · exact Rd.local_fail _
  · rename_i size _
    apply Rd.local_bind _ _ (Rd.local_take _); intro buf
    apply Rd.local_bind
    · apply Rd.local_ite
      · apply Rd.local_bind _ _ (Rd.local_lift _); intro wst
        obtain ⟨w, st'⟩ := wst
        cases w <;> exact Rd.local_pure _
      · exact Rd.local_pure _
    intro x
    obtain ⟨c, b, st⟩ := x
    apply Rd.local_bind _ _ (Rd.local_lift _); intro st'
    exact Rd.local_pure _

/-- the loop with a fixed fuel, as a parser -/
def evL (fuel rawLen : Nat) (ps : ParseState) : Rd ParseState := fun bs => eventLoop fuel rawLen ps bs

theorem evL_succ (fuel rawLen : Nat) (ps : ParseState) :
    evL (fuel+1) rawLen ps =
      if rawLen = 0 ∨ ps.bytesRead < rawLen then
        (parseEvent ps >>= fun r => if r.1 = EV_GAME_END then pure r.2 else evL fuel rawLen r.2)
      else pure ps := by
  funext bs
  simp only [evL]
  rw [eventLoop]
  split
  · simp only [bind]
    cases h : parseEvent ps bs with
    | ok x =>
      obtain ⟨⟨code, ps'⟩, rest⟩ := x
      simp only []
      split <;> simp [pure, evL]
    | err e => rfl
    | panic p => rfl
  · rfl

theorem local_evL : ∀ (fuel rawLen : Nat) (ps : ParseState), Rd.Local (evL fuel rawLen ps) := by
  intro fuel
  induction fuel with
  | zero => intro rawLen ps bs a rest h; simp [evL, eventLoop] at h
  | succ n ih =>
    intro rawLen ps
    rw [evL_succ]
    apply Rd.local_ite
    · apply Rd.local_bind _ _ (local_parseEvent ps); intro r
      apply Rd.local_ite
      · exact Rd.local_pure _
      · exact ih rawLen r.2
    · exact Rd.local_pure _

/-- a successful loop stays the same with more fuel -/
theorem eventLoop_mono : ∀ (f f' rawLen : Nat) (ps : ParseState) (bs : Bytes) (r), f ≤ f' →
    eventLoop f rawLen ps bs = .ok r → eventLoop f' rawLen ps bs = .ok r := by
  intro f
  induction f with
  | zero => intro f' rawLen ps bs r _ h; simp [eventLoop] at h
  | succ n ih =>
    intro f' rawLen ps bs r hle h
    cases f' with
    | zero => omega
    | succ m =>
      rw [eventLoop] at h ⊢
      split
      · rename_i hc
        simp only [hc, ↓reduceIte] at h
        cases hpe : parseEvent ps bs with
        | ok x =>
          obtain ⟨⟨code, ps'⟩, rest⟩ := x
          simp only [hpe] at h ⊢
          split
          · rename_i hcode; simpa [hcode] using h
          · rename_i hcode
            simp only [hcode, ↓reduceIte] at h
            exact ih m rawLen ps' rest r (by omega) h
        | err e => simp [hpe] at h
        | panic p => simp [hpe] at h
      · rename_i hc
        simpa [hc] using h

/-- the loop as `read` runs it (fuel = remaining length + 1) is local -/
theorem local_loop (rawLen : Nat) (ps : ParseState) :
    Rd.Local (fun bs => eventLoop (bs.length + 1) rawLen ps bs : Rd ParseState) := by
  intro bs a rest h
  obtain ⟨used, hu, hext, hpre⟩ := local_evL (bs.length + 1) rawLen ps bs a rest h
  refine ⟨used, hu, ?_, ?_⟩
  · intro ext
    have h1 : eventLoop (bs.length + 1) rawLen ps (used ++ ext) = .ok (a, ext) := hext ext
    have h2 := eventLoop_mono _ (max (bs.length + 1) ((used ++ ext).length + 1)) rawLen ps _ _ (Nat.le_max_left _ _) h1
    show eventLoop ((used ++ ext).length + 1) rawLen ps (used ++ ext) = .ok (a, ext)
    rw [eventLoop_fuel ((used ++ ext).length + 1) (max (bs.length + 1) ((used ++ ext).length + 1)) rawLen ps _ (by omega) (by omega)]
    exact h2
  · intro pre hp hl
    obtain ⟨e, he⟩ := hpre pre hp hl
    refine ⟨e, ?_⟩
    show eventLoop (pre.length + 1) rawLen ps pre = .err e
    have hlen : pre.length < bs.length + 1 := by
      have := congrArg List.length hu
      simp only [List.length_append] at this
      omega
    rw [eventLoop_fuel (pre.length + 1) (bs.length + 1) rawLen ps pre (by omega) hlen]
    exact he


theorem local_parseMetadata (utf8 st) : Rd.Local (parseMetadata utf8 st) := by
  unfold parseMetadata
  apply Rd.local_bind _ _ (local_expectBytes _); intro _
  apply Rd.local_bind _ _ (local_readMap utf8); intro _
  exact Rd.local_pure _

theorem local_readTail (T rawLen ps) : Rd.Local (readTail T rawLen ps) := by
  unfold readTail
  simp only []
  apply Rd.local_bind
  · apply Rd.local_ite
    · apply Rd.local_bind _ _ (Rd.local_take _); intro _
      apply Rd.local_ite <;> exact Rd.local_pure _
    · exact Rd.local_pure _
  intro st
  apply Rd.local_bind _ _ Rd.local_u8; intro b
  apply Rd.local_bind
  · apply Rd.local_ite
    · apply Rd.local_bind _ _ (local_parseMetadata _ _); intro _
      apply Rd.local_bind _ _ (local_expectBytes _); intro _
      exact Rd.local_pure _
    apply Rd.local_ite
    · exact Rd.local_pure _
    · exact Rd.local_fail _
  intro _
  exact Rd.local_pure _

theorem local_loopTail (T rawLen ps) : Rd.Local (loopTail T rawLen ps) := by
  unfold loopTail
  exact Rd.local_bind _ _ (local_loop rawLen ps) (fun _ => local_readTail _ _ _)

/-- the full reader (frames not skipped) is local -/
theorem local_readP (T : TextOracle) (hash : Bool) : Rd.Local (readP T { skipFrames := false, computeHash := hash }) := by
  unfold readP
  apply Rd.local_bind _ _ local_parseHeader; intro rawLen
  apply Rd.local_bind _ _ (local_parseStart T); intro ps
  simp only [Bool.false_eq_true, ↓reduceIte]
  apply Rd.local_bind _ _ (Rd.local_pure _); intro ps'
  exact local_loopTail _ _ _

/-- `readP` does not look at the hash option -/
theorem readP_hash (T : TextOracle) (skip h1 h2 : Bool) :
    readP T { skipFrames := skip, computeHash := h1 } = readP T { skipFrames := skip, computeHash := h2 } := rfl

/-- **C07, `.slp`, full parse, ≥ 3.0 regime**: every proper prefix of a well-formed file is rejected with an error
    (not a game, not a panic), whatever the hash option -/
theorem C07_slp_A (T : TextOracle) (r : Replay) (s : Start) (h : r.WF T s) (hash : Bool) (n : Nat)
    (hn : n < (r.encode s.version (portOccupancy s)).length) :
    ∃ e, readSlp T { skipFrames := false, computeHash := hash } ((r.encode s.version (portOccupancy s)).take n) = .err e := by
  obtain ⟨ge, _, hok⟩ := readP_encode_A T r s h
  have hok' : readP T { skipFrames := false, computeHash := hash } (r.encode s.version (portOccupancy s)) = .ok (r.game s ge, []) := hok
  obtain ⟨e, he⟩ := Rd.trunc_of_local _ (local_readP T hash) _ _ hok' n hn
  exact ⟨e, by unfold readSlp; rw [he]⟩

#print axioms C07_slp_A

/-! the skip-frames jump: `seek` / `copy(take)` do not fail on a short file, the next mandatory read does -/

/-- the jump, had it been an exact-length read -/
def skipTake (rawLen : Nat) (ps : ParseState) : Rd ParseState :=
  let endOffset := 1 + (sizeOfEv ps.st.sizes EV_GAME_END).getD 0
  if rawLen = 0 ∨ rawLen < ps.bytesRead ∨ rawLen - ps.bytesRead < endOffset then Rd.fail "Cannot skip to game end"
  else Rd.take (rawLen - ps.bytesRead - endOffset) >>= fun _ => pure { ps with bytesRead := ps.bytesRead + (rawLen - ps.bytesRead - endOffset) }

def skipLen (rawLen : Nat) (ps : ParseState) : Nat := rawLen - ps.bytesRead - (1 + (sizeOfEv ps.st.sizes EV_GAME_END).getD 0)

theorem skip_long (T rawLen ps) (bs : Bytes) (h : skipLen rawLen ps ≤ bs.length) :
    (skipToEnd rawLen ps >>= loopTail T rawLen) bs = (skipTake rawLen ps >>= loopTail T rawLen) bs := by
  simp only [bind, skipToEnd, skipTake]
  by_cases hc : rawLen = 0 ∨ rawLen < ps.bytesRead ∨ rawLen - ps.bytesRead < 1 + (sizeOfEv ps.st.sizes EV_GAME_END).getD 0
  · simp only [hc, ↓reduceIte]
  · simp only [hc, ↓reduceIte, Rd.take, pure]
    have : ¬ bs.length < rawLen - ps.bytesRead - (1 + (sizeOfEv ps.st.sizes EV_GAME_END).getD 0) := by
      unfold skipLen at h; omega
    simp only [this, ↓reduceIte]

theorem skip_short (T rawLen ps) (bs : Bytes) (h : bs.length < skipLen rawLen ps) :
    ∃ e, (skipToEnd rawLen ps >>= loopTail T rawLen) bs = .err e := by
  simp only [bind, skipToEnd]
  by_cases hc : rawLen = 0 ∨ rawLen < ps.bytesRead ∨ rawLen - ps.bytesRead < 1 + (sizeOfEv ps.st.sizes EV_GAME_END).getD 0
  · simp only [hc, ↓reduceIte, Rd.fail]; exact ⟨_, rfl⟩
  · simp only [hc, ↓reduceIte]
    have hd : bs.drop (rawLen - ps.bytesRead - (1 + (sizeOfEv ps.st.sizes EV_GAME_END).getD 0)) = [] := by
      apply List.drop_eq_nil_of_le; unfold skipLen at h; omega
    simp only [hd, loopTail, bind, List.length_nil, Nat.zero_add]
    rw [eventLoop]
    have hlt : rawLen = 0 ∨ ps.bytesRead + (rawLen - ps.bytesRead - (1 + (sizeOfEv ps.st.sizes EV_GAME_END).getD 0)) < rawLen := by
      right; omega
    simp only [hlt, ↓reduceIte]
    have : parseEvent { ps with bytesRead := ps.bytesRead + (rawLen - ps.bytesRead - (1 + (sizeOfEv ps.st.sizes EV_GAME_END).getD 0)) } [] = .err "eof" := by
      simp [parseEvent, bind, Rd.u8]
    rw [this]
    exact ⟨_, rfl⟩

theorem local_skipTake_tail (T rawLen ps) : Rd.Local (skipTake rawLen ps >>= loopTail T rawLen) := by
  apply Rd.local_bind
  · unfold skipTake
    simp only []
    apply Rd.local_ite
    · exact Rd.local_fail _
    · exact Rd.local_bind _ _ (Rd.local_take _) (fun _ => Rd.local_pure _)
  · intro ps'; exact local_loopTail _ _ _

theorem skipTake_used (T rawLen ps) (bs : Bytes) (x) (h : (skipTake rawLen ps >>= loopTail T rawLen) bs = .ok x) :
    skipLen rawLen ps ≤ bs.length := by
  simp only [bind, skipTake] at h
  by_cases hc : rawLen = 0 ∨ rawLen < ps.bytesRead ∨ rawLen - ps.bytesRead < 1 + (sizeOfEv ps.st.sizes EV_GAME_END).getD 0
  · simp [hc, Rd.fail] at h
  · simp only [hc, ↓reduceIte, Rd.take] at h
    by_cases hl : bs.length < rawLen - ps.bytesRead - (1 + (sizeOfEv ps.st.sizes EV_GAME_END).getD 0)
    · simp [hl] at h
    · unfold skipLen; omega

theorem local_skip_tail (T rawLen ps) : Rd.Local (skipToEnd rawLen ps >>= loopTail T rawLen) := by
  intro bs a rest h
  have hlen : skipLen rawLen ps ≤ bs.length := by
    by_cases hl : skipLen rawLen ps ≤ bs.length
    · exact hl
    · obtain ⟨e, he⟩ := skip_short T rawLen ps bs (by omega)
      rw [he] at h; cases h
  rw [skip_long T rawLen ps bs hlen] at h
  obtain ⟨used, hu, hext, hpre⟩ := local_skipTake_tail T rawLen ps bs a rest h
  have hused : skipLen rawLen ps ≤ used.length := by
    have := skipTake_used T rawLen ps (used ++ []) _ (hext [])
    simpa using this
  refine ⟨used, hu, ?_, ?_⟩
  · intro ext
    rw [skip_long T rawLen ps _ (by simp only [List.length_append]; omega)]
    exact hext ext
  · intro pre hp hl
    by_cases hpl : skipLen rawLen ps ≤ pre.length
    · rw [skip_long T rawLen ps _ hpl]; exact hpre pre hp hl
    · exact skip_short T rawLen ps pre (by omega)

theorem local_readP_skip (T : TextOracle) (hash : Bool) : Rd.Local (readP T { skipFrames := true, computeHash := hash }) := by
  unfold readP
  apply Rd.local_bind _ _ local_parseHeader; intro rawLen
  apply Rd.local_bind _ _ (local_parseStart T); intro ps
  simp only [↓reduceIte]
  exact local_skip_tail T rawLen ps

/-- **C07, `.slp`, general form**: whatever the options, if the reader accepts an input and consumes all of it,
    it rejects every proper prefix of that input with an error -/
theorem C07_slp_general (T : TextOracle) (opts : Opts) (x : Bytes) (g : Game) (h : readP T opts x = .ok (g, []))
    (n : Nat) (hn : n < x.length) : ∃ e, readSlp T opts (x.take n) = .err e := by
  have hl : Rd.Local (readP T opts) := by
    obtain ⟨skip, hash⟩ := opts
    cases skip
    · exact local_readP T hash
    · exact local_readP_skip T hash
  obtain ⟨e, he⟩ := Rd.trunc_of_local _ hl x g h n hn
  exact ⟨e, by unfold readSlp; rw [he]⟩

#print axioms C07_slp_general
end Peppi
