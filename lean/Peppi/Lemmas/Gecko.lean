import Peppi.Lemmas.ByteLayer
/-! The Gecko-codes block: a run of message-splitter events is reassembled into one Gecko event. -/
namespace Peppi
open Extracted

/-- payload of one message-splitter event -/
def splitPayload (data : Bytes) (actual : Nat) (final : Bool) : Bytes :=
  data ++ (toBE 2 actual ++ [UInt8.ofNat EV_GECKO, if final then 1 else 0])

theorem splitPayload_length (data : Bytes) (actual : Nat) (final : Bool) (hd : data.length = 512) :
    (splitPayload data actual final).length = 516 := by
  simp [splitPayload, toBE_length, hd]

theorem handleSplitter_block (st : PState) (data : Bytes) (actual : Nat) (final : Bool) (hd : data.length = 512)
    (ha : actual ≤ 512) (hsum : st.splitActual + actual < 2 ^ 32) :
    handleSplitter (splitPayload data actual final) st =
      .ok (if final then some EV_GECKO else none,
           { st with splitRaw := st.splitRaw ++ data, splitActual := st.splitActual + actual }) := by
  have hl := splitPayload_length data actual final hd
  unfold handleSplitter
  have h1 : ¬ (splitPayload data actual final).length ≠ 516 := by simp [hl]
  simp only [h1, ↓reduceIte]
  have hdrop : (splitPayload data actual final).drop 512 = toBE 2 actual ++ [UInt8.ofNat EV_GECKO, if final then 1 else 0] := by
    unfold splitPayload; rw [← hd]; exact List.drop_left' rfl
  have htake : (splitPayload data actual final).take 512 = data := by
    unfold splitPayload; rw [← hd]; exact List.take_left' rfl
  have hact : fromBE (((splitPayload data actual final).drop 512).take 2) = actual := by
    rw [hdrop, List.take_left' (toBE_length 2 actual)]
    exact fromBE_toBE 2 actual (by omega)
  have h514 : (splitPayload data actual final).getD 514 0 = UInt8.ofNat EV_GECKO := by
    have : (splitPayload data actual final) = (data ++ toBE 2 actual) ++ [UInt8.ofNat EV_GECKO, if final then 1 else 0] := by
      simp [splitPayload]
    rw [this, List.getD_eq_getElem?_getD, List.getElem?_append_right (by simp [toBE_length, hd])]
    simp [toBE_length, hd]
  have h515 : (splitPayload data actual final).getD 515 0 = if final then 1 else 0 := by
    have : (splitPayload data actual final) = (data ++ toBE 2 actual) ++ [UInt8.ofNat EV_GECKO, if final then 1 else 0] := by
      simp [splitPayload]
    rw [this, List.getD_eq_getElem?_getD, List.getElem?_append_right (by simp [toBE_length, hd])]
    simp [toBE_length, hd]
  rw [hact, h514, h515, htake]
  have h2 : ¬ actual > 512 := by omega
  have h3 : ¬ st.splitActual + actual ≥ 2 ^ 32 := by omega
  simp only [h2, h3, ↓reduceIte]
  cases final <;> simp [EV_GECKO]

/-- one non-final block: accumulated, nothing else changes -/
theorem parseEvent_split (ps : ParseState) (data : Bytes) (actual : Nat) (rest : Bytes) (hd : data.length = 512)
    (ha : actual ≤ 512) (hsum : ps.st.splitActual + actual < 2 ^ 32) (hsz : sizeOfEv ps.st.sizes EV_SPLITTER = some 516) :
    parseEvent ps (encEvent (EV_SPLITTER, splitPayload data actual false) ++ rest) =
      .ok ((EV_SPLITTER, { st := { ps.st with splitRaw := ps.st.splitRaw ++ data, splitActual := ps.st.splitActual + actual },
                           bytesRead := ps.bytesRead + 516 + 1 }), rest) := by
  have hl := splitPayload_length data actual false hd
  have hb : (UInt8.ofNat EV_SPLITTER).toNat = EV_SPLITTER := by decide
  have hlt : ¬ (516 + rest.length < 516) := by omega
  have ht : List.take 516 (splitPayload data actual false ++ rest) = splitPayload data actual false := List.take_left' hl
  have hdp : List.drop 516 (splitPayload data actual false ++ rest) = rest := List.drop_left' hl
  simp only [parseEvent, encEvent, bind, Rd.u8, List.cons_append, hb, hsz, Rd.take, List.length_append, hl, hlt, ↓reduceIte,
    ht, hdp, Rd.lift, handleSplitter_block ps.st data actual false hd ha hsum, Bool.false_eq_true, pure]
  simp [handleEvent, EV_SPLITTER, EV_PAYLOADS, EV_GECKO]

/-- the final block: the reassembled message is handed to the Gecko arm -/
theorem parseEvent_split_final (ps : ParseState) (data : Bytes) (actual : Nat) (rest : Bytes) (hd : data.length = 512)
    (ha : actual ≤ 512) (hsum : ps.st.splitActual + actual < 2 ^ 32) (hsz : sizeOfEv ps.st.sizes EV_SPLITTER = some 516) :
    parseEvent ps (encEvent (EV_SPLITTER, splitPayload data actual true) ++ rest) =
      .ok ((EV_GECKO, { st := { ps.st with splitRaw := [], splitActual := ps.st.splitActual + actual, gecko := some (Gecko.mk (ps.st.splitRaw ++ data) (ps.st.splitActual + actual)) }, bytesRead := ps.bytesRead + 516 + 1 }), rest) := by
  have hl := splitPayload_length data actual true hd
  have hb : (UInt8.ofNat EV_SPLITTER).toNat = EV_SPLITTER := by decide
  have hlt : ¬ (516 + rest.length < 516) := by omega
  have ht : List.take 516 (splitPayload data actual true ++ rest) = splitPayload data actual true := List.take_left' hl
  have hdp : List.drop 516 (splitPayload data actual true ++ rest) = rest := List.drop_left' hl
  simp only [parseEvent, encEvent, bind, Rd.u8, List.cons_append, hb, hsz, Rd.take, List.length_append, hl, hlt, ↓reduceIte,
    ht, hdp, Rd.lift, handleSplitter_block ps.st data actual true hd ha hsum, pure]
  simp [handleEvent, EV_SPLITTER, EV_PAYLOADS, EV_GECKO]

#print axioms parseEvent_split_final
end Peppi

namespace Peppi
open Extracted

def BlockOK (b : Bytes × Nat) : Prop := b.1.length = 512 ∧ b.2 ≤ 512

def encBlocks (bs : List (Bytes × Nat)) : Bytes := bs.flatMap fun b => encEvent (EV_SPLITTER, splitPayload b.1 b.2 false)

def sumActual (bs : List (Bytes × Nat)) : Nat := (bs.map (·.2)).sum
def catData (bs : List (Bytes × Nat)) : Bytes := bs.flatMap (·.1)

/-- the loop over the non-final splitter blocks -/
theorem split_run (rawLen : Nat) : ∀ (bs : List (Bytes × Nat)) (fuel : Nat) (ps : ParseState) (rest : Bytes),
    (∀ b ∈ bs, BlockOK b) → ps.st.splitActual + sumActual bs < 2 ^ 32 →
    sizeOfEv ps.st.sizes EV_SPLITTER = some 516 →
    (rawLen = 0 ∨ ps.bytesRead + 517 * bs.length ≤ rawLen) →
    eventLoop (fuel + bs.length) rawLen ps (encBlocks bs ++ rest) =
      eventLoop fuel rawLen { st := { ps.st with splitRaw := ps.st.splitRaw ++ catData bs, splitActual := ps.st.splitActual + sumActual bs },
                              bytesRead := ps.bytesRead + 517 * bs.length } rest := by
  intro bs
  induction bs with
  | nil => intro fuel ps rest _ _ _ _; simp [encBlocks, catData, sumActual]
  | cons b bs ih =>
    intro fuel ps rest hok hsum hsz hraw
    obtain ⟨hd, ha⟩ := hok b (by simp)
    have hs : sumActual (b :: bs) = b.2 + sumActual bs := by simp [sumActual]
    rw [hs] at hsum
    have hcond : rawLen = 0 ∨ ps.bytesRead < rawLen := by
      rcases hraw with h0 | h1
      · exact Or.inl h0
      · right; simp only [List.length_cons] at h1; omega
    have hfuel : fuel + (b :: bs).length = (fuel + bs.length) + 1 := by simp; omega
    rw [hfuel, eventLoop_succ]
    simp only [hcond, ↓reduceIte]
    have henc : encBlocks (b :: bs) ++ rest = encEvent (EV_SPLITTER, splitPayload b.1 b.2 false) ++ (encBlocks bs ++ rest) := by
      simp [encBlocks, List.flatMap_cons]
    rw [henc, parseEvent_split ps b.1 b.2 _ hd ha (by omega) hsz]
    simp only [show ¬ (EV_SPLITTER = EV_GAME_END) by decide, ↓reduceIte]
    have hih := ih fuel ⟨{ ps.st with splitRaw := ps.st.splitRaw ++ b.1, splitActual := ps.st.splitActual + b.2 }, ps.bytesRead + 516 + 1⟩ rest
      (fun b' hb' => hok b' (by simp [hb'])) (by simp only []; omega) hsz
      (by
        rcases hraw with h0 | h1
        · exact Or.inl h0
        · right; simp only [List.length_cons] at h1 ⊢; omega)
    rw [hih]
    simp only [catData, List.flatMap_cons, List.append_assoc, hs, List.length_cons]
    have e1 : ps.st.splitActual + b.2 + sumActual bs = ps.st.splitActual + (b.2 + sumActual bs) := by omega
    have e2 : ps.bytesRead + 516 + 1 + 517 * bs.length = ps.bytesRead + 517 * (bs.length + 1) := by omega
    rw [e1, e2]

/-- **the Gecko block**: `init` non-final splitter events followed by one final event leave the reassembled bytes and the
    summed actual size in `gecko`, an empty accumulator, and have counted 517 bytes per block -/
theorem gecko_run (rawLen fuel : Nat) (ps : ParseState) (init : List (Bytes × Nat)) (last : Bytes × Nat) (rest : Bytes)
    (hok : ∀ b ∈ init ++ [last], BlockOK b) (hsum : ps.st.splitActual + sumActual (init ++ [last]) < 2 ^ 32)
    (hsz : sizeOfEv ps.st.sizes EV_SPLITTER = some 516)
    (hraw : rawLen = 0 ∨ ps.bytesRead + 517 * (init.length + 1) ≤ rawLen) :
    eventLoop (fuel + 1 + init.length + 1) rawLen ps (encBlocks init ++ (encEvent (EV_SPLITTER, splitPayload last.1 last.2 true) ++ rest)) =
      eventLoop (fuel + 1) rawLen
        { st := { ps.st with splitRaw := [], splitActual := ps.st.splitActual + sumActual (init ++ [last]),
                             gecko := some (Gecko.mk (ps.st.splitRaw ++ catData (init ++ [last])) (ps.st.splitActual + sumActual (init ++ [last]))) },
          bytesRead := ps.bytesRead + 517 * (init.length + 1) } rest := by
  have hsl : sumActual (init ++ [last]) = sumActual init + last.2 := by simp [sumActual]
  have hcl : catData (init ++ [last]) = catData init ++ last.1 := by simp [catData]
  obtain ⟨hd, ha⟩ := hok last (by simp)
  rw [show fuel + 1 + init.length + 1 = (fuel + 1 + 1) + init.length by omega,
    split_run rawLen init (fuel + 1 + 1) ps _ (fun b hb => hok b (by simp [hb])) (by omega) hsz
      (by rcases hraw with h0 | h1
          · exact Or.inl h0
          · right; omega)]
  rw [eventLoop_succ]
  have hcond : rawLen = 0 ∨ ps.bytesRead + 517 * init.length < rawLen := by
    rcases hraw with h0 | h1
    · exact Or.inl h0
    · right; omega
  simp only [hcond, ↓reduceIte]
  have hfin := parseEvent_split_final ⟨{ ps.st with splitRaw := ps.st.splitRaw ++ catData init, splitActual := ps.st.splitActual + sumActual init }, ps.bytesRead + 517 * init.length⟩ last.1 last.2 rest hd ha (by simp only []; omega) hsz
  rw [hfin]
  simp only [show ¬ (EV_GECKO = EV_GAME_END) by decide, ↓reduceIte, hsl, hcl, List.append_assoc]
  have e1 : ps.st.splitActual + sumActual init + last.2 = ps.st.splitActual + (sumActual init + last.2) := by omega
  have e2 : ps.bytesRead + 517 * init.length + 516 + 1 = ps.bytesRead + 517 * (init.length + 1) := by omega
  rw [e1, e2]

#print axioms gecko_run
end Peppi
