import Peppi.Lemmas.GenInst
/-! C08 and C17 for every version: consequences of `readP_irregular`, `C04_any` and `write_game_any`. -/
namespace Peppi
open Extracted

/-- **C08 (unknown events, bytes after Game End), every version**: a replay that is well-formed up to tolerated
    irregularities is read to exactly the game of the canonical file of the same history — unknown events declared in the
    payload table are skipped wherever and however often they occur (after the Gecko block), and bytes between Game End and
    the declared end of the raw element are ignored. -/
theorem C08_any (T : TextOracle) (r : Replay) (s : Start) (gk : Option GeckoBlocks) (i : Irr) (h : i.OK T r s gk) :
    readSlp T { skipFrames := false, computeHash := false } (r.fileIrr s gk i).encode =
      readSlp T { skipFrames := false, computeHash := false } (r.encodeAny s.version (portOccupancy s) gk) := by
  obtain ⟨ge, hge, hU⟩ := readP_irregular T r s gk i h
  obtain ⟨ge', hge', hA⟩ := C04_any T r s gk h.base
  have : ge = ge' := by
    cases ge <;> cases ge' <;> cases hf : r.fend <;> simp_all
  subst this
  have hU' : readP T { skipFrames := false, computeHash := false } (r.fileIrr s gk i).encode = .ok (r.gameAny s ge gk, []) := hU
  have hA' : readP T { skipFrames := false, computeHash := false } (r.encodeAny s.version (portOccupancy s) gk) = .ok (r.gameAny s ge gk, []) := hA
  unfold readSlp
  rw [hU', hA']
  simp only [Bool.false_eq_true, ↓reduceIte]

/-- the canonical file declares, in its header, the actual length of its raw element (every regime) -/
theorem encodeAny_declares_actual (r : Replay) (v : Ver) (shape : List PortOccupancy) (gk : Option GeckoBlocks) :
    ∃ rest, r.encodeAny v shape gk = FILE_SIGNATURE ++ (toBE 4 (r.rawAny v shape gk).length ++ (r.rawAny v shape gk ++ rest)) := by
  cases gk with
  | some g => exact ⟨r.tail, rfl⟩
  | none =>
    simp only [Replay.encodeAny, Replay.rawAny]
    split
    · exact ⟨r.tail, rfl⟩
    · split <;> exact ⟨r.tail, rfl⟩

/-- **C17, every version ≤ the maximum.**  For every replay that is well-formed up to tolerated irregularities (unknown
    events, bytes after Game End, Game End or metadata missing) the reader accepts it; writing the game gives the canonical
    file of the history, which declares a raw length equal to the actual length of its raw element; reading that file yields
    the same game again (start, end, metadata, Gecko codes, frames); and writing the re-read game reproduces the written file
    byte for byte. -/
theorem C17_any (T : TextOracle) (r : Replay) (s : Start) (gk : Option GeckoBlocks) (i : Irr) (h : i.OK T r s gk)
    (hmax : assertMaxVersion s.version = .ok ()) :
    ∃ g y, readSlp T { skipFrames := false, computeHash := false } (r.fileIrr s gk i).encode = .ok g ∧
      writeSlp g = .ok y ∧
      (∃ raw rest, y = FILE_SIGNATURE ++ (toBE 4 raw.length ++ (raw ++ rest)) ∧ raw.length < 256 ^ 4) ∧
      readSlp T { skipFrames := false, computeHash := false } y = .ok g ∧
      (∀ g', readSlp T { skipFrames := false, computeHash := false } y = .ok g' → writeSlp g' = .ok y) := by
  obtain ⟨g, hread, hwrite⟩ := C01_any T r s gk h.base hmax
  have hread' : readSlp T { skipFrames := false, computeHash := false } (r.encodeAny s.version (portOccupancy s) gk) = .ok g := hread
  obtain ⟨rest, hrest⟩ := encodeAny_declares_actual r s.version (portOccupancy s) gk
  refine ⟨g, _, ?_, hwrite, ⟨_, rest, hrest, h.base.rawLen⟩, hread', ?_⟩
  · rw [C08_any T r s gk i h]; exact hread'
  · intro g' hg'
    rw [hread'] at hg'
    cases hg'
    exact hwrite

#print axioms C08_any
#print axioms C17_any
end Peppi
