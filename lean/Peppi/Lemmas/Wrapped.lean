import Peppi.Lemmas.Gecko
import Peppi.Lemmas.Longer
import Peppi.Lemmas.C08
/-! The Message Splitter is a generic container: a final block that names a *frame event* (Frame Start, Pre-Frame, Post-Frame,
    Item, Frame End) as its wrapped command hands the reassembled bytes to that event's handler.  One block (a payload of at
    most 512 bytes, zero-padded to 512) is handled exactly like the plain event with the same payload — the padding is extra
    trailing bytes, which the handlers ignore (`handleEvent_extra`).  This is the behaviour the `irr` suite exercises with
    frame events carried by splitter blocks. -/
namespace Peppi
open Extracted

/-- a splitter block that names wrapped command `c` -/
def splitPayloadC (data : Bytes) (actual : Nat) (final : Bool) (c : Nat) : Bytes :=
  data ++ (toBE 2 actual ++ [UInt8.ofNat c, if final then 1 else 0])

theorem splitPayloadC_length (data : Bytes) (actual : Nat) (final : Bool) (c : Nat) (hd : data.length = 512) :
    (splitPayloadC data actual final c).length = 516 := by
  simp [splitPayloadC, toBE_length, hd]

theorem handleSplitter_blockC (st : PState) (data : Bytes) (actual : Nat) (c : Nat) (hc : c < 256) (hd : data.length = 512)
    (ha : actual ≤ 512) (hsum : st.splitActual + actual < 2 ^ 32) :
    handleSplitter (splitPayloadC data actual true c) st =
      .ok (some c, { st with splitRaw := st.splitRaw ++ data, splitActual := st.splitActual + actual }) := by
  have hl := splitPayloadC_length data actual true c hd
  unfold handleSplitter
  have h1 : ¬ (splitPayloadC data actual true c).length ≠ 516 := by simp [hl]
  simp only [h1, ↓reduceIte]
  have hdrop : (splitPayloadC data actual true c).drop 512 = toBE 2 actual ++ [UInt8.ofNat c, if true then 1 else 0] := by
    unfold splitPayloadC; rw [← hd]; exact List.drop_left' rfl
  have htake : (splitPayloadC data actual true c).take 512 = data := by
    unfold splitPayloadC; rw [← hd]; exact List.take_left' rfl
  have hact : fromBE (((splitPayloadC data actual true c).drop 512).take 2) = actual := by
    rw [hdrop, List.take_left' (toBE_length 2 actual)]
    exact fromBE_toBE 2 actual (by omega)
  have hsplit : splitPayloadC data actual true c = (data ++ toBE 2 actual) ++ [UInt8.ofNat c, if true then 1 else 0] := by
    simp [splitPayloadC]
  have h514 : (splitPayloadC data actual true c).getD 514 0 = UInt8.ofNat c := by
    rw [hsplit, List.getD_eq_getElem?_getD, List.getElem?_append_right (by simp [toBE_length, hd])]
    simp [toBE_length, hd]
  have h515 : (splitPayloadC data actual true c).getD 515 0 = 1 := by
    rw [hsplit, List.getD_eq_getElem?_getD, List.getElem?_append_right (by simp [toBE_length, hd])]
    simp [toBE_length, hd]
  rw [hact, h514, h515, htake]
  have h2 : ¬ actual > 512 := by omega
  have h3 : ¬ st.splitActual + actual ≥ 2 ^ 32 := by omega
  have hcn : (UInt8.ofNat c).toNat = c := by simp [UInt8.toNat_ofNat']; omega
  simp only [h2, h3, ↓reduceIte, hcn]
  simp

/-- **a frame event carried by one final splitter block is handled like the plain event**: the state afterwards is what the
    event's handler makes of the bare payload (with the splitter's size accumulator advanced); the event code returned is
    the wrapped one; 517 bytes of the raw element are consumed -/
theorem parseEvent_wrapped (ps : ParseState) (c : Nat) (p pad rest : Bytes) (st' : PState)
    (hc : isFrameEv c = true) (h512 : (p ++ pad).length = 512)
    (hsz : sizeOfEv ps.st.sizes EV_SPLITTER = some 516) (hraw : ps.st.splitRaw = [])
    (hact : ps.st.splitActual + p.length < 2 ^ 32)
    (hplain : handleEvent { ps.st with splitActual := ps.st.splitActual + p.length } c p = .ok st') :
    parseEvent ps (encEvent (EV_SPLITTER, splitPayloadC (p ++ pad) p.length true c) ++ rest) =
      .ok ((c, { st := st', bytesRead := ps.bytesRead + 516 + 1 }), rest) := by
  have hc256 : c < 256 := by
    simp only [isFrameEv, Bool.or_eq_true, beq_iff_eq] at hc
    rcases hc with (((h | h) | h) | h) | h <;> subst h <;> decide
  have hp : p.length ≤ 512 := by simp only [List.length_append] at h512; omega
  have hl := splitPayloadC_length (p ++ pad) p.length true c h512
  have hb : (UInt8.ofNat EV_SPLITTER).toNat = EV_SPLITTER := by decide
  have hlt : ¬ (516 + rest.length < 516) := by omega
  have ht : List.take 516 (splitPayloadC (p ++ pad) p.length true c ++ rest) = splitPayloadC (p ++ pad) p.length true c := List.take_left' hl
  have hdp : List.drop 516 (splitPayloadC (p ++ pad) p.length true c ++ rest) = rest := List.drop_left' hl
  have hext := handleEvent_extra _ st' c p pad hc hplain
  have hst : ({ ({ ps.st with splitRaw := ps.st.splitRaw ++ (p ++ pad), splitActual := ps.st.splitActual + p.length } : PState) with splitRaw := [] } : PState) =
      { ps.st with splitActual := ps.st.splitActual + p.length } := by
    cases hps : ps.st
    rw [hps] at hraw
    simp only at hraw
    subst hraw
    rfl
  simp only [parseEvent, encEvent, bind, Rd.u8, List.cons_append, hb, hsz, Rd.take, List.length_append, hl, hlt, ↓reduceIte,
    ht, hdp, Rd.lift, handleSplitter_blockC ps.st (p ++ pad) p.length c hc256 h512 hp hact, pure]
  rw [hst, hraw, List.nil_append, hext]

#print axioms parseEvent_wrapped

/-- **a message of a kind the library does not know, carried by a final splitter block, is skipped**: nothing changes but the
    splitter's accumulators (the reassembly buffer is emptied, the size total advanced), and 517 bytes are counted — per
    block, not per reassembled byte -/
theorem parseEvent_wrapped_unknown (ps : ParseState) (c : Nat) (data rest : Bytes) (actual : Nat)
    (hc : c < 256) (hunk : isKnown c = false) (hd : data.length = 512) (ha : actual ≤ 512)
    (hsz : sizeOfEv ps.st.sizes EV_SPLITTER = some 516) (hact : ps.st.splitActual + actual < 2 ^ 32) :
    parseEvent ps (encEvent (EV_SPLITTER, splitPayloadC data actual true c) ++ rest) =
      .ok ((c, { st := { ps.st with splitRaw := [], splitActual := ps.st.splitActual + actual }, bytesRead := ps.bytesRead + 516 + 1 }), rest) := by
  have hl := splitPayloadC_length data actual true c hd
  have hb : (UInt8.ofNat EV_SPLITTER).toNat = EV_SPLITTER := by decide
  have hlt : ¬ (516 + rest.length < 516) := by omega
  have ht : List.take 516 (splitPayloadC data actual true c ++ rest) = splitPayloadC data actual true c := List.take_left' hl
  have hdp : List.drop 516 (splitPayloadC data actual true c ++ rest) = rest := List.drop_left' hl
  simp only [parseEvent, encEvent, bind, Rd.u8, List.cons_append, hb, hsz, Rd.take, List.length_append, hl, hlt, ↓reduceIte,
    ht, hdp, Rd.lift, handleSplitter_blockC ps.st data actual c hc hd ha hact, pure]
  rw [handle_unknown _ c _ hunk]

/-- a non-final block of any message is accumulated and nothing else changes -/
theorem parseEvent_split_any (ps : ParseState) (c : Nat) (data rest : Bytes) (actual : Nat)
    (hd : data.length = 512) (ha : actual ≤ 512)
    (hsz : sizeOfEv ps.st.sizes EV_SPLITTER = some 516) (hact : ps.st.splitActual + actual < 2 ^ 32) :
    ∃ st', parseEvent ps (encEvent (EV_SPLITTER, splitPayloadC data actual false c) ++ rest) =
      .ok ((EV_SPLITTER, { st := st', bytesRead := ps.bytesRead + 516 + 1 }), rest) ∧
      st' = { ps.st with splitRaw := ps.st.splitRaw ++ data, splitActual := ps.st.splitActual + actual } := by
  have hl := splitPayloadC_length data actual false c hd
  have hb : (UInt8.ofNat EV_SPLITTER).toNat = EV_SPLITTER := by decide
  have hlt : ¬ (516 + rest.length < 516) := by omega
  have ht : List.take 516 (splitPayloadC data actual false c ++ rest) = splitPayloadC data actual false c := List.take_left' hl
  have hdp : List.drop 516 (splitPayloadC data actual false c ++ rest) = rest := List.drop_left' hl
  have hs : handleSplitter (splitPayloadC data actual false c) ps.st =
      .ok (none, { ps.st with splitRaw := ps.st.splitRaw ++ data, splitActual := ps.st.splitActual + actual }) := by
    unfold handleSplitter
    have h1 : ¬ (splitPayloadC data actual false c).length ≠ 516 := by simp [hl]
    simp only [h1, ↓reduceIte]
    have hdrop : (splitPayloadC data actual false c).drop 512 = toBE 2 actual ++ [UInt8.ofNat c, if false then 1 else 0] := by
      unfold splitPayloadC; rw [← hd]; exact List.drop_left' rfl
    have htake : (splitPayloadC data actual false c).take 512 = data := by
      unfold splitPayloadC; rw [← hd]; exact List.take_left' rfl
    have hactual : fromBE (((splitPayloadC data actual false c).drop 512).take 2) = actual := by
      rw [hdrop, List.take_left' (toBE_length 2 actual)]
      exact fromBE_toBE 2 actual (by omega)
    have hsplit : splitPayloadC data actual false c = (data ++ toBE 2 actual) ++ [UInt8.ofNat c, if false then 1 else 0] := by
      simp [splitPayloadC]
    have h515 : (splitPayloadC data actual false c).getD 515 0 = 0 := by
      rw [hsplit, List.getD_eq_getElem?_getD, List.getElem?_append_right (by simp [toBE_length, hd])]
      simp [toBE_length, hd]
    rw [hactual, h515, htake]
    have h2 : ¬ actual > 512 := by omega
    have h3 : ¬ ps.st.splitActual + actual ≥ 2 ^ 32 := by omega
    simp only [h2, h3, ↓reduceIte]
    simp
  refine ⟨_, ?_, rfl⟩
  simp only [parseEvent, encEvent, bind, Rd.u8, List.cons_append, hb, hsz, Rd.take, List.length_append, hl, hlt, ↓reduceIte,
    ht, hdp, Rd.lift, hs, pure]
  simp [handleEvent, EV_SPLITTER, EV_PAYLOADS]

#print axioms parseEvent_wrapped_unknown
#print axioms parseEvent_split_any
end Peppi
