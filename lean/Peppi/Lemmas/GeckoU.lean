import Peppi.Lemmas.GenFile
import Peppi.Lemmas.C04G
import Peppi.Lemmas.C08
/-! Unknown events *between* the message-splitter events of the Gecko block (C08: "wherever they occur"): each splitter event
    and each run of unknown events is one `MidRun` step; the steps compose. -/
namespace Peppi
open Extracted

/-- one non-final splitter block as a middle -/
theorem MidRun.block (ps : ParseState) (data : Bytes) (actual : Nat) (hd : data.length = 512) (ha : actual ≤ 512)
    (hsum : ps.st.splitActual + actual < 2 ^ 32) (hsz : sizeOfEv ps.st.sizes EV_SPLITTER = some 516) :
    MidRun ps (encEvent (EV_SPLITTER, splitPayload data actual false))
      { st := { ps.st with splitRaw := ps.st.splitRaw ++ data, splitActual := ps.st.splitActual + actual }, bytesRead := ps.bytesRead + 517 } := by
  intro rawLen rest hraw
  have hl : (encEvent (EV_SPLITTER, splitPayload data actual false)).length = 517 := by
    simp [encEvent, splitPayload_length data actual false hd]
  have hcond : rawLen = 0 ∨ ps.bytesRead < rawLen := by
    rcases hraw with h | h; exact Or.inl h; right; rw [hl] at h; omega
  rw [eventLoop_succ]
  simp only [hcond, ↓reduceIte]
  rw [parseEvent_split ps data actual rest hd ha hsum hsz]
  simp only [show ¬ (EV_SPLITTER = EV_GAME_END) by decide, ↓reduceIte]
  exact eventLoop_fuel _ _ _ _ _ (by simp only [List.length_append, hl]; omega) (by omega)

/-- the final splitter block as a middle: the reassembled message goes to the Gecko arm -/
theorem MidRun.blockFinal (ps : ParseState) (data : Bytes) (actual : Nat) (hd : data.length = 512) (ha : actual ≤ 512)
    (hsum : ps.st.splitActual + actual < 2 ^ 32) (hsz : sizeOfEv ps.st.sizes EV_SPLITTER = some 516) :
    MidRun ps (encEvent (EV_SPLITTER, splitPayload data actual true))
      { st := { ps.st with splitRaw := [], splitActual := ps.st.splitActual + actual,
                           gecko := some (Gecko.mk (ps.st.splitRaw ++ data) (ps.st.splitActual + actual)) },
        bytesRead := ps.bytesRead + 517 } := by
  intro rawLen rest hraw
  have hl : (encEvent (EV_SPLITTER, splitPayload data actual true)).length = 517 := by
    simp [encEvent, splitPayload_length data actual true hd]
  have hcond : rawLen = 0 ∨ ps.bytesRead < rawLen := by
    rcases hraw with h | h; exact Or.inl h; right; rw [hl] at h; omega
  rw [eventLoop_succ]
  simp only [hcond, ↓reduceIte]
  rw [parseEvent_split_final ps data actual rest hd ha hsum hsz]
  simp only [show ¬ (EV_GECKO = EV_GAME_END) by decide, ↓reduceIte]
  exact eventLoop_fuel _ _ _ _ _ (by simp only [List.length_append, hl]; omega) (by omega)

/-- a run of declared unknown events as a middle: the state does not change -/
theorem MidRun.unknowns (ps : ParseState) (es : List (Nat × Bytes))
    (h : ∀ e ∈ es, isKnown e.1 = false ∧ e.1 < 256 ∧ sizeOfEv ps.st.sizes e.1 = some e.2.length) :
    MidRun ps (encEvents es) { st := ps.st, bytesRead := ps.bytesRead + (encEvents es).length } := by
  apply MidRun.events ps es ps.st
  · intro e he
    obtain ⟨hk, hc, hs⟩ := h e he
    have hns : e.1 ≠ EV_SPLITTER := by intro hh; rw [hh] at hk; simp [isKnown] at hk
    have hne : e.1 ≠ EV_GAME_END := by intro hh; rw [hh] at hk; simp [isKnown] at hk
    exact ⟨hc, hns, hne, hs⟩
  · rw [runEvents_erase_unknown]
    have : es.filter (fun e => isKnown e.1) = [] := by
      rw [List.filter_eq_nil_iff]; intro e he; simp [(h e he).1]
    rw [this]; rfl

theorem MidRun.congr {a c c' : ParseState} {m : Bytes} (h : MidRun a m c) (hc : c = c') : MidRun a m c' := hc ▸ h

/-- non-final blocks, each preceded by a (possibly empty) run of unknown events taken from `us` in order -/
def encBlocksU : List (Bytes × Nat) → List (List (Nat × Bytes)) → Bytes
  | [], _ => []
  | b :: bs, us => encEvents (us.headD []) ++ (encEvent (EV_SPLITTER, splitPayload b.1 b.2 false) ++ encBlocksU bs us.tail)

/-- the Gecko block with unknown events before each of its splitter events -/
def GeckoBlocks.encU (g : GeckoBlocks) (us : List (List (Nat × Bytes))) : Bytes :=
  encBlocksU g.init us ++ (encEvents ((us.drop g.init.length).headD []) ++ encEvent (EV_SPLITTER, splitPayload g.last.1 g.last.2 true))

theorem encBlocksU_nil (bs : List (Bytes × Nat)) : encBlocksU bs [] = encBlocks bs := by
  induction bs with
  | nil => rfl
  | cons b bs ih => simp only [encBlocksU, List.headD_nil, List.tail_nil, ih]; simp [encBlocks, List.flatMap_cons, encEvents]

theorem GeckoBlocks.encU_nil (g : GeckoBlocks) : g.encU [] = g.enc := by
  simp [GeckoBlocks.encU, GeckoBlocks.enc, encBlocksU_nil, encEvents]

theorem midRun_blocksU : ∀ (bs : List (Bytes × Nat)) (us : List (List (Nat × Bytes))) (ps : ParseState),
    (∀ b ∈ bs, BlockOK b) → ps.st.splitActual + sumActual bs < 2 ^ 32 → sizeOfEv ps.st.sizes EV_SPLITTER = some 516 →
    (∀ u ∈ us, ∀ e ∈ u, isKnown e.1 = false ∧ e.1 < 256 ∧ sizeOfEv ps.st.sizes e.1 = some e.2.length) →
    MidRun ps (encBlocksU bs us)
      { st := { ps.st with splitRaw := ps.st.splitRaw ++ catData bs, splitActual := ps.st.splitActual + sumActual bs },
        bytesRead := ps.bytesRead + (encBlocksU bs us).length } := by
  intro bs
  induction bs with
  | nil => intro us ps _ _ _ _; simpa [encBlocksU, catData, sumActual] using MidRun.nil ps
  | cons b bs ih =>
    intro us ps hok hsum hsz hus
    obtain ⟨hd, ha⟩ := hok b (by simp)
    have hs : sumActual (b :: bs) = b.2 + sumActual bs := by simp [sumActual]
    rw [hs] at hsum
    have hu0 : ∀ e ∈ us.headD [], isKnown e.1 = false ∧ e.1 < 256 ∧ sizeOfEv ps.st.sizes e.1 = some e.2.length := by
      cases us with
      | nil => intro e he; simp at he
      | cons u t => intro e he; exact hus u (by simp) e (by simpa using he)
    have m1 := MidRun.unknowns ps (us.headD []) hu0
    have m2 := MidRun.block ⟨ps.st, ps.bytesRead + (encEvents (us.headD [])).length⟩ b.1 b.2 hd ha (by simp only []; omega) hsz
    have m3 := ih us.tail ⟨{ ps.st with splitRaw := ps.st.splitRaw ++ b.1, splitActual := ps.st.splitActual + b.2 },
        ps.bytesRead + (encEvents (us.headD [])).length + 517⟩
      (fun b' hb' => hok b' (by simp [hb'])) (by simp only []; omega) hsz
      (fun u hu e he => hus u (List.mem_of_mem_tail hu) e he)
    have hl : (encEvent (EV_SPLITTER, splitPayload b.1 b.2 false)).length = 517 := by
      simp [encEvent, splitPayload_length b.1 b.2 false hd]
    have m23 := MidRun.trans m2 m3 (by simp only [hl])
    have m123 := MidRun.trans m1 m23 rfl
    simp only [encBlocksU]
    refine MidRun.congr m123 ?_
    simp only [catData, List.flatMap_cons, List.append_assoc, hs, List.length_append, hl, ParseState.mk.injEq, PState.mk.injEq, true_and, and_true]
    refine ⟨by omega, by omega⟩

/-- **the Gecko block with unknown events in between** -/
theorem midRun_geckoU (t : List (Nat × Nat)) (sl : Nat) (s : Start) (g : GeckoBlocks) (us : List (List (Nat × Bytes)))
    (hfull : ∀ b ∈ g.init, FullBlock b) (hlast : LastBlock g.last) (htot : g.total < 2 ^ 32)
    (hsz : sizeOfEv t.reverse EV_SPLITTER = some 516)
    (hus : ∀ u ∈ us, ∀ e ∈ u, isKnown e.1 = false ∧ e.1 < 256 ∧ sizeOfEv t.reverse e.1 = some e.2.length) :
    MidRun (ps0T t sl s) (g.encU us)
      { st := { (ps0T t sl s).st with splitRaw := [], splitActual := g.total, gecko := some (Gecko.mk (catData g.all) g.total) },
        bytesRead := (ps0T t sl s).bytesRead + (g.encU us).length } := by
  have hblocks : ∀ b ∈ g.init, BlockOK b := fun b hb => ⟨(hfull b hb).1, by rw [(hfull b hb).2]; omega⟩
  have hsl : g.total = sumActual g.init + g.last.2 := by simp [GeckoBlocks.total, GeckoBlocks.all, sumActual]
  have m1 := midRun_blocksU g.init us (ps0T t sl s) hblocks (by simp only [ps0T]; omega) hsz hus
  have hu1 : ∀ e ∈ (us.drop g.init.length).headD [], isKnown e.1 = false ∧ e.1 < 256 ∧ sizeOfEv t.reverse e.1 = some e.2.length := by
    intro e he
    cases hd : us.drop g.init.length with
    | nil => rw [hd] at he; simp at he
    | cons u r =>
      rw [hd] at he
      exact hus u (List.mem_of_mem_drop (by rw [hd]; simp)) e (by simpa using he)
  let stA : PState := { (ps0T t sl s).st with splitRaw := (ps0T t sl s).st.splitRaw ++ catData g.init, splitActual := (ps0T t sl s).st.splitActual + sumActual g.init }
  let psA : ParseState := { st := stA, bytesRead := (ps0T t sl s).bytesRead + (encBlocksU g.init us).length }
  have m2 := MidRun.unknowns psA ((us.drop g.init.length).headD []) hu1
  have m3 := MidRun.blockFinal ⟨psA.st, psA.bytesRead + (encEvents ((us.drop g.init.length).headD [])).length⟩ g.last.1 g.last.2
    hlast.1 hlast.2.2 (by simp only [psA, stA, ps0T]; omega) hsz
  have hl : (encEvent (EV_SPLITTER, splitPayload g.last.1 g.last.2 true)).length = 517 := by
    simp [encEvent, splitPayload_length g.last.1 g.last.2 true hlast.1]
  have m23 := MidRun.trans m2 m3 rfl
  have m123 := MidRun.trans m1 m23 rfl
  simp only [GeckoBlocks.encU]
  refine MidRun.congr m123 ?_
  simp only [psA, stA, ps0T, GeckoBlocks.all, catData, List.flatMap_append, List.flatMap_cons, List.flatMap_nil, List.append_nil,
    List.nil_append, hsl, Nat.zero_add, List.length_append, hl, ParseState.mk.injEq, PState.mk.injEq, true_and, and_true]
  omega

#print axioms midRun_geckoU
end Peppi
