import Peppi.Lemmas.Slots
/-! `Vec<PortData>` (leader + optional follower per port) as a flat list of character slots. -/
namespace Peppi

def PCols.slots (p : PCols) : List DCols := p.leader :: (match p.follower with | some f => [f] | none => [])
def flatSlots (ports : List PCols) : List DCols := ports.flatMap PCols.slots

def PCols.nslots (p : PCols) : Nat := if p.follower.isSome then 2 else 1
theorem PCols.slots_length (p : PCols) : p.slots.length = p.nslots := by
  unfold PCols.slots PCols.nslots; cases p.follower <;> simp

def slotBase : List PCols → Nat → Nat
  | [], _ => 0
  | _ :: _, 0 => 0
  | p :: ps, pi+1 => p.nslots + slotBase ps pi

def slotIndex (ports : List PCols) (pi : Nat) (fol : Bool) : Nat := slotBase ports pi + (if fol then 1 else 0)

theorem PCols.updSlot_nslots (p : PCols) (fol : Bool) (f) : (p.updSlot fol f).nslots = p.nslots := by
  unfold PCols.updSlot PCols.nslots; split <;> simp

theorem PCols.updSlot_slots (p : PCols) (fol : Bool) (f : DCols → DCols) (h : fol = true → p.follower.isSome) :
    (p.updSlot fol f).slots = p.slots.modify (if fol then 1 else 0) f := by
  unfold PCols.updSlot PCols.slots
  cases fol with
  | false => simp
  | true =>
    have := h rfl
    cases hf : p.follower with
    | none => simp [hf] at this
    | some d => simp

theorem modify_append_left {α} (a b : List α) (i : Nat) (f : α → α) (h : i < a.length) :
    (a ++ b).modify i f = a.modify i f ++ b := by
  induction a generalizing i with
  | nil => simp at h
  | cons x xs ih =>
    cases i with
    | zero => simp
    | succ i' => simp [ih i' (by simpa using h)]

theorem modify_append_right {α} (a b : List α) (i : Nat) (f : α → α) :
    (a ++ b).modify (a.length + i) f = a ++ b.modify i f := by
  induction a with
  | nil => simp
  | cons x xs ih =>
    have : xs.length + 1 + i = (xs.length + i) + 1 := by omega
    simp [this, ih]

/-- updating one character of one port = modifying one flat slot -/
theorem flatSlots_updSlot (ports : List PCols) (pi : Nat) (fol : Bool) (f : DCols → DCols)
    (hpi : pi < ports.length) (hfol : fol = true → (ports[pi]).follower.isSome) :
    flatSlots (ports.modify pi (·.updSlot fol f)) = (flatSlots ports).modify (slotIndex ports pi fol) f := by
  induction ports generalizing pi with
  | nil => simp at hpi
  | cons p ps ih =>
    cases pi with
    | zero =>
      simp only [List.modify_zero_cons, flatSlots, List.flatMap_cons, slotIndex, slotBase, Nat.zero_add]
      simp only [List.getElem_cons_zero] at hfol
      rw [PCols.updSlot_slots p fol f hfol]
      rw [modify_append_left]
      rw [PCols.slots_length]; unfold PCols.nslots
      cases fol with
      | false => simp; split <;> omega
      | true => simp [hfol rfl]
    | succ pi' =>
      simp only [List.modify_succ_cons, flatSlots, List.flatMap_cons, slotIndex, slotBase]
      have := ih pi' (by simpa using hpi) (by simpa using hfol)
      simp only [flatSlots, slotIndex] at this
      rw [this, ← PCols.slots_length, Nat.add_assoc, modify_append_right]

theorem flatSlots_map (ports : List PCols) (g : DCols → DCols) :
    flatSlots (ports.map fun p => { p with leader := g p.leader, follower := p.follower.map g }) = (flatSlots ports).map g := by
  induction ports with
  | nil => rfl
  | cons p ps ih =>
    simp only [List.map_cons, flatSlots, List.flatMap_cons, List.map_append] at ih ⊢
    rw [ih]
    congr 1
    unfold PCols.slots
    cases p.follower <;> simp

/-- shape (port numbers and which ports have a follower) -/
def shapeOf (ports : List PCols) : List PortOccupancy := ports.map fun p => ⟨p.port, p.follower.isSome⟩

/-- rebuild the ports from a shape and a flat slot list -/
def rebuild : List PortOccupancy → List DCols → List PCols
  | [], _ => []
  | p :: ps, slots =>
    if p.follower then
      ⟨p.port, slots.headD DCols.empty, some ((slots.drop 1).headD DCols.empty)⟩ :: rebuild ps (slots.drop 2)
    else ⟨p.port, slots.headD DCols.empty, none⟩ :: rebuild ps (slots.drop 1)

theorem rebuild_flat (ports : List PCols) : rebuild (shapeOf ports) (flatSlots ports) = ports := by
  induction ports with
  | nil => rfl
  | cons p ps ih =>
    simp only [shapeOf, List.map_cons, flatSlots, List.flatMap_cons] at ih ⊢
    unfold rebuild
    cases hf : p.follower with
    | none => simp [PCols.slots, hf, ih]; cases p; simp_all
    | some d => simp [PCols.slots, hf, ih]; cases p; simp_all

theorem shapeOf_updSlot (ports : List PCols) (pi : Nat) (fol : Bool) (f) :
    shapeOf (ports.modify pi (·.updSlot fol f)) = shapeOf ports := by
  unfold shapeOf
  apply List.ext_getElem (by simp)
  intro i h1 h2
  simp only [List.getElem_map, List.getElem_modify]
  split
  · unfold PCols.updSlot; split <;> simp
  · rfl

/-- two port lists with the same shape and the same flat slots are equal -/
theorem ports_ext (a b : List PCols) (hs : shapeOf a = shapeOf b) (hf : flatSlots a = flatSlots b) : a = b := by
  rw [← rebuild_flat a, ← rebuild_flat b, hs, hf]

#print axioms flatSlots_updSlot
end Peppi
