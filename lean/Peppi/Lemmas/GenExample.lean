import Peppi.Lemmas.GenCor
import Peppi.Lemmas.Example
/-! Non-vacuity of `Irr.OK` (the hypothesis of `readP_irregular`, `C08_any`, `C17_any`): the example replays of
    `Example.lean`, one per framing regime and one with a Gecko block, with unknown events of two undeclared-by-the-library
    codes spliced in at the front, in the middle and at the end of the frame events; and a finished, non-doubled replay with
    bytes after its Game End.  Decided by kernel evaluation. -/
namespace Peppi
open Extracted

/-- unknown events (codes 0x50 and 0x51) spliced into an event stream -/
def spliceUnknown (es : List (Nat × Bytes)) : List (Nat × Bytes) :=
  [(0x50, [1, 2, 3])] ++ es.take 2 ++ [(0x50, [4, 5, 6]), (0x51, [9])] ++ es.drop 2 ++ [(0x50, [7, 8, 9]), (0x50, [0, 0, 0])]

def exIrr (v : Ver) (sl el : Nat) (gk : Option GeckoBlocks) (shape : List PortOccupancy) (frames : List FrameOcc) (junk : Bytes) : Irr :=
  { Irr.ofUnknown v sl el gk [(0x50, 3), (0x51, 1)] (spliceUnknown (canonEventsAny v shape frames)) junk with
    pre := if gk.isSome then [[(0x50, [1, 2, 3])], [(0x51, [9]), (0x50, [4, 5, 6])]] else [] }

/-- decidable form of `Longer` -/
def longerb : List (Nat × Bytes) → List (Nat × Bytes) → Bool
  | [], [] => true
  | e' :: es', e :: es => ((e' == e) || (e'.1 == e.1 && isFrameEv e.1 && e.2.isPrefixOf e'.2)) && longerb es' es
  | _, _ => false

theorem longerb_sound : ∀ (es' es : List (Nat × Bytes)), longerb es' es = true → Longer es' es
  | [], [], _ => .nil
  | [], _ :: _, h => by simp [longerb] at h
  | _ :: _, [], h => by simp [longerb] at h
  | e' :: es', e :: es, h => by
    simp only [longerb, Bool.and_eq_true, Bool.or_eq_true, beq_iff_eq] at h
    obtain ⟨h1, h2⟩ := h
    have ih := longerb_sound es' es h2
    rcases h1 with h1 | ⟨⟨hc, hf⟩, hp⟩
    · subst h1; exact .same _ _ _ ih
    · obtain ⟨c', b'⟩ := e'
      obtain ⟨c, b⟩ := e
      simp only at hc hf hp
      subst hc
      obtain ⟨x, hx⟩ := List.isPrefixOf_iff_prefix.mp hp
      subst hx
      exact .ext _ _ _ _ _ hf ih

/-- the side conditions of `Irr.OK` that are plain Booleans -/
def irrCheck (r : Replay) (s : Start) (gk : Option GeckoBlocks) (i : Irr) : Bool :=
  i.table.all (fun e => decide (e.1 < 256) && decide (0 < e.2) && decide (e.2 < 65536)) &&
  decide ((i.table.map Prod.fst).Nodup) &&
  decide (3 * i.table.length + 1 < 256) &&
  decide ((EV_GAME_START, r.startBlock.length) ∈ i.table) && decide ((EV_GAME_END, r.endLen s.version) ∈ i.table) &&
  (gk.isNone || decide ((EV_SPLITTER, 516) ∈ i.table)) &&
  longerb (i.mixed.filter (fun e => isKnown e.1)) (canonEventsAny s.version (portOccupancy s) r.frames) &&
  i.mixed.all (fun e => decide (e.1 < 256) && decide ((e.1, e.2.length) ∈ i.table)) &&
  i.pre.all (fun u => u.all (fun e => !isKnown e.1 && decide (e.1 < 256) && decide ((e.1, e.2.length) ∈ i.table))) &&
  (i.junk.isEmpty || (r.fend.isSome && !r.doubled && !(decide (i.junk.length = 1 + endSize s.version) && decide (i.junk.head? = some 0x39)))) &&
  decide ((r.fileIrr s gk i).raw.length < 256 ^ 4)

theorem irr_ok {T : TextOracle} {r : Replay} {s : Start} {gk : Option GeckoBlocks} (hb : r.WFAny T s gk) (i : Irr)
    (hc : irrCheck r s gk i = true) : i.OK T r s gk := by
  simp only [irrCheck, Bool.and_eq_true, decide_eq_true_eq, List.all_eq_true, Bool.or_eq_true, Bool.not_eq_true',
    List.isEmpty_iff, Option.isSome_iff_exists, Bool.and_eq_false_iff, decide_eq_false_iff_not, Option.isNone_iff_eq_none] at hc
  obtain ⟨⟨⟨⟨⟨⟨⟨⟨⟨⟨h1, h2⟩, h3⟩, hs⟩, he⟩, hsp⟩, h4⟩, h5⟩, hpre⟩, h6⟩, h7⟩ := hc
  refine ⟨hb, fun e he => ?_, h2, h3, hs, he, fun g hg => ?_, ⟨_, longerb_sound _ _ h4, Or.inl rfl⟩, h5, fun u hu e he => ?_, fun hj => ?_, h7⟩
  · have := h1 e he; exact ⟨this.1.1, this.1.2, this.2⟩
  · rcases hsp with h | h
    · rw [hg] at h; cases h
    · exact h
  · have := hpre u hu e he
    exact ⟨this.1.1, this.1.2, this.2⟩
  · rcases h6 with h | ⟨⟨h, hd⟩, hn⟩
    · exact absurd h hj
    · refine ⟨h, hd, ?_⟩
      intro hl
      rcases hn with hn | hn
      · exact hn hl.1
      · exact hn hl.2

/-- 3.16.0, unknown events between the frame events -/
theorem exampleIrr_A :
    (exIrr (startOf (exBlock 3 16 760)).version 760 6 none (portOccupancy (startOf (exBlock 3 16 760)))
      (exFrames [-123, -122, -122] 17 32 2 16 1 true) []).OK T0
      (exReplay (exBlock 3 16 760) (exFrames [-123, -122, -122] 17 32 2 16 1 true) [2, 255, 0, 1, 255, 255]) (startOf (exBlock 3 16 760)) none :=
  irr_ok example_A _ (by decide +kernel)

/-- 2.2.0 (Frame Start, no Frame End), unknown events between the frame events -/
theorem exampleIrr_B :
    (exIrr (startOf (exBlock 2 2 418)).version 418 2 none (portOccupancy (startOf (exBlock 2 2 418)))
      (exFrames [-123, -122, -122] 16 23 1 0 0 false) []).OK T0
      (exReplay (exBlock 2 2 418) (exFrames [-123, -122, -122] 16 23 1 0 0 false) [2, 255]) (startOf (exBlock 2 2 418)) none :=
  irr_ok example_B _ (by decide +kernel)

/-- 1.0.0 (frames opened by the first pre-frame event), unknown events between the frame events -/
theorem exampleIrr_C :
    (exIrr (startOf (exBlock 1 0 352)).version 352 1 none (portOccupancy (startOf (exBlock 1 0 352)))
      (exFrames [-123, -122, -121] 14 12 1 0 0 false) []).OK T0
      (exReplay (exBlock 1 0 352) (exFrames [-123, -122, -121] 14 12 1 0 0 false) [2]) (startOf (exBlock 1 0 352)) none :=
  irr_ok example_C _ (by decide +kernel)

/-- 3.16.0 with a Gecko block: unknown events before each of its two splitter events and after it -/
theorem exampleIrr_G :
    (exIrr (startOf (exBlock 3 16 760)).version 760 6 (some exGecko) (portOccupancy (startOf (exBlock 3 16 760)))
      (exFrames [-123, -122, -122] 17 32 2 16 1 true) []).OK T0
      (exReplay (exBlock 3 16 760) (exFrames [-123, -122, -122] 17 32 2 16 1 true) [2, 255, 0, 1, 255, 255]) (startOf (exBlock 3 16 760)) (some exGecko) :=
  irr_ok example_G _ (by decide +kernel)

/-- a replay of a version the library does not know yet (3.17.0) -/
theorem example_N : (exReplay (exBlock 3 17 760) (exFrames [-123, -122, -122] 17 32 2 16 1 true) [2, 255, 0, 1, 255, 255]).WFAny T0
    (startOf (exBlock 3 17 760)) none :=
  ex_wf _ _ _ _ (by decide +kernel) (fun h => absurd h (by decide +kernel)) (fun _ h => by cases h)

/-- every frame event of a stream carries `n` extra trailing bytes (by event code) -/
def padEvents (es : List (Nat × Bytes)) : List (Nat × Bytes) :=
  es.map fun e => (e.1, e.2 ++ List.replicate (e.1 % 5 + 1) 0xEE)

/-- the version's table with the frame-event sizes grown by the same amounts -/
def padTable (t : List (Nat × Nat)) : List (Nat × Nat) :=
  t.map fun e => if isFrameEv e.1 then (e.1, e.2 + (e.1 % 5 + 1)) else e

/-- **longer payloads from a newer version**: 3.17.0, every frame event longer than the library knows (1 to 5 extra bytes
    depending on the event), an unknown event in between -/
theorem exampleIrr_N :
    ({ table := padTable (canonTableAny (startOf (exBlock 3 17 760)).version 760 6 none) ++ [(0x50, 3)],
       mixed := [(0x50, [1, 2, 3])] ++ padEvents (canonEventsAny (startOf (exBlock 3 17 760)).version (portOccupancy (startOf (exBlock 3 17 760)))
         (exFrames [-123, -122, -122] 17 32 2 16 1 true)),
       junk := [] } : Irr).OK T0
      (exReplay (exBlock 3 17 760) (exFrames [-123, -122, -122] 17 32 2 16 1 true) [2, 255, 0, 1, 255, 255]) (startOf (exBlock 3 17 760)) none :=
  irr_ok example_N _ (by decide +kernel)

/-- a non-canonical order inside a frame: the item events first, then the pre-frame and the post-frame events -/
def itemsFirst (o : FrameOcc) : List BEv :=
  o.items.map BEv.item ++ ((presentFrom 0 o.chars).map (fun co => BEv.pre co.1 co.2.pre) ++
    (presentFrom 0 o.chars).map (fun co => BEv.post co.1 co.2.post))

theorem filterMap_none' {α β} (l : List α) : l.filterMap (fun _ => (none : Option β)) = [] := by
  induction l with
  | nil => rfl
  | cons a t ih => simp [List.filterMap_cons, ih]

theorem itemsFirst_ok (v : Ver) (shape : List PortOccupancy) (o : FrameOcc) (ho : o.OK v (nSlots shape)) :
    BodyOK v (nSlots shape) o (itemsFirst o) := by
  have hc := canonBody_ok v shape o ho
  refine ⟨?_, ?_, ?_⟩
  · intro e he
    apply hc
    simp only [itemsFirst, canonBody, List.mem_append] at he ⊢
    rcases he with h | h | h
    · exact Or.inl (Or.inr h)
    · exact Or.inl (Or.inl h)
    · exact Or.inr h
  · intro c
    have e1 : (itemsFirst o).filterMap BEv.cev = (canonBody o).filterMap BEv.cev := by
      simp [itemsFirst, canonBody, List.filterMap_append, List.filterMap_map, Function.comp_def, BEv.cev, filterMap_none']
    rw [e1]
  · simp [itemsFirst, canonBody, List.filterMap_append, List.filterMap_map, Function.comp_def, BEv.itemRow, filterMap_none']

/-- **events inside a frame in another order** (3.16.0): every frame's item events come before its character events, unknown
    events are spliced in between, the Ice Climbers follower is absent from the second occurrence -/
theorem exampleIrr_P :
    let r := exReplay (exBlock 3 16 760) (exFrames [-123, -122, -122] 17 32 2 16 1 true) [2, 255, 0, 1, 255, 255]
    let s := startOf (exBlock 3 16 760)
    let es := (r.frames.map fun o => (o, itemsFirst o)).flatMap fun ob => frameEventsP s.version (portOccupancy s) ob.1 ob.2
    ({ table := canonTableAny s.version 760 6 none ++ [(0x50, 3), (0x51, 1)], mixed := spliceUnknown es, junk := [] } : Irr).OK T0 r s none := by
  intro r s es
  have hb : r.WFAny T0 s none := example_A
  have hperm : Permuted s.version (portOccupancy s) r (r.frames.map fun o => (o, itemsFirst o)) := by
    refine ⟨by simp [List.map_map, Function.comp_def], ?_⟩
    intro ob hob
    obtain ⟨o, ho, rfl⟩ := List.mem_map.mp hob
    exact itemsFirst_ok _ _ o (hb.frames o ho)
  have h30 : s.version.gte 3 0 = true := by decide +kernel
  refine ⟨hb, ?_, (by decide +kernel), (by decide +kernel), (by decide +kernel), (by decide +kernel), (fun g hg => by cases hg),
    ⟨es, longerb_sound _ _ (by decide +kernel), Or.inr ⟨h30, _, hperm, rfl⟩⟩, ?_, (fun u hu => by cases hu), (fun hj => absurd rfl hj), (by decide +kernel)⟩
  · intro e he
    have : (canonTableAny s.version 760 6 none ++ [(0x50, 3), (0x51, 1)]).all (fun e => decide (e.1 < 256) && decide (0 < e.2) && decide (e.2 < 65536)) = true := by
      decide +kernel
    have := List.all_eq_true.mp this e he
    simp only [Bool.and_eq_true, decide_eq_true_eq] at this
    exact ⟨this.1.1, this.1.2, this.2⟩
  · intro e he
    have : (spliceUnknown es).all (fun e => decide (e.1 < 256) && decide ((e.1, e.2.length) ∈ canonTableAny s.version 760 6 none ++ [(0x50, 3), (0x51, 1)])) = true := by
      decide +kernel
    have := List.all_eq_true.mp this e he
    simp only [Bool.and_eq_true, decide_eq_true_eq] at this
    exact this

/-- the conclusion of `C17_any` holds of the 2.2.0 example with unknown events -/
theorem exampleIrr_B_fixedpoint :
    let r := exReplay (exBlock 2 2 418) (exFrames [-123, -122, -122] 16 23 1 0 0 false) [2, 255]
    let s := startOf (exBlock 2 2 418)
    let i := exIrr s.version 418 2 none (portOccupancy s) (exFrames [-123, -122, -122] 16 23 1 0 0 false) []
    ∃ g y, readSlp T0 { skipFrames := false, computeHash := false } (r.fileIrr s none i).encode = .ok g ∧ writeSlp g = .ok y ∧
      readSlp T0 { skipFrames := false, computeHash := false } y = .ok g := by
  intro r s i
  have hv : s.version = ⟨2, 2, 0⟩ := by decide +kernel
  obtain ⟨g, y, h1, h2, _, h4, _⟩ := C17_any T0 r s none i exampleIrr_B (by rw [hv]; decide)
  exact ⟨g, y, h1, h2, h4⟩

end Peppi
