import Peppi.Lemmas.C09
import Peppi.PeppiFmt
/-! C09 (.slpp writer): the same version guard, before any entry is produced. -/
namespace Peppi

theorem C09_slpp_refuse (g : Game) (hash : Option String) (h : g.start.version.above) :
    peppiEntries g hash = .err "unsupported version" := by
  have hne : assertMaxVersion g.start.version ≠ .ok () := fun hok => h ((assertMaxVersion_iff _).mp hok)
  have herr : assertMaxVersion g.start.version = .err "unsupported version" := by
    unfold assertMaxVersion at hne ⊢
    by_cases hle : g.start.version.le MAX_SUPPORTED_VERSION = true
    · simp [hle] at hne
    · simp [hle]
  unfold peppiEntries
  simp only [bind, herr]

/-- **C09**: both writers refuse exactly the versions above 3.16.0 at their first step -/
theorem C09_both (g : Game) (hash : Option String) (h : g.start.version.above) :
    writeSlp g = .err "unsupported version" ∧ peppiEntries g hash = .err "unsupported version" :=
  ⟨C09_slp_refuse g h, C09_slpp_refuse g hash h⟩

#print axioms C09_both

/-- derived `PartialOrd` on `Version(u8, u8, u8)`: lexicographic -/
def pverLt (a b : Nat × Nat × Nat) : Bool :=
  decide (a.1 < b.1) || (a.1 == b.1 && (decide (a.2.1 < b.2.1) || (a.2.1 == b.2.1 && decide (a.2.2 < b.2.2))))

def PEPPI_MIN_VERSION : Nat × Nat × Nat := (2, 0, 0)

/-- `assert_current_version` -/
def assertCurrentVersion (v : Nat × Nat × Nat) : Res Unit :=
  if pverLt v PEPPI_MIN_VERSION then .err "unsupported version" else .ok ()

/-- **C18 (version gate)**: an archive is accepted iff its format version is at least 2.0.0, i.e. iff its major is ≥ 2 —
    for all 2^24 triples -/
theorem assertCurrentVersion_iff (v : Nat × Nat × Nat) : assertCurrentVersion v = .ok () ↔ 2 ≤ v.1 := by
  obtain ⟨a, b, c⟩ := v
  unfold assertCurrentVersion pverLt PEPPI_MIN_VERSION
  simp only [Nat.not_lt_zero, decide_false, Bool.and_false, Bool.or_false]
  by_cases h : a < 2
  · simp [h]
  · simp [h]; omega

#print axioms assertCurrentVersion_iff
end Peppi
