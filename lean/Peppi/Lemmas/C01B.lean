import Peppi.Lemmas.WriteB
/-! C01 for 2.2 ≤ v < 3.0: payload table, declared length and the whole file. -/
namespace Peppi
open Extracted

theorem frameEventsB_length (v : Ver) (shape : List PortOccupancy) (o : FrameOcc) (ho : o.OK v (nSlots shape)) :
    (encEvents (frameEventsB v shape o)).length =
      (5 + rowSize v Start.readPush) + countSome o.chars * (7 + rowSize v Pre.readPush) + countSome o.chars * (7 + rowSize v Post.readPush) := by
  have hp : ∀ co ∈ presentFrom 0 o.chars, co.1 < (slotList shape 0).length ∧ OccOK v co.2 := presentFrom_ok v (nSlots shape) o ho
  simp only [frameEventsB, encEvents_append, encEvents_cons, encEvents_nil, List.append_nil, List.length_append, encEvent,
    List.length_cons, encPlain_length _ _ _ _ ho.start,
    charEvents_length false v o.id _ _ hp, charEvents_length true v o.id _ _ hp, presentFrom_length,
    Bool.false_eq_true, ↓reduceIte]
  omega

theorem framesB_length (v : Ver) (shape : List PortOccupancy) (h : List FrameOcc) (hok : ∀ o ∈ h, o.OK v (nSlots shape)) :
    (encEvents (h.flatMap (frameEventsB v shape))).length =
      h.length * (5 + rowSize v Start.readPush) + (h.map fun o => countSome o.chars).sum * (7 + rowSize v Pre.readPush)
        + (h.map fun o => countSome o.chars).sum * (7 + rowSize v Post.readPush) := by
  induction h with
  | nil => simp [encEvents]
  | cons o t ih =>
    rw [List.flatMap_cons, encEvents_append, List.length_append, frameEventsB_length v shape o (hok o (by simp)),
      ih (fun o' h' => hok o' (by simp [h']))]
    simp only [List.length_cons, List.map_cons, List.sum_cons, Nat.add_mul, Nat.succ_mul]
    omega

theorem payloadSizes_B (T : TextOracle) (r : Replay) (s : Start) (h : r.WFB T s) (ge : Option End)
    (hge : r.fend.map gameEnd = ge.map Res.ok) :
    payloadSizes (r.game s ge) = .ok (canonTableB s.version r.startBlock.length (r.endLen s.version)) := by
  have ht : TableOK (canonTableB s.version r.startBlock.length (r.endLen s.version)) :=
    canonTableB_ok _ _ _ h.startLen h.endLenOK
  have hel := game_endLen r s ge hge
  unfold endLenOf at hel
  have hall : (canonTableB s.version r.startBlock.length (r.endLen s.version)).all (fun e => decide (e.2 < 65536)) = true := by
    rw [List.all_eq_true]; intro e he; simpa using (ht e he).2.2
  unfold payloadSizes
  simp only [Replay.game, h.v22, h.v30, Bool.false_eq_true, and_false, false_and, and_self, ↓reduceIte, gameStart_bytes T _ s h.start,
    sizes_pre, sizes_post, sizes_start]
  simp only [canonTableB, List.cons_append, List.nil_append, List.append_nil] at hall ⊢
  simp only [show (4 + 2 : Nat) = 6 from rfl]
  cases ge with
  | none => simp only [] at hel ⊢; rw [hel]; simp only [hall, ↓reduceIte]
  | some g => simp only [] at hel ⊢; rw [hel]; simp only [hall, ↓reduceIte]

theorem rawSize_arithB (n fd sl ep a b c : Nat) :
    1 + 1 + 3 * 5 + 1 + sl + ep + fd * (1 + (6 + a)) + fd * (1 + (6 + b)) + n * (1 + (4 + c)) + 0 + 0 + 0 =
    2 + 15 + (1 + sl) + (n * (5 + c) + fd * (7 + a) + fd * (7 + b)) + ep := by
  simp only [Nat.mul_add, Nat.mul_one]
  omega

theorem rawSize_B (T : TextOracle) (r : Replay) (s : Start) (h : r.WFB T s) (ge : Option End)
    (hge : r.fend.map gameEnd = ge.map Res.ok) :
    rawSize (canonTableB s.version r.startBlock.length (r.endLen s.version)) (r.game s ge) =
      .ok (r.rawB s.version (portOccupancy s)).length := by
  have hnd := canonTableB_nodup s.version r.startBlock.length (r.endLen s.version)
  have look : ∀ c sz, (c, sz) ∈ canonTableB s.version r.startBlock.length (r.endLen s.version) →
      sizeOfEv (canonTableB s.version r.startBlock.length (r.endLen s.version)) c = some sz := fun c sz hm => sizeOfEv_mem _ hnd c sz hm
  have hn : ∀ o ∈ r.frames, o.chars.length = nSlots (portOccupancy s) := fun o ho => (h.frames o ho).chars
  have hfd := frameData_A s.version (portOccupancy s) r.frames hn
  have hfr : (frameCounts (expFrames s.version (portOccupancy s) r.frames)).frames = r.frames.length := by
    simp [frameCounts, expFrames, FCols.len]
  have hlen := framesB_length s.version (portOccupancy s) r.frames h.frames
  have hrl := raw_lengthB r s.version (portOccupancy s)
  have hend := endEvents_length r s ge hge
  have hraw := h.rawLen
  have g1 : getSize (canonTableB s.version r.startBlock.length (r.endLen s.version)) EV_GAME_START = .ok r.startBlock.length := by
    simp [getSize, look _ _ (show (EV_GAME_START, r.startBlock.length) ∈ _ by simp [canonTableB])]
  have g2 : getSize (canonTableB s.version r.startBlock.length (r.endLen s.version)) EV_GAME_END = .ok (r.endLen s.version) := by
    simp [getSize, look _ _ (show (EV_GAME_END, r.endLen s.version) ∈ _ by simp [canonTableB])]
  have g3 : getSize (canonTableB s.version r.startBlock.length (r.endLen s.version)) EV_FRAME_PRE = .ok (6 + rowSize s.version Pre.readPush) := by
    simp [getSize, look _ _ (show (EV_FRAME_PRE, 6 + rowSize s.version Pre.readPush) ∈ _ by simp [canonTableB])]
  have g4 : getSize (canonTableB s.version r.startBlock.length (r.endLen s.version)) EV_FRAME_POST = .ok (6 + rowSize s.version Post.readPush) := by
    simp [getSize, look _ _ (show (EV_FRAME_POST, 6 + rowSize s.version Post.readPush) ∈ _ by simp [canonTableB])]
  have o1 : ∀ k, optSize (canonTableB s.version r.startBlock.length (r.endLen s.version)) EV_FRAME_START k = k * (1 + (4 + rowSize s.version Start.readPush)) := by
    intro k; simp [optSize, look _ _ (show (EV_FRAME_START, 4 + rowSize s.version Start.readPush) ∈ _ by simp [canonTableB])]
  have o2 : ∀ k, optSize (canonTableB s.version r.startBlock.length (r.endLen s.version)) EV_FRAME_END k = 0 := by
    intro k; rfl
  have o3 : ∀ k, optSize (canonTableB s.version r.startBlock.length (r.endLen s.version)) EV_ITEM k = 0 := by
    intro k; rfl
  have htl : (canonTableB s.version r.startBlock.length (r.endLen s.version)).length = 5 := rfl
  have hdbl : ((r.game s ge).doubleGameEnd.getD false) = r.doubled := by
    simp only [Replay.game]; cases r.doubled <;> rfl
  unfold rawSize
  simp only [bind, g1, g2, g3, g4, o1, o2, o3, htl, hdbl, pure]
  simp only [Replay.game, hfd, hfr]
  rw [rawSize_arithB, ← hlen, ← hend, ← hrl]
  simp only [show (256:Nat)^4 = 2^32 from rfl] at hraw
  simp only [hraw, ↓reduceIte]

theorem write_game_B (T : TextOracle) (r : Replay) (s : Start) (h : r.WFB T s) (hmax : assertMaxVersion s.version = .ok ())
    (ge : Option End) (hge : r.fend.map gameEnd = ge.map Res.ok) :
    writeSlp (r.game s ge) = .ok (r.encodeB s.version (portOccupancy s)) := by
  have ht : TableOK (canonTableB s.version r.startBlock.length (r.endLen s.version)) :=
    canonTableB_ok _ _ _ h.startLen h.endLenOK
  have hn : ∀ o ∈ r.frames, o.chars.length = nSlots (portOccupancy s) := fun o ho => (h.frames o ho).chars
  have hdbl : ((r.game s ge).doubleGameEnd.getD false) = r.doubled := by
    simp only [Replay.game]; cases r.doubled <;> rfl
  unfold writeSlp
  simp only [bind, show (r.game s ge).start.version = s.version from rfl, hmax, payloadSizes_B T r s h ge hge, rawSize_B T r s h ge hge,
    table_bytes _ ht, pure]
  simp only [hdbl]
  simp only [Replay.game, writeFrames_B s.version (portOccupancy s) r.frames h.v30 h.v22 hn, writeMeta_A T r.metadata h.metadata,
    endBytes r ge hge, gameStart_bytes T _ s h.start]
  simp only [Replay.encodeB, Replay.rawB, tail_eq, encEvent, List.append_assoc, List.cons_append, List.nil_append, Res.ok.injEq]
  have c : (UInt8.ofNat EV_GAME_START) = 0x36 := by decide
  have c2 : (canonTableB s.version r.startBlock.length (r.endLen s.version)).length * 3 + 1 = 3 * (canonTableB s.version r.startBlock.length (r.endLen s.version)).length + 1 := by omega
  rw [c, c2]

/-- **C01, 2.2 ≤ v < 3.0 (no Gecko block exists below 3.3)** -/
theorem C01_B (T : TextOracle) (r : Replay) (s : Start) (h : r.WFB T s) (hmax : assertMaxVersion s.version = .ok ()) :
    ∃ g, readSlp T {} (r.encodeB s.version (portOccupancy s)) = .ok g ∧ writeSlp g = .ok (r.encodeB s.version (portOccupancy s)) := by
  obtain ⟨ge, hge, hread⟩ := readP_encode_B T r s h
  refine ⟨r.game s ge, ?_, write_game_B T r s h hmax ge hge⟩
  unfold readSlp
  rw [hread]
  rfl

#print axioms C01_B
end Peppi
