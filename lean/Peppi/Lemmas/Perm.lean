import Peppi.Lemmas.Slots
/-! C17 key lemma: any interleaving of a frame's character events with the same per-character subsequences gives the same columns. -/
namespace Peppi

theorem mem_of_filter_eq {es es' : List CEv} (hproj : ∀ c, es'.filter (·.target == c) = es.filter (·.target == c))
    (e : CEv) (he : e ∈ es') : e ∈ es := by
  have : e ∈ es'.filter (·.target == e.target) := by simp [he]
  rw [hproj] at this
  exact (List.mem_filter.mp this).1

/-- **order-independence across characters**: two event sequences whose projections onto every character slot coincide
    (in particular any permutation that keeps each character's own events in order) act identically on the columns -/
theorem runChars_perm (cs : List DCols) (es es' : List CEv)
    (hproj : ∀ c, es'.filter (·.target == c) = es.filter (·.target == c))
    (ht : ∀ e ∈ es, e.target < cs.length) : runChars cs es' = runChars cs es := by
  obtain ⟨r, hr⟩ := runChars_ok cs es ht
  obtain ⟨r', hr'⟩ := runChars_ok cs es' (fun e he => ht e (mem_of_filter_eq hproj e he))
  rw [hr, hr']
  congr 1
  apply List.ext_getElem
  · rw [runChars_length hr, runChars_length hr']
  · intro c h1 h2
    have hc : c < cs.length := by rw [← runChars_length hr']; exact h1
    rw [runChars_proj hr' c hc, runChars_proj hr c hc, hproj c]

#print axioms runChars_perm

/-- non-vacuity: swapping two events aimed at different characters satisfies the hypothesis -/
example (a b : CEv) (hab : a.target ≠ b.target) (rest : List CEv) (c : Nat) :
    (b :: a :: rest).filter (·.target == c) = (a :: b :: rest).filter (·.target == c) := by
  by_cases ha : a.target = c <;> by_cases hb : b.target = c
  · exact absurd (ha.trans hb.symm) hab
  · have : (b.target == c) = false := by simpa using hb
    simp [ha, this]
  · have : (a.target == c) = false := by simpa using ha
    simp [hb, this]
  · have h1 : (a.target == c) = false := by simpa using ha
    have h2 : (b.target == c) = false := by simpa using hb
    simp [h1, h2]
end Peppi
