import Peppi.Lemmas.C12
/-! C12, accounting at the start of the stream: after `parse_start` the byte counter equals the number of raw bytes consumed —
    for **every** input, whatever the payload-size table looks like (entries in any order, a code listed twice, codes the
    library does not know): the table is counted by its own length byte, not by what it lists. -/
namespace Peppi
open Extracted

/-- `parse_payloads` reports `1 + size` = exactly the bytes it took -/
theorem parsePayloads_count (bs : Bytes) (br : Nat) (sizes : List (Nat × Nat)) (rest : Bytes)
    (h : parsePayloads bs = .ok ((br, sizes), rest)) : br + rest.length = bs.length := by
  unfold parsePayloads at h
  simp only [bind] at h
  cases bs with
  | nil => simp [Rd.u8] at h
  | cons c t =>
    simp only [Rd.u8] at h
    by_cases hc : c.toNat ≠ EV_PAYLOADS
    · simp [hc, Rd.fail] at h
    · simp only [hc, ↓reduceIte] at h
      cases t with
      | nil => simp at h
      | cons s t2 =>
        simp only at h
        by_cases hs : s.toNat % 3 ≠ 1
        · simp [hs, Rd.fail] at h
        · simp only [hs, ↓reduceIte, Rd.take] at h
          by_cases hl : t2.length < s.toNat - 1
          · simp [hl] at h
          · simp only [hl, ↓reduceIte] at h
            cases hp : payloadTriples (t2.take (s.toNat - 1)) [] with
            | err e => simp [hp, Rd.lift] at h
            | panic e => simp [hp, Rd.lift] at h
            | ok sz =>
              simp only [hp, Rd.lift] at h
              split at h
              · simp [Rd.fail] at h
              · split at h
                · simp [Rd.fail] at h
                · simp only [pure, Res.ok.injEq, Prod.mk.injEq] at h
                  obtain ⟨⟨hbr, _⟩, hrest⟩ := h
                  subst hbr; subst hrest
                  simp only [List.length_drop, List.length_cons]
                  have : s.toNat % 3 = 1 := by omega
                  omega

/-- `parse_game_start` adds `size + 1` = exactly the bytes it took -/
theorem parseGameStart_count (T : TextOracle) (sizes : List (Nat × Nat)) (br : Nat) (bs : Bytes) (br' : Nat) (s : Start) (rest : Bytes)
    (h : parseGameStart T sizes br bs = .ok ((br', s), rest)) : br' + rest.length = br + bs.length := by
  unfold parseGameStart at h
  simp only [bind] at h
  cases bs with
  | nil => simp [Rd.u8] at h
  | cons c t =>
    simp only [Rd.u8] at h
    cases hsz : sizeOfEv sizes c.toNat with
    | none => simp [hsz, Rd.fail] at h
    | some size =>
      simp only [hsz, Rd.take] at h
      by_cases hl : t.length < size
      · simp [hl] at h
      · simp only [hl, ↓reduceIte] at h
        by_cases hc : c.toNat = EV_GAME_START
        · simp only [hc, ↓reduceIte] at h
          cases hg : gameStart T (t.take size) with
          | err e => simp [hg, Rd.lift] at h
          | panic e => simp [hg, Rd.lift] at h
          | ok st =>
            simp only [hg, Rd.lift, pure, Res.ok.injEq, Prod.mk.injEq] at h
            obtain ⟨⟨hbr, _⟩, hrest⟩ := h
            subst hbr; subst hrest
            simp only [List.length_drop, List.length_cons]
            omega
        · simp [hc, Rd.fail] at h

/-- **C12 (accounting, start of the stream)**: after `parse_start`, `bytes_read` is exactly the number of bytes taken from the
    stream — the whole of the Event Payloads event and of the Game Start event -/
theorem parseStart_count (T : TextOracle) (bs : Bytes) (ps : ParseState) (rest : Bytes)
    (h : parseStart T bs = .ok (ps, rest)) : ps.bytesRead + rest.length = bs.length := by
  unfold parseStart at h
  simp only [bind] at h
  cases hp : parsePayloads bs with
  | err e => simp [hp] at h
  | panic e => simp [hp] at h
  | ok x =>
    obtain ⟨⟨br, sizes⟩, r1⟩ := x
    simp only [hp] at h
    have h1 := parsePayloads_count bs br sizes r1 hp
    cases hg : parseGameStart T sizes br r1 with
    | err e => simp [hg] at h
    | panic e => simp [hg] at h
    | ok y =>
      obtain ⟨⟨br2, start⟩, r2⟩ := y
      simp only [hg, pure, Res.ok.injEq, Prod.mk.injEq] at h
      have h2 := parseGameStart_count T sizes br r1 br2 start r2 hg
      obtain ⟨hps, hrest⟩ := h
      subst hps; subst hrest
      simp only
      omega

/-- … and so the counter equals the bytes consumed after any number of event calls that follow (with `parseEvent_count`) -/
theorem parseStart_then_event_count (T : TextOracle) (bs : Bytes) (ps : ParseState) (r1 : Bytes) (code : Nat) (ps' : ParseState) (r2 : Bytes)
    (h1 : parseStart T bs = .ok (ps, r1)) (h2 : parseEvent ps r1 = .ok ((code, ps'), r2)) : ps'.bytesRead + r2.length = bs.length := by
  have a := parseStart_count T bs ps r1 h1
  have b := parseEvent_count ps r1 code ps' r2 h2
  omega

/-- a table that lists a code twice (`0x37` with sizes 9 and 63): accepted, the later entry is found first, and the counter covers all
    of the table's bytes -/
example : parsePayloads ([0x35, 13, 0x36, 0, 5, 0x37, 0, 9, 0x39, 0, 1, 0x37, 0, 63] ++ [0xAA]) =
    .ok ((14, [(0x37, 63), (0x39, 1), (0x37, 9), (0x36, 5)]), [0xAA]) := by decide

#print axioms parseStart_count
end Peppi
