import Peppi.Lemmas.Prefix
import Peppi.UbjsonProof
/-! The abstract well-formed replay (regime ≥ 3.0, no Gecko block yet), its canonical encoding, and the game it denotes. -/
namespace Peppi
open Extracted

structure Replay where
  startBlock : Bytes
  frames : List FrameOcc
  fend : Option Bytes
  doubled : Bool
  metadata : Option KVs

/-- payload sizes the version prescribes, in the recorder's order -/
def canonTable (v : Ver) (startLen endLen : Nat) : List (Nat × Nat) :=
  [(EV_GAME_START, startLen), (EV_FRAME_PRE, 6 + rowSize v Pre.readPush), (EV_FRAME_POST, 6 + rowSize v Post.readPush),
   (EV_GAME_END, endLen), (EV_FRAME_START, 4 + rowSize v Start.readPush), (EV_ITEM, 4 + rowSize v Item.readPush),
   (EV_FRAME_END, 4 + rowSize v End.readPush)]

def Replay.endLen (r : Replay) (v : Ver) : Nat := match r.fend with | some e => e.length | none => endSize v

def Replay.endEvents (r : Replay) : List (Nat × Bytes) :=
  match r.fend with
  | some e => if r.doubled then [(EV_GAME_END, e), (EV_GAME_END, e)] else [(EV_GAME_END, e)]
  | none => []

/-- the `raw` element -/
def Replay.raw (r : Replay) (v : Ver) (shape : List PortOccupancy) : Bytes :=
  let t := canonTable v r.startBlock.length (r.endLen v)
  [0x35, UInt8.ofNat (3 * t.length + 1)] ++ encTable t ++ encEvent (EV_GAME_START, r.startBlock) ++
    encEvents (r.frames.flatMap (frameEventsA v shape)) ++ encEvents r.endEvents

def Replay.tail (r : Replay) : Bytes :=
  (match r.metadata with | some m => [0x55] ++ METADATA_KEY ++ encKVs m ++ [0x7d] | none => []) ++ [0x7d]

/-- the canonical file -/
def Replay.encode (r : Replay) (v : Ver) (shape : List PortOccupancy) : Bytes :=
  FILE_SIGNATURE ++ (toBE 4 (r.raw v shape).length ++ (r.raw v shape ++ r.tail))

theorem expPorts_nil (shape : List PortOccupancy) :
    expPorts shape [] = shape.map fun p => ⟨p.port, DCols.empty, if p.follower then some DCols.empty else none⟩ := by
  apply ports_ext
  · rw [(expPorts_shape shape []).1]
    unfold shapeOf
    simp only [List.map_map]
    symm
    have : (fun p : PortOccupancy => (⟨p.port, (if p.follower then some DCols.empty else none : Option DCols).isSome⟩ : PortOccupancy)) = id := by
      funext p; cases p with | mk port fol => cases fol <;> rfl
    simp only [Function.comp_def, this, List.map_id_fun, id_eq]
  · rw [(expPorts_shape shape []).2]
    unfold expFlat
    have hc : ∀ c, colsOf (histAt [] c) = DCols.empty := by intro c; simp [histAt, colsOf, validOf, DCols.empty]
    simp only [hc]
    -- both sides are `nSlots shape` copies of the empty column set
    have : ∀ (sh : List PortOccupancy) (k : Nat),
        flatSlots (sh.map fun p => (⟨p.port, DCols.empty, if p.follower then some DCols.empty else none⟩ : PCols))
          = List.replicate (slotList sh k).length DCols.empty := by
      intro sh
      induction sh with
      | nil => intro k; rfl
      | cons p ps ih =>
        intro k
        simp only [List.map_cons, flatSlots, List.flatMap_cons, slotList, List.length_cons, List.length_append] at ih ⊢
        rw [ih (k+1)]
        cases p.follower
        · simp [PCols.slots, List.replicate_succ]
        · simp only [↓reduceIte, PCols.slots, List.cons_append, List.nil_append, List.length_cons, List.length_nil]
          have : 0 + 1 + (slotList ps (k + 1)).length + 1 = (slotList ps (k+1)).length + 1 + 1 := by omega
          rw [show (0 + 1 + (slotList ps (k + 1)).length) + 1 = (slotList ps (k+1)).length + 1 + 1 by omega]
          simp [List.replicate_succ]
    rw [this shape 0]
    apply List.ext_getElem (by simp [nSlots])
    intro i h1 h2
    simp

theorem FCols_new_eq (v : Ver) (shape : List PortOccupancy) : FCols.new v shape = expFrames v shape [] := by
  unfold FCols.new expFrames
  simp only [expPorts_nil, List.map_nil, List.flatMap_nil, FCols.mk.injEq, true_and]
  refine ⟨?_, trivial⟩
  split <;> simp [offsOf]

end Peppi
