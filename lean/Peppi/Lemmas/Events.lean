import Peppi.Lemmas.Flat
import Peppi.Read
/-! What `handleEvent` does on the recorder's (canonical) encodings of the frame events. -/
namespace Peppi
open Extracted

def I32 (i : Int) : Prop := -2^31 ≤ i ∧ i < 2^31

theorem toInt32_ofInt32 (i : Int) (h : I32 i) : toInt32 (ofInt32 i) = i := by
  unfold I32 at h; unfold toInt32 ofInt32; split <;> split <;> omega
theorem ofInt32_lt (i : Int) (h : I32 i) : ofInt32 i < 256 ^ 4 := by
  unfold I32 at h; unfold ofInt32; split <;> omega

def encId (id : Int) : Bytes := toBE 4 (ofInt32 id)
theorem encId_length (id) : (encId id).length = 4 := toBE_length _ _

theorem i32At_enc (id : Int) (h : I32 id) (rest : Bytes) : i32At (encId id ++ rest) = .ok (id, rest) := by
  have hl := encId_length id
  unfold i32At
  have : ¬ ((encId id ++ rest).length < 4) := by simp [hl]
  simp only [this, ↓reduceIte]
  rw [List.take_left' hl, List.drop_left' hl]
  unfold encId
  rw [fromBE_toBE _ _ (ofInt32_lt id h), toInt32_ofInt32 id h]

theorem rowOrEof_enc (v : Ver) (L : List Fld) (row : Row) (h : RowOK v L row) (extra : Bytes) :
    rowOrEof v L (writeRow v L row ++ extra) = .ok row := by
  unfold rowOrEof; rw [read_write v L row extra h]

theorem slotOk_shape (a b : List PCols) (h : shapeOf a = shapeOf b) (pi : Nat) (fol : Bool) : slotOk a pi fol = slotOk b pi fol := by
  unfold slotOk
  have hl : a.length = b.length := by simpa [shapeOf] using congrArg List.length h
  by_cases hpi : pi < a.length
  · have hpb : pi < b.length := by omega
    have := congrArg (fun l => l[pi]?) h
    simp only [shapeOf, List.getElem?_map, List.getElem?_eq_getElem hpi, List.getElem?_eq_getElem hpb, Option.map_some,
      Option.some.injEq, PortOccupancy.mk.injEq] at this
    simp only [List.getElem?_eq_getElem hpi, List.getElem?_eq_getElem hpb]
    have h2 : a[pi].follower.isNone = b[pi].follower.isNone := by
      have := this.2
      cases ha : a[pi].follower <;> cases hb : b[pi].follower <;> simp_all
    rw [h2]
  · have hpb : ¬ pi < b.length := by omega
    simp [List.getElem?_eq_none (Nat.le_of_not_lt hpi), List.getElem?_eq_none (Nat.le_of_not_lt hpb)]

theorem shapeOf_close (f : FCols) : shapeOf f.close.ports = shapeOf f.ports := by
  unfold shapeOf FCols.close
  simp only [List.map_map]
  apply List.map_congr_left
  intro p _
  simp only [Function.comp, PortOccupancy.mk.injEq, true_and]
  cases p.follower <;> simp

theorem slotIdx_close (st : PState) (port : Nat) (fol : Bool) (id : Int) :
    ({ st with frames := { st.frames.close with id := st.frames.id ++ [id] } } : PState).slotIdx port fol = st.slotIdx port fol := by
  unfold PState.slotIdx
  cases st.portIdx.getD port none with
  | none => rfl
  | some pi => exact slotOk_shape _ _ (shapeOf_close st.frames) pi fol

/-- header of pre/post payloads -/
def encChar (v : Ver) (L : List Fld) (id : Int) (port : Nat) (fol : Bool) (row : Row) : Bytes :=
  encId id ++ ([UInt8.ofNat port, if fol then 1 else 0] ++ writeRow v L row)

def encPlain (v : Ver) (L : List Fld) (id : Int) (row : Row) : Bytes := encId id ++ writeRow v L row

theorem handle_post (st : PState) (id : Int) (port : Nat) (fol : Bool) (row : Row) (pi : Nat)
    (hid : I32 id) (hport : port < 256) (hrow : RowOK st.start.version Post.readPush row)
    (hlast : st.lastId = some id) (hslot : st.slotIdx port fol = .ok pi) :
    handleEvent st EV_FRAME_POST (encChar st.start.version Post.readPush id port fol row) =
      .ok (st.updSlot pi fol (·.pushPost row)) := by
  unfold handleEvent encChar
  simp only [EV_FRAME_POST, EV_PAYLOADS, EV_SPLITTER, EV_GECKO, EV_GAME_START, EV_GAME_END, EV_FRAME_START, EV_FRAME_PRE,
    Nat.reduceEqDiff, ↓reduceIte]
  rw [i32At_enc id hid]
  have hp : (UInt8.ofNat port).toNat = port := by simp [UInt8.toNat_ofNat']; omega
  have hf : ((if fol then (1 : UInt8) else 0) != 0) = fol := by cases fol <;> rfl
  simp only [bind, pure, List.cons_append, List.nil_append, List.length_cons, List.getD_cons_zero, List.getD_cons_succ,
    List.drop_succ_cons, List.drop_zero, hp, hf, PState.expectId, hlast, ↓reduceIte, hslot]
  have : ¬ ((writeRow st.start.version Post.readPush row).length + 1 + 1 < 2) := by omega
  simp only [this, ↓reduceIte]
  have := rowOrEof_enc st.start.version Post.readPush row hrow []
  simp only [List.append_nil] at this
  simp only [this]

/-- pre-frame event inside an already open frame (every pre event ≥ 2.2; the non-first ones < 2.2) -/
theorem handle_pre_open (st : PState) (id : Int) (port : Nat) (fol : Bool) (row : Row) (pi : Nat)
    (hid : I32 id) (hport : port < 256) (hrow : RowOK st.start.version Pre.readPush row)
    (hlast : st.lastId = some id) (hslot : st.slotIdx port fol = .ok pi) :
    handleEvent st EV_FRAME_PRE (encChar st.start.version Pre.readPush id port fol row) =
      .ok (st.updSlot pi fol (·.pushPre row)) := by
  unfold handleEvent encChar
  simp only [EV_FRAME_POST, EV_PAYLOADS, EV_SPLITTER, EV_GECKO, EV_GAME_START, EV_GAME_END, EV_FRAME_START, EV_FRAME_PRE,
    Nat.reduceEqDiff, ↓reduceIte]
  rw [i32At_enc id hid]
  have hp : (UInt8.ofNat port).toNat = port := by simp [UInt8.toNat_ofNat']; omega
  have hf : ((if fol then (1 : UInt8) else 0) != 0) = fol := by cases fol <;> rfl
  have hlen : ¬ ((writeRow st.start.version Pre.readPush row).length + 1 + 1 < 2) := by omega
  have hr := rowOrEof_enc st.start.version Pre.readPush row hrow []
  simp only [List.append_nil] at hr
  have hlast' : st.frames.id.getLast? = some id := hlast
  by_cases hv : st.start.version.gte 2 2 = true
  · simp only [bind, pure, List.cons_append, List.nil_append, List.length_cons, List.getD_cons_zero, List.getD_cons_succ,
      List.drop_succ_cons, List.drop_zero, hp, hf, PState.expectId, hlast, ↓reduceIte, hslot, hlen, hv, hr]
  · have hv' : st.start.version.gte 2 2 = false := by simpa using hv
    have hne : ¬ (id + 1 ≤ 2147483647 ∧ id + 1 = id) := by omega
    simp only [bind, pure, List.cons_append, List.nil_append, List.length_cons, List.getD_cons_zero, List.getD_cons_succ,
      List.drop_succ_cons, List.drop_zero, hp, hf, PState.expectId, hlast, ↓reduceIte, hslot, hlen, hv', hr,
      Bool.false_eq_true, PState.lastId, hlast', Option.getD_some, hne]

/-- first pre-frame event of a frame before 2.2: closes the previous frame and opens the next one -/
theorem handle_pre_first (st : PState) (id : Int) (port : Nat) (fol : Bool) (row : Row) (pi : Nat)
    (hid : I32 id) (hport : port < 256) (hrow : RowOK st.start.version Pre.readPush row)
    (hv : st.start.version.gte 2 2 = false)
    (hnext : st.lastId.getD (FIRST_INDEX - 1) + 1 = id)
    (hslot : st.slotIdx port fol = .ok pi) :
    handleEvent st EV_FRAME_PRE (encChar st.start.version Pre.readPush id port fol row) =
      .ok (({ st with frames := { st.frames.close with id := st.frames.id ++ [id] } } : PState).updSlot pi fol (·.pushPre row)) := by
  unfold handleEvent encChar
  simp only [EV_FRAME_POST, EV_PAYLOADS, EV_SPLITTER, EV_GECKO, EV_GAME_START, EV_GAME_END, EV_FRAME_START, EV_FRAME_PRE,
    Nat.reduceEqDiff, ↓reduceIte]
  rw [i32At_enc id hid]
  have hp : (UInt8.ofNat port).toNat = port := by simp [UInt8.toNat_ofNat']; omega
  have hf : ((if fol then (1 : UInt8) else 0) != 0) = fol := by cases fol <;> rfl
  have hlen : ¬ ((writeRow st.start.version Pre.readPush row).length + 1 + 1 < 2) := by omega
  have hr := rowOrEof_enc st.start.version Pre.readPush row hrow []
  simp only [List.append_nil] at hr
  have hcond : st.lastId.getD (FIRST_INDEX - 1) + 1 ≤ 2147483647 ∧ st.lastId.getD (FIRST_INDEX - 1) + 1 = id := by
    unfold I32 at hid; omega
  have hslot' : ({ st with frames := { st.frames.close with id := st.frames.id ++ [id] } } : PState).slotIdx port fol = .ok pi := by
    rw [← hslot]; exact slotIdx_close st port fol id
  have hle : id ≤ 2147483647 := by unfold I32 at hid; omega
  simp only [bind, pure, List.cons_append, List.nil_append, List.length_cons, List.getD_cons_zero, List.getD_cons_succ,
    List.drop_succ_cons, List.drop_zero, hp, hf, ↓reduceIte, hslot, hlen, hv, hr, Bool.false_eq_true, hnext, hle, and_self]
  simp only [hslot']

theorem handle_item (st : PState) (id : Int) (row : Row) (items : SCols)
    (hid : I32 id) (hrow : RowOK st.start.version Item.readPush row)
    (hlast : st.lastId = some id) (hitem : st.frames.item = some items) :
    handleEvent st EV_ITEM (encPlain st.start.version Item.readPush id row) =
      .ok { st with frames := { st.frames with item := some (items ++ [some row]) } } := by
  unfold handleEvent encPlain
  simp only [EV_FRAME_POST, EV_PAYLOADS, EV_SPLITTER, EV_GECKO, EV_GAME_START, EV_GAME_END, EV_FRAME_START, EV_FRAME_PRE,
    EV_FRAME_END, EV_ITEM, Nat.reduceEqDiff, ↓reduceIte]
  rw [i32At_enc id hid]
  have hr := rowOrEof_enc st.start.version Item.readPush row hrow []
  simp only [List.append_nil] at hr
  simp only [bind, pure, hitem, PState.expectId, hlast, ↓reduceIte, hr]

theorem handle_fstart (st : PState) (id : Int) (row : Row) (sc : SCols)
    (hid : I32 id) (hrow : RowOK st.start.version Start.readPush row)
    (hstart : st.frames.start = some sc) :
    handleEvent st EV_FRAME_START (encPlain st.start.version Start.readPush id row) =
      .ok (let st' : PState := if st.start.version.lt 3 0 then { st with frames := st.frames.close } else st
           { st' with frames := { st'.frames with id := st'.frames.id ++ [id], start := some (sc ++ [some row]) } }) := by
  unfold handleEvent encPlain
  simp only [EV_FRAME_POST, EV_PAYLOADS, EV_SPLITTER, EV_GECKO, EV_GAME_START, EV_GAME_END, EV_FRAME_START, EV_FRAME_PRE,
    Nat.reduceEqDiff, ↓reduceIte]
  have hr := rowOrEof_enc st.start.version Start.readPush row hrow []
  simp only [List.append_nil] at hr
  cases hv : st.start.version.lt 3 0 with
  | true =>
    simp only [bind, pure, ↓reduceIte]
    rw [i32At_enc id hid]
    simp only [FCols.close, hstart, hr]
  | false =>
    simp only [bind, pure, Bool.false_eq_true, ↓reduceIte]
    rw [i32At_enc id hid]
    simp only [hstart, hr]

theorem handle_fend (st : PState) (id : Int) (row : Row) (ec : SCols) (offs : List Nat) (items : SCols)
    (hid : I32 id) (hrow : RowOK st.start.version End.readPush row)
    (hlast : st.lastId = some id) (hend : st.frames.fend = some ec) (hoff : st.frames.itemOff = some offs)
    (hitem : st.frames.item = some items) (hmono : offs.getLastD 0 ≤ items.length) :
    handleEvent st EV_FRAME_END (encPlain st.start.version End.readPush id row) =
      .ok { st with frames := ({ st.frames with itemOff := some (offs ++ [items.length]), fend := some (ec ++ [some row]) } : FCols).close } := by
  unfold handleEvent encPlain
  simp only [EV_FRAME_POST, EV_PAYLOADS, EV_SPLITTER, EV_GECKO, EV_GAME_START, EV_GAME_END, EV_FRAME_START, EV_FRAME_PRE,
    EV_FRAME_END, Nat.reduceEqDiff, ↓reduceIte]
  rw [i32At_enc id hid]
  have hr := rowOrEof_enc st.start.version End.readPush row hrow []
  simp only [List.append_nil] at hr
  have : ¬ (items.length < offs.getLastD 0) := by omega
  simp only [bind, pure, hend, PState.expectId, hlast, ↓reduceIte, hoff, hitem, this, hr]

#print axioms handle_pre_first
#print axioms handle_fend
end Peppi
