import Peppi.Local
import Peppi.Lemmas.Fuel
/-! Locality of the UBJSON reader (for the truncation theorem). -/
namespace Peppi

/-- dispatch on the next byte -/
def byteCase {α} (f : UInt8 → Rd α) : Rd α := fun bs => match bs with | [] => .err "eof" | b :: rest => f b rest

theorem local_byteCase {α} (f : UInt8 → Rd α) (hf : ∀ b, Rd.Local (f b)) : Rd.Local (byteCase f) := by
  intro bs a rest h
  cases bs with
  | nil => simp [byteCase] at h
  | cons b t =>
    simp only [byteCase] at h
    obtain ⟨used, hu, hext, hpre⟩ := hf b t a rest h
    refine ⟨b :: used, by rw [hu]; rfl, ?_, ?_⟩
    · intro ext; simp only [byteCase, List.cons_append]; exact hext ext
    · intro pre hp hl
      cases pre with
      | nil => exact ⟨"eof", rfl⟩
      | cons c pre' =>
        have hc := List.cons_prefix_cons.mp hp
        obtain ⟨rfl, hp'⟩ := hc
        simp only [byteCase]
        exact hpre pre' hp' (by simpa using hl)

section
variable (utf8 : Bytes → Bool)

theorem toUtf8_eq : toUtf8 utf8 = byteCase (fun len => Rd.take len.toNat >>= fun s => if utf8 s then pure s else Rd.fail "utf8") := by
  funext bs
  cases bs with
  | nil => rfl
  | cons len rest =>
    simp only [toUtf8, byteCase, bind, Rd.take]
    split
    · rfl
    · simp only []
      split <;> simp_all [pure, Rd.fail]

theorem local_toUtf8 : Rd.Local (toUtf8 utf8) := by
  rw [toUtf8_eq]
  apply local_byteCase; intro len
  apply Rd.local_bind _ _ (Rd.local_take _); intro s
  apply Rd.local_ite
  · exact Rd.local_pure _
  · exact Rd.local_fail _

theorem toVal_succ (f d : Nat) : toVal utf8 (f+1) d = byteCase (fun b =>
    if b = 0x53 then byteCase (fun c => if c = 0x55 then (toUtf8 utf8 >>= fun s => pure (Tree.str s)) else Rd.fail "expected 0x55")
    else if b = 0x6c then (Rd.take 4 >>= fun x => pure (Tree.int (toI32 (fromBE x))))
    else if b = 0x7b then ((fun bs => readMapLoop utf8 f (d+1) bs .nil : Rd KVs) >>= fun m => pure (Tree.map m))
    else Rd.fail "unexpected value type") := by
  funext bs
  cases bs with
  | nil => simp [toVal, byteCase]
  | cons b rest =>
    simp only [byteCase]
    by_cases h1 : b = 0x53
    · subst h1
      simp only [toVal, ↓reduceIte]
      cases rest with
      | nil => rfl
      | cons c rest' =>
        by_cases h2 : c = 0x55
        · subst h2
          simp only [byteCase, ↓reduceIte, bind]
          cases toUtf8 utf8 rest' with
          | ok x => obtain ⟨s, r⟩ := x; rfl
          | err e => rfl
          | panic p => rfl
        · simp only [byteCase, h2, ↓reduceIte, Rd.fail]
    · by_cases h2 : b = 0x6c
      · subst h2
        simp only [toVal, ↓reduceIte, bind, Rd.take, show ¬ ((0x6c : UInt8) = 0x53) by decide]
        split <;> rfl
      · by_cases h3 : b = 0x7b
        · subst h3
          simp only [toVal, ↓reduceIte, bind, show ¬ ((0x7b : UInt8) = 0x53) by decide, show ¬ ((0x7b : UInt8) = 0x6c) by decide]
          cases readMapLoop utf8 f (d + 1) rest KVs.nil with
          | ok x => obtain ⟨m, r⟩ := x; rfl
          | err e => rfl
          | panic p => rfl
        · simp only [h1, h2, h3, ↓reduceIte, Rd.fail]
          unfold toVal
          split <;> simp_all

theorem readMapLoop_succ (f d : Nat) (acc : KVs) : (fun bs => readMapLoop utf8 (f+1) d bs acc : Rd KVs) =
    if d > MAX_DEPTH then Rd.fail "too deep" else byteCase (fun b =>
      if b = 0x7d then pure acc
      else if b = 0x55 then (toUtf8 utf8 >>= fun k => toVal utf8 f d >>= fun v => (fun bs => readMapLoop utf8 f d bs (acc.insert k v) : Rd KVs))
      else Rd.fail "unexpected key type") := by
  funext bs
  by_cases hd : d > MAX_DEPTH
  · simp [readMapLoop, hd, Rd.fail]
  simp only [hd, ↓reduceIte]
  cases bs with
  | nil => simp [readMapLoop, hd, byteCase]
  | cons b rest =>
    simp only [byteCase]
    by_cases h1 : b = 0x7d
    · subst h1; simp [readMapLoop, hd, pure]
    · by_cases h2 : b = 0x55
      · subst h2
        simp only [readMapLoop, hd, ↓reduceIte, bind, show ¬ ((0x55 : UInt8) = 0x7d) by decide]
        cases toUtf8 utf8 rest with
        | ok x =>
          obtain ⟨k, r⟩ := x
          simp only []
          cases toVal utf8 f d r with
          | ok y => obtain ⟨v, r'⟩ := y; rfl
          | err e => rfl
          | panic p => rfl
        | err e => rfl
        | panic p => rfl
      · simp only [h1, h2, ↓reduceIte, Rd.fail]
        unfold readMapLoop
        simp only [hd, ↓reduceIte]

theorem ubj_local : ∀ fuel : Nat,
    (∀ d, Rd.Local (toVal utf8 fuel d)) ∧ (∀ d acc, Rd.Local (fun bs => readMapLoop utf8 fuel d bs acc : Rd KVs)) := by
  intro fuel
  induction fuel with
  | zero => exact ⟨fun d bs a rest h => by simp [toVal] at h, fun d acc bs a rest h => by simp [readMapLoop] at h⟩
  | succ n ih =>
    refine ⟨?_, ?_⟩
    · intro d
      rw [toVal_succ]
      apply local_byteCase; intro b
      apply Rd.local_ite
      · apply local_byteCase; intro c
        apply Rd.local_ite
        · exact Rd.local_bind _ _ (local_toUtf8 utf8) (fun _ => Rd.local_pure _)
        · exact Rd.local_fail _
      apply Rd.local_ite
      · exact Rd.local_bind _ _ (Rd.local_take 4) (fun _ => Rd.local_pure _)
      apply Rd.local_ite
      · exact Rd.local_bind _ _ (ih.2 (d+1) .nil) (fun _ => Rd.local_pure _)
      · exact Rd.local_fail _
    · intro d acc
      rw [readMapLoop_succ]
      apply Rd.local_ite
      · exact Rd.local_fail _
      apply local_byteCase; intro b
      apply Rd.local_ite
      · exact Rd.local_pure _
      apply Rd.local_ite
      · apply Rd.local_bind _ _ (local_toUtf8 utf8); intro k
        apply Rd.local_bind _ _ (ih.1 d); intro v
        exact ih.2 d _
      · exact Rd.local_fail _

#print axioms ubj_local
end
end Peppi

namespace Peppi

/-- a fuel-indexed family that is local at every fuel and fuel-irrelevant once the fuel exceeds the input
    length is local when run with any sufficient input-dependent fuel -/
theorem local_of_fuel {α} (p : Nat → Rd α) (hl : ∀ f, Rd.Local (p f))
    (hirr : ∀ f1 f2 bs, bs.length < f1 → bs.length < f2 → p f1 bs = p f2 bs)
    (φ : Bytes → Nat) (hφ : ∀ bs, bs.length < φ bs) : Rd.Local (fun bs => p (φ bs) bs) := by
  intro bs a rest h
  obtain ⟨used, hu, hext, hpre⟩ := hl (φ bs) bs a rest h
  have hlen : used.length ≤ bs.length := by rw [hu]; simp
  refine ⟨used, hu, ?_, ?_⟩
  · intro ext
    show p (φ (used ++ ext)) (used ++ ext) = .ok (a, ext)
    have h0 := hext []
    have hF : (used ++ ([] : Bytes)).length < φ (used ++ ext) := by
      have := hφ (used ++ ext); simp only [List.length_append, List.length_nil] at this ⊢; omega
    have hB : (used ++ ([] : Bytes)).length < φ bs := by
      have := hφ bs; simp only [List.length_append, List.length_nil]; omega
    rw [hirr (φ bs) (φ (used ++ ext)) _ hB hF] at h0
    obtain ⟨used', hu', hext', _⟩ := hl (φ (used ++ ext)) _ a [] h0
    simp only [List.append_nil] at hu'
    subst hu'
    exact hext' ext
  · intro pre hp hlt
    obtain ⟨e, he⟩ := hpre pre hp hlt
    refine ⟨e, ?_⟩
    show p (φ pre) pre = .err e
    rw [hirr (φ pre) (φ bs) pre (hφ pre) (by have := hφ bs; omega)]
    exact he

theorem local_readMap (utf8 : Bytes → Bool) : Rd.Local (fun bs => readMap utf8 bs : Rd KVs) := by
  have := local_of_fuel (fun f => (fun bs => readMapLoop utf8 f 1 bs .nil : Rd KVs))
    (fun f => (ubj_local utf8 f).2 1 .nil)
    (fun f1 f2 bs h1 h2 => (ubj_fuel utf8 f1).2 f2 1 bs .nil h1 h2)
    (fun bs => 2 * bs.length + 2) (fun bs => by omega)
  exact this

#print axioms local_readMap
end Peppi
