import Peppi.Lemmas.Trunc
/-! C10 (.slp, regime ≥ 3.0 without Gecko block): the skip-frames read of a finished replay. -/
namespace Peppi
open Extracted

/-- what the skipping reader returns: same start, end and metadata, zero frames, no quirk -/
def Replay.gameSkip (r : Replay) (s : Start) (ge : End) : Game :=
  { start := s, fend := some ge, frames := FCols.new s.version (portOccupancy s), metadata := r.metadata, gecko := none,
    hashedLen := none, doubleGameEnd := none }

theorem readP_skip_unfold (T : TextOracle) (hash : Bool) (x rest1 rest2 : Bytes) (rawLen : Nat) (ps : ParseState)
    (h1 : parseHeader x = .ok (rawLen, rest1)) (h2 : parseStart T rest1 = .ok (ps, rest2)) :
    readP T { skipFrames := true, computeHash := hash } x = (skipToEnd rawLen ps >>= loopTail T rawLen) rest2 := by
  show (parseHeader >>= fun rawLen => parseStart T >>= fun ps => skipToEnd rawLen ps >>= fun ps => loopTail T rawLen ps) x = _
  simp only [bind, h1, h2]

theorem readP_skip_A (T : TextOracle) (r : Replay) (s : Start) (h : r.WF T s) (e : Bytes) (hfe : r.fend = some e) (hash : Bool) :
    ∃ ge, gameEnd e = .ok ge ∧
      readP T { skipFrames := true, computeHash := hash } (r.encode s.version (portOccupancy s)) = .ok (r.gameSkip s ge, []) := by
  obtain ⟨fes, hfes⟩ : ∃ fes, fes = r.frames.flatMap (frameEventsA s.version (portOccupancy s)) := ⟨_, rfl⟩
  have hrl := raw_length r s.version (portOccupancy s)
  rw [← hfes] at hrl
  obtain ⟨hel, _, ge, hge⟩ := h.endOK e hfe
  refine ⟨ge, hge, ?_⟩
  have hendlen : r.endLen s.version = e.length := by simp [Replay.endLen, hfe]
  have hsize : sizeOfEv (ps0 r s).st.sizes EV_GAME_END = some e.length := by
    show sizeOfEv (canonTable s.version r.startBlock.length (r.endLen s.version)).reverse EV_GAME_END = _
    rw [← hendlen]
    exact sizeOfEv_reverse _ (canonTable_nodup _ _ _) _ _ (by simp [canonTable])
  have hps0 : (ps0 r s).bytesRead = 2 + 21 + (1 + r.startBlock.length) := by simp [ps0, canonTable]; omega
  have hv30 : (ps0 r s).st.start.version.lt 3 0 = false := by
    show s.version.lt 3 0 = false; simp [Ver.lt, h.v30]
  -- everything between the start block and the last Game End event
  obtain ⟨mid, hmid, hends⟩ : ∃ mid, encEvents fes ++ encEvents r.endEvents = mid ++ encEvent (EV_GAME_END, e) ∧
      (encEvents fes).length + (encEvents r.endEvents).length = mid.length + (1 + e.length) := by
    cases hd : r.doubled with
    | false =>
      refine ⟨encEvents fes, by simp [Replay.endEvents, hfe, hd, encEvents_cons, encEvents_nil], ?_⟩
      simp [Replay.endEvents, hfe, hd, encEvents_cons, encEvents_nil, encEvent]; omega
    | true =>
      refine ⟨encEvents fes ++ encEvent (EV_GAME_END, e), by simp [Replay.endEvents, hfe, hd, encEvents_cons, encEvents_nil], ?_⟩
      simp [Replay.endEvents, hfe, hd, encEvents_cons, encEvents_nil, encEvent]; omega
  have hsplit : r.raw s.version (portOccupancy s) ++ r.tail =
      [0x35, UInt8.ofNat (3 * (canonTable s.version r.startBlock.length (r.endLen s.version)).length + 1)] ++
        encTable (canonTable s.version r.startBlock.length (r.endLen s.version)) ++
        (encEvent (EV_GAME_START, r.startBlock) ++ (mid ++ (encEvent (EV_GAME_END, e) ++ r.tail))) := by
    have : encEvents fes ++ (encEvents r.endEvents ++ r.tail) = mid ++ (encEvent (EV_GAME_END, e) ++ r.tail) := by
      rw [← List.append_assoc, hmid, List.append_assoc]
    simp only [Replay.raw, ← hfes, List.append_assoc, this]
  have hskip : skipLen (r.raw s.version (portOccupancy s)).length (ps0 r s) = mid.length := by
    simp only [skipLen, hsize, Option.getD_some, hrl, hps0]; omega
  have hstart := parseStart_enc T r s h (mid ++ (encEvent (EV_GAME_END, e) ++ r.tail))
  simp only [] at hstart
  rw [← hsplit] at hstart
  unfold Replay.encode
  rw [readP_skip_unfold T hash _ _ _ _ _ (parseHeader_enc _ h.rawLen _) hstart]
  simp only [bind]
  -- the jump
  have hjump : skipToEnd (r.raw s.version (portOccupancy s)).length (ps0 r s) (mid ++ (encEvent (EV_GAME_END, e) ++ r.tail)) =
      .ok ({ (ps0 r s) with bytesRead := (ps0 r s).bytesRead + mid.length }, encEvent (EV_GAME_END, e) ++ r.tail) := by
    unfold skipToEnd
    simp only [hsize, Option.getD_some]
    have hc : ¬ ((r.raw s.version (portOccupancy s)).length = 0 ∨ (r.raw s.version (portOccupancy s)).length < (ps0 r s).bytesRead ∨
        (r.raw s.version (portOccupancy s)).length - (ps0 r s).bytesRead < 1 + e.length) := by
      rw [hrl, hps0]; omega
    simp only [hc, ↓reduceIte]
    have hk : (r.raw s.version (portOccupancy s)).length - (ps0 r s).bytesRead - (1 + e.length) = mid.length := by
      rw [hrl, hps0]; omega
    rw [hk, List.drop_left' rfl]
  have hjump' := hjump
  simp only [ps0] at hjump'
  rw [hjump']
  simp only [loopTail, bind]
  have hbrlt : (ps0 r s).bytesRead + mid.length < (r.raw s.version (portOccupancy s)).length := by rw [hrl, hps0]; omega
  have hl := loop_end ((encEvent (EV_GAME_END, e) ++ r.tail).length) (r.raw s.version (portOccupancy s)).length
    { (ps0 r s) with bytesRead := (ps0 r s).bytesRead + mid.length } e ge r.tail hsize hge hbrlt
  simp only [ps0] at hl
  rw [hl]
  simp only []
  have hbr : ¬ (ps0 r s).bytesRead + mid.length + e.length + 1 < (r.raw s.version (portOccupancy s)).length := by
    rw [hrl, hps0]; omega
  rw [metaBytes_eq]
  have ht := readTail_exact T (r.raw s.version (portOccupancy s)).length
    ⟨{ (ps0 r s).st with fend := some ge }, (ps0 r s).bytesRead + mid.length + e.length + 1⟩ r.metadata hv30 hbr rfl h.metadata
  simp only [ps0] at ht
  rw [ht]
  simp [gameOf, Replay.gameSkip]

#print axioms readP_skip_A

/-- **C10 (`.slp`, ≥ 3.0)**: for a finished well-formed replay the skipping reader returns the start, end and metadata of
    the full read, and a game with zero frames -/
theorem C10_slp_A (T : TextOracle) (r : Replay) (s : Start) (h : r.WF T s) (e : Bytes) (hfe : r.fend = some e) (hash : Bool) :
    ∃ gFull gSkip, readSlp T { skipFrames := false, computeHash := hash } (r.encode s.version (portOccupancy s)) = .ok gFull ∧
      readSlp T { skipFrames := true, computeHash := hash } (r.encode s.version (portOccupancy s)) = .ok gSkip ∧
      gSkip.start = gFull.start ∧ gSkip.fend = gFull.fend ∧ gSkip.metadata = gFull.metadata ∧ gSkip.hashedLen = gFull.hashedLen ∧
      gSkip.frames = FCols.new s.version (portOccupancy s) := by
  obtain ⟨ge, hge, hskip⟩ := readP_skip_A T r s h e hfe hash
  obtain ⟨ge', hge', hfull⟩ := readP_encode_A T r s h
  have hfull' : readP T { skipFrames := false, computeHash := hash } (r.encode s.version (portOccupancy s)) = .ok (r.game s ge', []) := hfull
  have : ge' = some ge := by
    rw [hfe] at hge'
    simp only [Option.map_some, hge] at hge'
    cases ge' with
    | none => simp at hge'
    | some x => simp only [Option.map_some, Option.some.injEq, Res.ok.injEq] at hge'; rw [hge']
  subst this
  refine ⟨_, _, by unfold readSlp; rw [hfull'], by unfold readSlp; rw [hskip], ?_⟩
  simp [Replay.gameSkip, Replay.game]

/-- **C07 (`.slp`, ≥ 3.0), both option sets**: every proper prefix of a finished well-formed file is rejected -/
theorem C07_slp_skip_A (T : TextOracle) (r : Replay) (s : Start) (h : r.WF T s) (e : Bytes) (hfe : r.fend = some e) (hash : Bool)
    (n : Nat) (hn : n < (r.encode s.version (portOccupancy s)).length) :
    ∃ err, readSlp T { skipFrames := true, computeHash := hash } ((r.encode s.version (portOccupancy s)).take n) = .err err := by
  obtain ⟨ge, _, hskip⟩ := readP_skip_A T r s h e hfe hash
  exact C07_slp_general T _ _ _ hskip n hn

#print axioms C10_slp_A
#print axioms C07_slp_skip_A
end Peppi

namespace Peppi
open Extracted
/-- **C11 (model half, ≥ 3.0)**: with hashing on, the hashed range is the whole file, frames skipped or not;
    with hashing off there is no hash -/
theorem C11_range_A (T : TextOracle) (r : Replay) (s : Start) (h : r.WF T s) :
    (∃ g, readSlp T { skipFrames := false, computeHash := true } (r.encode s.version (portOccupancy s)) = .ok g ∧
        g.hashedLen = some (r.encode s.version (portOccupancy s)).length) ∧
    (∃ g, readSlp T { skipFrames := false, computeHash := false } (r.encode s.version (portOccupancy s)) = .ok g ∧
        g.hashedLen = none) ∧
    (∀ e, r.fend = some e → ∃ g, readSlp T { skipFrames := true, computeHash := true } (r.encode s.version (portOccupancy s)) = .ok g ∧
        g.hashedLen = some (r.encode s.version (portOccupancy s)).length) := by
  obtain ⟨ge, _, hfull⟩ := readP_encode_A T r s h
  refine ⟨⟨_, by unfold readSlp; rw [show readP T { skipFrames := false, computeHash := true } _ = _ from hfull], by simp⟩,
          ⟨_, by unfold readSlp; rw [show readP T { skipFrames := false, computeHash := false } _ = _ from hfull], by simp⟩, ?_⟩
  intro e hfe
  obtain ⟨ge', _, hskip⟩ := readP_skip_A T r s h e hfe true
  exact ⟨_, by unfold readSlp; rw [hskip], by simp⟩
#print axioms C11_range_A
end Peppi
