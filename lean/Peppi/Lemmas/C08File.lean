import Peppi.Lemmas.C04G
import Peppi.Lemmas.C08
/-! C08 at file level (≥ 3.0, no Gecko block): unknown events declared in the payload table, spliced anywhere among the frame
    events, any number of times, leave the parsed game unchanged. -/
namespace Peppi
open Extracted

/-- extra payload-table entries for codes the library does not know -/
structure Unknowns where
  extra : List (Nat × Nat)
  /-- the event stream between Game Start and Game End: the canonical frame events with unknown events spliced in -/
  mixed : List (Nat × Bytes)

def canonTableU (v : Ver) (sl el : Nat) (u : Unknowns) : List (Nat × Nat) := canonTable v sl el ++ u.extra

def Replay.rawU (r : Replay) (v : Ver) (u : Unknowns) : Bytes :=
  let t := canonTableU v r.startBlock.length (r.endLen v) u
  [0x35, UInt8.ofNat (3 * t.length + 1)] ++ encTable t ++ encEvent (EV_GAME_START, r.startBlock) ++
    encEvents u.mixed ++ encEvents r.endEvents

def Replay.encodeU (r : Replay) (v : Ver) (u : Unknowns) : Bytes :=
  FILE_SIGNATURE ++ (toBE 4 (r.rawU v u).length ++ (r.rawU v u ++ r.tail))

structure Replay.WFU (T : TextOracle) (r : Replay) (s : Start) (u : Unknowns) : Prop where
  base : r.WF T s
  tableOK : TableOK (canonTableU s.version r.startBlock.length (r.endLen s.version) u)
  nodup : ((canonTableU s.version r.startBlock.length (r.endLen s.version) u).map Prod.fst).Nodup
  tableLen : 3 * (canonTableU s.version r.startBlock.length (r.endLen s.version) u).length + 1 < 256
  /-- erasing the unknown events gives the canonical frame events -/
  erase : u.mixed.filter (fun e => isKnown e.1) = r.frames.flatMap (frameEventsA s.version (portOccupancy s))
  /-- every unknown event is declared with its size -/
  declared : ∀ e ∈ u.mixed, isKnown e.1 = false → e.1 < 256 ∧ (e.1, e.2.length) ∈ u.extra
  rawLen : (r.rawU s.version u).length < 256 ^ 4

theorem canonTableU_mem (v : Ver) (sl el : Nat) (u : Unknowns) (c sz : Nat) (h : (c, sz) ∈ canonTable v sl el) :
    (c, sz) ∈ canonTableU v sl el u := by simp only [canonTableU, List.mem_append]; exact Or.inl h

def ps0U (r : Replay) (s : Start) (u : Unknowns) : ParseState :=
  let t := canonTableU s.version r.startBlock.length (r.endLen s.version) u
  { st := { sizes := t.reverse, splitRaw := [], splitActual := 0, portIdx := portIdxOf (portOccupancy s), start := s,
            fend := none, frames := FCols.new s.version (portOccupancy s), metadata := none, gecko := none, doubleGameEnd := none },
    bytesRead := 1 + (3 * t.length + 1) + r.startBlock.length + 1 }

theorem parseStart_encU (T : TextOracle) (r : Replay) (s : Start) (u : Unknowns) (h : r.WFU T s u) (rest : Bytes) :
    let t := canonTableU s.version r.startBlock.length (r.endLen s.version) u
    parseStart T ([0x35, UInt8.ofNat (3 * t.length + 1)] ++ encTable t ++ (encEvent (EV_GAME_START, r.startBlock) ++ rest)) =
      .ok (ps0U r s u, rest) := by
  intro t
  have hp := parsePayloads_enc t h.tableOK h.tableLen h.nodup r.startBlock.length (r.endLen s.version)
    (canonTableU_mem _ _ _ _ _ _ (by simp [canonTable])) (canonTableU_mem _ _ _ _ _ _ (by simp [canonTable]))
    (encEvent (EV_GAME_START, r.startBlock) ++ rest)
  simp only [parseStart, bind]
  rw [hp]
  simp only [parseGameStart, bind, encEvent, List.cons_append, Rd.u8]
  have hsz : sizeOfEv t.reverse (UInt8.ofNat EV_GAME_START).toNat = some r.startBlock.length := by
    have : (UInt8.ofNat EV_GAME_START).toNat = EV_GAME_START := by decide
    rw [this]; exact sizeOfEv_reverse t h.nodup _ _ (canonTableU_mem _ _ _ _ _ _ (by simp [canonTable]))
  simp only [hsz, Rd.take, List.length_append]
  have hlt : ¬ (r.startBlock.length + rest.length < r.startBlock.length) := by omega
  have hcode : (UInt8.ofNat EV_GAME_START).toNat = EV_GAME_START := by decide
  simp only [hlt, ↓reduceIte, List.take_left' rfl, List.drop_left' rfl, hcode, Rd.lift, h.base.start, pure, portIdxOf]
  rfl

theorem raw_lengthU (r : Replay) (v : Ver) (u : Unknowns) :
    (r.rawU v u).length = 2 + 3 * (canonTableU v r.startBlock.length (r.endLen v) u).length + (1 + r.startBlock.length)
      + (encEvents u.mixed).length + (encEvents r.endEvents).length := by
  simp [Replay.rawU, encTable_length, encEvent]; omega

/-- **C08 (unknown events), file level** -/
theorem readP_encode_U (T : TextOracle) (r : Replay) (s : Start) (u : Unknowns) (h : r.WFU T s u) :
    ∃ ge : Option End, r.fend.map gameEnd = ge.map Res.ok ∧
      readP T {} (r.encodeU s.version u) = .ok (r.game s ge, []) := by
  have hb := h.base
  have hrl := raw_lengthU r s.version u
  have hraw0 : (r.rawU s.version u).length ≠ 0 := by rw [hrl]; omega
  have hps0 : (ps0U r s u).bytesRead = 2 + 3 * (canonTableU s.version r.startBlock.length (r.endLen s.version) u).length + (1 + r.startBlock.length) := by
    simp [ps0U]; omega
  have hnd := h.nodup
  -- running the mixed stream = running the canonical frame events
  have hrun : runEvents (ps0U r s u).st u.mixed = .ok { (ps0U r s u).st with frames := expFrames s.version (portOccupancy s) r.frames } := by
    rw [runEvents_erase_unknown, h.erase]
    have := frames_A s.version (portOccupancy s) [] r.frames (ps0U r s u).st rfl hb.v30 hb.v22
      (by simp [ps0U, FCols_new_eq]) hb.portMap hb.ports hb.frames
    simpa using this
  let psF : ParseState := ⟨{ (ps0U r s u).st with frames := expFrames s.version (portOccupancy s) r.frames },
    (ps0U r s u).bytesRead + (encEvents u.mixed).length⟩
  have hloop : ∀ rest, ∃ k,
      eventLoop ((encEvents u.mixed ++ rest).length + 1) (r.rawU s.version u).length (ps0U r s u) (encEvents u.mixed ++ rest) =
        eventLoop (k + 1) (r.rawU s.version u).length psF rest := by
    intro rest
    have hle : u.mixed.length ≤ (encEvents u.mixed ++ rest).length := by have := events_le_bytes u.mixed; simp; omega
    refine ⟨(encEvents u.mixed ++ rest).length - u.mixed.length, ?_⟩
    have := eventLoop_run (r.rawU s.version u).length u.mixed (encEvents u.mixed ++ rest).length (ps0U r s u) _ rest hle
      (by
        intro e he
        cases hk : isKnown e.1 with
        | true =>
          have hmem : e ∈ r.frames.flatMap (frameEventsA s.version (portOccupancy s)) := by
            rw [← h.erase]; exact List.mem_filter.mpr ⟨he, hk⟩
          obtain ⟨o, ho, heo⟩ := List.mem_flatMap.mp hmem
          obtain ⟨a1, a2, a3, a4⟩ := frameEventsA_sizes s.version (portOccupancy s) o (hb.frames o ho) r.startBlock.length (r.endLen s.version) e heo
          refine ⟨a1, a2, a3, ?_⟩
          have hm := sizeOfEv_mem_of_some _ _ _ a4
          simp only [List.mem_reverse] at hm
          exact sizeOfEv_reverse _ hnd _ _ (canonTableU_mem _ _ _ _ _ _ hm)
        | false =>
          obtain ⟨hc, hd⟩ := h.declared e he hk
          have hns : e.1 ≠ EV_SPLITTER := by intro hh; rw [hh] at hk; simp [isKnown] at hk
          have hne : e.1 ≠ EV_GAME_END := by intro hh; rw [hh] at hk; simp [isKnown] at hk
          refine ⟨hc, hns, hne, ?_⟩
          exact sizeOfEv_reverse _ hnd _ _ (by simp only [canonTableU, List.mem_append]; exact Or.inr hd))
      hrun (by right; rw [hps0, hrl]; omega)
    rw [this]
    congr 1
    omega
  have hv30 : psF.st.start.version.lt 3 0 = false := by show s.version.lt 3 0 = false; simp [Ver.lt, hb.v30]
  have hsize : sizeOfEv psF.st.sizes EV_GAME_END = some (r.endLen s.version) :=
    sizeOfEv_reverse _ hnd _ _ (canonTableU_mem _ _ _ _ _ _ (by simp [canonTable]))
  have hpsF : psF.bytesRead = 2 + 3 * (canonTableU s.version r.startBlock.length (r.endLen s.version) u).length + (1 + r.startBlock.length) + (encEvents u.mixed).length := by
    simp only [psF, hps0]
  have hread : ∀ g rest, loopTail T (r.rawU s.version u).length (ps0U r s u) (encEvents u.mixed ++ (encEvents r.endEvents ++ r.tail)) = .ok (g, rest) →
      readP T {} (r.encodeU s.version u) = .ok (g, rest) := by
    intro g rest hk
    have hsplit : r.rawU s.version u ++ r.tail =
        [0x35, UInt8.ofNat (3 * (canonTableU s.version r.startBlock.length (r.endLen s.version) u).length + 1)] ++
          encTable (canonTableU s.version r.startBlock.length (r.endLen s.version) u) ++
          (encEvent (EV_GAME_START, r.startBlock) ++ (encEvents u.mixed ++ (encEvents r.endEvents ++ r.tail))) := by
      simp [Replay.rawU, List.append_assoc]
    have hstart' := parseStart_encU T r s u h (encEvents u.mixed ++ (encEvents r.endEvents ++ r.tail))
    simp only [] at hstart'
    rw [← hsplit] at hstart'
    unfold readP Replay.encodeU
    simp only [Bool.false_eq_true, ↓reduceIte, bind]
    rw [parseHeader_enc _ h.rawLen]
    simp only []
    rw [hstart']
    simp only [pure]
    exact hk
  cases hfe : r.fend with
  | none =>
    have hends : r.endEvents = [] := by simp [Replay.endEvents, hfe]
    have hdbl : r.doubled = false := by
      cases hd : r.doubled with
      | false => rfl
      | true => obtain ⟨e, he, _⟩ := hb.doubledOK hd; rw [hfe] at he; cases he
    refine ⟨none, by simp, ?_⟩
    apply hread
    simp only [hends, encEvents_nil, List.nil_append, loopTail, bind]
    obtain ⟨k, hl⟩ := hloop r.tail
    rw [hl]
    have hbr : ¬ psF.bytesRead < (r.rawU s.version u).length := by
      rw [hpsF, hrl, hends]; simp [encEvents_nil]
    rw [eventLoop_done k _ _ _ hraw0 hbr]
    simp only []
    rw [metaBytes_eq, readTail_exact T _ psF r.metadata hv30 hbr rfl hb.metadata]
    simp [gameOf, Replay.game, psF, ps0U, hdbl]
  | some e =>
    obtain ⟨hel, _, ge, hge⟩ := hb.endOK e hfe
    have hendlen : r.endLen s.version = e.length := by simp [Replay.endLen, hfe]
    rw [hendlen] at hsize
    refine ⟨some ge, by simp [hge], ?_⟩
    apply hread
    cases hd : r.doubled with
    | false =>
      have hends : r.endEvents = [(EV_GAME_END, e)] := by simp [Replay.endEvents, hfe, hd]
      have hbrlt : psF.bytesRead < (r.rawU s.version u).length := by
        rw [hpsF, hrl, hends, encEvents_cons]; simp [encEvent]
      simp only [hends, encEvents_cons, encEvents_nil, List.append_nil, loopTail, bind]
      obtain ⟨k, hl⟩ := hloop (encEvent (EV_GAME_END, e) ++ r.tail)
      rw [hl, loop_end k _ psF e ge r.tail hsize hge hbrlt]
      simp only []
      have hbr : ¬ psF.bytesRead + e.length + 1 < (r.rawU s.version u).length := by
        rw [hpsF, hrl, hends, encEvents_cons]; simp [encEvent, encEvents_nil]; omega
      rw [metaBytes_eq]
      refine (readTail_exact T _ ⟨{ psF.st with fend := some ge }, psF.bytesRead + e.length + 1⟩
        r.metadata hv30 hbr rfl hb.metadata).trans ?_
      simp [gameOf, Replay.game, psF, ps0U, hd]
    | true =>
      obtain ⟨e', he', hlen'⟩ := hb.doubledOK hd
      rw [hfe] at he'; cases he'
      have hends : r.endEvents = [(EV_GAME_END, e), (EV_GAME_END, e)] := by simp [Replay.endEvents, hfe, hd]
      have hbrlt : psF.bytesRead < (r.rawU s.version u).length := by
        rw [hpsF, hrl, hends, encEvents_cons]; simp [encEvent]
      simp only [hends, encEvents_cons, encEvents_nil, List.append_nil, List.append_assoc, loopTail, bind]
      obtain ⟨k, hl⟩ := hloop (encEvent (EV_GAME_END, e) ++ (encEvent (EV_GAME_END, e) ++ r.tail))
      rw [hl, loop_end k _ psF e ge _ hsize hge hbrlt]
      simp only []
      have hbr : psF.bytesRead + e.length + 1 + (1 + e.length) = (r.rawU s.version u).length := by
        rw [hpsF, hrl, hends, encEvents_cons, encEvents_cons]; simp [encEvent, encEvents_nil]; omega
      rw [metaBytes_eq]
      refine (readTail_doubled T _ ⟨{ psF.st with fend := some ge }, psF.bytesRead + e.length + 1⟩
        r.metadata e hv30 hbr hlen' rfl hb.metadata).trans ?_
      simp [gameOf, Replay.game, psF, ps0U, hd]

/-- **C08**: the file with unknown events parses to exactly the game of the file without them -/
theorem C08_unknown_A (T : TextOracle) (r : Replay) (s : Start) (u : Unknowns) (h : r.WFU T s u) :
    readSlp T { skipFrames := false, computeHash := false } (r.encodeU s.version u) =
      readSlp T { skipFrames := false, computeHash := false } (r.encode s.version (portOccupancy s)) := by
  obtain ⟨ge, hge, hU⟩ := readP_encode_U T r s u h
  obtain ⟨ge', hge', hA⟩ := readP_encode_A T r s h.base
  have : ge = ge' := by
    cases ge <;> cases ge' <;> cases hf : r.fend <;> simp_all
  subst this
  have hU' : readP T { skipFrames := false, computeHash := false } (r.encodeU s.version u) = .ok (r.game s ge, []) := hU
  have hA' : readP T { skipFrames := false, computeHash := false } (r.encode s.version (portOccupancy s)) = .ok (r.game s ge, []) := hA
  unfold readSlp
  rw [hU', hA']
  simp only [Bool.false_eq_true, ↓reduceIte]

#print axioms C08_unknown_A
end Peppi
