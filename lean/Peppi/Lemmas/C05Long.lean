import Peppi.Lemmas.C05All
/-! C05 / C08: a Game Start block *longer* than the newest known layout (a newer recorder) is parsed exactly like its first
    760 bytes. -/
namespace Peppi

syntax "at_stepL" : tactic
macro_rules | `(tactic| at_stepL) => `(tactic| first
  | exact Rd.at_pure _ _ _
  | exact at_playerBytes _ _ _ _
  | exact Rd.at_u8 _ _
  | exact Rd.at_take _ _ _
  | exact Rd.at_be _ _ _
  | (apply Rd.at_bind _ _ _ _ _ _ _ _ (Rd.at_u8 _ _); intro _)
  | (apply Rd.at_bind _ _ _ _ _ _ _ _ (Rd.at_skip _ _ _); intro _)
  | (apply Rd.at_bind _ _ _ _ _ _ _ _ (Rd.at_take _ _ _); intro _)
  | (apply Rd.at_bind _ _ _ _ _ _ _ _ (Rd.at_be _ _ _); intro _)
  | (apply Rd.at_bind _ _ _ _ _ _ _ _ (at_playerBytes _ _ _ _); intro _)
  | (apply Rd.at_bind _ _ _ _ _ _ _ _ (Rd.at_lift _ _ _); intro _)
  | (apply Rd.at_bind _ _ _ _ _ _ _ _ (at_ifMore_some _ _ _ _ _ (by repeat at_stepL) (by simp only [NUM_PORTS, MAX_PLAYERS]; omega)); intro _)
  | exact Rd.at_fail _ _ _ _
  | exact Rd.at_lift _ _ _
  | (apply Rd.at_ite <;> repeat at_stepL))

set_option hygiene false in
theorem start_at_ge760 (T : TextOracle) (blk : Bytes) (L : Nat) (hL : 760 ≤ L) :
    ∃ (w : Nat) (f : Bytes → Res Start), Rd.AtL L (gameStartP T blk) 0 w f ∧ w = 760 ∧ ∀ b, f b = specStart 760 T blk b := by
  apply Exists.intro
  apply Exists.intro
  apply And.intro
  · unfold gameStartP
    repeat at_stepL
  · refine ⟨rfl, fun b => ?_⟩
    simp only [specStart, Nat.zero_add, Nat.reduceAdd, Nat.reduceMul, Nat.reduceLeDiff, NUM_PORTS, MAX_PLAYERS, bind, ↓reduceIte]
    by_cases hl : (b.getD 700 0).toNat ≤ 1
    · simp only [hl, ↓reduceIte]
      cases utf8Field T (List.take 51 (List.drop 701 b)) 50 <;> rfl
    · simp only [hl, ↓reduceIte]

/-- **longer Game Start blocks**: every known field has the value it would have without the extra bytes -/
theorem C05_start_long (T : TextOracle) (b : Bytes) (hL : 760 ≤ b.length) :
    gameStart T b = match specStart 760 T b b with | .ok s => .ok { s with bytes := b } | .err e => .err e | .panic p => .panic p := by
  obtain ⟨w, f, hat, hw, hf⟩ := start_at_ge760 T b b.length hL
  subst hw
  have h2 := hat b rfl (by omega)
  simp only [List.drop_zero, Nat.zero_add, hf] at h2
  unfold gameStart
  rw [h2]
  cases specStart 760 T b b <;> rfl

#print axioms C05_start_long

theorem end_at_ge6 (blk : Bytes) (L : Nat) (hL : 6 ≤ L) :
    ∃ (w : Nat) (f : Bytes → Res End), Rd.AtL L (gameEndP blk) 0 w f ∧ w = 6 ∧ ∀ b, f b = specEnd 6 blk b := by
  apply Exists.intro
  apply Exists.intro
  apply And.intro
  · unfold gameEndP
    apply Rd.at_bind _ _ _ _ _ _ _ _ (Rd.at_u8 _ _); intro _
    apply Rd.at_ite
    case hq =>
      apply Rd.at_bind _ _ _ _ _ _ _ _ (at_ifMore_some _ _ _ _ _ (by repeat at_stepL) (by omega)); intro _
      apply Rd.at_bind _ _ _ _ _ _ _ _ (at_ifMore_some _ _ _ _ _ (by repeat at_stepL) (by omega)); intro _
      exact Rd.at_pure _ _ _
    case hp => exact Rd.at_fail _ _ _ _
  · refine ⟨rfl, fun b => ?_⟩
    simp only [specEnd, Nat.zero_add, Nat.reduceAdd, Nat.reduceLeDiff, bind, ↓reduceIte]

/-- **longer Game End blocks** -/
theorem C05_end_long (b : Bytes) (hL : 6 ≤ b.length) :
    gameEnd b = match specEnd 6 b b with | .ok e => .ok { e with bytes := b } | .err e => .err e | .panic p => .panic p := by
  obtain ⟨w, f, hat, hw, hf⟩ := end_at_ge6 b b.length hL
  subst hw
  have h2 := hat b rfl (by omega)
  simp only [List.drop_zero, Nat.zero_add, hf] at h2
  unfold gameEnd
  rw [h2]
  cases specEnd 6 b b <;> rfl

#print axioms C05_end_long
end Peppi
