import Peppi.Lemmas.ByteLayer
/-! Stage lemmas for the file prefix: container header, payload-size table, Game Start. -/
namespace Peppi

theorem expectBytes_ok (e rest : Bytes) : expectBytes e (e ++ rest) = .ok ((), rest) := by
  have : ¬ (e.length + rest.length < e.length) := by omega
  simp [expectBytes, bind, Rd.take, pure, List.take_left' rfl, List.drop_left' rfl, this]

theorem parseHeader_enc (n : Nat) (hn : n < 256 ^ 4) (rest : Bytes) :
    parseHeader (FILE_SIGNATURE ++ (toBE 4 n ++ rest)) = .ok (n, rest) := by
  have hl : (toBE 4 n).length = 4 := toBE_length _ _
  simp only [parseHeader, bind, expectBytes_ok, Rd.be, Rd.take, List.length_append, hl, pure]
  have : ¬ (4 + rest.length < 4) := by omega
  simp only [this, ↓reduceIte, List.take_left' hl, List.drop_left' hl, fromBE_toBE _ _ hn]

/-- one payload-table entry: code, size (u16 BE) -/
def encEntry (e : Nat × Nat) : Bytes := [UInt8.ofNat e.1, UInt8.ofNat (e.2 / 256), UInt8.ofNat (e.2 % 256)]
def encTable (t : List (Nat × Nat)) : Bytes := t.flatMap encEntry

def TableOK (t : List (Nat × Nat)) : Prop := ∀ e ∈ t, e.1 < 256 ∧ 0 < e.2 ∧ e.2 < 65536

theorem payloadTriples_enc (t : List (Nat × Nat)) (ht : TableOK t) (acc : List (Nat × Nat)) :
    payloadTriples (encTable t) acc = .ok (t.reverse ++ acc) := by
  induction t generalizing acc with
  | nil => simp [encTable, payloadTriples]
  | cons e es ih =>
    obtain ⟨h1, h2, h3⟩ := ht e (by simp)
    have ha : (UInt8.ofNat e.1).toNat = e.1 := by simp [UInt8.toNat_ofNat']; omega
    have hb : (UInt8.ofNat (e.2 / 256)).toNat = e.2 / 256 := by simp [UInt8.toNat_ofNat']; omega
    have hc : (UInt8.ofNat (e.2 % 256)).toNat = e.2 % 256 := by simp [UInt8.toNat_ofNat']
    have hsz : e.2 / 256 * 256 + e.2 % 256 = e.2 := by omega
    have hne : ¬ (e.2 = 0) := by omega
    simp only [encTable, List.flatMap_cons, encEntry, List.cons_append, List.nil_append, payloadTriples, ha, hb, hc, hsz, hne,
      ↓reduceIte]
    have := ih (fun e' he' => ht e' (by simp [he'])) ((e.1, e.2) :: acc)
    simp only [encTable] at this
    rw [this]
    simp

theorem encTable_length (t : List (Nat × Nat)) : (encTable t).length = 3 * t.length := by
  induction t with
  | nil => rfl
  | cons e es ih => simp [encTable, List.flatMap_cons, encEntry] at ih ⊢; omega

/-- lookup in the reversed table = lookup in the table when codes are distinct -/
theorem sizeOfEv_reverse (t : List (Nat × Nat)) (hnd : (t.map Prod.fst).Nodup) (c s : Nat) (hmem : (c, s) ∈ t) :
    sizeOfEv t.reverse c = some s := by
  unfold sizeOfEv
  have : t.reverse.find? (fun e => e.1 == c) = some (c, s) := by
    rw [List.find?_eq_some_iff_append]
    refine ⟨by simp, ?_⟩
    obtain ⟨a, b, rfl⟩ := List.append_of_mem hmem
    refine ⟨b.reverse, a.reverse, by simp, ?_⟩
    intro x hx
    simp only [List.mem_reverse] at hx
    simp only [List.map_append, List.map_cons, List.nodup_append, List.nodup_cons, List.mem_map, List.mem_cons] at hnd
    have : x.1 ≠ c := by
      intro he
      have := hnd.2.1.1
      exact this ⟨x, hx, he⟩
    simpa using this
  simp [this]

theorem sizeOfEv_none (t : List (Nat × Nat)) (c : Nat) (h : ∀ e ∈ t, e.1 ≠ c) : sizeOfEv t.reverse c = none := by
  unfold sizeOfEv
  have : t.reverse.find? (fun e => e.1 == c) = none := by
    rw [List.find?_eq_none]
    intro x hx
    simp only [List.mem_reverse] at hx
    simpa using h x hx
  simp [this]

/-- `parse_payloads` on a canonical payloads event -/
theorem parsePayloads_enc (t : List (Nat × Nat)) (ht : TableOK t) (hlen : 3 * t.length + 1 < 256)
    (hnd : (t.map Prod.fst).Nodup) (ss se : Nat) (hs : (EV_GAME_START, ss) ∈ t) (he : (EV_GAME_END, se) ∈ t) (rest : Bytes) :
    parsePayloads ([0x35, UInt8.ofNat (3 * t.length + 1)] ++ encTable t ++ rest) = .ok ((1 + (3 * t.length + 1), t.reverse), rest) := by
  have hsz : (UInt8.ofNat (3 * t.length + 1)).toNat = 3 * t.length + 1 := by simp [UInt8.toNat_ofNat']; omega
  have hl := encTable_length t
  simp only [parsePayloads, bind, Rd.u8, List.cons_append, List.nil_append, UInt8.reduceToNat, EV_PAYLOADS, ne_eq,
    not_true_eq_false, ↓reduceIte, hsz, pure, Rd.fail]
  have hmod : ¬ ((3 * t.length + 1) % 3 ≠ 1) := by omega
  simp only [hmod, ↓reduceIte, Rd.take, List.length_append, hl, Nat.add_sub_cancel]
  have hlt : ¬ (3 * t.length + rest.length < 3 * t.length) := by omega
  simp only [hlt, ↓reduceIte, List.take_left' hl, List.drop_left' hl, Rd.lift, payloadTriples_enc t ht [], List.append_nil,
    sizeOfEv_reverse t hnd _ _ hs, sizeOfEv_reverse t hnd _ _ he, Option.isNone_some, Bool.false_eq_true]

#print axioms parsePayloads_enc
end Peppi
