import Peppi.Lemmas.Fuel
/-! C12, accounting half: `bytes_read` advances by exactly the bytes an event call consumed. -/
namespace Peppi
open Extracted

/-- `p` consumes nothing -/
def Rd.Pure0 {α} (p : Rd α) : Prop := ∀ bs a rest, p bs = .ok (a, rest) → rest = bs

theorem Rd.p0_pure {α} (a : α) : Rd.Pure0 (pure a : Rd α) := by
  intro bs a' rest h; simp only [pure, Res.ok.injEq, Prod.mk.injEq] at h; exact h.2.symm
theorem Rd.p0_lift {α} (r : Res α) : Rd.Pure0 (Rd.lift r) := by
  intro bs a rest h; cases r <;> simp [Rd.lift] at h; exact h.2.symm
theorem Rd.p0_bind {α β} (p : Rd α) (q : α → Rd β) (hp : Rd.Pure0 p) (hq : ∀ a, Rd.Pure0 (q a)) : Rd.Pure0 (p >>= q) := by
  intro bs b rest h
  simp only [bind] at h
  cases hpb : p bs with
  | ok ar =>
    obtain ⟨a, r⟩ := ar
    simp only [hpb] at h
    have := hp bs a r hpb; subst this
    exact hq a _ b rest h
  | err e => simp [hpb] at h
  | panic s => simp [hpb] at h
theorem Rd.p0_ite {α} (c : Prop) [Decidable c] (p q : Rd α) (hp : Rd.Pure0 p) (hq : Rd.Pure0 q) : Rd.Pure0 (if c then p else q) := by
  split <;> assumption

/-- **C12 (accounting)**: one `parse_event` call advances `bytes_read` by exactly the number of bytes it took from the stream -/
theorem parseEvent_count (ps : ParseState) (bs : Bytes) (code : Nat) (ps' : ParseState) (rest : Bytes)
    (h : parseEvent ps bs = .ok ((code, ps'), rest)) :
    ps'.bytesRead + rest.length = ps.bytesRead + bs.length := by
  unfold parseEvent at h
  simp only [bind] at h
  cases bs with
  | nil => simp [Rd.u8] at h
  | cons b t =>
    simp only [Rd.u8] at h
    generalize b.toNat = c at h
    cases hsz : sizeOfEv ps.st.sizes c with
    | none => simp [hsz, Rd.fail] at h
    | some size =>
      simp only [hsz, Rd.take] at h
      by_cases hl : t.length < size
      · simp [hl] at h
      · simp only [hl, ↓reduceIte] at h
        -- everything after the exact-length read consumes nothing
        have hp0 : ∀ buf : Bytes, Rd.Pure0 (do
            let (code', buf', st) ← (if c = EV_SPLITTER then do
                let (w, st') ← Rd.lift (handleSplitter buf ps.st)
                match w with
                | some wrapped => pure (wrapped, st'.splitRaw, { st' with splitRaw := [] })
                | none => pure (c, buf, st')
              else pure (c, buf, ps.st) : Rd (Nat × Bytes × PState))
            let st ← Rd.lift (handleEvent st code' buf')
            pure (code', ({ st, bytesRead := ps.bytesRead + size + 1 } : ParseState))) := by
          intro buf
          refine Rd.p0_bind _ _ ?_ (fun x => ?_)
          · apply Rd.p0_ite
            · refine Rd.p0_bind _ _ (Rd.p0_lift _) (fun wst => ?_)
              obtain ⟨w, st'⟩ := wst
              cases w <;> exact Rd.p0_pure _
            · exact Rd.p0_pure _
          · obtain ⟨c', b', s⟩ := x
            exact Rd.p0_bind _ _ (Rd.p0_lift _) (fun _ => Rd.p0_pure _)
        -- and it stamps the counter
        have hrest := hp0 (t.take size) (t.drop size) (code, ps') rest h
        subst hrest
        have hbr : ps'.bytesRead = ps.bytesRead + size + 1 := by
          split at h
          · rename_i x r' hx
            obtain ⟨c', b', s⟩ := x
            simp only [] at h
            split at h
            · rename_i st2 r2 hst
              simp only [pure, Res.ok.injEq, Prod.mk.injEq] at h
              rw [← h.1.2]
            · simp at h
            · simp at h
          · simp at h
          · simp at h
        rw [hbr]
        simp only [List.length_drop, List.length_cons]
        omega

#print axioms parseEvent_count
end Peppi

namespace Peppi
open Extracted

/-- a successful result satisfies `P` -/
def Res.Post {α} (P : α → Prop) (r : Res α) : Prop := ∀ a, r = .ok a → P a
theorem Res.post_ok {α} {P : α → Prop} {a : α} (h : P a) : Res.Post P (.ok a) := by intro b hb; cases hb; exact h
theorem Res.post_pure {α} {P : α → Prop} {a : α} (h : P a) : Res.Post P (pure a) := Res.post_ok h
theorem Res.post_err {α} {P : α → Prop} {e : String} : Res.Post P (.err e : Res α) := by intro b hb; cases hb
theorem Res.post_panic {α} {P : α → Prop} {e : String} : Res.Post P (.panic e : Res α) := by intro b hb; cases hb
theorem Res.post_bind {α β} {P : β → Prop} {r : Res α} {f : α → Res β} (hf : ∀ a, r = .ok a → Res.Post P (f a)) : Res.Post P (r >>= f) := by
  cases h : r with
  | ok a => exact hf a h
  | err e => exact Res.post_err
  | panic s => exact Res.post_panic
theorem Res.post_ite {α} {P : α → Prop} (c : Prop) [Decidable c] {p q : Res α} (hp : Res.Post P p) (hq : Res.Post P q) :
    Res.Post P (if c then p else q) := by split <;> assumption

/-- the id column only ever grows by appending -/
def IdsExtend (st st' : PState) : Prop := ∃ more, st'.frames.id = st.frames.id ++ more

theorem idsExtend_refl (st : PState) : IdsExtend st st := ⟨[], by simp⟩

/-- **C12 (monotonicity)**: after any event, the frame ids seen so far are a prefix of the new ones — rows are only appended,
    so the frame count never decreases -/
theorem handleEvent_ids (st : PState) (code : Nat) (buf : Bytes) : Res.Post (IdsExtend st) (handleEvent st code buf) := by
  unfold handleEvent
  simp only []
  apply Res.post_ite; · exact Res.post_err
  apply Res.post_ite; · exact Res.post_ok (idsExtend_refl st)
  apply Res.post_ite; · exact Res.post_ok ⟨[], by simp⟩
  apply Res.post_ite; · exact Res.post_err
  apply Res.post_ite
  · apply Res.post_bind; intro e _; exact Res.post_pure ⟨[], by simp⟩
  apply Res.post_ite
  · apply Res.post_bind; intro x _
    obtain ⟨id, r⟩ := x
    simp only []
    split
    · exact Res.post_err
    · apply Res.post_bind; intro row _
      apply Res.post_pure
      split <;> exact ⟨[id], by simp [FCols.close]⟩
  apply Res.post_ite
  · apply Res.post_bind; intro x _
    obtain ⟨id, r⟩ := x
    simp only []
    apply Res.post_ite; · exact Res.post_err
    apply Res.post_bind; intro _ _
    apply Res.post_bind
    intro st2 hst2
    have h2 : IdsExtend st st2 := by
      revert hst2
      apply Res.post_ite (P := IdsExtend st)
      · apply Res.post_bind; intro _ _; exact Res.post_pure (idsExtend_refl st)
      · apply Res.post_ite
        · exact Res.post_pure ⟨[id], by simp [FCols.close]⟩
        · apply Res.post_bind; intro _ _; exact Res.post_pure (idsExtend_refl st)
    apply Res.post_bind; intro pi _
    apply Res.post_bind; intro row _
    apply Res.post_pure
    obtain ⟨more, hm⟩ := h2
    exact ⟨more, by simpa [PState.updSlot] using hm⟩
  apply Res.post_ite
  · apply Res.post_bind; intro x _
    obtain ⟨id, r⟩ := x
    simp only []
    apply Res.post_ite; · exact Res.post_err
    apply Res.post_bind; intro _ _
    apply Res.post_bind; intro pi _
    apply Res.post_bind; intro row _
    exact Res.post_pure ⟨[], by simp [PState.updSlot]⟩
  apply Res.post_ite
  · apply Res.post_bind; intro x _
    obtain ⟨id, r⟩ := x
    simp only []
    split
    · exact Res.post_err
    · apply Res.post_bind; intro _ _
      split
      · apply Res.post_ite; · exact Res.post_panic
        apply Res.post_bind; intro row _
        exact Res.post_pure ⟨[], by simp [FCols.close]⟩
      · exact Res.post_panic
  apply Res.post_ite
  · apply Res.post_bind; intro x _
    obtain ⟨id, r⟩ := x
    simp only []
    split
    · exact Res.post_err
    · apply Res.post_bind; intro _ _
      apply Res.post_bind; intro row _
      exact Res.post_pure ⟨[], by simp⟩
  exact Res.post_ok (idsExtend_refl st)

#print axioms handleEvent_ids
end Peppi
