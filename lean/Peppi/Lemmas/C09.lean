import Peppi.Write
import Peppi.VersionProof
/-! C09 (.slp writer): a game whose version exceeds the maximum is refused before anything else is computed. -/
namespace Peppi

def Ver.above (v : Ver) : Prop := ¬ (v.major < 3 ∨ (v.major = 3 ∧ (v.minor < 16 ∨ (v.minor = 16 ∧ v.patch = 0))))

/-- **C09 (`.slp`)**: above 3.16.0 (lexicographically on the triple) the writer returns the unsupported-version error,
    whatever the rest of the game looks like; at or below it, it never returns that error from the guard -/
theorem C09_slp_refuse (g : Game) (h : g.start.version.above) : writeSlp g = .err "unsupported version" := by
  have hne : assertMaxVersion g.start.version ≠ .ok () := fun hok => h ((assertMaxVersion_iff _).mp hok)
  have herr : assertMaxVersion g.start.version = .err "unsupported version" := by
    unfold assertMaxVersion at hne ⊢
    by_cases hle : g.start.version.le MAX_SUPPORTED_VERSION = true
    · simp [hle] at hne
    · simp [hle]
  unfold writeSlp
  simp only [bind, herr]

/-- at or below the maximum the guard lets the game through (what happens next is C01/C17) -/
theorem C09_guard_passes (g : Game) (h : ¬ g.start.version.above) : assertMaxVersion g.start.version = .ok () :=
  (assertMaxVersion_iff _).mpr (Classical.not_not.mp h)

#print axioms C09_slp_refuse
end Peppi
