import Peppi.Lemmas.C08File
/-! The general file-level read theorem (≥ 3.0, no Gecko block): for *any* event stream between Game Start and Game End whose
    events are declared in the payload table and which the handler folds to a frame set `F`, the reader returns the game with
    frames `F`.  Canonical files, unknown events and permuted frame bodies are instances. -/
namespace Peppi
open Extracted

/-- what the general theorem needs about the stream -/
structure Replay.WFS (T : TextOracle) (r : Replay) (s : Start) (u : Unknowns) (F : FCols) : Prop where
  base : r.WF T s
  tableOK : TableOK (canonTableU s.version r.startBlock.length (r.endLen s.version) u)
  nodup : ((canonTableU s.version r.startBlock.length (r.endLen s.version) u).map Prod.fst).Nodup
  tableLen : 3 * (canonTableU s.version r.startBlock.length (r.endLen s.version) u).length + 1 < 256
  /-- every event of the stream is declared with its size and is neither a splitter nor Game End -/
  declared : ∀ e ∈ u.mixed, e.1 < 256 ∧ e.1 ≠ EV_SPLITTER ∧ e.1 ≠ EV_GAME_END ∧
    (e.1, e.2.length) ∈ canonTableU s.version r.startBlock.length (r.endLen s.version) u
  /-- the handler folds the stream to `F` -/
  run : runEvents (ps0U r s u).st u.mixed = .ok { (ps0U r s u).st with frames := F }
  rawLen : (r.rawU s.version u).length < 256 ^ 4

def Replay.gameF (r : Replay) (s : Start) (ge : Option End) (F : FCols) : Game := { (r.game s ge) with frames := F }

theorem parseStart_encS (T : TextOracle) (r : Replay) (s : Start) (u : Unknowns) (F : FCols) (h : r.WFS T s u F) (rest : Bytes) :
    let t := canonTableU s.version r.startBlock.length (r.endLen s.version) u
    parseStart T ([0x35, UInt8.ofNat (3 * t.length + 1)] ++ encTable t ++ (encEvent (EV_GAME_START, r.startBlock) ++ rest)) =
      .ok (ps0U r s u, rest) := by
  intro t
  have hp := parsePayloads_enc t h.tableOK h.tableLen h.nodup r.startBlock.length (r.endLen s.version)
    (canonTableU_mem _ _ _ _ _ _ (by simp [canonTable])) (canonTableU_mem _ _ _ _ _ _ (by simp [canonTable]))
    (encEvent (EV_GAME_START, r.startBlock) ++ rest)
  simp only [parseStart, bind]
  rw [hp]
  simp only [parseGameStart, bind, encEvent, List.cons_append, Rd.u8]
  have hsz : sizeOfEv t.reverse (UInt8.ofNat EV_GAME_START).toNat = some r.startBlock.length := by
    have : (UInt8.ofNat EV_GAME_START).toNat = EV_GAME_START := by decide
    rw [this]; exact sizeOfEv_reverse t h.nodup _ _ (canonTableU_mem _ _ _ _ _ _ (by simp [canonTable]))
  simp only [hsz, Rd.take, List.length_append]
  have hlt : ¬ (r.startBlock.length + rest.length < r.startBlock.length) := by omega
  have hcode : (UInt8.ofNat EV_GAME_START).toNat = EV_GAME_START := by decide
  simp only [hlt, ↓reduceIte, List.take_left' rfl, List.drop_left' rfl, hcode, Rd.lift, h.base.start, pure, portIdxOf]
  rfl

/-- **general file-level read theorem** -/
theorem readP_encode_stream (T : TextOracle) (r : Replay) (s : Start) (u : Unknowns) (F : FCols) (h : r.WFS T s u F) :
    ∃ ge : Option End, r.fend.map gameEnd = ge.map Res.ok ∧
      readP T {} (r.encodeU s.version u) = .ok (r.gameF s ge F, []) := by
  have hb := h.base
  have hrl := raw_lengthU r s.version u
  have hraw0 : (r.rawU s.version u).length ≠ 0 := by rw [hrl]; omega
  have hps0 : (ps0U r s u).bytesRead = 2 + 3 * (canonTableU s.version r.startBlock.length (r.endLen s.version) u).length + (1 + r.startBlock.length) := by
    simp [ps0U]; omega
  have hnd := h.nodup
  have hrun := h.run
  let psF : ParseState := ⟨{ (ps0U r s u).st with frames := F },
    (ps0U r s u).bytesRead + (encEvents u.mixed).length⟩
  have hloop : ∀ rest, ∃ k,
      eventLoop ((encEvents u.mixed ++ rest).length + 1) (r.rawU s.version u).length (ps0U r s u) (encEvents u.mixed ++ rest) =
        eventLoop (k + 1) (r.rawU s.version u).length psF rest := by
    intro rest
    have hle : u.mixed.length ≤ (encEvents u.mixed ++ rest).length := by have := events_le_bytes u.mixed; simp; omega
    refine ⟨(encEvents u.mixed ++ rest).length - u.mixed.length, ?_⟩
    have := eventLoop_run (r.rawU s.version u).length u.mixed (encEvents u.mixed ++ rest).length (ps0U r s u) _ rest hle
      (by
        intro e he
        obtain ⟨a1, a2, a3, a4⟩ := h.declared e he
        exact ⟨a1, a2, a3, sizeOfEv_reverse _ hnd _ _ a4⟩)
      hrun (by right; rw [hps0, hrl]; omega)
    rw [this]
    congr 1
    omega
  have hv30 : psF.st.start.version.lt 3 0 = false := by show s.version.lt 3 0 = false; simp [Ver.lt, hb.v30]
  have hsize : sizeOfEv psF.st.sizes EV_GAME_END = some (r.endLen s.version) :=
    sizeOfEv_reverse _ hnd _ _ (canonTableU_mem _ _ _ _ _ _ (by simp [canonTable]))
  have hpsF : psF.bytesRead = 2 + 3 * (canonTableU s.version r.startBlock.length (r.endLen s.version) u).length + (1 + r.startBlock.length) + (encEvents u.mixed).length := by
    simp only [psF, hps0]
  have hread : ∀ g rest, loopTail T (r.rawU s.version u).length (ps0U r s u) (encEvents u.mixed ++ (encEvents r.endEvents ++ r.tail)) = .ok (g, rest) →
      readP T {} (r.encodeU s.version u) = .ok (g, rest) := by
    intro g rest hk
    have hsplit : r.rawU s.version u ++ r.tail =
        [0x35, UInt8.ofNat (3 * (canonTableU s.version r.startBlock.length (r.endLen s.version) u).length + 1)] ++
          encTable (canonTableU s.version r.startBlock.length (r.endLen s.version) u) ++
          (encEvent (EV_GAME_START, r.startBlock) ++ (encEvents u.mixed ++ (encEvents r.endEvents ++ r.tail))) := by
      simp [Replay.rawU, List.append_assoc]
    have hstart' := parseStart_encS T r s u F h (encEvents u.mixed ++ (encEvents r.endEvents ++ r.tail))
    simp only [] at hstart'
    rw [← hsplit] at hstart'
    unfold readP Replay.encodeU
    simp only [Bool.false_eq_true, ↓reduceIte, bind]
    rw [parseHeader_enc _ h.rawLen]
    simp only []
    rw [hstart']
    simp only [pure]
    exact hk
  cases hfe : r.fend with
  | none =>
    have hends : r.endEvents = [] := by simp [Replay.endEvents, hfe]
    have hdbl : r.doubled = false := by
      cases hd : r.doubled with
      | false => rfl
      | true => obtain ⟨e, he, _⟩ := hb.doubledOK hd; rw [hfe] at he; cases he
    refine ⟨none, by simp, ?_⟩
    apply hread
    simp only [hends, encEvents_nil, List.nil_append, loopTail, bind]
    obtain ⟨k, hl⟩ := hloop r.tail
    rw [hl]
    have hbr : ¬ psF.bytesRead < (r.rawU s.version u).length := by
      rw [hpsF, hrl, hends]; simp [encEvents_nil]
    rw [eventLoop_done k _ _ _ hraw0 hbr]
    simp only []
    rw [metaBytes_eq, readTail_exact T _ psF r.metadata hv30 hbr rfl hb.metadata]
    simp [gameOf, Replay.gameF, Replay.game, psF, ps0U, hdbl]
  | some e =>
    obtain ⟨hel, _, ge, hge⟩ := hb.endOK e hfe
    have hendlen : r.endLen s.version = e.length := by simp [Replay.endLen, hfe]
    rw [hendlen] at hsize
    refine ⟨some ge, by simp [hge], ?_⟩
    apply hread
    cases hd : r.doubled with
    | false =>
      have hends : r.endEvents = [(EV_GAME_END, e)] := by simp [Replay.endEvents, hfe, hd]
      have hbrlt : psF.bytesRead < (r.rawU s.version u).length := by
        rw [hpsF, hrl, hends, encEvents_cons]; simp [encEvent]
      simp only [hends, encEvents_cons, encEvents_nil, List.append_nil, loopTail, bind]
      obtain ⟨k, hl⟩ := hloop (encEvent (EV_GAME_END, e) ++ r.tail)
      rw [hl, loop_end k _ psF e ge r.tail hsize hge hbrlt]
      simp only []
      have hbr : ¬ psF.bytesRead + e.length + 1 < (r.rawU s.version u).length := by
        rw [hpsF, hrl, hends, encEvents_cons]; simp [encEvent, encEvents_nil]; omega
      rw [metaBytes_eq]
      refine (readTail_exact T _ ⟨{ psF.st with fend := some ge }, psF.bytesRead + e.length + 1⟩
        r.metadata hv30 hbr rfl hb.metadata).trans ?_
      simp [gameOf, Replay.gameF, Replay.game, psF, ps0U, hd]
    | true =>
      obtain ⟨e', he', hlen'⟩ := hb.doubledOK hd
      rw [hfe] at he'; cases he'
      have hends : r.endEvents = [(EV_GAME_END, e), (EV_GAME_END, e)] := by simp [Replay.endEvents, hfe, hd]
      have hbrlt : psF.bytesRead < (r.rawU s.version u).length := by
        rw [hpsF, hrl, hends, encEvents_cons]; simp [encEvent]
      simp only [hends, encEvents_cons, encEvents_nil, List.append_nil, List.append_assoc, loopTail, bind]
      obtain ⟨k, hl⟩ := hloop (encEvent (EV_GAME_END, e) ++ (encEvent (EV_GAME_END, e) ++ r.tail))
      rw [hl, loop_end k _ psF e ge _ hsize hge hbrlt]
      simp only []
      have hbr : psF.bytesRead + e.length + 1 + (1 + e.length) = (r.rawU s.version u).length := by
        rw [hpsF, hrl, hends, encEvents_cons, encEvents_cons]; simp [encEvent, encEvents_nil]; omega
      rw [metaBytes_eq]
      refine (readTail_doubled T _ ⟨{ psF.st with fend := some ge }, psF.bytesRead + e.length + 1⟩
        r.metadata e hv30 hbr hlen' rfl hb.metadata).trans ?_
      simp [gameOf, Replay.gameF, Replay.game, psF, ps0U, hd]

#print axioms readP_encode_stream
end Peppi
