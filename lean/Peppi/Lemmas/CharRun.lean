import Peppi.Lemmas.Events
/-! Running a batch of pre/post events of one frame on the real state = `runChars` on the flat slots. -/
namespace Peppi
open Extracted

/-- slot descriptors in canonical order: (index into `ports`, follower?, port number) -/
def slotList : List PortOccupancy → Nat → List (Nat × Bool × Nat)
  | [], _ => []
  | p :: ps, pi => (pi, false, p.port) :: ((if p.follower then [(pi, true, p.port)] else []) ++ slotList ps (pi + 1))

/-- present slots with their index, in slot order -/
def presentFrom : Nat → List (Option CharOcc) → List (Nat × CharOcc)
  | _, [] => []
  | c, none :: t => presentFrom (c+1) t
  | c, some o :: t => (c, o) :: presentFrom (c+1) t

theorem slotEvs_eq_map (mk : Nat → CharOcc → CEv) (c0 : Nat) (l : List (Option CharOcc)) :
    slotEvs mk c0 l = (presentFrom c0 l).map (fun co => mk co.1 co.2) := by
  induction l generalizing c0 with
  | nil => rfl
  | cons a t ih => cases a with
    | none => simpa [slotEvs, presentFrom] using ih (c0+1)
    | some o => simp [slotEvs, presentFrom, ih (c0+1)]

theorem presentFrom_lt (c0 : Nat) (l : List (Option CharOcc)) : ∀ co ∈ presentFrom c0 l, c0 ≤ co.1 ∧ co.1 < c0 + l.length := by
  induction l generalizing c0 with
  | nil => simp [presentFrom]
  | cons a t ih => cases a with
    | none => intro co h; have := ih (c0+1) co (by simpa [presentFrom] using h); simp; omega
    | some o => intro co h; simp [presentFrom] at h; rcases h with rfl | h
                · simp
                · have := ih (c0+1) co h; simp; omega

/-- the port-number → slot map built by `parse_start` agrees with the shape of `ports` -/
def PortMapOK (portIdx : List (Option Nat)) (shape : List PortOccupancy) : Prop :=
  ∀ pi (h : pi < shape.length), portIdx.getD (shape[pi]).port none = some pi

theorem slotBase_shape (a b : List PCols) (h : shapeOf a = shapeOf b) (pi : Nat) : slotBase a pi = slotBase b pi := by
  induction a generalizing b pi with
  | nil => cases b with
    | nil => rfl
    | cons _ _ => simp [shapeOf] at h
  | cons p ps ih => cases b with
    | nil => simp [shapeOf] at h
    | cons q qs =>
      simp only [shapeOf, List.map_cons, List.cons.injEq, PortOccupancy.mk.injEq] at h
      cases pi with
      | zero => rfl
      | succ pi' =>
        simp only [slotBase]
        rw [ih qs h.2 pi']
        unfold PCols.nslots; rw [h.1.2]

/-- slot `c` of the canonical list lives at flat index `c` -/
theorem slotList_index (ports : List PCols) (pi0 : Nat) (c : Nat) (d : Nat × Bool × Nat)
    (h : (slotList (shapeOf ports) pi0)[c]? = some d) :
    pi0 ≤ d.1 ∧ d.1 - pi0 < ports.length ∧ slotIndex ports (d.1 - pi0) d.2.1 = c ∧
      (d.2.1 = true → (ports[d.1 - pi0]?.bind (·.follower)).isSome) ∧ (ports[d.1 - pi0]?.map (·.port)) = some d.2.2 := by
  induction ports generalizing pi0 c with
  | nil => simp [shapeOf, slotList] at h
  | cons p ps ih =>
    simp only [shapeOf, List.map_cons, slotList] at h
    -- the tail case, shared by both shapes of the head port
    have tail : ∀ c', (slotList (shapeOf ps) (pi0 + 1))[c']? = some d → c = c' + p.nslots →
        pi0 ≤ d.1 ∧ d.1 - pi0 < (p :: ps).length ∧ slotIndex (p :: ps) (d.1 - pi0) d.2.1 = c ∧
        (d.2.1 = true → ((p :: ps)[d.1 - pi0]?.bind (·.follower)).isSome) ∧ ((p :: ps)[d.1 - pi0]?.map (·.port)) = some d.2.2 := by
      intro c' hc' hcc
      obtain ⟨h1, h2, h3, h4, h5⟩ := ih (pi0+1) c' hc'
      have e : d.1 - pi0 = (d.1 - (pi0+1)) + 1 := by omega
      refine ⟨by omega, by simp; omega, ?_, ?_, ?_⟩
      · rw [e]; simp only [slotIndex, slotBase] at h3 ⊢; omega
      · rw [e]; simpa using h4
      · rw [e]; simpa using h5
    cases c with
    | zero =>
      simp only [List.getElem?_cons_zero, Option.some.injEq] at h
      subst h
      simp [slotIndex, slotBase]
    | succ c' =>
      simp only [List.getElem?_cons_succ] at h
      cases hf : p.follower.isSome with
      | false =>
        simp only [hf, Bool.false_eq_true, ↓reduceIte, List.nil_append] at h
        exact tail c' (by simpa [shapeOf] using h) (by unfold PCols.nslots; simp [hf])
      | true =>
        simp only [hf, ↓reduceIte, List.cons_append, List.nil_append] at h
        cases c' with
        | zero =>
          simp only [List.getElem?_cons_zero, Option.some.injEq] at h
          subst h
          simp [slotIndex, slotBase, hf]
        | succ c'' =>
          simp only [List.getElem?_cons_succ] at h
          exact tail c'' (by simpa [shapeOf] using h) (by unfold PCols.nslots; simp [hf])

theorem slotList_length (shape : List PortOccupancy) (pi0 : Nat) :
    (slotList shape pi0).length = (shape.map fun p => if p.follower then 2 else 1).sum := by
  induction shape generalizing pi0 with
  | nil => rfl
  | cons p ps ih => simp only [slotList, List.length_cons, List.length_append, ih, List.map_cons, List.sum_cons]; split <;> simp <;> omega

theorem flatSlots_length (ports : List PCols) : (flatSlots ports).length = (slotList (shapeOf ports) 0).length := by
  rw [slotList_length]
  induction ports with
  | nil => rfl
  | cons p ps ih =>
    simp only [flatSlots, List.flatMap_cons, List.length_append, shapeOf, List.map_cons, List.sum_cons] at ih ⊢
    rw [ih, PCols.slots_length]; unfold PCols.nslots; rfl

/-- fold of `handleEvent` over (code, buffer) pairs -/
def runEvents : PState → List (Nat × Bytes) → Res PState
  | st, [] => .ok st
  | st, e :: es => match handleEvent st e.1 e.2 with
    | .ok st' => runEvents st' es
    | .err m => .err m
    | .panic m => .panic m

theorem runEvents_append (st : PState) (a b : List (Nat × Bytes)) :
    runEvents st (a ++ b) = match runEvents st a with | .ok st' => runEvents st' b | .err m => .err m | .panic m => .panic m := by
  induction a generalizing st with
  | nil => simp [runEvents]
  | cons e es ih =>
    simp only [List.cons_append, runEvents]
    cases handleEvent st e.1 e.2 with
    | ok st' => simpa using ih st'
    | err m => rfl
    | panic m => rfl

/-- the recorder's pre (or post) events for the present characters of one frame -/
def charEvent (post : Bool) (v : Ver) (id : Int) (sl : List (Nat × Bool × Nat)) (co : Nat × CharOcc) : Nat × Bytes :=
  match sl[co.1]? with
  | some d => if post then (EV_FRAME_POST, encChar v Post.readPush id d.2.2 d.2.1 co.2.post)
              else (EV_FRAME_PRE, encChar v Pre.readPush id d.2.2 d.2.1 co.2.pre)
  | none => (0, [])

def charEvents (post : Bool) (v : Ver) (id : Int) (sl : List (Nat × Bool × Nat)) (present : List (Nat × CharOcc)) : List (Nat × Bytes) :=
  present.map (charEvent post v id sl)

def charCEvs (post : Bool) (present : List (Nat × CharOcc)) : List CEv :=
  present.map fun co => if post then .post co.1 co.2.post else .pre co.1 co.2.pre

def OccOK (v : Ver) (o : CharOcc) : Prop := RowOK v Pre.readPush o.pre ∧ RowOK v Post.readPush o.post

theorem updSlot_frames (st : PState) (pi : Nat) (fol : Bool) (f) :
    (st.updSlot pi fol f).frames.ports = st.frames.ports.modify pi (·.updSlot fol f) ∧
    (st.updSlot pi fol f).frames.id = st.frames.id ∧ (st.updSlot pi fol f).portIdx = st.portIdx ∧
    (st.updSlot pi fol f).start = st.start := by
  simp [PState.updSlot]

/-- Running the pre (or post) events of the present slots inside an open frame acts on the flat slots as `runChars`. -/
theorem run_char_events (post : Bool) (id : Int) (hid : I32 id) (present : List (Nat × CharOcc)) :
    ∀ (st : PState) (cs' : List DCols),
      st.lastId = some id →
      PortMapOK st.portIdx (shapeOf st.frames.ports) →
      (∀ p ∈ st.frames.ports, p.port < 256) →
      (∀ co ∈ present, co.1 < (slotList (shapeOf st.frames.ports) 0).length ∧ OccOK st.start.version co.2) →
      runChars (flatSlots st.frames.ports) (charCEvs post present) = some cs' →
      ∃ P, runEvents st (charEvents post st.start.version id (slotList (shapeOf st.frames.ports) 0) present)
            = .ok { st with frames := { st.frames with ports := P } } ∧
        shapeOf P = shapeOf st.frames.ports ∧ flatSlots P = cs' := by
  induction present with
  | nil =>
    intro st cs' _ _ _ _ hrun
    simp only [charCEvs, List.map_nil, runChars, Option.some.injEq] at hrun
    exact ⟨st.frames.ports, by simp [charEvents, runEvents], rfl, hrun⟩
  | cons co rest ih =>
    intro st cs' hlast hmap hports hpres hrun
    obtain ⟨hc, hocc⟩ := hpres co (by simp)
    obtain ⟨d, hd⟩ : ∃ d, (slotList (shapeOf st.frames.ports) 0)[co.1]? = some d := ⟨_, List.getElem?_eq_getElem hc⟩
    obtain ⟨_, hpi, hidx, hfol, hport⟩ := slotList_index st.frames.ports 0 co.1 d hd
    simp only [Nat.sub_zero] at hpi hidx hfol hport
    -- the slot lookup succeeds
    have hpc : st.frames.ports[d.1]? = some (st.frames.ports[d.1]) := List.getElem?_eq_getElem hpi
    have hpn : (st.frames.ports[d.1]).port = d.2.2 := by simpa [hpc] using hport
    have hslot : st.slotIdx d.2.2 d.2.1 = .ok d.1 := by
      unfold PState.slotIdx
      have hm := hmap d.1 (by simpa [shapeOf] using hpi)
      simp only [shapeOf, List.getElem_map] at hm
      rw [hpn] at hm
      simp only [hm, slotOk, hpc]
      cases hf : d.2.1 with
      | false => simp
      | true =>
        have := hfol hf
        simp only [hpc, Option.bind_some] at this
        have hnn : (st.frames.ports[d.1]).follower.isNone = false := by
          cases hfo : (st.frames.ports[d.1]).follower <;> simp_all
        simp [hnn]
    have hp256 : d.2.2 < 256 := by rw [← hpn]; exact hports _ (List.getElem_mem _)
    -- one step of the real handler
    have hstep : ∃ f : DCols → DCols,
        handleEvent st (charEvent post st.start.version id (slotList (shapeOf st.frames.ports) 0) co).1
          (charEvent post st.start.version id (slotList (shapeOf st.frames.ports) 0) co).2 = .ok (st.updSlot d.1 d.2.1 f) ∧
        f = (if post then CEv.post co.1 co.2.post else CEv.pre co.1 co.2.pre).apply := by
      cases post with
      | true =>
        refine ⟨(·.pushPost co.2.post), ?_, by funext x; rfl⟩
        simp only [charEvent, hd, ↓reduceIte]
        exact handle_post st id d.2.2 d.2.1 co.2.post d.1 hid hp256 hocc.2 hlast hslot
      | false =>
        refine ⟨(·.pushPre co.2.pre), ?_, by funext x; rfl⟩
        simp only [charEvent, hd, Bool.false_eq_true, ↓reduceIte]
        exact handle_pre_open st id d.2.2 d.2.1 co.2.pre d.1 hid hp256 hocc.1 hlast hslot
    obtain ⟨f, hf1, hf2⟩ := hstep
    -- what it does to the flat slots
    have hflat : flatSlots (st.updSlot d.1 d.2.1 f).frames.ports = (flatSlots st.frames.ports).modify co.1 f := by
      rw [(updSlot_frames st d.1 d.2.1 f).1, flatSlots_updSlot _ _ _ _ hpi (by
        intro hft; have := hfol hft; simpa [hpc] using this), hidx]
    have hshape : shapeOf (st.updSlot d.1 d.2.1 f).frames.ports = shapeOf st.frames.ports := by
      rw [(updSlot_frames st d.1 d.2.1 f).1]; exact shapeOf_updSlot _ _ _ _
    -- unfold one step of `runChars`
    simp only [charCEvs, List.map_cons, runChars, stepChars] at hrun
    have hcl : co.1 < (flatSlots st.frames.ports).length := by rw [flatSlots_length]; exact hc
    have htarget : (if post then CEv.post co.1 co.2.post else CEv.pre co.1 co.2.pre).target = co.1 := by cases post <;> rfl
    simp only [htarget, hcl, ↓reduceIte] at hrun
    rw [← hf2, ← hflat] at hrun
    obtain ⟨P, hP, hPs, hPf⟩ := ih (st.updSlot d.1 d.2.1 f) cs'
      (by simpa [PState.lastId, (updSlot_frames st d.1 d.2.1 f).2.1] using hlast)
      (by rw [(updSlot_frames st d.1 d.2.1 f).2.2.1, hshape]; exact hmap)
      (by
        intro p hp
        rw [(updSlot_frames st d.1 d.2.1 f).1] at hp
        obtain ⟨i, hi, rfl⟩ := List.getElem_of_mem hp
        simp only [List.getElem_modify]
        split
        · have := hports (st.frames.ports[i]'(by simpa using hi)) (List.getElem_mem _)
          unfold PCols.updSlot; split <;> simpa using this
        · exact hports _ (List.getElem_mem _))
      (by
        intro co' hco'
        rw [hshape, (updSlot_frames st d.1 d.2.1 f).2.2.2]
        exact hpres co' (by simp [hco']))
      (by simpa [charCEvs] using hrun)
    refine ⟨P, ?_, by rw [hPs, hshape], hPf⟩
    simp only [charEvents, List.map_cons, runEvents]
    rw [hf1]
    simp only [charEvents, hshape, (updSlot_frames st d.1 d.2.1 f).2.2.2] at hP
    simp only []
    rw [hP]
    simp [PState.updSlot]

#print axioms run_char_events
end Peppi
