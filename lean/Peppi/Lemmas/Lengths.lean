import Peppi.Lemmas.Unified
/-! C04, last sentence: *every column of every port, and the start/end columns, have exactly one entry per frame row* — for the
    columns the reader returns for a well-formed replay (`expFrames`, by `C04_any`). -/
namespace Peppi
open Extracted

/-- a character's columns all have `n` entries (pre, post, and the validity bitmap when there is one) -/
def DCols.LenIs (d : DCols) (n : Nat) : Prop :=
  d.pre.length = n ∧ d.post.length = n ∧ ∀ b, d.valid = some b → b.length = n

theorem colsOf_lenIs (hist : List (Option CharOcc)) : (colsOf hist).LenIs hist.length := by
  refine ⟨by simp [colsOf], by simp [colsOf], ?_⟩
  intro b hb
  simp only [colsOf, validOf] at hb
  split at hb
  · cases hb
  · simp only [Option.some.injEq] at hb; subst hb; simp

theorem nSlots_cons (p : PortOccupancy) (ps : List PortOccupancy) :
    nSlots (p :: ps) = (if p.follower then 2 else 1) + nSlots ps := by
  have hshift : ∀ (l : List PortOccupancy) (a b : Nat), (slotList l a).length = (slotList l b).length := by
    intro l
    induction l with
    | nil => intro a b; rfl
    | cons q qs ih => intro a b; simp only [slotList, List.length_cons, List.length_append]; rw [ih (a + 1) (b + 1)]; split <;> rfl
  simp only [nSlots, slotList, List.length_cons, List.length_append]
  rw [hshift ps (0 + 1) 0]
  split <;> simp <;> omega

/-- with exactly one column set per slot, every leader / follower of the rebuilt ports is one of the given column sets -/
theorem rebuild_mem : ∀ (shape : List PortOccupancy) (slots : List DCols), slots.length = nSlots shape →
    ∀ p ∈ rebuild shape slots, p.leader ∈ slots ∧ ∀ f, p.follower = some f → f ∈ slots := by
  intro shape
  induction shape with
  | nil => intro slots _ p hp; simp [rebuild] at hp
  | cons q qs ih =>
    intro slots hlen p hp
    rw [nSlots_cons] at hlen
    by_cases hf : q.follower = true
    · simp only [hf, ↓reduceIte] at hlen
      match slots, hlen with
      | [], hlen => simp at hlen; omega
      | [_], hlen => simp at hlen; omega
      | a :: b :: t, hlen =>
        simp only [rebuild, hf, ↓reduceIte, List.headD_cons, List.drop_succ_cons, List.drop_zero, List.mem_cons] at hp
        rcases hp with rfl | hp
        · exact ⟨by simp, by intro f hf'; simp only [Option.some.injEq] at hf'; subst hf'; simp⟩
        · have := ih t (by simp at hlen; omega) p hp
          exact ⟨by simp [this.1], fun f hf' => by simp [this.2 f hf']⟩
    · simp only [hf, Bool.false_eq_true, ↓reduceIte] at hlen
      match slots, hlen with
      | [], hlen => simp at hlen; omega
      | a :: t, hlen =>
        simp only [rebuild, hf, Bool.false_eq_true, ↓reduceIte, List.headD_cons, List.drop_succ_cons, List.drop_zero, List.mem_cons] at hp
        rcases hp with rfl | hp
        · exact ⟨by simp, by intro f hf'; cases hf'⟩
        · have := ih t (by simp at hlen; omega) p hp
          exact ⟨by simp [this.1], fun f hf' => by simp [this.2 f hf']⟩

theorem rebuild_length : ∀ (shape : List PortOccupancy) (slots : List DCols), (rebuild shape slots).length = shape.length := by
  intro shape
  induction shape with
  | nil => intro _; rfl
  | cons q qs ih => intro slots; simp only [rebuild]; split <;> simp [ih]

/-- **C04 (column lengths)**: in the columns of a history, the id column has one entry per frame occurrence; so have the start
    and end columns and every pre / post column and validity bitmap of every port's leader and follower; the item offsets have
    one more; there is one port entry per occupied port -/
theorem expFrames_lengths (v : Ver) (shape : List PortOccupancy) (h : List FrameOcc) :
    let F := expFrames v shape h
    F.id.length = h.length ∧
    (∀ sc, F.start = some sc → sc.length = h.length) ∧
    (∀ ec, F.fend = some ec → ec.length = h.length) ∧
    (∀ o, F.itemOff = some o → o.length = h.length + 1) ∧
    (∀ it, F.item = some it → it.length = (h.flatMap (·.items)).length) ∧
    F.ports.length = shape.length ∧
    (∀ p ∈ F.ports, p.leader.LenIs h.length ∧ ∀ f, p.follower = some f → f.LenIs h.length) := by
  intro F
  refine ⟨by simp [F, expFrames], ?_, ?_, ?_, ?_, by simp [F, expFrames, expPorts, rebuild_length], ?_⟩
  · intro sc hsc; simp only [F, expFrames] at hsc; split at hsc <;> simp at hsc; subst hsc; simp
  · intro ec hec; simp only [F, expFrames] at hec; split at hec <;> simp at hec; subst hec; simp
  · intro o ho; simp only [F, expFrames] at ho; split at ho <;> simp at ho; subst ho; simp [offsOf]
  · intro it hit; simp only [F, expFrames] at hit; split at hit <;> simp at hit; subst hit; simp
  · intro p hp
    have hlen : (expFlat shape h).length = nSlots shape := by simp [expFlat]
    have hall : ∀ d ∈ expFlat shape h, d.LenIs h.length := by
      intro d hd
      simp only [expFlat, List.mem_map, List.mem_range] at hd
      obtain ⟨c, _, rfl⟩ := hd
      have := colsOf_lenIs (histAt h c)
      simpa [histAt] using this
    obtain ⟨h1, h2⟩ := rebuild_mem shape (expFlat shape h) hlen p hp
    exact ⟨hall _ h1, fun f hf => hall _ (h2 f hf)⟩

/-- the same for what the reader returns on the canonical file of any well-formed replay -/
theorem C04_lengths (T : TextOracle) (r : Replay) (s : Start) (gk : Option GeckoBlocks) (h : r.WFAny T s gk) :
    ∃ g rest, readP T {} (r.encodeAny s.version (portOccupancy s) gk) = .ok (g, rest) ∧
      g.frames.id.length = r.frames.length ∧ g.frames.ports.length = (portOccupancy s).length ∧
      (∀ p ∈ g.frames.ports, p.leader.LenIs r.frames.length ∧ ∀ f, p.follower = some f → f.LenIs r.frames.length) ∧
      (∀ sc, g.frames.start = some sc → sc.length = r.frames.length) ∧ (∀ ec, g.frames.fend = some ec → ec.length = r.frames.length) ∧
      (∀ o, g.frames.itemOff = some o → o.length = r.frames.length + 1) := by
  obtain ⟨ge, _, hread⟩ := C04_any T r s gk h
  obtain ⟨l1, l2, l3, l4, _, l6, l7⟩ := expFrames_lengths s.version (portOccupancy s) r.frames
  refine ⟨_, _, hread, ?_⟩
  cases gk <;> exact ⟨l1, l6, l7, l2, l3, l4⟩

#print axioms expFrames_lengths
#print axioms C04_lengths
end Peppi
