import Peppi.Lemmas.Positional
/-! C05 prototype: the Game Start parser on a block of the oldest length class (320 payload bytes, versions < 1.0)
    equals a specification written with absolute offsets (Appendix A). -/
namespace Peppi

/-- the spec, by absolute payload offsets, for a 320-byte block -/
def specStart320 (T : TextOracle) (blk b : Bytes) : Res Start :=
  let at_ (o w : Nat) : Nat := fromBE ((b.drop o).take w)
  let byte (o : Nat) : Nat := (b.getD o 0).toNat
  let isTeams := byte 12 != 0
  (collectPlayers ((List.range NUM_PORTS).map fun n =>
      player T n (((List.range MAX_PLAYERS).map fun i => (b.drop (100 + 36 * i)).take 36).getD n []) isTeams none none none none none)) >>= fun players =>
  .ok { version := ⟨byte 0, byte 1, byte 2⟩, bitfield := (b.drop 4).take 4, isRainingBombs := byte 10 != 0, isTeams,
        itemSpawnFrequency := byte 15, selfDestructScore := byte 16, stage := at_ 18 2, timer := at_ 20 4,
        itemSpawnBitfield := (b.drop 39).take 5, damageRatio := at_ 52 4, players, randomSeed := at_ 316 4, bytes := blk,
        isPal := none, isFrozenPs := none, scene := none, language := none, match_ := none }

syntax "at_step" : tactic
macro_rules | `(tactic| at_step) => `(tactic| first
  | exact Rd.at_pure _ _ _
  | exact at_playerBytes _ _ _ _
  | exact Rd.at_u8 _ _
  | exact Rd.at_take _ _ _
  | exact Rd.at_be _ _ _
  | (apply Rd.at_bind _ _ _ _ _ _ _ _ (Rd.at_u8 _ _); intro _)
  | (apply Rd.at_bind _ _ _ _ _ _ _ _ (Rd.at_skip _ _ _); intro _)
  | (apply Rd.at_bind _ _ _ _ _ _ _ _ (Rd.at_take _ _ _); intro _)
  | (apply Rd.at_bind _ _ _ _ _ _ _ _ (Rd.at_be _ _ _); intro _)
  | (apply Rd.at_bind _ _ _ _ _ _ _ _ (at_playerBytes _ _ _ _); intro _)
  | (apply Rd.at_bind _ _ _ _ _ _ _ _ (at_ifMore_end _ _); intro _)
  | (apply Rd.at_bind _ _ _ _ _ _ _ _ (Rd.at_lift _ _ _); intro _)
  | (apply Rd.at_bind _ _ _ _ _ _ _ _ (at_ifMore_some _ _ _ _ _ (by repeat at_step) (by decide)); intro _)
  | exact Rd.at_fail _ _ _ _
  | exact Rd.at_lift _ _ _
  | (apply Rd.at_ite <;> repeat at_step))

theorem gameStartP_at320 (T : TextOracle) (blk : Bytes) :
    ∃ (w : Nat) (f : Bytes → Res Start), Rd.AtL 320 (gameStartP T blk) 0 w f ∧ w = 320 ∧ ∀ b, f b = specStart320 T blk b := by
  apply Exists.intro
  apply Exists.intro
  apply And.intro
  · unfold gameStartP
    repeat at_step
  · exact ⟨rfl, fun b => rfl⟩

/-- **C05 prototype (oldest length class)**: on a 320-byte block the parser is the offset specification -/
theorem gameStartP_320 (T : TextOracle) (blk b : Bytes) (hb : b.length = 320) :
    gameStartP T blk b = match specStart320 T blk b with | .ok s => .ok (s, []) | .err e => .err e | .panic p => .panic p := by
  obtain ⟨w, f, h, hw, hf⟩ := gameStartP_at320 T blk
  subst hw
  have h2 := h b hb (by decide)
  have hd : b.drop 320 = [] := List.drop_eq_nil_of_le (by omega)
  simp only [List.drop_zero, Nat.zero_add, hd, hf] at h2
  exact h2

#print axioms gameStartP_320

/-- the spec, by absolute payload offsets, for a full-length 760-byte block (versions ≥ 3.14) -/
def specStart760 (T : TextOracle) (blk b : Bytes) : Res Start :=
  let at_ (o w : Nat) : Nat := fromBE ((b.drop o).take w)
  let byte (o : Nat) : Nat := (b.getD o 0).toNat
  let sl (o w : Nat) : Bytes := (b.drop o).take w
  let isTeams := byte 12 != 0
  (if byte 700 ≤ 1 then Res.ok (byte 700) else .err "invalid language") >>= fun language =>
  utf8Field T (sl 701 51) 50 >>= fun id =>
  (collectPlayers ((List.range NUM_PORTS).map fun n =>
      player T n (((List.range MAX_PLAYERS).map fun i => sl (100 + 36 * i) 36).getD n []) isTeams
        (some (((List.range NUM_PORTS).map fun i => sl (320 + 8 * i) 8).getD n []))
        (some (((List.range NUM_PORTS).map fun i => sl (352 + 16 * i) 16).getD n []))
        (some (((List.range NUM_PORTS).map fun i => sl (420 + 31 * i) 31).getD n []))
        (some (((List.range NUM_PORTS).map fun i => sl (544 + 10 * i) 10).getD n []))
        (some (((List.range NUM_PORTS).map fun i => sl (584 + 29 * i) 29).getD n [])))) >>= fun players =>
  .ok { version := ⟨byte 0, byte 1, byte 2⟩, bitfield := sl 4 4, isRainingBombs := byte 10 != 0, isTeams,
        itemSpawnFrequency := byte 15, selfDestructScore := byte 16, stage := at_ 18 2, timer := at_ 20 4,
        itemSpawnBitfield := sl 39 5, damageRatio := at_ 52 4, players, randomSeed := at_ 316 4, bytes := blk,
        isPal := some (byte 416 != 0), isFrozenPs := some (byte 417 != 0), scene := some (byte 418, byte 419),
        language := some language, match_ := some ⟨id, at_ 752 4, at_ 756 4⟩ }

theorem gameStartP_at760 (T : TextOracle) (blk : Bytes) :
    ∃ (w : Nat) (f : Bytes → Res Start), Rd.AtL 760 (gameStartP T blk) 0 w f ∧ w = 760 ∧ ∀ b, f b = specStart760 T blk b := by
  apply Exists.intro
  apply Exists.intro
  apply And.intro
  · unfold gameStartP
    repeat at_step
  · refine ⟨rfl, fun b => ?_⟩
    simp only [specStart760, Nat.zero_add, Nat.reduceAdd, Nat.reduceMul, NUM_PORTS, MAX_PLAYERS, bind]
    by_cases hl : (b.getD 700 0).toNat ≤ 1
    · simp only [hl, ↓reduceIte]
      cases utf8Field T (List.take 51 (List.drop 701 b)) 50 with
      | ok id => rfl
      | err e => rfl
      | panic p => rfl
    · simp only [hl, ↓reduceIte]

#print axioms gameStartP_at760
end Peppi
