import Peppi.Res
/-! C07, `.slpp` half: `read_arrow_frames` (repaired) over the abstract state sequence of the Arrow IPC stream reader. -/
namespace Peppi

/-- what `StreamReader::next` can yield -/
inductive SItem (χ : Type) where
  | chunk (c : χ)      -- `Ok(StreamState::Some(chunk))`
  | waiting            -- `Ok(StreamState::Waiting)`: EOF where a message was expected
  | fail               -- `Err(_)`
deriving Repr

/-- the `for result in reader` loop with the `frame: Option<Frame>` accumulator; the list is everything the iterator yields
    before it returns `None` -/
def readArrowLoop {χ : Type} : Option χ → List (SItem χ) → Res χ
  | some f, [] => .ok f
  | none, [] => .err "no batches"
  | _, .fail :: _ => .err "arrow"
  | _, .waiting :: _ => .err "unexpected end of Arrow stream"
  | none, .chunk c :: rest => readArrowLoop (some c) rest
  | some _, .chunk _ :: _ => .err "multiple batches"

def readArrowFrames {χ : Type} (items : List (SItem χ)) : Res χ := readArrowLoop none items

/-- **C07 (`.slpp`, reader's reaction to every state sequence)**: a frame set is returned iff the stream yielded exactly one
    chunk and then ended; every other sequence — in particular every one containing `Waiting` — is an error; the loop is a
    structural recursion, so it terminates on every finite sequence and never sleeps -/
theorem readArrowFrames_ok_iff {χ : Type} (items : List (SItem χ)) (f : χ) :
    readArrowFrames items = .ok f ↔ items = [.chunk f] := by
  unfold readArrowFrames
  constructor
  · intro h
    match items, h with
    | [], h => simp [readArrowLoop] at h
    | .fail :: _, h => simp [readArrowLoop] at h
    | .waiting :: _, h => simp [readArrowLoop] at h
    | [.chunk c], h => simp [readArrowLoop] at h; rw [h]
    | .chunk c :: .fail :: _, h => simp [readArrowLoop] at h
    | .chunk c :: .waiting :: _, h => simp [readArrowLoop] at h
    | .chunk c :: .chunk _ :: _, h => simp [readArrowLoop] at h
  · intro h; subst h; rfl

theorem readArrowFrames_noPanic {χ : Type} (items : List (SItem χ)) : ∀ s, readArrowFrames items ≠ .panic s := by
  intro s
  unfold readArrowFrames
  match items with
  | [] => simp [readArrowLoop]
  | .fail :: _ => simp [readArrowLoop]
  | .waiting :: _ => simp [readArrowLoop]
  | [.chunk c] => simp [readArrowLoop]
  | .chunk c :: .fail :: _ => simp [readArrowLoop]
  | .chunk c :: .waiting :: _ => simp [readArrowLoop]
  | .chunk c :: .chunk _ :: _ => simp [readArrowLoop]

#print axioms readArrowFrames_ok_iff
end Peppi
