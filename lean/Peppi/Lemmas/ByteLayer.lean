import Peppi.Lemmas.FrameStep
/-! From encoded bytes to events: `parseEvent` and `eventLoop` on concatenations of encoded events. -/
namespace Peppi

/-- raw-stream encoding of one event: command byte, payload -/
def encEvent (e : Nat × Bytes) : Bytes := UInt8.ofNat e.1 :: e.2
def encEvents (es : List (Nat × Bytes)) : Bytes := es.flatMap encEvent

/-- the part of the state `handleEvent` may not touch -/
def PState.ctx (st : PState) := (st.sizes, st.splitRaw, st.splitActual, st.start, st.portIdx)

theorem updSlot_ctx (st : PState) (pi fol f) : (st.updSlot pi fol f).ctx = st.ctx := rfl

/-- `handleEvent` never touches the payload-size table, the byte counter, the splitter accumulator,
    the start block or the port map -/
theorem handleEvent_ctx (st st' : PState) (code : Nat) (buf : Bytes) (h : handleEvent st code buf = .ok st') :
    st'.ctx = st.ctx := by
  unfold handleEvent at h
  by_cases h1 : code = EV_PAYLOADS
  · simp [h1] at h
  simp only [h1, ↓reduceIte] at h
  by_cases h2 : code = EV_SPLITTER
  · simp only [h2, ↓reduceIte, Res.ok.injEq] at h; subst h; rfl
  simp only [h2, ↓reduceIte] at h
  by_cases h3 : code = EV_GECKO
  · simp only [h3, ↓reduceIte, Res.ok.injEq] at h; subst h; rfl
  simp only [h3, ↓reduceIte] at h
  by_cases h4 : code = EV_GAME_START
  · simp [h4] at h
  simp only [h4, ↓reduceIte] at h
  by_cases h5 : code = EV_GAME_END
  · simp only [h5, ↓reduceIte, bind, pure] at h
    split at h <;> simp only [Res.ok.injEq, reduceCtorEq] at h
    subst h; rfl
  simp only [h5, ↓reduceIte] at h
  by_cases h6 : code = EV_FRAME_START
  · simp only [h6, ↓reduceIte, bind, pure] at h
    split at h <;> try (simp only [reduceCtorEq] at h)
    split at h <;> try (simp only [reduceCtorEq] at h)
    split at h <;> try (simp only [reduceCtorEq] at h)
    simp only [Res.ok.injEq] at h
    subst h
    split <;> rfl
  simp only [h6, ↓reduceIte] at h
  by_cases h7 : code = EV_FRAME_PRE
  · simp only [h7, ↓reduceIte, bind, pure] at h
    split at h <;> try (simp only [reduceCtorEq] at h)
    split at h <;> try (simp only [reduceCtorEq] at h)
    split at h <;> try (simp only [reduceCtorEq] at h)
    split at h <;> try (simp only [reduceCtorEq] at h)
    rename_i stx hst
    split at h <;> try (simp only [reduceCtorEq] at h)
    split at h <;> try (simp only [reduceCtorEq] at h)
    simp only [Res.ok.injEq] at h
    subst h
    rw [updSlot_ctx]
    -- `stx` is `st`, or `st` with the frame closed and the id pushed
    split at hst
    · split at hst <;> simp only [Res.ok.injEq, reduceCtorEq] at hst
      subst hst; rfl
    · split at hst
      · simp only [Res.ok.injEq] at hst; subst hst; rfl
      · split at hst <;> simp only [Res.ok.injEq, reduceCtorEq] at hst
        subst hst; rfl
  simp only [h7, ↓reduceIte] at h
  by_cases h8 : code = EV_FRAME_POST
  · simp only [h8, ↓reduceIte, bind, pure] at h
    split at h <;> try (simp only [reduceCtorEq] at h)
    split at h <;> try (simp only [reduceCtorEq] at h)
    split at h <;> try (simp only [reduceCtorEq] at h)
    split at h <;> try (simp only [reduceCtorEq] at h)
    split at h <;> try (simp only [reduceCtorEq] at h)
    simp only [Res.ok.injEq] at h
    subst h; rfl
  simp only [h8, ↓reduceIte] at h
  by_cases h9 : code = EV_FRAME_END
  · simp only [h9, ↓reduceIte, bind, pure] at h
    split at h <;> try (simp only [reduceCtorEq] at h)
    split at h <;> try (simp only [reduceCtorEq] at h)
    split at h <;> try (simp only [reduceCtorEq] at h)
    split at h <;> try (simp only [reduceCtorEq] at h)
    split at h <;> try (simp only [reduceCtorEq] at h)
    split at h <;> try (simp only [reduceCtorEq] at h)
    simp only [Res.ok.injEq] at h
    subst h; rfl
  simp only [h9, ↓reduceIte] at h
  by_cases h10 : code = EV_ITEM
  · simp only [h10, ↓reduceIte, bind, pure] at h
    split at h <;> try (simp only [reduceCtorEq] at h)
    split at h <;> try (simp only [reduceCtorEq] at h)
    split at h <;> try (simp only [reduceCtorEq] at h)
    split at h <;> try (simp only [reduceCtorEq] at h)
    simp only [Res.ok.injEq] at h
    subst h; rfl
  simp only [h10, ↓reduceIte, Res.ok.injEq] at h
  subst h; rfl


end Peppi

namespace Peppi

/-- `parse_event` on one encoded non-splitter event whose size is in the payload table -/
theorem parseEvent_enc (ps : ParseState) (code : Nat) (buf rest : Bytes) (hc : code < 256) (hns : code ≠ EV_SPLITTER)
    (hsize : sizeOfEv ps.st.sizes code = some buf.length) :
    parseEvent ps (encEvent (code, buf) ++ rest) =
      match handleEvent ps.st code buf with
      | .ok st' => .ok ((code, { st := st', bytesRead := ps.bytesRead + buf.length + 1 }), rest)
      | .err e => .err e
      | .panic p => .panic p := by
  have hb : (UInt8.ofNat code).toNat = code := by simp [UInt8.toNat_ofNat']; omega
  simp only [parseEvent, encEvent, bind, Rd.u8, List.cons_append, hb, hsize, Rd.take, List.length_append,
    hns, ↓reduceIte, pure, Rd.lift]
  have hlt : ¬ (buf.length + rest.length < buf.length) := by omega
  simp only [hlt, ↓reduceIte, List.take_left' rfl, List.drop_left' rfl]
  cases handleEvent ps.st code buf <;> rfl

theorem encEvents_cons (e : Nat × Bytes) (es : List (Nat × Bytes)) : encEvents (e :: es) = encEvent e ++ encEvents es := by
  simp [encEvents, List.flatMap_cons]
theorem encEvents_append (a b : List (Nat × Bytes)) : encEvents (a ++ b) = encEvents a ++ encEvents b := by
  simp [encEvents, List.flatMap_append]

theorem eventLoop_succ (fuel rawLen : Nat) (ps : ParseState) (bs : Bytes) :
    eventLoop (fuel + 1) rawLen ps bs =
      if rawLen = 0 ∨ ps.bytesRead < rawLen then
        match parseEvent ps bs with
        | .ok ((code, ps'), rest) => if code = EV_GAME_END then .ok (ps', rest) else eventLoop fuel rawLen ps' rest
        | .err e => .err e
        | .panic p => .panic p
      else .ok (ps, bs) := rfl

/-- The event loop over a concatenation of encoded events that are all handled successfully and none of which is
    Game End: it consumes exactly those bytes, ends in the state `runEvents` gives, and has counted the bytes. -/
theorem eventLoop_run (rawLen : Nat) (es : List (Nat × Bytes)) :
    ∀ (fuel : Nat) (ps : ParseState) (st' : PState) (rest : Bytes),
      es.length ≤ fuel →
      (∀ e ∈ es, e.1 < 256 ∧ e.1 ≠ EV_SPLITTER ∧ e.1 ≠ EV_GAME_END ∧ sizeOfEv ps.st.sizes e.1 = some e.2.length) →
      runEvents ps.st es = .ok st' →
      (rawLen = 0 ∨ ps.bytesRead + (encEvents es).length ≤ rawLen) →
      eventLoop (fuel + 1) rawLen ps (encEvents es ++ rest) =
        eventLoop (fuel + 1 - es.length) rawLen { st := st', bytesRead := ps.bytesRead + (encEvents es).length } rest := by
  induction es with
  | nil =>
    intro fuel ps st' rest _ _ hrun _
    simp only [runEvents, Res.ok.injEq] at hrun
    subst hrun
    simp [encEvents]
  | cons e es ih =>
    intro fuel ps st' rest hfuel hall hrun hlen
    obtain ⟨hc, hns, hne, hsz⟩ := hall e (by simp)
    simp only [runEvents] at hrun
    cases hh : handleEvent ps.st e.1 e.2 with
    | err m => simp [hh] at hrun
    | panic m => simp [hh] at hrun
    | ok s1 =>
      simp only [hh] at hrun
      have hctx := handleEvent_ctx ps.st s1 e.1 e.2 hh
      have hs1sizes : s1.sizes = ps.st.sizes := by have := congrArg (·.1) hctx; exact this
      have hlenpos : (encEvents (e :: es)).length = (e.2.length + 1) + (encEvents es).length := by
        rw [encEvents_cons]; simp [encEvent]; omega
      have hcond : rawLen = 0 ∨ ps.bytesRead < rawLen := by
        rcases hlen with h0 | h1
        · exact Or.inl h0
        · right; omega
      cases fuel with
      | zero => simp at hfuel
      | succ fuel' =>
        rw [encEvents_cons, List.append_assoc, eventLoop_succ (fuel' + 1) rawLen ps]
        simp only [hcond, ↓reduceIte]
        rw [show e = (e.1, e.2) from rfl, parseEvent_enc ps e.1 e.2 _ hc hns hsz, hh]
        simp only [hne, ↓reduceIte]
        have := ih fuel' { st := s1, bytesRead := ps.bytesRead + e.2.length + 1 } st' rest (by simpa using hfuel)
          (by intro e' he'; have := hall e' (by simp [he']); rw [show (ParseState.mk s1 _).st.sizes = ps.st.sizes from hs1sizes]; exact this)
          hrun
          (by
            rcases hlen with h0 | h1
            · exact Or.inl h0
            · right; show ps.bytesRead + e.2.length + 1 + _ ≤ rawLen; omega)
        rw [this]
        have hf : fuel' + 1 - es.length = fuel' + 1 + 1 - ((e.1, e.2) :: es).length := by simp
        have hb : ps.bytesRead + e.2.length + 1 + (encEvents es).length
            = ps.bytesRead + (encEvent (e.1, e.2) ++ encEvents es).length := by simp [encEvent]; omega
        simp only [hf, hb]

#print axioms eventLoop_run
end Peppi
