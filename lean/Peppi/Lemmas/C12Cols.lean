import Peppi.Lemmas.C12
/-! C12, prefix clause for **every** column: whatever the event (any code, any buffer, well-formed or not), every
    column of the in-progress frame set after the event is the old column with rows appended — ids, per-character
    pre/post rows, the semantic validity list (a bitmap that does not exist yet means "all present"), Frame Start /
    Frame End rows, item rows and item offsets.  Hence the frames completed after any call are a prefix of the frames
    at any later time, and in particular of the final game (`eventLoop_extends`). -/
namespace Peppi
open Extracted

/-- the validity of a character as a list: no bitmap = every row present -/
def DCols.vlist (d : DCols) : List Bool := d.valid.getD (List.replicate d.pre.length true)

def DCols.Ext (a b : DCols) : Prop := a.pre <+: b.pre ∧ a.post <+: b.post ∧ a.vlist <+: b.vlist

def OptExt {α} (R : α → α → Prop) : Option α → Option α → Prop
  | none, none => True
  | some a, some b => R a b
  | _, _ => False

def PCols.Ext (a b : PCols) : Prop := a.port = b.port ∧ a.leader.Ext b.leader ∧ OptExt DCols.Ext a.follower b.follower

def PortsExt : List PCols → List PCols → Prop
  | [], [] => True
  | a :: as, b :: bs => a.Ext b ∧ PortsExt as bs
  | _, _ => False

def FCols.Ext (a b : FCols) : Prop :=
  a.id <+: b.id ∧ PortsExt a.ports b.ports ∧ OptExt List.IsPrefix a.start b.start ∧ OptExt List.IsPrefix a.fend b.fend ∧
  OptExt List.IsPrefix a.itemOff b.itemOff ∧ OptExt List.IsPrefix a.item b.item

theorem pre_trans {α} (a b c : List α) (h1 : a <+: b) (h2 : b <+: c) : a <+: c := h1.trans h2

theorem optExt_refl {α} {R : α → α → Prop} (hr : ∀ a, R a a) : ∀ o : Option α, OptExt R o o
  | none => trivial
  | some a => hr a

theorem optExt_trans {α} {R : α → α → Prop} (ht : ∀ a b c, R a b → R b c → R a c) :
    ∀ o p q : Option α, OptExt R o p → OptExt R p q → OptExt R o q
  | none, none, none, _, _ => trivial
  | some a, some b, some c, h1, h2 => ht a b c h1 h2
  | none, none, some _, _, h2 => h2.elim
  | none, some _, _, h1, _ => h1.elim
  | some _, none, _, h1, _ => h1.elim
  | some _, some _, none, _, h2 => h2.elim

theorem DCols.ext_refl (d : DCols) : d.Ext d := ⟨List.prefix_refl _, List.prefix_refl _, List.prefix_refl _⟩
theorem DCols.ext_trans (a b c : DCols) (h1 : a.Ext b) (h2 : b.Ext c) : a.Ext c :=
  ⟨h1.1.trans h2.1, h1.2.1.trans h2.2.1, h1.2.2.trans h2.2.2⟩

theorem PCols.ext_refl (p : PCols) : p.Ext p := ⟨rfl, DCols.ext_refl _, optExt_refl DCols.ext_refl _⟩
theorem PCols.ext_trans (a b c : PCols) (h1 : a.Ext b) (h2 : b.Ext c) : a.Ext c :=
  ⟨h1.1.trans h2.1, DCols.ext_trans _ _ _ h1.2.1 h2.2.1, optExt_trans DCols.ext_trans _ _ _ h1.2.2 h2.2.2⟩

theorem portsExt_refl : ∀ l : List PCols, PortsExt l l
  | [] => trivial
  | p :: ps => ⟨PCols.ext_refl p, portsExt_refl ps⟩

theorem portsExt_trans : ∀ a b c : List PCols, PortsExt a b → PortsExt b c → PortsExt a c
  | [], [], [], _, _ => trivial
  | x :: xs, y :: ys, z :: zs, h1, h2 => ⟨PCols.ext_trans x y z h1.1 h2.1, portsExt_trans xs ys zs h1.2 h2.2⟩
  | [], [], _ :: _, _, h2 => h2.elim
  | [], _ :: _, _, h1, _ => h1.elim
  | _ :: _, [], _, h1, _ => h1.elim
  | _ :: _, _ :: _, [], _, h2 => h2.elim

theorem FCols.ext_refl (f : FCols) : f.Ext f :=
  ⟨List.prefix_refl _, portsExt_refl _, optExt_refl List.prefix_refl _, optExt_refl List.prefix_refl _,
   optExt_refl List.prefix_refl _, optExt_refl List.prefix_refl _⟩

theorem FCols.ext_trans (a b c : FCols) (h1 : a.Ext b) (h2 : b.Ext c) : a.Ext c :=
  ⟨h1.1.trans h2.1, portsExt_trans _ _ _ h1.2.1 h2.2.1,
   optExt_trans pre_trans _ _ _ h1.2.2.1 h2.2.2.1,
   optExt_trans pre_trans _ _ _ h1.2.2.2.1 h2.2.2.2.1,
   optExt_trans pre_trans _ _ _ h1.2.2.2.2.1 h2.2.2.2.2.1,
   optExt_trans pre_trans _ _ _ h1.2.2.2.2.2 h2.2.2.2.2.2⟩

/-! ### the three mutations of a character's columns only append -/

theorem DCols.ext_pushNull (d : DCols) : d.Ext d.pushNull := by
  refine ⟨List.prefix_append _ _, List.prefix_append _ _, ?_⟩
  simp only [DCols.vlist, DCols.pushNull, DCols.len, Option.getD_some]
  exact List.prefix_append _ _

theorem DCols.ext_pushPre (d : DCols) (r : Row) : d.Ext (d.pushPre r) := by
  refine ⟨List.prefix_append _ _, List.prefix_refl _, ?_⟩
  simp only [DCols.vlist, DCols.pushPre]
  cases d.valid with
  | none => simp only [Option.map_none, Option.getD_none, List.length_append, List.length_cons, List.length_nil]
            rw [List.replicate_succ']; exact List.prefix_append _ _
  | some bs => simp only [Option.map_some, Option.getD_some]; exact List.prefix_append _ _

theorem DCols.ext_pushPost (d : DCols) (r : Row) : d.Ext (d.pushPost r) :=
  ⟨List.prefix_refl _, List.prefix_append _ _, by simp [DCols.vlist, DCols.pushPost]⟩

theorem DCols.ext_padTo (d : DCols) (n : Nat) : d.Ext (d.padTo n) := by
  induction hk : n - d.len generalizing d with
  | zero =>
    unfold DCols.padTo
    have : ¬ d.len < n := by omega
    simp only [this, ↓reduceIte]; exact DCols.ext_refl d
  | succ k ih =>
    unfold DCols.padTo
    have : d.len < n := by omega
    simp only [this, ↓reduceIte]
    refine DCols.ext_trans _ _ _ (DCols.ext_pushNull d) (ih d.pushNull ?_)
    simp only [DCols.pushNull, DCols.len, List.length_append, List.length_cons, List.length_nil] at *
    omega

theorem portsExt_close (n : Nat) : ∀ l : List PCols,
    PortsExt l (l.map fun p => { p with leader := p.leader.padTo n, follower := p.follower.map (·.padTo n) })
  | [] => trivial
  | p :: ps => by
    refine ⟨⟨rfl, DCols.ext_padTo _ _, ?_⟩, portsExt_close n ps⟩
    show OptExt DCols.Ext p.follower (p.follower.map (·.padTo n))
    cases p.follower with
    | none => trivial
    | some d => exact DCols.ext_padTo d n

theorem FCols.ext_close (f : FCols) : f.Ext f.close :=
  ⟨List.prefix_refl _, portsExt_close _ _, optExt_refl List.prefix_refl _, optExt_refl List.prefix_refl _,
   optExt_refl List.prefix_refl _, optExt_refl List.prefix_refl _⟩

theorem portsExt_modify (fol : Bool) (g : DCols → DCols) (hg : ∀ d : DCols, d.Ext (g d)) :
    ∀ (l : List PCols) (pi : Nat), PortsExt l (l.modify pi (·.updSlot fol g))
  | [], _ => by simp only [List.modify_nil]; trivial
  | p :: ps, 0 => by
    simp only [List.modify_cons, ↓reduceIte]
    refine ⟨?_, portsExt_refl ps⟩
    unfold PCols.updSlot
    cases fol with
    | false => exact ⟨rfl, hg _, optExt_refl DCols.ext_refl _⟩
    | true =>
      refine ⟨rfl, DCols.ext_refl _, ?_⟩
      cases p.follower with
      | none => trivial
      | some d => exact hg d
  | p :: ps, pi + 1 => by
    simp only [List.modify_succ_cons]
    exact ⟨PCols.ext_refl p, portsExt_modify fol g hg ps pi⟩

theorem ext_updSlot (st : PState) (pi : Nat) (fol : Bool) (g : DCols → DCols) (hg : ∀ d : DCols, d.Ext (g d)) :
    st.frames.Ext (st.updSlot pi fol g).frames :=
  ⟨List.prefix_refl _, portsExt_modify fol g hg _ _, optExt_refl List.prefix_refl _, optExt_refl List.prefix_refl _,
   optExt_refl List.prefix_refl _, optExt_refl List.prefix_refl _⟩

/-- the columns of the in-progress game only ever grow by appended rows -/
def ColsExtend (st st' : PState) : Prop := st.frames.Ext st'.frames

theorem colsExtend_refl (st : PState) : ColsExtend st st := FCols.ext_refl _

/-- **C12 (prefix, all columns)**: for every event code and buffer, if the handler succeeds, every column of the new state
    extends the corresponding column of the old state. -/
theorem handleEvent_extends (st : PState) (code : Nat) (buf : Bytes) : Res.Post (ColsExtend st) (handleEvent st code buf) := by
  unfold handleEvent
  simp only []
  apply Res.post_ite; · exact Res.post_err
  apply Res.post_ite; · exact Res.post_ok (colsExtend_refl st)
  apply Res.post_ite; · exact Res.post_ok (FCols.ext_refl _)
  apply Res.post_ite; · exact Res.post_err
  apply Res.post_ite
  · apply Res.post_bind; intro e _; exact Res.post_pure (FCols.ext_refl _)
  apply Res.post_ite
  · -- Frame Start
    apply Res.post_bind; intro x _
    obtain ⟨id, r⟩ := x
    simp only []
    have hc : st.frames.Ext (if st.start.version.lt 3 0 = true then { st with frames := st.frames.close } else st).frames := by
      split
      · exact FCols.ext_close _
      · exact FCols.ext_refl _
    generalize (if st.start.version.lt 3 0 = true then { st with frames := st.frames.close } else st) = st1 at hc
    cases hs : st1.frames.start with
    | none => exact Res.post_err
    | some sc =>
      apply Res.post_bind; intro row _
      apply Res.post_pure
      refine FCols.ext_trans _ _ _ hc ?_
      refine ⟨List.prefix_append _ _, portsExt_refl _, ?_, optExt_refl List.prefix_refl _, optExt_refl List.prefix_refl _,
        optExt_refl List.prefix_refl _⟩
      rw [hs]; exact List.prefix_append _ _
  apply Res.post_ite
  · -- pre-frame
    apply Res.post_bind; intro x _
    obtain ⟨id, r⟩ := x
    simp only []
    apply Res.post_ite; · exact Res.post_err
    apply Res.post_bind; intro _ _
    apply Res.post_bind
    intro st2 hst2
    have h2 : ColsExtend st st2 := by
      revert hst2
      apply Res.post_ite (P := ColsExtend st)
      · apply Res.post_bind; intro _ _; exact Res.post_pure (colsExtend_refl st)
      · apply Res.post_ite
        · apply Res.post_pure
          refine FCols.ext_trans _ _ _ (FCols.ext_close st.frames) ?_
          exact ⟨by simp only [FCols.close]; exact List.prefix_append _ _, portsExt_refl _, optExt_refl List.prefix_refl _,
            optExt_refl List.prefix_refl _, optExt_refl List.prefix_refl _, optExt_refl List.prefix_refl _⟩
        · apply Res.post_bind; intro _ _; exact Res.post_pure (colsExtend_refl st)
    apply Res.post_bind; intro pi _
    apply Res.post_bind; intro row _
    apply Res.post_pure
    exact FCols.ext_trans _ _ _ h2 (ext_updSlot st2 pi _ _ (fun d => DCols.ext_pushPre d row))
  apply Res.post_ite
  · -- post-frame
    apply Res.post_bind; intro x _
    obtain ⟨id, r⟩ := x
    simp only []
    apply Res.post_ite; · exact Res.post_err
    apply Res.post_bind; intro _ _
    apply Res.post_bind; intro pi _
    apply Res.post_bind; intro row _
    exact Res.post_pure (ext_updSlot st pi _ _ (fun d => DCols.ext_pushPost d row))
  apply Res.post_ite
  · -- Frame End
    apply Res.post_bind; intro x _
    obtain ⟨id, r⟩ := x
    simp only []
    cases hf : st.frames.fend with
    | none => exact Res.post_err
    | some ec =>
      simp only []
      apply Res.post_bind; intro _ _
      cases ho : st.frames.itemOff with
      | none => exact Res.post_panic
      | some offs =>
        cases hi : st.frames.item with
        | none => exact Res.post_panic
        | some items =>
          simp only []
          apply Res.post_ite; · exact Res.post_panic
          apply Res.post_bind; intro row _
          apply Res.post_pure
          refine FCols.ext_trans _ _ _ ?_ (FCols.ext_close _)
          refine ⟨List.prefix_refl _, portsExt_refl _, optExt_refl List.prefix_refl _, ?_, ?_, ?_⟩
          · rw [hf]; exact List.prefix_append _ _
          · rw [ho]; exact List.prefix_append _ _
          · rw [hi]; exact List.prefix_refl _
  apply Res.post_ite
  · -- item
    apply Res.post_bind; intro x _
    obtain ⟨id, r⟩ := x
    simp only []
    cases hi : st.frames.item with
    | none => exact Res.post_err
    | some items =>
      simp only []
      apply Res.post_bind; intro _ _
      apply Res.post_bind; intro row _
      apply Res.post_pure
      refine ⟨List.prefix_refl _, portsExt_refl _, optExt_refl List.prefix_refl _, optExt_refl List.prefix_refl _,
        optExt_refl List.prefix_refl _, ?_⟩
      rw [hi]; exact List.prefix_append _ _
  exact Res.post_ok (colsExtend_refl st)

/-- the message-splitter bookkeeping does not touch the frame columns -/
theorem handleSplitter_frames (buf : Bytes) (st : PState) (w : Option Nat) (st' : PState)
    (h : handleSplitter buf st = .ok (w, st')) : st'.frames = st.frames := by
  unfold handleSplitter at h
  split at h; · cases h
  simp only [] at h
  split at h; · cases h
  split at h; · cases h
  cases h; rfl
/-- inversion of `parse_event`: a successful call ran the handler on some state with the same frame columns -/
theorem parseEvent_inv (ps : ParseState) (bs : Bytes) (code : Nat) (ps' : ParseState) (rest : Bytes)
    (h : parseEvent ps bs = .ok ((code, ps'), rest)) :
    ∃ st1 code1 buf1, st1.frames = ps.st.frames ∧ handleEvent st1 code1 buf1 = .ok ps'.st := by
  unfold parseEvent at h
  simp only [bind] at h
  cases bs with
  | nil => simp [Rd.u8] at h
  | cons b t =>
    simp only [Rd.u8] at h
    generalize b.toNat = c at h
    cases hsz : sizeOfEv ps.st.sizes c with
    | none => simp [hsz, Rd.fail] at h
    | some size =>
      simp only [hsz, Rd.take] at h
      by_cases hl : t.length < size
      · simp [hl] at h
      · simp only [hl, ↓reduceIte] at h
        by_cases hc : c = EV_SPLITTER
        · simp only [hc, ↓reduceIte, Rd.lift] at h
          cases hs : handleSplitter (t.take size) ps.st with
          | err e => simp [hs] at h
          | panic e => simp [hs] at h
          | ok z =>
            obtain ⟨w, st'⟩ := z
            have hfr := handleSplitter_frames _ ps.st w st' hs
            simp only [hs] at h
            cases w with
            | none =>
              simp only [pure] at h
              cases he : handleEvent st' EV_SPLITTER (t.take size) with
              | err e => simp [he] at h
              | panic e => simp [he] at h
              | ok st'' =>
                simp only [he, Res.ok.injEq, Prod.mk.injEq] at h
                exact ⟨st', EV_SPLITTER, t.take size, hfr, by rw [he, ← h.1.2]⟩
            | some wrapped =>
              simp only [pure] at h
              cases he : handleEvent { st' with splitRaw := [] } wrapped st'.splitRaw with
              | err e => simp [he] at h
              | panic e => simp [he] at h
              | ok st'' =>
                simp only [he, Res.ok.injEq, Prod.mk.injEq] at h
                exact ⟨{ st' with splitRaw := [] }, wrapped, st'.splitRaw, hfr, by rw [he, ← h.1.2]⟩
        · simp only [hc, ↓reduceIte, pure, Rd.lift] at h
          cases he : handleEvent ps.st c (t.take size) with
          | err e => simp [he] at h
          | panic e => simp [he] at h
          | ok st'' =>
            simp only [he, Res.ok.injEq, Prod.mk.injEq] at h
            exact ⟨ps.st, c, t.take size, rfl, by rw [he, ← h.1.2]⟩

/-- **C12 at the level of `parse_event`**: one call of the incremental API only appends rows to the columns. -/
theorem parseEvent_extends (ps : ParseState) (bs : Bytes) (code : Nat) (ps' : ParseState) (rest : Bytes)
    (h : parseEvent ps bs = .ok ((code, ps'), rest)) : ps.st.frames.Ext ps'.st.frames := by
  obtain ⟨st1, code1, buf1, hfr, he⟩ := parseEvent_inv ps bs code ps' rest h
  have := handleEvent_extends st1 code1 buf1 ps'.st he
  simpa [ColsExtend, hfr] using this

/-- **C12 over any number of calls**: the state after the whole event loop extends the state before it — so what the
    incremental API shows after any call is a prefix of what the loop finally holds. -/
theorem eventLoop_extends_aux : ∀ (fuel rawLen : Nat) (ps : ParseState) (bs : Bytes) (ps' : ParseState) (rest : Bytes),
    eventLoop fuel rawLen ps bs = .ok (ps', rest) → ps.st.frames.Ext ps'.st.frames
  | 0, _, _, _, _, _, h => by simp [eventLoop] at h
  | fuel + 1, rawLen, ps, bs, ps', rest, h => by
    unfold eventLoop at h
    split at h
    · cases hp : parseEvent ps bs with
      | err e => simp [hp] at h
      | panic e => simp [hp] at h
      | ok x =>
        obtain ⟨⟨code, ps1⟩, r1⟩ := x
        simp only [hp] at h
        have h1 := parseEvent_extends ps bs code ps1 r1 hp
        split at h
        · cases h; exact h1
        · exact FCols.ext_trans _ _ _ h1 (eventLoop_extends_aux fuel rawLen ps1 r1 ps' rest h)
    · cases h; exact FCols.ext_refl _

/-- **C12 over any number of calls**: the state after the whole event loop extends the state before it — so what the
    incremental API shows after any call is a prefix of what the loop finally holds. -/
theorem eventLoop_extends (fuel rawLen : Nat) (ps : ParseState) (bs : Bytes) (ps' : ParseState) (rest : Bytes)
    (h : eventLoop fuel rawLen ps bs = .ok (ps', rest)) : ps.st.frames.Ext ps'.st.frames :=
  eventLoop_extends_aux fuel rawLen ps bs ps' rest h

end Peppi

namespace Peppi
/-- **C12 (final game)**: the one-shot reader *is* the incremental API driven to the end — header, start, one
    `parse_event` per iteration while `bytes_read < raw_len` (stopping at Game End), then the tail (`parse_metadata`) —
    so both return the same game on the same bytes.  (Definitional in the model; that the Rust `read` has this shape is
    part of the correspondence check, suites `inc` and `frag`.) -/
theorem C12_final (T : TextOracle) (hash : Bool) (x : Bytes) :
    readP T { skipFrames := false, computeHash := hash } x =
      (match parseHeader x with
       | .ok (rawLen, r1) =>
         (match parseStart T r1 with
          | .ok (ps, r2) =>
            (match eventLoop (r2.length + 1) rawLen ps r2 with
             | .ok (ps', r3) => readTail T rawLen ps' r3
             | .err e => .err e
             | .panic p => .panic p)
          | .err e => .err e
          | .panic p => .panic p)
       | .err e => .err e
       | .panic p => .panic p) := by
  unfold readP loopTail
  simp only [bind, Bool.false_eq_true, ↓reduceIte, pure]
  cases parseHeader x with
  | err e => rfl
  | panic p => rfl
  | ok a =>
    obtain ⟨rawLen, r1⟩ := a
    simp only []
    cases parseStart T r1 with
    | err e => rfl
    | panic p => rfl
    | ok b =>
      obtain ⟨ps, r2⟩ := b
      simp only []
      cases eventLoop (r2.length + 1) rawLen ps r2 with
      | err e => rfl
      | panic p => rfl
      | ok c => obtain ⟨ps', r3⟩ := c; rfl
end Peppi
