import Peppi.C02Bytes
import Peppi.Ser
import Peppi.Lemmas.Example
/-! Non-vacuity of `C02_bytes`: a concrete codec at the types the theorem needs, and a concrete replay. -/
namespace Peppi
open Extracted

def exCodecA : Codec KVs AFrame where
  encPeppi := encPeppiJ
  decPeppi := decPeppiJ
  encMeta := jsonMeta
  decMeta := parseMeta
  startJson _ := []
  endJson _ := []
  encFrames := Ser.aFrame.enc
  decFrames bs := match Ser.aFrame.dec bs with | some (a, []) => (true, [.chunk (normF a)]) | _ => (true, [.fail])
  norm := normF
  peppi_rt := decPeppiJ_enc
  meta_rt := parseMeta_json
  frames_rt f := by
    have := Ser.aFrame.rt f []
    simp only [List.append_nil] at this
    simp only [this]

/-- size side condition of `C02_bytes` from bounds on the parts -/
theorem sizesOK_toP (C : Codec KVs AFrame) (g : Game)
    (h1 : (C.encPeppi none g.doubleGameEnd).length < 8 ^ 11) (h2 : (C.encMeta g.metadata).length < 8 ^ 11)
    (h3 : (C.startJson g.start).length < 8 ^ 11) (h4 : g.start.bytes.length < 8 ^ 11)
    (h5 : ∀ e, g.fend = some e → (C.endJson e).length < 8 ^ 11 ∧ e.bytes.length < 8 ^ 11)
    (h6 : ∀ k, g.gecko = some k → 4 + k.bytes.length < 8 ^ 11)
    (h7 : g.frames.id ≠ [] → (C.encFrames (intoF' (widthsOf g.start.version) g.frames)).length < 8 ^ 11) :
    SizesOK C (toP g none) g.start.bytes (g.fend.map (·.bytes)) := by
  intro e he
  simp only [slppEntries, toP, List.mem_append, List.mem_cons, List.not_mem_nil, or_false] at he
  rcases he with (rfl | rfl | rfl | rfl) | he | he | he
  · exact h1
  · exact h2
  · exact h3
  · exact h4
  · cases hf : g.fend with
    | none => rw [hf] at he; simp at he
    | some e' =>
      rw [hf] at he
      simp only [Option.map_some, List.mem_cons, List.not_mem_nil, or_false] at he
      rcases he with rfl | rfl
      · exact (h5 e' hf).1
      · exact (h5 e' hf).2
  · cases hk : g.gecko with
    | none => rw [hk] at he; simp at he
    | some k =>
      rw [hk] at he
      simp only [Option.map_some, List.mem_singleton] at he
      subst he
      have := h6 k hk
      simp only [List.length_append, leU32', List.length_reverse, toBE_length]
      omega
  · by_cases hid : g.frames.id = []
    · simp [hid] at he
    · simp only [hid, ↓reduceIte, List.mem_singleton] at he
      subst he
      exact h7 hid

def exR : Replay := exReplay (exBlock 3 16 760) (exFrames [-123, -122, -122] 17 32 2 16 1 true) [2, 255, 0, 1, 255, 255]
def exS : Start := startOf (exBlock 3 16 760)

theorem exR_wf : exR.WFAny T0 exS none := example_A

/-- the hypotheses of `C02_bytes` are jointly satisfiable: a 3.16 replay with three frame occurrences (one a rollback), Ice
    Climbers, items, doubled Game End and metadata, and a concrete codec whose frame part is a self-delimiting encoding
    followed by the validity normalisation -/
theorem C02_bytes_example :
    ∃ g p, readSlp T0 {} (exR.encodeAny exS.version (portOccupancy exS) none) = .ok g ∧
      slppRead exCodecA T0 false (slppWrite exCodecA (toP g none) g.start.bytes (g.fend.map (·.bytes))) = .ok p ∧
      writeSlp (ofP p) = .ok (exR.encodeAny exS.version (portOccupancy exS) none) := by
  have hv : exS.version = ⟨3, 16, 0⟩ := by decide +kernel
  apply C02_bytes exCodecA rfl T0 exR exS none exR_wf (by rw [hv]; decide)
  intro g hg
  obtain ⟨ge, hge, hread⟩ := C04_any T0 exR exS none exR_wf
  obtain ⟨hfr, hst, hfe, hhl⟩ := gameAny_frames exR exS ge none
  have hg' : g = exR.gameAny exS ge none := by
    unfold readSlp at hg
    rw [hread] at hg
    simp only [Bool.false_eq_true, ↓reduceIte, Res.ok.injEq] at hg
    rw [← hg]
    cases hx : exR.gameAny exS ge none with
    | mk a b c d e f g' => rw [hx] at hhl; simp only at hhl; subst hhl; rfl
  subst hg'
  apply sizesOK_toP
  · have : (exR.gameAny exS ge none).doubleGameEnd = some true := rfl
    rw [this]
    show (encPeppiJ none (some true)).length < _
    have n2 : natDec 2 = [50] := by rw [natDec]; rfl
    have n0 : natDec 0 = [48] := by rw [natDec]; rfl
    simp [encPeppiJ, encPeppiV, hashJ, quirksJ, J_HEAD, J_QUIRKS, J_TRUE, n2, n0]
  · have : (exR.gameAny exS ge none).metadata = some exMeta := rfl
    rw [this]; decide +kernel
  · show ([] : Bytes).length < _; decide
  · rw [hst]
    have := gameStart_bytes T0 _ _ exR_wf.start
    rw [this]
    have hb : (exBlock 3 16 760).length = 760 := by decide +kernel
    show (exBlock 3 16 760).length < _
    rw [hb]; decide
  · intro e he
    rw [hfe] at he
    subst he
    have hrf : exR.fend = some [2, 255, 0, 1, 255, 255] := rfl
    rw [hrf] at hge
    simp only [Option.map_some, Option.some.injEq] at hge
    rw [gameEnd_bytes _ _ hge]
    exact ⟨by show ([] : Bytes).length < _; decide, by decide⟩
  · intro k hk
    have : (exR.gameAny exS ge none).gecko = none := rfl
    rw [this] at hk; cases hk
  · intro _
    rw [hfr, hst]
    decide +kernel
#print axioms C02_bytes_example
end Peppi
