import Peppi.Extracted
/-! `structArrowOK` (`data_type`, `into_struct_array`, `from_struct_array`), decided by the kernel on the views extracted from the current source, for each of the eleven generated structs.
    A generated function that drops, swaps, re-gates or re-types a member makes the corresponding theorem fail to check. -/
namespace Peppi
open Extracted

theorem arrow_End : structArrowOK true End.views = true := by decide +kernel
theorem arrow_Item : structArrowOK true Item.views = true := by decide +kernel
theorem arrow_ItemMisc : structArrowOK false ItemMisc.views = true := by decide +kernel
theorem arrow_Position : structArrowOK true Position.views = true := by decide +kernel
theorem arrow_Post : structArrowOK true Post.views = true := by decide +kernel
theorem arrow_Pre : structArrowOK true Pre.views = true := by decide +kernel
theorem arrow_Start : structArrowOK true Start.views = true := by decide +kernel
theorem arrow_StateFlags : structArrowOK false StateFlags.views = true := by decide +kernel
theorem arrow_TriggersPhysical : structArrowOK true TriggersPhysical.views = true := by decide +kernel
theorem arrow_Velocities : structArrowOK true Velocities.views = true := by decide +kernel
theorem arrow_Velocity : structArrowOK true Velocity.views = true := by decide +kernel

end Peppi
