import Peppi.Bytes
/-! `String::from_utf8` acceptance (RFC 3629 well-formedness), as a function on bytes. -/
namespace Peppi

def cont (b : UInt8) : Bool := 0x80 ≤ b.toNat && b.toNat ≤ 0xBF

def validUtf8 : Bytes → Bool
  | [] => true
  | b0 :: rest =>
    let n := b0.toNat
    if n ≤ 0x7F then validUtf8 rest
    else if 0xC2 ≤ n ∧ n ≤ 0xDF then
      match rest with
      | b1 :: r => cont b1 && validUtf8 r
      | _ => false
    else if 0xE0 ≤ n ∧ n ≤ 0xEF then
      match rest with
      | b1 :: b2 :: r =>
        let lo := if n = 0xE0 then 0xA0 else 0x80
        let hi := if n = 0xED then 0x9F else 0xBF
        (lo ≤ b1.toNat && b1.toNat ≤ hi) && cont b2 && validUtf8 r
      | _ => false
    else if 0xF0 ≤ n ∧ n ≤ 0xF4 then
      match rest with
      | b1 :: b2 :: b3 :: r =>
        let lo := if n = 0xF0 then 0x90 else 0x80
        let hi := if n = 0xF4 then 0x8F else 0xBF
        (lo ≤ b1.toNat && b1.toNat ≤ hi) && cont b2 && cont b3 && validUtf8 r
      | _ => false
    else false

end Peppi
