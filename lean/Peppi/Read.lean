import Peppi.Cols
import Peppi.Ubjson
/-! Model of the `.slp` reader (io/slippi/de.rs, repaired tree): `parse_payloads`, `parse_game_start`,
    `parse_header`, `parse_start`, `handle_splitter_event`, `parse_event`, `parse_metadata`, `read`. -/
namespace Peppi
open Extracted

structure Opts where
  skipFrames : Bool := false
  computeHash : Bool := false
deriving Repr

structure Gecko where
  bytes : Bytes
  actualSize : Nat
deriving Repr, DecidableEq

structure PState where
  sizes : List (Nat × Nat)        -- payload sizes, latest assignment first
  splitRaw : Bytes
  splitActual : Nat
  portIdx : List (Option Nat)     -- `port_indexes`
  start : Start
  fend : Option End
  frames : FCols
  metadata : Option KVs
  gecko : Option Gecko
  doubleGameEnd : Option Bool     -- `quirks`

/-- `ParseState` = the mutable game state plus the consumed-byte counter, which only `parse_event`
    itself and `read` touch (never the per-event handlers) -/
structure ParseState where
  st : PState
  bytesRead : Nat

def FILE_SIGNATURE : Bytes := [0x7b, 0x55, 0x03, 0x72, 0x61, 0x77, 0x5b, 0x24, 0x55, 0x23, 0x6c]
def METADATA_KEY : Bytes := [0x08, 0x6d, 0x65, 0x74, 0x61, 0x64, 0x61, 0x74, 0x61, 0x7b]

abbrev EV_SPLITTER : Nat := 0x10
abbrev EV_PAYLOADS : Nat := 0x35
abbrev EV_GAME_START : Nat := 0x36
abbrev EV_FRAME_PRE : Nat := 0x37
abbrev EV_FRAME_POST : Nat := 0x38
abbrev EV_GAME_END : Nat := 0x39
abbrev EV_FRAME_START : Nat := 0x3A
abbrev EV_ITEM : Nat := 0x3B
abbrev EV_FRAME_END : Nat := 0x3C
abbrev EV_GECKO : Nat := 0x3D

def sizeOfEv (sizes : List (Nat × Nat)) (code : Nat) : Option Nat := (sizes.find? (·.1 == code)).map (·.2)

/-- `expect_bytes` -/
def expectBytes (expected : Bytes) : Rd Unit := do
  let actual ← Rd.take expected.length
  if actual = expected then pure () else Rd.fail "expected bytes"

/-- the loop over `(code, size)` triples of `parse_payloads` -/
def payloadTriples : Bytes → List (Nat × Nat) → Res (List (Nat × Nat))
  | c :: s1 :: s0 :: rest, acc =>
    let size := s1.toNat * 256 + s0.toNat
    if size = 0 then .err "zero-size event payload" else payloadTriples rest ((c.toNat, size) :: acc)
  | _, acc => .ok acc

/-- `parse_payloads`: returns (bytes read, sizes) -/
def parsePayloads : Rd (Nat × List (Nat × Nat)) := do
  let code ← Rd.u8
  if code ≠ EV_PAYLOADS then Rd.fail "expected event payloads" else
  let size ← Rd.u8
  if size % 3 ≠ 1 then Rd.fail "invalid payload size" else
  let buf ← Rd.take (size - 1)
  let sizes ← Rd.lift (payloadTriples buf [])
  if (sizeOfEv sizes EV_GAME_START).isNone then Rd.fail "missing Game Start in payload sizes" else
  if (sizeOfEv sizes EV_GAME_END).isNone then Rd.fail "missing Game End in payload sizes" else
  pure (1 + size, sizes)

/-- `parse_game_start` -/
def parseGameStart (T : TextOracle) (sizes : List (Nat × Nat)) (bytesRead : Nat) : Rd (Nat × Start) := do
  let code ← Rd.u8
  match sizeOfEv sizes code with
  | none => Rd.fail "unknown event"
  | some size =>
    let buf ← Rd.take size
    if code = EV_GAME_START then do
      let s ← Rd.lift (gameStart T buf)
      pure (bytesRead + size + 1, s)
    else Rd.fail "Invalid event before start"

/-- `parse_header` -/
def parseHeader : Rd Nat := do
  expectBytes FILE_SIGNATURE
  Rd.be 4

/-- `parse_start` -/
def parseStart (T : TextOracle) : Rd ParseState := do
  let (br, sizes) ← parsePayloads
  let (br, start) ← parseGameStart T sizes br
  let ports := portOccupancy start
  let portIdx := (List.range 4).map fun p => (ports.findIdx? (·.port == p))
  pure { st := { sizes, splitRaw := [], splitActual := 0, portIdx, start, fend := none,
                 frames := FCols.new start.version ports, metadata := none, gecko := none, doubleGameEnd := none },
         bytesRead := br }

def PState.lastId (st : PState) : Option Int := st.frames.id.getLast?

/-- `expect_id` -/
def PState.expectId (st : PState) (id : Int) : Res Unit :=
  if st.lastId = some id then .ok () else .err "unexpected frame ID"

/-- does port slot `pi` have the requested character? (depends only on the shape of `ports`) -/
def slotOk (ports : List PCols) (pi : Nat) (isFollower : Bool) : Res Nat :=
  match ports[pi]? with
  | none => .panic "ports index"
  | some pc => if isFollower && pc.follower.isNone then .err "unexpected follower" else .ok pi

/-- `data_mut`: the slot of a character, or an error if the port / follower is not in the game -/
def PState.slotIdx (st : PState) (port : Nat) (isFollower : Bool) : Res Nat :=
  match (st.portIdx.getD port none) with
  | none => .err "invalid port"
  | some pi => slotOk st.frames.ports pi isFollower

def PState.updSlot (st : PState) (pi : Nat) (isFollower : Bool) (f : DCols → DCols) : PState :=
  { st with frames := { st.frames with ports := st.frames.ports.modify pi (·.updSlot isFollower f) } }

def rowOrEof (v : Ver) (L : List Fld) (payload : Bytes) : Res Row :=
  match readRow v L payload with
  | some (vals, _) => .ok vals
  | none => .err "eof"

def i32At (payload : Bytes) : Res (Int × Bytes) :=
  if payload.length < 4 then .err "eof" else .ok (toInt32 (fromBE (payload.take 4)), payload.drop 4)

/-- `handle_splitter_event`: returns the wrapped code when the message is final -/
def handleSplitter (buf : Bytes) (st : PState) : Res (Option Nat × PState) :=
  if buf.length ≠ 516 then .err "invalid message splitter size" else
  let actual := fromBE ((buf.drop 512).take 2)
  if actual > 512 then .err "invalid message splitter actual size" else
  let wrapped := (buf.getD 514 0).toNat
  let isFinal := (buf.getD 515 0) != 0
  if st.splitActual + actual ≥ 2^32 then .err "split message too large" else
  let st' := { st with splitRaw := st.splitRaw ++ buf.take 512, splitActual := st.splitActual + actual }
  .ok (if isFinal then some wrapped else none, st')

/-- the `match event` of `parse_event`, on the (possibly unwrapped) code and buffer -/
def handleEvent (st : PState) (code : Nat) (buf : Bytes) : Res PState :=
  let v := st.start.version
  if code = EV_PAYLOADS then .err "Duplicate payloads event"
  else if code = EV_SPLITTER then .ok st
  else if code = EV_GECKO then .ok { st with gecko := some ⟨buf, st.splitActual⟩ }
  else if code = EV_GAME_START then .err "Duplicate start event"
  else if code = EV_GAME_END then do
    let e ← gameEnd buf
    pure { st with fend := some e }
  else if code = EV_FRAME_START then do
    let st := if v.lt 3 0 then { st with frames := st.frames.close } else st
    let (id, r) ← i32At buf
    match st.frames.start with
    | none => .err "unexpected Frame Start event"
    | some sc =>
      let row ← rowOrEof v Start.readPush r
      pure { st with frames := { st.frames with id := st.frames.id ++ [id], start := some (sc ++ [some row]) } }
  else if code = EV_FRAME_PRE then do
    let (id, r) ← i32At buf
    if r.length < 2 then .err "eof" else
    let port := (r.getD 0 0).toNat
    let isFollower := (r.getD 1 0) != 0
    let r := r.drop 2
    let _ ← st.slotIdx port isFollower
    let st ← (if v.gte 2 2 then do st.expectId id; pure st
      else
        let last := st.lastId.getD (FIRST_INDEX - 1)
        if last + 1 ≤ 2147483647 ∧ last + 1 = id then
          pure { st with frames := { st.frames.close with id := st.frames.id ++ [id] } }
        else do st.expectId id; pure st)
    let pi ← st.slotIdx port isFollower
    let row ← rowOrEof v Pre.readPush r
    pure (st.updSlot pi isFollower (·.pushPre row))
  else if code = EV_FRAME_POST then do
    let (id, r) ← i32At buf
    if r.length < 2 then .err "eof" else
    let port := (r.getD 0 0).toNat
    let isFollower := (r.getD 1 0) != 0
    let r := r.drop 2
    st.expectId id
    let pi ← st.slotIdx port isFollower
    let row ← rowOrEof v Post.readPush r
    pure (st.updSlot pi isFollower (·.pushPost row))
  else if code = EV_FRAME_END then do
    let (id, r) ← i32At buf
    match st.frames.fend with
    | none => .err "unexpected Frame End event"
    | some ec =>
      st.expectId id
      match st.frames.itemOff, st.frames.item with
      | some offs, some items =>
        let old := offs.getLastD 0
        if items.length < old then .panic "checked_sub" else
        let row ← rowOrEof v End.readPush r
        let f := { st.frames with itemOff := some (offs ++ [items.length]), fend := some (ec ++ [some row]) }
        pure { st with frames := f.close }
      | _, _ => .panic "item_offset unwrap"
  else if code = EV_ITEM then do
    let (id, r) ← i32At buf
    match st.frames.item with
    | none => .err "unexpected Item event"
    | some items =>
      st.expectId id
      let row ← rowOrEof v Item.readPush r
      pure { st with frames := { st.frames with item := some (items ++ [some row]) } }
  else .ok st     -- unknown event: skipped

/-- `parse_event`: returns the (unwrapped) event code -/
def parseEvent (ps : ParseState) : Rd (Nat × ParseState) := do
  let st := ps.st
  let code ← Rd.u8
  match sizeOfEv st.sizes code with
  | none => Rd.fail "unknown event"
  | some size =>
    let buf ← Rd.take size
    let (code', buf', st) ← (if code = EV_SPLITTER then do
        let (w, st') ← Rd.lift (handleSplitter buf st)
        match w with
        | some wrapped => pure (wrapped, st'.splitRaw, { st' with splitRaw := [] })
        | none => pure (code, buf, st')
      else pure (code, buf, st) : Rd (Nat × Bytes × PState))
    let st ← Rd.lift (handleEvent st code' buf')
    pure (code', { st, bytesRead := ps.bytesRead + size + 1 })

/-- `parse_metadata` (the `U` has been consumed) -/
def parseMetadata (utf8 : Bytes → Bool) (st : PState) : Rd PState := do
  expectBytes METADATA_KEY
  let m ← (fun bs => readMap utf8 bs : Rd KVs)
  pure { st with metadata := some m }

/-- the main event loop of `read` -/
def eventLoop : Nat → Nat → ParseState → Bytes → Res (ParseState × Bytes)
  | 0, _, _, _ => .err "fuel"
  | fuel+1, rawLen, ps, bs =>
    if rawLen = 0 ∨ ps.bytesRead < rawLen then
      match parseEvent ps bs with
      | .ok ((code, ps'), rest) => if code = EV_GAME_END then .ok (ps', rest) else eventLoop fuel rawLen ps' rest
      | .err e => .err e
      | .panic p => .panic p
    else .ok (ps, bs)

structure Game where
  start : Start
  fend : Option End
  frames : FCols
  metadata : Option KVs
  gecko : Option Gecko
  hashedLen : Option Nat          -- how many leading bytes of the input the hash covers
  doubleGameEnd : Option Bool

/-- after the main loop: dangling frame (< 3.0), duplicated Game End / extra content, metadata, closing brace -/
def readTail (T : TextOracle) (rawLen : Nat) (ps : ParseState) : Rd Game := do
  let st := if ps.st.start.version.lt 3 0 then { ps.st with frames := ps.st.frames.close } else ps.st
  let st ← (if ps.bytesRead < rawLen then do
      let len := rawLen - ps.bytesRead
      let buf ← Rd.take len
      if len = 1 + endSize st.start.version ∧ buf.head? = some 0x39 then pure { st with doubleGameEnd := some true } else pure st
    else pure st)
  let b ← Rd.u8
  let st ← (if b = 0x55 then do
      let st ← parseMetadata T.utf8Ok st
      expectBytes [0x7d]
      pure st
    else if b = 0x7d then pure st
    else Rd.fail "expected: 0x55 or 0x7d")
  pure { start := st.start, fend := st.fend, frames := st.frames, metadata := st.metadata, gecko := st.gecko,
         hashedLen := none, doubleGameEnd := st.doubleGameEnd }

/-- the `skip_frames` jump -/
def skipToEnd (rawLen : Nat) (ps : ParseState) : Rd ParseState :=
  let endOffset := 1 + (sizeOfEv ps.st.sizes EV_GAME_END).getD 0
  if rawLen = 0 ∨ rawLen < ps.bytesRead ∨ rawLen - ps.bytesRead < endOffset then Rd.fail "Cannot skip to game end"
  else
    let skip := rawLen - ps.bytesRead - endOffset
    fun bs => .ok ({ ps with bytesRead := ps.bytesRead + skip }, bs.drop skip)

/-- main loop, then the tail -/
def loopTail (T : TextOracle) (rawLen : Nat) (ps : ParseState) : Rd Game := do
  let ps ← (fun bs => eventLoop (bs.length + 1) rawLen ps bs : Rd ParseState)
  readTail T rawLen ps

/-- the body of `io::slippi::read` as a parser: header, start, optional jump, loop, tail -/
def readP (T : TextOracle) (opts : Opts) : Rd Game := do
  let rawLen ← parseHeader
  let ps ← parseStart T
  let ps ← (if opts.skipFrames then skipToEnd rawLen ps else pure ps)
  loopTail T rawLen ps

/-- `io::slippi::read` over a flat byte string -/
def readSlp (T : TextOracle) (opts : Opts) (input : Bytes) : Res Game :=
  match readP T opts input with
  | .ok (g, rest) => .ok { g with hashedLen := if opts.computeHash then some (input.length - rest.length) else none }
  | .err e => .err e
  | .panic s => .panic s

end Peppi
