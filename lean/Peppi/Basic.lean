def hello := "world"
