import Peppi.ShiftJis
/-! C19, the clauses of the statement spelled out one by one: the normalisation table, "every other character unchanged",
    the image of normalisation contains no character that normalisation would change (stronger than idempotence),
    length preservation, and "an invalid sequence is an error, never a replacement". -/
namespace Peppi

/-- the characters normalisation changes -/
def normDomain (c : Nat) : Prop := (0xff01 ≤ c ∧ c ≤ 0xff5e) ∨ c = 0x3000 ∨ c = 0x2019 ∨ c = 0x201d
instance (c : Nat) : Decidable (normDomain c) := by unfold normDomain; infer_instance

/-- each full-width form U+FF01..U+FF5E goes to the ASCII character at the same position of U+0021..U+007E -/
theorem normSpec_fullwidth (c : Nat) (h : 0xff01 ≤ c ∧ c ≤ 0xff5e) :
    normSpec c = c - 0xff01 + 0x21 ∧ 0x21 ≤ normSpec c ∧ normSpec c ≤ 0x7e := by
  unfold normSpec; simp only [h, and_self, ↓reduceIte]; omega

theorem normSpec_space : normSpec 0x3000 = 0x20 := by decide
theorem normSpec_squote : normSpec 0x2019 = 0x27 := by decide
theorem normSpec_dquote : normSpec 0x201d = 0x22 := by decide

/-- every other character is left unchanged -/
theorem normSpec_other (c : Nat) (h : ¬ normDomain c) : normSpec c = c := by
  unfold normDomain at h; unfold normSpec
  have h1 : ¬ (0xff01 ≤ c ∧ c ≤ 0xff5e) := fun x => h (Or.inl x)
  have h2 : ¬ c = 0x3000 := fun x => h (Or.inr (Or.inl x))
  have h3 : ¬ c = 0x2019 := fun x => h (Or.inr (Or.inr (Or.inl x)))
  have h4 : ¬ c = 0x201d := fun x => h (Or.inr (Or.inr (Or.inr x)))
  simp only [h1, h2, h3, h4, ↓reduceIte]

/-- a changed character becomes ASCII -/
theorem normSpec_domain_ascii (c : Nat) (h : normDomain c) : 0x20 ≤ normSpec c ∧ normSpec c ≤ 0x7e := by
  unfold normDomain at h
  rcases h with h | h | h | h
  · have := normSpec_fullwidth c h; omega
  · subst h; decide
  · subst h; decide
  · subst h; decide

/-- the image of normalisation contains nothing normalisation would change — idempotence is a corollary, and so is
    "a normalised string holds no full-width form, ideographic space or right quotation mark" -/
theorem normSpec_image (c : Nat) : ¬ normDomain (normSpec c) := by
  by_cases h : normDomain c
  · have := normSpec_domain_ascii c h
    unfold normDomain; omega
  · rw [normSpec_other c h]; exact h

theorem normSpec_idem (c : Nat) : normSpec (normSpec c) = normSpec c :=
  normSpec_other _ (normSpec_image c)

/-- ASCII text is a fixed point -/
theorem normSpec_ascii (c : Nat) (h : c < 0x80) : normSpec c = c :=
  normSpec_other c (by unfold normDomain; omega)

/-- normalising keeps the number of characters, and no character of the result is one normalisation would change -/
theorem toNormalized_image (s : List Nat) (h : ∀ c ∈ s, isScalar c) :
    ∃ t, toNormalized s = .ok t ∧ t.length = s.length ∧ (∀ c ∈ t, ¬ normDomain c ∧ isScalar c) ∧
      ∀ i (hi : i < s.length), t[i]? = some (normSpec s[i]) := by
  refine ⟨s.map normSpec, toNormalized_ok s h, by simp, ?_, ?_⟩
  · intro c hc
    obtain ⟨a, ha, rfl⟩ := List.mem_map.mp hc
    exact ⟨normSpec_image a, (fixChar_eq a (h a ha)).2⟩
  · intro i hi; simp [hi]

/-- normalisation of text that holds none of the mapped characters returns it unchanged -/
theorem toNormalized_fixed (s : List Nat) (h : ∀ c ∈ s, isScalar c) (hd : ∀ c ∈ s, ¬ normDomain c) :
    toNormalized s = .ok s := by
  rw [toNormalized_ok s h]
  congr 1
  induction s with
  | nil => rfl
  | cons a as ih =>
    simp only [List.map_cons]
    rw [normSpec_other a (hd a (by simp)),
      ih (fun c hc => h c (by simp [hc])) (fun c hc => hd c (by simp [hc]))]

/-- the field decodes iff the bytes before the first NUL are valid Shift-JIS; the result is then the decoder's text of
    exactly those bytes — there is no third outcome (no replacement characters, no panic) -/
theorem meleeString_cases (sjis : List UInt8 → Option (List Nat)) (field : List UInt8) :
    (∃ s, sjis (field.takeWhile (· ≠ 0)) = some s ∧ meleeString sjis field = .ok s) ∨
    (sjis (field.takeWhile (· ≠ 0)) = none ∧ meleeString sjis field = .err "invalid Shift JIS sequence") := by
  unfold meleeString
  cases h : sjis (field.takeWhile (· ≠ 0)) with
  | none => exact Or.inr ⟨rfl, by simp only [h]⟩
  | some s => exact Or.inl ⟨s, rfl, by simp only [h]⟩

/-- non-vacuity: "ＡＢ　’”x" (full-width A, B, ideographic space, right quotes, ASCII x) -/
example : toNormalized [0xff21, 0xff22, 0x3000, 0x2019, 0x201d, 0x78] = .ok [0x41, 0x42, 0x20, 0x27, 0x22, 0x78] := by decide
/-- neighbours of the mapped ranges are untouched: U+FF00, U+FF5F, U+2018, U+201C, U+3001 -/
example : toNormalized [0xff00, 0xff5f, 0x2018, 0x201c, 0x3001] = .ok [0xff00, 0xff5f, 0x2018, 0x201c, 0x3001] := by decide

end Peppi
