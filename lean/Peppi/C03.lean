import Peppi.Premises
namespace Peppi
open Extracted

theorem chain_visible (v : Ver) : (gs : List (Nat × Nat)) → chain gs = true →
    gs.all (fun g => v.gte g.1 g.2) = v.gte (lastGate gs).1 (lastGate gs).2
  | [], _ => by simp [lastGate, Ver.gte]; omega
  | [a], _ => by simp [lastGate]
  | a :: b :: t, hc => by
    simp only [chain, Bool.and_eq_true] at hc
    have ih := chain_visible v (b :: t) hc.2
    simp only [lastGate, List.all_cons] at ih ⊢
    rw [ih]
    cases hl : v.gte (lastGate (b :: t)).1 (lastGate (b :: t)).2 with
    | false => simp
    | true =>
      rw [hl] at ih
      simp only [Bool.and_eq_true] at ih
      have ha : v.gte a.1 a.2 = true := by
        apply Ver.gte_trans v b.1 b.2 a.1 a.2 _ ih.1
        have := hc.1; unfold leqGate at this; simp at this; omega
      simp [ha]

theorem visible_iff_since (v : Ver) (f : Fld) (hc : chain f.gates = true) :
    visible v f = v.gte (sinceOf f).1 (sinceOf f).2 := by
  unfold visible sinceOf; exact chain_visible v f.gates hc

/-- under monotone gates, an invisible field ends the row -/
theorem count_le_of_invisible (v : Ver) (L : List Fld) (hm : gatesMonotone L = true) (k : Nat) (hk : k < L.length)
    (hinv : visible v L[k] = false) : (L.filter (visible v)).length ≤ k := by
  induction L generalizing k with
  | nil => simp at hk
  | cons f fs ih =>
    cases k with
    | zero =>
      simp only [List.getElem_cons_zero] at hinv
      have := invisible_tail v f fs hm hinv
      have hnil : fs.filter (visible v) = [] := List.filter_eq_nil_iff.mpr (fun x hx => by simp [this x hx])
      simp [List.filter_cons, hinv, hnil]
    | succ k' =>
      have := ih (gatesMonotone_tail f fs hm) k' (by simpa using hk) (by simpa using hinv)
      simp only [List.filter_cons]
      split <;> simp <;> omega

/-- C03, generic form: for a code table that matches a spec table, every spec field is decoded as the
    big-endian value at its spec offset when the version has it, and is absent otherwise. -/
theorem C03_generic (names : List (List Nat)) (types : List Nat) (code : List Fld) (hdr : Nat) (spec : List Spec.SField)
    (hok : tableOK code = true) (hspec : matchesSpec names types code hdr spec = true)
    (v : Ver) (payload : Bytes) (vals : List Nat) (rest : Bytes)
    (h : readRow v code (payload.drop hdr) = some (vals, rest))
    (k : Nat) (hk : k < spec.length) :
    (v.gte (spec[k]).since.1 (spec[k]).since.2 = true →
        vals[k]? = some (fromBE ((payload.drop (spec[k]).off).take (Spec.width (spec[k]).ty)))) ∧
    (v.gte (spec[k]).since.1 (spec[k]).since.2 = false → vals[k]? = none) := by
  simp only [tableOK, Bool.and_eq_true] at hok
  obtain ⟨hmono, hchain⟩ := hok
  simp only [matchesSpec, Bool.and_eq_true, beq_iff_eq] at hspec
  obtain ⟨hlen, hall⟩ := hspec
  have hk' : k < code.length := by omega
  have hrow := (List.all_eq_true.mp hall) k (by simp; omega)
  have hso : k < (staticOffsets code hdr).length := by rw [staticOffsets_length]; exact hk'
  simp only [List.getElem?_eq_getElem hk', List.getElem?_eq_getElem hk, List.getElem?_eq_getElem hso,
    Bool.and_eq_true, beq_iff_eq] at hrow
  obtain ⟨⟨⟨⟨_, _⟩, hw⟩, hoff⟩, hsince⟩ := hrow
  have hvis := visible_iff_since v code[k] ((List.all_eq_true.mp hchain) _ (List.getElem_mem _))
  rw [hsince] at hvis
  constructor
  · intro hg
    have := readRow_field v code hmono _ vals rest h hdr k hk' (by rw [hvis]; exact hg)
    rw [this, List.drop_drop]
    have hge := staticOffsets_ge code hdr k hk'
    have hgd : (staticOffsets code hdr).getD k 0 = (spec[k]).off := by
      rw [List.getD_eq_getElem?_getD, List.getElem?_eq_getElem hso]; simpa using hoff
    rw [hgd] at hge ⊢
    rw [hw]
    congr 4
    omega
  · intro hg
    have hc := readRow_count v code _ vals rest h
    have := count_le_of_invisible v code hmono k hk' (by rw [hvis]; exact hg)
    apply List.getElem?_eq_none; omega

/-- C03 for the five frame events of the code as it is now (tables extracted from the current source). -/
def C03_pre := C03_generic Pre.names Pre.types Pre.readPush Spec.preHdr Spec.pre pre_ok pre_spec
def C03_post := C03_generic Post.names Post.types Post.readPush Spec.postHdr Spec.post post_ok post_spec
def C03_start := C03_generic Start.names Start.types Start.readPush Spec.startHdr Spec.start start_ok start_spec
def C03_item := C03_generic Item.names Item.types Item.readPush Spec.itemHdr Spec.item item_ok item_spec
def C03_end := C03_generic End.names End.types End.readPush Spec.endHdr Spec.fend end_ok end_spec

#print axioms C03_post
end Peppi
