import Peppi.Read
/-! Locality of stream parsers built from exact-length reads: the basis of the truncation theorem (C07). -/
namespace Peppi

/-- `p` consumes a prefix `used` of its input, does not look beyond it, and fails on every proper prefix of it. -/
def Rd.Local {α} (p : Rd α) : Prop :=
  ∀ bs a rest, p bs = .ok (a, rest) →
    ∃ used, bs = used ++ rest ∧
      (∀ ext, p (used ++ ext) = .ok (a, ext)) ∧
      (∀ pre, pre <+: used → pre.length < used.length → ∃ e, p pre = .err e)

theorem Rd.local_pure {α} (a : α) : Rd.Local (pure a : Rd α) := by
  intro bs a' rest h
  simp only [pure] at h
  cases h
  exact ⟨[], rfl, fun ext => rfl, fun pre _ hl => by simp at hl⟩

theorem Rd.local_fail {α} (e : String) : Rd.Local (Rd.fail e : Rd α) := by
  intro bs a rest h; simp [Rd.fail] at h

theorem Rd.local_take (n : Nat) : Rd.Local (Rd.take n) := by
  intro bs a rest h
  simp only [Rd.take] at h
  split at h
  · simp at h
  · rename_i hlen
    simp only [Res.ok.injEq, Prod.mk.injEq] at h
    obtain ⟨rfl, rfl⟩ := h
    refine ⟨bs.take n, (List.take_append_drop n bs).symm, ?_, ?_⟩
    · intro ext
      have hl : (bs.take n).length = n := by simp; omega
      simp only [Rd.take, List.length_append, hl]
      have : ¬ (n + ext.length < n) := by omega
      simp only [this, ↓reduceIte, Res.ok.injEq, Prod.mk.injEq]
      exact ⟨List.take_left' hl, List.drop_left' hl⟩
    · intro pre _ hl
      have hl' : (bs.take n).length = n := by simp; omega
      refine ⟨"eof", ?_⟩
      simp only [Rd.take]
      have : pre.length < n := by omega
      simp [this]

theorem Rd.local_u8 : Rd.Local Rd.u8 := by
  intro bs a rest h
  cases bs with
  | nil => simp [Rd.u8] at h
  | cons b t =>
    simp only [Rd.u8, Res.ok.injEq, Prod.mk.injEq] at h
    obtain ⟨rfl, rfl⟩ := h
    refine ⟨[b], rfl, fun ext => rfl, ?_⟩
    intro pre _ hl
    have : pre = [] := by cases pre with | nil => rfl | cons _ _ => simp at hl
    subst this
    exact ⟨"eof", rfl⟩

theorem prefix_append_cases {α} (pre a b : List α) (h : pre <+: a ++ b) :
    (pre <+: a ∧ pre.length < a.length) ∨ ∃ pre', pre = a ++ pre' ∧ pre' <+: b := by
  obtain ⟨t, ht⟩ := h
  by_cases hl : pre.length < a.length
  · left
    refine ⟨?_, hl⟩
    have h1 := congrArg (List.take pre.length) ht
    rw [List.take_left' rfl, List.take_append_of_le_length (by omega)] at h1
    rw [h1]; exact List.take_prefix _ _
  · right
    refine ⟨pre.drop a.length, ?_, ?_⟩
    · have h1 := congrArg (List.take a.length) ht
      rw [List.take_append_of_le_length (by omega), List.take_left' rfl] at h1
      have h3 : pre = pre.take a.length ++ pre.drop a.length := (List.take_append_drop _ _).symm
      rw [h1] at h3; exact h3
    · have h2 := congrArg (List.drop a.length) ht
      rw [List.drop_append_of_le_length (by omega), List.drop_left' rfl] at h2
      exact ⟨t, h2⟩

theorem Rd.local_bind {α β} (p : Rd α) (q : α → Rd β) (hp : Rd.Local p) (hq : ∀ a, Rd.Local (q a)) :
    Rd.Local (p >>= q) := by
  intro bs b rest h
  simp only [bind] at h
  cases hpb : p bs with
  | err e => simp [hpb] at h
  | panic s => simp [hpb] at h
  | ok ar =>
    obtain ⟨a, r1⟩ := ar
    simp only [hpb] at h
    obtain ⟨u1, hbs, hext1, hpre1⟩ := hp bs a r1 hpb
    obtain ⟨u2, hr1, hext2, hpre2⟩ := hq a r1 b rest h
    refine ⟨u1 ++ u2, by rw [hbs, hr1, List.append_assoc], ?_, ?_⟩
    · intro ext
      simp only [bind, List.append_assoc, hext1 (u2 ++ ext), hext2 ext]
    · intro pre hpfx hl
      rcases prefix_append_cases pre u1 u2 hpfx with ⟨h1, h2⟩ | ⟨pre', rfl, h2⟩
      · obtain ⟨e, he⟩ := hpre1 pre h1 h2
        exact ⟨e, by simp [bind, he]⟩
      · have hl2 : pre'.length < u2.length := by simp at hl; omega
        obtain ⟨e, he⟩ := hpre2 pre' h2 hl2
        exact ⟨e, by simp [bind, hext1 pre', he]⟩

theorem Rd.local_be (n : Nat) : Rd.Local (Rd.be n) := by
  unfold Rd.be
  exact Rd.local_bind _ _ (Rd.local_take n) (fun b => Rd.local_pure _)

theorem Rd.local_lift {α} (r : Res α) : Rd.Local (Rd.lift r) := by
  intro bs a rest h
  cases r with
  | ok x =>
    simp only [Rd.lift, Res.ok.injEq, Prod.mk.injEq] at h
    obtain ⟨rfl, rfl⟩ := h
    exact ⟨[], rfl, fun ext => rfl, fun pre _ hl => by simp at hl⟩
  | err e => simp [Rd.lift] at h
  | panic s => simp [Rd.lift] at h

theorem Rd.local_ite {α} (c : Prop) [Decidable c] (p q : Rd α) (hp : Rd.Local p) (hq : Rd.Local q) :
    Rd.Local (if c then p else q) := by
  split <;> assumption

theorem local_expectBytes (e : Bytes) : Rd.Local (expectBytes e) := by
  unfold expectBytes
  apply Rd.local_bind _ _ (Rd.local_take _)
  intro a
  apply Rd.local_ite
  · exact Rd.local_pure _
  · exact Rd.local_fail _

theorem local_parseHeader : Rd.Local parseHeader := by
  unfold parseHeader
  exact Rd.local_bind _ _ (local_expectBytes _) (fun _ => Rd.local_be 4)

theorem local_parsePayloads : Rd.Local parsePayloads := by
  unfold parsePayloads
  apply Rd.local_bind _ _ Rd.local_u8; intro code
  apply Rd.local_ite; · exact Rd.local_fail _
  apply Rd.local_bind _ _ Rd.local_u8; intro size
  apply Rd.local_ite; · exact Rd.local_fail _
  apply Rd.local_bind _ _ (Rd.local_take _); intro buf
  apply Rd.local_bind _ _ (Rd.local_lift _); intro sizes
  apply Rd.local_ite; · exact Rd.local_fail _
  apply Rd.local_ite; · exact Rd.local_fail _
  exact Rd.local_pure _

theorem local_parseGameStart (T sizes br) : Rd.Local (parseGameStart T sizes br) := by
  unfold parseGameStart
  apply Rd.local_bind _ _ Rd.local_u8; intro code
  split
  · exact Rd.local_fail _
  · apply Rd.local_bind _ _ (Rd.local_take _); intro buf
    apply Rd.local_ite
    · apply Rd.local_bind _ _ (Rd.local_lift _); intro s
      exact Rd.local_pure _
    · exact Rd.local_fail _

#print axioms local_parsePayloads
end Peppi
