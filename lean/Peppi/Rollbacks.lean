/-! Model of `Frame::rollbacks` / `rollbacks_` (src/frame/immutable/mod.rs), after the i64 repair. -/
namespace Peppi

inductive Res (α : Type) where
  | ok (a : α)
  | err (e : String)
  | panic (site : String)
deriving Repr, DecidableEq

def FIRST_INDEX : Int := -123

inductive Rollbacks | exceptFirst | exceptLast
deriving Repr, DecidableEq

/-- `usize::try_from(i64::from(id) - i64::from(FIRST_INDEX)).unwrap()` -/
def zeroBased (id : Int) : Res Nat :=
  if id - FIRST_INDEX < 0 then .panic "rollbacks: try_from" else .ok (id - FIRST_INDEX).toNat

/-- the loop body over `(idx, id)` pairs, with `seen` and `result` as arrays (lists) -/
def rbLoop : List (Nat × Int) → List Bool → List Bool → Res (List Bool)
  | [], _, result => .ok result
  | (idx, id) :: rest, seen, result =>
    match zeroBased id with
    | .ok z =>
      if hz : z < seen.length then
        if idx < result.length then
          if !seen[z] then rbLoop rest (seen.set z true) (result.set idx false)
          else rbLoop rest seen (result.set idx true)
        else .panic "rollbacks: result index"
      else .panic "rollbacks: seen index"
    | .err e => .err e
    | .panic s => .panic s

def maxId : List Int → Option Int
  | [] => none
  | x :: xs => some (xs.foldl max x)

/-- `self.id.values_iter().max().map_or(0, |idx| 1 + usize::try_from(idx - FIRST_INDEX).unwrap())` -/
def uniqueCount (ids : List Int) : Res Nat :=
  match maxId ids with
  | none => .ok 0
  | some m => match zeroBased m with
    | .ok z => .ok (1 + z)
    | .err e => .err e
    | .panic s => .panic s

def rollbacks (keep : Rollbacks) (ids : List Int) : Res (List Bool) :=
  let result := List.replicate ids.length false
  match uniqueCount ids with
  | .ok unique =>
    let seen := List.replicate unique false
    let pairs := (List.range ids.length).zip ids
    match keep with
    | .exceptFirst => rbLoop pairs seen result
    | .exceptLast => rbLoop pairs.reverse seen result
  | .err e => .err e
  | .panic s => .panic s

#eval rollbacks .exceptFirst [350, 351, 351, 352]
#eval rollbacks .exceptLast [350, 351, 351, 352]
#eval rollbacks .exceptLast [-123, -123, 5, -123]
#eval rollbacks .exceptFirst [-124]

end Peppi
