namespace Peppi

abbrev Bytes := List UInt8

def fromBE : Bytes → Nat
  | [] => 0
  | b :: bs => b.toNat * 256 ^ bs.length + fromBE bs

def toBE : Nat → Nat → Bytes
  | 0, _ => []
  | n+1, v => UInt8.ofNat (v / 256 ^ n) :: toBE n (v % 256 ^ n)

theorem toBE_length (n v : Nat) : (toBE n v).length = n := by
  induction n generalizing v with
  | zero => rfl
  | succ n ih => simp [toBE, ih]

theorem fromBE_lt (bs : Bytes) : fromBE bs < 256 ^ bs.length := by
  induction bs with
  | nil => simp [fromBE]
  | cons b bs ih =>
    simp only [fromBE, List.length_cons, Nat.pow_succ]
    have hb : b.toNat < 256 := by have := b.toNat_lt; omega
    have : b.toNat * 256 ^ bs.length ≤ 255 * 256 ^ bs.length := Nat.mul_le_mul_right _ (by omega)
    omega

theorem toBE_fromBE (bs : Bytes) : toBE bs.length (fromBE bs) = bs := by
  induction bs with
  | nil => rfl
  | cons b bs ih =>
    have hlt := fromBE_lt bs
    have hpos : 0 < 256 ^ bs.length := Nat.pow_pos (by omega)
    simp only [List.length_cons, toBE, fromBE]
    have h1 : (b.toNat * 256 ^ bs.length + fromBE bs) / 256 ^ bs.length = b.toNat := by
      rw [Nat.mul_comm, Nat.mul_add_div hpos, Nat.div_eq_of_lt hlt]; simp
    have h2 : (b.toNat * 256 ^ bs.length + fromBE bs) % 256 ^ bs.length = fromBE bs := by
      rw [Nat.mul_comm, Nat.mul_add_mod, Nat.mod_eq_of_lt hlt]
    rw [h1, h2, ih]
    simp

theorem fromBE_toBE (n v : Nat) (h : v < 256 ^ n) : fromBE (toBE n v) = v := by
  induction n generalizing v with
  | zero => simp [toBE, fromBE]; simp at h; omega
  | succ n ih =>
    have hpos : 0 < 256 ^ n := Nat.pow_pos (by omega)
    simp only [toBE, fromBE, toBE_length]
    rw [ih _ (Nat.mod_lt _ hpos)]
    have : v / 256 ^ n < 256 := by
      rw [Nat.div_lt_iff_lt_mul hpos]; rw [Nat.pow_succ] at h; omega
    have h3 : (UInt8.ofNat (v / 256 ^ n)).toNat = v / 256 ^ n := by
      simp [UInt8.toNat_ofNat']; omega
    rw [h3]
    exact Nat.div_add_mod' v (256 ^ n)

end Peppi
