import Peppi.ReadProg
import Peppi.Lemmas.C12
/-! The reader over a source that returns short reads, behind the hashing wrapper: consequences of `Prog.frag` and
    `run_readProg` (C11: the hash covers exactly the bytes consumed however they arrive; C12: the incremental API and the
    one-shot reader do not depend on the fragmentation). -/
namespace Peppi
open Extracted Prog

/-- `io::slippi::read(r, opts)` for a source `r` that delivers the pieces `s`: the program of exact reads run behind the
    hashing wrapper (hasher present iff `compute_hash`); the reported hash covers the bytes fed to the hasher -/
def readSlpS (T : TextOracle) (opts : Opts) (s : Stream) : Res (Game × Option Bytes) :=
  match (readProg T opts (2 * s.flatten.length + 2)).runS ⟨s, if opts.computeHash then some [] else none⟩ with
  | .ok (g, h) => .ok ({ g with hashedLen := h.fed.map (·.length) }, h.fed)
  | .err e => .err e
  | .panic p => .panic p

/-- **C11 / C12, fragmentation independence of the one-shot reader.**  For every way `s` of cutting the input into the
    pieces successive `read` calls return: the reader yields the game it yields on the whole byte string (same `hashedLen`),
    and the bytes fed to the hasher are exactly the prefix of the input that was consumed — the whole file for a well-formed
    one (`C11_range_any`).  A rejected input is rejected under every fragmentation; no fragmentation makes the reader panic. -/
theorem readSlpS_frag (T : TextOracle) (opts : Opts) (s : Stream) :
    (∀ g, readSlp T opts s.flatten = .ok g →
      ∃ fed, readSlpS T opts s = .ok (g, fed) ∧
        (opts.computeHash = true → ∃ used rest, fed = some used ∧ s.flatten = used ++ rest ∧ g.hashedLen = some used.length) ∧
        (opts.computeHash = false → fed = none ∧ g.hashedLen = none)) ∧
    (∀ e, readSlp T opts s.flatten = .err e → ∃ e', readSlpS T opts s = .err e') ∧
    (∀ p, readSlp T opts s.flatten = .panic p → readSlpS T opts s = .panic p) := by
  have hrun := run_readProg T opts (2 * s.flatten.length + 2) s.flatten (Nat.le_refl _)
  obtain ⟨f1, f2, f3⟩ := frag (readProg T opts (2 * s.flatten.length + 2)) ⟨s, if opts.computeHash then some [] else none⟩
  simp only [hrun] at f1 f2 f3
  refine ⟨?_, ?_, ?_⟩
  · intro g hg
    unfold readSlp at hg
    cases hp : readP T opts s.flatten with
    | err e => rw [hp] at hg; cases hg
    | panic e => rw [hp] at hg; cases hg
    | ok x =>
      obtain ⟨g0, rest⟩ := x
      rw [hp] at hg
      simp only [Res.ok.injEq] at hg
      obtain ⟨s', used, hS, hfl, hsplit⟩ := f1 g0 rest hp
      have hlen : s.flatten.length - rest.length = used.length := by rw [hsplit]; simp
      unfold readSlpS
      rw [hS]
      cases hh : opts.computeHash with
      | true =>
        simp only [hh, ↓reduceIte, Option.map_some, List.nil_append] at hg ⊢
        refine ⟨some used, ?_, fun _ => ⟨used, rest, rfl, hsplit, ?_⟩, fun h => (by cases h)⟩
        · rw [← hg, hlen]
        · rw [← hg, hlen]
      | false =>
        simp only [hh, Bool.false_eq_true, ↓reduceIte, Option.map_none] at hg ⊢
        refine ⟨none, ?_, fun h => (by cases h), fun _ => ⟨rfl, ?_⟩⟩
        · rw [← hg]
        · rw [← hg]
  · intro e he
    unfold readSlp at he
    cases hp : readP T opts s.flatten with
    | ok x => obtain ⟨g0, rest⟩ := x; rw [hp] at he; cases he
    | panic x => rw [hp] at he; cases he
    | err e0 =>
      obtain ⟨e', he'⟩ := f2 e0 hp
      exact ⟨e', by unfold readSlpS; rw [he']⟩
  · intro p hpn
    unfold readSlp at hpn
    cases hp : readP T opts s.flatten with
    | ok x => obtain ⟨g0, rest⟩ := x; rw [hp] at hpn; cases hpn
    | err x => rw [hp] at hpn; cases hpn
    | panic p0 =>
      rw [hp] at hpn
      simp only [Res.panic.injEq] at hpn
      subst hpn
      unfold readSlpS; rw [f3 p0 hp]

/-- **C12, one incremental step**: `parse_event` over a fragmenting source consumes the same bytes, returns the same event
    code and leaves the same state as over the flat bytes -/
theorem parseEventS_frag (ps : ParseState) (h : HSrc) (code : Nat) (ps' : ParseState) (rest : Bytes)
    (hp : parseEvent ps h.pieces.flatten = .ok ((code, ps'), rest)) :
    ∃ s' used, (parseEventP ps).runS h = .ok ((code, ps'), ⟨s', h.fed.map (· ++ used)⟩) ∧ s'.flatten = rest ∧
      h.pieces.flatten = used ++ rest ∧ ps'.bytesRead = ps.bytesRead + used.length := by
  obtain ⟨f1, _, _⟩ := frag (parseEventP ps) h
  rw [run_parseEventP] at f1
  obtain ⟨s', used, hS, hfl, hsplit⟩ := f1 (code, ps') rest hp
  refine ⟨s', used, hS, hfl, hsplit, ?_⟩
  have hc := parseEvent_count ps h.pieces.flatten code ps' rest hp
  rw [hsplit] at hc
  simp only [List.length_append] at hc
  omega

/-- the header and start steps of the incremental API, likewise -/
theorem parseHeaderS_frag (h : HSrc) (rawLen : Nat) (rest : Bytes) (hp : parseHeader h.pieces.flatten = .ok (rawLen, rest)) :
    ∃ s' used, parseHeaderP.runS h = .ok (rawLen, ⟨s', h.fed.map (· ++ used)⟩) ∧ s'.flatten = rest ∧ h.pieces.flatten = used ++ rest := by
  obtain ⟨f1, _, _⟩ := frag parseHeaderP h
  rw [run_parseHeaderP] at f1
  exact f1 rawLen rest hp

theorem parseStartS_frag (T : TextOracle) (h : HSrc) (ps : ParseState) (rest : Bytes) (hp : parseStart T h.pieces.flatten = .ok (ps, rest)) :
    ∃ s' used, (parseStartP T).runS h = .ok (ps, ⟨s', h.fed.map (· ++ used)⟩) ∧ s'.flatten = rest ∧ h.pieces.flatten = used ++ rest := by
  obtain ⟨f1, _, _⟩ := frag (parseStartP T) h
  rw [run_parseStartP] at f1
  exact f1 ps rest hp

#print axioms readSlpS_frag
#print axioms parseEventS_frag
end Peppi
