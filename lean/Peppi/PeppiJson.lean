import Peppi.JsonText
import Peppi.SlppBytes
/-! The JSON text of `peppi.json` (`serde_json::to_vec(&Peppi { version, slp_hash, quirks })` with the two optional fields
    skipped when `None`), and the reader side that text exercises.  With it the `peppi_rt` law of the `.slpp` round trip is a
    theorem about a text model that is compared with `serde_json` on every run (driver op `peppij`). -/
namespace Peppi

def J_HEAD : Bytes := [0x7b, 0x22, 0x76, 0x65, 0x72, 0x73, 0x69, 0x6f, 0x6e, 0x22, 0x3a, 0x5b]      -- {"version":[
def J_HASH : Bytes := [0x2c, 0x22, 0x73, 0x6c, 0x70, 0x5f, 0x68, 0x61, 0x73, 0x68, 0x22, 0x3a, 0x22]      -- ,"slp_hash":"
def J_QUIRKS : Bytes := [0x2c, 0x22, 0x71, 0x75, 0x69, 0x72, 0x6b, 0x73, 0x22, 0x3a, 0x7b, 0x22, 0x64, 0x6f, 0x75, 0x62, 0x6c, 0x65, 0x5f, 0x67, 0x61, 0x6d, 0x65, 0x5f, 0x65, 0x6e, 0x64, 0x22, 0x3a]    -- ,"quirks":{"double_game_end":
def J_TRUE : Bytes := [0x74, 0x72, 0x75, 0x65]
def J_FALSE : Bytes := [0x66, 0x61, 0x6c, 0x73, 0x65]

def strBytes (s : String) : Bytes := s.toByteArray.data.toList

def hashJ : Option String → Bytes
  | none => []
  | some s => J_HASH ++ (escStr (strBytes s) ++ [0x22])
def quirksJ : Option Bool → Bytes
  | none => []
  | some b => J_QUIRKS ++ ((if b then J_TRUE else J_FALSE) ++ [0x7d])

/-- `serde_json::to_vec(&Peppi { version: Version(a, b, c), slp_hash, quirks })` -/
def encPeppiV (a b c : Nat) (h : Option String) (q : Option Bool) : Bytes :=
  J_HEAD ++ (natDec a ++ (0x2c :: (natDec b ++ (0x2c :: (natDec c ++ (0x5d :: (hashJ h ++ (quirksJ q ++ [0x7d]))))))))

/-- what `write` puts into `peppi.json`: the current format version 2.0.0 -/
def encPeppiJ (h : Option String) (q : Option Bool) : Bytes := encPeppiV 2 0 0 h q

def stripPrefix (p bs : Bytes) : Option Bytes := if p.isPrefixOf bs then some (bs.drop p.length) else none

theorem stripPrefix_append (p r : Bytes) : stripPrefix p (p ++ r) = some r := by
  simp [stripPrefix, List.isPrefixOf_iff_prefix]

def num (bs : Bytes) : Option (Nat × Bytes) :=
  match bs with
  | b :: _ => if isDecDigit b then some (parseNatAcc 0 bs) else none
  | [] => none

theorem num_natDec (n : Nat) (rest : Bytes) (hr : NoDigitHead rest) : num (natDec n ++ rest) = some (n, rest) := by
  obtain ⟨b, t, hbt, hd⟩ := natDec_head n
  have := parseNatAcc_natDec n 0 rest hr
  simp only [Nat.zero_mul, Nat.zero_add] at this
  rw [← this]
  rw [hbt] at this ⊢
  simp [num, hd]

/-- the optional `slp_hash` field -/
def decHash (r : Bytes) : Option (Option String × Bytes) :=
  match stripPrefix J_HASH r with
  | none => some (none, r)
  | some r' =>
    match unescStr (r'.length + 1) r' with
    | none => none
    | some (s, r'') =>
      match String.fromUTF8? (ByteArray.mk s.toArray) with
      | some str => some (some str, r'')
      | none => none

/-- the optional `quirks` field -/
def decQuirks (r : Bytes) : Option (Option Bool × Bytes) :=
  match stripPrefix J_QUIRKS r with
  | none => some (none, r)
  | some r' =>
    match stripPrefix J_TRUE r' with
    | some (0x7d :: r'') => some (some true, r'')
    | _ => match stripPrefix J_FALSE r' with
      | some (0x7d :: r'') => some (some false, r'')
      | _ => none

/-- `serde_json::from_reader::<Peppi>` on the texts the writer emits, then `assert_current_version` -/
def decPeppiJ (bs : Bytes) : Res PeppiMeta :=
  match stripPrefix J_HEAD bs with
  | none => .err "json"
  | some r =>
    match num r with
    | some (a, 0x2c :: r) =>
      (match num r with
       | some (b, 0x2c :: r) =>
         (match num r with
          | some (c, 0x5d :: r) =>
            if 255 < a ∨ 255 < b ∨ 255 < c then .err "json" else
            (match decHash r with
             | none => .err "json"
             | some (h, r) =>
               match decQuirks r with
               | some (q, [0x7d]) => .ok ⟨decide (2 ≤ a), h, q⟩
               | _ => .err "json")
          | _ => .err "json")
       | _ => .err "json")
    | _ => .err "json"

theorem fromUTF8_strBytes (s : String) : String.fromUTF8? (ByteArray.mk (strBytes s).toArray) = some s := by
  have : ByteArray.mk (strBytes s).toArray = s.toByteArray := by simp [strBytes]
  rw [this, String.fromUTF8?, dif_pos s.isValidUTF8]
  rfl

theorem decHash_enc (h : Option String) (q : Option Bool) (rest : Bytes) :
    decHash (hashJ h ++ (quirksJ q ++ 0x7d :: rest)) = some (h, quirksJ q ++ 0x7d :: rest) := by
  cases h with
  | none =>
    cases q with
    | none => simp [decHash, hashJ, quirksJ, stripPrefix, J_HASH, List.isPrefixOf]
    | some b => simp [decHash, hashJ, quirksJ, stripPrefix, J_HASH, J_QUIRKS, List.isPrefixOf]
  | some s =>
    simp only [hashJ, List.append_assoc, decHash, stripPrefix_append]
    have := unescStr_esc (strBytes s) (quirksJ q ++ 0x7d :: rest) ((escStr (strBytes s) ++ ([0x22] ++ (quirksJ q ++ 0x7d :: rest))).length + 1)
      (by have := escStr_length_ge (strBytes s); simp only [List.length_append]; omega)
    simp only [List.cons_append, List.nil_append] at this ⊢
    rw [this]
    simp only [fromUTF8_strBytes]

theorem decQuirks_enc (q : Option Bool) (rest : Bytes) : decQuirks (quirksJ q ++ 0x7d :: rest) = some (q, 0x7d :: rest) := by
  cases q with
  | none => simp [decQuirks, quirksJ, stripPrefix, J_QUIRKS, List.isPrefixOf]
  | some b =>
    simp only [quirksJ, List.append_assoc, decQuirks, stripPrefix_append]
    cases b with
    | true => simp [stripPrefix_append]
    | false => simp [stripPrefix, J_TRUE, J_FALSE, List.isPrefixOf]

theorem noDigit_cons (b : UInt8) (t : Bytes) (h : isDecDigit b = false) : NoDigitHead (b :: t) := by
  intro x hx; simp at hx; rw [← hx]; exact h

/-- **`peppi.json` round trip**: the text written for version `a.b.c`, hash `h` and quirks `q` reads back as those values;
    the version verdict is `2 ≤ a` -/
theorem decPeppiJ_encV (a b c : Nat) (ha : a ≤ 255) (hb : b ≤ 255) (hc : c ≤ 255) (h : Option String) (q : Option Bool) :
    decPeppiJ (encPeppiV a b c h q) = .ok ⟨decide (2 ≤ a), h, q⟩ := by
  have hcomma : isDecDigit 0x2c = false := by decide
  have hbr : isDecDigit 0x5d = false := by decide
  simp only [decPeppiJ, encPeppiV, stripPrefix_append, num_natDec _ _ (noDigit_cons _ _ hcomma), num_natDec _ _ (noDigit_cons _ _ hbr)]
  have hn : ¬ (255 < a ∨ 255 < b ∨ 255 < c) := by omega
  simp only [hn, ↓reduceIte, decHash_enc h q [], decQuirks_enc q []]

theorem decPeppiJ_enc (h : Option String) (q : Option Bool) : decPeppiJ (encPeppiJ h q) = .ok ⟨true, h, q⟩ := by
  have := decPeppiJ_encV 2 0 0 (by omega) (by omega) (by omega) h q
  simpa [encPeppiJ] using this

theorem decPeppiJ_noPanic (b : Bytes) (s : String) : decPeppiJ b ≠ .panic s := by
  unfold decPeppiJ
  repeat' split
  all_goals simp

/-- any codec with its `peppi.json` and `metadata.json` parts replaced by the JSON text models: two of the three round-trip
    laws are then theorems -/
def Codec.withJson {φ : Type} (C : Codec KVs φ) : Codec KVs φ :=
  { C.withJsonMeta with encPeppi := encPeppiJ, decPeppi := decPeppiJ, peppi_rt := decPeppiJ_enc }

#print axioms decPeppiJ_encV
#print axioms decPeppiJ_enc
end Peppi
