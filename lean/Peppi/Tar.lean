import Peppi.Res
/-! The tar framing of `.slpp` (what `tar_append` in `io/peppi/ser.rs` produces through `tar::Header::new_gnu`,
    `set_size`, `set_path`, `set_mode(0o644)`, `set_cksum`, `Builder::append`, and `Builder::into_inner`): a 512-byte GNU header
    per entry, the contents padded with zeros to a multiple of 512, two zero blocks at the end.  And the part of a tar reader
    that a well-formed archive exercises (header checksum, NUL-terminated name, octal size, padding, end-of-archive marker).

    Proved: the archive starts with the name of its first entry (C18: the documented file signature `peppi.json` is at
    offset 0); reading the archive back yields exactly the entry list (names, contents, order), for every entry list with
    names of 1..100 non-NUL bytes and contents below 8 GiB.  The byte-level model is compared with the `tar` crate on every
    run (driver ops `tarw` / `tarr`). -/
namespace Peppi

def zeros (n : Nat) : Bytes := List.replicate n 0

/-- `n` as exactly `k` octal ASCII digits, most significant first -/
def octal : Nat → Nat → Bytes
  | 0, _ => []
  | k+1, n => octal k (n / 8) ++ [UInt8.ofNat (48 + n % 8)]

theorem octal_length (k n : Nat) : (octal k n).length = k := by
  induction k generalizing n with
  | zero => rfl
  | succ k ih => simp [octal, ih]

/-- value of a run of octal ASCII digits (`none` on any other byte) -/
def parseOctal (bs : Bytes) : Option Nat :=
  bs.foldl (fun acc b => match acc with
    | none => none
    | some a => if 48 ≤ b.toNat ∧ b.toNat ≤ 55 then some (a * 8 + (b.toNat - 48)) else none) (some 0)

theorem parseOctal_aux (k n a : Nat) (h : n < 8 ^ k) :
    (octal k n).foldl (fun acc b => match acc with
      | none => none
      | some a => if 48 ≤ b.toNat ∧ b.toNat ≤ 55 then some (a * 8 + (b.toNat - 48)) else none) (some a) = some (a * 8 ^ k + n) := by
  induction k generalizing n a with
  | zero => simp at h; subst h; simp [octal]
  | succ k ih =>
    have hq : n / 8 < 8 ^ k := by
      rw [Nat.div_lt_iff_lt_mul (by decide)]; rw [Nat.pow_succ] at h; exact h
    simp only [octal, List.foldl_append, List.foldl_cons, List.foldl_nil, ih (n / 8) a hq]
    have hd : (UInt8.ofNat (48 + n % 8)).toNat = 48 + n % 8 := by
      simp [UInt8.toNat_ofNat']; omega
    have hr : 48 ≤ 48 + n % 8 ∧ 48 + n % 8 ≤ 55 := by omega
    simp only [hd, hr, and_self, ↓reduceIte, Option.some.injEq]
    rw [Nat.pow_succ]
    have : 48 + n % 8 - 48 = n % 8 := by omega
    rw [this, Nat.add_mul, Nat.mul_assoc]
    omega

theorem parseOctal_octal (k n : Nat) (h : n < 8 ^ k) : parseOctal (octal k n) = some n := by
  have := parseOctal_aux k n 0 h
  simpa [parseOctal] using this

def bsum (bs : Bytes) : Nat := (bs.map (·.toNat)).sum

/-- the header up to the checksum field: name (100), mode `0000644\0`, uid and gid (zero bytes), size (11 octal digits, NUL),
    mtime 0 (11 octal digits, NUL) -/
def hdrA (name : Bytes) : Bytes := name ++ (zeros (100 - name.length) ++ ((octal 7 0o644 ++ [0]) ++ zeros 16))

def hdrPre (name : Bytes) (size : Nat) : Bytes :=
  hdrA name ++ ((octal 11 size ++ [0]) ++ (octal 11 0 ++ [0]))

theorem hdrA_length (name : Bytes) (hn : name.length ≤ 100) : (hdrA name).length = 124 := by
  simp only [hdrA, zeros, List.length_append, List.length_replicate, octal_length, List.length_cons, List.length_nil]; omega

/-- the header after the checksum field: type flag 0 (regular file), link name, GNU magic `ustar ` and version ` \0`, zeros -/
def hdrPost : Bytes := [0] ++ zeros 100 ++ [0x75, 0x73, 0x74, 0x61, 0x72, 0x20] ++ [0x20, 0] ++ zeros 247

theorem hdrPre_length (name : Bytes) (size : Nat) (hn : name.length ≤ 100) : (hdrPre name size).length = 148 := by
  simp only [hdrPre, List.length_append, hdrA_length name hn, octal_length, List.length_cons, List.length_nil]

theorem hdrPost_length : hdrPost.length = 356 := by
  simp only [hdrPost, zeros, List.length_append, List.length_replicate, List.length_cons, List.length_nil]

theorem takeWhile_stop {α} (p : α → Bool) (l r : List α) (hl : ∀ b ∈ l, p b = true) (hr : r.head?.map p ≠ some true) :
    (l ++ r).takeWhile p = l := by
  induction l with
  | nil =>
    cases r with
    | nil => rfl
    | cons x t =>
      simp only [List.head?_cons, Option.map_some, ne_eq, Option.some.injEq] at hr
      simp [List.takeWhile_cons, hr]
  | cons a t ih =>
    simp only [List.cons_append, List.takeWhile_cons, hl a (by simp), ↓reduceIte]
    rw [ih (fun b hb => hl b (by simp [hb]))]

/-- checksum: the sum of all header bytes with the checksum field read as eight spaces -/
def hdrCksum (name : Bytes) (size : Nat) : Nat := bsum (hdrPre name size) + 256 + bsum hdrPost

def tarHeader (name : Bytes) (size : Nat) : Bytes :=
  hdrPre name size ++ (octal 7 (hdrCksum name size) ++ [0]) ++ hdrPost

theorem tarHeader_length (name : Bytes) (size : Nat) (hn : name.length ≤ 100) : (tarHeader name size).length = 512 := by
  simp [tarHeader, hdrPre_length name size hn, hdrPost_length, octal_length]

def padLen (n : Nat) : Nat := (512 - n % 512) % 512

/-- one archive member -/
def tarEntry (e : Bytes × Bytes) : Bytes := tarHeader e.1 e.2.length ++ e.2 ++ zeros (padLen e.2.length)

/-- `tar::Builder` output for a list of (name, contents) -/
def tarArchive (es : List (Bytes × Bytes)) : Bytes := es.flatMap tarEntry ++ zeros 1024

/-- **C18, signature**: the archive starts with the name of its first entry -/
theorem tarArchive_starts (name data : Bytes) (es : List (Bytes × Bytes)) :
    (tarArchive ((name, data) :: es)).take name.length = name := by
  simp only [tarArchive, List.flatMap_cons, tarEntry, tarHeader, hdrPre, hdrA, List.append_assoc]
  exact List.take_left' rfl

/-! ### reading back -/

structure EntryOK (e : Bytes × Bytes) : Prop where
  nameLen : 0 < e.1.length ∧ e.1.length ≤ 100
  noNul : ∀ b ∈ e.1, b ≠ 0
  size : e.2.length < 8 ^ 11

/-- the members of an archive, up to the end-of-archive marker (a zero block), and whether the marker is complete (a second
    zero block follows: what `io/peppi/de.rs` checks before it believes an archive without `frames.arrow`) -/
def tarRead : Nat → Bytes → Res (List (Bytes × Bytes) × Bool)
  | 0, _ => .err "fuel"
  | fuel+1, bs =>
    if bs.length < 512 then .err "truncated header" else
    let h := bs.take 512
    if h.all (· == 0) then .ok ([], decide (1024 ≤ bs.length) && ((bs.drop 512).take 512).all (· == 0)) else
    let pre := h.take 148
    let ck := (h.drop 148).take 7
    let post := h.drop 156
    if parseOctal ck ≠ some (bsum pre + 256 + bsum post) then .err "archive header checksum mismatch" else
    let name := (h.take 100).takeWhile (· != 0)
    match parseOctal ((h.drop 124).take 11) with
    | none => .err "size field"
    | some size =>
      let body := bs.drop 512
      if body.length < size + padLen size then .err "truncated entry" else
      match tarRead fuel (body.drop (size + padLen size)) with
      | .ok (es, t) => .ok ((name, body.take size) :: es, t)
      | .err e => .err e
      | .panic p => .panic p

theorem zeros_all (n : Nat) : (zeros n).all (· == 0) = true := by
  simp [zeros]

theorem bsum_le (bs : Bytes) : bsum bs ≤ 255 * bs.length := by
  induction bs with
  | nil => simp [bsum]
  | cons b t ih =>
    simp only [bsum, List.map_cons, List.sum_cons, List.length_cons] at ih ⊢
    have := b.toNat_lt
    omega

theorem hdrCksum_lt (name : Bytes) (size : Nat) (hn : name.length ≤ 100) : hdrCksum name size < 8 ^ 7 := by
  have h1 := bsum_le (hdrPre name size)
  have h2 := bsum_le hdrPost
  rw [hdrPre_length name size hn] at h1
  rw [hdrPost_length] at h2
  simp only [hdrCksum]
  omega

/-- reading one member off the front of a byte string -/
theorem tarRead_entry (fuel : Nat) (e : Bytes × Bytes) (he : EntryOK e) (rest : Bytes) :
    tarRead (fuel + 1) (tarEntry e ++ rest) =
      match tarRead fuel rest with
      | .ok (es, t) => .ok (e :: es, t)
      | .err x => .err x
      | .panic p => .panic p := by
  obtain ⟨name, data⟩ := e
  obtain ⟨⟨hn0, hn⟩, hnul, hsz⟩ := he
  simp only at hn0 hn hnul hsz
  have hl := tarHeader_length name data.length hn
  have hpl := hdrPre_length name data.length hn
  rw [tarRead]
  have hlen : ¬ (tarEntry (name, data) ++ rest).length < 512 := by
    simp only [tarEntry, List.length_append, hl]; omega
  have htake : (tarEntry (name, data) ++ rest).take 512 = tarHeader name data.length := by
    simp only [tarEntry, List.append_assoc]; exact List.take_left' hl
  have hdrop : (tarEntry (name, data) ++ rest).drop 512 = data ++ (zeros (padLen data.length) ++ rest) := by
    simp only [tarEntry, List.append_assoc]; exact List.drop_left' hl
  simp only [hlen, ↓reduceIte, htake, hdrop]
  -- the header is not a zero block: its first byte is the first byte of the name
  have hnz : (tarHeader name data.length).all (· == 0) = false := by
    match name, hn0, hnul with
    | b :: t, _, hnul =>
      have : b ≠ 0 := hnul b (by simp)
      simp [tarHeader, hdrPre, hdrA, this]
  simp only [hnz, Bool.false_eq_true, ↓reduceIte]
  have hpre : (tarHeader name data.length).take 148 = hdrPre name data.length := by
    simp only [tarHeader, List.append_assoc]; exact List.take_left' hpl
  have hck : ((tarHeader name data.length).drop 148).take 7 = octal 7 (hdrCksum name data.length) := by
    simp only [tarHeader, List.append_assoc]
    rw [List.drop_left' hpl]
    exact List.take_left' (octal_length _ _)
  have hpost : (tarHeader name data.length).drop 156 = hdrPost := by
    have : (hdrPre name data.length ++ (octal 7 (hdrCksum name data.length) ++ [0])).length = 156 := by
      simp [hpl, octal_length]
    simp only [tarHeader]
    exact List.drop_left' this
  rw [hpre, hck, hpost, parseOctal_octal 7 _ (hdrCksum_lt name data.length hn)]
  simp only [hdrCksum, ne_eq, not_true_eq_false, ↓reduceIte]
  have hname : ((tarHeader name data.length).take 100).takeWhile (· != 0) = name := by
    have h100 : (tarHeader name data.length).take 100 = name ++ zeros (100 - name.length) := by
      simp only [tarHeader, hdrPre, hdrA, List.append_assoc]
      rw [← List.append_assoc name]
      exact List.take_left' (by simp [zeros]; omega)
    rw [h100]
    apply takeWhile_stop
    · intro b hb; simpa using hnul b hb
    · cases hz : 100 - name.length with
      | zero => simp [zeros]
      | succ m => simp [zeros, List.replicate_succ]
  have hsize : ((tarHeader name data.length).drop 124).take 11 = octal 11 data.length := by
    simp only [tarHeader, hdrPre, List.append_assoc]
    rw [List.drop_left' (hdrA_length name hn)]
    exact List.take_left' (octal_length _ _)
  rw [hname, hsize, parseOctal_octal 11 _ hsz]
  simp only []
  have hbl : ¬ (data ++ (zeros (padLen data.length) ++ rest)).length < data.length + padLen data.length := by
    simp [zeros]
  simp only [hbl, ↓reduceIte]
  have hd1 : (data ++ (zeros (padLen data.length) ++ rest)).drop (data.length + padLen data.length) = rest := by
    rw [← List.append_assoc]
    exact List.drop_left' (by simp [zeros])
  have hd2 : (data ++ (zeros (padLen data.length) ++ rest)).take data.length = data := List.take_left' rfl
  rw [hd1, hd2]

/-- **C18, tar round trip**: reading the archive the writer produced for an entry list returns that entry list — same names,
    same contents, same order -/
theorem tarRead_archive (es : List (Bytes × Bytes)) (hes : ∀ e ∈ es, EntryOK e) (fuel : Nat) (hf : es.length < fuel) :
    tarRead fuel (tarArchive es) = .ok (es, true) := by
  induction es generalizing fuel with
  | nil =>
    cases fuel with
    | zero => omega
    | succ f =>
      rw [tarRead]
      have h0 : tarArchive [] = zeros 1024 := rfl
      have h1 : (tarArchive []).take 512 = zeros 512 := by rw [h0]; simp only [zeros, List.take_replicate]; rfl
      have h2 : ¬ (tarArchive []).length < 512 := by rw [h0]; simp only [zeros, List.length_replicate]; omega
      have h3 : ((tarArchive []).drop 512).take 512 = zeros 512 := by rw [h0]; simp only [zeros, List.drop_replicate, List.take_replicate]; rfl
      have h4 : 1024 ≤ (tarArchive []).length := by rw [h0]; simp only [zeros, List.length_replicate]; omega
      simp only [h2, ↓reduceIte, h1, zeros_all, h3, h4, decide_true, Bool.and_self]
  | cons e t ih =>
    cases fuel with
    | zero => simp at hf
    | succ f =>
      have : tarArchive (e :: t) = tarEntry e ++ tarArchive t := by simp [tarArchive, List.flatMap_cons]
      rw [this, tarRead_entry f e (hes e (by simp)) (tarArchive t), ih (fun e' he' => hes e' (by simp [he'])) f (by simp at hf; omega)]

/-- every member starts on a 512-byte boundary -/
theorem tarEntry_length (e : Bytes × Bytes) (hn : e.1.length ≤ 100) : (tarEntry e).length % 512 = 0 := by
  simp only [tarEntry, List.length_append, tarHeader_length e.1 e.2.length hn, zeros, List.length_replicate, padLen]
  omega

/-- every member takes at least its header block -/
theorem tarArchive_length_ge (es : List (Bytes × Bytes)) (hn : ∀ e ∈ es, e.1.length ≤ 100) :
    512 * es.length + 1024 ≤ (tarArchive es).length := by
  induction es with
  | nil => show _ ≤ (zeros 1024).length; simp only [zeros, List.length_replicate, List.length_nil]; omega
  | cons e t ih =>
    have h1 : tarArchive (e :: t) = tarEntry e ++ tarArchive t := by
      simp only [tarArchive, List.flatMap_cons, List.append_assoc]
    have h2 : 512 ≤ (tarEntry e).length := by
      simp only [tarEntry, List.length_append, tarHeader_length e.1 e.2.length (hn e (by simp))]; omega
    have := ih (fun e' he' => hn e' (by simp [he']))
    rw [h1, List.length_append, List.length_cons]
    omega

#print axioms tarArchive_starts
#print axioms tarRead_archive
end Peppi
