/- Property C03 — Every decoded frame field equals the bytes at its spec offset for the version

   Statements of the machine-checked theorems this property's check relies on.  Each statement is
   spelled out here and proved from the lemma of the same name under `Peppi/` (generated once by
   `bin/mkprops.py`, then kept as source).  What is proved and what is partial: DESIGN.md §4. -/
import Peppi.C03
import Peppi.Premises
import Peppi.PremisesCore
import Peppi.PremisesSchema
import Peppi.Lemmas.Wrapped
set_option linter.unusedVariables false
namespace Peppi.Props.C03

/- from `Peppi.C03` -/
open Extracted in
theorem C03_generic (names : List (List Nat)) (types : List Nat) (code : List Fld) (hdr : Nat) (spec : List Spec.SField)
    (hok : tableOK code = true) (hspec : matchesSpec names types code hdr spec = true)
    (v : Ver) (payload : Bytes) (vals : List Nat) (rest : Bytes)
    (h : readRow v code (payload.drop hdr) = some (vals, rest))
    (k : Nat) (hk : k < spec.length) :
    (v.gte (spec[k]).since.1 (spec[k]).since.2 = true →
        vals[k]? = some (fromBE ((payload.drop (spec[k]).off).take (Spec.width (spec[k]).ty)))) ∧
    (v.gte (spec[k]).since.1 (spec[k]).since.2 = false → vals[k]? = none) :=
  _root_.Peppi.C03_generic names types code hdr spec hok hspec v payload vals rest h k hk

/- from `Peppi.Premises` -/
open Extracted in
theorem pre_spec : matchesSpec Pre.names Pre.types Pre.readPush Spec.preHdr Spec.pre = true :=
  _root_.Peppi.pre_spec 

/- from `Peppi.Premises` -/
open Extracted in
theorem post_spec : matchesSpec Post.names Post.types Post.readPush Spec.postHdr Spec.post = true :=
  _root_.Peppi.post_spec 

/- from `Peppi.Premises` -/
open Extracted in
theorem start_spec : matchesSpec Start.names Start.types Start.readPush Spec.startHdr Spec.start = true :=
  _root_.Peppi.start_spec 

/- from `Peppi.Premises` -/
open Extracted in
theorem item_spec : matchesSpec Item.names Item.types Item.readPush Spec.itemHdr Spec.item = true :=
  _root_.Peppi.item_spec 

/- from `Peppi.Premises` -/
open Extracted in
theorem end_spec : matchesSpec End.names End.types End.readPush Spec.endHdr Spec.fend = true :=
  _root_.Peppi.end_spec 

/- from `Peppi.Premises` -/
open Extracted in
theorem pre_ok : tableOK Pre.readPush = true :=
  _root_.Peppi.pre_ok 

/- from `Peppi.Premises` -/
open Extracted in
theorem post_ok : tableOK Post.readPush = true :=
  _root_.Peppi.post_ok 

/- from `Peppi.Premises` -/
open Extracted in
theorem start_ok : tableOK Start.readPush = true :=
  _root_.Peppi.start_ok 

/- from `Peppi.Premises` -/
open Extracted in
theorem item_ok : tableOK Item.readPush = true :=
  _root_.Peppi.item_ok 

/- from `Peppi.Premises` -/
open Extracted in
theorem end_ok : tableOK End.readPush = true :=
  _root_.Peppi.end_ok 

/- from `Peppi.PremisesCore` -/
open Extracted in
theorem core_End : structCoreOK true true End.views = true :=
  _root_.Peppi.core_End 

/- from `Peppi.PremisesCore` -/
open Extracted in
theorem core_Item : structCoreOK false true Item.views = true :=
  _root_.Peppi.core_Item 

/- from `Peppi.PremisesCore` -/
open Extracted in
theorem core_ItemMisc : structCoreOK false false ItemMisc.views = true :=
  _root_.Peppi.core_ItemMisc 

/- from `Peppi.PremisesCore` -/
open Extracted in
theorem core_Position : structCoreOK false true Position.views = true :=
  _root_.Peppi.core_Position 

/- from `Peppi.PremisesCore` -/
open Extracted in
theorem core_Post : structCoreOK false true Post.views = true :=
  _root_.Peppi.core_Post 

/- from `Peppi.PremisesCore` -/
open Extracted in
theorem core_Pre : structCoreOK false true Pre.views = true :=
  _root_.Peppi.core_Pre 

/- from `Peppi.PremisesCore` -/
open Extracted in
theorem core_Start : structCoreOK false true Start.views = true :=
  _root_.Peppi.core_Start 

/- from `Peppi.PremisesCore` -/
open Extracted in
theorem core_StateFlags : structCoreOK false false StateFlags.views = true :=
  _root_.Peppi.core_StateFlags 

/- from `Peppi.PremisesCore` -/
open Extracted in
theorem core_TriggersPhysical : structCoreOK false true TriggersPhysical.views = true :=
  _root_.Peppi.core_TriggersPhysical 

/- from `Peppi.PremisesCore` -/
open Extracted in
theorem core_Velocities : structCoreOK false true Velocities.views = true :=
  _root_.Peppi.core_Velocities 

/- from `Peppi.PremisesCore` -/
open Extracted in
theorem core_Velocity : structCoreOK false true Velocity.views = true :=
  _root_.Peppi.core_Velocity 

/- from `Peppi.PremisesSchema` -/
open Extracted in
theorem schema_End : schemaMatchesJson End.views End.framesJson = true :=
  _root_.Peppi.schema_End 

/- from `Peppi.PremisesSchema` -/
open Extracted in
theorem schema_Item : schemaMatchesJson Item.views Item.framesJson = true :=
  _root_.Peppi.schema_Item 

/- from `Peppi.PremisesSchema` -/
open Extracted in
theorem schema_ItemMisc : schemaMatchesJson ItemMisc.views ItemMisc.framesJson = true :=
  _root_.Peppi.schema_ItemMisc 

/- from `Peppi.PremisesSchema` -/
open Extracted in
theorem schema_Position : schemaMatchesJson Position.views Position.framesJson = true :=
  _root_.Peppi.schema_Position 

/- from `Peppi.PremisesSchema` -/
open Extracted in
theorem schema_Post : schemaMatchesJson Post.views Post.framesJson = true :=
  _root_.Peppi.schema_Post 

/- from `Peppi.PremisesSchema` -/
open Extracted in
theorem schema_Pre : schemaMatchesJson Pre.views Pre.framesJson = true :=
  _root_.Peppi.schema_Pre 

/- from `Peppi.PremisesSchema` -/
open Extracted in
theorem schema_Start : schemaMatchesJson Start.views Start.framesJson = true :=
  _root_.Peppi.schema_Start 

/- from `Peppi.PremisesSchema` -/
open Extracted in
theorem schema_StateFlags : schemaMatchesJson StateFlags.views StateFlags.framesJson = true :=
  _root_.Peppi.schema_StateFlags 

/- from `Peppi.PremisesSchema` -/
open Extracted in
theorem schema_TriggersPhysical : schemaMatchesJson TriggersPhysical.views TriggersPhysical.framesJson = true :=
  _root_.Peppi.schema_TriggersPhysical 

/- from `Peppi.PremisesSchema` -/
open Extracted in
theorem schema_Velocities : schemaMatchesJson Velocities.views Velocities.framesJson = true :=
  _root_.Peppi.schema_Velocities 

/- from `Peppi.PremisesSchema` -/
open Extracted in
theorem schema_Velocity : schemaMatchesJson Velocity.views Velocity.framesJson = true :=
  _root_.Peppi.schema_Velocity 

/- from `Peppi.Lemmas.Wrapped` -/
open Extracted in
theorem parseEvent_wrapped (ps : ParseState) (c : Nat) (p pad rest : Bytes) (st' : PState)
    (hc : isFrameEv c = true) (h512 : (p ++ pad).length = 512)
    (hsz : sizeOfEv ps.st.sizes EV_SPLITTER = some 516) (hraw : ps.st.splitRaw = [])
    (hact : ps.st.splitActual + p.length < 2 ^ 32)
    (hplain : handleEvent { ps.st with splitActual := ps.st.splitActual + p.length } c p = .ok st') :
    parseEvent ps (encEvent (EV_SPLITTER, splitPayloadC (p ++ pad) p.length true c) ++ rest) =
      .ok ((c, { st := st', bytesRead := ps.bytesRead + 516 + 1 }), rest) :=
  _root_.Peppi.parseEvent_wrapped ps c p pad rest st' hc h512 hsz hraw hact hplain

/-- C03 for the Pre event: the row decoded by the *extracted* `read_push` table of the current source,
    on any payload of any version, has at spec position `k` the big-endian value found at the
    Appendix-A offset when the version is at least the field's first version, and nothing otherwise. -/
theorem C03_pre (v : Ver) (payload : Bytes) (vals : List Nat) (rest : Bytes)
    (h : readRow v Extracted.Pre.readPush (payload.drop Spec.preHdr) = some (vals, rest))
    (k : Nat) (hk : k < (Spec.pre).length) :
    (v.gte ((Spec.pre)[k]).since.1 ((Spec.pre)[k]).since.2 = true →
        vals[k]? = some (fromBE ((payload.drop ((Spec.pre)[k]).off).take (Spec.width ((Spec.pre)[k]).ty)))) ∧
    (v.gte ((Spec.pre)[k]).since.1 ((Spec.pre)[k]).since.2 = false → vals[k]? = none) :=
  _root_.Peppi.C03_generic Extracted.Pre.names Extracted.Pre.types Extracted.Pre.readPush Spec.preHdr Spec.pre _root_.Peppi.pre_ok _root_.Peppi.pre_spec v payload vals rest h k hk

/-- C03 for the Post event: the row decoded by the *extracted* `read_push` table of the current source,
    on any payload of any version, has at spec position `k` the big-endian value found at the
    Appendix-A offset when the version is at least the field's first version, and nothing otherwise. -/
theorem C03_post (v : Ver) (payload : Bytes) (vals : List Nat) (rest : Bytes)
    (h : readRow v Extracted.Post.readPush (payload.drop Spec.postHdr) = some (vals, rest))
    (k : Nat) (hk : k < (Spec.post).length) :
    (v.gte ((Spec.post)[k]).since.1 ((Spec.post)[k]).since.2 = true →
        vals[k]? = some (fromBE ((payload.drop ((Spec.post)[k]).off).take (Spec.width ((Spec.post)[k]).ty)))) ∧
    (v.gte ((Spec.post)[k]).since.1 ((Spec.post)[k]).since.2 = false → vals[k]? = none) :=
  _root_.Peppi.C03_generic Extracted.Post.names Extracted.Post.types Extracted.Post.readPush Spec.postHdr Spec.post _root_.Peppi.post_ok _root_.Peppi.post_spec v payload vals rest h k hk

/-- C03 for the Start event: the row decoded by the *extracted* `read_push` table of the current source,
    on any payload of any version, has at spec position `k` the big-endian value found at the
    Appendix-A offset when the version is at least the field's first version, and nothing otherwise. -/
theorem C03_start (v : Ver) (payload : Bytes) (vals : List Nat) (rest : Bytes)
    (h : readRow v Extracted.Start.readPush (payload.drop Spec.startHdr) = some (vals, rest))
    (k : Nat) (hk : k < (Spec.start).length) :
    (v.gte ((Spec.start)[k]).since.1 ((Spec.start)[k]).since.2 = true →
        vals[k]? = some (fromBE ((payload.drop ((Spec.start)[k]).off).take (Spec.width ((Spec.start)[k]).ty)))) ∧
    (v.gte ((Spec.start)[k]).since.1 ((Spec.start)[k]).since.2 = false → vals[k]? = none) :=
  _root_.Peppi.C03_generic Extracted.Start.names Extracted.Start.types Extracted.Start.readPush Spec.startHdr Spec.start _root_.Peppi.start_ok _root_.Peppi.start_spec v payload vals rest h k hk

/-- C03 for the Item event: the row decoded by the *extracted* `read_push` table of the current source,
    on any payload of any version, has at spec position `k` the big-endian value found at the
    Appendix-A offset when the version is at least the field's first version, and nothing otherwise. -/
theorem C03_item (v : Ver) (payload : Bytes) (vals : List Nat) (rest : Bytes)
    (h : readRow v Extracted.Item.readPush (payload.drop Spec.itemHdr) = some (vals, rest))
    (k : Nat) (hk : k < (Spec.item).length) :
    (v.gte ((Spec.item)[k]).since.1 ((Spec.item)[k]).since.2 = true →
        vals[k]? = some (fromBE ((payload.drop ((Spec.item)[k]).off).take (Spec.width ((Spec.item)[k]).ty)))) ∧
    (v.gte ((Spec.item)[k]).since.1 ((Spec.item)[k]).since.2 = false → vals[k]? = none) :=
  _root_.Peppi.C03_generic Extracted.Item.names Extracted.Item.types Extracted.Item.readPush Spec.itemHdr Spec.item _root_.Peppi.item_ok _root_.Peppi.item_spec v payload vals rest h k hk

/-- C03 for the End event: the row decoded by the *extracted* `read_push` table of the current source,
    on any payload of any version, has at spec position `k` the big-endian value found at the
    Appendix-A offset when the version is at least the field's first version, and nothing otherwise. -/
theorem C03_end (v : Ver) (payload : Bytes) (vals : List Nat) (rest : Bytes)
    (h : readRow v Extracted.End.readPush (payload.drop Spec.endHdr) = some (vals, rest))
    (k : Nat) (hk : k < (Spec.fend).length) :
    (v.gte ((Spec.fend)[k]).since.1 ((Spec.fend)[k]).since.2 = true →
        vals[k]? = some (fromBE ((payload.drop ((Spec.fend)[k]).off).take (Spec.width ((Spec.fend)[k]).ty)))) ∧
    (v.gte ((Spec.fend)[k]).since.1 ((Spec.fend)[k]).since.2 = false → vals[k]? = none) :=
  _root_.Peppi.C03_generic Extracted.End.names Extracted.End.types Extracted.End.readPush Spec.endHdr Spec.fend _root_.Peppi.end_ok _root_.Peppi.end_spec v payload vals rest h k hk

end Peppi.Props.C03
