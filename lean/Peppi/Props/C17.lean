/- Property C17 — Serialising any accepted game gives a self-consistent file and a fixed point

   Statements of the machine-checked theorems this property's check relies on.  Each statement is
   spelled out here and proved from the lemma of the same name under `Peppi/` (generated once by
   `bin/mkprops.py`, then kept as source).  What is proved and what is partial: DESIGN.md §4. -/
import Peppi.Lemmas.Unified
import Peppi.Lemmas.C17
import Peppi.Lemmas.C17Perm
import Peppi.Lemmas.StreamGen
import Peppi.Lemmas.FramePerm
import Peppi.Lemmas.Body
import Peppi.Lemmas.C17Junk
import Peppi.Lemmas.C01A
import Peppi.Lemmas.C01B
import Peppi.Lemmas.C01C
import Peppi.Lemmas.C01G
import Peppi.PremisesCore
import Peppi.Lemmas.GenFile
import Peppi.Lemmas.GenInst
import Peppi.Lemmas.GenCor
import Peppi.Lemmas.GenExample
set_option linter.unusedVariables false
namespace Peppi.Props.C17

/- from `Peppi.Lemmas.Unified` -/
open Extracted in
theorem C01_any (T : TextOracle) (r : Replay) (s : Start) (gk : Option GeckoBlocks) (h : r.WFAny T s gk)
    (hmax : assertMaxVersion s.version = .ok ()) :
    ∃ g, readSlp T {} (r.encodeAny s.version (portOccupancy s) gk) = .ok g ∧
      writeSlp g = .ok (r.encodeAny s.version (portOccupancy s) gk) :=
  _root_.Peppi.C01_any T r s gk h hmax

/- from `Peppi.Lemmas.C17` -/
open Extracted in
theorem C17_unknown_A (T : TextOracle) (r : Replay) (s : Start) (u : Unknowns) (h : r.WFU T s u)
    (hmax : assertMaxVersion s.version = .ok ()) :
    ∃ g, readSlp T { skipFrames := false, computeHash := false } (r.encodeU s.version u) = .ok g ∧
      writeSlp g = .ok (r.encode s.version (portOccupancy s)) ∧
      readSlp T { skipFrames := false, computeHash := false } (r.encode s.version (portOccupancy s)) = .ok g :=
  _root_.Peppi.C17_unknown_A T r s u h hmax

/- from `Peppi.Lemmas.C17Perm` -/
open Extracted in
theorem C17_perm_A (T : TextOracle) (r : Replay) (s : Start) (h : r.WF T s) (fr : List (FrameOcc × List BEv))
    (hp : Permuted s.version (portOccupancy s) r fr)
    (hraw : (r.rawU s.version (permStream s.version (portOccupancy s) fr)).length < 256 ^ 4)
    (hmax : assertMaxVersion s.version = .ok ()) :
    ∃ g, readSlp T { skipFrames := false, computeHash := false } (r.encodeU s.version (permStream s.version (portOccupancy s) fr)) = .ok g ∧
      writeSlp g = .ok (r.encode s.version (portOccupancy s)) ∧
      readSlp T { skipFrames := false, computeHash := false } (r.encode s.version (portOccupancy s)) = .ok g :=
  _root_.Peppi.C17_perm_A T r s h fr hp hraw hmax

/- from `Peppi.Lemmas.StreamGen` -/
open Extracted in
theorem readP_encode_stream (T : TextOracle) (r : Replay) (s : Start) (u : Unknowns) (F : FCols) (h : r.WFS T s u F) :
    ∃ ge : Option End, r.fend.map gameEnd = ge.map Res.ok ∧
      readP T {} (r.encodeU s.version u) = .ok (r.gameF s ge F, []) :=
  _root_.Peppi.readP_encode_stream T r s u F h

/- from `Peppi.Lemmas.FramePerm` -/
open Extracted in
theorem frame_step_perm (v : Ver) (shape : List PortOccupancy) (h : List FrameOcc) (o : FrameOcc) (st : PState) (body : List BEv)
    (hv : st.start.version = v) (h30 : v.gte 3 0 = true) (h22 : v.gte 2 2 = true)
    (hfr : st.frames = expFrames v shape h)
    (hmap : PortMapOK st.portIdx shape) (hports : ∀ p ∈ shape, p.port < 256)
    (ho : o.OK v (nSlots shape)) (hb : BodyOK v (nSlots shape) o body) :
    runEvents st (frameEventsP v shape o body) = .ok { st with frames := expFrames v shape (h ++ [o]) } :=
  _root_.Peppi.frame_step_perm v shape h o st body hv h30 h22 hfr hmap hports ho hb

/- from `Peppi.Lemmas.Body` -/
open Extracted in
theorem run_body_perm (id : Int) (hid : I32 id) (body body' : List BEv) (st : PState) (it : SCols)
    (hlast : st.lastId = some id) (hmap : PortMapOK st.portIdx (shapeOf st.frames.ports)) (hports : ∀ p ∈ st.frames.ports, p.port < 256)
    (hok : ∀ e ∈ body, e.OK st.start.version (slotList (shapeOf st.frames.ports) 0).length)
    (hok' : ∀ e ∈ body', e.OK st.start.version (slotList (shapeOf st.frames.ports) 0).length)
    (hit : st.frames.item = some it)
    (hproj : ∀ c, (body'.filterMap BEv.cev).filter (·.target == c) = (body.filterMap BEv.cev).filter (·.target == c))
    (hitems : body'.filterMap BEv.itemRow = body.filterMap BEv.itemRow) :
    runEvents st (body'.map (BEv.enc st.start.version id (slotList (shapeOf st.frames.ports) 0))) =
      runEvents st (body.map (BEv.enc st.start.version id (slotList (shapeOf st.frames.ports) 0))) :=
  _root_.Peppi.run_body_perm id hid body body' st it hlast hmap hports hok hok' hit hproj hitems

/- from `Peppi.Lemmas.C17Junk` -/
open Extracted in
theorem readP_encode_junk (T : TextOracle) (r : Replay) (s : Start) (u : Unknowns) (F : FCols) (h : r.WFS T s u F)
    (e : Bytes) (hfe : r.fend = some e) (hd : r.doubled = false) (junk : Bytes) (hj : 0 < junk.length)
    (hnot : ¬ looksLikeEnd s.version junk) (hrawJ : (r.rawJ s.version u junk).length < 256 ^ 4) :
    ∃ ge, gameEnd e = .ok ge ∧ readP T {} (r.encodeJ s.version u junk) = .ok (r.gameF s (some ge) F, []) :=
  _root_.Peppi.readP_encode_junk T r s u F h e hfe hd junk hj hnot hrawJ

/- from `Peppi.Lemmas.C17` -/
open Extracted in
theorem encode_declares_actual (r : Replay) (v : Ver) (shape : List PortOccupancy) :
    ∃ rest, r.encode v shape = FILE_SIGNATURE ++ (toBE 4 (r.raw v shape).length ++ (r.raw v shape ++ rest)) :=
  _root_.Peppi.encode_declares_actual r v shape

/- from `Peppi.Lemmas.C01A` -/
open Extracted in
theorem rawSize_A (T : TextOracle) (r : Replay) (s : Start) (h : r.WF T s) (ge : Option End)
    (hge : r.fend.map gameEnd = ge.map Res.ok) :
    rawSize (canonTable s.version r.startBlock.length (r.endLen s.version)) (r.game s ge) =
      .ok (r.raw s.version (portOccupancy s)).length :=
  _root_.Peppi.rawSize_A T r s h ge hge

/- from `Peppi.Lemmas.C01B` -/
open Extracted in
theorem rawSize_B (T : TextOracle) (r : Replay) (s : Start) (h : r.WFB T s) (ge : Option End)
    (hge : r.fend.map gameEnd = ge.map Res.ok) :
    rawSize (canonTableB s.version r.startBlock.length (r.endLen s.version)) (r.game s ge) =
      .ok (r.rawB s.version (portOccupancy s)).length :=
  _root_.Peppi.rawSize_B T r s h ge hge

/- from `Peppi.Lemmas.C01C` -/
open Extracted in
theorem rawSize_C (T : TextOracle) (r : Replay) (s : Start) (h : r.WFC T s) (ge : Option End)
    (hge : r.fend.map gameEnd = ge.map Res.ok) :
    rawSize (canonTableC s.version r.startBlock.length (r.endLen s.version)) (r.game s ge) =
      .ok (r.rawC s.version (portOccupancy s)).length :=
  _root_.Peppi.rawSize_C T r s h ge hge

/- from `Peppi.Lemmas.C01G` -/
open Extracted in
theorem rawSize_G (T : TextOracle) (r : Replay) (s : Start) (gk : GeckoBlocks) (h : r.WFG T s gk) (ge : Option End)
    (hge : r.fend.map gameEnd = ge.map Res.ok) :
    rawSize (canonTableG s.version r.startBlock.length (r.endLen s.version) gk.total) (r.gameG s ge gk) =
      .ok (r.rawG s.version (portOccupancy s) gk).length :=
  _root_.Peppi.rawSize_G T r s gk h ge hge

/- from `Peppi.PremisesCore` -/
open Extracted in
theorem core_End : structCoreOK true true End.views = true :=
  _root_.Peppi.core_End 

/- from `Peppi.PremisesCore` -/
open Extracted in
theorem core_Item : structCoreOK false true Item.views = true :=
  _root_.Peppi.core_Item 

/- from `Peppi.PremisesCore` -/
open Extracted in
theorem core_ItemMisc : structCoreOK false false ItemMisc.views = true :=
  _root_.Peppi.core_ItemMisc 

/- from `Peppi.PremisesCore` -/
open Extracted in
theorem core_Position : structCoreOK false true Position.views = true :=
  _root_.Peppi.core_Position 

/- from `Peppi.PremisesCore` -/
open Extracted in
theorem core_Post : structCoreOK false true Post.views = true :=
  _root_.Peppi.core_Post 

/- from `Peppi.PremisesCore` -/
open Extracted in
theorem core_Pre : structCoreOK false true Pre.views = true :=
  _root_.Peppi.core_Pre 

/- from `Peppi.PremisesCore` -/
open Extracted in
theorem core_Start : structCoreOK false true Start.views = true :=
  _root_.Peppi.core_Start 

/- from `Peppi.PremisesCore` -/
open Extracted in
theorem core_StateFlags : structCoreOK false false StateFlags.views = true :=
  _root_.Peppi.core_StateFlags 

/- from `Peppi.PremisesCore` -/
open Extracted in
theorem core_TriggersPhysical : structCoreOK false true TriggersPhysical.views = true :=
  _root_.Peppi.core_TriggersPhysical 

/- from `Peppi.PremisesCore` -/
open Extracted in
theorem core_Velocities : structCoreOK false true Velocities.views = true :=
  _root_.Peppi.core_Velocities 

/- from `Peppi.PremisesCore` -/
open Extracted in
theorem core_Velocity : structCoreOK false true Velocity.views = true :=
  _root_.Peppi.core_Velocity 

/- from `Peppi.Lemmas.GenFile` -/
open Extracted in
theorem readTail_gen (T : TextOracle) (rawLen : Nat) (ps : ParseState) (md : Option KVs) (x : Bytes)
    (hbr : ps.bytesRead + x.length = rawLen) (hmd : ps.st.metadata = none)
    (hwf : ∀ m, md = some m → KVs.WF T.utf8Ok 1 m) :
    readTail T rawLen ps (x ++ metaBytes md) =
      .ok (gameOf ps.st.closed md (dgeOf ps.st.start.version x ps.st.doubleGameEnd), []) :=
  _root_.Peppi.readTail_gen T rawLen ps md x hbr hmd hwf

/- from `Peppi.Lemmas.GenFile` -/
open Extracted in
theorem readP_gen (T : TextOracle) (f : GFile) (s : Start) (psF : ParseState) (h : f.WF T s psF) :
    ∃ ge : Option End, f.fend.map gameEnd = ge.map Res.ok ∧
      readP T {} f.encode =
        .ok (gameOf ({ psF.st with fend := ge } : PState).closed f.metadata (dgeOf s.version f.extra none), []) :=
  _root_.Peppi.readP_gen T f s psF h

/- from `Peppi.Lemmas.GenInst` -/
open Extracted in
theorem readP_irregular (T : TextOracle) (r : Replay) (s : Start) (gk : Option GeckoBlocks) (i : Irr) (h : i.OK T r s gk) :
    ∃ ge : Option End, r.fend.map gameEnd = ge.map Res.ok ∧
      readP T {} (r.fileIrr s gk i).encode = .ok (r.gameAny s ge gk, []) :=
  _root_.Peppi.readP_irregular T r s gk i h

/- from `Peppi.Lemmas.GenCor` -/
open Extracted in
theorem C17_any (T : TextOracle) (r : Replay) (s : Start) (gk : Option GeckoBlocks) (i : Irr) (h : i.OK T r s gk)
    (hmax : assertMaxVersion s.version = .ok ()) :
    ∃ g y, readSlp T { skipFrames := false, computeHash := false } (r.fileIrr s gk i).encode = .ok g ∧
      writeSlp g = .ok y ∧
      (∃ raw rest, y = FILE_SIGNATURE ++ (toBE 4 raw.length ++ (raw ++ rest)) ∧ raw.length < 256 ^ 4) ∧
      readSlp T { skipFrames := false, computeHash := false } y = .ok g ∧
      (∀ g', readSlp T { skipFrames := false, computeHash := false } y = .ok g' → writeSlp g' = .ok y) :=
  _root_.Peppi.C17_any T r s gk i h hmax

/- from `Peppi.Lemmas.GenCor` -/
open Extracted in
theorem encodeAny_declares_actual (r : Replay) (v : Ver) (shape : List PortOccupancy) (gk : Option GeckoBlocks) :
    ∃ rest, r.encodeAny v shape gk = FILE_SIGNATURE ++ (toBE 4 (r.rawAny v shape gk).length ++ (r.rawAny v shape gk ++ rest)) :=
  _root_.Peppi.encodeAny_declares_actual r v shape gk

/- from `Peppi.Lemmas.GenExample` -/
open Extracted in
theorem exampleIrr_B_fixedpoint :
    let r := exReplay (exBlock 2 2 418) (exFrames [-123, -122, -122] 16 23 1 0 0 false) [2, 255]
    let s := startOf (exBlock 2 2 418)
    let i := exIrr s.version 418 2 none (portOccupancy s) (exFrames [-123, -122, -122] 16 23 1 0 0 false) []
    ∃ g y, readSlp T0 { skipFrames := false, computeHash := false } (r.fileIrr s none i).encode = .ok g ∧ writeSlp g = .ok y ∧
      readSlp T0 { skipFrames := false, computeHash := false } y = .ok g :=
  _root_.Peppi.exampleIrr_B_fixedpoint 

/- from `Peppi.Lemmas.GenInst` -/
open Extracted in
theorem canonUpToOrder_run {T : TextOracle} {r : Replay} {s : Start} {gk : Option GeckoBlocks} (h : r.WFAny T s gk) (st : PState)
    (hst : st.start = s) (hfr : st.frames = FCols.new s.version (portOccupancy s)) (hpi : st.portIdx = portIdxOf (portOccupancy s))
    (es : List (Nat × Bytes)) (hc : CanonUpToOrder s r es) :
    (∃ st', runEvents st es = .ok st' ∧ st'.ctx = st.ctx ∧ st'.fend = st.fend ∧
      st'.gecko = st.gecko ∧ st'.metadata = st.metadata ∧ st'.doubleGameEnd = st.doubleGameEnd ∧
      (if s.version.lt 3 0 then st'.frames.close else st'.frames) = expFrames s.version (portOccupancy s) r.frames) ∧
    (∀ e ∈ es, e.1 ≠ EV_SPLITTER ∧ e.1 ≠ EV_GAME_END) :=
  _root_.Peppi.canonUpToOrder_run h st hst hfr hpi es hc

/- from `Peppi.Lemmas.GenExample` -/
open Extracted in
theorem exampleIrr_P :
    let r := exReplay (exBlock 3 16 760) (exFrames [-123, -122, -122] 17 32 2 16 1 true) [2, 255, 0, 1, 255, 255]
    let s := startOf (exBlock 3 16 760)
    let es := (r.frames.map fun o => (o, itemsFirst o)).flatMap fun ob => frameEventsP s.version (portOccupancy s) ob.1 ob.2
    ({ table := canonTableAny s.version 760 6 none ++ [(0x50, 3), (0x51, 1)], mixed := spliceUnknown es, junk := [] } : Irr).OK T0 r s none :=
  _root_.Peppi.exampleIrr_P 

end Peppi.Props.C17
