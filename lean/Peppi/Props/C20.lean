/- Property C20 — Version comparison, parsing and display are mutually consistent and total

   Statements of the machine-checked theorems this property's check relies on.  Each statement is
   spelled out here and proved from the lemma of the same name under `Peppi/` (generated once by
   `bin/mkprops.py`, then kept as source).  What is proved and what is partial: DESIGN.md §4. -/
import Peppi.VersionProof
import Peppi.VersionMore
import Peppi.VersionText
set_option linter.unusedVariables false
namespace Peppi.Props.C20

/- from `Peppi.VersionProof` -/
theorem Ver_gte_iff (v : Ver) (M m : Nat) : v.gte M m = true ↔ (M < v.major ∨ (M = v.major ∧ m ≤ v.minor)) :=
  _root_.Peppi.Ver.gte_iff v M m

/- from `Peppi.VersionProof` -/
theorem Ver_lt_iff (v : Ver) (M m : Nat) : v.lt M m = true ↔ ¬ (M < v.major ∨ (M = v.major ∧ m ≤ v.minor)) :=
  _root_.Peppi.Ver.lt_iff v M m

/- from `Peppi.VersionProof` -/
theorem Ver_gte_mono (v w : Ver) (M m : Nat) (h : v.major < w.major ∨ (v.major = w.major ∧ v.minor ≤ w.minor))
    (hv : v.gte M m = true) : w.gte M m = true :=
  _root_.Peppi.Ver.gte_mono v w M m h hv

/- from `Peppi.VersionProof` -/
theorem Ver_gte_trans (v : Ver) (M m M' m' : Nat) (h : M' < M ∨ (M' = M ∧ m' ≤ m)) (hv : v.gte M m = true) : v.gte M' m' = true :=
  _root_.Peppi.Ver.gte_trans v M m M' m' h hv

/- from `Peppi.VersionProof` -/
theorem Ver_parse_display (v : Ver) (h : v.WF) : Ver.parse v.display = .ok v :=
  _root_.Peppi.Ver.parse_display v h

/- from `Peppi.VersionProof` -/
theorem parseU8_iff (s : List Char) (n : Nat) : parseU8 s = some n ↔ U8Lit s n :=
  _root_.Peppi.parseU8_iff s n

/- from `Peppi.VersionProof` -/
theorem Ver_parse_iff (s : List Char) (v : Ver) : Ver.parse s = .ok v ↔
    ∃ a b c, s = a ++ '.' :: (b ++ '.' :: c) ∧ a.all (· ≠ '.') = true ∧ b.all (· ≠ '.') = true ∧ c.all (· ≠ '.') = true ∧
      U8Lit a v.major ∧ U8Lit b v.minor ∧ U8Lit c v.patch :=
  _root_.Peppi.Ver.parse_iff s v

/- from `Peppi.VersionProof` -/
theorem Ver_parse_total (s : List Char) : (∃ v, Ver.parse s = .ok v) ∨ (∃ e, Ver.parse s = .err e) :=
  _root_.Peppi.Ver.parse_total s

/- from `Peppi.VersionProof` -/
theorem Ver_gte_patch (v : Ver) (p M m : Nat) : ({ v with patch := p } : Ver).gte M m = v.gte M m :=
  _root_.Peppi.Ver.gte_patch v p M m

/- from `Peppi.VersionProof` -/
theorem Ver_lt_patch (v : Ver) (p M m : Nat) : ({ v with patch := p } : Ver).lt M m = v.lt M m :=
  _root_.Peppi.Ver.lt_patch v p M m

/- from `Peppi.VersionProof` -/
theorem Ver_gte_or_lt (v : Ver) (M m : Nat) : (v.gte M m = true ∧ v.lt M m = false) ∨ (v.gte M m = false ∧ v.lt M m = true) :=
  _root_.Peppi.Ver.gte_or_lt v M m

/- from `Peppi.VersionMore` -/
theorem Ver_gte_self (v : Ver) : v.gte v.major v.minor = true :=
  _root_.Peppi.Ver.gte_self v

/- from `Peppi.VersionMore` -/
theorem Ver_gte_total (v w : Ver) : v.gte w.major w.minor = true ∨ w.gte v.major v.minor = true :=
  _root_.Peppi.Ver.gte_total v w

/- from `Peppi.VersionMore` -/
theorem Ver_gte_antisymm (v w : Ver) (h1 : v.gte w.major w.minor = true) (h2 : w.gte v.major v.minor = true) :
    v.major = w.major ∧ v.minor = w.minor ∧ ∀ M m, v.gte M m = w.gte M m :=
  _root_.Peppi.Ver.gte_antisymm v w h1 h2

/- from `Peppi.VersionMore` -/
theorem Ver_lt_mono (v w : Ver) (M m : Nat) (h : v.major < w.major ∨ (v.major = w.major ∧ v.minor ≤ w.minor))
    (hw : w.lt M m = true) : v.lt M m = true :=
  _root_.Peppi.Ver.lt_mono v w M m h hw

/- from `Peppi.VersionMore` -/
theorem Ver_parse_wf (s : List Char) (v : Ver) (h : Ver.parse s = .ok v) : v.WF :=
  _root_.Peppi.Ver.parse_wf s v h

/- from `Peppi.VersionMore` -/
theorem Ver_display_inj (v w : Ver) (hv : v.WF) (hw : w.WF) (h : v.display = w.display) : v = w :=
  _root_.Peppi.Ver.display_inj v w hv hw h

/- from `Peppi.VersionMore` -/
theorem Ver_parse_display_parse (s : List Char) (v : Ver) (h : Ver.parse s = .ok v) : Ver.parse v.display = .ok v :=
  _root_.Peppi.Ver.parse_display_parse s v h

/- from `Peppi.VersionText` -/
theorem showU8_canonical : ∀ n, n < 256 →
    (showU8 n).all isDigit = true ∧ 1 ≤ (showU8 n).length ∧ (showU8 n).length ≤ 3 ∧
    ((showU8 n).head? = some '0' → n = 0) :=
  _root_.Peppi.showU8_canonical 

/- from `Peppi.VersionText` -/
theorem Ver_display_length (v : Ver) (h : v.WF) : 5 ≤ v.display.length ∧ v.display.length ≤ 11 :=
  _root_.Peppi.Ver.display_length v h

/- from `Peppi.VersionText` -/
theorem Ver_display_chars (v : Ver) (h : v.WF) :
    v.display.all (fun c => isDigit c || c == '.') = true ∧ (v.display.filter (· == '.')).length = 2 :=
  _root_.Peppi.Ver.display_chars v h

end Peppi.Props.C20
