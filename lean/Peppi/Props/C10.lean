/- Property C10 — Skip-frames parsing returns the same start, end and metadata as a full parse

   Statements of the machine-checked theorems this property's check relies on.  Each statement is
   spelled out here and proved from the lemma of the same name under `Peppi/` (generated once by
   `bin/mkprops.py`, then kept as source).  What is proved and what is partial: DESIGN.md §4. -/
import Peppi.Lemmas.Unified
import Peppi.Lemmas.C10Gen
import Peppi.Lemmas.C10A
import Peppi.Lemmas.PeppiRound
import Peppi.Lemmas.Example
import Peppi.Lemmas.Unified2
import Peppi.SlppBytes
set_option linter.unusedVariables false
namespace Peppi.Props.C10

/- from `Peppi.Lemmas.Unified` -/
open Extracted in
theorem C10_any (T : TextOracle) (r : Replay) (s : Start) (gk : Option GeckoBlocks) (h : r.WFAny T s gk)
    (e : Bytes) (hfe : r.fend = some e) (hash : Bool) :
    ∃ ge, gameEnd e = .ok ge ∧
      readP T { skipFrames := true, computeHash := hash } (r.encodeAny s.version (portOccupancy s) gk) = .ok (r.gameSkip s ge, []) :=
  _root_.Peppi.C10_any T r s gk h e hfe hash

/- from `Peppi.Lemmas.Unified` -/
open Extracted in
theorem C10_any_agree (T : TextOracle) (r : Replay) (s : Start) (gk : Option GeckoBlocks) (h : r.WFAny T s gk)
    (e : Bytes) (hfe : r.fend = some e) (hash : Bool) :
    ∃ gFull gSkip, readSlp T { skipFrames := false, computeHash := hash } (r.encodeAny s.version (portOccupancy s) gk) = .ok gFull ∧
      readSlp T { skipFrames := true, computeHash := hash } (r.encodeAny s.version (portOccupancy s) gk) = .ok gSkip ∧
      gSkip.start = gFull.start ∧ gSkip.fend = gFull.fend ∧ gSkip.metadata = gFull.metadata ∧ gSkip.hashedLen = gFull.hashedLen ∧
      gFull.hashedLen = (if hash then some (r.encodeAny s.version (portOccupancy s) gk).length else none) ∧
      gSkip.frames = FCols.new s.version (portOccupancy s) :=
  _root_.Peppi.C10_any_agree T r s gk h e hfe hash

/- from `Peppi.Lemmas.C10Gen` -/
open Extracted in
theorem skip_gen (T : TextOracle) (ps : ParseState) (rawLen : Nat) (mid e : Bytes) (ge : End) (md : Option KVs)
    (hsz : sizeOfEv ps.st.sizes EV_GAME_END = some e.length) (hge : gameEnd e = .ok ge)
    (hraw : rawLen = ps.bytesRead + mid.length + (1 + e.length))
    (hmd : ps.st.metadata = none) (hwf : ∀ m, md = some m → KVs.WF T.utf8Ok 1 m) :
    (skipToEnd rawLen ps >>= loopTail T rawLen) (mid ++ (encEvent (EV_GAME_END, e) ++ metaBytes md)) =
      .ok (gameOf { ps.st with fend := some ge, frames := skipFrames ps.st } md ps.st.doubleGameEnd, []) :=
  _root_.Peppi.skip_gen T ps rawLen mid e ge md hsz hge hraw hmd hwf

/- from `Peppi.Lemmas.C10A` -/
open Extracted in
theorem readP_skip_A (T : TextOracle) (r : Replay) (s : Start) (h : r.WF T s) (e : Bytes) (hfe : r.fend = some e) (hash : Bool) :
    ∃ ge, gameEnd e = .ok ge ∧
      readP T { skipFrames := true, computeHash := hash } (r.encode s.version (portOccupancy s)) = .ok (r.gameSkip s ge, []) :=
  _root_.Peppi.readP_skip_A T r s h e hfe hash

/- from `Peppi.Lemmas.C10Gen` -/
open Extracted in
theorem readP_skip_B (T : TextOracle) (r : Replay) (s : Start) (h : r.WFB T s) (e : Bytes) (hfe : r.fend = some e) (hash : Bool) :
    ∃ ge, gameEnd e = .ok ge ∧
      readP T { skipFrames := true, computeHash := hash } (r.encodeB s.version (portOccupancy s)) = .ok (r.gameSkip s ge, []) :=
  _root_.Peppi.readP_skip_B T r s h e hfe hash

/- from `Peppi.Lemmas.C10Gen` -/
open Extracted in
theorem readP_skip_C (T : TextOracle) (r : Replay) (s : Start) (h : r.WFC T s) (e : Bytes) (hfe : r.fend = some e) (hash : Bool) :
    ∃ ge, gameEnd e = .ok ge ∧
      readP T { skipFrames := true, computeHash := hash } (r.encodeC s.version (portOccupancy s)) = .ok (r.gameSkip s ge, []) :=
  _root_.Peppi.readP_skip_C T r s h e hfe hash

/- from `Peppi.Lemmas.C10Gen` -/
open Extracted in
theorem readP_skip_G (T : TextOracle) (r : Replay) (s : Start) (gk : GeckoBlocks) (h : r.WFG T s gk) (e : Bytes) (hfe : r.fend = some e)
    (hash : Bool) :
    ∃ ge, gameEnd e = .ok ge ∧
      readP T { skipFrames := true, computeHash := hash } (r.encodeG s.version (portOccupancy s) gk) = .ok (r.gameSkip s ge, []) :=
  _root_.Peppi.readP_skip_G T r s gk h e hfe hash

/- from `Peppi.Lemmas.C10A` -/
open Extracted in
theorem C10_slp_A (T : TextOracle) (r : Replay) (s : Start) (h : r.WF T s) (e : Bytes) (hfe : r.fend = some e) (hash : Bool) :
    ∃ gFull gSkip, readSlp T { skipFrames := false, computeHash := hash } (r.encode s.version (portOccupancy s)) = .ok gFull ∧
      readSlp T { skipFrames := true, computeHash := hash } (r.encode s.version (portOccupancy s)) = .ok gSkip ∧
      gSkip.start = gFull.start ∧ gSkip.fend = gFull.fend ∧ gSkip.metadata = gFull.metadata ∧ gSkip.hashedLen = gFull.hashedLen ∧
      gSkip.frames = FCols.new s.version (portOccupancy s) :=
  _root_.Peppi.C10_slp_A T r s h e hfe hash

/- from `Peppi.Lemmas.PeppiRound` -/
theorem peppiRead_written_skip {μ φ : Type} (T : TextOracle) (g : PGame μ φ) (startBytes : Bytes) (endBytes : Option Bytes) (trailerOk : Bool)
    (hstart : gameStart T startBytes = .ok g.start)
    (hend : endBytes.map gameEnd = g.fend.map Res.ok)
    (hgecko : ∀ c, g.gecko = some c → c.2 < 2 ^ 32)
    (hframes : g.frames = none → trailerOk = true) :
    peppiRead T true trailerOk (writtenEntries g startBytes endBytes) = .ok { g with frames := none } :=
  _root_.Peppi.peppiRead_written_skip T g startBytes endBytes trailerOk hstart hend hgecko hframes

/- from `Peppi.Lemmas.Example` -/
open Extracted in
theorem example_A : (exReplay (exBlock 3 16 760) (exFrames [-123, -122, -122] 17 32 2 16 1 true) [2, 255, 0, 1, 255, 255]).WFAny T0
    (startOf (exBlock 3 16 760)) none :=
  _root_.Peppi.example_A 

/- from `Peppi.Lemmas.Example` -/
open Extracted in
theorem example_B : (exReplay (exBlock 2 2 418) (exFrames [-123, -122, -122] 16 23 1 0 0 false) [2, 255]).WFAny T0
    (startOf (exBlock 2 2 418)) none :=
  _root_.Peppi.example_B 

/- from `Peppi.Lemmas.Example` -/
open Extracted in
theorem example_C : (exReplay (exBlock 1 0 352) (exFrames [-123, -122, -121] 14 12 1 0 0 false) [2]).WFAny T0
    (startOf (exBlock 1 0 352)) none :=
  _root_.Peppi.example_C 

/- from `Peppi.Lemmas.Example` -/
open Extracted in
theorem example_G : (exReplay (exBlock 3 16 760) (exFrames [-123, -122, -122] 17 32 2 16 1 true) [2, 255, 0, 1, 255, 255]).WFAny T0
    (startOf (exBlock 3 16 760)) (some exGecko) :=
  _root_.Peppi.example_G 

/- from `Peppi.Lemmas.Example` -/
open Extracted in
theorem example_A_roundtrip :
    let r := exReplay (exBlock 3 16 760) (exFrames [-123, -122, -122] 17 32 2 16 1 true) [2, 255, 0, 1, 255, 255]
    let s := startOf (exBlock 3 16 760)
    (∃ g, readSlp T0 {} (r.encodeAny s.version (portOccupancy s) none) = .ok g ∧
      writeSlp g = .ok (r.encodeAny s.version (portOccupancy s) none)) ∧
    ∀ n, n < (r.encodeAny s.version (portOccupancy s) none).length →
      ∃ e, readSlp T0 {} ((r.encodeAny s.version (portOccupancy s) none).take n) = .err e :=
  _root_.Peppi.example_A_roundtrip 

/- from `Peppi.Lemmas.Unified2` -/
open Extracted in
theorem C10_rewrite_any (T : TextOracle) (r : Replay) (s : Start) (gk : Option GeckoBlocks) (h : r.WFAny T s gk)
    (hmax : assertMaxVersion s.version = .ok ()) (e : Bytes) (hfe : r.fend = some e) (hash : Bool) :
    ∃ gSkip, readSlp T { skipFrames := true, computeHash := hash } (r.encodeAny s.version (portOccupancy s) gk) = .ok gSkip ∧
      writeSlp gSkip = writeSlp { gSkip with hashedLen := none } ∧
      writeSlp { gSkip with hashedLen := none } = .ok (r.skipped.encodeAny s.version (portOccupancy s) none) ∧
      readSlp T {} (r.skipped.encodeAny s.version (portOccupancy s) none) = .ok { gSkip with hashedLen := none } ∧
      readSlp T { skipFrames := true } (r.skipped.encodeAny s.version (portOccupancy s) none) = .ok { gSkip with hashedLen := none } :=
  _root_.Peppi.C10_rewrite_any T r s gk h hmax e hfe hash

/- from `Peppi.SlppBytes` -/
theorem slppRead_written {μ φ : Type} (C : Codec μ φ) (T : TextOracle) (g : PGame μ φ) (startBytes : Bytes) (endBytes : Option Bytes)
    (hstart : gameStart T startBytes = .ok g.start)
    (hend : endBytes.map gameEnd = g.fend.map Res.ok)
    (hgecko : ∀ c, g.gecko = some c → c.2 < 2 ^ 32)
    (hs : SizesOK C g startBytes endBytes) (skip : Bool) :
    slppRead C T skip (slppWrite C g startBytes endBytes) =
      .ok (if skip then { g with frames := none } else { g with frames := g.frames.map C.norm }) :=
  _root_.Peppi.slppRead_written C T g startBytes endBytes hstart hend hgecko hs skip

end Peppi.Props.C10
