/- Property C07 — A replay file cut short at any byte never yields a partial game, panic or hang

   Statements of the machine-checked theorems this property's check relies on.  Each statement is
   spelled out here and proved from the lemma of the same name under `Peppi/` (generated once by
   `bin/mkprops.py`, then kept as source).  What is proved and what is partial: DESIGN.md §4. -/
import Peppi.Lemmas.Unified
import Peppi.Lemmas.Trunc
import Peppi.Lemmas.C04B
import Peppi.Lemmas.C04C
import Peppi.Lemmas.C10Gen
import Peppi.Lemmas.C10A
import Peppi.Lemmas.ArrowStream
import Peppi.Lemmas.PeppiRead
import Peppi.Lemmas.Example
import Peppi.SlppCut
import Peppi.TarCut
set_option linter.unusedVariables false
namespace Peppi.Props.C07

/- from `Peppi.Lemmas.Unified` -/
open Extracted in
theorem C07_any (T : TextOracle) (r : Replay) (s : Start) (gk : Option GeckoBlocks) (h : r.WFAny T s gk) (hash : Bool)
    (n : Nat) (hn : n < (r.encodeAny s.version (portOccupancy s) gk).length) :
    ∃ e, readSlp T { skipFrames := false, computeHash := hash } ((r.encodeAny s.version (portOccupancy s) gk).take n) = .err e :=
  _root_.Peppi.C07_any T r s gk h hash n hn

/- from `Peppi.Lemmas.Unified` -/
open Extracted in
theorem C07_any_skip (T : TextOracle) (r : Replay) (s : Start) (gk : Option GeckoBlocks) (h : r.WFAny T s gk)
    (e : Bytes) (hfe : r.fend = some e) (hash : Bool)
    (n : Nat) (hn : n < (r.encodeAny s.version (portOccupancy s) gk).length) :
    ∃ err, readSlp T { skipFrames := true, computeHash := hash } ((r.encodeAny s.version (portOccupancy s) gk).take n) = .err err :=
  _root_.Peppi.C07_any_skip T r s gk h e hfe hash n hn

/- from `Peppi.Lemmas.Trunc` -/
open Extracted in
theorem C07_slp_general (T : TextOracle) (opts : Opts) (x : Bytes) (g : Game) (h : readP T opts x = .ok (g, []))
    (n : Nat) (hn : n < x.length) : ∃ e, readSlp T opts (x.take n) = .err e :=
  _root_.Peppi.C07_slp_general T opts x g h n hn

/- from `Peppi.Lemmas.Trunc` -/
open Extracted in
theorem C07_slp_A (T : TextOracle) (r : Replay) (s : Start) (h : r.WF T s) (hash : Bool) (n : Nat)
    (hn : n < (r.encode s.version (portOccupancy s)).length) :
    ∃ e, readSlp T { skipFrames := false, computeHash := hash } ((r.encode s.version (portOccupancy s)).take n) = .err e :=
  _root_.Peppi.C07_slp_A T r s h hash n hn

/- from `Peppi.Lemmas.C04B` -/
open Extracted in
theorem C07_slp_B (T : TextOracle) (r : Replay) (s : Start) (h : r.WFB T s) (hash : Bool) (n : Nat)
    (hn : n < (r.encodeB s.version (portOccupancy s)).length) :
    ∃ e, readSlp T { skipFrames := false, computeHash := hash } ((r.encodeB s.version (portOccupancy s)).take n) = .err e :=
  _root_.Peppi.C07_slp_B T r s h hash n hn

/- from `Peppi.Lemmas.C04C` -/
open Extracted in
theorem C07_slp_C (T : TextOracle) (r : Replay) (s : Start) (h : r.WFC T s) (hash : Bool) (n : Nat)
    (hn : n < (r.encodeC s.version (portOccupancy s)).length) :
    ∃ e, readSlp T { skipFrames := false, computeHash := hash } ((r.encodeC s.version (portOccupancy s)).take n) = .err e :=
  _root_.Peppi.C07_slp_C T r s h hash n hn

/- from `Peppi.Lemmas.C10Gen` -/
open Extracted in
theorem C07_slp_G (T : TextOracle) (r : Replay) (s : Start) (gk : GeckoBlocks) (h : r.WFG T s gk) (hash : Bool)
    (n : Nat) (hn : n < (r.encodeG s.version (portOccupancy s) gk).length) :
    ∃ err, readSlp T { skipFrames := false, computeHash := hash } ((r.encodeG s.version (portOccupancy s) gk).take n) = .err err :=
  _root_.Peppi.C07_slp_G T r s gk h hash n hn

/- from `Peppi.Lemmas.C10A` -/
open Extracted in
theorem C07_slp_skip_A (T : TextOracle) (r : Replay) (s : Start) (h : r.WF T s) (e : Bytes) (hfe : r.fend = some e) (hash : Bool)
    (n : Nat) (hn : n < (r.encode s.version (portOccupancy s)).length) :
    ∃ err, readSlp T { skipFrames := true, computeHash := hash } ((r.encode s.version (portOccupancy s)).take n) = .err err :=
  _root_.Peppi.C07_slp_skip_A T r s h e hfe hash n hn

/- from `Peppi.Lemmas.C10Gen` -/
open Extracted in
theorem C07_slp_skip_B (T : TextOracle) (r : Replay) (s : Start) (h : r.WFB T s) (e : Bytes) (hfe : r.fend = some e) (hash : Bool)
    (n : Nat) (hn : n < (r.encodeB s.version (portOccupancy s)).length) :
    ∃ err, readSlp T { skipFrames := true, computeHash := hash } ((r.encodeB s.version (portOccupancy s)).take n) = .err err :=
  _root_.Peppi.C07_slp_skip_B T r s h e hfe hash n hn

/- from `Peppi.Lemmas.C10Gen` -/
open Extracted in
theorem C07_slp_skip_C (T : TextOracle) (r : Replay) (s : Start) (h : r.WFC T s) (e : Bytes) (hfe : r.fend = some e) (hash : Bool)
    (n : Nat) (hn : n < (r.encodeC s.version (portOccupancy s)).length) :
    ∃ err, readSlp T { skipFrames := true, computeHash := hash } ((r.encodeC s.version (portOccupancy s)).take n) = .err err :=
  _root_.Peppi.C07_slp_skip_C T r s h e hfe hash n hn

/- from `Peppi.Lemmas.C10Gen` -/
open Extracted in
theorem C07_slp_skip_G (T : TextOracle) (r : Replay) (s : Start) (gk : GeckoBlocks) (h : r.WFG T s gk) (e : Bytes) (hfe : r.fend = some e)
    (hash : Bool) (n : Nat) (hn : n < (r.encodeG s.version (portOccupancy s) gk).length) :
    ∃ err, readSlp T { skipFrames := true, computeHash := hash } ((r.encodeG s.version (portOccupancy s) gk).take n) = .err err :=
  _root_.Peppi.C07_slp_skip_G T r s gk h e hfe hash n hn

/- from `Peppi.Lemmas.ArrowStream` -/
theorem readArrowFrames_ok_iff {χ : Type} (items : List (SItem χ)) (f : χ) :
    readArrowFrames items = .ok f ↔ items = [.chunk f] :=
  _root_.Peppi.readArrowFrames_ok_iff items f

/- from `Peppi.Lemmas.PeppiRead` -/
theorem peppiLoop_ok {μ φ : Type} (T : TextOracle) (trailerOk : Bool) :
    ∀ (es : List (PEntry μ φ)) (acc : PAcc μ) (g : PGame μ φ), peppiLoop T false trailerOk acc es = .ok g →
      (∃ f pre post, es = pre ++ PEntry.framesArrow true [.chunk f] :: post ∧ g.frames = some f) ∨
      ((∀ m items, PEntry.framesArrow m items ∉ es) ∧ trailerOk = true ∧ g.frames = none) :=
  _root_.Peppi.peppiLoop_ok T trailerOk

/- from `Peppi.Lemmas.Example` -/
open Extracted in
theorem example_A : (exReplay (exBlock 3 16 760) (exFrames [-123, -122, -122] 17 32 2 16 1 true) [2, 255, 0, 1, 255, 255]).WFAny T0
    (startOf (exBlock 3 16 760)) none :=
  _root_.Peppi.example_A 

/- from `Peppi.Lemmas.Example` -/
open Extracted in
theorem example_B : (exReplay (exBlock 2 2 418) (exFrames [-123, -122, -122] 16 23 1 0 0 false) [2, 255]).WFAny T0
    (startOf (exBlock 2 2 418)) none :=
  _root_.Peppi.example_B 

/- from `Peppi.Lemmas.Example` -/
open Extracted in
theorem example_C : (exReplay (exBlock 1 0 352) (exFrames [-123, -122, -121] 14 12 1 0 0 false) [2]).WFAny T0
    (startOf (exBlock 1 0 352)) none :=
  _root_.Peppi.example_C 

/- from `Peppi.Lemmas.Example` -/
open Extracted in
theorem example_G : (exReplay (exBlock 3 16 760) (exFrames [-123, -122, -122] 17 32 2 16 1 true) [2, 255, 0, 1, 255, 255]).WFAny T0
    (startOf (exBlock 3 16 760)) (some exGecko) :=
  _root_.Peppi.example_G 

/- from `Peppi.Lemmas.Example` -/
open Extracted in
theorem example_A_roundtrip :
    let r := exReplay (exBlock 3 16 760) (exFrames [-123, -122, -122] 17 32 2 16 1 true) [2, 255, 0, 1, 255, 255]
    let s := startOf (exBlock 3 16 760)
    (∃ g, readSlp T0 {} (r.encodeAny s.version (portOccupancy s) none) = .ok g ∧
      writeSlp g = .ok (r.encodeAny s.version (portOccupancy s) none)) ∧
    ∀ n, n < (r.encodeAny s.version (portOccupancy s) none).length →
      ∃ e, readSlp T0 {} ((r.encodeAny s.version (portOccupancy s) none).take n) = .err e :=
  _root_.Peppi.example_A_roundtrip 

/- from `Peppi.SlppCut` -/
theorem slppReadL_cut {μ φ : Type} (C : CodecT μ φ) (T : TextOracle) (g : PGame μ φ) (startBytes : Bytes) (endBytes : Option Bytes)
    (hstart : gameStart T startBytes = .ok g.start)
    (hend : endBytes.map gameEnd = g.fend.map Res.ok)
    (hgecko : ∀ c, g.gecko = some c → c.2 < 2 ^ 32)
    (hs : SizesOK C.toCodec g startBytes endBytes) (skip : Bool) (n : Nat) :
    (∃ m, slppReadL C.toCodec T skip ((slppWrite C.toCodec g startBytes endBytes).take n) = .err m) ∨
    slppReadL C.toCodec T skip ((slppWrite C.toCodec g startBytes endBytes).take n) = .ok (if skip then { g with frames := none } else { g with frames := g.frames.map C.norm }) :=
  _root_.Peppi.slppReadL_cut C T g startBytes endBytes hstart hend hgecko hs skip n

/- from `Peppi.SlppCut` -/
theorem slppReadL_written {μ φ : Type} (C : CodecT μ φ) (T : TextOracle) (g : PGame μ φ) (startBytes : Bytes) (endBytes : Option Bytes)
    (hstart : gameStart T startBytes = .ok g.start)
    (hend : endBytes.map gameEnd = g.fend.map Res.ok)
    (hgecko : ∀ c, g.gecko = some c → c.2 < 2 ^ 32)
    (hs : SizesOK C.toCodec g startBytes endBytes) (skip : Bool) :
    slppReadL C.toCodec T skip (slppWrite C.toCodec g startBytes endBytes) = .ok (if skip then { g with frames := none } else { g with frames := g.frames.map C.norm }) :=
  _root_.Peppi.slppReadL_written C T g startBytes endBytes hstart hend hgecko hs skip

/- from `Peppi.SlppCut` -/
theorem peppiLoop_cut {μ φ : Type} (C : Codec μ φ) (T : TextOracle) (skip : Bool) :
    ∀ (es : List (Bytes × Bytes)), (∀ e ∈ es, PrefOK C T skip e) → ∀ (n : Nat) (acc : PAcc μ),
      (∃ m, peppiLoop T skip (cutItems es n).2 acc ((cutItems es n).1.map (classifyT C)) = .err m) ∨
      peppiLoop T skip (cutItems es n).2 acc ((cutItems es n).1.map (classifyT C)) = peppiLoop T skip true acc (es.map (classify C)) :=
  _root_.Peppi.peppiLoop_cut C T skip

/- from `Peppi.TarCut` -/
theorem tarScan_cut (es : List (Bytes × Bytes)) (hes : ∀ e ∈ es, EntryOK e) (fuel : Nat) (hf : es.length < fuel) (n : Nat) :
    tarScan fuel ((tarArchive es).take n) = cutItems es n :=
  _root_.Peppi.tarScan_cut es hes fuel hf n

/- from `Peppi.SlppCut` -/
theorem exPGame_cut (skip : Bool) (n : Nat) :
    (∃ m, slppReadL toyCodecT.toCodec T0 skip ((slppWrite toyCodecT.toCodec exPGame (exBlock 3 17 760) none).take n) = .err m) ∨
    slppReadL toyCodecT.toCodec T0 skip ((slppWrite toyCodecT.toCodec exPGame (exBlock 3 17 760) none).take n) =
      .ok (if skip then { exPGame with frames := none } else { exPGame with frames := exPGame.frames.map toyCodecT.norm }) :=
  _root_.Peppi.exPGame_cut skip n

/- from `Peppi.SlppCut` -/
theorem slppReadL_cut_json {φ : Type} (C : CodecT KVs φ) (T : TextOracle) (g : PGame KVs φ) (startBytes : Bytes) (endBytes : Option Bytes)
    (hstart : gameStart T startBytes = .ok g.start)
    (hend : endBytes.map gameEnd = g.fend.map Res.ok)
    (hgecko : ∀ c, g.gecko = some c → c.2 < 2 ^ 32)
    (hs : SizesOK C.withJson.toCodec g startBytes endBytes) (skip : Bool) (n : Nat) :
    (∃ m, slppReadL C.withJson.toCodec T skip ((slppWrite C.withJson.toCodec g startBytes endBytes).take n) = .err m) ∨
    slppReadL C.withJson.toCodec T skip ((slppWrite C.withJson.toCodec g startBytes endBytes).take n) =
      .ok (if skip then { g with frames := none } else { g with frames := g.frames.map C.norm }) :=
  _root_.Peppi.slppReadL_cut_json C T g startBytes endBytes hstart hend hgecko hs skip n

/- from `Peppi.SlppCut` -/
theorem slppReadL_noPanic {μ φ : Type} (C : CodecT μ φ) (T : TextOracle) (skip : Bool) (bs : Bytes) (s : String) :
    slppReadL C.toCodec T skip bs ≠ .panic s :=
  _root_.Peppi.slppReadL_noPanic C T skip bs s

/- from `Peppi.Lemmas.Trunc` -/
open Extracted in
theorem local_parseStart (T : TextOracle) : Rd.Local (parseStart T) :=
  _root_.Peppi.local_parseStart T

/- from `Peppi.Lemmas.Trunc` -/
open Extracted in
theorem local_parseEvent (ps : ParseState) : Rd.Local (parseEvent ps) :=
  _root_.Peppi.local_parseEvent ps

/- from `Peppi.Lemmas.Trunc` -/
open Extracted in
theorem local_parseMetadata (utf8 st) : Rd.Local (parseMetadata utf8 st) :=
  _root_.Peppi.local_parseMetadata utf8 st

end Peppi.Props.C07
