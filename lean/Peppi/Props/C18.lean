/- Property C18 — .slpp is a tar starting with peppi.json whose entries agree with each other

   Statements of the machine-checked theorems this property's check relies on.  Each statement is
   spelled out here and proved from the lemma of the same name under `Peppi/` (generated once by
   `bin/mkprops.py`, then kept as source).  What is proved and what is partial: DESIGN.md §4. -/
import Peppi.Lemmas.PeppiRead
import Peppi.Lemmas.PeppiRound
import Peppi.Lemmas.C09P
import Peppi.Tar
import Peppi.SlppBytes
import Peppi.TarCut
import Peppi.SlppCut
import Peppi.PeppiJson
import Peppi.SlppConsistent
set_option linter.unusedVariables false
namespace Peppi.Props.C18

/- from `Peppi.Lemmas.PeppiRead` -/
theorem peppiLoop_skip_other {μ φ : Type} (T : TextOracle) (skip trailerOk : Bool) :
    ∀ (es : List (PEntry μ φ)) (acc : PAcc μ),
      peppiLoop T skip trailerOk acc es = peppiLoop T skip trailerOk acc (es.filter fun e => match e with | .other => false | _ => true) :=
  _root_.Peppi.peppiLoop_skip_other T skip trailerOk

/- from `Peppi.Lemmas.PeppiRound` -/
theorem peppiRead_written {μ φ : Type} (T : TextOracle) (g : PGame μ φ) (startBytes : Bytes) (endBytes : Option Bytes) (trailerOk : Bool)
    (hstart : gameStart T startBytes = .ok g.start)
    (hend : endBytes.map gameEnd = g.fend.map Res.ok)
    (hgecko : ∀ c, g.gecko = some c → c.2 < 2 ^ 32)
    (hframes : g.frames = none → trailerOk = true) :
    peppiRead T false trailerOk (writtenEntries g startBytes endBytes) = .ok g :=
  _root_.Peppi.peppiRead_written T g startBytes endBytes trailerOk hstart hend hgecko hframes

/- from `Peppi.Lemmas.C09P` -/
theorem assertCurrentVersion_iff (v : Nat × Nat × Nat) : assertCurrentVersion v = .ok () ↔ 2 ≤ v.1 :=
  _root_.Peppi.assertCurrentVersion_iff v

/- from `Peppi.Tar` -/
theorem tarArchive_starts (name data : Bytes) (es : List (Bytes × Bytes)) :
    (tarArchive ((name, data) :: es)).take name.length = name :=
  _root_.Peppi.tarArchive_starts name data es

/- from `Peppi.Tar` -/
theorem tarRead_archive (es : List (Bytes × Bytes)) (hes : ∀ e ∈ es, EntryOK e) (fuel : Nat) (hf : es.length < fuel) :
    tarRead fuel (tarArchive es) = .ok (es, true) :=
  _root_.Peppi.tarRead_archive es hes fuel hf

/- from `Peppi.Tar` -/
theorem tarEntry_length (e : Bytes × Bytes) (hn : e.1.length ≤ 100) : (tarEntry e).length % 512 = 0 :=
  _root_.Peppi.tarEntry_length e hn

/- from `Peppi.Tar` -/
theorem parseOctal_octal (k n : Nat) (h : n < 8 ^ k) : parseOctal (octal k n) = some n :=
  _root_.Peppi.parseOctal_octal k n h

/- from `Peppi.SlppBytes` -/
theorem slppRead_written {μ φ : Type} (C : Codec μ φ) (T : TextOracle) (g : PGame μ φ) (startBytes : Bytes) (endBytes : Option Bytes)
    (hstart : gameStart T startBytes = .ok g.start)
    (hend : endBytes.map gameEnd = g.fend.map Res.ok)
    (hgecko : ∀ c, g.gecko = some c → c.2 < 2 ^ 32)
    (hs : SizesOK C g startBytes endBytes) (skip : Bool) :
    slppRead C T skip (slppWrite C g startBytes endBytes) =
      .ok (if skip then { g with frames := none } else { g with frames := g.frames.map C.norm }) :=
  _root_.Peppi.slppRead_written C T g startBytes endBytes hstart hend hgecko hs skip

/- from `Peppi.SlppBytes` -/
theorem slppWrite_signature {μ φ : Type} (C : Codec μ φ) (g : PGame μ φ) (startBytes : Bytes) (endBytes : Option Bytes) :
    (slppWrite C g startBytes endBytes).take 10 = N_PEPPI :=
  _root_.Peppi.slppWrite_signature C g startBytes endBytes

/- from `Peppi.Tar` -/
theorem tarArchive_length_ge (es : List (Bytes × Bytes)) (hn : ∀ e ∈ es, e.1.length ≤ 100) :
    512 * es.length + 1024 ≤ (tarArchive es).length :=
  _root_.Peppi.tarArchive_length_ge es hn

/- from `Peppi.TarCut` -/
theorem tarScan_cut (es : List (Bytes × Bytes)) (hes : ∀ e ∈ es, EntryOK e) (fuel : Nat) (hf : es.length < fuel) (n : Nat) :
    tarScan fuel ((tarArchive es).take n) = cutItems es n :=
  _root_.Peppi.tarScan_cut es hes fuel hf n

/- from `Peppi.SlppCut` -/
theorem slppReadL_written {μ φ : Type} (C : CodecT μ φ) (T : TextOracle) (g : PGame μ φ) (startBytes : Bytes) (endBytes : Option Bytes)
    (hstart : gameStart T startBytes = .ok g.start)
    (hend : endBytes.map gameEnd = g.fend.map Res.ok)
    (hgecko : ∀ c, g.gecko = some c → c.2 < 2 ^ 32)
    (hs : SizesOK C.toCodec g startBytes endBytes) (skip : Bool) :
    slppReadL C.toCodec T skip (slppWrite C.toCodec g startBytes endBytes) = .ok (if skip then { g with frames := none } else { g with frames := g.frames.map C.norm }) :=
  _root_.Peppi.slppReadL_written C T g startBytes endBytes hstart hend hgecko hs skip

/- from `Peppi.PeppiJson` -/
theorem decPeppiJ_enc (h : Option String) (q : Option Bool) : decPeppiJ (encPeppiJ h q) = .ok ⟨true, h, q⟩ :=
  _root_.Peppi.decPeppiJ_enc h q

/- from `Peppi.PeppiJson` -/
theorem decPeppiJ_encV (a b c : Nat) (ha : a ≤ 255) (hb : b ≤ 255) (hc : c ≤ 255) (h : Option String) (q : Option Bool) :
    decPeppiJ (encPeppiV a b c h q) = .ok ⟨decide (2 ≤ a), h, q⟩ :=
  _root_.Peppi.decPeppiJ_encV a b c ha hb hc h q

/- from `Peppi.SlppCut` -/
theorem slppRead_written_json2 {φ : Type} (C : Codec KVs φ) (T : TextOracle) (g : PGame KVs φ) (startBytes : Bytes) (endBytes : Option Bytes)
    (hstart : gameStart T startBytes = .ok g.start)
    (hend : endBytes.map gameEnd = g.fend.map Res.ok)
    (hgecko : ∀ c, g.gecko = some c → c.2 < 2 ^ 32)
    (hs : SizesOK C.withJson g startBytes endBytes) (skip : Bool) :
    slppRead C.withJson T skip (slppWrite C.withJson g startBytes endBytes) = .ok (if skip then { g with frames := none } else { g with frames := g.frames.map C.norm }) :=
  _root_.Peppi.slppRead_written_json2 C T g startBytes endBytes hstart hend hgecko hs skip

/- from `Peppi.SlppConsistent` -/
theorem slppEntries_names_order {μ φ : Type} (C : Codec μ φ) (g : PGame μ φ) (sb : Bytes) (eb : Option Bytes)
    (hend : eb.isSome = g.fend.isSome) :
    (slppEntries C g sb eb).map (·.1) = entryNames g.fend.isSome g.gecko.isSome g.frames.isSome :=
  _root_.Peppi.slppEntries_names_order C g sb eb hend

/- from `Peppi.SlppConsistent` -/
theorem slppEntries_consistent {μ φ : Type} (C : Codec μ φ) (T : TextOracle) (g : PGame μ φ) (sb : Bytes) (eb : Option Bytes)
    (hstart : gameStart T sb = .ok g.start) (hend : eb.map gameEnd = g.fend.map Res.ok) :
    let es := slppEntries C g sb eb
    (∃ raw s, lookupEntry N_STARTR es = some raw ∧ gameStart T raw = .ok s ∧ lookupEntry N_STARTJ es = some (C.startJson s)) ∧
    (∀ e, g.fend = some e → ∃ raw, lookupEntry N_ENDR es = some raw ∧ gameEnd raw = .ok e ∧ lookupEntry N_ENDJ es = some (C.endJson e)) ∧
    (g.fend = none → lookupEntry N_ENDR es = none ∧ lookupEntry N_ENDJ es = none) ∧
    (∃ txt, lookupEntry N_PEPPI es = some txt ∧ C.decPeppi txt = .ok ⟨true, g.hash, g.quirks⟩) :=
  _root_.Peppi.slppEntries_consistent C T g sb eb hstart hend

/- from `Peppi.SlppConsistent` -/
theorem slppWrite_deterministic {μ φ : Type} (C : Codec μ φ) (g g' : PGame μ φ) (sb sb' : Bytes) (eb eb' : Option Bytes)
    (h : g = g') (hs : sb = sb') (he : eb = eb') : slppWrite C g sb eb = slppWrite C g' sb' eb' :=
  _root_.Peppi.slppWrite_deterministic C g g' sb sb' eb eb' h hs he

end Peppi.Props.C18
