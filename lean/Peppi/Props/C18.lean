/- Property C18 — .slpp is a tar starting with peppi.json whose entries agree with each other

   Statements of the machine-checked theorems this property's check relies on.  Each statement is
   spelled out here and proved from the lemma of the same name under `Peppi/` (generated once by
   `bin/mkprops.py`, then kept as source).  What is proved and what is partial: DESIGN.md §4. -/
import Peppi.Lemmas.PeppiRead
import Peppi.Lemmas.PeppiRound
import Peppi.Lemmas.C09P
set_option linter.unusedVariables false
namespace Peppi.Props.C18

/- from `Peppi.Lemmas.PeppiRead` -/
theorem peppiLoop_skip_other {χ : Type} (T : TextOracle) (skip trailerOk : Bool) :
    ∀ (es : List (PEntry χ)) (acc : PAcc χ),
      peppiLoop T skip trailerOk acc es = peppiLoop T skip trailerOk acc (es.filter fun e => match e with | .other => false | _ => true) :=
  _root_.Peppi.peppiLoop_skip_other T skip trailerOk

/- from `Peppi.Lemmas.PeppiRound` -/
theorem peppiRead_written {χ : Type} (T : TextOracle) (g : PGame χ) (startBytes : Bytes) (endBytes : Option Bytes) (trailerOk : Bool)
    (hstart : gameStart T startBytes = .ok g.start)
    (hend : endBytes.map gameEnd = g.fend.map Res.ok)
    (hgecko : ∀ c, g.gecko = some c → c.2 < 2 ^ 32)
    (hframes : g.frames = none → trailerOk = true) :
    peppiRead T false trailerOk (writtenEntries g startBytes endBytes) = .ok g :=
  _root_.Peppi.peppiRead_written T g startBytes endBytes trailerOk hstart hend hgecko hframes

/- from `Peppi.Lemmas.C09P` -/
theorem assertCurrentVersion_iff (v : Nat × Nat × Nat) : assertCurrentVersion v = .ok () ↔ 2 ≤ v.1 :=
  _root_.Peppi.assertCurrentVersion_iff v

end Peppi.Props.C18
