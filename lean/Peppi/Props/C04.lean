/- Property C04 — Frame rows, character presence and item grouping mirror the event history

   Statements of the machine-checked theorems this property's check relies on.  Each statement is
   spelled out here and proved from the lemma of the same name under `Peppi/` (generated once by
   `bin/mkprops.py`, then kept as source).  What is proved and what is partial: DESIGN.md §4. -/
import Peppi.Lemmas.Unified
import Peppi.Lemmas.C04A
import Peppi.Lemmas.C04B
import Peppi.Lemmas.C04C
import Peppi.Lemmas.C04G
import Peppi.Lemmas.FrameStep
import Peppi.Lemmas.PortMap
import Peppi.PremisesCore
import Peppi.Lemmas.Example
import Peppi.Lemmas.Lengths
import Peppi.Lemmas.Wrapped
set_option linter.unusedVariables false
namespace Peppi.Props.C04

/- from `Peppi.Lemmas.Unified` -/
open Extracted in
theorem C04_any (T : TextOracle) (r : Replay) (s : Start) (gk : Option GeckoBlocks) (h : r.WFAny T s gk) :
    ∃ ge : Option End, r.fend.map gameEnd = ge.map Res.ok ∧
      readP T {} (r.encodeAny s.version (portOccupancy s) gk) = .ok (r.gameAny s ge gk, []) :=
  _root_.Peppi.C04_any T r s gk h

/- from `Peppi.Lemmas.C04A` -/
open Extracted in
theorem readP_encode_A (T : TextOracle) (r : Replay) (s : Start) (h : r.WF T s) :
    ∃ ge : Option End, r.fend.map gameEnd = ge.map Res.ok ∧
      readP T {} (r.encode s.version (portOccupancy s)) = .ok (r.game s ge, []) :=
  _root_.Peppi.readP_encode_A T r s h

/- from `Peppi.Lemmas.C04B` -/
open Extracted in
theorem readP_encode_B (T : TextOracle) (r : Replay) (s : Start) (h : r.WFB T s) :
    ∃ ge : Option End, r.fend.map gameEnd = ge.map Res.ok ∧
      readP T {} (r.encodeB s.version (portOccupancy s)) = .ok (r.game s ge, []) :=
  _root_.Peppi.readP_encode_B T r s h

/- from `Peppi.Lemmas.C04C` -/
open Extracted in
theorem readP_encode_C (T : TextOracle) (r : Replay) (s : Start) (h : r.WFC T s) :
    ∃ ge : Option End, r.fend.map gameEnd = ge.map Res.ok ∧
      readP T {} (r.encodeC s.version (portOccupancy s)) = .ok (r.game s ge, []) :=
  _root_.Peppi.readP_encode_C T r s h

/- from `Peppi.Lemmas.C04G` -/
open Extracted in
theorem readP_encode_G (T : TextOracle) (r : Replay) (s : Start) (gk : GeckoBlocks) (h : r.WFG T s gk) :
    ∃ ge : Option End, r.fend.map gameEnd = ge.map Res.ok ∧
      readP T {} (r.encodeG s.version (portOccupancy s) gk) = .ok (r.gameG s ge gk, []) :=
  _root_.Peppi.readP_encode_G T r s gk h

/- from `Peppi.Lemmas.C04A` -/
open Extracted in
theorem read_encode_A (T : TextOracle) (r : Replay) (s : Start) (h : r.WF T s) :
    ∃ ge : Option End, r.fend.map gameEnd = ge.map Res.ok ∧
      readSlp T {} (r.encode s.version (portOccupancy s)) = .ok (r.game s ge) :=
  _root_.Peppi.read_encode_A T r s h

/- from `Peppi.Lemmas.FrameStep` -/
open Extracted in
theorem frames_A (v : Ver) (shape : List PortOccupancy) (h0 h : List FrameOcc) (st : PState)
    (hv : st.start.version = v) (h30 : v.gte 3 0 = true) (h22 : v.gte 2 2 = true)
    (hfr : st.frames = expFrames v shape h0)
    (hmap : PortMapOK st.portIdx shape) (hports : ∀ p ∈ shape, p.port < 256)
    (hok : ∀ o ∈ h, o.OK v (nSlots shape)) :
    runEvents st (h.flatMap (frameEventsA v shape)) = .ok { st with frames := expFrames v shape (h0 ++ h) } :=
  _root_.Peppi.frames_A v shape h0 h st hv h30 h22 hfr hmap hports hok

/- from `Peppi.Lemmas.C04B` -/
open Extracted in
theorem frames_B (v : Ver) (shape : List PortOccupancy) (h30 : v.gte 3 0 = false) (h22 : v.gte 2 2 = true)
    (hports : ∀ p ∈ shape, p.port < 256) :
    ∀ (h h0 : List FrameOcc) (st : PState), st.start.version = v → OpenInv v shape h0 st.frames → PortMapOK st.portIdx shape →
      (∀ o ∈ h, o.OK v (nSlots shape)) →
      ∃ st', runEvents st (h.flatMap (frameEventsB v shape)) = .ok st' ∧ st'.ctx = st.ctx ∧ st'.fend = st.fend ∧ st'.gecko = st.gecko ∧
        st'.metadata = st.metadata ∧ st'.doubleGameEnd = st.doubleGameEnd ∧ OpenInv v shape (h0 ++ h) st'.frames :=
  _root_.Peppi.frames_B v shape h30 h22 hports

/- from `Peppi.Lemmas.C04C` -/
open Extracted in
theorem frames_C (v : Ver) (shape : List PortOccupancy) (h30 : v.gte 3 0 = false) (h22 : v.gte 2 2 = false)
    (hports : ∀ p ∈ shape, p.port < 256) :
    ∀ (h h0 : List FrameOcc) (st : PState), st.start.version = v → OpenInv v shape h0 st.frames → PortMapOK st.portIdx shape →
      (∀ o ∈ h, o.OK v (nSlots shape)) →
      (∀ pre o post, h = pre ++ o :: post →
        (((h0 ++ pre).map (·.id)).getLast?).getD (FIRST_INDEX - 1) + 1 = o.id ∧ presentFrom 0 o.chars ≠ []) →
      ∃ st', runEvents st (h.flatMap (frameEventsC v shape)) = .ok st' ∧ st'.ctx = st.ctx ∧ st'.fend = st.fend ∧ st'.gecko = st.gecko ∧
        st'.metadata = st.metadata ∧ st'.doubleGameEnd = st.doubleGameEnd ∧ OpenInv v shape (h0 ++ h) st'.frames :=
  _root_.Peppi.frames_C v shape h30 h22 hports

/- from `Peppi.Lemmas.PortMap` -/
open Extracted in
theorem portMap_of_gameStart (T : TextOracle) (b : Bytes) (s : Start) (h : gameStart T b = .ok s) :
    PortMapOK (portIdxOf (portOccupancy s)) (portOccupancy s) ∧ ∀ p ∈ portOccupancy s, p.port < 256 :=
  _root_.Peppi.portMap_of_gameStart T b s h

/- from `Peppi.PremisesCore` -/
open Extracted in
theorem core_End : structCoreOK true true End.views = true :=
  _root_.Peppi.core_End 

/- from `Peppi.PremisesCore` -/
open Extracted in
theorem core_Item : structCoreOK false true Item.views = true :=
  _root_.Peppi.core_Item 

/- from `Peppi.PremisesCore` -/
open Extracted in
theorem core_ItemMisc : structCoreOK false false ItemMisc.views = true :=
  _root_.Peppi.core_ItemMisc 

/- from `Peppi.PremisesCore` -/
open Extracted in
theorem core_Position : structCoreOK false true Position.views = true :=
  _root_.Peppi.core_Position 

/- from `Peppi.PremisesCore` -/
open Extracted in
theorem core_Post : structCoreOK false true Post.views = true :=
  _root_.Peppi.core_Post 

/- from `Peppi.PremisesCore` -/
open Extracted in
theorem core_Pre : structCoreOK false true Pre.views = true :=
  _root_.Peppi.core_Pre 

/- from `Peppi.PremisesCore` -/
open Extracted in
theorem core_Start : structCoreOK false true Start.views = true :=
  _root_.Peppi.core_Start 

/- from `Peppi.PremisesCore` -/
open Extracted in
theorem core_StateFlags : structCoreOK false false StateFlags.views = true :=
  _root_.Peppi.core_StateFlags 

/- from `Peppi.PremisesCore` -/
open Extracted in
theorem core_TriggersPhysical : structCoreOK false true TriggersPhysical.views = true :=
  _root_.Peppi.core_TriggersPhysical 

/- from `Peppi.PremisesCore` -/
open Extracted in
theorem core_Velocities : structCoreOK false true Velocities.views = true :=
  _root_.Peppi.core_Velocities 

/- from `Peppi.PremisesCore` -/
open Extracted in
theorem core_Velocity : structCoreOK false true Velocity.views = true :=
  _root_.Peppi.core_Velocity 

/- from `Peppi.Lemmas.Example` -/
open Extracted in
theorem example_A : (exReplay (exBlock 3 16 760) (exFrames [-123, -122, -122] 17 32 2 16 1 true) [2, 255, 0, 1, 255, 255]).WFAny T0
    (startOf (exBlock 3 16 760)) none :=
  _root_.Peppi.example_A 

/- from `Peppi.Lemmas.Example` -/
open Extracted in
theorem example_B : (exReplay (exBlock 2 2 418) (exFrames [-123, -122, -122] 16 23 1 0 0 false) [2, 255]).WFAny T0
    (startOf (exBlock 2 2 418)) none :=
  _root_.Peppi.example_B 

/- from `Peppi.Lemmas.Example` -/
open Extracted in
theorem example_C : (exReplay (exBlock 1 0 352) (exFrames [-123, -122, -121] 14 12 1 0 0 false) [2]).WFAny T0
    (startOf (exBlock 1 0 352)) none :=
  _root_.Peppi.example_C 

/- from `Peppi.Lemmas.Example` -/
open Extracted in
theorem example_G : (exReplay (exBlock 3 16 760) (exFrames [-123, -122, -122] 17 32 2 16 1 true) [2, 255, 0, 1, 255, 255]).WFAny T0
    (startOf (exBlock 3 16 760)) (some exGecko) :=
  _root_.Peppi.example_G 

/- from `Peppi.Lemmas.Example` -/
open Extracted in
theorem example_A_roundtrip :
    let r := exReplay (exBlock 3 16 760) (exFrames [-123, -122, -122] 17 32 2 16 1 true) [2, 255, 0, 1, 255, 255]
    let s := startOf (exBlock 3 16 760)
    (∃ g, readSlp T0 {} (r.encodeAny s.version (portOccupancy s) none) = .ok g ∧
      writeSlp g = .ok (r.encodeAny s.version (portOccupancy s) none)) ∧
    ∀ n, n < (r.encodeAny s.version (portOccupancy s) none).length →
      ∃ e, readSlp T0 {} ((r.encodeAny s.version (portOccupancy s) none).take n) = .err e :=
  _root_.Peppi.example_A_roundtrip 

/- from `Peppi.Lemmas.Lengths` -/
open Extracted in
theorem expFrames_lengths (v : Ver) (shape : List PortOccupancy) (h : List FrameOcc) :
    let F := expFrames v shape h
    F.id.length = h.length ∧
    (∀ sc, F.start = some sc → sc.length = h.length) ∧
    (∀ ec, F.fend = some ec → ec.length = h.length) ∧
    (∀ o, F.itemOff = some o → o.length = h.length + 1) ∧
    (∀ it, F.item = some it → it.length = (h.flatMap (·.items)).length) ∧
    F.ports.length = shape.length ∧
    (∀ p ∈ F.ports, p.leader.LenIs h.length ∧ ∀ f, p.follower = some f → f.LenIs h.length) :=
  _root_.Peppi.expFrames_lengths v shape h

/- from `Peppi.Lemmas.Lengths` -/
open Extracted in
theorem C04_lengths (T : TextOracle) (r : Replay) (s : Start) (gk : Option GeckoBlocks) (h : r.WFAny T s gk) :
    ∃ g rest, readP T {} (r.encodeAny s.version (portOccupancy s) gk) = .ok (g, rest) ∧
      g.frames.id.length = r.frames.length ∧ g.frames.ports.length = (portOccupancy s).length ∧
      (∀ p ∈ g.frames.ports, p.leader.LenIs r.frames.length ∧ ∀ f, p.follower = some f → f.LenIs r.frames.length) ∧
      (∀ sc, g.frames.start = some sc → sc.length = r.frames.length) ∧ (∀ ec, g.frames.fend = some ec → ec.length = r.frames.length) ∧
      (∀ o, g.frames.itemOff = some o → o.length = r.frames.length + 1) :=
  _root_.Peppi.C04_lengths T r s gk h

/- from `Peppi.Lemmas.Lengths` -/
open Extracted in
theorem rebuild_mem : ∀ (shape : List PortOccupancy) (slots : List DCols), slots.length = nSlots shape →
    ∀ p ∈ rebuild shape slots, p.leader ∈ slots ∧ ∀ f, p.follower = some f → f ∈ slots :=
  _root_.Peppi.rebuild_mem 

/- from `Peppi.Lemmas.Wrapped` -/
open Extracted in
theorem parseEvent_wrapped (ps : ParseState) (c : Nat) (p pad rest : Bytes) (st' : PState)
    (hc : isFrameEv c = true) (h512 : (p ++ pad).length = 512)
    (hsz : sizeOfEv ps.st.sizes EV_SPLITTER = some 516) (hraw : ps.st.splitRaw = [])
    (hact : ps.st.splitActual + p.length < 2 ^ 32)
    (hplain : handleEvent { ps.st with splitActual := ps.st.splitActual + p.length } c p = .ok st') :
    parseEvent ps (encEvent (EV_SPLITTER, splitPayloadC (p ++ pad) p.length true c) ++ rest) =
      .ok ((c, { st := st', bytesRead := ps.bytesRead + 516 + 1 }), rest) :=
  _root_.Peppi.parseEvent_wrapped ps c p pad rest st' hc h512 hsz hraw hact hplain

end Peppi.Props.C04
