/- Property C06 — Reading never panics, aborts or hangs, whatever bytes it is given

   Statements of the machine-checked theorems this property's check relies on.  Each statement is
   spelled out here and proved from the lemma of the same name under `Peppi/` (generated once by
   `bin/mkprops.py`, then kept as source).  What is proved and what is partial: DESIGN.md §4. -/
import Peppi.Lemmas.NoPanic
import Peppi.Lemmas.Fuel
import Peppi.Lemmas.ArrowStream
import Peppi.ReadProg
set_option linter.unusedVariables false
namespace Peppi.Props.C06

/- from `Peppi.Lemmas.NoPanic` -/
open Extracted in
theorem readSlp_noPanic (T : TextOracle) (opts : Opts) (input : Bytes) : ∀ s, readSlp T opts input ≠ .panic s :=
  _root_.Peppi.readSlp_noPanic T opts input

/- from `Peppi.Lemmas.Fuel` -/
open Extracted in
theorem eventLoop_fuel : ∀ (f1 f2 rawLen : Nat) (ps : ParseState) (bs : Bytes), bs.length < f1 → bs.length < f2 →
    eventLoop f1 rawLen ps bs = eventLoop f2 rawLen ps bs :=
  _root_.Peppi.eventLoop_fuel 

/- from `Peppi.Lemmas.Fuel` -/
open Extracted in
theorem ubj_fuel (utf8 : Bytes → Bool) : ∀ f1 : Nat,
    (∀ f2 d bs, bs.length < f1 → bs.length < f2 → toVal utf8 f1 d bs = toVal utf8 f2 d bs) ∧
    (∀ f2 d bs acc, bs.length < f1 → bs.length < f2 → readMapLoop utf8 f1 d bs acc = readMapLoop utf8 f2 d bs acc) :=
  _root_.Peppi.ubj_fuel utf8

/- from `Peppi.Lemmas.Fuel` -/
open Extracted in
theorem parseEvent_consumes (ps : ParseState) (bs : Bytes) (r) (rest : Bytes) (h : parseEvent ps bs = .ok (r, rest)) :
    rest.length < bs.length :=
  _root_.Peppi.parseEvent_consumes ps bs r rest h

/- from `Peppi.Lemmas.ArrowStream` -/
theorem readArrowFrames_noPanic {χ : Type} (items : List (SItem χ)) : ∀ s, readArrowFrames items ≠ .panic s :=
  _root_.Peppi.readArrowFrames_noPanic items

/- from `Peppi.ReadProg` -/
open Extracted Peppi.Prog in
theorem run_shrinks {α} (p : Prog α) : ∀ bs a rest, p.run bs = .ok (a, rest) → rest.length ≤ bs.length :=
  _root_.Peppi.Prog.run_shrinks p

/- from `Peppi.ReadProg` -/
open Extracted Peppi.Prog in
theorem run_readProg (T : TextOracle) (opts : Opts) (fuel : Nat) (x : Bytes) (hf : 2 * x.length + 2 ≤ fuel) :
    (readProg T opts fuel).run x = readP T opts x :=
  _root_.Peppi.Prog.run_readProg T opts fuel x hf

/- from `Peppi.Lemmas.NoPanic` -/
open Extracted in
theorem parseStart_safe (T : TextOracle) : Rd.Safe (fun ps => StInv ps.st) (parseStart T) :=
  _root_.Peppi.parseStart_safe T

/- from `Peppi.Lemmas.NoPanic` -/
open Extracted in
theorem parseEvent_safe (ps : ParseState) (hinv : StInv ps.st) :
    Rd.Safe (fun r => StInv r.2.st) (parseEvent ps) :=
  _root_.Peppi.parseEvent_safe ps hinv

/- from `Peppi.Lemmas.NoPanic` -/
open Extracted in
theorem parseMetadata_noPanic (utf8 st) : Rd.NoPanic (parseMetadata utf8 st) :=
  _root_.Peppi.parseMetadata_noPanic utf8 st

/- from `Peppi.Lemmas.NoPanic` -/
open Extracted in
theorem readMap_noPanic (utf8 : Bytes → Bool) (bs : Bytes) : Res.NoPanic (readMap utf8 bs) :=
  _root_.Peppi.readMap_noPanic utf8 bs

end Peppi.Props.C06
