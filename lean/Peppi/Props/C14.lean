/- Property C14 — The Arrow struct array has the per-version schema and converts back losslessly

   Statements of the machine-checked theorems this property's check relies on.  Each statement is
   spelled out here and proved from the lemma of the same name under `Peppi/` (generated once by
   `bin/mkprops.py`, then kept as source).  What is proved and what is partial: DESIGN.md §4. -/
import Peppi.Lemmas.ArrowFrame
import Peppi.Lemmas.Transpose
import Peppi.PremisesViews
set_option linter.unusedVariables false
namespace Peppi.Props.C14

/- from `Peppi.Lemmas.ArrowFrame` -/
theorem fromF_norm_intoF (w : Widths) (f : FCols) (h : FrameRowsOK w f) : fromF (normF (intoF w f)) = f :=
  _root_.Peppi.fromF_norm_intoF w f h

/- from `Peppi.Lemmas.ArrowFrame` -/
theorem fromF'_norm_intoF' (w : Widths) (f : FCols) (h : FrameRowsOK w f) (hw : w.fend = 0)
    (ec : SCols) (hfe : f.fend = some ec) (hpresent : ec = List.replicate f.id.length (some [])) :
    fromF' true (normF (intoF' w f)) = f :=
  _root_.Peppi.fromF'_norm_intoF' w f h hw ec hfe hpresent

/- from `Peppi.Lemmas.Transpose` -/
theorem fromCols_toCols (n : Nat) (rows : SCols) (hok : RowsOK n rows) :
    fromCols rows.length (toCols n rows) (validOfRows rows) = rows :=
  _root_.Peppi.fromCols_toCols n rows hok

/- from `Peppi.Lemmas.Transpose` -/
theorem fromCols_allset (len : Nat) (cols : List (List Nat)) :
    fromCols len cols (some (List.replicate len true)) = fromCols len cols none :=
  _root_.Peppi.fromCols_allset len cols

/- from `Peppi.PremisesViews` -/
open Extracted in
theorem views_End : structOK true true End.views = true :=
  _root_.Peppi.views_End 

/- from `Peppi.PremisesViews` -/
open Extracted in
theorem views_Item : structOK false true Item.views = true :=
  _root_.Peppi.views_Item 

/- from `Peppi.PremisesViews` -/
open Extracted in
theorem views_ItemMisc : structOK false false ItemMisc.views = true :=
  _root_.Peppi.views_ItemMisc 

/- from `Peppi.PremisesViews` -/
open Extracted in
theorem views_Position : structOK false true Position.views = true :=
  _root_.Peppi.views_Position 

/- from `Peppi.PremisesViews` -/
open Extracted in
theorem views_Post : structOK false true Post.views = true :=
  _root_.Peppi.views_Post 

/- from `Peppi.PremisesViews` -/
open Extracted in
theorem views_Pre : structOK false true Pre.views = true :=
  _root_.Peppi.views_Pre 

/- from `Peppi.PremisesViews` -/
open Extracted in
theorem views_Start : structOK false true Start.views = true :=
  _root_.Peppi.views_Start 

/- from `Peppi.PremisesViews` -/
open Extracted in
theorem views_StateFlags : structOK false false StateFlags.views = true :=
  _root_.Peppi.views_StateFlags 

/- from `Peppi.PremisesViews` -/
open Extracted in
theorem views_TriggersPhysical : structOK false true TriggersPhysical.views = true :=
  _root_.Peppi.views_TriggersPhysical 

/- from `Peppi.PremisesViews` -/
open Extracted in
theorem views_Velocities : structOK false true Velocities.views = true :=
  _root_.Peppi.views_Velocities 

/- from `Peppi.PremisesViews` -/
open Extracted in
theorem views_Velocity : structOK false true Velocity.views = true :=
  _root_.Peppi.views_Velocity 

/- from `Peppi.PremisesViews` -/
open Extracted in
theorem schema_End : schemaMatchesJson End.views End.framesJson = true :=
  _root_.Peppi.schema_End 

/- from `Peppi.PremisesViews` -/
open Extracted in
theorem schema_Item : schemaMatchesJson Item.views Item.framesJson = true :=
  _root_.Peppi.schema_Item 

/- from `Peppi.PremisesViews` -/
open Extracted in
theorem schema_ItemMisc : schemaMatchesJson ItemMisc.views ItemMisc.framesJson = true :=
  _root_.Peppi.schema_ItemMisc 

/- from `Peppi.PremisesViews` -/
open Extracted in
theorem schema_Position : schemaMatchesJson Position.views Position.framesJson = true :=
  _root_.Peppi.schema_Position 

/- from `Peppi.PremisesViews` -/
open Extracted in
theorem schema_Post : schemaMatchesJson Post.views Post.framesJson = true :=
  _root_.Peppi.schema_Post 

/- from `Peppi.PremisesViews` -/
open Extracted in
theorem schema_Pre : schemaMatchesJson Pre.views Pre.framesJson = true :=
  _root_.Peppi.schema_Pre 

/- from `Peppi.PremisesViews` -/
open Extracted in
theorem schema_Start : schemaMatchesJson Start.views Start.framesJson = true :=
  _root_.Peppi.schema_Start 

/- from `Peppi.PremisesViews` -/
open Extracted in
theorem schema_StateFlags : schemaMatchesJson StateFlags.views StateFlags.framesJson = true :=
  _root_.Peppi.schema_StateFlags 

/- from `Peppi.PremisesViews` -/
open Extracted in
theorem schema_TriggersPhysical : schemaMatchesJson TriggersPhysical.views TriggersPhysical.framesJson = true :=
  _root_.Peppi.schema_TriggersPhysical 

/- from `Peppi.PremisesViews` -/
open Extracted in
theorem schema_Velocities : schemaMatchesJson Velocities.views Velocities.framesJson = true :=
  _root_.Peppi.schema_Velocities 

/- from `Peppi.PremisesViews` -/
open Extracted in
theorem schema_Velocity : schemaMatchesJson Velocity.views Velocity.framesJson = true :=
  _root_.Peppi.schema_Velocity 

end Peppi.Props.C14
