/- Property C14 — The Arrow struct array has the per-version schema and converts back losslessly

   Statements of the machine-checked theorems this property's check relies on.  Each statement is
   spelled out here and proved from the lemma of the same name under `Peppi/` (generated once by
   `bin/mkprops.py`, then kept as source).  What is proved and what is partial: DESIGN.md §4. -/
import Peppi.Lemmas.ArrowFrame
import Peppi.Lemmas.Transpose
set_option linter.unusedVariables false
namespace Peppi.Props.C14

/- from `Peppi.Lemmas.ArrowFrame` -/
theorem fromF_norm_intoF (w : Widths) (f : FCols) (h : FrameRowsOK w f) : fromF (normF (intoF w f)) = f :=
  _root_.Peppi.fromF_norm_intoF w f h

/- from `Peppi.Lemmas.ArrowFrame` -/
theorem fromF'_norm_intoF' (w : Widths) (f : FCols) (h : FrameRowsOK w f) (hw : w.fend = 0)
    (ec : SCols) (hfe : f.fend = some ec) (hpresent : ec = List.replicate f.id.length (some [])) :
    fromF' true (normF (intoF' w f)) = f :=
  _root_.Peppi.fromF'_norm_intoF' w f h hw ec hfe hpresent

/- from `Peppi.Lemmas.Transpose` -/
theorem fromCols_toCols (n : Nat) (rows : SCols) (hok : RowsOK n rows) :
    fromCols rows.length (toCols n rows) (validOfRows rows) = rows :=
  _root_.Peppi.fromCols_toCols n rows hok

/- from `Peppi.Lemmas.Transpose` -/
theorem fromCols_allset (len : Nat) (cols : List (List Nat)) :
    fromCols len cols (some (List.replicate len true)) = fromCols len cols none :=
  _root_.Peppi.fromCols_allset len cols

end Peppi.Props.C14
