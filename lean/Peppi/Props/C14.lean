/- Property C14 — The Arrow struct array has the per-version schema and converts back losslessly

   Statements of the machine-checked theorems this property's check relies on.  Each statement is
   spelled out here and proved from the lemma of the same name under `Peppi/` (generated once by
   `bin/mkprops.py`, then kept as source).  What is proved and what is partial: DESIGN.md §4. -/
import Peppi.Lemmas.ArrowFrame
import Peppi.Lemmas.Transpose
import Peppi.PremisesCore
import Peppi.PremisesArrow
import Peppi.PremisesSchema
import Peppi.C02Bytes
set_option linter.unusedVariables false
namespace Peppi.Props.C14

/- from `Peppi.Lemmas.ArrowFrame` -/
theorem fromF_norm_intoF (w : Widths) (f : FCols) (h : FrameRowsOK w f) : fromF (normF (intoF w f)) = f :=
  _root_.Peppi.fromF_norm_intoF w f h

/- from `Peppi.Lemmas.ArrowFrame` -/
theorem fromF'_norm_intoF' (w : Widths) (f : FCols) (h : FrameRowsOK w f) (hw : w.fend = 0)
    (ec : SCols) (hfe : f.fend = some ec) (hpresent : ec = List.replicate f.id.length (some [])) :
    fromF' true (normF (intoF' w f)) = f :=
  _root_.Peppi.fromF'_norm_intoF' w f h hw ec hfe hpresent

/- from `Peppi.Lemmas.Transpose` -/
theorem fromCols_toCols (n : Nat) (rows : SCols) (hok : RowsOK n rows) :
    fromCols rows.length (toCols n rows) (validOfRows rows) = rows :=
  _root_.Peppi.fromCols_toCols n rows hok

/- from `Peppi.Lemmas.Transpose` -/
theorem fromCols_allset (len : Nat) (cols : List (List Nat)) :
    fromCols len cols (some (List.replicate len true)) = fromCols len cols none :=
  _root_.Peppi.fromCols_allset len cols

/- from `Peppi.PremisesCore` -/
open Extracted in
theorem core_End : structCoreOK true true End.views = true :=
  _root_.Peppi.core_End 

/- from `Peppi.PremisesCore` -/
open Extracted in
theorem core_Item : structCoreOK false true Item.views = true :=
  _root_.Peppi.core_Item 

/- from `Peppi.PremisesCore` -/
open Extracted in
theorem core_ItemMisc : structCoreOK false false ItemMisc.views = true :=
  _root_.Peppi.core_ItemMisc 

/- from `Peppi.PremisesCore` -/
open Extracted in
theorem core_Position : structCoreOK false true Position.views = true :=
  _root_.Peppi.core_Position 

/- from `Peppi.PremisesCore` -/
open Extracted in
theorem core_Post : structCoreOK false true Post.views = true :=
  _root_.Peppi.core_Post 

/- from `Peppi.PremisesCore` -/
open Extracted in
theorem core_Pre : structCoreOK false true Pre.views = true :=
  _root_.Peppi.core_Pre 

/- from `Peppi.PremisesCore` -/
open Extracted in
theorem core_Start : structCoreOK false true Start.views = true :=
  _root_.Peppi.core_Start 

/- from `Peppi.PremisesCore` -/
open Extracted in
theorem core_StateFlags : structCoreOK false false StateFlags.views = true :=
  _root_.Peppi.core_StateFlags 

/- from `Peppi.PremisesCore` -/
open Extracted in
theorem core_TriggersPhysical : structCoreOK false true TriggersPhysical.views = true :=
  _root_.Peppi.core_TriggersPhysical 

/- from `Peppi.PremisesCore` -/
open Extracted in
theorem core_Velocities : structCoreOK false true Velocities.views = true :=
  _root_.Peppi.core_Velocities 

/- from `Peppi.PremisesCore` -/
open Extracted in
theorem core_Velocity : structCoreOK false true Velocity.views = true :=
  _root_.Peppi.core_Velocity 

/- from `Peppi.PremisesArrow` -/
open Extracted in
theorem arrow_End : structArrowOK true End.views = true :=
  _root_.Peppi.arrow_End 

/- from `Peppi.PremisesArrow` -/
open Extracted in
theorem arrow_Item : structArrowOK true Item.views = true :=
  _root_.Peppi.arrow_Item 

/- from `Peppi.PremisesArrow` -/
open Extracted in
theorem arrow_ItemMisc : structArrowOK false ItemMisc.views = true :=
  _root_.Peppi.arrow_ItemMisc 

/- from `Peppi.PremisesArrow` -/
open Extracted in
theorem arrow_Position : structArrowOK true Position.views = true :=
  _root_.Peppi.arrow_Position 

/- from `Peppi.PremisesArrow` -/
open Extracted in
theorem arrow_Post : structArrowOK true Post.views = true :=
  _root_.Peppi.arrow_Post 

/- from `Peppi.PremisesArrow` -/
open Extracted in
theorem arrow_Pre : structArrowOK true Pre.views = true :=
  _root_.Peppi.arrow_Pre 

/- from `Peppi.PremisesArrow` -/
open Extracted in
theorem arrow_Start : structArrowOK true Start.views = true :=
  _root_.Peppi.arrow_Start 

/- from `Peppi.PremisesArrow` -/
open Extracted in
theorem arrow_StateFlags : structArrowOK false StateFlags.views = true :=
  _root_.Peppi.arrow_StateFlags 

/- from `Peppi.PremisesArrow` -/
open Extracted in
theorem arrow_TriggersPhysical : structArrowOK true TriggersPhysical.views = true :=
  _root_.Peppi.arrow_TriggersPhysical 

/- from `Peppi.PremisesArrow` -/
open Extracted in
theorem arrow_Velocities : structArrowOK true Velocities.views = true :=
  _root_.Peppi.arrow_Velocities 

/- from `Peppi.PremisesArrow` -/
open Extracted in
theorem arrow_Velocity : structArrowOK true Velocity.views = true :=
  _root_.Peppi.arrow_Velocity 

/- from `Peppi.PremisesSchema` -/
open Extracted in
theorem schema_End : schemaMatchesJson End.views End.framesJson = true :=
  _root_.Peppi.schema_End 

/- from `Peppi.PremisesSchema` -/
open Extracted in
theorem schema_Item : schemaMatchesJson Item.views Item.framesJson = true :=
  _root_.Peppi.schema_Item 

/- from `Peppi.PremisesSchema` -/
open Extracted in
theorem schema_ItemMisc : schemaMatchesJson ItemMisc.views ItemMisc.framesJson = true :=
  _root_.Peppi.schema_ItemMisc 

/- from `Peppi.PremisesSchema` -/
open Extracted in
theorem schema_Position : schemaMatchesJson Position.views Position.framesJson = true :=
  _root_.Peppi.schema_Position 

/- from `Peppi.PremisesSchema` -/
open Extracted in
theorem schema_Post : schemaMatchesJson Post.views Post.framesJson = true :=
  _root_.Peppi.schema_Post 

/- from `Peppi.PremisesSchema` -/
open Extracted in
theorem schema_Pre : schemaMatchesJson Pre.views Pre.framesJson = true :=
  _root_.Peppi.schema_Pre 

/- from `Peppi.PremisesSchema` -/
open Extracted in
theorem schema_Start : schemaMatchesJson Start.views Start.framesJson = true :=
  _root_.Peppi.schema_Start 

/- from `Peppi.PremisesSchema` -/
open Extracted in
theorem schema_StateFlags : schemaMatchesJson StateFlags.views StateFlags.framesJson = true :=
  _root_.Peppi.schema_StateFlags 

/- from `Peppi.PremisesSchema` -/
open Extracted in
theorem schema_TriggersPhysical : schemaMatchesJson TriggersPhysical.views TriggersPhysical.framesJson = true :=
  _root_.Peppi.schema_TriggersPhysical 

/- from `Peppi.PremisesSchema` -/
open Extracted in
theorem schema_Velocities : schemaMatchesJson Velocities.views Velocities.framesJson = true :=
  _root_.Peppi.schema_Velocities 

/- from `Peppi.PremisesSchema` -/
open Extracted in
theorem schema_Velocity : schemaMatchesJson Velocity.views Velocity.framesJson = true :=
  _root_.Peppi.schema_Velocity 

/- from `Peppi.C02Bytes` -/
open Extracted in
theorem import_export (v : Ver) (shape : List PortOccupancy) (h : List FrameOcc) (hok : ∀ o ∈ h, o.OK v (nSlots shape)) :
    fromF' (v.gte 3 0) (normF (intoF' (widthsOf v) (expFrames v shape h))) = expFrames v shape h :=
  _root_.Peppi.import_export v shape h hok

/- from `Peppi.C02Bytes` -/
open Extracted in
theorem expFrames_rowsOK (v : Ver) (shape : List PortOccupancy) (h : List FrameOcc)
    (hok : ∀ o ∈ h, o.OK v (nSlots shape)) : FrameRowsOK (widthsOf v) (expFrames v shape h) :=
  _root_.Peppi.expFrames_rowsOK v shape h hok

end Peppi.Props.C14
