/- Property C15 — Rollback de-duplication marks all but the first/last occurrence of each frame id

   Statements of the machine-checked theorems this property's check relies on.  Each statement is
   spelled out here and proved from the lemma of the same name under `Peppi/` (generated once by
   `bin/mkprops.py`, then kept as source).  What is proved and what is partial: DESIGN.md §4. -/
import Peppi.RollbacksProof
import Peppi.RollbacksUnique
import Peppi.RollbacksReverse
set_option linter.unusedVariables false
namespace Peppi.Props.C15

/- from `Peppi.RollbacksProof` -/
theorem C15_first (ids : List Int) (h : ∀ x ∈ ids, FIRST_INDEX ≤ x) :
    ∃ m, rollbacks .exceptFirst ids = .ok m ∧ m.length = ids.length ∧
      ∀ i (hi : i < ids.length), (m[i]? = some true ↔ ∃ j, ∃ hj : j < i, ids[j] = ids[i]) :=
  _root_.Peppi.C15_first ids h

/- from `Peppi.RollbacksProof` -/
theorem C15_last (ids : List Int) (h : ∀ x ∈ ids, FIRST_INDEX ≤ x) :
    ∃ m, rollbacks .exceptLast ids = .ok m ∧ m.length = ids.length ∧
      ∀ i (hi : i < ids.length), (m[i]? = some true ↔ ∃ j, ∃ hj : j < ids.length, i < j ∧ ids[j] = ids[i]) :=
  _root_.Peppi.C15_last ids h

/- from `Peppi.RollbacksProof` -/
theorem C15_first_nodup (ids : List Int) (h : ∀ x ∈ ids, FIRST_INDEX ≤ x) (hnd : ids.Nodup) :
    ∃ m, rollbacks .exceptFirst ids = .ok m ∧ m.length = ids.length ∧ ∀ b ∈ m, b = false :=
  _root_.Peppi.C15_first_nodup ids h hnd

/- from `Peppi.RollbacksProof` -/
theorem C15_first_keeps_first (ids : List Int) (h : ∀ x ∈ ids, FIRST_INDEX ≤ x) (i : Nat) (hi : i < ids.length)
    (hfirst : ∀ j, ∀ hj : j < i, ids[j] ≠ ids[i]) :
    ∃ m, rollbacks .exceptFirst ids = .ok m ∧ m[i]? = some false :=
  _root_.Peppi.C15_first_keeps_first ids h i hi hfirst

/- from `Peppi.RollbacksProof` -/
theorem C15_last_keeps_last (ids : List Int) (h : ∀ x ∈ ids, FIRST_INDEX ≤ x) (i : Nat) (hi : i < ids.length)
    (hlast : ∀ j, ∀ hj : j < ids.length, i < j → ids[j] ≠ ids[i]) :
    ∃ m, rollbacks .exceptLast ids = .ok m ∧ m[i]? = some false :=
  _root_.Peppi.C15_last_keeps_last ids h i hi hlast

/- from `Peppi.RollbacksUnique` -/
theorem C15_first_unique (ids : List Int) (h : ∀ x ∈ ids, FIRST_INDEX ≤ x) :
    ∃ m, rollbacks .exceptFirst ids = .ok m ∧ m.length = ids.length ∧
      ∀ x ∈ ids, ∃ i, (∃ hi : i < ids.length, ids[i] = x ∧ m[i]? = some false) ∧
        ∀ k, ∀ hk : k < ids.length, ids[k] = x → m[k]? = some false → k = i :=
  _root_.Peppi.C15_first_unique ids h

/- from `Peppi.RollbacksUnique` -/
theorem C15_last_unique (ids : List Int) (h : ∀ x ∈ ids, FIRST_INDEX ≤ x) :
    ∃ m, rollbacks .exceptLast ids = .ok m ∧ m.length = ids.length ∧
      ∀ x ∈ ids, ∃ i, (∃ hi : i < ids.length, ids[i] = x ∧ m[i]? = some false) ∧
        ∀ k, ∀ hk : k < ids.length, ids[k] = x → m[k]? = some false → k = i :=
  _root_.Peppi.C15_last_unique ids h

/- from `Peppi.RollbacksUnique` -/
theorem C15_last_nodup (ids : List Int) (h : ∀ x ∈ ids, FIRST_INDEX ≤ x) (hnd : ids.Nodup) :
    ∃ m, rollbacks .exceptLast ids = .ok m ∧ m.length = ids.length ∧ ∀ b ∈ m, b = false :=
  _root_.Peppi.C15_last_nodup ids h hnd

/- from `Peppi.RollbacksReverse` -/
theorem C15_modes_mirror (ids : List Int) (h : ∀ x ∈ ids, FIRST_INDEX ≤ x) :
    ∃ m1 m2, rollbacks .exceptLast ids = .ok m1 ∧ rollbacks .exceptFirst ids.reverse = .ok m2 ∧ m1 = m2.reverse :=
  _root_.Peppi.C15_modes_mirror ids h

end Peppi.Props.C15
