/- Property C13 — The per-frame row view equals the columnar data at the same index

   Statements of the machine-checked theorems this property's check relies on.  Each statement is
   spelled out here and proved from the lemma of the same name under `Peppi/` (generated once by
   `bin/mkprops.py`, then kept as source).  What is proved and what is partial: DESIGN.md §4. -/
import Peppi.Lemmas.C13
import Peppi.Lemmas.Transpose
import Peppi.PremisesViews
import Peppi.Lemmas.C12Cols
set_option linter.unusedVariables false
namespace Peppi.Props.C13

/- from `Peppi.Lemmas.C13` -/
open Extracted in
theorem C13_expFrames (v : Ver) (shape : List PortOccupancy) (h : List FrameOcc) (h30 : v.gte 3 0 = true) (h22 : v.gte 2 2 = true)
    (i : Nat) (hi : i < h.length) :
    let F := expFrames v shape h
    F.id[i]? = some (h[i]).id ∧
    (F.start.bind (·[i]?)) = some (some (h[i]).start) ∧
    (F.fend.bind (·[i]?)) = some (some (h[i]).fend) ∧
    (∀ c, c < nSlots shape → ((flatSlots F.ports)[c]?).bind (·.rowView i) = some ((h[i]).chars[c]?).join) ∧
    (match F.itemOff, F.item with | some offs, some it => itemsView offs it i | _, _ => none) = some ((h[i]).items.map some) :=
  _root_.Peppi.C13_expFrames v shape h h30 h22 i hi

/- from `Peppi.Lemmas.C13` -/
open Extracted in
theorem colsOf_rowView (hist : List (Option CharOcc)) (i : Nat) (hi : i < hist.length) :
    (colsOf hist).rowView i = some hist[i] :=
  _root_.Peppi.colsOf_rowView hist i hi

/- from `Peppi.Lemmas.Transpose` -/
theorem toCols_row (n : Nat) (rows : SCols) (hok : RowsOK n rows) (i : Nat) (hi : i < rows.length) (vs : List Nat)
    (hr : rows[i] = some vs) : (toCols n rows).map (fun c => c.getD i 0) = vs :=
  _root_.Peppi.toCols_row n rows hok i hi vs hr

/- from `Peppi.Lemmas.C13` -/
open Extracted in
theorem items_slice (h : List FrameOcc) (idx : Nat) (hidx : idx < h.length) :
    itemsView (offsOf h) ((h.flatMap (·.items)).map some) idx = some ((h[idx]).items.map some) :=
  _root_.Peppi.items_slice h idx hidx

/- from `Peppi.PremisesViews` -/
open Extracted in
theorem views_End : structOK true true End.views = true :=
  _root_.Peppi.views_End 

/- from `Peppi.PremisesViews` -/
open Extracted in
theorem views_Item : structOK false true Item.views = true :=
  _root_.Peppi.views_Item 

/- from `Peppi.PremisesViews` -/
open Extracted in
theorem views_ItemMisc : structOK false false ItemMisc.views = true :=
  _root_.Peppi.views_ItemMisc 

/- from `Peppi.PremisesViews` -/
open Extracted in
theorem views_Position : structOK false true Position.views = true :=
  _root_.Peppi.views_Position 

/- from `Peppi.PremisesViews` -/
open Extracted in
theorem views_Post : structOK false true Post.views = true :=
  _root_.Peppi.views_Post 

/- from `Peppi.PremisesViews` -/
open Extracted in
theorem views_Pre : structOK false true Pre.views = true :=
  _root_.Peppi.views_Pre 

/- from `Peppi.PremisesViews` -/
open Extracted in
theorem views_Start : structOK false true Start.views = true :=
  _root_.Peppi.views_Start 

/- from `Peppi.PremisesViews` -/
open Extracted in
theorem views_StateFlags : structOK false false StateFlags.views = true :=
  _root_.Peppi.views_StateFlags 

/- from `Peppi.PremisesViews` -/
open Extracted in
theorem views_TriggersPhysical : structOK false true TriggersPhysical.views = true :=
  _root_.Peppi.views_TriggersPhysical 

/- from `Peppi.PremisesViews` -/
open Extracted in
theorem views_Velocities : structOK false true Velocities.views = true :=
  _root_.Peppi.views_Velocities 

/- from `Peppi.PremisesViews` -/
open Extracted in
theorem views_Velocity : structOK false true Velocity.views = true :=
  _root_.Peppi.views_Velocity 

/- from `Peppi.Lemmas.C12Cols` -/
open Extracted in
theorem parseEvent_extends (ps : ParseState) (bs : Bytes) (code : Nat) (ps' : ParseState) (rest : Bytes)
    (h : parseEvent ps bs = .ok ((code, ps'), rest)) : ps.st.frames.Ext ps'.st.frames :=
  _root_.Peppi.parseEvent_extends ps bs code ps' rest h

end Peppi.Props.C13
