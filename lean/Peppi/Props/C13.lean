/- Property C13 — The per-frame row view equals the columnar data at the same index

   Statements of the machine-checked theorems this property's check relies on.  Each statement is
   spelled out here and proved from the lemma of the same name under `Peppi/` (generated once by
   `bin/mkprops.py`, then kept as source).  What is proved and what is partial: DESIGN.md §4. -/
import Peppi.Lemmas.C13
import Peppi.Lemmas.Transpose
import Peppi.PremisesCore
import Peppi.PremisesRow
import Peppi.Lemmas.C12Cols
import Peppi.Lemmas.C13Progress
set_option linter.unusedVariables false
namespace Peppi.Props.C13

/- from `Peppi.Lemmas.C13` -/
open Extracted in
theorem C13_expFrames (v : Ver) (shape : List PortOccupancy) (h : List FrameOcc) (h30 : v.gte 3 0 = true) (h22 : v.gte 2 2 = true)
    (i : Nat) (hi : i < h.length) :
    let F := expFrames v shape h
    F.id[i]? = some (h[i]).id ∧
    (F.start.bind (·[i]?)) = some (some (h[i]).start) ∧
    (F.fend.bind (·[i]?)) = some (some (h[i]).fend) ∧
    (∀ c, c < nSlots shape → ((flatSlots F.ports)[c]?).bind (·.rowView i) = some ((h[i]).chars[c]?).join) ∧
    (match F.itemOff, F.item with | some offs, some it => itemsView offs it i | _, _ => none) = some ((h[i]).items.map some) :=
  _root_.Peppi.C13_expFrames v shape h h30 h22 i hi

/- from `Peppi.Lemmas.C13` -/
open Extracted in
theorem colsOf_rowView (hist : List (Option CharOcc)) (i : Nat) (hi : i < hist.length) :
    (colsOf hist).rowView i = some hist[i] :=
  _root_.Peppi.colsOf_rowView hist i hi

/- from `Peppi.Lemmas.Transpose` -/
theorem toCols_row (n : Nat) (rows : SCols) (hok : RowsOK n rows) (i : Nat) (hi : i < rows.length) (vs : List Nat)
    (hr : rows[i] = some vs) : (toCols n rows).map (fun c => c.getD i 0) = vs :=
  _root_.Peppi.toCols_row n rows hok i hi vs hr

/- from `Peppi.Lemmas.C13` -/
open Extracted in
theorem items_slice (h : List FrameOcc) (idx : Nat) (hidx : idx < h.length) :
    itemsView (offsOf h) ((h.flatMap (·.items)).map some) idx = some ((h[idx]).items.map some) :=
  _root_.Peppi.items_slice h idx hidx

/- from `Peppi.PremisesCore` -/
open Extracted in
theorem core_End : structCoreOK true true End.views = true :=
  _root_.Peppi.core_End 

/- from `Peppi.PremisesCore` -/
open Extracted in
theorem core_Item : structCoreOK false true Item.views = true :=
  _root_.Peppi.core_Item 

/- from `Peppi.PremisesCore` -/
open Extracted in
theorem core_ItemMisc : structCoreOK false false ItemMisc.views = true :=
  _root_.Peppi.core_ItemMisc 

/- from `Peppi.PremisesCore` -/
open Extracted in
theorem core_Position : structCoreOK false true Position.views = true :=
  _root_.Peppi.core_Position 

/- from `Peppi.PremisesCore` -/
open Extracted in
theorem core_Post : structCoreOK false true Post.views = true :=
  _root_.Peppi.core_Post 

/- from `Peppi.PremisesCore` -/
open Extracted in
theorem core_Pre : structCoreOK false true Pre.views = true :=
  _root_.Peppi.core_Pre 

/- from `Peppi.PremisesCore` -/
open Extracted in
theorem core_Start : structCoreOK false true Start.views = true :=
  _root_.Peppi.core_Start 

/- from `Peppi.PremisesCore` -/
open Extracted in
theorem core_StateFlags : structCoreOK false false StateFlags.views = true :=
  _root_.Peppi.core_StateFlags 

/- from `Peppi.PremisesCore` -/
open Extracted in
theorem core_TriggersPhysical : structCoreOK false true TriggersPhysical.views = true :=
  _root_.Peppi.core_TriggersPhysical 

/- from `Peppi.PremisesCore` -/
open Extracted in
theorem core_Velocities : structCoreOK false true Velocities.views = true :=
  _root_.Peppi.core_Velocities 

/- from `Peppi.PremisesCore` -/
open Extracted in
theorem core_Velocity : structCoreOK false true Velocity.views = true :=
  _root_.Peppi.core_Velocity 

/- from `Peppi.PremisesRow` -/
open Extracted in
theorem row_End : structRowOK End.views = true :=
  _root_.Peppi.row_End 

/- from `Peppi.PremisesRow` -/
open Extracted in
theorem row_Item : structRowOK Item.views = true :=
  _root_.Peppi.row_Item 

/- from `Peppi.PremisesRow` -/
open Extracted in
theorem row_ItemMisc : structRowOK ItemMisc.views = true :=
  _root_.Peppi.row_ItemMisc 

/- from `Peppi.PremisesRow` -/
open Extracted in
theorem row_Position : structRowOK Position.views = true :=
  _root_.Peppi.row_Position 

/- from `Peppi.PremisesRow` -/
open Extracted in
theorem row_Post : structRowOK Post.views = true :=
  _root_.Peppi.row_Post 

/- from `Peppi.PremisesRow` -/
open Extracted in
theorem row_Pre : structRowOK Pre.views = true :=
  _root_.Peppi.row_Pre 

/- from `Peppi.PremisesRow` -/
open Extracted in
theorem row_Start : structRowOK Start.views = true :=
  _root_.Peppi.row_Start 

/- from `Peppi.PremisesRow` -/
open Extracted in
theorem row_StateFlags : structRowOK StateFlags.views = true :=
  _root_.Peppi.row_StateFlags 

/- from `Peppi.PremisesRow` -/
open Extracted in
theorem row_TriggersPhysical : structRowOK TriggersPhysical.views = true :=
  _root_.Peppi.row_TriggersPhysical 

/- from `Peppi.PremisesRow` -/
open Extracted in
theorem row_Velocities : structRowOK Velocities.views = true :=
  _root_.Peppi.row_Velocities 

/- from `Peppi.PremisesRow` -/
open Extracted in
theorem row_Velocity : structRowOK Velocity.views = true :=
  _root_.Peppi.row_Velocity 

/- from `Peppi.Lemmas.C12Cols` -/
open Extracted in
theorem parseEvent_extends (ps : ParseState) (bs : Bytes) (code : Nat) (ps' : ParseState) (rest : Bytes)
    (h : parseEvent ps bs = .ok ((code, ps'), rest)) : ps.st.frames.Ext ps'.st.frames :=
  _root_.Peppi.parseEvent_extends ps bs code ps' rest h

/- from `Peppi.Lemmas.C13Progress` -/
open Extracted in
theorem DCols_rowView_ext (a b : DCols) (h : a.Ext b) (i : Nat)
    (h1 : i < a.pre.length) (h2 : i < a.post.length) (h3 : i < a.vlist.length) : a.rowView i = b.rowView i :=
  _root_.Peppi.DCols.rowView_ext a b h i h1 h2 h3

/- from `Peppi.Lemmas.C13Progress` -/
open Extracted in
theorem itemsView_ext (offs offs' : List Nat) (items items' : SCols) (ho : offs <+: offs') (hi : items <+: items') (i : Nat)
    (h1 : i + 1 < offs.length) (hle : ∀ b, offs[i+1]? = some b → b ≤ items.length) :
    itemsView offs items i = itemsView offs' items' i :=
  _root_.Peppi.itemsView_ext offs offs' items items' ho hi i h1 hle

/- from `Peppi.Lemmas.C13Progress` -/
open Extracted in
theorem FCols_rowView_ext (F F' : FCols) (h : F.Ext F') (i : Nat) (hid : i < F.id.length) :
    F.id[i]? = F'.id[i]? ∧
    ((∀ l, F.start = some l → i < l.length) → F.start.bind (·[i]?) = F'.start.bind (·[i]?)) ∧
    ((∀ l, F.fend = some l → i < l.length) → F.fend.bind (·[i]?) = F'.fend.bind (·[i]?)) ∧
    (∀ (k : Nat) (p : PCols), F.ports[k]? = some p → ∃ q : PCols, F'.ports[k]? = some q ∧ p.port = q.port ∧
      (i < p.leader.pre.length → i < p.leader.post.length → i < p.leader.vlist.length → p.leader.rowView i = q.leader.rowView i) ∧
      (∀ d, p.follower = some d → ∃ d', q.follower = some d' ∧
        (i < d.pre.length → i < d.post.length → i < d.vlist.length → d.rowView i = d'.rowView i))) ∧
    (∀ offs items, F.itemOff = some offs → F.item = some items → i + 1 < offs.length →
      (∀ b, offs[i+1]? = some b → b ≤ items.length) →
      ∃ offs' items', F'.itemOff = some offs' ∧ F'.item = some items' ∧ itemsView offs items i = itemsView offs' items' i) :=
  _root_.Peppi.FCols.rowView_ext F F' h i hid

/- from `Peppi.Lemmas.C13Progress` -/
open Extracted in
theorem C13_inprogress (fuel rawLen : Nat) (ps : ParseState) (bs : Bytes) (ps' : ParseState) (rest : Bytes)
    (h : eventLoop fuel rawLen ps bs = .ok (ps', rest)) (i : Nat) (hid : i < ps.st.frames.id.length) :
    ps.st.frames.id[i]? = ps'.st.frames.id[i]? ∧
    (∀ (k : Nat) (p : PCols), ps.st.frames.ports[k]? = some p → ∃ q : PCols, ps'.st.frames.ports[k]? = some q ∧ p.port = q.port ∧
      (i < p.leader.pre.length → i < p.leader.post.length → i < p.leader.vlist.length → p.leader.rowView i = q.leader.rowView i)) :=
  _root_.Peppi.C13_inprogress fuel rawLen ps bs ps' rest h i hid

end Peppi.Props.C13
