/- Property C09 — Writers refuse games newer than the supported version instead of losing data

   Statements of the machine-checked theorems this property's check relies on.  Each statement is
   spelled out here and proved from the lemma of the same name under `Peppi/` (generated once by
   `bin/mkprops.py`, then kept as source).  What is proved and what is partial: DESIGN.md §4. -/
import Peppi.VersionProof
import Peppi.Lemmas.C09
import Peppi.Lemmas.C09P
import Peppi.VersionOrder
set_option linter.unusedVariables false
namespace Peppi.Props.C09

/- from `Peppi.VersionProof` -/
theorem assertMaxVersion_iff (v : Ver) : assertMaxVersion v = .ok () ↔
    (v.major < 3 ∨ (v.major = 3 ∧ (v.minor < 16 ∨ (v.minor = 16 ∧ v.patch = 0)))) :=
  _root_.Peppi.assertMaxVersion_iff v

/- from `Peppi.Lemmas.C09` -/
theorem C09_slp_refuse (g : Game) (h : g.start.version.above) : writeSlp g = .err "unsupported version" :=
  _root_.Peppi.C09_slp_refuse g h

/- from `Peppi.Lemmas.C09P` -/
theorem C09_slpp_refuse (g : Game) (hash : Option String) (h : g.start.version.above) :
    peppiEntries g hash = .err "unsupported version" :=
  _root_.Peppi.C09_slpp_refuse g hash h

/- from `Peppi.Lemmas.C09P` -/
theorem C09_both (g : Game) (hash : Option String) (h : g.start.version.above) :
    writeSlp g = .err "unsupported version" ∧ peppiEntries g hash = .err "unsupported version" :=
  _root_.Peppi.C09_both g hash h

/- from `Peppi.Lemmas.C09` -/
theorem C09_guard_passes (g : Game) (h : ¬ g.start.version.above) : assertMaxVersion g.start.version = .ok () :=
  _root_.Peppi.C09_guard_passes g h

/- from `Peppi.VersionOrder` -/
theorem Ver_le_total (a b : Ver) : a.le b = true ∨ b.le a = true :=
  _root_.Peppi.Ver.le_total a b

/- from `Peppi.VersionOrder` -/
theorem Ver_le_trans (a b c : Ver) (h1 : a.le b = true) (h2 : b.le c = true) : a.le c = true :=
  _root_.Peppi.Ver.le_trans a b c h1 h2

/- from `Peppi.VersionOrder` -/
theorem Ver_le_antisymm (a b : Ver) (h1 : a.le b = true) (h2 : b.le a = true) : a = b :=
  _root_.Peppi.Ver.le_antisymm a b h1 h2

/- from `Peppi.VersionOrder` -/
theorem assertMaxVersion_le (v : Ver) : assertMaxVersion v = .ok () ↔ v.le MAX_SUPPORTED_VERSION = true :=
  _root_.Peppi.assertMaxVersion_le v

/- from `Peppi.VersionOrder` -/
theorem assertMaxVersion_down (v w : Ver) (h : v.le w = true) (hw : assertMaxVersion w = .ok ()) :
    assertMaxVersion v = .ok () :=
  _root_.Peppi.assertMaxVersion_down v w h hw

/- from `Peppi.VersionOrder` -/
theorem assertMaxVersion_up (v w : Ver) (h : v.le w = true) (hv : assertMaxVersion v ≠ .ok ()) :
    assertMaxVersion w = .err "unsupported version" :=
  _root_.Peppi.assertMaxVersion_up v w h hv

/- from `Peppi.VersionOrder` -/
theorem assertMaxVersion_boundary :
    assertMaxVersion ⟨3, 16, 0⟩ = .ok () ∧ assertMaxVersion ⟨3, 16, 1⟩ = .err "unsupported version" ∧
    ∀ v : Ver, assertMaxVersion v = .ok () ∨ (⟨3, 16, 1⟩ : Ver).le v = true :=
  _root_.Peppi.assertMaxVersion_boundary 

end Peppi.Props.C09
