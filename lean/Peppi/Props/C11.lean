/- Property C11 — The replay hash is the XXH3-64 of exactly the file's bytes, however they arrive

   Statements of the machine-checked theorems this property's check relies on.  Each statement is
   spelled out here and proved from the lemma of the same name under `Peppi/` (generated once by
   `bin/mkprops.py`, then kept as source).  What is proved and what is partial: DESIGN.md §4. -/
import Peppi.Lemmas.Unified
import Peppi.Lemmas.C10A
import Peppi.Stream
import Peppi.Hash
import Peppi.Lemmas.Unified2
import Peppi.HashValue
import Peppi.Prog
import Peppi.ReadProg
import Peppi.ReadStream
import Peppi.PeppiJson
set_option linter.unusedVariables false
namespace Peppi.Props.C11

/- from `Peppi.Lemmas.Unified` -/
open Extracted in
theorem C10_any_agree (T : TextOracle) (r : Replay) (s : Start) (gk : Option GeckoBlocks) (h : r.WFAny T s gk)
    (e : Bytes) (hfe : r.fend = some e) (hash : Bool) :
    ∃ gFull gSkip, readSlp T { skipFrames := false, computeHash := hash } (r.encodeAny s.version (portOccupancy s) gk) = .ok gFull ∧
      readSlp T { skipFrames := true, computeHash := hash } (r.encodeAny s.version (portOccupancy s) gk) = .ok gSkip ∧
      gSkip.start = gFull.start ∧ gSkip.fend = gFull.fend ∧ gSkip.metadata = gFull.metadata ∧ gSkip.hashedLen = gFull.hashedLen ∧
      gFull.hashedLen = (if hash then some (r.encodeAny s.version (portOccupancy s) gk).length else none) ∧
      gSkip.frames = FCols.new s.version (portOccupancy s) :=
  _root_.Peppi.C10_any_agree T r s gk h e hfe hash

/- from `Peppi.Lemmas.C10A` -/
open Extracted in
theorem C11_range_A (T : TextOracle) (r : Replay) (s : Start) (h : r.WF T s) :
    (∃ g, readSlp T { skipFrames := false, computeHash := true } (r.encode s.version (portOccupancy s)) = .ok g ∧
        g.hashedLen = some (r.encode s.version (portOccupancy s)).length) ∧
    (∃ g, readSlp T { skipFrames := false, computeHash := false } (r.encode s.version (portOccupancy s)) = .ok g ∧
        g.hashedLen = none) ∧
    (∀ e, r.fend = some e → ∃ g, readSlp T { skipFrames := true, computeHash := true } (r.encode s.version (portOccupancy s)) = .ok g ∧
        g.hashedLen = some (r.encode s.version (portOccupancy s)).length) :=
  _root_.Peppi.C11_range_A T r s h

/- from `Peppi.Stream` -/
theorem readExactS_flat : ∀ (s : Stream) (n : Nat),
    (∀ b s', readExactS n s = .ok (b, s') → Rd.take n s.flatten = .ok (b, s'.flatten)) ∧
    (∀ e, readExactS n s = .err e → ∃ e', Rd.take n s.flatten = .err e') ∧
    (∀ p, readExactS n s ≠ .panic p) :=
  _root_.Peppi.readExactS_flat 

/- from `Peppi.Hash` -/
theorem formatHash_length (d : Nat) : (formatHash d).length = 21 :=
  _root_.Peppi.formatHash_length d

/- from `Peppi.Hash` -/
theorem formatHash_prefix (d : Nat) : (formatHash d).take 5 = "xxh3:".toList :=
  _root_.Peppi.formatHash_prefix d

/- from `Peppi.Hash` -/
theorem hexN_lower (k n : Nat) : ∀ c ∈ hexN k n, isLowerHex c = true :=
  _root_.Peppi.hexN_lower k n

/- from `Peppi.Hash` -/
theorem formatHash_inj (a b : Nat) (ha : a < 2 ^ 64) (hb : b < 2 ^ 64) (h : formatHash a = formatHash b) : a = b :=
  _root_.Peppi.formatHash_inj a b ha hb h

/- from `Peppi.Lemmas.Unified2` -/
open Extracted in
theorem C11_range_any (T : TextOracle) (r : Replay) (s : Start) (gk : Option GeckoBlocks) (h : r.WFAny T s gk) (hash : Bool) :
    ∃ g, readSlp T { skipFrames := false, computeHash := hash } (r.encodeAny s.version (portOccupancy s) gk) = .ok g ∧
      g.hashedLen = (if hash then some (r.encodeAny s.version (portOccupancy s) gk).length else none) :=
  _root_.Peppi.C11_range_any T r s gk h hash

/- from `Peppi.HashValue` -/
theorem C11_value_any (T : TextOracle) (r : Replay) (s : Start) (gk : Option GeckoBlocks) (h : r.WFAny T s gk) (hash : Bool) :
    ∃ g, readSlp T { skipFrames := false, computeHash := hash } (r.encodeAny s.version (portOccupancy s) gk) = .ok g ∧
      g.hashStr (r.encodeAny s.version (portOccupancy s) gk) =
        (if hash then some (formatHash (xxh3_64 (r.encodeAny s.version (portOccupancy s) gk))) else none) :=
  _root_.Peppi.C11_value_any T r s gk h hash

/- from `Peppi.Prog` -/
open Peppi.Prog in
theorem frag {α} (p : Prog α) : ∀ (h : HSrc),
    (∀ a rest, p.run h.pieces.flatten = .ok (a, rest) →
      ∃ s' used, p.runS h = .ok (a, ⟨s', h.fed.map (· ++ used)⟩) ∧ s'.flatten = rest ∧ h.pieces.flatten = used ++ rest) ∧
    (∀ e, p.run h.pieces.flatten = .err e → ∃ e', p.runS h = .err e') ∧
    (∀ x, p.run h.pieces.flatten = .panic x → p.runS h = .panic x) :=
  _root_.Peppi.Prog.frag p

/- from `Peppi.ReadProg` -/
open Extracted Peppi.Prog in
theorem run_readProg (T : TextOracle) (opts : Opts) (fuel : Nat) (x : Bytes) (hf : 2 * x.length + 2 ≤ fuel) :
    (readProg T opts fuel).run x = readP T opts x :=
  _root_.Peppi.Prog.run_readProg T opts fuel x hf

/- from `Peppi.ReadStream` -/
open Extracted Prog in
theorem readSlpS_frag (T : TextOracle) (opts : Opts) (s : Stream) :
    (∀ g, readSlp T opts s.flatten = .ok g →
      ∃ fed, readSlpS T opts s = .ok (g, fed) ∧
        (opts.computeHash = true → ∃ used rest, fed = some used ∧ s.flatten = used ++ rest ∧ g.hashedLen = some used.length) ∧
        (opts.computeHash = false → fed = none ∧ g.hashedLen = none)) ∧
    (∀ e, readSlp T opts s.flatten = .err e → ∃ e', readSlpS T opts s = .err e') ∧
    (∀ p, readSlp T opts s.flatten = .panic p → readSlpS T opts s = .panic p) :=
  _root_.Peppi.readSlpS_frag T opts s

/- from `Peppi.PeppiJson` -/
theorem decPeppiJ_enc (h : Option String) (q : Option Bool) : decPeppiJ (encPeppiJ h q) = .ok ⟨true, h, q⟩ :=
  _root_.Peppi.decPeppiJ_enc h q

/- from `Peppi.HashValue` -/
theorem hashStr_inj (a b : Bytes) (h : formatHash (xxh3_64 a) = formatHash (xxh3_64 b)) : xxh3_64 a = xxh3_64 b :=
  _root_.Peppi.hashStr_inj a b h

end Peppi.Props.C11
