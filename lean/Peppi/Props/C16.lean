/- Property C16 — Metadata trees are read, written and stored with order and bytes preserved

   Statements of the machine-checked theorems this property's check relies on.  Each statement is
   spelled out here and proved from the lemma of the same name under `Peppi/` (generated once by
   `bin/mkprops.py`, then kept as source).  What is proved and what is partial: DESIGN.md §4. -/
import Peppi.UbjsonProof
import Peppi.Lemmas.PeppiRound
set_option linter.unusedVariables false
namespace Peppi.Props.C16

/- from `Peppi.UbjsonProof` -/
theorem readMap_enc (utf8 : Bytes → Bool) (m : KVs) (rest : Bytes) (h : KVs.WF utf8 1 m) :
    readMap utf8 (encKVs m ++ 0x7d :: rest) = .ok (m, rest) :=
  _root_.Peppi.readMap_enc utf8 m rest h

/- from `Peppi.Lemmas.PeppiRound` -/
theorem peppiRead_written {χ : Type} (T : TextOracle) (g : PGame χ) (startBytes : Bytes) (endBytes : Option Bytes) (trailerOk : Bool)
    (hstart : gameStart T startBytes = .ok g.start)
    (hend : endBytes.map gameEnd = g.fend.map Res.ok)
    (hgecko : ∀ c, g.gecko = some c → c.2 < 2 ^ 32)
    (hframes : g.frames = none → trailerOk = true) :
    peppiRead T false trailerOk (writtenEntries g startBytes endBytes) = .ok g :=
  _root_.Peppi.peppiRead_written T g startBytes endBytes trailerOk hstart hend hgecko hframes

theorem writeMap_enc (utf8 : Bytes → Bool) (m : KVs) (d : Nat) (h : KVs.WF utf8 d m) :
    writeMap m = .ok (encKVs m) :=
  _root_.Peppi.writeMap_enc utf8 m d h

end Peppi.Props.C16
