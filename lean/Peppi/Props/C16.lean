/- Property C16 — Metadata trees are read, written and stored with order and bytes preserved

   Statements of the machine-checked theorems this property's check relies on.  Each statement is
   spelled out here and proved from the lemma of the same name under `Peppi/` (generated once by
   `bin/mkprops.py`, then kept as source).  What is proved and what is partial: DESIGN.md §4. -/
import Peppi.UbjsonProof
import Peppi.Lemmas.PeppiRound
import Peppi.JsonText
import Peppi.SlppBytes
import Peppi.UbjsonRound
set_option linter.unusedVariables false
namespace Peppi.Props.C16

/- from `Peppi.UbjsonProof` -/
theorem readMap_enc (utf8 : Bytes → Bool) (m : KVs) (rest : Bytes) (h : KVs.WF utf8 1 m) :
    readMap utf8 (encKVs m ++ 0x7d :: rest) = .ok (m, rest) :=
  _root_.Peppi.readMap_enc utf8 m rest h

/- from `Peppi.Lemmas.PeppiRound` -/
theorem peppiRead_written {μ φ : Type} (T : TextOracle) (g : PGame μ φ) (startBytes : Bytes) (endBytes : Option Bytes) (trailerOk : Bool)
    (hstart : gameStart T startBytes = .ok g.start)
    (hend : endBytes.map gameEnd = g.fend.map Res.ok)
    (hgecko : ∀ c, g.gecko = some c → c.2 < 2 ^ 32)
    (hframes : g.frames = none → trailerOk = true) :
    peppiRead T false trailerOk (writtenEntries g startBytes endBytes) = .ok g :=
  _root_.Peppi.peppiRead_written T g startBytes endBytes trailerOk hstart hend hgecko hframes

/- from `Peppi.JsonText` -/
theorem unescStr_esc (s rest : Bytes) : ∀ fuel, s.length < fuel → unescStr fuel (escStr s ++ 0x22 :: rest) = some (s, rest) :=
  _root_.Peppi.unescStr_esc s rest

/- from `Peppi.JsonText` -/
theorem parseNatAcc_natDec (n : Nat) : ∀ (acc : Nat) (rest : Bytes), (∀ b, rest.head? = some b → isDecDigit b = false) →
    parseNatAcc acc (natDec n ++ rest) = (acc * 10 ^ (natDec n).length + n, rest) :=
  _root_.Peppi.parseNatAcc_natDec n

/- from `Peppi.JsonText` -/
theorem pVal_json (t : Tree) (fuel : Nat) (rest : Bytes) (hf : nodesT t ≤ fuel) (hr : NoDigitHead rest) :
      pVal fuel (jsonVal t ++ rest) = some (t, rest) :=
  _root_.Peppi.pVal_json t fuel rest hf hr

/- from `Peppi.JsonText` -/
theorem pEntries_json (m : KVs) (fuel : Nat) (first : Bool) (rest : Bytes) (hf : nodesK m ≤ fuel) :
      pEntries fuel first (jsonKVs first m ++ 0x7d :: rest) = some (m, rest) :=
  _root_.Peppi.pEntries_json m fuel first rest hf

/- from `Peppi.JsonText` -/
theorem parseMeta_json (md : Option KVs) : parseMeta (jsonMeta md) = .ok md :=
  _root_.Peppi.parseMeta_json md

/- from `Peppi.SlppBytes` -/
theorem slppRead_written_json {φ : Type} (C : Codec KVs φ) (T : TextOracle) (g : PGame KVs φ) (startBytes : Bytes) (endBytes : Option Bytes)
    (hstart : gameStart T startBytes = .ok g.start)
    (hend : endBytes.map gameEnd = g.fend.map Res.ok)
    (hgecko : ∀ c, g.gecko = some c → c.2 < 2 ^ 32)
    (hs : SizesOK C.withJsonMeta g startBytes endBytes) (skip : Bool) :
    slppRead C.withJsonMeta T skip (slppWrite C.withJsonMeta g startBytes endBytes) =
      .ok (if skip then { g with frames := none } else { g with frames := g.frames.map C.norm }) :=
  _root_.Peppi.slppRead_written_json C T g startBytes endBytes hstart hend hgecko hs skip

/- from `Peppi.UbjsonRound` -/
theorem C16_write_read (utf8 : Bytes → Bool) (m : KVs) (rest : Bytes) (h : KVs.WF utf8 1 m) :
    ∃ bs, writeMap m = .ok bs ∧ readMap utf8 (bs ++ 0x7d :: rest) = .ok (m, rest) :=
  _root_.Peppi.C16_write_read utf8 m rest h

/- from `Peppi.UbjsonRound` -/
theorem C16_read_write (utf8 : Bytes → Bool) (m : KVs) (rest : Bytes) (h : KVs.WF utf8 1 m) :
    ∃ t r, readMap utf8 (encKVs m ++ 0x7d :: rest) = .ok (t, r) ∧ r = rest ∧ writeMap t = .ok (encKVs m) :=
  _root_.Peppi.C16_read_write utf8 m rest h

/- from `Peppi.UbjsonRound` -/
theorem encKVs_inj (utf8 : Bytes → Bool) (m1 m2 : KVs) (h1 : KVs.WF utf8 1 m1) (h2 : KVs.WF utf8 1 m2)
    (h : encKVs m1 = encKVs m2) : m1 = m2 :=
  _root_.Peppi.encKVs_inj utf8 m1 m2 h1 h2 h

theorem writeMap_enc (utf8 : Bytes → Bool) (m : KVs) (d : Nat) (h : KVs.WF utf8 d m) :
    writeMap m = .ok (encKVs m) :=
  _root_.Peppi.writeMap_enc utf8 m d h

end Peppi.Props.C16
