/- Property C05 — Game Start / Game End fields equal the spec-offset values of the raw blocks

   Statements of the machine-checked theorems this property's check relies on.  Each statement is
   spelled out here and proved from the lemma of the same name under `Peppi/` (generated once by
   `bin/mkprops.py`, then kept as source).  What is proved and what is partial: DESIGN.md §4. -/
import Peppi.Lemmas.C05All
import Peppi.Lemmas.C05Long
import Peppi.Start
import Peppi.Lemmas.PortMap
set_option linter.unusedVariables false
namespace Peppi.Props.C05

/- from `Peppi.Lemmas.C05All` -/
theorem C05_start (T : TextOracle) (b : Bytes) (hL : b.length ∈ startLengths) :
    gameStart T b = match specStart b.length T b b with | .ok s => .ok { s with bytes := b } | .err e => .err e | .panic p => .panic p :=
  _root_.Peppi.C05_start T b hL

/- from `Peppi.Lemmas.C05All` -/
theorem C05_end (b : Bytes) (hL : b.length = 1 ∨ b.length = 2 ∨ b.length = 6) :
    gameEnd b = match specEnd b.length b b with | .ok e => .ok { e with bytes := b } | .err e => .err e | .panic p => .panic p :=
  _root_.Peppi.C05_end b hL

/- from `Peppi.Lemmas.C05Long` -/
theorem C05_start_long (T : TextOracle) (b : Bytes) (hL : 760 ≤ b.length) :
    gameStart T b = match specStart 760 T b b with | .ok s => .ok { s with bytes := b } | .err e => .err e | .panic p => .panic p :=
  _root_.Peppi.C05_start_long T b hL

/- from `Peppi.Lemmas.C05Long` -/
theorem C05_end_long (b : Bytes) (hL : 6 ≤ b.length) :
    gameEnd b = match specEnd 6 b b with | .ok e => .ok { e with bytes := b } | .err e => .err e | .panic p => .panic p :=
  _root_.Peppi.C05_end_long b hL

/- from `Peppi.Start` -/
theorem gameStart_bytes (T : TextOracle) (block : Bytes) (s : Start) (h : gameStart T block = .ok s) : s.bytes = block :=
  _root_.Peppi.gameStart_bytes T block s h

/- from `Peppi.Start` -/
theorem gameEnd_bytes (block : Bytes) (e : End) (h : gameEnd block = .ok e) : e.bytes = block :=
  _root_.Peppi.gameEnd_bytes block e h

/- from `Peppi.Lemmas.PortMap` -/
open Extracted in
theorem player_port (T : TextOracle) (port : Nat) (v0 : Bytes) (isTeams : Bool) (v1_0 v1_3 n c v3_11 : Option Bytes) :
    Res.Post (fun o => ∀ p, o = some p → p.port = port) (player T port v0 isTeams v1_0 v1_3 n c v3_11) :=
  _root_.Peppi.player_port T port v0 isTeams v1_0 v1_3 n c v3_11

end Peppi.Props.C05
