/- Property C02 — .slp -> .slpp -> .slp is lossless under every compression option

   Statements of the machine-checked theorems this property's check relies on.  Each statement is
   spelled out here and proved from the lemma of the same name under `Peppi/` (generated once by
   `bin/mkprops.py`, then kept as source).  What is proved and what is partial: DESIGN.md §4. -/
import Peppi.Lemmas.Unified
import Peppi.Lemmas.PeppiRound
import Peppi.Lemmas.ArrowFrame
import Peppi.Lemmas.C01A
import Peppi.Lemmas.C01B
import Peppi.Lemmas.C01C
import Peppi.Lemmas.C01G
import Peppi.PremisesCore
import Peppi.PremisesArrow
import Peppi.SlppBytes
import Peppi.Tar
import Peppi.SlppCut
import Peppi.PeppiJson
import Peppi.C02Bytes
import Peppi.C02Example
set_option linter.unusedVariables false
namespace Peppi.Props.C02

/- from `Peppi.Lemmas.Unified` -/
open Extracted in
theorem C01_any (T : TextOracle) (r : Replay) (s : Start) (gk : Option GeckoBlocks) (h : r.WFAny T s gk)
    (hmax : assertMaxVersion s.version = .ok ()) :
    ∃ g, readSlp T {} (r.encodeAny s.version (portOccupancy s) gk) = .ok g ∧
      writeSlp g = .ok (r.encodeAny s.version (portOccupancy s) gk) :=
  _root_.Peppi.C01_any T r s gk h hmax

/- from `Peppi.Lemmas.PeppiRound` -/
theorem peppiRead_written {μ φ : Type} (T : TextOracle) (g : PGame μ φ) (startBytes : Bytes) (endBytes : Option Bytes) (trailerOk : Bool)
    (hstart : gameStart T startBytes = .ok g.start)
    (hend : endBytes.map gameEnd = g.fend.map Res.ok)
    (hgecko : ∀ c, g.gecko = some c → c.2 < 2 ^ 32)
    (hframes : g.frames = none → trailerOk = true) :
    peppiRead T false trailerOk (writtenEntries g startBytes endBytes) = .ok g :=
  _root_.Peppi.peppiRead_written T g startBytes endBytes trailerOk hstart hend hgecko hframes

/- from `Peppi.Lemmas.ArrowFrame` -/
theorem fromF_norm_intoF (w : Widths) (f : FCols) (h : FrameRowsOK w f) : fromF (normF (intoF w f)) = f :=
  _root_.Peppi.fromF_norm_intoF w f h

/- from `Peppi.Lemmas.ArrowFrame` -/
theorem fromF'_norm_intoF' (w : Widths) (f : FCols) (h : FrameRowsOK w f) (hw : w.fend = 0)
    (ec : SCols) (hfe : f.fend = some ec) (hpresent : ec = List.replicate f.id.length (some [])) :
    fromF' true (normF (intoF' w f)) = f :=
  _root_.Peppi.fromF'_norm_intoF' w f h hw ec hfe hpresent

/- from `Peppi.Lemmas.PeppiRound` -/
theorem le_roundtrip (n : Nat) (h : n < 2 ^ 32) (rest : Bytes) :
    fromBE (((leU32' n ++ rest).take 4).reverse) = n ∧ (leU32' n ++ rest).drop 4 = rest ∧ ¬ (leU32' n ++ rest).length < 4 :=
  _root_.Peppi.le_roundtrip n h rest

/- from `Peppi.Lemmas.C01A` -/
open Extracted in
theorem C01_A (T : TextOracle) (r : Replay) (s : Start) (h : r.WF T s) (hmax : assertMaxVersion s.version = .ok ()) :
    ∃ g, readSlp T {} (r.encode s.version (portOccupancy s)) = .ok g ∧ writeSlp g = .ok (r.encode s.version (portOccupancy s)) :=
  _root_.Peppi.C01_A T r s h hmax

/- from `Peppi.Lemmas.C01B` -/
open Extracted in
theorem C01_B (T : TextOracle) (r : Replay) (s : Start) (h : r.WFB T s) (hmax : assertMaxVersion s.version = .ok ()) :
    ∃ g, readSlp T {} (r.encodeB s.version (portOccupancy s)) = .ok g ∧ writeSlp g = .ok (r.encodeB s.version (portOccupancy s)) :=
  _root_.Peppi.C01_B T r s h hmax

/- from `Peppi.Lemmas.C01C` -/
open Extracted in
theorem C01_C (T : TextOracle) (r : Replay) (s : Start) (h : r.WFC T s) (hmax : assertMaxVersion s.version = .ok ()) :
    ∃ g, readSlp T {} (r.encodeC s.version (portOccupancy s)) = .ok g ∧ writeSlp g = .ok (r.encodeC s.version (portOccupancy s)) :=
  _root_.Peppi.C01_C T r s h hmax

/- from `Peppi.Lemmas.C01G` -/
open Extracted in
theorem C01_G (T : TextOracle) (r : Replay) (s : Start) (gk : GeckoBlocks) (h : r.WFG T s gk) (hmax : assertMaxVersion s.version = .ok ()) :
    ∃ g, readSlp T {} (r.encodeG s.version (portOccupancy s) gk) = .ok g ∧ writeSlp g = .ok (r.encodeG s.version (portOccupancy s) gk) :=
  _root_.Peppi.C01_G T r s gk h hmax

/- from `Peppi.PremisesCore` -/
open Extracted in
theorem core_End : structCoreOK true true End.views = true :=
  _root_.Peppi.core_End 

/- from `Peppi.PremisesCore` -/
open Extracted in
theorem core_Item : structCoreOK false true Item.views = true :=
  _root_.Peppi.core_Item 

/- from `Peppi.PremisesCore` -/
open Extracted in
theorem core_ItemMisc : structCoreOK false false ItemMisc.views = true :=
  _root_.Peppi.core_ItemMisc 

/- from `Peppi.PremisesCore` -/
open Extracted in
theorem core_Position : structCoreOK false true Position.views = true :=
  _root_.Peppi.core_Position 

/- from `Peppi.PremisesCore` -/
open Extracted in
theorem core_Post : structCoreOK false true Post.views = true :=
  _root_.Peppi.core_Post 

/- from `Peppi.PremisesCore` -/
open Extracted in
theorem core_Pre : structCoreOK false true Pre.views = true :=
  _root_.Peppi.core_Pre 

/- from `Peppi.PremisesCore` -/
open Extracted in
theorem core_Start : structCoreOK false true Start.views = true :=
  _root_.Peppi.core_Start 

/- from `Peppi.PremisesCore` -/
open Extracted in
theorem core_StateFlags : structCoreOK false false StateFlags.views = true :=
  _root_.Peppi.core_StateFlags 

/- from `Peppi.PremisesCore` -/
open Extracted in
theorem core_TriggersPhysical : structCoreOK false true TriggersPhysical.views = true :=
  _root_.Peppi.core_TriggersPhysical 

/- from `Peppi.PremisesCore` -/
open Extracted in
theorem core_Velocities : structCoreOK false true Velocities.views = true :=
  _root_.Peppi.core_Velocities 

/- from `Peppi.PremisesCore` -/
open Extracted in
theorem core_Velocity : structCoreOK false true Velocity.views = true :=
  _root_.Peppi.core_Velocity 

/- from `Peppi.PremisesArrow` -/
open Extracted in
theorem arrow_End : structArrowOK true End.views = true :=
  _root_.Peppi.arrow_End 

/- from `Peppi.PremisesArrow` -/
open Extracted in
theorem arrow_Item : structArrowOK true Item.views = true :=
  _root_.Peppi.arrow_Item 

/- from `Peppi.PremisesArrow` -/
open Extracted in
theorem arrow_ItemMisc : structArrowOK false ItemMisc.views = true :=
  _root_.Peppi.arrow_ItemMisc 

/- from `Peppi.PremisesArrow` -/
open Extracted in
theorem arrow_Position : structArrowOK true Position.views = true :=
  _root_.Peppi.arrow_Position 

/- from `Peppi.PremisesArrow` -/
open Extracted in
theorem arrow_Post : structArrowOK true Post.views = true :=
  _root_.Peppi.arrow_Post 

/- from `Peppi.PremisesArrow` -/
open Extracted in
theorem arrow_Pre : structArrowOK true Pre.views = true :=
  _root_.Peppi.arrow_Pre 

/- from `Peppi.PremisesArrow` -/
open Extracted in
theorem arrow_Start : structArrowOK true Start.views = true :=
  _root_.Peppi.arrow_Start 

/- from `Peppi.PremisesArrow` -/
open Extracted in
theorem arrow_StateFlags : structArrowOK false StateFlags.views = true :=
  _root_.Peppi.arrow_StateFlags 

/- from `Peppi.PremisesArrow` -/
open Extracted in
theorem arrow_TriggersPhysical : structArrowOK true TriggersPhysical.views = true :=
  _root_.Peppi.arrow_TriggersPhysical 

/- from `Peppi.PremisesArrow` -/
open Extracted in
theorem arrow_Velocities : structArrowOK true Velocities.views = true :=
  _root_.Peppi.arrow_Velocities 

/- from `Peppi.PremisesArrow` -/
open Extracted in
theorem arrow_Velocity : structArrowOK true Velocity.views = true :=
  _root_.Peppi.arrow_Velocity 

/- from `Peppi.SlppBytes` -/
theorem slppRead_written {μ φ : Type} (C : Codec μ φ) (T : TextOracle) (g : PGame μ φ) (startBytes : Bytes) (endBytes : Option Bytes)
    (hstart : gameStart T startBytes = .ok g.start)
    (hend : endBytes.map gameEnd = g.fend.map Res.ok)
    (hgecko : ∀ c, g.gecko = some c → c.2 < 2 ^ 32)
    (hs : SizesOK C g startBytes endBytes) (skip : Bool) :
    slppRead C T skip (slppWrite C g startBytes endBytes) =
      .ok (if skip then { g with frames := none } else { g with frames := g.frames.map C.norm }) :=
  _root_.Peppi.slppRead_written C T g startBytes endBytes hstart hend hgecko hs skip

/- from `Peppi.Tar` -/
theorem tarRead_archive (es : List (Bytes × Bytes)) (hes : ∀ e ∈ es, EntryOK e) (fuel : Nat) (hf : es.length < fuel) :
    tarRead fuel (tarArchive es) = .ok (es, true) :=
  _root_.Peppi.tarRead_archive es hes fuel hf

/- from `Peppi.SlppBytes` -/
theorem slppRead_written_json {φ : Type} (C : Codec KVs φ) (T : TextOracle) (g : PGame KVs φ) (startBytes : Bytes) (endBytes : Option Bytes)
    (hstart : gameStart T startBytes = .ok g.start)
    (hend : endBytes.map gameEnd = g.fend.map Res.ok)
    (hgecko : ∀ c, g.gecko = some c → c.2 < 2 ^ 32)
    (hs : SizesOK C.withJsonMeta g startBytes endBytes) (skip : Bool) :
    slppRead C.withJsonMeta T skip (slppWrite C.withJsonMeta g startBytes endBytes) =
      .ok (if skip then { g with frames := none } else { g with frames := g.frames.map C.norm }) :=
  _root_.Peppi.slppRead_written_json C T g startBytes endBytes hstart hend hgecko hs skip

/- from `Peppi.SlppCut` -/
theorem slppRead_written_json2 {φ : Type} (C : Codec KVs φ) (T : TextOracle) (g : PGame KVs φ) (startBytes : Bytes) (endBytes : Option Bytes)
    (hstart : gameStart T startBytes = .ok g.start)
    (hend : endBytes.map gameEnd = g.fend.map Res.ok)
    (hgecko : ∀ c, g.gecko = some c → c.2 < 2 ^ 32)
    (hs : SizesOK C.withJson g startBytes endBytes) (skip : Bool) :
    slppRead C.withJson T skip (slppWrite C.withJson g startBytes endBytes) = .ok (if skip then { g with frames := none } else { g with frames := g.frames.map C.norm }) :=
  _root_.Peppi.slppRead_written_json2 C T g startBytes endBytes hstart hend hgecko hs skip

/- from `Peppi.PeppiJson` -/
theorem decPeppiJ_enc (h : Option String) (q : Option Bool) : decPeppiJ (encPeppiJ h q) = .ok ⟨true, h, q⟩ :=
  _root_.Peppi.decPeppiJ_enc h q

/- from `Peppi.C02Bytes` -/
open Extracted in
theorem C02_bytes (C : Codec KVs AFrame) (hnorm : C.norm = normF) (T : TextOracle) (r : Replay) (s : Start) (gk : Option GeckoBlocks)
    (h : r.WFAny T s gk) (hmax : assertMaxVersion s.version = .ok ())
    (hsize : ∀ g, readSlp T {} (r.encodeAny s.version (portOccupancy s) gk) = .ok g →
      SizesOK C (toP g none) g.start.bytes (g.fend.map (·.bytes))) :
    ∃ g p, readSlp T {} (r.encodeAny s.version (portOccupancy s) gk) = .ok g ∧
      slppRead C T false (slppWrite C (toP g none) g.start.bytes (g.fend.map (·.bytes))) = .ok p ∧
      writeSlp (ofP p) = .ok (r.encodeAny s.version (portOccupancy s) gk) :=
  _root_.Peppi.C02_bytes C hnorm T r s gk h hmax hsize

/- from `Peppi.C02Bytes` -/
open Extracted in
theorem import_export (v : Ver) (shape : List PortOccupancy) (h : List FrameOcc) (hok : ∀ o ∈ h, o.OK v (nSlots shape)) :
    fromF' (v.gte 3 0) (normF (intoF' (widthsOf v) (expFrames v shape h))) = expFrames v shape h :=
  _root_.Peppi.import_export v shape h hok

/- from `Peppi.C02Bytes` -/
open Extracted in
theorem expFrames_rowsOK (v : Ver) (shape : List PortOccupancy) (h : List FrameOcc)
    (hok : ∀ o ∈ h, o.OK v (nSlots shape)) : FrameRowsOK (widthsOf v) (expFrames v shape h) :=
  _root_.Peppi.expFrames_rowsOK v shape h hok

/- from `Peppi.C02Example` -/
open Extracted in
theorem C02_bytes_example :
    ∃ g p, readSlp T0 {} (exR.encodeAny exS.version (portOccupancy exS) none) = .ok g ∧
      slppRead exCodecA T0 false (slppWrite exCodecA (toP g none) g.start.bytes (g.fend.map (·.bytes))) = .ok p ∧
      writeSlp (ofP p) = .ok (exR.encodeAny exS.version (portOccupancy exS) none) :=
  _root_.Peppi.C02_bytes_example 

end Peppi.Props.C02
