/- Property C12 — Incremental parsing equals one-shot parsing for any read fragmentation

   Statements of the machine-checked theorems this property's check relies on.  Each statement is
   spelled out here and proved from the lemma of the same name under `Peppi/` (generated once by
   `bin/mkprops.py`, then kept as source).  What is proved and what is partial: DESIGN.md §4. -/
import Peppi.Lemmas.C12
import Peppi.Stream
set_option linter.unusedVariables false
namespace Peppi.Props.C12

/- from `Peppi.Lemmas.C12` -/
open Extracted in
theorem parseEvent_count (ps : ParseState) (bs : Bytes) (code : Nat) (ps' : ParseState) (rest : Bytes)
    (h : parseEvent ps bs = .ok ((code, ps'), rest)) :
    ps'.bytesRead + rest.length = ps.bytesRead + bs.length :=
  _root_.Peppi.parseEvent_count ps bs code ps' rest h

/- from `Peppi.Lemmas.C12` -/
open Extracted in
theorem handleEvent_ids (st : PState) (code : Nat) (buf : Bytes) : Res.Post (IdsExtend st) (handleEvent st code buf) :=
  _root_.Peppi.handleEvent_ids st code buf

/- from `Peppi.Stream` -/
theorem readExactS_flat : ∀ (s : Stream) (n : Nat),
    (∀ b s', readExactS n s = .ok (b, s') → Rd.take n s.flatten = .ok (b, s'.flatten)) ∧
    (∀ e, readExactS n s = .err e → ∃ e', Rd.take n s.flatten = .err e') ∧
    (∀ p, readExactS n s ≠ .panic p) :=
  _root_.Peppi.readExactS_flat 

end Peppi.Props.C12
