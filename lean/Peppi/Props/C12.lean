/- Property C12 — Incremental parsing equals one-shot parsing for any read fragmentation

   Statements of the machine-checked theorems this property's check relies on.  Each statement is
   spelled out here and proved from the lemma of the same name under `Peppi/` (generated once by
   `bin/mkprops.py`, then kept as source).  What is proved and what is partial: DESIGN.md §4. -/
import Peppi.Lemmas.C12Cols
import Peppi.Lemmas.C12
import Peppi.Stream
set_option linter.unusedVariables false
namespace Peppi.Props.C12

/- from `Peppi.Lemmas.C12Cols` -/
open Extracted in
theorem C12_final (T : TextOracle) (hash : Bool) (x : Bytes) :
    readP T { skipFrames := false, computeHash := hash } x =
      (match parseHeader x with
       | .ok (rawLen, r1) =>
         (match parseStart T r1 with
          | .ok (ps, r2) =>
            (match eventLoop (r2.length + 1) rawLen ps r2 with
             | .ok (ps', r3) => readTail T rawLen ps' r3
             | .err e => .err e
             | .panic p => .panic p)
          | .err e => .err e
          | .panic p => .panic p)
       | .err e => .err e
       | .panic p => .panic p) :=
  _root_.Peppi.C12_final T hash x

/- from `Peppi.Lemmas.C12Cols` -/
open Extracted in
theorem eventLoop_extends (fuel rawLen : Nat) (ps : ParseState) (bs : Bytes) (ps' : ParseState) (rest : Bytes)
    (h : eventLoop fuel rawLen ps bs = .ok (ps', rest)) : ps.st.frames.Ext ps'.st.frames :=
  _root_.Peppi.eventLoop_extends fuel rawLen ps bs ps' rest h

/- from `Peppi.Lemmas.C12Cols` -/
open Extracted in
theorem parseEvent_extends (ps : ParseState) (bs : Bytes) (code : Nat) (ps' : ParseState) (rest : Bytes)
    (h : parseEvent ps bs = .ok ((code, ps'), rest)) : ps.st.frames.Ext ps'.st.frames :=
  _root_.Peppi.parseEvent_extends ps bs code ps' rest h

/- from `Peppi.Lemmas.C12Cols` -/
open Extracted in
theorem handleEvent_extends (st : PState) (code : Nat) (buf : Bytes) : Res.Post (ColsExtend st) (handleEvent st code buf) :=
  _root_.Peppi.handleEvent_extends st code buf

/- from `Peppi.Lemmas.C12` -/
open Extracted in
theorem parseEvent_count (ps : ParseState) (bs : Bytes) (code : Nat) (ps' : ParseState) (rest : Bytes)
    (h : parseEvent ps bs = .ok ((code, ps'), rest)) :
    ps'.bytesRead + rest.length = ps.bytesRead + bs.length :=
  _root_.Peppi.parseEvent_count ps bs code ps' rest h

/- from `Peppi.Lemmas.C12` -/
open Extracted in
theorem handleEvent_ids (st : PState) (code : Nat) (buf : Bytes) : Res.Post (IdsExtend st) (handleEvent st code buf) :=
  _root_.Peppi.handleEvent_ids st code buf

/- from `Peppi.Stream` -/
theorem readExactS_flat : ∀ (s : Stream) (n : Nat),
    (∀ b s', readExactS n s = .ok (b, s') → Rd.take n s.flatten = .ok (b, s'.flatten)) ∧
    (∀ e, readExactS n s = .err e → ∃ e', Rd.take n s.flatten = .err e') ∧
    (∀ p, readExactS n s ≠ .panic p) :=
  _root_.Peppi.readExactS_flat 

end Peppi.Props.C12
