/- Property C12 — Incremental parsing equals one-shot parsing for any read fragmentation

   Statements of the machine-checked theorems this property's check relies on.  Each statement is
   spelled out here and proved from the lemma of the same name under `Peppi/` (generated once by
   `bin/mkprops.py`, then kept as source).  What is proved and what is partial: DESIGN.md §4. -/
import Peppi.Lemmas.C12Cols
import Peppi.Lemmas.C12Start
import Peppi.Lemmas.C12
import Peppi.Stream
import Peppi.Prog
import Peppi.ReadProg
import Peppi.ReadStream
import Peppi.Lemmas.Trunc
set_option linter.unusedVariables false
namespace Peppi.Props.C12

/- from `Peppi.Lemmas.C12Cols` -/
open Extracted in
theorem C12_final (T : TextOracle) (hash : Bool) (x : Bytes) :
    readP T { skipFrames := false, computeHash := hash } x =
      (match parseHeader x with
       | .ok (rawLen, r1) =>
         (match parseStart T r1 with
          | .ok (ps, r2) =>
            (match eventLoop (r2.length + 1) rawLen ps r2 with
             | .ok (ps', r3) => readTail T rawLen ps' r3
             | .err e => .err e
             | .panic p => .panic p)
          | .err e => .err e
          | .panic p => .panic p)
       | .err e => .err e
       | .panic p => .panic p) :=
  _root_.Peppi.C12_final T hash x

/- from `Peppi.Lemmas.C12Cols` -/
open Extracted in
theorem eventLoop_extends (fuel rawLen : Nat) (ps : ParseState) (bs : Bytes) (ps' : ParseState) (rest : Bytes)
    (h : eventLoop fuel rawLen ps bs = .ok (ps', rest)) : ps.st.frames.Ext ps'.st.frames :=
  _root_.Peppi.eventLoop_extends fuel rawLen ps bs ps' rest h

/- from `Peppi.Lemmas.C12Cols` -/
open Extracted in
theorem parseEvent_extends (ps : ParseState) (bs : Bytes) (code : Nat) (ps' : ParseState) (rest : Bytes)
    (h : parseEvent ps bs = .ok ((code, ps'), rest)) : ps.st.frames.Ext ps'.st.frames :=
  _root_.Peppi.parseEvent_extends ps bs code ps' rest h

/- from `Peppi.Lemmas.C12Cols` -/
open Extracted in
theorem handleEvent_extends (st : PState) (code : Nat) (buf : Bytes) : Res.Post (ColsExtend st) (handleEvent st code buf) :=
  _root_.Peppi.handleEvent_extends st code buf

/- from `Peppi.Lemmas.C12Start` -/
open Extracted in
theorem parseStart_count (T : TextOracle) (bs : Bytes) (ps : ParseState) (rest : Bytes)
    (h : parseStart T bs = .ok (ps, rest)) : ps.bytesRead + rest.length = bs.length :=
  _root_.Peppi.parseStart_count T bs ps rest h

/- from `Peppi.Lemmas.C12Start` -/
open Extracted in
theorem parseStart_then_event_count (T : TextOracle) (bs : Bytes) (ps : ParseState) (r1 : Bytes) (code : Nat) (ps' : ParseState) (r2 : Bytes)
    (h1 : parseStart T bs = .ok (ps, r1)) (h2 : parseEvent ps r1 = .ok ((code, ps'), r2)) : ps'.bytesRead + r2.length = bs.length :=
  _root_.Peppi.parseStart_then_event_count T bs ps r1 code ps' r2 h1 h2

/- from `Peppi.Lemmas.C12` -/
open Extracted in
theorem parseEvent_count (ps : ParseState) (bs : Bytes) (code : Nat) (ps' : ParseState) (rest : Bytes)
    (h : parseEvent ps bs = .ok ((code, ps'), rest)) :
    ps'.bytesRead + rest.length = ps.bytesRead + bs.length :=
  _root_.Peppi.parseEvent_count ps bs code ps' rest h

/- from `Peppi.Lemmas.C12` -/
open Extracted in
theorem handleEvent_ids (st : PState) (code : Nat) (buf : Bytes) : Res.Post (IdsExtend st) (handleEvent st code buf) :=
  _root_.Peppi.handleEvent_ids st code buf

/- from `Peppi.Stream` -/
theorem readExactS_flat : ∀ (s : Stream) (n : Nat),
    (∀ b s', readExactS n s = .ok (b, s') → Rd.take n s.flatten = .ok (b, s'.flatten)) ∧
    (∀ e, readExactS n s = .err e → ∃ e', Rd.take n s.flatten = .err e') ∧
    (∀ p, readExactS n s ≠ .panic p) :=
  _root_.Peppi.readExactS_flat 

/- from `Peppi.Prog` -/
open Peppi.Prog in
theorem frag {α} (p : Prog α) : ∀ (h : HSrc),
    (∀ a rest, p.run h.pieces.flatten = .ok (a, rest) →
      ∃ s' used, p.runS h = .ok (a, ⟨s', h.fed.map (· ++ used)⟩) ∧ s'.flatten = rest ∧ h.pieces.flatten = used ++ rest) ∧
    (∀ e, p.run h.pieces.flatten = .err e → ∃ e', p.runS h = .err e') ∧
    (∀ x, p.run h.pieces.flatten = .panic x → p.runS h = .panic x) :=
  _root_.Peppi.Prog.frag p

/- from `Peppi.ReadProg` -/
open Extracted Peppi.Prog in
theorem run_readProg (T : TextOracle) (opts : Opts) (fuel : Nat) (x : Bytes) (hf : 2 * x.length + 2 ≤ fuel) :
    (readProg T opts fuel).run x = readP T opts x :=
  _root_.Peppi.Prog.run_readProg T opts fuel x hf

/- from `Peppi.ReadStream` -/
open Extracted Prog in
theorem readSlpS_frag (T : TextOracle) (opts : Opts) (s : Stream) :
    (∀ g, readSlp T opts s.flatten = .ok g →
      ∃ fed, readSlpS T opts s = .ok (g, fed) ∧
        (opts.computeHash = true → ∃ used rest, fed = some used ∧ s.flatten = used ++ rest ∧ g.hashedLen = some used.length) ∧
        (opts.computeHash = false → fed = none ∧ g.hashedLen = none)) ∧
    (∀ e, readSlp T opts s.flatten = .err e → ∃ e', readSlpS T opts s = .err e') ∧
    (∀ p, readSlp T opts s.flatten = .panic p → readSlpS T opts s = .panic p) :=
  _root_.Peppi.readSlpS_frag T opts s

/- from `Peppi.ReadStream` -/
open Extracted Prog in
theorem parseEventS_frag (ps : ParseState) (h : HSrc) (code : Nat) (ps' : ParseState) (rest : Bytes)
    (hp : parseEvent ps h.pieces.flatten = .ok ((code, ps'), rest)) :
    ∃ s' used, (parseEventP ps).runS h = .ok ((code, ps'), ⟨s', h.fed.map (· ++ used)⟩) ∧ s'.flatten = rest ∧
      h.pieces.flatten = used ++ rest ∧ ps'.bytesRead = ps.bytesRead + used.length :=
  _root_.Peppi.parseEventS_frag ps h code ps' rest hp

/- from `Peppi.ReadStream` -/
open Extracted Prog in
theorem parseHeaderS_frag (h : HSrc) (rawLen : Nat) (rest : Bytes) (hp : parseHeader h.pieces.flatten = .ok (rawLen, rest)) :
    ∃ s' used, parseHeaderP.runS h = .ok (rawLen, ⟨s', h.fed.map (· ++ used)⟩) ∧ s'.flatten = rest ∧ h.pieces.flatten = used ++ rest :=
  _root_.Peppi.parseHeaderS_frag h rawLen rest hp

/- from `Peppi.ReadStream` -/
open Extracted Prog in
theorem parseStartS_frag (T : TextOracle) (h : HSrc) (ps : ParseState) (rest : Bytes) (hp : parseStart T h.pieces.flatten = .ok (ps, rest)) :
    ∃ s' used, (parseStartP T).runS h = .ok (ps, ⟨s', h.fed.map (· ++ used)⟩) ∧ s'.flatten = rest ∧ h.pieces.flatten = used ++ rest :=
  _root_.Peppi.parseStartS_frag T h ps rest hp

/- from `Peppi.Lemmas.Trunc` -/
open Extracted in
theorem local_parseStart (T : TextOracle) : Rd.Local (parseStart T) :=
  _root_.Peppi.local_parseStart T

/- from `Peppi.Lemmas.Trunc` -/
open Extracted in
theorem local_parseEvent (ps : ParseState) : Rd.Local (parseEvent ps) :=
  _root_.Peppi.local_parseEvent ps

/- from `Peppi.Lemmas.Trunc` -/
open Extracted in
theorem local_parseMetadata (utf8 st) : Rd.Local (parseMetadata utf8 st) :=
  _root_.Peppi.local_parseMetadata utf8 st

end Peppi.Props.C12
