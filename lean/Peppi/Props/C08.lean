/- Property C08 — Unknown events and longer payloads from newer versions never disturb known data

   Statements of the machine-checked theorems this property's check relies on.  Each statement is
   spelled out here and proved from the lemma of the same name under `Peppi/` (generated once by
   `bin/mkprops.py`, then kept as source).  What is proved and what is partial: DESIGN.md §4. -/
import Peppi.Lemmas.C08
import Peppi.Lemmas.C08File
import Peppi.Lemmas.C05Long
import Peppi.Lemmas.GenFile
import Peppi.Lemmas.GenInst
import Peppi.Lemmas.GenCor
import Peppi.Lemmas.GenExample
import Peppi.Lemmas.Longer
import Peppi.Lemmas.GeckoU
import Peppi.Lemmas.Wrapped
set_option linter.unusedVariables false
namespace Peppi.Props.C08

/- from `Peppi.Lemmas.C08` -/
open Extracted in
theorem handle_unknown (st : PState) (code : Nat) (buf : Bytes) (h : isKnown code = false) :
    handleEvent st code buf = .ok st :=
  _root_.Peppi.handle_unknown st code buf h

/- from `Peppi.Lemmas.C08` -/
open Extracted in
theorem runEvents_erase_unknown : ∀ (es : List (Nat × Bytes)) (st : PState),
    runEvents st es = runEvents st (es.filter fun e => isKnown e.1) :=
  _root_.Peppi.runEvents_erase_unknown 

/- from `Peppi.Lemmas.C08File` -/
open Extracted in
theorem readP_encode_U (T : TextOracle) (r : Replay) (s : Start) (u : Unknowns) (h : r.WFU T s u) :
    ∃ ge : Option End, r.fend.map gameEnd = ge.map Res.ok ∧
      readP T {} (r.encodeU s.version u) = .ok (r.game s ge, []) :=
  _root_.Peppi.readP_encode_U T r s u h

/- from `Peppi.Lemmas.C08File` -/
open Extracted in
theorem C08_unknown_A (T : TextOracle) (r : Replay) (s : Start) (u : Unknowns) (h : r.WFU T s u) :
    readSlp T { skipFrames := false, computeHash := false } (r.encodeU s.version u) =
      readSlp T { skipFrames := false, computeHash := false } (r.encode s.version (portOccupancy s)) :=
  _root_.Peppi.C08_unknown_A T r s u h

/- from `Peppi.Lemmas.C08` -/
open Extracted in
theorem rowOrEof_extra (v : Ver) (L : List Fld) (bs extra : Bytes) (row : Row) (h : rowOrEof v L bs = .ok row) :
    rowOrEof v L (bs ++ extra) = .ok row :=
  _root_.Peppi.rowOrEof_extra v L bs extra row h

/- from `Peppi.Lemmas.C05Long` -/
theorem C05_start_long (T : TextOracle) (b : Bytes) (hL : 760 ≤ b.length) :
    gameStart T b = match specStart 760 T b b with | .ok s => .ok { s with bytes := b } | .err e => .err e | .panic p => .panic p :=
  _root_.Peppi.C05_start_long T b hL

/- from `Peppi.Lemmas.C05Long` -/
theorem C05_end_long (b : Bytes) (hL : 6 ≤ b.length) :
    gameEnd b = match specEnd 6 b b with | .ok e => .ok { e with bytes := b } | .err e => .err e | .panic p => .panic p :=
  _root_.Peppi.C05_end_long b hL

/- from `Peppi.Lemmas.GenFile` -/
open Extracted in
theorem readP_gen (T : TextOracle) (f : GFile) (s : Start) (psF : ParseState) (h : f.WF T s psF) :
    ∃ ge : Option End, f.fend.map gameEnd = ge.map Res.ok ∧
      readP T {} f.encode =
        .ok (gameOf ({ psF.st with fend := ge } : PState).closed f.metadata (dgeOf s.version f.extra none), []) :=
  _root_.Peppi.readP_gen T f s psF h

/- from `Peppi.Lemmas.GenInst` -/
open Extracted in
theorem readP_irregular (T : TextOracle) (r : Replay) (s : Start) (gk : Option GeckoBlocks) (i : Irr) (h : i.OK T r s gk) :
    ∃ ge : Option End, r.fend.map gameEnd = ge.map Res.ok ∧
      readP T {} (r.fileIrr s gk i).encode = .ok (r.gameAny s ge gk, []) :=
  _root_.Peppi.readP_irregular T r s gk i h

/- from `Peppi.Lemmas.GenCor` -/
open Extracted in
theorem C08_any (T : TextOracle) (r : Replay) (s : Start) (gk : Option GeckoBlocks) (i : Irr) (h : i.OK T r s gk) :
    readSlp T { skipFrames := false, computeHash := false } (r.fileIrr s gk i).encode =
      readSlp T { skipFrames := false, computeHash := false } (r.encodeAny s.version (portOccupancy s) gk) :=
  _root_.Peppi.C08_any T r s gk i h

/- from `Peppi.Lemmas.GenExample` -/
open Extracted in
theorem exampleIrr_A :
    (exIrr (startOf (exBlock 3 16 760)).version 760 6 none (portOccupancy (startOf (exBlock 3 16 760)))
      (exFrames [-123, -122, -122] 17 32 2 16 1 true) []).OK T0
      (exReplay (exBlock 3 16 760) (exFrames [-123, -122, -122] 17 32 2 16 1 true) [2, 255, 0, 1, 255, 255]) (startOf (exBlock 3 16 760)) none :=
  _root_.Peppi.exampleIrr_A 

/- from `Peppi.Lemmas.GenExample` -/
open Extracted in
theorem exampleIrr_B :
    (exIrr (startOf (exBlock 2 2 418)).version 418 2 none (portOccupancy (startOf (exBlock 2 2 418)))
      (exFrames [-123, -122, -122] 16 23 1 0 0 false) []).OK T0
      (exReplay (exBlock 2 2 418) (exFrames [-123, -122, -122] 16 23 1 0 0 false) [2, 255]) (startOf (exBlock 2 2 418)) none :=
  _root_.Peppi.exampleIrr_B 

/- from `Peppi.Lemmas.GenExample` -/
open Extracted in
theorem exampleIrr_C :
    (exIrr (startOf (exBlock 1 0 352)).version 352 1 none (portOccupancy (startOf (exBlock 1 0 352)))
      (exFrames [-123, -122, -121] 14 12 1 0 0 false) []).OK T0
      (exReplay (exBlock 1 0 352) (exFrames [-123, -122, -121] 14 12 1 0 0 false) [2]) (startOf (exBlock 1 0 352)) none :=
  _root_.Peppi.exampleIrr_C 

/- from `Peppi.Lemmas.GenExample` -/
open Extracted in
theorem exampleIrr_G :
    (exIrr (startOf (exBlock 3 16 760)).version 760 6 (some exGecko) (portOccupancy (startOf (exBlock 3 16 760)))
      (exFrames [-123, -122, -122] 17 32 2 16 1 true) []).OK T0
      (exReplay (exBlock 3 16 760) (exFrames [-123, -122, -122] 17 32 2 16 1 true) [2, 255, 0, 1, 255, 255]) (startOf (exBlock 3 16 760)) (some exGecko) :=
  _root_.Peppi.exampleIrr_G 

/- from `Peppi.Lemmas.Longer` -/
open Extracted in
theorem handleEvent_extra (st st' : PState) (code : Nat) (buf x : Bytes) (hc : isFrameEv code = true)
    (h : handleEvent st code buf = .ok st') : handleEvent st code (buf ++ x) = .ok st' :=
  _root_.Peppi.handleEvent_extra st st' code buf x hc h

/- from `Peppi.Lemmas.Longer` -/
open Extracted in
theorem runEvents_longer {es' es : List (Nat × Bytes)} (hl : Longer es' es) : ∀ (st st' : PState),
    runEvents st es = .ok st' → runEvents st es' = .ok st' :=
  _root_.Peppi.runEvents_longer hl

/- from `Peppi.Lemmas.GenExample` -/
open Extracted in
theorem exampleIrr_N :
    ({ table := padTable (canonTableAny (startOf (exBlock 3 17 760)).version 760 6 none) ++ [(0x50, 3)],
       mixed := [(0x50, [1, 2, 3])] ++ padEvents (canonEventsAny (startOf (exBlock 3 17 760)).version (portOccupancy (startOf (exBlock 3 17 760)))
         (exFrames [-123, -122, -122] 17 32 2 16 1 true)),
       junk := [] } : Irr).OK T0
      (exReplay (exBlock 3 17 760) (exFrames [-123, -122, -122] 17 32 2 16 1 true) [2, 255, 0, 1, 255, 255]) (startOf (exBlock 3 17 760)) none :=
  _root_.Peppi.exampleIrr_N 

/- from `Peppi.Lemmas.GeckoU` -/
open Extracted in
theorem midRun_geckoU (t : List (Nat × Nat)) (sl : Nat) (s : Start) (g : GeckoBlocks) (us : List (List (Nat × Bytes)))
    (hfull : ∀ b ∈ g.init, FullBlock b) (hlast : LastBlock g.last) (htot : g.total < 2 ^ 32)
    (hsz : sizeOfEv t.reverse EV_SPLITTER = some 516)
    (hus : ∀ u ∈ us, ∀ e ∈ u, isKnown e.1 = false ∧ e.1 < 256 ∧ sizeOfEv t.reverse e.1 = some e.2.length) :
    MidRun (ps0T t sl s) (g.encU us)
      { st := { (ps0T t sl s).st with splitRaw := [], splitActual := g.total, gecko := some (Gecko.mk (catData g.all) g.total) },
        bytesRead := (ps0T t sl s).bytesRead + (g.encU us).length } :=
  _root_.Peppi.midRun_geckoU t sl s g us hfull hlast htot hsz hus

/- from `Peppi.Lemmas.Wrapped` -/
open Extracted in
theorem parseEvent_wrapped_unknown (ps : ParseState) (c : Nat) (data rest : Bytes) (actual : Nat)
    (hc : c < 256) (hunk : isKnown c = false) (hd : data.length = 512) (ha : actual ≤ 512)
    (hsz : sizeOfEv ps.st.sizes EV_SPLITTER = some 516) (hact : ps.st.splitActual + actual < 2 ^ 32) :
    parseEvent ps (encEvent (EV_SPLITTER, splitPayloadC data actual true c) ++ rest) =
      .ok ((c, { st := { ps.st with splitRaw := [], splitActual := ps.st.splitActual + actual }, bytesRead := ps.bytesRead + 516 + 1 }), rest) :=
  _root_.Peppi.parseEvent_wrapped_unknown ps c data rest actual hc hunk hd ha hsz hact

/- from `Peppi.Lemmas.Wrapped` -/
open Extracted in
theorem parseEvent_split_any (ps : ParseState) (c : Nat) (data rest : Bytes) (actual : Nat)
    (hd : data.length = 512) (ha : actual ≤ 512)
    (hsz : sizeOfEv ps.st.sizes EV_SPLITTER = some 516) (hact : ps.st.splitActual + actual < 2 ^ 32) :
    ∃ st', parseEvent ps (encEvent (EV_SPLITTER, splitPayloadC data actual false c) ++ rest) =
      .ok ((EV_SPLITTER, { st := st', bytesRead := ps.bytesRead + 516 + 1 }), rest) ∧
      st' = { ps.st with splitRaw := ps.st.splitRaw ++ data, splitActual := ps.st.splitActual + actual } :=
  _root_.Peppi.parseEvent_split_any ps c data rest actual hd ha hsz hact

end Peppi.Props.C08
