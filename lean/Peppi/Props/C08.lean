/- Property C08 — Unknown events and longer payloads from newer versions never disturb known data

   Statements of the machine-checked theorems this property's check relies on.  Each statement is
   spelled out here and proved from the lemma of the same name under `Peppi/` (generated once by
   `bin/mkprops.py`, then kept as source).  What is proved and what is partial: DESIGN.md §4. -/
import Peppi.Lemmas.C08
import Peppi.Lemmas.C08File
import Peppi.Lemmas.C05Long
set_option linter.unusedVariables false
namespace Peppi.Props.C08

/- from `Peppi.Lemmas.C08` -/
open Extracted in
theorem handle_unknown (st : PState) (code : Nat) (buf : Bytes) (h : isKnown code = false) :
    handleEvent st code buf = .ok st :=
  _root_.Peppi.handle_unknown st code buf h

/- from `Peppi.Lemmas.C08` -/
open Extracted in
theorem runEvents_erase_unknown : ∀ (es : List (Nat × Bytes)) (st : PState),
    runEvents st es = runEvents st (es.filter fun e => isKnown e.1) :=
  _root_.Peppi.runEvents_erase_unknown 

/- from `Peppi.Lemmas.C08File` -/
open Extracted in
theorem readP_encode_U (T : TextOracle) (r : Replay) (s : Start) (u : Unknowns) (h : r.WFU T s u) :
    ∃ ge : Option End, r.fend.map gameEnd = ge.map Res.ok ∧
      readP T {} (r.encodeU s.version u) = .ok (r.game s ge, []) :=
  _root_.Peppi.readP_encode_U T r s u h

/- from `Peppi.Lemmas.C08File` -/
open Extracted in
theorem C08_unknown_A (T : TextOracle) (r : Replay) (s : Start) (u : Unknowns) (h : r.WFU T s u) :
    readSlp T { skipFrames := false, computeHash := false } (r.encodeU s.version u) =
      readSlp T { skipFrames := false, computeHash := false } (r.encode s.version (portOccupancy s)) :=
  _root_.Peppi.C08_unknown_A T r s u h

/- from `Peppi.Lemmas.C08` -/
open Extracted in
theorem rowOrEof_extra (v : Ver) (L : List Fld) (bs extra : Bytes) (row : Row) (h : rowOrEof v L bs = .ok row) :
    rowOrEof v L (bs ++ extra) = .ok row :=
  _root_.Peppi.rowOrEof_extra v L bs extra row h

/- from `Peppi.Lemmas.C05Long` -/
theorem C05_start_long (T : TextOracle) (b : Bytes) (hL : 760 ≤ b.length) :
    gameStart T b = match specStart 760 T b b with | .ok s => .ok { s with bytes := b } | .err e => .err e | .panic p => .panic p :=
  _root_.Peppi.C05_start_long T b hL

/- from `Peppi.Lemmas.C05Long` -/
theorem C05_end_long (b : Bytes) (hL : 6 ≤ b.length) :
    gameEnd b = match specEnd 6 b b with | .ok e => .ok { e with bytes := b } | .err e => .err e | .panic p => .panic p :=
  _root_.Peppi.C05_end_long b hL

end Peppi.Props.C08
