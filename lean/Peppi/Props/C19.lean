/- Property C19 — Name fields decode as Shift-JIS up to the first NUL; normalisation is exact

   Statements of the machine-checked theorems this property's check relies on.  Each statement is
   spelled out here and proved from the lemma of the same name under `Peppi/` (generated once by
   `bin/mkprops.py`, then kept as source).  What is proved and what is partial: DESIGN.md §4. -/
import Peppi.ShiftJis
import Peppi.Lemmas.C19
import Peppi.ShiftJisMore
set_option linter.unusedVariables false
namespace Peppi.Props.C19

/- from `Peppi.ShiftJis` -/
theorem fixChar_eq (c : Nat) (h : isScalar c) : fixChar c = .ok (normSpec c) ∧ isScalar (normSpec c) :=
  _root_.Peppi.fixChar_eq c h

/- from `Peppi.ShiftJis` -/
theorem fixChar_idem (c : Nat) (h : isScalar c) : fixChar (normSpec c) = .ok (normSpec c) :=
  _root_.Peppi.fixChar_idem c h

/- from `Peppi.ShiftJis` -/
theorem toNormalized_ok (s : List Nat) (h : ∀ c ∈ s, isScalar c) : toNormalized s = .ok (s.map normSpec) :=
  _root_.Peppi.toNormalized_ok s h

/- from `Peppi.ShiftJis` -/
theorem toNormalized_idem (s : List Nat) (h : ∀ c ∈ s, isScalar c) :
    toNormalized (s.map normSpec) = .ok (s.map normSpec) :=
  _root_.Peppi.toNormalized_idem s h

/- from `Peppi.ShiftJis` -/
theorem meleeString_nul (sjis) (a b : List UInt8) (h : a.takeWhile (· ≠ 0) = b.takeWhile (· ≠ 0)) :
    meleeString sjis a = meleeString sjis b :=
  _root_.Peppi.meleeString_nul sjis a b h

/- from `Peppi.ShiftJis` -/
theorem meleeString_prefix (sjis) (p rest : List UInt8) (hp : ∀ x ∈ p, x ≠ 0) :
    meleeString sjis (p ++ 0 :: rest) = meleeString sjis p :=
  _root_.Peppi.meleeString_prefix sjis p rest hp

/- from `Peppi.Lemmas.C19` -/
open Extracted in
theorem meleeField_ok (T : TextOracle) (b s : Bytes) (h : meleeField T b = .ok s) : s = untilNul b ∧ T.sjisOk (untilNul b) = true :=
  _root_.Peppi.meleeField_ok T b s h

/- from `Peppi.Lemmas.C19` -/
open Extracted in
theorem player_nameTag (T : TextOracle) (port : Nat) (v0 : Bytes) (isTeams : Bool) (v1_0 : Option Bytes) (b : Bytes)
    (n c v3_11 : Option Bytes) :
    Res.Post (fun o => ∀ p, o = some p → p.nameTag = some (untilNul b) ∧ T.sjisOk (untilNul b) = true)
      (player T port v0 isTeams v1_0 (some b) n c v3_11) :=
  _root_.Peppi.player_nameTag T port v0 isTeams v1_0 b n c v3_11

/- from `Peppi.Lemmas.C19` -/
open Extracted in
theorem C19_nameTag_slice (T : TextOracle) (b : Bytes) (n : Nat) (hn : n < 4) (p : Player)
    (h : player T n (((List.range MAX_PLAYERS).map fun i => (b.drop (100 + 36 * i)).take 36).getD n []) ((b.getD 12 0).toNat != 0)
          (some ((b.drop (320 + 8 * n)).take 8)) (some ((b.drop (352 + 16 * n)).take 16))
          (some ((b.drop (420 + 31 * n)).take 31)) (some ((b.drop (544 + 10 * n)).take 10)) (some ((b.drop (584 + 29 * n)).take 29))
        = .ok (some p)) :
    p.nameTag = some (untilNul ((b.drop (352 + 16 * n)).take 16)) :=
  _root_.Peppi.C19_nameTag_slice T b n hn p h

/- from `Peppi.ShiftJisMore` -/
theorem normSpec_fullwidth (c : Nat) (h : 0xff01 ≤ c ∧ c ≤ 0xff5e) :
    normSpec c = c - 0xff01 + 0x21 ∧ 0x21 ≤ normSpec c ∧ normSpec c ≤ 0x7e :=
  _root_.Peppi.normSpec_fullwidth c h

/- from `Peppi.ShiftJisMore` -/
theorem normSpec_other (c : Nat) (h : ¬ normDomain c) : normSpec c = c :=
  _root_.Peppi.normSpec_other c h

/- from `Peppi.ShiftJisMore` -/
theorem normSpec_image (c : Nat) : ¬ normDomain (normSpec c) :=
  _root_.Peppi.normSpec_image c

/- from `Peppi.ShiftJisMore` -/
theorem normSpec_idem (c : Nat) : normSpec (normSpec c) = normSpec c :=
  _root_.Peppi.normSpec_idem c

/- from `Peppi.ShiftJisMore` -/
theorem toNormalized_image (s : List Nat) (h : ∀ c ∈ s, isScalar c) :
    ∃ t, toNormalized s = .ok t ∧ t.length = s.length ∧ (∀ c ∈ t, ¬ normDomain c ∧ isScalar c) ∧
      ∀ i (hi : i < s.length), t[i]? = some (normSpec s[i]) :=
  _root_.Peppi.toNormalized_image s h

/- from `Peppi.ShiftJisMore` -/
theorem toNormalized_fixed (s : List Nat) (h : ∀ c ∈ s, isScalar c) (hd : ∀ c ∈ s, ¬ normDomain c) :
    toNormalized s = .ok s :=
  _root_.Peppi.toNormalized_fixed s h hd

/- from `Peppi.ShiftJisMore` -/
theorem meleeString_cases (sjis : List UInt8 → Option (List Nat)) (field : List UInt8) :
    (∃ s, sjis (field.takeWhile (· ≠ 0)) = some s ∧ meleeString sjis field = .ok s) ∨
    (sjis (field.takeWhile (· ≠ 0)) = none ∧ meleeString sjis field = .err "invalid Shift JIS sequence") :=
  _root_.Peppi.meleeString_cases sjis field

end Peppi.Props.C19
