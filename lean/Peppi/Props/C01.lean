/- Property C01 — Reading a .slp and writing it back reproduces the file byte for byte

   Statements of the machine-checked theorems this property's check relies on.  Each statement is
   spelled out here and proved from the lemma of the same name under `Peppi/` (generated once by
   `bin/mkprops.py`, then kept as source).  What is proved and what is partial: DESIGN.md §4. -/
import Peppi.Lemmas.Unified
import Peppi.Lemmas.C01A
import Peppi.Lemmas.C01B
import Peppi.Lemmas.C01C
import Peppi.Lemmas.C01G
import Peppi.Lemmas.PortMap
import Peppi.PremisesCore
import Peppi.Lemmas.Example
import Peppi.Lemmas.Unified2
set_option linter.unusedVariables false
namespace Peppi.Props.C01

/- from `Peppi.Lemmas.Unified` -/
open Extracted in
theorem C01_any (T : TextOracle) (r : Replay) (s : Start) (gk : Option GeckoBlocks) (h : r.WFAny T s gk)
    (hmax : assertMaxVersion s.version = .ok ()) :
    ∃ g, readSlp T {} (r.encodeAny s.version (portOccupancy s) gk) = .ok g ∧
      writeSlp g = .ok (r.encodeAny s.version (portOccupancy s) gk) :=
  _root_.Peppi.C01_any T r s gk h hmax

/- from `Peppi.Lemmas.C01A` -/
open Extracted in
theorem C01_A (T : TextOracle) (r : Replay) (s : Start) (h : r.WF T s) (hmax : assertMaxVersion s.version = .ok ()) :
    ∃ g, readSlp T {} (r.encode s.version (portOccupancy s)) = .ok g ∧ writeSlp g = .ok (r.encode s.version (portOccupancy s)) :=
  _root_.Peppi.C01_A T r s h hmax

/- from `Peppi.Lemmas.C01B` -/
open Extracted in
theorem C01_B (T : TextOracle) (r : Replay) (s : Start) (h : r.WFB T s) (hmax : assertMaxVersion s.version = .ok ()) :
    ∃ g, readSlp T {} (r.encodeB s.version (portOccupancy s)) = .ok g ∧ writeSlp g = .ok (r.encodeB s.version (portOccupancy s)) :=
  _root_.Peppi.C01_B T r s h hmax

/- from `Peppi.Lemmas.C01C` -/
open Extracted in
theorem C01_C (T : TextOracle) (r : Replay) (s : Start) (h : r.WFC T s) (hmax : assertMaxVersion s.version = .ok ()) :
    ∃ g, readSlp T {} (r.encodeC s.version (portOccupancy s)) = .ok g ∧ writeSlp g = .ok (r.encodeC s.version (portOccupancy s)) :=
  _root_.Peppi.C01_C T r s h hmax

/- from `Peppi.Lemmas.C01G` -/
open Extracted in
theorem C01_G (T : TextOracle) (r : Replay) (s : Start) (gk : GeckoBlocks) (h : r.WFG T s gk) (hmax : assertMaxVersion s.version = .ok ()) :
    ∃ g, readSlp T {} (r.encodeG s.version (portOccupancy s) gk) = .ok g ∧ writeSlp g = .ok (r.encodeG s.version (portOccupancy s) gk) :=
  _root_.Peppi.C01_G T r s gk h hmax

/- from `Peppi.Lemmas.C01A` -/
open Extracted in
theorem rawSize_A (T : TextOracle) (r : Replay) (s : Start) (h : r.WF T s) (ge : Option End)
    (hge : r.fend.map gameEnd = ge.map Res.ok) :
    rawSize (canonTable s.version r.startBlock.length (r.endLen s.version)) (r.game s ge) =
      .ok (r.raw s.version (portOccupancy s)).length :=
  _root_.Peppi.rawSize_A T r s h ge hge

/- from `Peppi.Lemmas.C01B` -/
open Extracted in
theorem rawSize_B (T : TextOracle) (r : Replay) (s : Start) (h : r.WFB T s) (ge : Option End)
    (hge : r.fend.map gameEnd = ge.map Res.ok) :
    rawSize (canonTableB s.version r.startBlock.length (r.endLen s.version)) (r.game s ge) =
      .ok (r.rawB s.version (portOccupancy s)).length :=
  _root_.Peppi.rawSize_B T r s h ge hge

/- from `Peppi.Lemmas.C01C` -/
open Extracted in
theorem rawSize_C (T : TextOracle) (r : Replay) (s : Start) (h : r.WFC T s) (ge : Option End)
    (hge : r.fend.map gameEnd = ge.map Res.ok) :
    rawSize (canonTableC s.version r.startBlock.length (r.endLen s.version)) (r.game s ge) =
      .ok (r.rawC s.version (portOccupancy s)).length :=
  _root_.Peppi.rawSize_C T r s h ge hge

/- from `Peppi.Lemmas.C01G` -/
open Extracted in
theorem rawSize_G (T : TextOracle) (r : Replay) (s : Start) (gk : GeckoBlocks) (h : r.WFG T s gk) (ge : Option End)
    (hge : r.fend.map gameEnd = ge.map Res.ok) :
    rawSize (canonTableG s.version r.startBlock.length (r.endLen s.version) gk.total) (r.gameG s ge gk) =
      .ok (r.rawG s.version (portOccupancy s) gk).length :=
  _root_.Peppi.rawSize_G T r s gk h ge hge

/- from `Peppi.Lemmas.PortMap` -/
open Extracted in
theorem portMap_of_gameStart (T : TextOracle) (b : Bytes) (s : Start) (h : gameStart T b = .ok s) :
    PortMapOK (portIdxOf (portOccupancy s)) (portOccupancy s) ∧ ∀ p ∈ portOccupancy s, p.port < 256 :=
  _root_.Peppi.portMap_of_gameStart T b s h

/- from `Peppi.PremisesCore` -/
open Extracted in
theorem core_End : structCoreOK true true End.views = true :=
  _root_.Peppi.core_End 

/- from `Peppi.PremisesCore` -/
open Extracted in
theorem core_Item : structCoreOK false true Item.views = true :=
  _root_.Peppi.core_Item 

/- from `Peppi.PremisesCore` -/
open Extracted in
theorem core_ItemMisc : structCoreOK false false ItemMisc.views = true :=
  _root_.Peppi.core_ItemMisc 

/- from `Peppi.PremisesCore` -/
open Extracted in
theorem core_Position : structCoreOK false true Position.views = true :=
  _root_.Peppi.core_Position 

/- from `Peppi.PremisesCore` -/
open Extracted in
theorem core_Post : structCoreOK false true Post.views = true :=
  _root_.Peppi.core_Post 

/- from `Peppi.PremisesCore` -/
open Extracted in
theorem core_Pre : structCoreOK false true Pre.views = true :=
  _root_.Peppi.core_Pre 

/- from `Peppi.PremisesCore` -/
open Extracted in
theorem core_Start : structCoreOK false true Start.views = true :=
  _root_.Peppi.core_Start 

/- from `Peppi.PremisesCore` -/
open Extracted in
theorem core_StateFlags : structCoreOK false false StateFlags.views = true :=
  _root_.Peppi.core_StateFlags 

/- from `Peppi.PremisesCore` -/
open Extracted in
theorem core_TriggersPhysical : structCoreOK false true TriggersPhysical.views = true :=
  _root_.Peppi.core_TriggersPhysical 

/- from `Peppi.PremisesCore` -/
open Extracted in
theorem core_Velocities : structCoreOK false true Velocities.views = true :=
  _root_.Peppi.core_Velocities 

/- from `Peppi.PremisesCore` -/
open Extracted in
theorem core_Velocity : structCoreOK false true Velocity.views = true :=
  _root_.Peppi.core_Velocity 

/- from `Peppi.Lemmas.Example` -/
open Extracted in
theorem example_A : (exReplay (exBlock 3 16 760) (exFrames [-123, -122, -122] 17 32 2 16 1 true) [2, 255, 0, 1, 255, 255]).WFAny T0
    (startOf (exBlock 3 16 760)) none :=
  _root_.Peppi.example_A 

/- from `Peppi.Lemmas.Example` -/
open Extracted in
theorem example_B : (exReplay (exBlock 2 2 418) (exFrames [-123, -122, -122] 16 23 1 0 0 false) [2, 255]).WFAny T0
    (startOf (exBlock 2 2 418)) none :=
  _root_.Peppi.example_B 

/- from `Peppi.Lemmas.Example` -/
open Extracted in
theorem example_C : (exReplay (exBlock 1 0 352) (exFrames [-123, -122, -121] 14 12 1 0 0 false) [2]).WFAny T0
    (startOf (exBlock 1 0 352)) none :=
  _root_.Peppi.example_C 

/- from `Peppi.Lemmas.Example` -/
open Extracted in
theorem example_G : (exReplay (exBlock 3 16 760) (exFrames [-123, -122, -122] 17 32 2 16 1 true) [2, 255, 0, 1, 255, 255]).WFAny T0
    (startOf (exBlock 3 16 760)) (some exGecko) :=
  _root_.Peppi.example_G 

/- from `Peppi.Lemmas.Example` -/
open Extracted in
theorem example_A_roundtrip :
    let r := exReplay (exBlock 3 16 760) (exFrames [-123, -122, -122] 17 32 2 16 1 true) [2, 255, 0, 1, 255, 255]
    let s := startOf (exBlock 3 16 760)
    (∃ g, readSlp T0 {} (r.encodeAny s.version (portOccupancy s) none) = .ok g ∧
      writeSlp g = .ok (r.encodeAny s.version (portOccupancy s) none)) ∧
    ∀ n, n < (r.encodeAny s.version (portOccupancy s) none).length →
      ∃ e, readSlp T0 {} ((r.encodeAny s.version (portOccupancy s) none).take n) = .err e :=
  _root_.Peppi.example_A_roundtrip 

/- from `Peppi.Lemmas.Unified2` -/
open Extracted in
theorem write_game_any (T : TextOracle) (r : Replay) (s : Start) (gk : Option GeckoBlocks) (h : r.WFAny T s gk)
    (hmax : assertMaxVersion s.version = .ok ()) (ge : Option End) (hge : r.fend.map gameEnd = ge.map Res.ok) :
    writeSlp (r.gameAny s ge gk) = .ok (r.encodeAny s.version (portOccupancy s) gk) :=
  _root_.Peppi.write_game_any T r s gk h hmax ge hge

end Peppi.Props.C01
