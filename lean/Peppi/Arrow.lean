import Peppi.Read
/-! Model of `Frame::into_struct_array` (frame/immutable/peppi.rs, repaired tree) as a canonical dump of the
    Arrow tree: schema (names, nesting, order, primitive types), validity bitmaps, value checksums. -/
namespace Peppi
open Extracted

def showValidA : Option (List Bool) → String
  | none => "-"
  | some bs => String.ofList (bs.map fun b => if b then '1' else '0')

def csum (vals : List Nat) : Nat := vals.foldl (fun a x => (a * 31 + x) % 1000000007) 7
def tyName : Nat → String | 0 => "u8" | 1 => "i8" | 2 => "u16" | 3 => "u32" | 4 => "i32" | _ => "f32"
def nm (cs : List Nat) : String := String.ofList (cs.map Char.ofNat)

/-- lazily created validity: `None` iff no null was ever pushed -/
def validOfRows (rows : SCols) : Option (List Bool) :=
  if rows.all Option.isSome then none else some (rows.map Option.isSome)

def gatesOK (v : Ver) (gs : List (Nat × Nat)) : Bool := gs.all fun g => v.gte g.1 g.2

/-- number of leaves a (flat) sub-struct contributes to a row -/
def subLeaves (v : Ver) (sid : Nat) : Nat := ((arrowFieldsOf sid).filter fun f => gatesOK v f.2.2).length

/-- one primitive column out of the rows: the `k`-th visible leaf (null slots hold 0) -/
def leafCol (rows : SCols) (k : Nat) : List Nat := rows.map fun r => match r with | some vs => vs.getD k 0 | none => 0

def primDump (ty : Nat) (rows : SCols) (k : Nat) : String :=
  s!"{tyName ty}[{rows.length}|{showValidA (validOfRows rows)}|{csum (leafCol rows k)}]"

/-- a flat sub-struct (Position, Velocity, TriggersPhysical, StateFlags, ItemMisc, Velocities) starting at leaf `k` -/
def subDump (v : Ver) (sid : Nat) (rows : SCols) (k : Nat) : String :=
  let fields := (arrowFieldsOf sid).filter fun f => gatesOK v f.2.2
  let kids := (List.range fields.length).map fun i =>
    match fields[i]? with
    | some f => s!"{nm f.1}={primDump f.2.1 rows (k + i)}"
    | none => ""
  let valid := if arrowValidityOf sid then showValidA (validOfRows rows) else "-"
  "struct[" ++ toString rows.length ++ "|" ++ valid ++ "]{" ++ ";".intercalate kids ++ "}"

/-- a generated top-level struct (Pre, Post, Start, End, Item) -/
def structDump (v : Ver) (sid : Nat) (rows : SCols) : String :=
  let fields := (arrowFieldsOf sid).filter fun f => gatesOK v f.2.2
  let rec go : List (List Nat × Nat × List (Nat × Nat)) → Nat → List String
    | [], _ => []
    | f :: fs, k =>
      if f.2.1 < 100 then s!"{nm f.1}={primDump f.2.1 rows k}" :: go fs (k + 1)
      else s!"{nm f.1}={subDump v (f.2.1 - 100) rows k}" :: go fs (k + subLeaves v (f.2.1 - 100))
  let valid := if arrowValidityOf sid then showValidA (validOfRows rows) else "-"
  "struct[" ++ toString rows.length ++ "|" ++ valid ++ "]{" ++ ";".intercalate (go fields 0) ++ "}"

def SID_END := 0
def SID_ITEM := 1
def SID_POST := 4
def SID_PRE := 5
def SID_START := 6

def dataDump (v : Ver) (d : DCols) : String :=
  "struct[" ++ toString d.pre.length ++ "|" ++ showValidA d.valid ++ "]{pre=" ++ structDump v SID_PRE d.pre ++ ";post=" ++ structDump v SID_POST d.post ++ "}"

def portDump (v : Ver) (n : Nat) (p : PCols) : String :=
  "P" ++ toString (p.port + 1) ++ "=struct[" ++ toString n ++ "|-]{leader=" ++ dataDump v p.leader ++
    (match p.follower with | some f => ";follower=" ++ dataDump v f | none => "") ++ "}"

/-- `Frame::into_struct_array` -/
def frameDump (v : Ver) (f : FCols) : Res String :=
  let n := f.id.length
  if f.ports.isEmpty then .panic "StructArray::new: no fields (ports)" else
  let idd := s!"id=i32[{n}|-|{csum (f.id.map ofInt32)}]"
  let ports := "ports=struct[" ++ toString n ++ "|-]{" ++ ";".intercalate (f.ports.map (portDump v n)) ++ "}"
  let rest : List String :=
    (if v.gte 2 2 then (match f.start with | some sc => ["start=" ++ structDump v SID_START sc] | none => ["start=?"]) else []) ++
    (if v.gte 2 2 ∧ v.gte 3 0 then
      (if viewSizeEnd v then (match f.fend with | some ec => ["end=" ++ structDump v SID_END ec] | none => ["end=?"]) else []) ++
      (match f.itemOff, f.item with
        | some offs, some it => ["item=list[" ++ toString n ++ "|-|" ++ ",".intercalate (offs.map toString) ++ "]<item=" ++ structDump v SID_ITEM it ++ ">"]
        | _, _ => ["item=?"])
    else [])
  .ok ("struct[" ++ toString n ++ "|-]{" ++ ";".intercalate ([idd, ports] ++ rest) ++ "}")
where
  /-- `has_end_fields`: `End::size(version) > 0` -/
  viewSizeEnd (v : Ver) : Bool := (End.size.filter fun e => gatesOK v e.2).length > 0

end Peppi
