import Peppi.Tar
import Peppi.JsonText
import Peppi.Lemmas.PeppiRound
/-! `.slpp` at byte level: `tar` framing (proved, `Tar.lean`) around the entries of `io/peppi/ser.rs`, whose JSON and Arrow
    contents are produced and consumed by external crates.  Those crates enter as a `Codec`: functions with the one law each
    that the round trip needs (decode ∘ encode = id on what the writer produces).  The theorem is then about **bytes**:
    reading the bytes `write` produced returns the game (C02, C18), with or without skip-frames (C10). -/
namespace Peppi

/-- entry names, as the bytes `set_path` puts into the header -/
def N_PEPPI : Bytes := [0x70, 0x65, 0x70, 0x70, 0x69, 0x2e, 0x6a, 0x73, 0x6f, 0x6e]                                  -- peppi.json
def N_META : Bytes := [0x6d, 0x65, 0x74, 0x61, 0x64, 0x61, 0x74, 0x61, 0x2e, 0x6a, 0x73, 0x6f, 0x6e]                 -- metadata.json
def N_STARTJ : Bytes := [0x73, 0x74, 0x61, 0x72, 0x74, 0x2e, 0x6a, 0x73, 0x6f, 0x6e]                                 -- start.json
def N_STARTR : Bytes := [0x73, 0x74, 0x61, 0x72, 0x74, 0x2e, 0x72, 0x61, 0x77]                                       -- start.raw
def N_ENDJ : Bytes := [0x65, 0x6e, 0x64, 0x2e, 0x6a, 0x73, 0x6f, 0x6e]                                               -- end.json
def N_ENDR : Bytes := [0x65, 0x6e, 0x64, 0x2e, 0x72, 0x61, 0x77]                                                     -- end.raw
def N_GECKO : Bytes := [0x67, 0x65, 0x63, 0x6b, 0x6f, 0x5f, 0x63, 0x6f, 0x64, 0x65, 0x73, 0x2e, 0x72, 0x61, 0x77]    -- gecko_codes.raw
def N_FRAMES : Bytes := [0x66, 0x72, 0x61, 0x6d, 0x65, 0x73, 0x2e, 0x61, 0x72, 0x72, 0x6f, 0x77]                     -- frames.arrow

/-- the external encoders / decoders and what is assumed of them -/
structure Codec (μ φ : Type) where
  encPeppi : Option String → Option Bool → Bytes          -- `serde_json::to_vec(&Peppi { version: CURRENT, slp_hash, quirks })`
  decPeppi : Bytes → Res PeppiMeta                          -- `serde_json::from_reader::<Peppi>` + `assert_current_version`
  encMeta : Option μ → Bytes                                -- `serde_json::to_vec(&game.metadata)`
  decMeta : Bytes → Res (Option μ)
  startJson : Start → Bytes                                 -- contents the reader never looks at
  endJson : End → Bytes
  encFrames : φ → Bytes                                     -- Arrow IPC file with the one struct array
  decFrames : Bytes → Bool × List (SItem φ)                -- magic check, then what the stream reader yields
  norm : φ → φ                                              -- what the IPC round trip does to a frame tree (an all-set validity comes back absent)
  peppi_rt : ∀ h q, decPeppi (encPeppi h q) = .ok ⟨true, h, q⟩
  meta_rt : ∀ m, decMeta (encMeta m) = .ok m
  frames_rt : ∀ f, decFrames (encFrames f) = (true, [.chunk (norm f)])

/-- `read`'s dispatch on the entry name -/
def classify {μ φ : Type} (C : Codec μ φ) (e : Bytes × Bytes) : PEntry μ φ :=
  if e.1 = N_PEPPI then .peppiJson (C.decPeppi e.2)
  else if e.1 = N_STARTR then .startRaw e.2
  else if e.1 = N_ENDR then .endRaw e.2
  else if e.1 = N_META then .metadataJson (C.decMeta e.2)
  else if e.1 = N_GECKO then .geckoRaw e.2
  else if e.1 = N_FRAMES then .framesArrow (C.decFrames e.2).1 (C.decFrames e.2).2
  else .other

/-- the (name, contents) list `write` appends -/
def slppEntries {μ φ : Type} (C : Codec μ φ) (g : PGame μ φ) (startBytes : Bytes) (endBytes : Option Bytes) : List (Bytes × Bytes) :=
  [(N_PEPPI, C.encPeppi g.hash g.quirks), (N_META, C.encMeta g.metadata), (N_STARTJ, C.startJson g.start), (N_STARTR, startBytes)] ++
  ((match g.fend, endBytes with | some e, some eb => [(N_ENDJ, C.endJson e), (N_ENDR, eb)] | _, _ => []) ++
   ((match g.gecko with | some c => [(N_GECKO, leU32' c.2 ++ c.1)] | none => []) ++
    (match g.frames with | some f => [(N_FRAMES, C.encFrames f)] | none => [])))

/-- `io::peppi::write`, bytes -/
def slppWrite {μ φ : Type} (C : Codec μ φ) (g : PGame μ φ) (startBytes : Bytes) (endBytes : Option Bytes) : Bytes :=
  tarArchive (slppEntries C g startBytes endBytes)

/-- `io::peppi::read`, bytes -/
def slppRead {μ φ : Type} (C : Codec μ φ) (T : TextOracle) (skip : Bool) (bs : Bytes) : Res (PGame μ φ) :=
  match tarRead (bs.length / 512 + 2) bs with
  | .ok (es, trailerOk) => peppiRead T skip trailerOk (es.map (classify C))
  | .err e => .err e
  | .panic p => .panic p

theorem classify_written {μ φ : Type} (C : Codec μ φ) (g : PGame μ φ) (startBytes : Bytes) (endBytes : Option Bytes)
    (hend : endBytes.isSome = g.fend.isSome) :
    (slppEntries C g startBytes endBytes).map (classify C) = writtenEntries { g with frames := g.frames.map C.norm } startBytes endBytes := by
  have n1 : classify C (N_PEPPI, C.encPeppi g.hash g.quirks) = .peppiJson (.ok ⟨true, g.hash, g.quirks⟩) := by
    simp [classify, C.peppi_rt]
  have n2 : classify C (N_META, C.encMeta g.metadata) = .metadataJson (.ok g.metadata) := by
    have : ¬ N_META = N_PEPPI := by decide
    have h2 : ¬ N_META = N_STARTR := by decide
    have h3 : ¬ N_META = N_ENDR := by decide
    simp [classify, this, h2, h3, C.meta_rt]
  have n3 : classify C (N_STARTJ, C.startJson g.start) = .other := by
    have a1 : ¬ N_STARTJ = N_PEPPI := by decide
    have a2 : ¬ N_STARTJ = N_STARTR := by decide
    have a3 : ¬ N_STARTJ = N_ENDR := by decide
    have a4 : ¬ N_STARTJ = N_META := by decide
    have a5 : ¬ N_STARTJ = N_GECKO := by decide
    have a6 : ¬ N_STARTJ = N_FRAMES := by decide
    simp [classify, a1, a2, a3, a4, a5, a6]
  have n4 : classify C (N_STARTR, startBytes) = .startRaw startBytes := by
    have a1 : ¬ N_STARTR = N_PEPPI := by decide
    simp [classify, a1]
  have n5 : ∀ x, classify C (N_ENDJ, x) = (.other : PEntry μ φ) := by
    intro x
    have a1 : ¬ N_ENDJ = N_PEPPI := by decide
    have a2 : ¬ N_ENDJ = N_STARTR := by decide
    have a3 : ¬ N_ENDJ = N_ENDR := by decide
    have a4 : ¬ N_ENDJ = N_META := by decide
    have a5 : ¬ N_ENDJ = N_GECKO := by decide
    have a6 : ¬ N_ENDJ = N_FRAMES := by decide
    simp [classify, a1, a2, a3, a4, a5, a6]
  have n6 : ∀ x, classify C (N_ENDR, x) = (.endRaw x : PEntry μ φ) := by
    intro x
    have a1 : ¬ N_ENDR = N_PEPPI := by decide
    have a2 : ¬ N_ENDR = N_STARTR := by decide
    simp [classify, a1, a2]
  have n7 : ∀ x, classify C (N_GECKO, x) = (.geckoRaw x : PEntry μ φ) := by
    intro x
    have a1 : ¬ N_GECKO = N_PEPPI := by decide
    have a2 : ¬ N_GECKO = N_STARTR := by decide
    have a3 : ¬ N_GECKO = N_ENDR := by decide
    have a4 : ¬ N_GECKO = N_META := by decide
    simp [classify, a1, a2, a3, a4]
  have n8 : ∀ f, classify C (N_FRAMES, C.encFrames f) = (.framesArrow true [.chunk (C.norm f)] : PEntry μ φ) := by
    intro f
    have a1 : ¬ N_FRAMES = N_PEPPI := by decide
    have a2 : ¬ N_FRAMES = N_STARTR := by decide
    have a3 : ¬ N_FRAMES = N_ENDR := by decide
    have a4 : ¬ N_FRAMES = N_META := by decide
    have a5 : ¬ N_FRAMES = N_GECKO := by decide
    simp [classify, a1, a2, a3, a4, a5, C.frames_rt]
  simp only [slppEntries, writtenEntries, List.map_append, List.map_cons, List.map_nil, n1, n2, n3, n4]
  congr 1
  cases hg : g.fend <;> cases he : endBytes <;> simp [hg, he] at hend <;>
    cases hk : g.gecko <;> cases hf : g.frames <;> simp [endEntries, geckoEntries, framesEntries, n5, n6, n7, n8]

/-- every entry the writer emits fits the tar header (names of 7–15 non-NUL bytes; contents below 8 GiB) -/
def SizesOK {μ φ : Type} (C : Codec μ φ) (g : PGame μ φ) (startBytes : Bytes) (endBytes : Option Bytes) : Prop :=
  ∀ e ∈ slppEntries C g startBytes endBytes, e.2.length < 8 ^ 11

def NameOK (n : Bytes) : Prop := 0 < n.length ∧ n.length ≤ 100 ∧ ∀ b ∈ n, b ≠ 0
instance (n : Bytes) : Decidable (NameOK n) := by unfold NameOK; exact inferInstance

theorem slppEntries_names {μ φ : Type} (C : Codec μ φ) (g : PGame μ φ) (startBytes : Bytes) (endBytes : Option Bytes) :
    ∀ e ∈ slppEntries C g startBytes endBytes, NameOK e.1 := by
  have k1 : NameOK N_PEPPI := by decide
  have k2 : NameOK N_META := by decide
  have k3 : NameOK N_STARTJ := by decide
  have k4 : NameOK N_STARTR := by decide
  have k5 : NameOK N_ENDJ := by decide
  have k6 : NameOK N_ENDR := by decide
  have k7 : NameOK N_GECKO := by decide
  have k8 : NameOK N_FRAMES := by decide
  intro e he
  simp only [slppEntries, List.mem_append, List.mem_cons, List.not_mem_nil, or_false] at he
  rcases he with (rfl | rfl | rfl | rfl) | he | he | he
  · exact k1
  · exact k2
  · exact k3
  · exact k4
  · split at he
    · simp only [List.mem_cons, List.not_mem_nil, or_false] at he; rcases he with rfl | rfl
      · exact k5
      · exact k6
    · cases he
  · split at he
    · simp only [List.mem_singleton] at he; subst he; exact k7
    · cases he
  · split at he
    · simp only [List.mem_singleton] at he; subst he; exact k8
    · cases he

theorem slppEntries_ok {μ φ : Type} (C : Codec μ φ) (g : PGame μ φ) (startBytes : Bytes) (endBytes : Option Bytes)
    (hs : SizesOK C g startBytes endBytes) : ∀ e ∈ slppEntries C g startBytes endBytes, EntryOK e := by
  intro e he
  obtain ⟨a, b, c⟩ := slppEntries_names C g startBytes endBytes e he
  exact ⟨⟨a, b⟩, c, hs e he⟩

/-- **`.slpp` round trip, byte level** (C02 / C18; C10 with `skip`): reading the bytes `write` produced returns the game —
    all of it, or with the empty frame set under skip-frames -/
theorem slppRead_written {μ φ : Type} (C : Codec μ φ) (T : TextOracle) (g : PGame μ φ) (startBytes : Bytes) (endBytes : Option Bytes)
    (hstart : gameStart T startBytes = .ok g.start)
    (hend : endBytes.map gameEnd = g.fend.map Res.ok)
    (hgecko : ∀ c, g.gecko = some c → c.2 < 2 ^ 32)
    (hs : SizesOK C g startBytes endBytes) (skip : Bool) :
    slppRead C T skip (slppWrite C g startBytes endBytes) =
      .ok (if skip then { g with frames := none } else { g with frames := g.frames.map C.norm }) := by
  have hendS : endBytes.isSome = g.fend.isSome := by
    cases endBytes <;> cases hf : g.fend <;> simp [hf] at hend ⊢
  have hlen : (slppEntries C g startBytes endBytes).length < (slppWrite C g startBytes endBytes).length / 512 + 2 := by
    have := tarArchive_length_ge (slppEntries C g startBytes endBytes) (fun e he => (slppEntries_names C g startBytes endBytes e he).2.1)
    show _ < (tarArchive _).length / 512 + 2
    omega
  unfold slppRead
  rw [show slppWrite C g startBytes endBytes = tarArchive (slppEntries C g startBytes endBytes) from rfl] at hlen ⊢
  rw [tarRead_archive _ (slppEntries_ok C g startBytes endBytes hs) _ hlen]
  simp only [classify_written C g startBytes endBytes hendS]
  cases skip with
  | false => simpa using peppiRead_written T { g with frames := g.frames.map C.norm } startBytes endBytes true hstart hend hgecko (fun _ => rfl)
  | true => simpa using peppiRead_written_skip T { g with frames := g.frames.map C.norm } startBytes endBytes true hstart hend hgecko (fun _ => rfl)

/-- **C18**: the file signature is at offset 0 of what `write` produces, whatever the game -/
theorem slppWrite_signature {μ φ : Type} (C : Codec μ φ) (g : PGame μ φ) (startBytes : Bytes) (endBytes : Option Bytes) :
    (slppWrite C g startBytes endBytes).take 10 = N_PEPPI := by
  exact tarArchive_starts N_PEPPI _ _

#print axioms slppRead_written
#print axioms slppWrite_signature
end Peppi

namespace Peppi
/-! ### the codec laws are jointly satisfiable (a toy codec with `μ := φ := Bytes`) -/

/-- characters as `1, <4 bytes>` each, terminated by `0` -/
def encChars : List Char → Bytes
  | [] => [0]
  | c :: cs => 1 :: (toBE 4 c.toNat ++ encChars cs)

def decChars : Nat → Bytes → List Char × Bytes
  | 0, bs => ([], bs)
  | n+1, bs =>
    match bs with
    | 1 :: rest => let r := decChars n (rest.drop 4); (Char.ofNat (fromBE (rest.take 4)) :: r.1, r.2)
    | _ :: rest => ([], rest)
    | [] => ([], [])

theorem encChars_length (cs : List Char) : (encChars cs).length = 5 * cs.length + 1 := by
  induction cs with
  | nil => rfl
  | cons c t ih => simp [encChars, toBE_length, ih]; omega

theorem decChars_enc (cs : List Char) (rest : Bytes) (fuel : Nat) (hf : cs.length < fuel) :
    decChars fuel (encChars cs ++ rest) = (cs, rest) := by
  induction cs generalizing fuel with
  | nil =>
    cases fuel with
    | zero => omega
    | succ f => rfl
  | cons c t ih =>
    cases fuel with
    | zero => omega
    | succ f =>
      have hl : (toBE 4 c.toNat).length = 4 := toBE_length _ _
      have hc : c.toNat < 256 ^ 4 := by
        have := c.valid
        have h2 : c.toNat < 0x110000 := by
          rcases this with h | ⟨_, h⟩
          · exact Nat.lt_trans h (by decide)
          · exact h
        omega
      simp only [encChars, List.cons_append, List.append_assoc, decChars, List.take_left' hl, List.drop_left' hl,
        fromBE_toBE 4 c.toNat hc, Char.ofNat_toNat, ih f (by simp at hf; omega)]

def encOptStr : Option String → Bytes
  | none => [0]
  | some s => 1 :: encChars s.toList
def encOptBool : Option Bool → Bytes
  | none => [0] | some false => [1] | some true => [2]
def decOptBool (bs : Bytes) : Option Bool := if bs.headD 0 = 0 then none else if bs.headD 0 = 1 then some false else some true

theorem decOptBool_enc (q : Option Bool) : decOptBool (encOptBool q) = q := by
  cases q with
  | none => rfl
  | some b => cases b <;> rfl

def toyDecPeppi (bs : Bytes) : Res PeppiMeta :=
  match bs with
  | 0 :: rest => .ok ⟨true, none, decOptBool rest⟩
  | 1 :: rest => let r := decChars rest.length rest; .ok ⟨true, some (String.ofList r.1), decOptBool r.2⟩
  | _ => .err "json"

/-- a codec that satisfies the three laws -/
def toyCodec : Codec Bytes Bytes where
  encPeppi h q := encOptStr h ++ encOptBool q
  decPeppi := toyDecPeppi
  encMeta m := match m with | none => [0] | some b => 1 :: b
  decMeta bs := match bs with | 0 :: _ => .ok none | 1 :: b => .ok (some b) | _ => .err "json"
  startJson _ := []
  endJson _ := []
  encFrames f := f
  decFrames bs := (true, [.chunk bs])
  norm f := f
  peppi_rt h q := by
    cases h with
    | none => simp [encOptStr, toyDecPeppi, decOptBool_enc]
    | some s =>
      simp only [encOptStr, List.cons_append, toyDecPeppi]
      rw [decChars_enc s.toList (encOptBool q) _ (by simp [encChars_length]; omega)]
      simp [decOptBool_enc, String.ofList_toList]
  meta_rt m := by cases m <;> rfl
  frames_rt f := rfl

end Peppi

namespace Peppi
/-- any codec with its metadata part replaced by the JSON text model (`JsonText.lean`): the `meta_rt` law is then a theorem
    (`parseMeta_json`), not an assumption -/
def Codec.withJsonMeta {φ : Type} (C : Codec KVs φ) : Codec KVs φ :=
  { C with encMeta := jsonMeta, decMeta := parseMeta, meta_rt := parseMeta_json }

/-- the byte-level round trip with the metadata entry as real JSON text -/
theorem slppRead_written_json {φ : Type} (C : Codec KVs φ) (T : TextOracle) (g : PGame KVs φ) (startBytes : Bytes) (endBytes : Option Bytes)
    (hstart : gameStart T startBytes = .ok g.start)
    (hend : endBytes.map gameEnd = g.fend.map Res.ok)
    (hgecko : ∀ c, g.gecko = some c → c.2 < 2 ^ 32)
    (hs : SizesOK C.withJsonMeta g startBytes endBytes) (skip : Bool) :
    slppRead C.withJsonMeta T skip (slppWrite C.withJsonMeta g startBytes endBytes) =
      .ok (if skip then { g with frames := none } else { g with frames := g.frames.map C.norm }) :=
  slppRead_written C.withJsonMeta T g startBytes endBytes hstart hend hgecko hs skip
end Peppi
