import Peppi.Read
/-! Model of the `.slp` writer: io/slippi/ser.rs and the preamble of frame/immutable/slippi.rs (repaired tree). -/
namespace Peppi
open Extracted

/-- generated `size(version)` from its own extracted view -/
def viewSize (v : Ver) (view : List (Nat × List (Nat × Nat))) : Nat :=
  view.foldl (fun acc e => if e.2.all (fun g => v.gte g.1 g.2) then acc + e.1 else acc) 0

/-- `payload_sizes`: ordered; `push` panics if a size does not fit `u16` -/
def payloadSizes (g : Game) : Res (List (Nat × Nat)) :=
  let v := g.start.version
  let base : List (Nat × Nat) := [
    (EV_GAME_START, g.start.bytes.length),
    (EV_FRAME_PRE, 4 + 2 + viewSize v Pre.size),
    (EV_FRAME_POST, 4 + 2 + viewSize v Post.size),
    (EV_GAME_END, match g.fend with | some e => e.bytes.length | none => endSize v)]
  let l1 := if v.gte 2 2 then [(EV_FRAME_START, 4 + viewSize v Start.size)] else []
  let l2 := if v.gte 2 2 ∧ v.gte 3 0 then [(EV_ITEM, 4 + viewSize v Item.size), (EV_FRAME_END, 4 + viewSize v End.size)] else []
  let l3 := if v.gte 2 2 ∧ v.gte 3 0 ∧ v.gte 3 3 then
      (match g.gecko with | some c => [(EV_GECKO, c.actualSize % 65536), (EV_SPLITTER, 516)] | none => [])
    else []
  let all := base ++ l1 ++ l2 ++ l3
  if all.all (fun e => e.2 < 65536) then .ok all else .panic "PayloadSizes::push: try_into u16"

def unsetBits (valid : Option (List Bool)) : Nat := match valid with | none => 0 | some bs => (bs.filter (· == false)).length

structure FrameCounts where
  frames : Nat
  frameData : Nat
  items : Nat

/-- `frame_counts` -/
def frameCounts (f : FCols) : FrameCounts :=
  let len := f.len
  { frames := len,
    frameData := (f.ports.map fun p => (len - unsetBits p.leader.valid) +
        (match p.follower with | some d => len - unsetBits d.valid | none => 0)).sum,
    items := match f.item with | some it => it.length | none => 0 }

/-- `gecko_codes_size`: asserts a whole number of 512-byte blocks -/
def geckoCodesSize (c : Gecko) : Res Nat :=
  if c.bytes.length % 512 ≠ 0 then .panic "gecko_codes_size: assert" else .ok (c.bytes.length / 512 * 517)

/-- `sizes[&code]` (HashMap index: panics when missing) -/
def getSize (sizes : List (Nat × Nat)) (code : Nat) : Res Nat :=
  match sizeOfEv sizes code with | some s => .ok s | none => .panic "raw_size: missing size"

/-- `sizes.get(&code).map_or(0, |s| count * (1 + s))` -/
def optSize (sizes : List (Nat × Nat)) (code : Nat) (count : Nat) : Nat :=
  match sizeOfEv sizes code with | some s => count * (1 + s) | none => 0

/-- the Game End part of `raw_size` (repaired: counted only when present, twice when doubled) -/
def endPart (hasEnd dbl : Bool) (sEnd : Nat) : Nat := if hasEnd then (if dbl then 2 * (1 + sEnd) else 1 + sEnd) else 0

/-- `PayloadSizes::raw_size` -/
def rawSize (sizes : List (Nat × Nat)) (g : Game) : Res Nat := do
  let c := frameCounts g.frames
  let sStart ← getSize sizes EV_GAME_START
  let sEnd ← getSize sizes EV_GAME_END
  let sPre ← getSize sizes EV_FRAME_PRE
  let sPost ← getSize sizes EV_FRAME_POST
  let gecko ← (match g.gecko with | some c => geckoCodesSize c | none => .ok 0)
  let total := 1 + 1 + 3 * sizes.length + 1 + sStart + endPart g.fend.isSome (g.doubleGameEnd.getD false) sEnd
    + c.frameData * (1 + sPre) + c.frameData * (1 + sPost)
    + optSize sizes EV_FRAME_START c.frames + optSize sizes EV_FRAME_END c.frames + optSize sizes EV_ITEM c.items + gecko
  if total < 2^32 then .ok total else .panic "raw_size: u32 overflow"

/-- `gecko_codes` -/
def writeGecko (c : Gecko) : Res Bytes :=
  let rec go (fuel pos : Nat) (acc : Bytes) : Res Bytes :=
    match fuel with
    | 0 => .ok acc
    | fuel+1 =>
      if pos < c.actualSize then
        if c.bytes.length < pos + 512 then .panic "gecko_codes: slice index"
        else
          let blk := (c.bytes.drop pos).take 512
          let n := min 512 (c.actualSize - pos)
          let pos' := pos + 512
          go fuel pos' (acc ++ [0x10] ++ blk ++ toBE 2 n ++ [0x3D] ++ [if pos' ≥ c.actualSize then 1 else 0])
      else .ok acc
  go (c.actualSize / 512 + 2) 0 []

/-- one column row for writing: `value(idx)` of every leaf; null slots hold zeros; out of range panics -/
def rowAt (v : Ver) (L : List Fld) (c : SCols) (idx : Nat) : Res Bytes :=
  match c[idx]? with
  | none => .panic "value(i): index out of bounds"
  | some (some row) => .ok (writeRow v L row)
  | some none => .ok (List.replicate (rowSize v L) 0)

def validAt (valid : Option (List Bool)) (idx : Nat) : Res Bool :=
  match valid with
  | none => .ok true
  | some bs => match bs[idx]? with | some b => .ok b | none => .panic "get_bit: index out of bounds"

/-- `Data::write_pre` / `write_post` (which = false: pre, true: post) -/
def writeData (v : Ver) (d : DCols) (post : Bool) (idx : Nat) (frameId : Int) (port : Nat) (follower : Bool) : Res Bytes := do
  if ← validAt d.valid idx then
    let body ← (if post then rowAt v Post.write d.post idx else rowAt v Pre.write d.pre idx)
    pure ([if post then 0x38 else 0x37] ++ toBE 4 (ofInt32 frameId) ++ [UInt8.ofNat port, if follower then 1 else 0] ++ body)
  else pure []

/-- `PortData::write_pre` / `write_post` -/
def writePort (v : Ver) (p : PCols) (post : Bool) (idx : Nat) (frameId : Int) : Res Bytes := do
  let a ← writeData v p.leader post idx frameId p.port false
  let b ← (match p.follower with
    | none => pure []
    | some f => do if ← validAt f.valid idx then writeData v f post idx frameId p.port true else pure [])
  pure (a ++ b)

def concatRes (l : List (Res Bytes)) : Res Bytes := l.foldr (fun r acc => do let a ← r; let b ← acc; pure (a ++ b)) (pure [])

/-- `Frame::write`, one frame -/
def writeFrame (v : Ver) (f : FCols) (idx : Nat) (frameId : Int) : Res Bytes := do
  let s ← (if v.gte 2 2 then
      match f.start with
      | some sc => do let b ← rowAt v Start.write sc idx; pure ([0x3A] ++ toBE 4 (ofInt32 frameId) ++ b)
      | none => .panic "start unwrap"
    else pure [])
  let pres ← concatRes (f.ports.map fun p => writePort v p false idx frameId)
  let items ← (if v.gte 3 0 then
      match f.itemOff, f.item with
      | some offs, some it =>
        (match offs[idx]?, offs[idx+1]? with
        | some a, some b => concatRes ((List.range (b - a)).map fun k => do
            let body ← rowAt v Item.write it (a + k)
            pure ([0x3B] ++ toBE 4 (ofInt32 frameId) ++ body))
        | _, _ => .panic "item_offset index")
      | _, _ => .panic "item_offset unwrap"
    else pure [])
  let posts ← concatRes (f.ports.map fun p => writePort v p true idx frameId)
  let e ← (if v.gte 3 0 then
      match f.fend with
      | some ec => do let b ← rowAt v End.write ec idx; pure ([0x3C] ++ toBE 4 (ofInt32 frameId) ++ b)
      | none => .panic "end unwrap"
    else pure [])
  pure (s ++ pres ++ items ++ posts ++ e)

def writeFrames (v : Ver) (f : FCols) : Res Bytes :=
  concatRes ((List.range f.id.length).map fun idx => writeFrame v f idx (f.id.getD idx 0))

/-- the Game End event(s) as written -/
def endBytesOf (fend : Option End) (dbl : Bool) : Bytes :=
  match fend with
  | some e => ([0x39] ++ e.bytes) ++ (if dbl then [0x39] ++ e.bytes else [])
  | none => []

/-- the `metadata` element as written -/
def writeMeta (md : Option KVs) : Res Bytes :=
  match md with
  | some m => do let b ← writeMap m; pure ([0x55] ++ METADATA_KEY ++ b ++ [0x7d])
  | none => pure []

/-- `io::slippi::write` -/
def writeSlp (g : Game) : Res Bytes := do
  let v := g.start.version
  assertMaxVersion v
  let sizes ← payloadSizes g
  let raw ← rawSize sizes g
  let table := sizes.flatMap fun e => [UInt8.ofNat e.1] ++ toBE 2 e.2
  let gecko ← (match g.gecko with | some c => writeGecko c | none => pure [])
  let frames ← writeFrames v g.frames
  let endb := endBytesOf g.fend (g.doubleGameEnd.getD false)
  let metab ← writeMeta g.metadata
  pure (FILE_SIGNATURE ++ toBE 4 raw ++ [0x35, UInt8.ofNat (sizes.length * 3 + 1)] ++ table
        ++ [0x36] ++ g.start.bytes ++ gecko ++ frames ++ endb ++ metab ++ [0x7d])

end Peppi
