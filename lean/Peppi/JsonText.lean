import Peppi.UbjsonProof
/-! The JSON text of a metadata tree as `serde_json::to_vec` writes it (compact, keys in insertion order — the `preserve_order`
    feature —, strings escaped per the `ESCAPE` table of serde_json: `"` `\` and the control characters, everything else raw)
    and the part of a JSON reader that this text exercises.  Proved: reading the text back returns the same tree, key order
    included (C16, the JSON copy stored in `.slpp`).  The writer model is compared with `serde_json` on every run (driver op
    `jsonw`). -/
namespace Peppi

def hexd (n : Nat) : UInt8 := if n < 10 then UInt8.ofNat (48 + n) else UInt8.ofNat (87 + n)
def hexv (b : UInt8) : Option Nat :=
  if 48 ≤ b.toNat ∧ b.toNat ≤ 57 then some (b.toNat - 48)
  else if 97 ≤ b.toNat ∧ b.toNat ≤ 102 then some (b.toNat - 87)
  else if 65 ≤ b.toNat ∧ b.toNat ≤ 70 then some (b.toNat - 55) else none

theorem hexv_hexd : ∀ n, n < 16 → hexv (hexd n) = some n := by decide

/-- one byte of a string, escaped -/
def escByte (b : UInt8) : Bytes :=
  if b = 0x22 then [0x5c, 0x22]
  else if b = 0x5c then [0x5c, 0x5c]
  else if b = 0x08 then [0x5c, 0x62]
  else if b = 0x0c then [0x5c, 0x66]
  else if b = 0x0a then [0x5c, 0x6e]
  else if b = 0x0d then [0x5c, 0x72]
  else if b = 0x09 then [0x5c, 0x74]
  else if b.toNat < 0x20 then [0x5c, 0x75, 0x30, 0x30, hexd (b.toNat / 16), hexd (b.toNat % 16)]
  else [b]

def escStr (s : Bytes) : Bytes := s.flatMap escByte

/-- the first (possibly escaped) byte of a string body, and what follows it; `none` at the closing quote or on malformed text -/
def unescHead : Bytes → Option (UInt8 × Bytes)
  | [] => none
  | 0x22 :: _ => none
  | 0x5c :: 0x22 :: r => some (0x22, r)
  | 0x5c :: 0x5c :: r => some (0x5c, r)
  | 0x5c :: 0x2f :: r => some (0x2f, r)
  | 0x5c :: 0x62 :: r => some (0x08, r)
  | 0x5c :: 0x66 :: r => some (0x0c, r)
  | 0x5c :: 0x6e :: r => some (0x0a, r)
  | 0x5c :: 0x72 :: r => some (0x0d, r)
  | 0x5c :: 0x74 :: r => some (0x09, r)
  | 0x5c :: 0x75 :: 0x30 :: 0x30 :: h :: l :: r =>
    (match hexv h, hexv l with
     | some a, some b => if a * 16 + b < 0x80 then some (UInt8.ofNat (a * 16 + b), r) else none
     | _, _ => none)
  | 0x5c :: _ => none
  | b :: r => if b.toNat < 0x20 then none else some (b, r)

/-- a string body up to and excluding the closing quote; returns the decoded bytes and what follows the quote -/
def unescStr : Nat → Bytes → Option (Bytes × Bytes)
  | 0, _ => none
  | fuel+1, bs =>
    match bs with
    | 0x22 :: r => some ([], r)
    | _ =>
      match unescHead bs with
      | some (b, r) => (match unescStr fuel r with | some (s, r') => some (b :: s, r') | none => none)
      | none => none

theorem unescHead_esc : ∀ (b : UInt8) (r : Bytes), unescHead (escByte b ++ r) = some (b, r) := by
  intro b r
  unfold escByte
  by_cases h1 : b = 0x22
  · subst h1; rfl
  by_cases h2 : b = 0x5c
  · subst h2; rfl
  by_cases h3 : b = 0x08
  · subst h3; rfl
  by_cases h4 : b = 0x0c
  · subst h4; rfl
  by_cases h5 : b = 0x0a
  · subst h5; rfl
  by_cases h6 : b = 0x0d
  · subst h6; rfl
  by_cases h7 : b = 0x09
  · subst h7; rfl
  simp only [h1, h2, h3, h4, h5, h6, h7, ↓reduceIte]
  by_cases hc : b.toNat < 0x20
  · simp only [hc, ↓reduceIte, List.cons_append, List.nil_append, unescHead]
    have hq : b.toNat / 16 < 16 := by omega
    have hr : b.toNat % 16 < 16 := by omega
    rw [hexv_hexd _ hq, hexv_hexd _ hr]
    have hs : b.toNat / 16 * 16 + b.toNat % 16 = b.toNat := by omega
    have hlt : b.toNat / 16 * 16 + b.toNat % 16 < 0x80 := by omega
    have hb : b.toNat < 128 := by omega
    simp only [hs, hb, ↓reduceIte, UInt8.ofNat_toNat]
  · simp only [hc, ↓reduceIte, List.cons_append, List.nil_append]
    unfold unescHead
    split
    · rename_i heq; cases heq
    · rename_i heq; simp only [List.cons.injEq] at heq; exact absurd heq.1 h1
    all_goals first
      | (rename_i heq; simp only [List.cons.injEq] at heq; exact absurd heq.1 h2)
      | (rename_i heq _; simp only [List.cons.injEq] at heq; exact absurd heq.1 h2)
      | (rename_i x y heq; simp only [List.cons.injEq] at heq; obtain ⟨rfl, rfl⟩ := heq; simp only [hc, ↓reduceIte])

theorem escByte_head (b : UInt8) (r : Bytes) : ∃ x t, escByte b ++ r = x :: t ∧ x ≠ 0x22 := by
  unfold escByte
  by_cases h1 : b = 0x22
  · exact ⟨0x5c, 0x22 :: r, by simp [h1], by decide⟩
  by_cases h2 : b = 0x5c
  · exact ⟨0x5c, 0x5c :: r, by simp [h2], by decide⟩
  by_cases h3 : b = 0x08
  · exact ⟨0x5c, 0x62 :: r, by simp [h3], by decide⟩
  by_cases h4 : b = 0x0c
  · exact ⟨0x5c, 0x66 :: r, by simp [h4], by decide⟩
  by_cases h5 : b = 0x0a
  · exact ⟨0x5c, 0x6e :: r, by simp [h5], by decide⟩
  by_cases h6 : b = 0x0d
  · exact ⟨0x5c, 0x72 :: r, by simp [h6], by decide⟩
  by_cases h7 : b = 0x09
  · exact ⟨0x5c, 0x74 :: r, by simp [h7], by decide⟩
  by_cases hc : b.toNat < 0x20
  · exact ⟨0x5c, 0x75 :: 0x30 :: 0x30 :: hexd (b.toNat / 16) :: hexd (b.toNat % 16) :: r, by simp [h1, h2, h3, h4, h5, h6, h7, hc], by decide⟩
  · exact ⟨b, r, by simp [h1, h2, h3, h4, h5, h6, h7, hc], h1⟩

/-- **string round trip**: the escaped body followed by the closing quote reads back as the string -/
theorem unescStr_esc (s rest : Bytes) : ∀ fuel, s.length < fuel → unescStr fuel (escStr s ++ 0x22 :: rest) = some (s, rest) := by
  induction s with
  | nil =>
    intro fuel hf
    cases fuel with
    | zero => omega
    | succ f => simp [escStr, unescStr]
  | cons b t ih =>
    intro fuel hf
    cases fuel with
    | zero => omega
    | succ f =>
      have hcons : escStr (b :: t) ++ 0x22 :: rest = escByte b ++ (escStr t ++ 0x22 :: rest) := by
        simp [escStr, List.flatMap_cons]
      obtain ⟨x, tl, hx, hne⟩ := escByte_head b (escStr t ++ 0x22 :: rest)
      rw [hcons]
      unfold unescStr
      rw [hx]
      split
      · rename_i heq; simp only [List.cons.injEq] at heq; exact absurd heq.1 hne
      · rw [← hx, unescHead_esc]
        simp only []
        rw [ih f (by simp at hf; omega)]

theorem escStr_length_ge (s : Bytes) : s.length ≤ (escStr s).length := by
  induction s with
  | nil => simp [escStr]
  | cons b t ih =>
    obtain ⟨x, tl, hx, _⟩ := escByte_head b []
    have : 1 ≤ (escByte b).length := by rw [List.append_nil] at hx; rw [hx]; simp
    simp only [escStr, List.flatMap_cons, List.length_append, List.length_cons] at ih ⊢
    omega

/-! ### integers -/

/-- decimal digits of a natural number, most significant first -/
def natDec (n : Nat) : Bytes := if n < 10 then [UInt8.ofNat (48 + n)] else natDec (n / 10) ++ [UInt8.ofNat (48 + n % 10)]
decreasing_by omega

def isDecDigit (b : UInt8) : Bool := 48 ≤ b.toNat && b.toNat ≤ 57

/-- the value of the maximal run of digits at the head, and what follows -/
def parseNatAcc : Nat → Bytes → Nat × Bytes
  | acc, [] => (acc, [])
  | acc, b :: r => if isDecDigit b then parseNatAcc (acc * 10 + (b.toNat - 48)) r else (acc, b :: r)

theorem parseNatAcc_natDec (n : Nat) : ∀ (acc : Nat) (rest : Bytes), (∀ b, rest.head? = some b → isDecDigit b = false) →
    parseNatAcc acc (natDec n ++ rest) = (acc * 10 ^ (natDec n).length + n, rest) := by
  induction n using Nat.strongRecOn with
  | _ n ih =>
    intro acc rest hrest
    rw [natDec]
    by_cases hlt : n < 10
    · simp only [hlt, ↓reduceIte, List.cons_append, List.nil_append, parseNatAcc, List.length_singleton, Nat.pow_one]
      have hd : (UInt8.ofNat (48 + n)).toNat = 48 + n := by simp [UInt8.toNat_ofNat']; omega
      have hdig : isDecDigit (UInt8.ofNat (48 + n)) = true := by simp [isDecDigit, hd]; omega
      simp only [hdig, ↓reduceIte, hd]
      cases rest with
      | nil => simp [parseNatAcc]
      | cons x t =>
        have := hrest x rfl
        simp only [parseNatAcc, this, Bool.false_eq_true, ↓reduceIte]
        congr 1; omega
    · simp only [hlt, ↓reduceIte, List.append_assoc, List.cons_append, List.nil_append]
      have hd : (UInt8.ofNat (48 + n % 10)).toNat = 48 + n % 10 := by simp [UInt8.toNat_ofNat']; omega
      have hdig : isDecDigit (UInt8.ofNat (48 + n % 10)) = true := by simp [isDecDigit, hd]; omega
      have hnd : ∀ b, (UInt8.ofNat (48 + n % 10) :: rest).head? = some b → isDecDigit b = false → False := by
        intro b hb hf
        simp only [List.head?_cons, Option.some.injEq] at hb
        subst hb
        rw [hdig] at hf; cases hf
      -- the last digit is a digit, so the induction hypothesis cannot be used with it as the "rest"; split the run by hand
      have key : ∀ (m : Nat) (acc : Nat) (tail : Bytes), m < n →
          parseNatAcc acc (natDec m ++ tail) = parseNatAcc (acc * 10 ^ (natDec m).length + m) tail := by
        intro m
        induction m using Nat.strongRecOn with
        | _ m ihm =>
          intro acc tail hm
          rw [natDec]
          by_cases hl : m < 10
          · simp only [hl, ↓reduceIte, List.cons_append, List.nil_append, parseNatAcc, List.length_singleton, Nat.pow_one]
            have hd' : (UInt8.ofNat (48 + m)).toNat = 48 + m := by simp [UInt8.toNat_ofNat']; omega
            have hdig' : isDecDigit (UInt8.ofNat (48 + m)) = true := by simp [isDecDigit, hd']; omega
            simp only [hdig', ↓reduceIte, hd']
            congr 1; omega
          · simp only [hl, ↓reduceIte, List.append_assoc, List.cons_append, List.nil_append]
            rw [ihm (m / 10) (by omega) acc _ (by omega)]
            have hd' : (UInt8.ofNat (48 + m % 10)).toNat = 48 + m % 10 := by simp [UInt8.toNat_ofNat']; omega
            have hdig' : isDecDigit (UInt8.ofNat (48 + m % 10)) = true := by simp [isDecDigit, hd']; omega
            simp only [parseNatAcc, hdig', ↓reduceIte, hd', List.length_append, List.length_singleton, Nat.pow_succ]
            congr 1
            have : 48 + m % 10 - 48 = m % 10 := by omega
            rw [this, Nat.add_mul]
            have hm10 : m / 10 * 10 + m % 10 = m := by omega
            rw [Nat.mul_assoc]
            omega
      rw [key (n / 10) acc _ (by omega)]
      simp only [parseNatAcc, hdig, ↓reduceIte, hd, List.length_append, List.length_singleton, Nat.pow_succ]
      have e1 : 48 + n % 10 - 48 = n % 10 := by omega
      have e2 : (acc * 10 ^ (natDec (n / 10)).length + n / 10) * 10 + n % 10 = acc * (10 ^ (natDec (n / 10)).length * 10) + n := by
        rw [Nat.add_mul, Nat.mul_assoc]; omega
      rw [e1, e2]
      cases rest with
      | nil => simp [parseNatAcc]
      | cons x t =>
        have := hrest x rfl
        simp only [parseNatAcc, this, Bool.false_eq_true, ↓reduceIte]

/-! ### trees -/

def intDec (i : Int) : Bytes := if i < 0 then 0x2d :: natDec i.natAbs else natDec i.natAbs

mutual
  /-- `serde_json::to_vec` of a value -/
  def jsonVal : Tree → Bytes
    | .str s => 0x22 :: (escStr s ++ [0x22])
    | .int n => intDec n
    | .map m => 0x7b :: (jsonKVs true m ++ [0x7d])
  /-- the entries of an object; every entry but the first is preceded by a comma -/
  def jsonKVs : Bool → KVs → Bytes
    | _, .nil => []
    | first, .cons k v rest => (if first then [] else [0x2c]) ++ (0x22 :: (escStr k ++ [0x22, 0x3a])) ++ jsonVal v ++ jsonKVs false rest
end

mutual
  /-- a JSON value (the forms the writer emits: string, integer, object) -/
  def pVal : Nat → Bytes → Option (Tree × Bytes)
    | 0, _ => none
    | fuel+1, bs =>
      match bs with
      | 0x22 :: r => (match unescStr (r.length + 1) r with | some (s, r') => some (.str s, r') | none => none)
      | 0x7b :: r => (match pEntries fuel true r with | some (m, r') => some (.map m, r') | none => none)
      | 0x2d :: r => (match r with
          | b :: _ => if isDecDigit b then let p := parseNatAcc 0 r; some (.int (-(p.1 : Int)), p.2) else none
          | [] => none)
      | b :: _ => if isDecDigit b then let p := parseNatAcc 0 bs; some (.int (p.1 : Int), p.2) else none
      | [] => none
  /-- the entries of an object up to and including the closing brace; `first`: no comma expected before the next entry -/
  def pEntries : Nat → Bool → Bytes → Option (KVs × Bytes)
    | 0, _, _ => none
    | fuel+1, first, bs =>
      match bs with
      | 0x7d :: r => some (.nil, r)
      | _ =>
        let bs' := if first then some bs else (match bs with | 0x2c :: r => some r | _ => none)
        match bs' with
        | some (0x22 :: r) =>
          (match unescStr (r.length + 1) r with
           | some (k, 0x3a :: r') =>
             (match pVal fuel r' with
              | some (v, r'') => (match pEntries fuel false r'' with | some (m, r3) => some (.cons k v m, r3) | none => none)
              | none => none)
           | _ => none)
        | _ => none
end

mutual
  def nodesT : Tree → Nat
    | .str _ => 1
    | .int _ => 1
    | .map m => 1 + nodesK m
  def nodesK : KVs → Nat
    | .nil => 1
    | .cons _ v rest => 1 + nodesT v + nodesK rest
end

theorem natDec_head (n : Nat) : ∃ b t, natDec n = b :: t ∧ isDecDigit b = true := by
  induction n using Nat.strongRecOn with
  | _ n ih =>
    rw [natDec]
    by_cases h : n < 10
    · simp only [h, ↓reduceIte]
      refine ⟨_, [], rfl, ?_⟩
      have hd : (UInt8.ofNat (48 + n)).toNat = 48 + n := by simp [UInt8.toNat_ofNat']; omega
      simp [isDecDigit, hd]; omega
    · simp only [h, ↓reduceIte]
      obtain ⟨b, t, hb, hd⟩ := ih (n / 10) (by omega)
      exact ⟨b, t ++ [UInt8.ofNat (48 + n % 10)], by rw [hb]; rfl, hd⟩

def NoDigitHead (rest : Bytes) : Prop := ∀ b, rest.head? = some b → isDecDigit b = false

theorem jsonKVs_follow (first : Bool) (m : KVs) (rest : Bytes) : NoDigitHead (jsonKVs first m ++ 0x7d :: rest) := by
  intro b hb
  cases m with
  | nil => simp [jsonKVs] at hb; subst hb; decide
  | cons k v r =>
    cases first
    · simp [jsonKVs] at hb; subst hb; decide
    · simp [jsonKVs] at hb; subst hb; decide

mutual
  theorem pVal_json (t : Tree) (fuel : Nat) (rest : Bytes) (hf : nodesT t ≤ fuel) (hr : NoDigitHead rest) :
      pVal fuel (jsonVal t ++ rest) = some (t, rest) := by
    match fuel, t with
    | 0, t => cases t <;> simp [nodesT] at hf
    | fuel+1, .str s =>
      simp only [jsonVal, List.cons_append, List.append_assoc, List.singleton_append, List.nil_append, pVal]
      rw [unescStr_esc s rest _ (by have := escStr_length_ge s; simp only [List.length_append, List.length_cons]; omega)]
    | fuel+1, .int n =>
      simp only [jsonVal, intDec]
      by_cases hneg : n < 0
      · simp only [hneg, ↓reduceIte, List.cons_append, pVal]
        obtain ⟨b, t, hb, hd⟩ := natDec_head n.natAbs
        rw [hb]
        simp only [List.cons_append, hd, ↓reduceIte]
        rw [← List.cons_append, ← hb, parseNatAcc_natDec n.natAbs 0 rest hr]
        simp only [Nat.zero_mul, Nat.zero_add, Option.some.injEq, Prod.mk.injEq, and_true, Tree.int.injEq]
        omega
      · simp only [hneg, ↓reduceIte]
        obtain ⟨b, t, hb, hd⟩ := natDec_head n.natAbs
        have hne22 : b ≠ 0x22 := by intro h; subst h; simp [isDecDigit] at hd
        have hne7b : b ≠ 0x7b := by intro h; subst h; simp [isDecDigit] at hd
        have hne2d : b ≠ 0x2d := by intro h; subst h; simp [isDecDigit] at hd
        rw [hb]
        simp only [List.cons_append]
        unfold pVal
        split
        · rename_i heq; simp only [List.cons.injEq] at heq; exact absurd heq.1 hne22
        · rename_i heq; simp only [List.cons.injEq] at heq; exact absurd heq.1 hne7b
        · rename_i heq; simp only [List.cons.injEq] at heq; exact absurd heq.1 hne2d
        · rename_i b' r' _ _ _ heq
          simp only [List.cons.injEq] at heq
          obtain ⟨rfl, rfl⟩ := heq
          simp only [hd, ↓reduceIte]
          rw [← List.cons_append, ← hb, parseNatAcc_natDec n.natAbs 0 rest hr]
          simp only [Nat.zero_mul, Nat.zero_add, Option.some.injEq, Prod.mk.injEq, and_true, Tree.int.injEq]
          omega
        · rename_i heq; cases heq
    | fuel+1, .map m =>
      simp only [nodesT] at hf
      simp only [jsonVal, List.cons_append, List.append_assoc, List.singleton_append, List.nil_append, pVal]
      rw [pEntries_json m fuel true rest (by omega)]
  theorem pEntries_json (m : KVs) (fuel : Nat) (first : Bool) (rest : Bytes) (hf : nodesK m ≤ fuel) :
      pEntries fuel first (jsonKVs first m ++ 0x7d :: rest) = some (m, rest) := by
    match fuel, m with
    | 0, m => cases m <;> simp [nodesK] at hf
    | fuel+1, .nil => simp [jsonKVs, pEntries]
    | fuel+1, .cons k v r =>
      simp only [nodesK] at hf
      have hbody : ∀ tail, pEntries (fuel + 1) true (0x22 :: (escStr k ++ [0x22, 0x3a]) ++ jsonVal v ++ (jsonKVs false r ++ 0x7d :: tail)) = some (.cons k v r, tail) := by
        intro tail
        simp only [pEntries, List.cons_append, List.append_assoc, List.nil_append, ↓reduceIte]
        rw [unescStr_esc k _ _ (by have := escStr_length_ge k; simp only [List.length_append, List.length_cons]; omega)]
        simp only []
        rw [pVal_json v fuel _ (by omega) (jsonKVs_follow false r tail)]
        simp only []
        rw [pEntries_json r fuel false tail (by omega)]
        split
        · rename_i heq; simp only [List.cons.injEq] at heq; exact absurd heq.1 (by decide)
        · rfl
      cases first with
      | true => simpa [jsonKVs, List.append_assoc] using hbody rest
      | false =>
        have := hbody rest
        simp only [jsonKVs, Bool.false_eq_true, ↓reduceIte, List.append_assoc, List.cons_append, List.nil_append]
        simp only [pEntries, List.cons_append, List.append_assoc, ↓reduceIte] at this ⊢
        exact this
end

/-- `serde_json::to_vec(&game.metadata)` and `read_peppi_metadata` -/
def jsonMeta : Option KVs → Bytes
  | none => [0x6e, 0x75, 0x6c, 0x6c]
  | some m => jsonVal (.map m)
def parseMeta (bs : Bytes) : Res (Option KVs) :=
  if bs = [0x6e, 0x75, 0x6c, 0x6c] then .ok none else
  match pVal (bs.length + 1) bs with
  | some (.map m, []) => .ok (some m)
  | _ => .err "json"

mutual
  theorem nodesT_le : (t : Tree) → nodesT t ≤ (jsonVal t).length + 1
    | .str s => by simp [nodesT, jsonVal]
    | .int n => by simp [nodesT]
    | .map m => by have := nodesK_le true m; simp [nodesT, jsonVal]; omega
  theorem nodesK_le : (first : Bool) → (m : KVs) → nodesK m ≤ (jsonKVs first m).length + 1
    | _, .nil => by simp [nodesK, jsonKVs]
    | first, .cons k v rest => by
      have h1 := nodesT_le v; have h2 := nodesK_le false rest
      simp [nodesK, jsonKVs]; omega
end

/-- **C16, the JSON copy**: the text written for a metadata tree (or for its absence) reads back as the same tree, keys in the
    same order -/
theorem parseMeta_json (md : Option KVs) : parseMeta (jsonMeta md) = .ok md := by
  cases md with
  | none => simp [jsonMeta, parseMeta]
  | some m =>
    have hne : jsonMeta (some m) ≠ [0x6e, 0x75, 0x6c, 0x6c] := by simp [jsonMeta, jsonVal]
    simp only [parseMeta, hne, ↓reduceIte]
    have h := pVal_json (.map m) ((jsonMeta (some m)).length + 1) [] (by have := nodesT_le (.map m); simp [jsonMeta]; omega)
      (by intro b hb; simp at hb)
    simp only [List.append_nil] at h
    simp only [jsonMeta] at h ⊢
    rw [h]

#print axioms unescStr_esc
#print axioms parseMeta_json
end Peppi
