import Peppi.C02Bytes
import Peppi.Arrow
/-! A canonical text of the proof-level Arrow model (`AFrame`, `intoF'`, `normF` of `Lemmas/ArrowFrame.lean`): structure,
    lengths, validity bitmaps and one checksum per primitive column, in order, without names.  The driver prints it for the
    frames of a replay (`intoa`); the harness prints the same text for the struct array that comes back from the Arrow IPC
    stream `peppi::write` produced.  This ties the model the C02 / C14 theorems are about to the code, column by column. -/
namespace Peppi

def dumpAS (a : AStruct) : String :=
  "S[" ++ toString a.len ++ "|" ++ showValidA a.valid ++ "|" ++ ",".intercalate (a.cols.map fun c => toString (csum c)) ++ "]"

def dumpAD (d : AData) : String := "D[" ++ showValidA d.valid ++ "]{" ++ dumpAS d.pre ++ ";" ++ dumpAS d.post ++ "}"

def dumpAP (p : APort) : String :=
  "P" ++ toString p.port ++ "{L=" ++ dumpAD p.leader ++ ";F=" ++ (match p.follower with | some f => dumpAD f | none => "-") ++ "}"

def dumpAF (a : AFrame) : String :=
  "F[" ++ toString a.id.length ++ "|" ++ toString (csum (a.id.map ofInt32)) ++ "]{" ++ ";".intercalate (a.ports.map dumpAP) ++ "}" ++
  "start=" ++ (match a.start with | some s => dumpAS s | none => "-") ++
  ";end=" ++ (match a.fend with | some s => dumpAS s | none => "-") ++
  ";item=" ++ (match a.item with | some (o, s) => ",".intercalate (o.map toString) ++ "|" ++ dumpAS s | none => "-")

/-- what the reader of the IPC stream gets for the frames of a game: export, then the validity normalisation -/
def exportedFrames (g : Game) : AFrame := normF (intoF' (widthsOf g.start.version) g.frames)

end Peppi
