import Peppi.Bytes
import Peppi.Rollbacks
/-! Model of `io/ubjson/{de,ser}.rs` (after the depth-limit repair). -/
namespace Peppi

mutual
  inductive Tree where
    | str (s : Bytes)
    | int (n : Int)
    | map (m : KVs)
  inductive KVs where
    | nil
    | cons (k : Bytes) (v : Tree) (rest : KVs)
end

def MAX_DEPTH : Nat := 127

/-- i32 from its big-endian bits, and back -/
def toI32 (n : Nat) : Int := if n < 2^31 then (n : Int) else (n : Int) - 2^32
def ofI32 (i : Int) : Nat := if 0 ≤ i then i.toNat else (i + 2^32).toNat

theorem ofI32_toI32 (n : Nat) (h : n < 2^32) : ofI32 (toI32 n) = n := by
  unfold ofI32 toI32; split <;> split <;> omega
theorem toI32_ofI32 (i : Int) (h : -2^31 ≤ i ∧ i < 2^31) : toI32 (ofI32 i) = i := by
  unfold ofI32 toI32; split <;> split <;> omega
theorem ofI32_lt (i : Int) (h : -2^31 ≤ i ∧ i < 2^31) : ofI32 i < 256 ^ 4 := by
  unfold ofI32; split <;> omega

/-- `Map::insert` of serde_json with `preserve_order`: replace in place, else append -/
def KVs.insert : KVs → Bytes → Tree → KVs
  | .nil, k, v => .cons k v .nil
  | .cons k' v' rest, k, v => if k' = k then .cons k' v rest else .cons k' v' (rest.insert k v)

def KVs.snoc (m : KVs) (k : Bytes) (v : Tree) : KVs :=
  match m with
  | .nil => .cons k v .nil
  | .cons k' v' rest => .cons k' v' (rest.snoc k v)

def KVs.hasKey : KVs → Bytes → Bool
  | .nil, _ => false
  | .cons k' _ rest, k => k' == k || rest.hasKey k

def KVs.append : KVs → KVs → KVs
  | .nil, b => b
  | .cons k v rest, b => .cons k v (rest.append b)

section Reader
variable (utf8 : Bytes → Bool)

/-- `to_utf8`: U8 length, bytes, `String::from_utf8` -/
def toUtf8 (bs : Bytes) : Res (Bytes × Bytes) :=
  match bs with
  | [] => .err "eof"
  | len :: rest =>
    if rest.length < len.toNat then .err "eof"
    else
      let s := rest.take len.toNat
      if utf8 s then .ok (s, rest.drop len.toNat) else .err "utf8"

mutual
  /-- `to_val` -/
  def toVal : Nat → Nat → Bytes → Res (Tree × Bytes)
    | 0, _, _ => .err "fuel"
    | fuel+1, depth, bs =>
      match bs with
      | [] => .err "eof"
      | 0x53 :: rest =>
        (match rest with
        | [] => .err "eof"
        | 0x55 :: rest' => (match toUtf8 utf8 rest' with
            | .ok (s, r) => .ok (.str s, r)
            | .err e => .err e
            | .panic p => .panic p)
        | _ :: _ => .err "expected 0x55")
      | 0x6c :: rest =>
        if rest.length < 4 then .err "eof" else .ok (.int (toI32 (fromBE (rest.take 4))), rest.drop 4)
      | 0x7b :: rest =>
        (match readMapLoop fuel (depth + 1) rest .nil with
        | .ok (m, r) => .ok (.map m, r)
        | .err e => .err e
        | .panic p => .panic p)
      | _ :: _ => .err "unexpected value type"
  /-- `read_map_` (depth check at entry) and its `while` loop with the accumulated map -/
  def readMapLoop : Nat → Nat → Bytes → KVs → Res (KVs × Bytes)
    | 0, _, _, _ => .err "fuel"
    | fuel+1, depth, bs, acc =>
      if depth > MAX_DEPTH then .err "too deep" else
      match bs with
      | [] => .err "eof"
      | 0x7d :: rest => .ok (acc, rest)
      | 0x55 :: rest =>
        (match toUtf8 utf8 rest with
        | .ok (k, r) =>
          (match toVal fuel depth r with
          | .ok (v, r') => readMapLoop fuel depth r' (acc.insert k v)
          | .err e => .err e
          | .panic p => .panic p)
        | .err e => .err e
        | .panic p => .panic p)
      | _ :: _ => .err "unexpected key type"
end

/-- `read_map` as called by `parse_metadata` (the opening brace is already consumed) -/
def readMap (bs : Bytes) : Res (KVs × Bytes) := readMapLoop utf8 (2 * bs.length + 2) 1 bs .nil

end Reader

/-! writer -/

/-- `write_utf8`: panics if the string is longer than 255 bytes -/
def writeUtf8 (s : Bytes) : Res Bytes :=
  if s.length ≤ 255 then .ok ([0x55, UInt8.ofNat s.length] ++ s) else .panic "write_utf8: try_into u8"

def Res.bind {α β} (r : Res α) (f : α → Res β) : Res β :=
  match r with | .ok a => f a | .err e => .err e | .panic p => .panic p

mutual
  def writeVal : Tree → Res Bytes
    | .str s => (writeUtf8 s).bind fun b => .ok (0x53 :: b)
    | .int n => if -2^31 ≤ n ∧ n < 2^31 then .ok (0x6c :: toBE 4 (ofI32 n)) else .panic "write_map: i32 try_into"
    | .map m => (writeMap m).bind fun b => .ok (0x7b :: b ++ [0x7d])
  /-- `write_map` -/
  def writeMap : KVs → Res Bytes
    | .nil => .ok []
    | .cons k v rest => (writeUtf8 k).bind fun kb => (writeVal v).bind fun vb => (writeMap rest).bind fun rb => .ok (kb ++ vb ++ rb)
end

end Peppi
