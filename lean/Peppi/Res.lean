import Peppi.Bytes
import Peppi.Rollbacks
/-! Outcome type and the cursor reader used by the block parsers. -/
namespace Peppi

instance : Monad Res where
  pure := .ok
  bind r f := match r with | .ok a => f a | .err e => .err e | .panic p => .panic p

def Res.isOk {α} : Res α → Bool | .ok _ => true | _ => false
def Res.isPanic {α} : Res α → Bool | .panic _ => true | _ => false

/-- a parser over a byte slice (`&mut &[u8]`) -/
abbrev Rd (α : Type) := Bytes → Res (α × Bytes)

instance : Monad Rd where
  pure a := fun bs => .ok (a, bs)
  bind m f := fun bs => match m bs with
    | .ok (a, rest) => f a rest
    | .err e => .err e
    | .panic p => .panic p

def Rd.fail {α} (e : String) : Rd α := fun _ => .err e

/-- `read_exact` on a slice: EOF error if short -/
def Rd.take (n : Nat) : Rd Bytes := fun bs =>
  if bs.length < n then .err "eof" else .ok (bs.take n, bs.drop n)
def Rd.u8 : Rd Nat := fun bs => match bs with | [] => .err "eof" | b :: rest => .ok (b.toNat, rest)
def Rd.be (n : Nat) : Rd Nat := do let b ← Rd.take n; pure (fromBE b)
def Rd.skip (n : Nat) : Rd Unit := do let _ ← Rd.take n; pure ()
def Rd.isEmpty : Rd Bool := fun bs => .ok (bs.isEmpty, bs)
def Rd.lift {α} (r : Res α) : Rd α := fun bs => match r with | .ok a => .ok (a, bs) | .err e => .err e | .panic p => .panic p

/-- `if_more`: `None` when the slice is exhausted, else run the parser -/
def ifMore {α} (p : Rd α) : Rd (Option α) := do
  if (← Rd.isEmpty) then pure none else do let a ← p; pure (some a)

end Peppi
