import Peppi.Rollbacks
namespace Peppi

theorem zeroBased_ok {id : Int} (h : FIRST_INDEX ≤ id) : zeroBased id = .ok (id - FIRST_INDEX).toNat := by
  unfold zeroBased; simp; omega

theorem toNat_inj {a b : Int} (ha : FIRST_INDEX ≤ a) (hb : FIRST_INDEX ≤ b) :
    (a - FIRST_INDEX).toNat = (b - FIRST_INDEX).toNat ↔ a = b := by
  constructor
  · intro h; omega
  · intro h; subst h; rfl

/-- Loop specification: every visited index receives "already seen, initially or earlier in the visit order". -/
theorem rbLoop_spec (ps : List (Nat × Int)) (seen result : List Bool)
    (hz : ∀ p ∈ ps, FIRST_INDEX ≤ p.2 ∧ (p.2 - FIRST_INDEX).toNat < seen.length)
    (hidx : ∀ p ∈ ps, p.1 < result.length)
    (hnd : (ps.map Prod.fst).Nodup) :
    ∃ r, rbLoop ps seen result = .ok r ∧ r.length = result.length ∧
      (∀ k, k ∉ ps.map Prod.fst → r[k]? = result[k]?) ∧
      (∀ i (hi : i < ps.length), ∃ b, r[(ps[i]).1]? = some b ∧
        (b = true ↔ (seen.getD ((ps[i]).2 - FIRST_INDEX).toNat false = true ∨ ∃ j, ∃ hj : j < i, (ps[j]).2 = (ps[i]).2))) := by
  induction ps generalizing seen result with
  | nil => exact ⟨result, rfl, rfl, fun _ _ => rfl, fun i hi => by simp at hi⟩
  | cons p rest ih =>
    obtain ⟨idx, id⟩ := p
    have hp := hz (idx, id) (by simp)
    have hi0 := hidx (idx, id) (by simp)
    simp only [List.map_cons, List.nodup_cons] at hnd
    obtain ⟨hnotin, hnd'⟩ := hnd
    simp only at hp hi0
    -- one unified description of the step
    let z := (id - FIRST_INDEX).toNat
    have hzlt : z < seen.length := hp.2
    let flag : Bool := seen[z]
    let seen' := seen.set z true
    let result' := result.set idx flag
    have hzlt' : (id - FIRST_INDEX).toNat < seen.length := hp.2
    have hstep : rbLoop ((idx, id) :: rest) seen result = rbLoop rest seen' result' := by
      simp only [rbLoop, zeroBased_ok hp.1]
      rw [dif_pos hzlt', if_pos hi0]
      by_cases hs : seen[(id - FIRST_INDEX).toNat] = true
      · have hset : seen.set (id - FIRST_INDEX).toNat true = seen := by
          apply List.ext_getElem (by simp)
          intro k h1 h2
          by_cases hk : (id - FIRST_INDEX).toNat = k
          · subst hk; simp [hs]
          · simp [List.getElem_set, hk]
        simp only [hs, Bool.not_true, Bool.false_eq_true, ↓reduceIte, seen', result', flag, z, hset]
      · have hs' : seen[(id - FIRST_INDEX).toNat] = false := by simpa using hs
        simp only [hs', Bool.not_false, ↓reduceIte, seen', result', flag, z]
    obtain ⟨r, hr, hlen, hout, hin⟩ := ih seen' result'
      (fun p hp' => by have := hz p (by simp [hp']); simpa [seen'] using this)
      (fun p hp' => by have := hidx p (by simp [hp']); simpa [result'] using this)
      hnd'
    refine ⟨r, by rw [hstep, hr], by simpa [result'] using hlen, ?_, ?_⟩
    · intro k hk
      simp only [List.map_cons, List.mem_cons, not_or] at hk
      rw [hout k hk.2]
      simp [result', List.getElem?_set, Ne.symm hk.1]
    · intro i hi
      cases i with
      | zero =>
        refine ⟨flag, ?_, ?_⟩
        · simp only [List.getElem_cons_zero]
          rw [hout idx hnotin]
          simp [result', hi0]
        · simp only [List.getElem_cons_zero, flag]
          constructor
          · intro h; left; simp [List.getD_eq_getElem?_getD, hzlt, z] at *; exact h
          · rintro (h | ⟨j, hj, _⟩)
            · simpa [List.getD_eq_getElem?_getD, hzlt, z] using h
            · omega
      | succ i' =>
        have hi' : i' < rest.length := by simpa using hi
        obtain ⟨b, hb1, hb2⟩ := hin i' hi'
        refine ⟨b, by simpa using hb1, ?_⟩
        rw [hb2]
        have hq := hz (rest[i']) (by simp)
        simp only [List.getElem_cons_succ]
        -- seen' lookup = seen lookup or "same id as the head"
        have hget : (seen'.getD ((rest[i']).2 - FIRST_INDEX).toNat false = true) ↔
            (seen.getD ((rest[i']).2 - FIRST_INDEX).toNat false = true ∨ id = (rest[i']).2) := by
          simp only [seen', List.getD_eq_getElem?_getD, List.getElem?_set]
          by_cases he : z = ((rest[i']).2 - FIRST_INDEX).toNat
          · have : id = (rest[i']).2 := (toNat_inj hp.1 hq.1).mp he
            simp [he, this, hq.2]
          · have : ¬ id = (rest[i']).2 := fun h => he ((toNat_inj hp.1 hq.1).mpr h)
            simp [he, this]
        rw [hget]
        constructor
        · rintro ((h | h) | ⟨j, hj, hjj⟩)
          · exact Or.inl h
          · exact Or.inr ⟨0, by omega, by simpa using h⟩
          · exact Or.inr ⟨j+1, by omega, by simpa using hjj⟩
        · rintro (h | ⟨j, hj, hjj⟩)
          · exact Or.inl (Or.inl h)
          · cases j with
            | zero => exact Or.inl (Or.inr (by simpa using hjj))
            | succ j' => exact Or.inr ⟨j', by omega, by simpa using hjj⟩

end Peppi

namespace Peppi

theorem foldl_max_ge (xs : List Int) (a : Int) : a ≤ xs.foldl max a ∧ ∀ x ∈ xs, x ≤ xs.foldl max a := by
  induction xs generalizing a with
  | nil => simp
  | cons y ys ih =>
    simp only [List.foldl_cons, List.mem_cons, forall_eq_or_imp]
    have := ih (max a y)
    refine ⟨by omega, by omega, this.2⟩

theorem maxId_ge {ids : List Int} {m : Int} (h : maxId ids = some m) : ∀ x ∈ ids, x ≤ m := by
  cases ids with
  | nil => simp [maxId] at h
  | cons a t =>
    simp only [maxId, Option.some.injEq] at h
    subst h
    intro x hx
    simp only [List.mem_cons] at hx
    rcases hx with rfl | hx
    · exact (foldl_max_ge t x).1
    · exact (foldl_max_ge t a).2 x hx

theorem maxId_mem {ids : List Int} {m : Int} (h : maxId ids = some m) : m ∈ ids := by
  cases ids with
  | nil => simp [maxId] at h
  | cons a t =>
    simp only [maxId, Option.some.injEq] at h
    subst h
    have : ∀ (xs : List Int) (a : Int), xs.foldl max a = a ∨ xs.foldl max a ∈ xs := by
      intro xs
      induction xs with
      | nil => simp
      | cons y ys ih =>
        intro a
        simp only [List.foldl_cons, List.mem_cons]
        rcases ih (max a y) with h | h
        · rw [h]; rcases Int.le_total a y with hle | hle
          · right; left; omega
          · left; omega
        · right; right; exact h
    rcases this t a with h | h
    · rw [h]; simp
    · simp [h]

/-- common part: the loop over any duplicate-free visiting order of all indices -/
theorem rollbacks_ok (ids : List Int) (h : ∀ x ∈ ids, FIRST_INDEX ≤ x) (ps : List (Nat × Int))
    (hps : ∀ p ∈ ps, p.1 < ids.length ∧ ids[p.1]? = some p.2) (hnd : (ps.map Prod.fst).Nodup) :
    ∃ unique, uniqueCount ids = .ok unique ∧
      ∀ p ∈ ps, FIRST_INDEX ≤ p.2 ∧ (p.2 - FIRST_INDEX).toNat < (List.replicate unique false).length := by
  unfold uniqueCount
  cases hm : maxId ids with
  | none =>
    refine ⟨0, rfl, ?_⟩
    intro p hp
    have := (hps p hp).1
    cases ids with
    | nil => simp at this
    | cons _ _ => simp [maxId] at hm
  | some m =>
    have hmm := maxId_mem hm
    have hge := maxId_ge hm
    refine ⟨1 + (m - FIRST_INDEX).toNat, by simp [zeroBased_ok (h m hmm)], ?_⟩
    intro p hp
    obtain ⟨h1, h2⟩ := hps p hp
    have hmem : p.2 ∈ ids := List.mem_of_getElem? h2
    have := hge p.2 hmem
    have := h p.2 hmem
    simp; omega

end Peppi

namespace Peppi

theorem getD_replicate_false (n k : Nat) : (List.replicate n false).getD k false = false := by
  simp [List.getD_eq_getElem?_getD, List.getElem?_replicate]
  split <;> simp

theorem pairs_getElem (ids : List Int) (i : Nat) (hi : i < ((List.range ids.length).zip ids).length) :
    ((List.range ids.length).zip ids)[i] = (i, ids[i]'(by simpa using hi)) := by
  simp [List.getElem_zip]

/-- C15, keep-first mode. -/
theorem C15_first (ids : List Int) (h : ∀ x ∈ ids, FIRST_INDEX ≤ x) :
    ∃ m, rollbacks .exceptFirst ids = .ok m ∧ m.length = ids.length ∧
      ∀ i (hi : i < ids.length), (m[i]? = some true ↔ ∃ j, ∃ hj : j < i, ids[j] = ids[i]) := by
  let ps := (List.range ids.length).zip ids
  have hlen : ps.length = ids.length := by simp [ps]
  have hzl : ((List.range ids.length).zip ids).length = ids.length := by simp
  have hps : ∀ p ∈ ps, p.1 < ids.length ∧ ids[p.1]? = some p.2 := by
    intro p hp
    obtain ⟨i, hi, rfl⟩ := List.getElem_of_mem hp
    rw [pairs_getElem ids i hi]
    have : i < ids.length := by simpa [ps] using hi
    simp [this]
  have hnd : (ps.map Prod.fst).Nodup := by
    have : ps.map Prod.fst = List.range ids.length := by simp [ps, List.map_fst_zip]
    rw [this]; exact List.nodup_range
  obtain ⟨unique, hu, hz⟩ := rollbacks_ok ids h ps hps hnd
  obtain ⟨r, hr, hrl, _, hin⟩ := rbLoop_spec ps (List.replicate unique false) (List.replicate ids.length false) hz
    (fun p hp => by simpa using (hps p hp).1) hnd
  refine ⟨r, ?_, by simpa using hrl, ?_⟩
  · simp only [rollbacks]; rw [hu]; exact hr
  · intro i hi
    obtain ⟨b, hb1, hb2⟩ := hin i (by omega)
    have hpi : ps[i]'(by omega) = (i, ids[i]) := pairs_getElem ids i (by omega)
    rw [hpi] at hb1 hb2
    simp only at hb1 hb2
    rw [hb1, getD_replicate_false] at *
    simp only [Option.some.injEq, Bool.false_eq_true, false_or] at hb2 ⊢
    rw [hb2]
    constructor
    · rintro ⟨j, hj, hjj⟩
      have : ps[j]'(by omega) = (j, ids[j]) := pairs_getElem ids j (by omega)
      rw [this] at hjj; exact ⟨j, hj, hjj⟩
    · rintro ⟨j, hj, hjj⟩
      refine ⟨j, hj, ?_⟩
      have : ps[j]'(by omega) = (j, ids[j]) := pairs_getElem ids j (by omega)
      rw [this]; exact hjj

/-- C15, keep-last mode. -/
theorem C15_last (ids : List Int) (h : ∀ x ∈ ids, FIRST_INDEX ≤ x) :
    ∃ m, rollbacks .exceptLast ids = .ok m ∧ m.length = ids.length ∧
      ∀ i (hi : i < ids.length), (m[i]? = some true ↔ ∃ j, ∃ hj : j < ids.length, i < j ∧ ids[j] = ids[i]) := by
  let ps := ((List.range ids.length).zip ids).reverse
  have hlen : ps.length = ids.length := by simp [ps]
  have hzl : ((List.range ids.length).zip ids).length = ids.length := by simp
  have hget : ∀ k (hk : k < ids.length), ps[k]'(by omega) = (ids.length - 1 - k, ids[ids.length - 1 - k]) := by
    intro k hk
    simp only [ps, List.getElem_reverse, List.length_zip, List.length_range, Nat.min_self]
    rw [pairs_getElem]
  have hps : ∀ p ∈ ps, p.1 < ids.length ∧ ids[p.1]? = some p.2 := by
    intro p hp
    obtain ⟨k, hk, rfl⟩ := List.getElem_of_mem hp
    have hk' : k < ids.length := by omega
    rw [hget k hk']
    have : ids.length - 1 - k < ids.length := by omega
    simp [this]
  have hnd : (ps.map Prod.fst).Nodup := by
    have : ps.map Prod.fst = (List.range ids.length).reverse := by simp [ps, List.map_reverse, List.map_fst_zip]
    rw [this, List.nodup_iff_pairwise_ne, List.pairwise_reverse]
    have := (List.nodup_range (n := ids.length))
    rw [List.nodup_iff_pairwise_ne] at this
    exact this.imp (fun h => Ne.symm h)
  obtain ⟨unique, hu, hz⟩ := rollbacks_ok ids h ps hps hnd
  obtain ⟨r, hr, hrl, _, hin⟩ := rbLoop_spec ps (List.replicate unique false) (List.replicate ids.length false) hz
    (fun p hp => by simpa using (hps p hp).1) hnd
  refine ⟨r, ?_, by simpa using hrl, ?_⟩
  · simp only [rollbacks]; rw [hu]; exact hr
  · intro i hi
    obtain ⟨b, hb1, hb2⟩ := hin (ids.length - 1 - i) (by omega)
    have hpi := hget (ids.length - 1 - i) (by omega)
    have hii : ids.length - 1 - (ids.length - 1 - i) = i := by omega
    simp only [hii] at hpi
    rw [hpi] at hb1 hb2
    simp only at hb1 hb2
    rw [hb1, getD_replicate_false] at *
    simp only [Option.some.injEq, Bool.false_eq_true, false_or] at hb2 ⊢
    rw [hb2]
    constructor
    · rintro ⟨k, hk, hkk⟩
      have hk' : k < ids.length := by omega
      rw [hget k hk'] at hkk
      exact ⟨ids.length - 1 - k, by omega, by omega, hkk⟩
    · rintro ⟨j, hj, hij, hjj⟩
      refine ⟨ids.length - 1 - j, by omega, ?_⟩
      rw [hget (ids.length - 1 - j) (by omega)]
      have : ids.length - 1 - (ids.length - 1 - j) = j := by omega
      simp only [this]; exact hjj

/-- non-vacuity: a concrete history with a triple repeat, a non-adjacent repeat and the first id -/
example : rollbacks .exceptFirst [-123, 7, -123, 7, 7, -100] = .ok [false, false, true, true, true, false] := by decide +kernel
example : rollbacks .exceptLast [-123, 7, -123, 7, 7] = .ok [true, true, false, true, false] := by decide +kernel

#print axioms C15_first
#print axioms C15_last
end Peppi

namespace Peppi
/-- **C15, corollary**: a game without repeated frame ids yields an all-false mask (keep-first mode) -/
theorem C15_first_nodup (ids : List Int) (h : ∀ x ∈ ids, FIRST_INDEX ≤ x) (hnd : ids.Nodup) :
    ∃ m, rollbacks .exceptFirst ids = .ok m ∧ m.length = ids.length ∧ ∀ b ∈ m, b = false := by
  obtain ⟨m, hm, hl, hspec⟩ := C15_first ids h
  refine ⟨m, hm, hl, ?_⟩
  intro b hb
  obtain ⟨i, hi, rfl⟩ := List.getElem_of_mem hb
  cases hbi : m[i] with
  | false => rfl
  | true =>
    exfalso
    have hi' : i < ids.length := by omega
    have : m[i]? = some true := by rw [List.getElem?_eq_getElem hi, hbi]
    obtain ⟨j, hj, hji⟩ := (hspec i hi').mp this
    have := (List.getElem_inj (h₀ := by omega) (h₁ := hi') hnd).mp hji
    omega

/-- **C15, corollary**: in keep-first mode the first occurrence of every frame id is unmarked — so at least one row per
    distinct id survives de-duplication, and by `C15_first` every later occurrence is marked: exactly one survives -/
theorem C15_first_keeps_first (ids : List Int) (h : ∀ x ∈ ids, FIRST_INDEX ≤ x) (i : Nat) (hi : i < ids.length)
    (hfirst : ∀ j, ∀ hj : j < i, ids[j] ≠ ids[i]) :
    ∃ m, rollbacks .exceptFirst ids = .ok m ∧ m[i]? = some false := by
  obtain ⟨m, hm, hl, hspec⟩ := C15_first ids h
  refine ⟨m, hm, ?_⟩
  have him : i < m.length := by omega
  rw [List.getElem?_eq_getElem him]
  cases hbi : m[i] with
  | false => rfl
  | true =>
    exfalso
    have : m[i]? = some true := by rw [List.getElem?_eq_getElem him, hbi]
    obtain ⟨j, hj, hji⟩ := (hspec i hi).mp this
    exact hfirst j hj hji

/-- **C15, corollary**: in keep-last mode the last occurrence of every frame id is unmarked -/
theorem C15_last_keeps_last (ids : List Int) (h : ∀ x ∈ ids, FIRST_INDEX ≤ x) (i : Nat) (hi : i < ids.length)
    (hlast : ∀ j, ∀ hj : j < ids.length, i < j → ids[j] ≠ ids[i]) :
    ∃ m, rollbacks .exceptLast ids = .ok m ∧ m[i]? = some false := by
  obtain ⟨m, hm, hl, hspec⟩ := C15_last ids h
  refine ⟨m, hm, ?_⟩
  have him : i < m.length := by omega
  rw [List.getElem?_eq_getElem him]
  cases hbi : m[i] with
  | false => rfl
  | true =>
    exfalso
    have : m[i]? = some true := by rw [List.getElem?_eq_getElem him, hbi]
    obtain ⟨j, hj, hij, hji⟩ := (hspec i hi).mp this
    exact hlast j hj hij hji
end Peppi
