import Peppi.VersionMore
/-! C20: the text `Display` produces is canonical — digits and exactly two dots, no sign, no leading zeros, 5 to 11
    characters — for every version. -/
namespace Peppi

/-- `Display for u8`: 1–3 ASCII digits, no leading zero except for 0 itself -/
theorem showU8_canonical : ∀ n, n < 256 →
    (showU8 n).all isDigit = true ∧ 1 ≤ (showU8 n).length ∧ (showU8 n).length ≤ 3 ∧
    ((showU8 n).head? = some '0' → n = 0) := by decide +kernel

theorem Ver.display_length (v : Ver) (h : v.WF) : 5 ≤ v.display.length ∧ v.display.length ≤ 11 := by
  obtain ⟨h1, h2, h3⟩ := h
  have a := showU8_canonical _ h1; have b := showU8_canonical _ h2; have c := showU8_canonical _ h3
  unfold Ver.display; simp only [List.length_append, List.length_cons, List.length_nil]; omega

/-- every character of the text is a digit or a dot, and there are exactly two dots -/
theorem Ver.display_chars (v : Ver) (h : v.WF) :
    v.display.all (fun c => isDigit c || c == '.') = true ∧ (v.display.filter (· == '.')).length = 2 := by
  obtain ⟨h1, h2, h3⟩ := h
  have a := (showU8_canonical _ h1).1; have b := (showU8_canonical _ h2).1; have c := (showU8_canonical _ h3).1
  have nd : ∀ n, n < 256 → (showU8 n).filter (· == '.') = [] := by
    intro n hn
    rw [List.filter_eq_nil_iff]
    intro x hx
    have := List.all_eq_true.mp (show_u8_nodot n hn) x hx
    simpa using this
  have dg : ∀ l : List Char, l.all isDigit = true → l.all (fun c => isDigit c || c == '.') = true := by
    intro l hl; rw [List.all_eq_true] at *; intro x hx; simp [hl x hx]
  refine ⟨?_, ?_⟩
  · unfold Ver.display
    simp only [List.all_append, dg _ a, dg _ b, dg _ c, Bool.and_true, Bool.true_and]
    decide
  · unfold Ver.display
    simp only [List.filter_append, nd _ h1, nd _ h2, nd _ h3, List.nil_append, List.append_nil]
    decide

example : Ver.display ⟨0, 10, 255⟩ = "0.10.255".toList := by decide +kernel

end Peppi
