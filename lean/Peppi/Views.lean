/-! Struct-level "views" of the generated per-struct code (`src/frame/{mutable,immutable/*,transpose}.rs`):
    for every generated function, the list of struct members it touches, in the order it touches them,
    with the version gates that enclose each access.  `Extracted.lean` (written by the translator on every
    run) instantiates `SViews` for each of the eleven generated structs; `structOK` is the decidable
    statement that all of a struct's functions agree with each other — the premise under which the model
    treats a generated struct as a list of rows (DESIGN.md §2.1, §2.2). -/
namespace Peppi

/-- one struct member as a generated function lists it.
    `kind`: 0..5 primitive type (u8 i8 u16 u32 i32 f32); 100+i sub-struct number i; 98 "a primitive", 97 "a sub-struct"
    (for functions whose text does not name the type) -/
structure VEnt where
  name : List Nat
  kind : Nat
  gates : List (Nat × Nat)
  opt : Bool
deriving DecidableEq, Repr

structure SViews where
  defMut : List VEnt
  defImm : List VEnt
  defTr : List VEnt
  withCapacity : List VEnt
  pushNull : List VEnt
  readPush : List VEnt
  write : List VEnt
  size : List VEnt
  trMut : List (List Nat × List Nat × Bool)
  trImm : List (List Nat × List Nat × Bool)
  fromMut : List (List Nat × List Nat × Bool)
  lenField : List Nat
  lenSpecialEnd : Bool
  arrowFields : List VEnt
  arrowInto : List VEnt
  arrowFrom : List (List Nat × Nat × Nat × Bool)
  vDefMut : Bool
  vDefImm : Bool
  vDefTr : Bool
  vFromMut : Bool
  vPushNull : Bool
  vReadPush : Bool
  vInto : Bool
  vFrom : Bool
  vWithCapacity : Nat × Nat × Nat      -- (0,_,_) = `None`; (1, M, m) = created eagerly below version M.m; (2,_,_) = no such member

/-- two kind codes denote the same member type (a coarse code matches any precise one of its class) -/
def kindMatch (a b : Nat) : Bool :=
  a == b || (a == 98 && b < 6) || (b == 98 && a < 6) || (a == 97 && b ≥ 100) || (b == 97 && a ≥ 100)

/-- a gate list written as nested `if version.gte(a, b)` blocks is a ≤-chain, so that the conjunction of its
    conditions is its innermost (last) condition -/
def gateChain : List (Nat × Nat) → Bool
  | [] => true
  | [_] => true
  | a :: b :: t => (a.1 < b.1 || (a.1 == b.1 && a.2 ≤ b.2)) && gateChain (b :: t)

/-- the effective gate of a member: `none` = present in every version -/
def effGate (g : List (Nat × Nat)) : Option (Nat × Nat) := g.getLast?

def gatesOf (l : List VEnt) : List (Option (Nat × Nat)) := l.map fun e => effGate e.gates
def chainsOK (l : List VEnt) : Bool := l.all fun e => gateChain e.gates

def sameKinds (xs ys : List Nat) : Bool := xs.length == ys.length && (xs.zip ys).all fun p => kindMatch p.1 p.2

/-- all generated functions of one struct list the same members, in definition order, with the same types and the
    same version gates; a member is an `Option` exactly when it is version-gated; the row view and the
    mutable→immutable conversion map every member to itself; the Arrow import reads child `k` into member `k`;
    the lazy-validity idiom is present in every function that needs it -/
def structCoreOK (isEnd hasValidity : Bool) (v : SViews) : Bool :=
  let N := v.defMut.map (·.name)
  let K := v.defMut.map (·.kind)
  let O := v.defMut.map (·.opt)
  let G := gatesOf v.withCapacity
  let sameNK (l : List VEnt) := l.map (·.name) == N && sameKinds (l.map (·.kind)) K
  let idMap (l : List (List Nat × List Nat × Bool)) := l.map (·.1) == N && l.map (·.2.1) == N && l.map (·.2.2) == O
  -- definitions
  sameNK v.defImm && v.defImm.map (·.opt) == O &&
  -- construction / mutation
  sameNK v.withCapacity && O == G.map (·.isSome) && chainsOK v.withCapacity &&
  sameNK v.pushNull && gatesOf v.pushNull == G && chainsOK v.pushNull &&
  sameNK v.readPush && gatesOf v.readPush == G && chainsOK v.readPush &&
  -- serialisation
  sameNK v.write && gatesOf v.write == G && chainsOK v.write &&
  sameKinds (v.size.map (·.kind)) K && gatesOf v.size == G && chainsOK v.size &&
  -- mutable → immutable conversion, length
  idMap v.fromMut &&
  (if isEnd then v.lenSpecialEnd else (!v.lenSpecialEnd && some v.lenField == N.head? && G.head? == some none)) &&
  -- validity
  (if hasValidity then
     v.vDefMut && v.vDefImm && v.vFromMut && v.vPushNull && v.vReadPush &&
     (if isEnd then v.vWithCapacity == (1, 3, 7) else v.vWithCapacity.1 == 0)
   else  -- tuple structs (`StateFlags`, `ItemMisc`) have no validity member anywhere
     !v.vDefMut && !v.vDefImm && !v.vFromMut && !v.vPushNull && !v.vReadPush && v.vWithCapacity.1 == 2)

/-- the row view (`transpose_one` of both representations and the row struct) maps every member to itself -/
def structRowOK (v : SViews) : Bool :=
  let N := v.defMut.map (·.name)
  let K := v.defMut.map (·.kind)
  let O := v.defMut.map (·.opt)
  let sameNK (l : List VEnt) := l.map (·.name) == N && sameKinds (l.map (·.kind)) K
  let idMap (l : List (List Nat × List Nat × Bool)) := l.map (·.1) == N && l.map (·.2.1) == N && l.map (·.2.2) == O
  sameNK v.defTr && v.defTr.map (·.opt) == O && idMap v.trMut && idMap v.trImm && !v.vDefTr

/-- the Arrow side (`data_type`, `into_struct_array`, `from_struct_array`) lists the members in definition order with the
    same types and gates, and reads child `k` into member `k` -/
def structArrowOK (hasValidity : Bool) (v : SViews) : Bool :=
  let N := v.defMut.map (·.name)
  let K := v.defMut.map (·.kind)
  let O := v.defMut.map (·.opt)
  let G := gatesOf v.withCapacity
  let sameNK (l : List VEnt) := l.map (·.name) == N && sameKinds (l.map (·.kind)) K
  sameNK v.arrowFields && gatesOf v.arrowFields == G && chainsOK v.arrowFields &&
  sameNK v.arrowInto && gatesOf v.arrowInto == G && chainsOK v.arrowInto &&
  v.arrowFrom.map (·.1) == N && v.arrowFrom.map (·.2.1) == List.range N.length &&
  sameKinds (v.arrowFrom.map (·.2.2.1)) K && v.arrowFrom.map (·.2.2.2) == O &&
  (if hasValidity then v.vInto && v.vFrom else !v.vInto && !v.vFrom)

/-- everything at once.  The three parts are decided separately (`PremisesCore`, `PremisesRow`, `PremisesArrow`) so that a
    property depends only on the generated functions it is about. -/
def structOK (isEnd hasValidity : Bool) (v : SViews) : Bool :=
  structCoreOK isEnd hasValidity v && structRowOK v && structArrowOK hasValidity v

end Peppi

namespace Peppi
/-- the Arrow schema a generated struct declares (`data_type`) — member names, types, and the version from which each
    member exists — is exactly the generator's field table for that struct (`gen/resources/frames.json`) -/
def schemaMatchesJson (v : SViews) (json : List (List Nat × Nat × Option (Nat × Nat))) : Bool :=
  v.arrowFields.map (fun e => (e.name, e.kind, effGate e.gates)) == json
end Peppi
