import Peppi.VersionProof
/-! C09: "exceeds the maximum, compared as major, minor, patch" — the derived `Ord` is a total order, and the
    version guard is downward closed in it: nothing at or below an accepted version is refused, nothing at or above a
    refused version is accepted. -/
namespace Peppi

theorem Ver.le_refl (a : Ver) : a.le a = true := by rw [Ver.le_iff]; omega

theorem Ver.le_total (a b : Ver) : a.le b = true ∨ b.le a = true := by
  rw [Ver.le_iff, Ver.le_iff]; omega

theorem Ver.le_trans (a b c : Ver) (h1 : a.le b = true) (h2 : b.le c = true) : a.le c = true := by
  rw [Ver.le_iff] at *; omega

theorem Ver.le_antisymm (a b : Ver) (h1 : a.le b = true) (h2 : b.le a = true) : a = b := by
  rw [Ver.le_iff] at *
  cases a; cases b; simp only [Ver.mk.injEq] at *; omega

/-- the guard is `v ≤ 3.16.0` in that order -/
theorem assertMaxVersion_le (v : Ver) : assertMaxVersion v = .ok () ↔ v.le MAX_SUPPORTED_VERSION = true := by
  unfold assertMaxVersion
  by_cases h : v.le MAX_SUPPORTED_VERSION = true
  · simp only [h, ↓reduceIte]
  · simp only [h]; simp

/-- downward closed: a version at or below an accepted one is accepted -/
theorem assertMaxVersion_down (v w : Ver) (h : v.le w = true) (hw : assertMaxVersion w = .ok ()) :
    assertMaxVersion v = .ok () := by
  rw [assertMaxVersion_le] at *; exact Ver.le_trans v w _ h hw

/-- upward closed refusal: a version at or above a refused one is refused (with an error, not a panic) -/
theorem assertMaxVersion_up (v w : Ver) (h : v.le w = true) (hv : assertMaxVersion v ≠ .ok ()) :
    assertMaxVersion w = .err "unsupported version" := by
  have hw : ¬ assertMaxVersion w = .ok () := fun hw => hv (assertMaxVersion_down v w h hw)
  unfold assertMaxVersion at hw ⊢
  by_cases hle : w.le MAX_SUPPORTED_VERSION = true
  · simp [hle] at hw
  · simp only [hle]; rfl

/-- the boundary: 3.16.0 is the greatest accepted version, 3.16.1 the least refused one -/
theorem assertMaxVersion_boundary :
    assertMaxVersion ⟨3, 16, 0⟩ = .ok () ∧ assertMaxVersion ⟨3, 16, 1⟩ = .err "unsupported version" ∧
    ∀ v : Ver, assertMaxVersion v = .ok () ∨ (⟨3, 16, 1⟩ : Ver).le v = true := by
  refine ⟨by decide, by decide, ?_⟩
  intro v
  rw [assertMaxVersion_iff, Ver.le_iff]
  simp only
  omega

end Peppi
