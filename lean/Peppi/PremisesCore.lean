import Peppi.Extracted
/-! `structCoreOK` (definitions, construction, parsing, serialisation, sizes, mutable→immutable conversion, validity bookkeeping), decided by the kernel on the views extracted from the current source, for each of the eleven generated structs.
    A generated function that drops, swaps, re-gates or re-types a member makes the corresponding theorem fail to check. -/
namespace Peppi
open Extracted

theorem core_End : structCoreOK true true End.views = true := by decide +kernel
theorem core_Item : structCoreOK false true Item.views = true := by decide +kernel
theorem core_ItemMisc : structCoreOK false false ItemMisc.views = true := by decide +kernel
theorem core_Position : structCoreOK false true Position.views = true := by decide +kernel
theorem core_Post : structCoreOK false true Post.views = true := by decide +kernel
theorem core_Pre : structCoreOK false true Pre.views = true := by decide +kernel
theorem core_Start : structCoreOK false true Start.views = true := by decide +kernel
theorem core_StateFlags : structCoreOK false false StateFlags.views = true := by decide +kernel
theorem core_TriggersPhysical : structCoreOK false true TriggersPhysical.views = true := by decide +kernel
theorem core_Velocities : structCoreOK false true Velocities.views = true := by decide +kernel
theorem core_Velocity : structCoreOK false true Velocity.views = true := by decide +kernel

end Peppi
