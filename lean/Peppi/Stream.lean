import Peppi.Res
/-! A byte stream that hands out its content in arbitrary pieces (what `Read::read` may do), and `read_exact` over it. -/
namespace Peppi

/-- the pieces successive `read` calls will return (an empty piece is a zero-length read that is not EOF, e.g. `Interrupted`
    retried); after the last piece the stream is at EOF -/
abbrev Stream := List Bytes

/-- `read_exact(n)`: keep reading until `n` bytes have arrived or EOF -/
def readExactS : Nat → Stream → Res (Bytes × Stream)
  | 0, s => .ok ([], s)
  | _+1, [] => .err "eof"
  | n+1, c :: cs =>
    if n + 1 ≤ c.length then .ok (c.take (n+1), c.drop (n+1) :: cs)
    else match readExactS (n + 1 - c.length) cs with
      | .ok (b, s') => .ok (c ++ b, s')
      | .err e => .err e
      | .panic p => .panic p
termination_by n s => s.length

/-- **fragmentation independence of exact-length reads**: over any split of the same bytes into pieces, `read_exact` returns
    what the slice reader returns on the concatenation, and leaves the same bytes -/
theorem readExactS_flat : ∀ (s : Stream) (n : Nat),
    (∀ b s', readExactS n s = .ok (b, s') → Rd.take n s.flatten = .ok (b, s'.flatten)) ∧
    (∀ e, readExactS n s = .err e → ∃ e', Rd.take n s.flatten = .err e') ∧
    (∀ p, readExactS n s ≠ .panic p) := by
  intro s
  induction s with
  | nil =>
    intro n
    cases n with
    | zero => simp [readExactS, Rd.take]
    | succ n => simp [readExactS, Rd.take]
  | cons c cs ih =>
    intro n
    cases n with
    | zero => simp [readExactS, Rd.take]
    | succ n =>
      rw [readExactS]
      by_cases hle : n + 1 ≤ c.length
      · simp only [hle, ↓reduceIte]
        refine ⟨?_, by simp, by simp⟩
        intro b s' h
        simp only [Res.ok.injEq, Prod.mk.injEq] at h
        obtain ⟨rfl, rfl⟩ := h
        simp only [Rd.take, List.flatten_cons, List.length_append]
        have : ¬ (c.length + cs.flatten.length < n + 1) := by omega
        simp only [this, ↓reduceIte, Res.ok.injEq, Prod.mk.injEq]
        exact ⟨List.take_append_of_le_length hle, List.drop_append_of_le_length hle⟩
      · simp only [hle, ↓reduceIte]
        obtain ⟨ih1, ih2, ih3⟩ := ih (n + 1 - c.length)
        cases hr : readExactS (n + 1 - c.length) cs with
        | ok x =>
          obtain ⟨b, s'⟩ := x
          refine ⟨?_, by simp, by simp⟩
          intro b' s'' h
          simp only [Res.ok.injEq, Prod.mk.injEq] at h
          obtain ⟨rfl, rfl⟩ := h
          have h1 := ih1 b s' hr
          simp only [Rd.take] at h1 ⊢
          split at h1
          · simp at h1
          · rename_i hl
            simp only [Res.ok.injEq, Prod.mk.injEq] at h1
            simp only [List.flatten_cons, List.length_append]
            have : ¬ (c.length + cs.flatten.length < n + 1) := by omega
            simp only [this, ↓reduceIte, Res.ok.injEq, Prod.mk.injEq]
            constructor
            · rw [List.take_append, List.take_of_length_le (by omega), h1.1]
            · rw [List.drop_append, List.drop_eq_nil_of_le (by omega), List.nil_append, h1.2]
        | err e =>
          refine ⟨by simp, ?_, by simp⟩
          intro e' _
          obtain ⟨e2, he2⟩ := ih2 e hr
          simp only [Rd.take] at he2 ⊢
          split at he2
          · rename_i hl
            simp only [List.flatten_cons, List.length_append]
            have : c.length + cs.flatten.length < n + 1 := by omega
            exact ⟨"eof", if_pos this⟩
          · simp at he2
        | panic p => exact absurd hr (ih3 p)

#print axioms readExactS_flat
end Peppi
