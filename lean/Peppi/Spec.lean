import Peppi.Layout
/-! Independent spec tables, written from the Slippi spec (DESIGN.md Appendix A), NOT from the code.
    Offsets are relative to the first payload byte; `hdr` bytes precede the struct's own fields. -/
namespace Peppi.Spec

structure SField where
  name : List Nat          -- code points
  ty : Nat                 -- 0 u8, 1 i8, 2 u16, 3 u32, 4 i32, 5 f32
  off : Nat                -- absolute offset in the event payload
  since : Nat × Nat        -- first version carrying the field
deriving DecidableEq, Repr

def width : Nat → Nat | 0 => 1 | 1 => 1 | 2 => 2 | _ => 4
def n (s : String) : List Nat := s.toList.map Char.toNat

def preHdr : Nat := 6     -- frame id i32, port u8, follower u8
def pre : List SField := [
  ⟨n "random_seed", 3, 6, (0,0)⟩, ⟨n "state", 2, 10, (0,0)⟩, ⟨n "position.x", 5, 12, (0,0)⟩, ⟨n "position.y", 5, 16, (0,0)⟩,
  ⟨n "direction", 5, 20, (0,0)⟩, ⟨n "joystick.x", 5, 24, (0,0)⟩, ⟨n "joystick.y", 5, 28, (0,0)⟩, ⟨n "cstick.x", 5, 32, (0,0)⟩,
  ⟨n "cstick.y", 5, 36, (0,0)⟩, ⟨n "triggers", 5, 40, (0,0)⟩, ⟨n "buttons", 3, 44, (0,0)⟩, ⟨n "buttons_physical", 2, 48, (0,0)⟩,
  ⟨n "triggers_physical.l", 5, 50, (0,0)⟩, ⟨n "triggers_physical.r", 5, 54, (0,0)⟩,
  ⟨n "raw_analog_x", 1, 58, (1,2)⟩, ⟨n "percent", 5, 59, (1,4)⟩, ⟨n "raw_analog_y", 1, 63, (3,15)⟩]

def postHdr : Nat := 6
def post : List SField := [
  ⟨n "character", 0, 6, (0,0)⟩, ⟨n "state", 2, 7, (0,0)⟩, ⟨n "position.x", 5, 9, (0,0)⟩, ⟨n "position.y", 5, 13, (0,0)⟩,
  ⟨n "direction", 5, 17, (0,0)⟩, ⟨n "percent", 5, 21, (0,0)⟩, ⟨n "shield", 5, 25, (0,0)⟩, ⟨n "last_attack_landed", 0, 29, (0,0)⟩,
  ⟨n "combo_count", 0, 30, (0,0)⟩, ⟨n "last_hit_by", 0, 31, (0,0)⟩, ⟨n "stocks", 0, 32, (0,0)⟩,
  ⟨n "state_age", 5, 33, (0,2)⟩,
  ⟨n "state_flags.0", 0, 37, (2,0)⟩, ⟨n "state_flags.1", 0, 38, (2,0)⟩, ⟨n "state_flags.2", 0, 39, (2,0)⟩, ⟨n "state_flags.3", 0, 40, (2,0)⟩,
  ⟨n "state_flags.4", 0, 41, (2,0)⟩, ⟨n "misc_as", 5, 42, (2,0)⟩, ⟨n "airborne", 0, 46, (2,0)⟩, ⟨n "ground", 2, 47, (2,0)⟩,
  ⟨n "jumps", 0, 49, (2,0)⟩, ⟨n "l_cancel", 0, 50, (2,0)⟩, ⟨n "hurtbox_state", 0, 51, (2,1)⟩,
  ⟨n "velocities.self_x_air", 5, 52, (3,5)⟩, ⟨n "velocities.self_y", 5, 56, (3,5)⟩, ⟨n "velocities.knockback_x", 5, 60, (3,5)⟩,
  ⟨n "velocities.knockback_y", 5, 64, (3,5)⟩, ⟨n "velocities.self_x_ground", 5, 68, (3,5)⟩,
  ⟨n "hitlag", 5, 72, (3,8)⟩, ⟨n "animation_index", 3, 76, (3,11)⟩,
  ⟨n "last_hit_by_instance", 2, 80, (3,16)⟩, ⟨n "instance_id", 2, 82, (3,16)⟩]

def startHdr : Nat := 4   -- frame id
def start : List SField := [⟨n "random_seed", 3, 4, (0,0)⟩, ⟨n "scene_frame_counter", 3, 8, (3,10)⟩]

def itemHdr : Nat := 4
def item : List SField := [
  ⟨n "type", 2, 4, (0,0)⟩, ⟨n "state", 0, 6, (0,0)⟩, ⟨n "direction", 5, 7, (0,0)⟩, ⟨n "velocity.x", 5, 11, (0,0)⟩, ⟨n "velocity.y", 5, 15, (0,0)⟩,
  ⟨n "position.x", 5, 19, (0,0)⟩, ⟨n "position.y", 5, 23, (0,0)⟩, ⟨n "damage", 2, 27, (0,0)⟩, ⟨n "timer", 5, 29, (0,0)⟩, ⟨n "id", 3, 33, (0,0)⟩,
  ⟨n "misc.0", 0, 37, (3,2)⟩, ⟨n "misc.1", 0, 38, (3,2)⟩, ⟨n "misc.2", 0, 39, (3,2)⟩, ⟨n "misc.3", 0, 40, (3,2)⟩,
  ⟨n "owner", 1, 41, (3,6)⟩, ⟨n "instance_id", 2, 42, (3,16)⟩]

def endHdr : Nat := 4
def fend : List SField := [⟨n "latest_finalized_frame", 4, 4, (3,7)⟩]

end Peppi.Spec
