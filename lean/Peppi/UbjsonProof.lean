import Peppi.Ubjson
namespace Peppi

def encStr (s : Bytes) : Bytes := [0x55, UInt8.ofNat s.length] ++ s

mutual
  /-- the UBJSON subset as the spec lays it out -/
  def encTree : Tree → Bytes
    | .str s => 0x53 :: encStr s
    | .int n => 0x6c :: toBE 4 (ofI32 n)
    | .map m => 0x7b :: (encKVs m ++ [0x7d])
  def encKVs : KVs → Bytes
    | .nil => []
    | .cons k v rest => encStr k ++ encTree v ++ encKVs rest
end

section
variable (utf8 : Bytes → Bool)

mutual
  /-- `d` = nesting level of the map that contains this value -/
  def Tree.WF : Nat → Tree → Prop
    | _, .str s => s.length ≤ 255 ∧ utf8 s = true
    | _, .int n => -2^31 ≤ n ∧ n < 2^31
    | d, .map m => KVs.WF (d+1) m
  /-- a map at nesting level `d` (the top-level `metadata` map is level 1) -/
  def KVs.WF : Nat → KVs → Prop
    | d, .nil => d ≤ MAX_DEPTH
    | d, .cons k v rest => k.length ≤ 255 ∧ utf8 k = true ∧ Tree.WF d v ∧ KVs.WF d rest ∧ rest.hasKey k = false
end

mutual
  def costT : Tree → Nat
    | .str _ => 1
    | .int _ => 1
    | .map m => 1 + costK m
  def costK : KVs → Nat
    | .nil => 1
    | .cons _ v rest => 1 + max (costT v) (costK rest)
end

theorem toUtf8_enc (s rest : Bytes) (h1 : s.length ≤ 255) (h2 : utf8 s = true) :
    toUtf8 utf8 (UInt8.ofNat s.length :: (s ++ rest)) = .ok (s, rest) := by
  have hl : (UInt8.ofNat s.length).toNat = s.length := by simp [UInt8.toNat_ofNat']; omega
  simp [toUtf8, hl, h2]

theorem KVs.WF_depth (d : Nat) : (m : KVs) → KVs.WF utf8 d m → d ≤ MAX_DEPTH
  | .nil, h => by simpa [KVs.WF] using h
  | .cons _ _ rest, h => by simp only [KVs.WF] at h; exact KVs.WF_depth d rest h.2.2.2.1

theorem KVs.insert_fresh (k : Bytes) (v : Tree) : (acc : KVs) → acc.hasKey k = false → acc.insert k v = acc.snoc k v
  | .nil, _ => rfl
  | .cons k' v' rest, h => by
    simp only [KVs.hasKey, Bool.or_eq_false_iff, beq_eq_false_iff_ne] at h
    simp only [KVs.insert, h.1, ↓reduceIte, KVs.snoc, KVs.insert_fresh k v rest h.2]

theorem KVs.snoc_append (k : Bytes) (v : Tree) (r : KVs) : (acc : KVs) → (acc.snoc k v).append r = acc.append (.cons k v r)
  | .nil => rfl
  | .cons k' v' rest => by simp only [KVs.snoc, KVs.append, KVs.snoc_append k v r rest]

theorem KVs.hasKey_snoc (k : Bytes) (v : Tree) (k2 : Bytes) : (acc : KVs) → (acc.snoc k v).hasKey k2 = (acc.hasKey k2 || k == k2)
  | .nil => by simp [KVs.snoc, KVs.hasKey]
  | .cons k' v' rest => by simp only [KVs.snoc, KVs.hasKey, KVs.hasKey_snoc k v k2 rest, Bool.or_assoc]

theorem KVs.append_nil : (acc : KVs) → acc.append .nil = acc
  | .nil => rfl
  | .cons k v rest => by simp only [KVs.append, KVs.append_nil rest]

mutual
  theorem toVal_enc (t : Tree) (d fuel : Nat) (rest : Bytes) (hwf : Tree.WF utf8 d t) (hf : costT t ≤ fuel) :
      toVal utf8 fuel d (encTree t ++ rest) = .ok (t, rest) := by
    match fuel, t with
    | 0, t => cases t <;> simp [costT] at hf
    | fuel+1, .str s =>
      simp only [Tree.WF] at hwf
      simp only [encTree, encStr, List.cons_append, List.nil_append, toVal, List.append_assoc]
      rw [toUtf8_enc utf8 s rest hwf.1 hwf.2]
    | fuel+1, .int n =>
      simp only [Tree.WF] at hwf
      have hl : (toBE 4 (ofI32 n)).length = 4 := toBE_length _ _
      simp only [encTree, List.cons_append, toVal, List.length_append, hl]
      have : ¬ (4 + rest.length < 4) := by omega
      simp only [this, ↓reduceIte]
      rw [List.take_left' hl, List.drop_left' hl, fromBE_toBE _ _ (ofI32_lt n hwf), toI32_ofI32 n hwf]
    | fuel+1, .map m =>
      simp only [Tree.WF] at hwf
      simp only [costT] at hf
      simp only [encTree, List.cons_append, List.append_assoc, List.nil_append, toVal]
      rw [readMapLoop_enc m (d+1) fuel rest .nil hwf (by omega) (by intro k _; rfl)]
      simp [KVs.append]
  theorem readMapLoop_enc (m : KVs) (d fuel : Nat) (rest : Bytes) (acc : KVs) (hwf : KVs.WF utf8 d m) (hf : costK m ≤ fuel)
      (hacc : ∀ k, m.hasKey k = true → acc.hasKey k = false) :
      readMapLoop utf8 fuel d (encKVs m ++ 0x7d :: rest) acc = .ok (acc.append m, rest) := by
    have hd : ¬ (d > MAX_DEPTH) := by have := KVs.WF_depth utf8 d m hwf; omega
    match fuel, m with
    | 0, m => cases m <;> simp [costK] at hf
    | fuel+1, .nil =>
      simp only [encKVs, List.nil_append, readMapLoop, hd, ↓reduceIte]
      rw [KVs.append_nil]
    | fuel+1, .cons k v r =>
      simp only [KVs.WF] at hwf
      obtain ⟨hk1, hk2, hv, hr, hfresh⟩ := hwf
      simp only [costK] at hf
      simp only [encKVs, encStr, List.cons_append, List.nil_append, List.append_assoc, readMapLoop, hd, ↓reduceIte]
      rw [toUtf8_enc utf8 k _ hk1 hk2]
      simp only []
      rw [toVal_enc v d fuel _ hv (by omega)]
      simp only []
      have hk : acc.hasKey k = false := hacc k (by simp [KVs.hasKey])
      rw [KVs.insert_fresh k v acc hk]
      rw [readMapLoop_enc r d fuel rest (acc.snoc k v) hr (by omega) (by
        intro k2 hk2
        rw [KVs.hasKey_snoc]
        have h1 := hacc k2 (by simp [KVs.hasKey, hk2])
        have h2 : (k == k2) = false := by
          apply beq_eq_false_iff_ne.mpr
          intro he; subst he; rw [hfresh] at hk2; cases hk2
        simp [h1, h2])]
      rw [KVs.snoc_append]
end

theorem writeUtf8_enc (s : Bytes) (h : s.length ≤ 255) : writeUtf8 s = .ok (encStr s) := by
  simp [writeUtf8, h, encStr]

mutual
  theorem writeVal_enc : (t : Tree) → (d : Nat) → Tree.WF utf8 d t → writeVal t = .ok (encTree t)
    | .str s, _, h => by simp only [Tree.WF] at h; simp [writeVal, writeUtf8_enc s h.1, Res.bind, encTree]
    | .int n, _, h => by
      simp only [Tree.WF] at h
      have h' : -2147483648 ≤ n ∧ n < 2147483648 := by omega
      simp [writeVal, h', encTree]
    | .map m, d, h => by simp only [Tree.WF] at h; simp [writeVal, writeMap_enc m (d+1) h, Res.bind, encTree]
  theorem writeMap_enc : (m : KVs) → (d : Nat) → KVs.WF utf8 d m → writeMap m = .ok (encKVs m)
    | .nil, _, _ => rfl
    | .cons k v rest, d, h => by
      simp only [KVs.WF] at h
      simp [writeMap, writeUtf8_enc k h.1, writeVal_enc v d h.2.2.1, writeMap_enc rest d h.2.2.2.1, Res.bind, encKVs]
end

mutual
  theorem costT_le : (t : Tree) → costT t ≤ (encTree t).length
    | .str s => by simp [costT, encTree, encStr]
    | .int n => by simp [costT, encTree]
    | .map m => by have := costK_le m; simp [costT, encTree]; omega
  theorem costK_le : (m : KVs) → costK m ≤ (encKVs m).length + 1
    | .nil => by simp [costK, encKVs]
    | .cons k v rest => by
      have h1 := costT_le v; have h2 := costK_le rest
      simp [costK, encKVs, encStr]; omega
end

/-- C16 (read half): the reader returns exactly the tree, in order, and stops after the closing brace. -/
theorem readMap_enc (m : KVs) (rest : Bytes) (h : KVs.WF utf8 1 m) :
    readMap utf8 (encKVs m ++ 0x7d :: rest) = .ok (m, rest) := by
  unfold readMap
  have := costK_le m
  rw [readMapLoop_enc utf8 m 1 _ rest .nil h (by simp; omega) (by intro k _; rfl)]
  simp [KVs.append]

end

#print axioms readMap_enc
#print axioms writeMap_enc
end Peppi
