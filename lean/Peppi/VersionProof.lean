import Peppi.Version
namespace Peppi

/-! ### comparison -/

theorem Ver.gte_iff (v : Ver) (M m : Nat) : v.gte M m = true ↔ (M < v.major ∨ (M = v.major ∧ m ≤ v.minor)) := by
  unfold Ver.gte; simp; omega

theorem Ver.lt_iff (v : Ver) (M m : Nat) : v.lt M m = true ↔ ¬ (M < v.major ∨ (M = v.major ∧ m ≤ v.minor)) := by
  unfold Ver.lt; rw [← Ver.gte_iff]; simp

/-- every gate is monotone in the version -/
theorem Ver.gte_mono (v w : Ver) (M m : Nat) (h : v.major < w.major ∨ (v.major = w.major ∧ v.minor ≤ w.minor))
    (hv : v.gte M m = true) : w.gte M m = true := by
  rw [Ver.gte_iff] at *; omega

/-- a later gate implies an earlier one (what makes nested `if version.gte` equal to per-field gates) -/
theorem Ver.gte_trans (v : Ver) (M m M' m' : Nat) (h : M' < M ∨ (M' = M ∧ m' ≤ m)) (hv : v.gte M m = true) : v.gte M' m' = true := by
  rw [Ver.gte_iff] at *; omega

theorem Ver.le_iff (a b : Ver) : a.le b = true ↔
    (a.major < b.major ∨ (a.major = b.major ∧ (a.minor < b.minor ∨ (a.minor = b.minor ∧ a.patch ≤ b.patch)))) := by
  unfold Ver.le; simp

/-- C09 core: the guard refuses exactly the versions above 3.16.0 in (major, minor, patch) order -/
theorem assertMaxVersion_iff (v : Ver) : assertMaxVersion v = .ok () ↔
    (v.major < 3 ∨ (v.major = 3 ∧ (v.minor < 16 ∨ (v.minor = 16 ∧ v.patch = 0)))) := by
  unfold assertMaxVersion
  by_cases h : v.le MAX_SUPPORTED_VERSION = true
  · simp only [h, ↓reduceIte, true_iff]; rw [Ver.le_iff] at h; simp [MAX_SUPPORTED_VERSION] at h; omega
  · simp only [h]; rw [Ver.le_iff] at h; simp [MAX_SUPPORTED_VERSION] at h ⊢; omega

/-! ### display / parse -/

theorem parse_show_u8 : ∀ n, n < 256 → parseU8 (showU8 n) = some n := by decide +kernel
theorem show_u8_nodot : ∀ n, n < 256 → (showU8 n).all (· ≠ '.') = true := by decide +kernel

theorem splitDot_ne_nil (s : List Char) : splitDot s ≠ [] := by
  induction s with
  | nil => simp [splitDot]
  | cons c cs ih =>
    simp only [splitDot]
    split
    · simp
    · split <;> simp

/-- a dot-free prefix followed by a dot is split off as the first component -/
theorem splitDot_append (a : List Char) (ha : a.all (· ≠ '.') = true) (rest : List Char) :
    splitDot (a ++ '.' :: rest) = a :: splitDot rest := by
  induction a with
  | nil => simp [splitDot]
  | cons c cs ih =>
    simp only [List.all_cons, Bool.and_eq_true, decide_eq_true_eq] at ha
    simp only [List.cons_append, splitDot, ha.1, ↓reduceIte, ih ha.2]

theorem splitDot_nodot (a : List Char) (ha : a.all (· ≠ '.') = true) : splitDot a = [a] := by
  induction a with
  | nil => simp [splitDot]
  | cons c cs ih =>
    simp only [List.all_cons, Bool.and_eq_true, decide_eq_true_eq] at ha
    simp only [splitDot, ha.1, ↓reduceIte, ih ha.2]

/-- C20: displaying any version and parsing the result returns the same version. -/
theorem Ver.parse_display (v : Ver) (h : v.WF) : Ver.parse v.display = .ok v := by
  obtain ⟨h1, h2, h3⟩ := h
  unfold Ver.parse Ver.display
  have : showU8 v.major ++ ['.'] ++ showU8 v.minor ++ ['.'] ++ showU8 v.patch
      = showU8 v.major ++ '.' :: (showU8 v.minor ++ '.' :: showU8 v.patch) := by simp
  rw [this, splitDot_append _ (show_u8_nodot _ h1), splitDot_append _ (show_u8_nodot _ h2),
    splitDot_nodot _ (show_u8_nodot _ h3)]
  simp [parse_show_u8 _ h1, parse_show_u8 _ h2, parse_show_u8 _ h3]

/-! ### what is accepted -/

/-- value of a digit string -/
def decVal : List Char → Nat → Nat
  | [], acc => acc
  | c :: cs, acc => decVal cs (acc * 10 + digitVal c)

/-- "an integer in 0..255" as the code reads it: optional single `+`, at least one ASCII digit,
    nothing else, value ≤ 255 (leading zeros allowed) -/
def U8Lit (s : List Char) (n : Nat) : Prop :=
  ∃ ds, (s = ds ∨ s = '+' :: ds) ∧ ds ≠ [] ∧ ds.all isDigit = true ∧ decVal ds 0 = n ∧ n ≤ 255

theorem decVal_mono (ds : List Char) (a : Nat) : a ≤ decVal ds a := by
  induction ds generalizing a with
  | nil => simp [decVal]
  | cons c cs ih => simp only [decVal]; have := ih (a * 10 + digitVal c); omega

theorem parseDigits_iff (ds : List Char) (acc n : Nat) (hacc : acc ≤ 255) :
    parseDigits ds acc = some n ↔ (ds.all isDigit = true ∧ decVal ds acc = n ∧ n ≤ 255) := by
  induction ds generalizing acc with
  | nil => simp [parseDigits, decVal]; omega
  | cons c cs ih =>
    simp only [parseDigits, List.all_cons, Bool.and_eq_true, decVal]
    by_cases hd : isDigit c = true
    · simp only [hd, ↓reduceIte, true_and]
      by_cases hle : acc * 10 + digitVal c ≤ 255
      · simp only [hle, ↓reduceIte]; exact ih _ hle
      · simp only [hle, ↓reduceIte, reduceCtorEq, false_iff, not_and]
        intro _ h; have := decVal_mono cs (acc * 10 + digitVal c); omega
    · simp [hd]

theorem isDigit_plus : isDigit '+' = false := by decide
theorem isDigit_minus : isDigit '-' = false := by decide

/-- `parse_u8` accepts exactly the `U8Lit`s -/
theorem parseU8_iff (s : List Char) (n : Nat) : parseU8 s = some n ↔ U8Lit s n := by
  unfold U8Lit
  constructor
  · intro h
    unfold parseU8 at h
    split at h
    · simp at h
    · simp at h
    · simp at h
    · rename_i rest hne
      have := (parseDigits_iff rest 0 n (by omega)).mp h
      refine ⟨rest, Or.inr rfl, ?_, this⟩
      intro hnil; subst hnil; simp at hne
    · rename_i hne1 hne2 hne3 hne4
      have := (parseDigits_iff s 0 n (by omega)).mp h
      refine ⟨s, Or.inl rfl, ?_, this⟩
      intro hnil; subst hnil; simp at hne1
  · rintro ⟨ds, hs, hne, hall, hval, hle⟩
    have hp := (parseDigits_iff ds 0 n (by omega)).mpr ⟨hall, hval, hle⟩
    cases ds with
    | nil => simp at hne
    | cons d ds' =>
      have hd : isDigit d = true := by simp [List.all_cons] at hall; exact hall.1
      rcases hs with rfl | rfl
      · unfold parseU8
        split
        · simp at *
        · rename_i heq; simp at heq; obtain ⟨rfl, _⟩ := heq; simp [isDigit_plus] at hd
        · rename_i heq; simp at heq; obtain ⟨rfl, _⟩ := heq; simp [isDigit_minus] at hd
        · rename_i rest _ heq; simp at heq; obtain ⟨rfl, _⟩ := heq; simp [isDigit_plus] at hd
        · exact hp
      · unfold parseU8
        split
        · simp at *
        · rename_i heq; simp at heq
        · rename_i heq; simp at heq
        · rename_i rest _ heq; simp at heq; subst heq; exact hp
        · rename_i _ _ _ h4; exact absurd rfl (h4 (d :: ds'))

def joinDot : List (List Char) → List Char
  | [] => []
  | [a] => a
  | a :: rest => a ++ '.' :: joinDot rest

theorem splitDot_spec (s : List Char) :
    (splitDot s).all (fun p => p.all (· ≠ '.')) = true ∧ joinDot (splitDot s) = s := by
  induction s with
  | nil => simp [splitDot, joinDot]
  | cons c cs ih =>
    simp only [splitDot]
    by_cases hc : c = '.'
    · subst hc
      simp only [↓reduceIte, List.all_cons, List.all_nil, Bool.true_and, ih.1, true_and]
      have hne := splitDot_ne_nil cs
      cases hsp : splitDot cs with
      | nil => exact absurd hsp hne
      | cons h t => rw [hsp] at ih; simp [joinDot, ih.2]
    · simp only [hc, ↓reduceIte]
      have hne := splitDot_ne_nil cs
      cases hsp : splitDot cs with
      | nil => exact absurd hsp hne
      | cons h t =>
        rw [hsp] at ih
        simp only [List.all_cons, Bool.and_eq_true] at ih ⊢
        refine ⟨⟨by simp only [List.all_cons, Bool.and_eq_true, decide_eq_true_eq]; exact ⟨hc, ih.1.1⟩, ih.1.2⟩, ?_⟩
        cases t with
        | nil => simpa [joinDot] using ih.2
        | cons t1 t2 => simpa [joinDot] using ih.2

/-- C20: `from_str` accepts exactly three dot-separated `U8Lit`s and returns their values. -/
theorem Ver.parse_iff (s : List Char) (v : Ver) : Ver.parse s = .ok v ↔
    ∃ a b c, s = a ++ '.' :: (b ++ '.' :: c) ∧ a.all (· ≠ '.') = true ∧ b.all (· ≠ '.') = true ∧ c.all (· ≠ '.') = true ∧
      U8Lit a v.major ∧ U8Lit b v.minor ∧ U8Lit c v.patch := by
  constructor
  · intro h
    unfold Ver.parse at h
    split at h
    · rename_i a b c hsp
      have hspec := splitDot_spec s
      rw [hsp] at hspec
      simp only [List.all_cons, List.all_nil, Bool.and_true, Bool.and_eq_true, joinDot] at hspec
      cases ha : parseU8 a with
      | none => simp [ha] at h
      | some x => cases hb : parseU8 b with
        | none => simp [ha, hb] at h
        | some y => cases hc : parseU8 c with
          | none => simp [ha, hb, hc] at h
          | some z =>
            simp only [ha, hb, hc, Res.ok.injEq] at h
            subst h
            exact ⟨a, b, c, hspec.2.symm, hspec.1.1, hspec.1.2.1, hspec.1.2.2,
              (parseU8_iff _ _).mp ha, (parseU8_iff _ _).mp hb, (parseU8_iff _ _).mp hc⟩
    · simp at h
  · rintro ⟨a, b, c, rfl, ha, hb, hc, la, lb, lc⟩
    unfold Ver.parse
    rw [splitDot_append _ ha, splitDot_append _ hb, splitDot_nodot _ hc]
    simp [(parseU8_iff _ _).mpr la, (parseU8_iff _ _).mpr lb, (parseU8_iff _ _).mpr lc]

/-- everything else is rejected with an error (never a panic) -/
theorem Ver.parse_total (s : List Char) : (∃ v, Ver.parse s = .ok v) ∨ (∃ e, Ver.parse s = .err e) := by
  unfold Ver.parse
  split
  · split
    · exact Or.inr ⟨_, rfl⟩
    · split
      · exact Or.inr ⟨_, rfl⟩
      · split
        · exact Or.inr ⟨_, rfl⟩
        · exact Or.inl ⟨_, rfl⟩
  · exact Or.inr ⟨_, rfl⟩

example : Ver.parse "3.16.0".toList = .ok ⟨3, 16, 0⟩ := by decide +kernel
example : Ver.parse "3.16".toList = .err "invalid version" := by decide +kernel

#print axioms Ver.parse_iff
#print axioms Ver.parse_display
#print axioms parseU8_iff
end Peppi

namespace Peppi
/-- the patch component plays no part in a gate: two versions with the same major and minor pass the same gates -/
theorem Ver.gte_patch (v : Ver) (p M m : Nat) : ({ v with patch := p } : Ver).gte M m = v.gte M m := rfl
theorem Ver.lt_patch (v : Ver) (p M m : Nat) : ({ v with patch := p } : Ver).lt M m = v.lt M m := rfl
/-- … and the comparison is total: exactly one of `gte` / `lt` holds, whatever the threshold (thresholds at the edge of `u8` included) -/
theorem Ver.gte_or_lt (v : Ver) (M m : Nat) : (v.gte M m = true ∧ v.lt M m = false) ∨ (v.gte M m = false ∧ v.lt M m = true) := by
  unfold Ver.lt; cases v.gte M m <;> simp
end Peppi
