/-! `format_hash`: `format!("xxh3:{:016x}", digest)` — model and its shape theorems (C11). -/
namespace Peppi

def hexDigit (n : Nat) : Char := if n < 10 then Char.ofNat (48 + n) else Char.ofNat (87 + n)

/-- `n` as exactly `k` lower-case hex digits, most significant first (the value is taken modulo 16^k) -/
def hexN : Nat → Nat → List Char
  | 0, _ => []
  | k+1, n => hexN k (n / 16) ++ [hexDigit (n % 16)]

/-- `format_hash` on a 64-bit digest -/
def formatHash (digest : Nat) : List Char := "xxh3:".toList ++ hexN 16 digest

theorem hexN_length (k n : Nat) : (hexN k n).length = k := by
  induction k generalizing n with
  | zero => rfl
  | succ k ih => simp [hexN, ih]

/-- 21 characters: the prefix and 16 digits, zero-padded -/
theorem formatHash_length (d : Nat) : (formatHash d).length = 21 := by
  simp [formatHash, hexN_length]

def isLowerHex (c : Char) : Bool := (c.toNat ≥ 48 && c.toNat ≤ 57) || (c.toNat ≥ 97 && c.toNat ≤ 102)

theorem hexDigit_lower : ∀ n, n < 16 → isLowerHex (hexDigit n) = true := by decide

theorem hexN_lower (k n : Nat) : ∀ c ∈ hexN k n, isLowerHex c = true := by
  induction k generalizing n with
  | zero => intro c hc; simp [hexN] at hc
  | succ k ih =>
    intro c hc
    simp only [hexN, List.mem_append, List.mem_singleton] at hc
    rcases hc with hc | rfl
    · exact ih _ c hc
    · exact hexDigit_lower _ (Nat.mod_lt _ (by decide))

theorem formatHash_prefix (d : Nat) : (formatHash d).take 5 = "xxh3:".toList := by
  simp [formatHash]

/-- value of a digit string -/
def hexVal (cs : List Char) : Nat :=
  cs.foldl (fun a c => a * 16 + (if c.toNat ≤ 57 then c.toNat - 48 else c.toNat - 87)) 0

theorem hexDigit_val : ∀ n, n < 16 → (if (hexDigit n).toNat ≤ 57 then (hexDigit n).toNat - 48 else (hexDigit n).toNat - 87) = n := by decide

theorem hexVal_hexN (k n : Nat) (h : n < 16 ^ k) : hexVal (hexN k n) = n := by
  induction k generalizing n with
  | zero => simp at h; subst h; rfl
  | succ k ih =>
    have hq : n / 16 < 16 ^ k := by
      rw [Nat.div_lt_iff_lt_mul (by decide)]; rw [Nat.pow_succ] at h; exact h
    simp only [hexN, hexVal, List.foldl_append, List.foldl_cons, List.foldl_nil]
    have := ih (n / 16) hq
    simp only [hexVal] at this
    rw [this, hexDigit_val _ (Nat.mod_lt _ (by decide))]
    omega

/-- distinct 64-bit digests have distinct renderings -/
theorem formatHash_inj (a b : Nat) (ha : a < 2 ^ 64) (hb : b < 2 ^ 64) (h : formatHash a = formatHash b) : a = b := by
  have h16 : (2:Nat) ^ 64 = 16 ^ 16 := by decide
  rw [h16] at ha hb
  have : hexN 16 a = hexN 16 b := by
    simp only [formatHash] at h
    exact List.append_cancel_left h
  rw [← hexVal_hexN 16 a ha, ← hexVal_hexN 16 b hb, this]

#print axioms formatHash_inj
end Peppi
