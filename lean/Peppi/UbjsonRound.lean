import Peppi.UbjsonProof
/-! C16, both directions in one statement each, and injectivity of the byte layout on well-formed trees. -/
namespace Peppi

/-- **write then read**: a well-formed metadata map is written without error, and reading what was written (followed by
    the closing brace and anything else) returns the same tree, key order included, and stops right behind the brace -/
theorem C16_write_read (utf8 : Bytes → Bool) (m : KVs) (rest : Bytes) (h : KVs.WF utf8 1 m) :
    ∃ bs, writeMap m = .ok bs ∧ readMap utf8 (bs ++ 0x7d :: rest) = .ok (m, rest) :=
  ⟨encKVs m, writeMap_enc utf8 m 1 h, readMap_enc utf8 m rest h⟩

/-- **read then write**: on the bytes of a well-formed map the reader's tree is written back as exactly those bytes -/
theorem C16_read_write (utf8 : Bytes → Bool) (m : KVs) (rest : Bytes) (h : KVs.WF utf8 1 m) :
    ∃ t r, readMap utf8 (encKVs m ++ 0x7d :: rest) = .ok (t, r) ∧ r = rest ∧ writeMap t = .ok (encKVs m) :=
  ⟨m, rest, readMap_enc utf8 m rest h, rfl, writeMap_enc utf8 m 1 h⟩

/-- the byte layout determines the tree: two well-formed maps with the same bytes are the same map (same keys, same
    order, same values) — nothing about a tree is lost in the file -/
theorem encKVs_inj (utf8 : Bytes → Bool) (m1 m2 : KVs) (h1 : KVs.WF utf8 1 m1) (h2 : KVs.WF utf8 1 m2)
    (h : encKVs m1 = encKVs m2) : m1 = m2 := by
  have r1 := readMap_enc utf8 m1 [] h1
  have r2 := readMap_enc utf8 m2 [] h2
  rw [h, r2] at r1
  have := Res.ok.inj r1
  exact (Prod.mk.inj this).1.symm

end Peppi

namespace Peppi
/-- non-vacuity: `{"b": "x", "a": {"n": -1}}` (keys out of alphabetical order, nested map, negative integer) is well formed -/
example : KVs.WF (fun _ => true) 1
    (.cons [0x62] (.str [0x78]) (.cons [0x61] (.map (.cons [0x6e] (.int (-1)) .nil)) .nil)) := by
  simp [KVs.WF, Tree.WF, KVs.hasKey, MAX_DEPTH]
end Peppi
