import Peppi.Rollbacks
/-! Model of `game/shift_jis.rs`: `fix_char`, `to_normalized`, and the NUL-truncating decode with the
    Shift-JIS decoder as a parameter. Code points are `Nat`s; `isScalar` is Rust's `char` validity. -/
namespace Peppi

def isScalar (n : Nat) : Prop := n < 0xD800 ∨ (0xE000 ≤ n ∧ n < 0x110000)
instance (n : Nat) : Decidable (isScalar n) := by unfold isScalar; infer_instance

/-- `fix_char`: the `match` on the code point, then `char::try_from(c).unwrap()` -/
def fixChar (c : Nat) : Res Nat :=
  let c' :=
    if 0xff01 ≤ c ∧ c ≤ 0xff5e then c + 0x0020 - 0xff00
    else if c = 0x3000 then 0x20
    else if c = 0x2019 then 0x27
    else if c = 0x201d then 0x22
    else c
  if isScalar c' then .ok c' else .panic "fix_char: char::try_from"

/-- what the property says normalisation is -/
def normSpec (c : Nat) : Nat :=
  if 0xff01 ≤ c ∧ c ≤ 0xff5e then c - 0xfee0
  else if c = 0x3000 then 0x20
  else if c = 0x2019 then 0x27
  else if c = 0x201d then 0x22
  else c

def mapRes {α β} (f : α → Res β) : List α → Res (List β)
  | [] => .ok []
  | a :: as => match f a with
    | .ok b => (match mapRes f as with | .ok bs => .ok (b :: bs) | .err e => .err e | .panic s => .panic s)
    | .err e => .err e
    | .panic s => .panic s

/-- `to_normalized`: `chars().map(fix_char).collect()` -/
def toNormalized (s : List Nat) : Res (List Nat) := mapRes fixChar s

/-- `impl TryFrom<&[u8]> for MeleeString`, with the decoder as a parameter -/
def meleeString (sjis : List UInt8 → Option (List Nat)) (field : List UInt8) : Res (List Nat) :=
  let firstNull := field.takeWhile (· ≠ 0)          -- `s[0..position(0).unwrap_or(len)]`
  match sjis firstNull with
  | some s => .ok s
  | none => .err "invalid Shift JIS sequence"

theorem fixChar_eq (c : Nat) (h : isScalar c) : fixChar c = .ok (normSpec c) ∧ isScalar (normSpec c) := by
  unfold fixChar normSpec isScalar at *
  split
  · rename_i h1
    have : c + 0x0020 - 0xff00 = c - 0xfee0 := by omega
    simp only [this]
    have : c - 0xfee0 < 0xD800 := by omega
    simp [this]
  · split
    · simp
    · split
      · simp
      · split
        · simp
        · simp [h]

theorem fixChar_idem (c : Nat) (h : isScalar c) : fixChar (normSpec c) = .ok (normSpec c) := by
  have h2 := (fixChar_eq c h).2
  have h3 := (fixChar_eq (normSpec c) h2).1
  rw [h3]
  congr 1
  unfold normSpec
  split
  · rename_i h1
    have : ¬ (0xff01 ≤ c - 0xfee0 ∧ c - 0xfee0 ≤ 0xff5e) := by omega
    simp only [this, ↓reduceIte]
    have a1 : ¬ (c - 0xfee0 = 0x3000) := by omega
    have a2 : ¬ (c - 0xfee0 = 0x2019) := by omega
    have a3 : ¬ (c - 0xfee0 = 0x201d) := by omega
    simp [a1, a2, a3]
  · split
    · simp
    · split
      · simp
      · split
        · simp
        · rename_i h1 h2 h3 h4; simp [h1, h2, h3, h4]

/-- never a panic, on any string of scalar values -/
theorem toNormalized_ok (s : List Nat) (h : ∀ c ∈ s, isScalar c) : toNormalized s = .ok (s.map normSpec) := by
  induction s with
  | nil => rfl
  | cons a as ih =>
    simp only [toNormalized, mapRes, (fixChar_eq a (h a (by simp))).1]
    have := ih (fun c hc => h c (by simp [hc]))
    simp only [toNormalized] at this
    simp [this]

theorem toNormalized_idem (s : List Nat) (h : ∀ c ∈ s, isScalar c) :
    toNormalized (s.map normSpec) = .ok (s.map normSpec) := by
  rw [toNormalized_ok _ (by intro c hc; simp at hc; obtain ⟨a, ha, rfl⟩ := hc; exact (fixChar_eq a (h a ha)).2)]
  congr 1
  simp only [List.map_map]
  apply List.map_congr_left
  intro a ha
  have := fixChar_idem a (h a ha)
  rw [(fixChar_eq _ (fixChar_eq a (h a ha)).2).1] at this
  simpa using this

/-- bytes after the first NUL never influence the result -/
theorem meleeString_nul (sjis) (a b : List UInt8) (h : a.takeWhile (· ≠ 0) = b.takeWhile (· ≠ 0)) :
    meleeString sjis a = meleeString sjis b := by
  unfold meleeString; rw [h]

theorem meleeString_prefix (sjis) (p rest : List UInt8) (hp : ∀ x ∈ p, x ≠ 0) :
    meleeString sjis (p ++ 0 :: rest) = meleeString sjis p := by
  apply meleeString_nul
  have h1 : (p ++ 0 :: rest).takeWhile (· ≠ 0) = p := by
    induction p with
    | nil => simp
    | cons x xs ih =>
      have hx := hp x (by simp)
      simp only [List.cons_append, List.takeWhile_cons, ne_eq, hx, not_false_eq_true, decide_true, ↓reduceIte]
      rw [ih (fun y hy => hp y (by simp [hy]))]
  have h2 : p.takeWhile (· ≠ 0) = p := by
    clear h1
    induction p with
    | nil => simp
    | cons x xs ih =>
      have hx := hp x (by simp)
      simp only [List.takeWhile_cons, ne_eq, hx, not_false_eq_true, decide_true, ↓reduceIte]
      rw [ih (fun y hy => hp y (by simp [hy]))]
  rw [h1, h2]

example : toNormalized [0xff21, 0x3000, 0x2019, 0x201d, 0x3042, 0xff5e, 0xff5f] = .ok [0x41, 0x20, 0x27, 0x22, 0x3042, 0x7e, 0xff5f] := by decide

#print axioms toNormalized_idem
#print axioms meleeString_prefix
end Peppi
