import Peppi.Res
import Peppi.Version
/-! Model of `game_start`, `player`, `game_end`, `player_end` (io/slippi/de.rs) and `port_occupancy`. -/
namespace Peppi

structure Team where
  color : Nat
  shade : Nat
deriving Repr, DecidableEq

structure Ucf where
  dashBack : Option Nat      -- 1 = UCF, 2 = Arduino
  shieldDrop : Option Nat
deriving Repr, DecidableEq

/-- Shift-JIS fields are kept as the slice handed to the decoder (first byte up to the first NUL) -/
structure Netplay where
  name : Bytes
  code : Bytes
  suid : Option Bytes
deriving Repr, DecidableEq

structure Player where
  port : Nat
  character : Nat
  type : Nat                 -- 0 human, 1 CPU, 2 demo
  stocks : Nat
  costume : Nat
  team : Option Team
  handicap : Nat
  bitfield : Nat
  cpuLevel : Option Nat
  offenseRatio : Nat         -- f32 bits
  defenseRatio : Nat
  modelScale : Nat
  ucf : Option Ucf
  nameTag : Option Bytes
  netplay : Option Netplay
deriving Repr, DecidableEq

structure Match where
  id : Bytes
  game : Nat
  tiebreaker : Nat
deriving Repr, DecidableEq

structure Start where
  version : Ver
  bitfield : Bytes
  isRainingBombs : Bool
  isTeams : Bool
  itemSpawnFrequency : Nat   -- i8 bits
  selfDestructScore : Nat
  stage : Nat
  timer : Nat
  itemSpawnBitfield : Bytes
  damageRatio : Nat
  players : List Player
  randomSeed : Nat
  bytes : Bytes
  isPal : Option Bool
  isFrozenPs : Option Bool
  scene : Option (Nat × Nat)       -- (minor, major)
  language : Option Nat
  match_ : Option Match
deriving Repr, DecidableEq

def NUM_PORTS : Nat := 4
def MAX_PLAYERS : Nat := 6
def ICE_CLIMBERS : Nat := 14

/-- externals of the start block: Shift-JIS and UTF-8 acceptance -/
structure TextOracle where
  sjisOk : Bytes → Bool
  utf8Ok : Bytes → Bool

def untilNul (b : Bytes) : Bytes := b.takeWhile (· ≠ 0)

/-- `MeleeString::try_from` -/
def meleeField (T : TextOracle) (b : Bytes) : Res Bytes :=
  if T.sjisOk (untilNul b) then .ok (untilNul b) else .err "invalid Shift JIS sequence"

/-- `first_null = position(0).unwrap_or(n)`; `from_utf8(&buf[0..first_null])` -/
def utf8Field (T : TextOracle) (b : Bytes) (dflt : Nat) : Res Bytes :=
  let s := if b.contains 0 then untilNul b else b.take dflt
  if T.utf8Ok s then .ok s else .err "invalid utf8"

def ucfEnum (x : Nat) : Res (Option Nat) :=
  if x = 0 then .ok none else if x = 1 ∨ x = 2 then .ok (some x) else .err "invalid enum"

/-- `player()` -/
def player (T : TextOracle) (port : Nat) (v0 : Bytes) (isTeams : Bool) (v1_0 : Option Bytes) (v1_3 : Option Bytes)
    (v3_9name v3_9code : Option Bytes) (v3_11 : Option Bytes) : Res (Option Player) := do
  let at_ (o w : Nat) : Nat := fromBE ((v0.drop o).take w)
  let character := at_ 0 1
  let tyByte := at_ 1 1
  let ty : Option Nat := if tyByte ≤ 2 then some tyByte else none
  let stocks := at_ 2 1
  let costume := at_ 3 1
  let teamShade := at_ 7 1
  let handicap := at_ 8 1
  let teamColor := at_ 9 1
  let team := if isTeams then some ⟨teamColor, teamShade⟩ else none
  let bitfield := at_ 12 1
  let cpuLevel := if ty = some 1 then some (at_ 15 1) else none
  let offense := at_ 24 4
  let defense := at_ 28 4
  let model := at_ 32 4
  let ucf ← match v1_0 with
    | some b => do
        let db ← ucfEnum (fromBE (b.take 4))
        let sd ← ucfEnum (fromBE ((b.drop 4).take 4))
        pure (some (Ucf.mk db sd))
    | none => pure none
  let nameTag ← match v1_3 with
    | some b => do let s ← meleeField T b; pure (some s)
    | none => pure none
  let netplay ← match v3_9name, v3_9code with
    | some nm, some cd => do
        let suid ← match v3_11 with
          | some b => do let s ← utf8Field T b 28; pure (some s)
          | none => pure none
        let name ← meleeField T nm
        let code ← meleeField T cd
        pure (some (Netplay.mk name code suid))
    | _, _ => pure none
  pure (ty.map fun t => { port, character, type := t, stocks, costume, team, handicap, bitfield, cpuLevel,
                          offenseRatio := offense, defenseRatio := defense, modelScale := model, ucf, nameTag, netplay })

/-- `player_bytes::<N, M>` -/
def playerBytes (n m : Nat) : Rd (List Bytes) := fun bs =>
  if bs.length < n * m then .err "eof"
  else .ok ((List.range m).map (fun i => (bs.drop (n * i)).take n), bs.drop (n * m))

def collectPlayers (ps : List (Res (Option Player))) : Res (List Player) :=
  ps.foldr (fun r acc => do
    let o ← r
    let rest ← acc
    pure (match o with | some p => p :: rest | none => rest)) (pure [])

/-- `game_start` -/
def gameStartP (T : TextOracle) (block : Bytes) : Rd Start := do
    let major ← Rd.u8; let minor ← Rd.u8; let patch ← Rd.u8
    Rd.skip 1
    let bitfield ← Rd.take 4
    Rd.skip 2
    let bombs ← Rd.u8
    Rd.skip 1
    let teams ← Rd.u8
    Rd.skip 2
    let isf ← Rd.u8
    let sds ← Rd.u8
    Rd.skip 1
    let stage ← Rd.be 2
    let timer ← Rd.be 4
    Rd.skip 15
    let isb ← Rd.take 5
    Rd.skip 8
    let damageRatio ← Rd.be 4
    Rd.skip 44
    let playersV0 ← playerBytes 36 MAX_PLAYERS
    let randomSeed ← Rd.be 4
    let v1_0 ← ifMore (playerBytes 8 NUM_PORTS)
    let v1_3 ← ifMore (playerBytes 16 NUM_PORTS)
    let isPal ← ifMore (do let b ← Rd.u8; pure (b != 0))
    let isFrozen ← ifMore (do let b ← Rd.u8; pure (b != 0))
    let scene ← ifMore (do let mi ← Rd.u8; let ma ← Rd.u8; pure (mi, ma))
    let v3_9 ← ifMore (do let a ← playerBytes 31 NUM_PORTS; let b ← playerBytes 10 NUM_PORTS; pure (a, b))
    let v3_11 ← ifMore (playerBytes 29 NUM_PORTS)
    let language ← ifMore (do let l ← Rd.u8; if l ≤ 1 then pure l else Rd.fail "invalid language")
    let match_ ← ifMore (do
      let buf ← Rd.take 51
      let id ← Rd.lift (utf8Field T buf 50)
      let game ← Rd.be 4
      let tb ← Rd.be 4
      pure (Match.mk id game tb))
    let isTeams := teams != 0
    let players ← Rd.lift (collectPlayers ((List.range NUM_PORTS).map fun n =>
      player T n (playersV0.getD n []) isTeams (v1_0.map (·.getD n [])) (v1_3.map (·.getD n []))
        (v3_9.map (·.1.getD n [])) (v3_9.map (·.2.getD n [])) (v3_11.map (·.getD n []))))
    pure { version := ⟨major, minor, patch⟩, bitfield, isRainingBombs := bombs != 0, isTeams,
           itemSpawnFrequency := isf, selfDestructScore := sds, stage, timer, itemSpawnBitfield := isb,
           damageRatio, players, randomSeed, bytes := block, isPal, isFrozenPs := isFrozen, scene, language, match_ }

/-- `game_start`: `let bytes = game::Bytes(r.to_vec())` is taken before parsing and stored verbatim -/
def gameStart (T : TextOracle) (block : Bytes) : Res Start :=
  match gameStartP T block block with
  | .ok (s, _) => .ok { s with bytes := block }
  | .err e => .err e
  | .panic s => .panic s

theorem gameStart_bytes (T : TextOracle) (block : Bytes) (s : Start) (h : gameStart T block = .ok s) : s.bytes = block := by
  unfold gameStart at h
  split at h
  · simp only [Res.ok.injEq] at h; subst h; rfl
  · simp at h
  · simp at h

structure PlayerEnd where
  port : Nat
  placement : Nat
deriving Repr, DecidableEq

structure End where
  method : Nat
  bytes : Bytes
  lrasInitiator : Option (Option Nat)
  players : Option (List PlayerEnd)
deriving Repr, DecidableEq

/-- `game_end` -/
def gameEndP (block : Bytes) : Rd End := do
    let method ← Rd.u8
    if ¬ (method ≤ 3 ∨ method = 7) then Rd.fail "invalid end method" else
    let lras ← ifMore (do
      let x ← Rd.u8
      if x = 255 then pure none else if x ≤ 3 then pure (some x) else Rd.fail "invalid port")
    let players ← ifMore (do
      let pl ← Rd.take 4
      -- placements as i8: 255 = -1 = none, 0..=3 ok, anything else is an error
      let rec go : Nat → List UInt8 → Res (List PlayerEnd)
        | _, [] => .ok []
        | n, b :: rest =>
          if b.toNat = 255 then go (n+1) rest
          else if b.toNat ≤ 3 then (do let t ← go (n+1) rest; pure (⟨n, b.toNat⟩ :: t))
          else .err "Invalid player placement"
      Rd.lift (go 0 pl))
    pure { method, bytes := block, lrasInitiator := lras, players }

/-- `game_end` -/
def gameEnd (block : Bytes) : Res End :=
  match gameEndP block block with
  | .ok (e, _) => .ok { e with bytes := block }
  | .err e => .err e
  | .panic s => .panic s

theorem gameEnd_bytes (block : Bytes) (e : End) (h : gameEnd block = .ok e) : e.bytes = block := by
  unfold gameEnd at h
  split at h
  · simp only [Res.ok.injEq] at h; subst h; rfl
  · simp at h
  · simp at h

/-- `game::End::size(version)` -/
def endSize (v : Ver) : Nat := if v.gte 3 13 then 6 else if v.gte 2 0 then 2 else 1

structure PortOccupancy where
  port : Nat
  follower : Bool
deriving Repr, DecidableEq

def portOccupancy (s : Start) : List PortOccupancy := s.players.map fun p => ⟨p.port, p.character == ICE_CLIMBERS⟩

end Peppi
