import Peppi.SlppCut
/-! C18, "the entries agree with each other": in the archive `write` produces, `start.json` / `end.json` are the JSON
    renderings of exactly what the reader reconstructs from `start.raw` / `end.raw`, and `peppi.json` is the rendering of the
    hash and quirks the reader returns; the entry names come in the documented order; writing is a function of the game
    (the same game gives the same bytes). -/
namespace Peppi

def lookupEntry (n : Bytes) (es : List (Bytes × Bytes)) : Option Bytes := (es.find? (·.1 = n)).map (·.2)

/-- the documented order of entry names -/
def entryNames (hasEnd hasGecko hasFrames : Bool) : List Bytes :=
  [N_PEPPI, N_META, N_STARTJ, N_STARTR] ++ ((if hasEnd then [N_ENDJ, N_ENDR] else []) ++
    ((if hasGecko then [N_GECKO] else []) ++ (if hasFrames then [N_FRAMES] else [])))

/-- **C18, entry order**: `peppi.json` first, then `metadata.json`, `start.json`, `start.raw`, the end pair when the game has
    an end, the Gecko blob when present, `frames.arrow` last when the game has frames -/
theorem slppEntries_names_order {μ φ : Type} (C : Codec μ φ) (g : PGame μ φ) (sb : Bytes) (eb : Option Bytes)
    (hend : eb.isSome = g.fend.isSome) :
    (slppEntries C g sb eb).map (·.1) = entryNames g.fend.isSome g.gecko.isSome g.frames.isSome := by
  cases hf : g.fend <;> cases he : eb <;> simp [hf, he] at hend <;>
    cases hk : g.gecko <;> cases hfr : g.frames <;> simp [slppEntries, entryNames, hf, hk, hfr]

/-- **C18, the JSON entries agree with the raw entries**: what the archive holds under `start.json` is the rendering of the
    start the reader parses from the archive's `start.raw`; likewise for the end pair; and `peppi.json` decodes to the hash and
    quirks of the game that is read back -/
theorem slppEntries_consistent {μ φ : Type} (C : Codec μ φ) (T : TextOracle) (g : PGame μ φ) (sb : Bytes) (eb : Option Bytes)
    (hstart : gameStart T sb = .ok g.start) (hend : eb.map gameEnd = g.fend.map Res.ok) :
    let es := slppEntries C g sb eb
    (∃ raw s, lookupEntry N_STARTR es = some raw ∧ gameStart T raw = .ok s ∧ lookupEntry N_STARTJ es = some (C.startJson s)) ∧
    (∀ e, g.fend = some e → ∃ raw, lookupEntry N_ENDR es = some raw ∧ gameEnd raw = .ok e ∧ lookupEntry N_ENDJ es = some (C.endJson e)) ∧
    (g.fend = none → lookupEntry N_ENDR es = none ∧ lookupEntry N_ENDJ es = none) ∧
    (∃ txt, lookupEntry N_PEPPI es = some txt ∧ C.decPeppi txt = .ok ⟨true, g.hash, g.quirks⟩) := by
  have d1 : ¬ N_PEPPI = N_STARTR := by decide
  have d2 : ¬ N_META = N_STARTR := by decide
  have d3 : ¬ N_STARTJ = N_STARTR := by decide
  have d4 : ¬ N_PEPPI = N_STARTJ := by decide
  have d5 : ¬ N_META = N_STARTJ := by decide
  have d6 : ¬ N_PEPPI = N_ENDR := by decide
  have d7 : ¬ N_META = N_ENDR := by decide
  have d8 : ¬ N_STARTJ = N_ENDR := by decide
  have d9 : ¬ N_STARTR = N_ENDR := by decide
  have d10 : ¬ N_ENDJ = N_ENDR := by decide
  have d11 : ¬ N_PEPPI = N_ENDJ := by decide
  have d12 : ¬ N_META = N_ENDJ := by decide
  have d13 : ¬ N_STARTJ = N_ENDJ := by decide
  have d14 : ¬ N_STARTR = N_ENDJ := by decide
  have d15 : ¬ N_GECKO = N_ENDR := by decide
  have d16 : ¬ N_GECKO = N_ENDJ := by decide
  have d17 : ¬ N_FRAMES = N_ENDR := by decide
  have d18 : ¬ N_FRAMES = N_ENDJ := by decide
  refine ⟨⟨sb, g.start, ?_, hstart, ?_⟩, ?_, ?_, ⟨C.encPeppi g.hash g.quirks, ?_, C.peppi_rt _ _⟩⟩
  · simp [lookupEntry, slppEntries, List.find?, d1, d2, d3]
  · simp [lookupEntry, slppEntries, List.find?, d4, d5]
  · intro e he
    cases hb : eb with
    | none => rw [hb, he] at hend; simp at hend
    | some raw =>
      rw [hb, he] at hend
      simp only [Option.map_some, Option.some.injEq] at hend
      refine ⟨raw, ?_, hend, ?_⟩
      · simp [lookupEntry, slppEntries, List.find?, he, hb, d6, d7, d8, d9, d10]
      · simp [lookupEntry, slppEntries, List.find?, he, hb, d11, d12, d13, d14]
  · intro he
    cases hk : g.gecko <;> cases hf : g.frames <;>
      simp [lookupEntry, slppEntries, List.find?, he, hk, hf, d6, d7, d8, d9, d11, d12, d13, d14, d15, d16, d17, d18]
  · simp [lookupEntry, slppEntries, List.find?]

/-- **C18, determinism**: the archive is a function of the game and its raw blocks -/
theorem slppWrite_deterministic {μ φ : Type} (C : Codec μ φ) (g g' : PGame μ φ) (sb sb' : Bytes) (eb eb' : Option Bytes)
    (h : g = g') (hs : sb = sb') (he : eb = eb') : slppWrite C g sb eb = slppWrite C g' sb' eb' := by
  subst h hs he; rfl

#print axioms slppEntries_names_order
#print axioms slppEntries_consistent
end Peppi
